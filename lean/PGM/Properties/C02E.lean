import PGM.Proofs.BfsRelist
import PGM.Proofs.GMQE2EGen
import PGM.Properties.C01E
import PGM.Properties.C02G
/-!
# C02 (end to end) — every query path of the GENERATED code answers from the one joint of the model the GENERATED `__init__` builds

Composition of the translator ties of `src/mbi/graphical_model.py`:

* `tools/py2gminit.py` (`__init__` → `Generated/GraphicalModelInitG.lean`) + `tools/py2jt.py` (junction_tree.py): `Properties/C01E.lean`
  — the contracts `Nx` / `Admissible`, `genInit`, `gen_init_checkJT`, `gen_init_modelOK`, `gen_exact_inference_end_to_end`;
* `tools/py2gm.py` (`belief_propagation`, `variable_elimination*`, `datavector` → `Generated/GraphicalModelG.lean`): `Properties/C01G.lean`;
* `tools/py2gmq.py` (`project`, `krondot`, `calculate_many_marginals` → `Generated/GraphicalModelQG.lean`): `Properties/C02G.lean`.

The object: `M = genInit nx d cliques total mode` (the fields the generated `__init__` stores, for any form of `elimination_order` and any
admissible behaviour of the networkx / set-iteration / random contracts), potentials `pots` over `M.cliques` (`C01E.PotsOK`: nonnegative
tables), `0 < total`, `Z ≠ 0` — bundled as `CallOK`.  The cache is the value the GENERATED statement
`self.marginals = self.belief_propagation(self.potentials)` stores on the model's own fields (`genCache` = `GMQ.manyCalibrate`).
The specification is the brute-force joint of `Proofs/Semantics.lean` (`joint`, `partition`, `marginal`).

1. `gen_query_paths_one_joint` — `project`, uncached (every admissible `greedy_order`) and cached: `total · marginal_attrs / Z`, in the
   requested order, summing to `total`; cached = uncached.
2. `gen_datavector_end_to_end`, `gen_krondot_end_to_end` — the materialised vector / the Kronecker query on the same joint;
   `gen_krondot_sums` — the all-ones Kronecker query returns the total.
3. `gen_manyMarginals_end_to_end` — `calculate_many_marginals` with the generated store as `marginals`, the generated `neighbors` field and
   the generated cached `project` as fallback; the only contract left is `floyd_warshall_predecessor_and_distance` (`PathsOK`).
4. `gen_answers_agree_on_shared_attributes` — any two answers agree after marginalising to their common attributes.

`PathsOK` is stated on `modelTree` (the tree of `self.junction_tree` with its nodes listed in `self.cliques` order); by
`pathsOK_generated_tree` (`Proofs/BfsRelist.lean`: the predecessor / distance read from the BFS table of a tree do not depend on the order
its nodes are listed in) this is equivalent to the plain networkx contract on the tree object `self.junction_tree.tree` itself —
`gen_manyMarginals_end_to_end_nx` is the theorem with the hypothesis in that form.

Not covered here: `save` / `load` (pickle) are not translated; `greedy_order` stays a contract
(`ElimOK`: any duplicate-free listing of `domain.invert(attrs)`); the stores `model.marginals = …` of inference.py are py2inf's.
-/
namespace PGM.C02E
open PGM PGM.JT PGM.GM PGM.Sem PGM.GMQGen PGM.GMGen PGM.C01.GMG PGM.C02.GMQ PGM.C12G PGM.C01E PGM.GMQE2E
set_option linter.unusedSectionVars false
set_option linter.unusedVariables false

section defs
variable {K : Type} [Field K] [LinearOrder K] [IsStrictOrderedRing K]

/-- **the call**: what the caller hands `GraphicalModel(domain, cliques, total, elimination_order)` and stores in `model.potentials`,
and what the library calls inside `__init__` may answer -/
structure CallOK (nx : Nx) (d : Dom) (cliques : List Clique) (mode : ElimMode) (total : LogOf K) (pots : CliqueVec (LogOf K)) :
    Prop where
  dom_wf : d.WF
  dom_ne : d.attrs ≠ []
  cliques_ok : ∀ c ∈ cliques, c.Nodup ∧ ∀ a ∈ c, a ∈ d.attrs
  adm : Admissible nx d cliques mode
  /-- one nonnegative table per clique of the generated model -/
  pots_ok : PotsOK d (genInit nx d cliques total mode).cliques pots
  total_pos : 0 < total.v
  Z_ne : partition d pots ≠ 0

variable (nx : Nx) (d : Dom) (cliques : List Clique) (mode : ElimMode) (total : LogOf K) (pots : CliqueVec (LogOf K))

/-- `self.marginals = self.belief_propagation(self.potentials)`: the GENERATED store, on the fields of the GENERATED `__init__` -/
def genCache : CliqueVec (PlainOf K) :=
  GMQ.manyCalibrate toPlain (genInit nx d cliques total mode).cliques (genInit nx d cliques total mode).message_order pots
    (genInit nx d cliques total mode).total

/-- `model.project(attrs)` on an object WITHOUT the attribute `marginals`: the GENERATED `project` on the generated fields -/
def genProjectU (greedy : Dom → List Clique → List Attr → List Attr) (b : Bool) (attrs : List Attr) : Factor (PlainOf K) :=
  GMQ.project toPlain greedy (genInit nx d cliques total mode).domain (genInit nx d cliques total mode).cliques none pots
    (genInit nx d cliques total mode).total b attrs

/-- `model.project(attrs)` on an object whose `marginals` is the generated store -/
def genProjectC (greedy : Dom → List Clique → List Attr → List Attr) (b : Bool) (attrs : List Attr) : Factor (PlainOf K) :=
  GMQ.project toPlain greedy (genInit nx d cliques total mode).domain (genInit nx d cliques total mode).cliques
    (some (genCache nx d cliques mode total pots)) pots (genInit nx d cliques total mode).total b attrs

variable {nx d cliques mode total pots}

/-- the generated `__init__` gives a model the C01 / C02 theorems apply to -/
theorem CallOK.modelOK (h : CallOK nx d cliques mode total pots) :
    ModelOK d (genInit nx d cliques total mode).cliques (modelTree nx d cliques total mode)
      (genInit nx d cliques total mode).message_order pots :=
  gen_init_modelOK nx d cliques mode total h.dom_wf h.dom_ne h.cliques_ok h.adm pots h.pots_ok

theorem CallOK.valid0 (h : CallOK nx d cliques mode total pots) : d.Valid (fun _ => 0) :=
  fun p hp => Bd.sizes_pos_of_partition_ne_zero d pots h.dom_wf h.Z_ne p hp

end defs

/-! ## 1. `project`: uncached, cached, and their agreement -/
section project
variable {K : Type} [Field K] [LinearOrder K] [IsStrictOrderedRing K]
variable {nx : Nx} {d : Dom} {cliques : List Clique} {mode : ElimMode} {total : LogOf K} {pots : CliqueVec (LogOf K)}

/-- **(a) the uncached path, end to end**: for every admissible result of `greedy_order`, the generated `project` on the generated model
returns the table `total · marginal_attrs / Z` of the brute-force joint, laid out in the requested order -/
theorem gen_project_uncached_end_to_end (h : CallOK nx d cliques mode total pots)
    (greedy : Dom → List Clique → List Attr → List Attr) (b : Bool) (attrs : List Attr)
    (hnd : attrs.Nodup) (hsub : ∀ a ∈ attrs, a ∈ d.attrs)
    (hg : ElimOK d attrs (greedy d ((genInit nx d cliques total mode).cliques ++ [attrs]) (d.invert attrs)))
    (σ : Attr → Nat) (hσ : d.Valid σ) :
    (genProjectU nx d cliques mode total pots greedy b attrs).dom.attrs = attrs ∧
    ((genProjectU nx d cliques mode total pots greedy b attrs).sem σ).v
      = total.v * marginal d pots attrs σ / partition d pots := by
  have hok := h.modelOK
  unfold genProjectU
  rw [gen_init_domain, gen_init_total]
  exact gen_project_correct_none greedy d _ pots total b attrs σ h.dom_wf (factorsOK hok) (pots_ne hok) (cover hok) hnd hsub hg hσ
    h.Z_ne

/-- **(b) the cached path, end to end**: with the cache the GENERATED `belief_propagation` leaves on the model's own potentials, the
generated `project` — answering from the first clique that contains the attributes, or, when none does, by variable elimination —
returns the same table -/
theorem gen_project_cached_end_to_end (h : CallOK nx d cliques mode total pots)
    (greedy : Dom → List Clique → List Attr → List Attr) (b : Bool) (attrs : List Attr)
    (hnd : attrs.Nodup) (hsub : ∀ a ∈ attrs, a ∈ d.attrs)
    (hg : ElimOK d attrs (greedy d ((genInit nx d cliques total mode).cliques ++ [attrs]) (d.invert attrs)))
    (σ : Attr → Nat) (hσ : d.Valid σ) :
    (genProjectC nx d cliques mode total pots greedy b attrs).dom.attrs = attrs ∧
    ((genProjectC nx d cliques mode total pots greedy b attrs).sem σ).v
      = total.v * marginal d pots attrs σ / partition d pots := by
  have hok := h.modelOK
  cases hf : (genInit nx d cliques total mode).cliques.find? (fun cl => JT.subset attrs cl) with
  | none =>
    have hU := gen_project_uncached_end_to_end h greedy b attrs hnd hsub hg σ hσ
    unfold genProjectU at hU
    unfold genProjectC
    rw [gen_project_miss toPlain greedy _ _ _ pots _ b attrs hf]
    rw [gen_project_none] at hU
    exact hU
  | some c =>
    have hc : c ∈ (genInit nx d cliques total mode).cliques := List.mem_of_find?_eq_some hf
    have hs : JT.subset attrs c = true := List.find?_some (p := fun cl => JT.subset attrs cl) hf
    obtain ⟨h1, h2⟩ := gen_project_cached_correct greedy hok (cache_keys hok _) (cache_wf hok _ h.Z_ne) (cache_cal hok _ h.Z_ne)
      (genInit nx d cliques total mode).total b attrs hnd ⟨c, hc, hs⟩ σ hσ
    unfold genProjectC genCache
    rw [gen_init_domain]
    refine ⟨h1, ?_⟩
    rw [h2, gen_init_total]
    ring

/-- which branch answers: when some clique of the model contains the attributes, the FIRST such clique's stored table, projected -/
theorem gen_project_cached_hit (greedy : Dom → List Clique → List Attr → List Attr) (b : Bool) (attrs : List Attr) (c : Clique)
    (hf : (genInit nx d cliques total mode).cliques.find? (fun cl => JT.subset attrs cl) = some c) :
    genProjectC nx d cliques mode total pots greedy b attrs
      = ((genCache nx d cliques mode total pots).get c).projectSum attrs := by
  unfold genProjectC
  exact gen_project_hit toPlain greedy _ _ _ pots _ b attrs c hf

/-- every answer sums to the model total -/
theorem sums_to_total_of_sem (h : CallOK nx d cliques mode total pots) (attrs : List Attr)
    (hnd : attrs.Nodup) (hsub : ∀ a ∈ attrs, a ∈ d.attrs) (F : Factor (PlainOf K))
    (hF : ∀ σ, d.Valid σ → (F.sem σ).v = total.v * marginal d pots attrs σ / partition d pots) :
    sumOver d attrs (fun _ => 0) (fun σ => (F.sem σ).v) = total.v := by
  rw [sumOver_congr_valid d h.dom_wf attrs _ _ _ h.valid0 hF]
  exact C02.project_sums_to_total d pots total attrs h.dom_wf hnd hsub h.Z_ne

/-- **`gen_query_paths_one_joint`** — for a model produced by the generated `__init__` (any form of `elimination_order`, any admissible
behaviour of the contracts) with nonnegative potentials, positive total and `Z ≠ 0`: for every duplicate-free attribute list inside the
domain, in ANY order, inside one clique or spanning several,

(a) the generated `project` without cache, for every admissible `greedy_order`,
(b) the generated `project` with the cache the generated `belief_propagation` returns on the model's own potentials (and any admissible
    `greedy_order'` for the fallback),

return the table `total · marginal_attrs / Z` of the ONE brute-force joint, over exactly the requested attributes in the requested order,
with cells summing to `total`; (c) hence the cached and the uncached answer coincide at every assignment -/
theorem gen_query_paths_one_joint (h : CallOK nx d cliques mode total pots)
    (greedy greedy' : Dom → List Clique → List Attr → List Attr) (b b' : Bool) (attrs : List Attr)
    (hnd : attrs.Nodup) (hsub : ∀ a ∈ attrs, a ∈ d.attrs)
    (hg : ElimOK d attrs (greedy d ((genInit nx d cliques total mode).cliques ++ [attrs]) (d.invert attrs)))
    (hg' : ElimOK d attrs (greedy' d ((genInit nx d cliques total mode).cliques ++ [attrs]) (d.invert attrs))) :
    -- (a) uncached
    ((genProjectU nx d cliques mode total pots greedy b attrs).dom.attrs = attrs ∧
      (∀ σ, d.Valid σ → ((genProjectU nx d cliques mode total pots greedy b attrs).sem σ).v
        = total.v * marginal d pots attrs σ / partition d pots) ∧
      sumOver d attrs (fun _ => 0) (fun σ => ((genProjectU nx d cliques mode total pots greedy b attrs).sem σ).v) = total.v) ∧
    -- (b) cached
    ((genProjectC nx d cliques mode total pots greedy' b' attrs).dom.attrs = attrs ∧
      (∀ σ, d.Valid σ → ((genProjectC nx d cliques mode total pots greedy' b' attrs).sem σ).v
        = total.v * marginal d pots attrs σ / partition d pots) ∧
      sumOver d attrs (fun _ => 0) (fun σ => ((genProjectC nx d cliques mode total pots greedy' b' attrs).sem σ).v) = total.v) ∧
    -- (c) cached = uncached
    (∀ σ, d.Valid σ → ((genProjectC nx d cliques mode total pots greedy' b' attrs).sem σ).v
      = ((genProjectU nx d cliques mode total pots greedy b attrs).sem σ).v) := by
  have hU := fun σ hσ => gen_project_uncached_end_to_end h greedy b attrs hnd hsub hg σ hσ
  have hC := fun σ hσ => gen_project_cached_end_to_end h greedy' b' attrs hnd hsub hg' σ hσ
  refine ⟨⟨(hU _ h.valid0).1, fun σ hσ => (hU σ hσ).2, sums_to_total_of_sem h attrs hnd hsub _ (fun σ hσ => (hU σ hσ).2)⟩,
    ⟨(hC _ h.valid0).1, fun σ hσ => (hC σ hσ).2, sums_to_total_of_sem h attrs hnd hsub _ (fun σ hσ => (hC σ hσ).2)⟩,
    fun σ hσ => by rw [(hC σ hσ).2, (hU σ hσ).2]⟩

end project

/-! ## 2. `datavector`, `krondot` -/
section vector
variable {K : Type} [Field K] [LinearOrder K] [IsStrictOrderedRing K]
variable {nx : Nx} {d : Dom} {cliques : List Clique} {mode : ElimMode} {total : LogOf K} {pots : CliqueVec (LogOf K)}

/-- **`datavector()`, end to end**: the vector the GENERATED `datavector` materialises from the fields of the generated `__init__` lists,
in row-major order over the whole domain, `total · joint / Z` of the same brute-force joint — the weight
`ans.domain.size() / self.domain.size()` the source computes is 1 (`wgtOf_one`: the model's cliques cover the domain) -/
theorem gen_datavector_end_to_end (h : CallOK nx d cliques mode total pots) (idx : List Nat) (hidx : InRange d.shape idx) :
    (GMG.datavector (fun x : LogOf K => (⟨x.v⟩ : PlainOf K)) (genInit nx d cliques total mode).domain
        (genInit nx d cliques total mode).cliques pots (⟨(genInit nx d cliques total mode).total.v⟩ : PlainOf K))[ravel d.shape idx]?
      = some ⟨total.v * joint pots (Dom.assign d.attrs idx) / partition d pots⟩ := by
  have hok := h.modelOK
  obtain ⟨_, hcnd, _, _⟩ := modelOK_facts d _ _ _ pots hok
  have hcne := cliques_ne hok
  have hsizes := Bd.sizes_pos_of_partition_ne_zero d pots h.dom_wf h.Z_ne
  have hhead : (genInit nx d cliques total mode).cliques.headD [] ∈ (modelTree nx d cliques total mode).nodes := by
    rw [hok.nodes]
    cases hcl : (genInit nx d cliques total mode).cliques with
    | nil => exact absurd hcl hcne
    | cons c cs => simp
  have hs : Shaped (pots.get ((genInit nx d cliques total mode).cliques.headD [])) :=
    Shaped.of_wf ((BP.mok_of_modelOK d _ _ _ pots hok).pot _ hhead).1
  rw [gen_init_domain, gen_init_total,
    gen_datavector addZero_LogOf (fun x : LogOf K => (⟨x.v⟩ : PlainOf K)) d _ pots _ hcne hs, wgtOf_one hok hsizes]
  have := C02.datavector_correct d _ pots total h.dom_wf (factorsOK hok) hok.keys hcnd hcne (cover hok) hsizes h.Z_ne idx hidx
  unfold Factor.datavector
  rw [this]
  congr 2
  ring

/-- **`krondot`, end to end**: entry `(r₁,…,r_k)` of what the GENERATED `krondot` returns on the fields of the generated `__init__` —
the normaliser is the `exp(logZ)` the generated `belief_propagation(…, logZ=True)` computes on the generated schedule — is
`Σ_x (Π_i Qᵢ[rᵢ, xᵢ]) · total · joint(x) / Z`: the Kronecker-product query applied to the same joint -/
theorem gen_krondot_end_to_end (h : CallOK nx d cliques mode total pots)
    (mats : List (Nat × List (PlainOf K)))
    (hfresh : ∀ a ∈ d.attrs, (a ++ "-answer") ∉ d.attrs)
    (hinj : ∀ a ∈ d.attrs, ∀ b ∈ d.attrs, a ++ "-answer" = b ++ "-answer" → a = b)
    (hlen : mats.length = d.length)
    (hshape : ∀ i (hi : i < mats.length), (mats[i]).2.length = (mats[i]).1 * (d.shape.getD i 0))
    (ridx : List Nat) (hr : InRange (mats.map (·.1)) ridx) :
    ((GMQ.krondot (toPlain (K := K)) (fun x : LogOf K => (⟨x.v⟩ : PlainOf K)) (genInit nx d cliques total mode).domain
        (genInit nx d cliques total mode).cliques (genInit nx d cliques total mode).message_order pots
        (⟨(genInit nx d cliques total mode).total.v⟩ : PlainOf K) (matsOf d mats)).get ridx).v
      = sumOver d d.attrs (fun _ => 0) (fun τ =>
          ((List.range d.length).map (fun i =>
            (((mats.getD i (0, [])).2).getD (ridx.getD i 0 * d.shape.getD i 0 + τ (d.attrs.getD i "")) ⟨0⟩).v)).prod
          * joint pots τ) * total.v / partition d pots := by
  rw [gen_init_domain, gen_init_total]
  exact gen_krondot_correct d _ _ _ pots h.modelOK mats ⟨total.v⟩ hfresh hinj hlen hshape
    (Bd.sizes_pos_of_partition_ne_zero d pots h.dom_wf h.Z_ne) ridx hr

/-- the total query: one all-ones row per attribute -/
def onesMats (d : Dom) : List (Nat × List (PlainOf K)) := d.map (fun p => (1, List.replicate p.2 (⟨1⟩ : PlainOf K)))

theorem inRange_ones (n : Nat) : InRange (List.replicate n 1) (List.replicate n 0) := by
  induction n with
  | zero => exact trivial
  | succ n ih => exact ⟨Nat.zero_lt_one, ih⟩

theorem ones_entry (d : Dom) (τ : Attr → Nat) (hτ : d.Valid τ) (i : Nat) (hi : i < d.length) :
    ((((onesMats (K := K) d).getD i (0, [])).2).getD
      ((List.replicate d.length 0).getD i 0 * d.shape.getD i 0 + τ (d.attrs.getD i "")) ⟨0⟩).v = 1 := by
  have hlt : τ (d[i]).1 < (d[i]).2 := hτ _ (List.getElem_mem hi)
  simp only [onesMats, Dom.shape, Dom.attrs, List.getD_eq_getElem?_getD, List.getElem?_map, List.getElem?_eq_getElem hi,
    List.getElem?_replicate, hi, if_true, Option.map_some, Option.getD_some, Nat.zero_mul, Nat.zero_add, hlt]

/-- **`gen_krondot_sums`**: the Kronecker query whose every factor is a single all-ones row — the total query — answered by the
GENERATED `krondot` on the fields of the generated `__init__` is the model total -/
theorem gen_krondot_sums (h : CallOK nx d cliques mode total pots)
    (hfresh : ∀ a ∈ d.attrs, (a ++ "-answer") ∉ d.attrs)
    (hinj : ∀ a ∈ d.attrs, ∀ b ∈ d.attrs, a ++ "-answer" = b ++ "-answer" → a = b) :
    ((GMQ.krondot (toPlain (K := K)) (fun x : LogOf K => (⟨x.v⟩ : PlainOf K)) (genInit nx d cliques total mode).domain
        (genInit nx d cliques total mode).cliques (genInit nx d cliques total mode).message_order pots
        (⟨(genInit nx d cliques total mode).total.v⟩ : PlainOf K) (matsOf d (onesMats d))).get (List.replicate d.length 0)).v
      = total.v := by
  have hsizes := Bd.sizes_pos_of_partition_ne_zero d pots h.dom_wf h.Z_ne
  rw [gen_krondot_end_to_end h (onesMats d) hfresh hinj (by simp [onesMats])
    (by
      intro i hi
      have hi' : i < d.length := by simpa [onesMats] using hi
      simp [onesMats, Dom.shape, List.getD_eq_getElem?_getD, hi'])
    (List.replicate d.length 0)
    (by
      have : (onesMats (K := K) d).map (·.1) = List.replicate d.length 1 := by
        simp only [onesMats, List.map_map]
        exact List.eq_replicate_iff.mpr ⟨by simp, fun b hb => by obtain ⟨p, _, rfl⟩ := List.mem_map.mp hb; rfl⟩
      rw [this]; exact inRange_ones _)]
  rw [sumOver_congr_valid d h.dom_wf d.attrs (fun _ => 0) _ (joint pots) (fun p hp => hsizes p hp) (fun τ hτ => by
    rw [List.prod_eq_one (fun x hx => by
      obtain ⟨i, hi, rfl⟩ := List.mem_map.mp hx
      exact ones_entry d τ hτ i (List.mem_range.mp hi)), one_mul])]
  show partition d pots * total.v / partition d pots = total.v
  field_simp [h.Z_ne]

end vector

/-! ## 4. any two answers agree on the attributes they share -/
section agree
variable {K : Type} [Field K] [LinearOrder K] [IsStrictOrderedRing K]

/-- `f` (a table read as a function of the assignment) is THE answer of the model for the attribute list `as`: at every assignment of
the domain it is `total · marginal_as / Z` of the brute-force joint -/
def AnswerOf (d : Dom) (pots : CliqueVec (LogOf K)) (total : LogOf K) (as : List Attr) (f : (Attr → Nat) → K) : Prop :=
  ∀ σ, d.Valid σ → f σ = total.v * marginal d pots as σ / partition d pots

variable {nx : Nx} {d : Dom} {cliques : List Clique} {mode : ElimMode} {total : LogOf K} {pots : CliqueVec (LogOf K)}

/-- the uncached generated `project` gives the answer … -/
theorem answer_projectU (h : CallOK nx d cliques mode total pots) (greedy : Dom → List Clique → List Attr → List Attr) (b : Bool)
    (attrs : List Attr) (hnd : attrs.Nodup) (hsub : ∀ a ∈ attrs, a ∈ d.attrs)
    (hg : ElimOK d attrs (greedy d ((genInit nx d cliques total mode).cliques ++ [attrs]) (d.invert attrs))) :
    AnswerOf d pots total attrs (fun σ => ((genProjectU nx d cliques mode total pots greedy b attrs).sem σ).v) :=
  fun σ hσ => (gen_project_uncached_end_to_end h greedy b attrs hnd hsub hg σ hσ).2

/-- … so does the cached one … -/
theorem answer_projectC (h : CallOK nx d cliques mode total pots) (greedy : Dom → List Clique → List Attr → List Attr) (b : Bool)
    (attrs : List Attr) (hnd : attrs.Nodup) (hsub : ∀ a ∈ attrs, a ∈ d.attrs)
    (hg : ElimOK d attrs (greedy d ((genInit nx d cliques total mode).cliques ++ [attrs]) (d.invert attrs))) :
    AnswerOf d pots total attrs (fun σ => ((genProjectC nx d cliques mode total pots greedy b attrs).sem σ).v) :=
  fun σ hσ => (gen_project_cached_end_to_end h greedy b attrs hnd hsub hg σ hσ).2

/-- … and the materialised vector, read at the row-major position of the assignment, is the answer for ALL the attributes -/
theorem answer_datavector (h : CallOK nx d cliques mode total pots) :
    AnswerOf d pots total d.attrs (fun σ =>
      (((GMG.datavector (fun x : LogOf K => (⟨x.v⟩ : PlainOf K)) (genInit nx d cliques total mode).domain
        (genInit nx d cliques total mode).cliques pots
        (⟨(genInit nx d cliques total mode).total.v⟩ : PlainOf K))[ravel d.shape (d.attrs.map σ)]?).getD ⟨0⟩).v) := by
  intro σ hσ
  have hok := h.modelOK
  dsimp only
  rw [gen_datavector_end_to_end h (d.attrs.map σ) (Factor.inRange_of_valid d h.dom_wf σ hσ), Option.getD_some, Bd.marginal_full]
  have hdep := Bd.dependsOn_joint pots d.attrs (Bd.modelOK_attrs_sub d _ _ _ pots hok)
  rw [hdep (Dom.assign d.attrs (d.attrs.map σ)) σ (fun a ha => by
    rw [Sem.assign_eq_override, override_of_mem _ _ _ _ ha]
    exact getD_map_idxOf d.attrs σ 0 a ha)]

/-- every answer sums to the model total (for the data vector: the whole vector sums to `total`) -/
theorem answer_sums_to_total (h : CallOK nx d cliques mode total pots) (as : List Attr) (has : as.Nodup)
    (hsa : ∀ a ∈ as, a ∈ d.attrs) (f : (Attr → Nat) → K) (hf : AnswerOf d pots total as f) :
    sumOver d as (fun _ => 0) f = total.v := by
  rw [sumOver_congr_valid d h.dom_wf as _ _ _ h.valid0 hf]
  exact C02.project_sums_to_total d pots total as h.dom_wf has hsa h.Z_ne

/-- **two answers agree after marginalising to any common sub-list of their attributes**: both sums are the answer for that sub-list -/
theorem answers_agree_on (hd : d.WF) (hZ : partition d pots ≠ 0) (as bs cs : List Attr) (f g : (Attr → Nat) → K)
    (hf : AnswerOf d pots total as f) (hg : AnswerOf d pots total bs g)
    (has : as.Nodup) (hbs : bs.Nodup) (hcs : cs.Nodup) (hsa : ∀ a ∈ as, a ∈ d.attrs) (hsb : ∀ a ∈ bs, a ∈ d.attrs)
    (hca : ∀ c ∈ cs, c ∈ as) (hcb : ∀ c ∈ cs, c ∈ bs) (σ : Attr → Nat) (hσ : d.Valid σ) :
    sumOver d (as.filter (fun a => !cs.contains a)) σ f = total.v * marginal d pots cs σ / partition d pots ∧
    sumOver d (bs.filter (fun a => !cs.contains a)) σ g = total.v * marginal d pots cs σ / partition d pots := by
  constructor
  · rw [sumOver_congr_valid d hd _ σ _ _ hσ hf, sumOver_div, sumOver_mul_left,
      C02.marginal_consistent d pots as cs σ hd has hcs hsa hca hσ]
  · rw [sumOver_congr_valid d hd _ σ _ _ hσ hg, sumOver_div, sumOver_mul_left,
      C02.marginal_consistent d pots bs cs σ hd hbs hcs hsb hcb hσ]

/-- **`gen_answers_agree_on_shared_attributes`** — on a model built by the generated `__init__`, any two answers (`AnswerOf`: what
`answer_projectU`, `answer_projectC`, `answer_datavector`, `answer_manyMarginals` establish for the generated query paths), for attribute
lists `as` and `bs` in any orders, coincide once each is summed down to the attributes they share (`JT.inter as bs`, listed in `as`'s
order): both give the model's answer for the shared attributes -/
theorem gen_answers_agree_on_shared_attributes (h : CallOK nx d cliques mode total pots) (as bs : List Attr)
    (f g : (Attr → Nat) → K) (hf : AnswerOf d pots total as f) (hg : AnswerOf d pots total bs g)
    (has : as.Nodup) (hbs : bs.Nodup) (hsa : ∀ a ∈ as, a ∈ d.attrs) (hsb : ∀ a ∈ bs, a ∈ d.attrs)
    (σ : Attr → Nat) (hσ : d.Valid σ) :
    sumOver d (as.filter (fun a => !(JT.inter as bs).contains a)) σ f
      = sumOver d (bs.filter (fun a => !(JT.inter as bs).contains a)) σ g ∧
    sumOver d (as.filter (fun a => !(JT.inter as bs).contains a)) σ f
      = total.v * marginal d pots (JT.inter as bs) σ / partition d pots := by
  have hca : ∀ c ∈ JT.inter as bs, c ∈ as := fun c hc => (List.mem_filter.mp hc).1
  have hcb : ∀ c ∈ JT.inter as bs, c ∈ bs := fun c hc => by simpa using (List.mem_filter.mp hc).2
  obtain ⟨h1, h2⟩ := answers_agree_on h.dom_wf h.Z_ne as bs (JT.inter as bs) f g hf hg has hbs (has.filter _) hsa hsb hca hcb σ hσ
  exact ⟨h1.trans h2.symm, h1⟩

/-- an instance on the generated terms: the CACHED `project` asked for `as` and the UNCACHED `project` asked for `bs` (different
`greedy_order` outcomes, different orders of the attributes) agree on the shared attributes -/
theorem gen_project_paths_agree_on_shared_attributes (h : CallOK nx d cliques mode total pots)
    (greedy greedy' : Dom → List Clique → List Attr → List Attr) (b b' : Bool) (as bs : List Attr)
    (has : as.Nodup) (hbs : bs.Nodup) (hsa : ∀ a ∈ as, a ∈ d.attrs) (hsb : ∀ a ∈ bs, a ∈ d.attrs)
    (hg : ElimOK d as (greedy d ((genInit nx d cliques total mode).cliques ++ [as]) (d.invert as)))
    (hg' : ElimOK d bs (greedy' d ((genInit nx d cliques total mode).cliques ++ [bs]) (d.invert bs)))
    (σ : Attr → Nat) (hσ : d.Valid σ) :
    sumOver d (as.filter (fun a => !(JT.inter as bs).contains a)) σ
        (fun τ => ((genProjectC nx d cliques mode total pots greedy b as).sem τ).v)
      = sumOver d (bs.filter (fun a => !(JT.inter as bs).contains a)) σ
        (fun τ => ((genProjectU nx d cliques mode total pots greedy' b' bs).sem τ).v) :=
  (gen_answers_agree_on_shared_attributes h as bs _ _ (answer_projectC h greedy b as has hsa hg)
    (answer_projectU h greedy' b' bs hbs hsb hg') has hbs hsa hsb σ hσ).1

end agree

/-! ## 3. `calculate_many_marginals` -/
section many
variable {K : Type} [Field K] [LinearOrder K] [IsStrictOrderedRing K]
variable {nx : Nx} {d : Dom} {cliques : List Clique} {mode : ElimMode} {total : LogOf K} {pots : CliqueVec (LogOf K)}

/-- **the field `self.neighbors` of the generated `__init__` satisfies the contract `NeighborsOK`** of C02G on the model's tree, whatever
`dfs_preorder_nodes` answers inside `tree.neighbors()` (C01E `gen_init_neighbors`) — the hypothesis is discharged, not assumed -/
theorem gen_init_neighborsOK (h : CallOK nx d cliques mode total pots) :
    NeighborsOK (modelTree nx d cliques total mode) (genInit nx d cliques total mode).neighbors := by
  obtain ⟨hkeys, hent⟩ := gen_init_neighbors nx d cliques total mode h.dom_wf h.dom_ne h.cliques_ok h.adm
  intro u hu v hv
  rw [modelTree_nodes] at hu
  have hk : u ∈ (genInit nx d cliques total mode).neighbors.map Prod.fst := hkeys.mem_iff.mpr hu
  refine ⟨hk, ?_⟩
  obtain ⟨hvn, hadj⟩ := List.mem_filter.mp hv
  rw [modelTree_nodes] at hvn
  unfold GMQ.nbGet
  cases hlk : List.lookup u (genInit nx d cliques total mode).neighbors with
  | none =>
    rw [List.lookup_eq_none_iff] at hlk
    obtain ⟨⟨k, s⟩, hks, hkeq⟩ := List.mem_map.mp hk
    simp only at hkeq
    subst hkeq
    exact absurd (beq_self_eq_true k) (by simpa using hlk (k, s) hks)
  | some s =>
    have hin : (u, s) ∈ (genInit nx d cliques total mode).neighbors := by
      obtain ⟨l₁, l₂, hl, _⟩ := List.lookup_eq_some_iff.mp hlk
      rw [hl]; simp
    exact (hent (u, s) hin v).mpr ⟨hvn, hadj⟩

/-- **`gen_manyMarginals_end_to_end`** — the GENERATED `calculate_many_marginals` on the object the generated `__init__` builds:
`marginals` := the generated store (`genCache`, the generated `belief_propagation` on the model's own potentials — calibrated by
`gen_exact_inference_end_to_end`), `neighbors` := the generated field (`gen_init_neighborsOK`), the fallback := the generated `project`
of the same object (which then sees the store: `genProjectC`).  The ONE remaining contract is
`nx.floyd_warshall_predecessor_and_distance` (`PathsOK`: predecessor / number of edges on the unique path of the tree).  For ANY list
of projections (duplicates allowed; each a duplicate-free attribute tuple inside the domain, in any order, inside one clique, spanning
two cliques — the out-of-clique path — or more — the fallback): every entry of the returned dictionary is the table
`total · marginal_key / Z` of the same brute-force joint, laid out in the requested order, summing to `total`; every requested
projection is a key -/
theorem gen_manyMarginals_end_to_end (h : CallOK nx d cliques mode total pots)
    (pred : Clique → Clique → Clique) (dist : Clique → Clique → Nat)
    (hpd : PathsOK (genInit nx d cliques total mode).cliques (modelTree nx d cliques total mode) pred dist)
    (greedy : Dom → List Clique → List Attr → List Attr) (b : Bool) (projections : List (List Attr))
    (hproj : ∀ proj ∈ projections, proj.Nodup ∧ ∀ a ∈ proj, a ∈ d.attrs)
    (hg : ∀ proj ∈ projections, ElimOK d proj (greedy d ((genInit nx d cliques total mode).cliques ++ [proj]) (d.invert proj))) :
    (∀ e ∈ GMQ.calculateManyMarginals pred dist (genProjectC nx d cliques mode total pots greedy b)
        (genInit nx d cliques total mode).domain (genInit nx d cliques total mode).cliques (genCache nx d cliques mode total pots)
        (genInit nx d cliques total mode).neighbors projections,
      e.2.dom.attrs = e.1 ∧
      (∀ σ, d.Valid σ → (e.2.sem σ).v = total.v * marginal d pots e.1 σ / partition d pots) ∧
      sumOver d e.1 (fun _ => 0) (fun σ => (e.2.sem σ).v) = total.v) ∧
    (∀ proj ∈ projections, proj ∈ (GMQ.calculateManyMarginals pred dist (genProjectC nx d cliques mode total pots greedy b)
        (genInit nx d cliques total mode).domain (genInit nx d cliques total mode).cliques (genCache nx d cliques mode total pots)
        (genInit nx d cliques total mode).neighbors projections).map Prod.fst) := by
  have hok := h.modelOK
  have hN := gen_init_neighborsOK h
  have hcal : ∀ c ∈ (genInit nx d cliques total mode).cliques, ∀ σ, d.Valid σ →
      (((genCache nx d cliques mode total pots).get c).sem σ).v = total.v / partition d pots * marginal d pots c σ := by
    intro c hc σ hσ
    unfold genCache
    rw [cache_cal hok (genInit nx d cliques total mode).total h.Z_ne c hc σ hσ, gen_init_total]
  have hfb : ∀ proj ∈ projections, ∀ σ, d.Valid σ →
      (genProjectC nx d cliques mode total pots greedy b proj).dom.attrs = proj ∧
      ((genProjectC nx d cliques mode total pots greedy b proj).sem σ).v = total.v / partition d pots * marginal d pots proj σ := by
    intro proj hp σ hσ
    obtain ⟨h1, h2⟩ := gen_project_cached_end_to_end h greedy b proj (hproj proj hp).1 (hproj proj hp).2 (hg proj hp) σ hσ
    exact ⟨h1, by rw [h2]; ring⟩
  have hnn := cache_nonneg hok (genInit nx d cliques total mode).total (by rw [gen_init_total]; exact le_of_lt h.total_pos) h.Z_ne
  rw [gen_init_domain]
  constructor
  · intro e he
    have key := fun σ hσ => gen_manyMarginals_correct pred dist _ d _ _ _ pots (genCache nx d cliques mode total pots)
      (total.v / partition d pots) (genProjectC nx d cliques mode total pots greedy b) projections hok hpd hN (cache_keys hok _)
      (cache_wf hok _ h.Z_ne) hcal hnn hfb hproj e he σ hσ
    have hsem : ∀ σ, d.Valid σ → (e.2.sem σ).v = total.v * marginal d pots e.1 σ / partition d pots := by
      intro σ hσ
      rw [(key σ hσ).2]; ring
    have hkey : e.1 ∈ projections := by
      have hm : e.1 ∈ (GMQ.calculateManyMarginals pred dist (genProjectC nx d cliques mode total pots greedy b) d
          (genInit nx d cliques total mode).cliques (genCache nx d cliques mode total pots)
          (genInit nx d cliques total mode).neighbors projections).map Prod.fst := List.mem_map_of_mem he
      rw [gen_manyMarginals_firsts pred dist _ d _ (modelTree nx d cliques total mode) _ _ projections hok.nodes
        (JT.treeFacts _ (Sem.isTree_of_ok hok)).nodes_nodup (Sem.valid_of_ok hok).connected hpd hN, GM.manyMarginals_eq,
        List.map_map] at hm
      obtain ⟨proj, hp, hpe⟩ := List.mem_map.mp hm
      have : proj = e.1 := by
        rw [← hpe]
        simp only [Function.comp]
        split <;> rfl
      exact this ▸ mem_of_mem_firsts _ _ hp
    exact ⟨(key _ h.valid0).1, hsem, sums_to_total_of_sem h e.1 (hproj _ hkey).1 (hproj _ hkey).2 e.2 hsem⟩
  · intro proj hp
    exact gen_manyMarginals_complete pred dist _ d _ _ _ pots _ _ projections hok hpd hN proj hp

/-- the entries of the dictionary are answers in the sense of `AnswerOf` (so `gen_answers_agree_on_shared_attributes` applies to them) -/
theorem answer_manyMarginals (h : CallOK nx d cliques mode total pots)
    (pred : Clique → Clique → Clique) (dist : Clique → Clique → Nat)
    (hpd : PathsOK (genInit nx d cliques total mode).cliques (modelTree nx d cliques total mode) pred dist)
    (greedy : Dom → List Clique → List Attr → List Attr) (b : Bool) (projections : List (List Attr))
    (hproj : ∀ proj ∈ projections, proj.Nodup ∧ ∀ a ∈ proj, a ∈ d.attrs)
    (hg : ∀ proj ∈ projections, ElimOK d proj (greedy d ((genInit nx d cliques total mode).cliques ++ [proj]) (d.invert proj)))
    (e : List Attr × Factor (PlainOf K))
    (he : e ∈ GMQ.calculateManyMarginals pred dist (genProjectC nx d cliques mode total pots greedy b)
        (genInit nx d cliques total mode).domain (genInit nx d cliques total mode).cliques (genCache nx d cliques mode total pots)
        (genInit nx d cliques total mode).neighbors projections) :
    AnswerOf d pots total e.1 (fun σ => (e.2.sem σ).v) :=
  ((gen_manyMarginals_end_to_end h pred dist hpd greedy b projections hproj hg).1 e he).2.1

/-- **the `PathsOK` hypothesis is the plain networkx contract on `self.junction_tree.tree`**: stated on the tree the generated
`__init__` hands to networkx (`(genInit …).junction_tree.1`, nodes in networkx's order) it is EQUIVALENT to the statement on
`modelTree` (the same tree with its nodes listed as `self.cliques`) — `GM.bfs_relist`: on a tree neither the predecessor nor the
distance read from the BFS table depends on the order the nodes are listed in -/
theorem pathsOK_generated_tree (h : CallOK nx d cliques mode total pots)
    (pred : Clique → Clique → Clique) (dist : Clique → Clique → Nat) :
    PathsOK (genInit nx d cliques total mode).cliques (genInit nx d cliques total mode).junction_tree.1 pred dist ↔
    PathsOK (genInit nx d cliques total mode).cliques (modelTree nx d cliques total mode) pred dist := by
  have hok := h.modelOK
  have hperm := (gen_init_cliques_ok nx d cliques total mode h.dom_wf h.dom_ne h.cliques_ok h.adm).2.1
  exact pathsOK_relist (genInit nx d cliques total mode).cliques (modelTree nx d cliques total mode)
    (JT.treeFacts _ (Sem.isTree_of_ok hok)) (Sem.valid_of_ok hok).connected
    (genInit nx d cliques total mode).junction_tree.1.nodes hperm.symm (fun c hc => hc) pred dist

/-- **`gen_manyMarginals_end_to_end` with the contract stated on the generated tree**: `pred` / `dist` are what
`nx.floyd_warshall_predecessor_and_distance(self.junction_tree.tree, weight=False)` returns on the tree object the generated
`__init__` built (predecessor / number of edges on the unique path, `PathsOK` on `junction_tree.1`) -/
theorem gen_manyMarginals_end_to_end_nx (h : CallOK nx d cliques mode total pots)
    (pred : Clique → Clique → Clique) (dist : Clique → Clique → Nat)
    (hpd : PathsOK (genInit nx d cliques total mode).cliques (genInit nx d cliques total mode).junction_tree.1 pred dist)
    (greedy : Dom → List Clique → List Attr → List Attr) (b : Bool) (projections : List (List Attr))
    (hproj : ∀ proj ∈ projections, proj.Nodup ∧ ∀ a ∈ proj, a ∈ d.attrs)
    (hg : ∀ proj ∈ projections, ElimOK d proj (greedy d ((genInit nx d cliques total mode).cliques ++ [proj]) (d.invert proj))) :
    (∀ e ∈ GMQ.calculateManyMarginals pred dist (genProjectC nx d cliques mode total pots greedy b)
        (genInit nx d cliques total mode).domain (genInit nx d cliques total mode).cliques (genCache nx d cliques mode total pots)
        (genInit nx d cliques total mode).neighbors projections,
      e.2.dom.attrs = e.1 ∧
      (∀ σ, d.Valid σ → (e.2.sem σ).v = total.v * marginal d pots e.1 σ / partition d pots) ∧
      sumOver d e.1 (fun _ => 0) (fun σ => (e.2.sem σ).v) = total.v) ∧
    (∀ proj ∈ projections, proj ∈ (GMQ.calculateManyMarginals pred dist (genProjectC nx d cliques mode total pots greedy b)
        (genInit nx d cliques total mode).domain (genInit nx d cliques total mode).cliques (genCache nx d cliques mode total pots)
        (genInit nx d cliques total mode).neighbors projections).map Prod.fst) :=
  gen_manyMarginals_end_to_end h pred dist ((pathsOK_generated_tree h pred dist).mp hpd) greedy b projections hproj hg

end many

/-! ## non-vacuity: the concrete calls of `C01E` (`GraphicalModel(exD, [("a","b"), ("b","c")], 100, elimination_order=["a","c","b"])` and
the same with `elimination_order=None` and other outcomes of every contract; potentials with a huge entry and structural zeros) -/
section examples
open PGM.C01 (exD exCl exT exOrd exPots)

/-- the bundled hypotheses hold on the first call … -/
theorem ex_callOK : CallOK exNx exD exCl (.given exElim) (⟨100⟩ : LogOf ℚ) exPots where
  dom_wf := by decide
  dom_ne := by decide
  cliques_ok := by decide
  adm := ex_admissible
  pots_ok := ex_potsOK _
  total_pos := by norm_num
  Z_ne := C01.exZ_ne

/-- … and on the second (None mode, reversed set iteration / DFS / topological sort, the potentials listed in the model's order) -/
theorem ex_callOK' : CallOK exNx' exD exCl .none (⟨100⟩ : LogOf ℚ) exPots.reverse where
  dom_wf := by decide
  dom_ne := by decide
  cliques_ok := by decide
  adm := ex_admissible'
  pots_ok := ex_potsOK' _
  total_pos := by norm_num
  Z_ne := by
    have : partition exD exPots.reverse = partition exD exPots := by
      unfold partition sumOver joint
      simp only [List.map_reverse, List.prod_reverse]
    rw [this]; exact C01.exZ_ne

/-- `gen_query_paths_one_joint`: the tuple `(c, a)` — permuted, spanning both cliques — eliminated in domain order without the cache and in
reverse order in the fallback of the cached path -/
example := gen_query_paths_one_joint ex_callOK (fun _ _ e => e) (fun _ _ e => e.reverse) true false ["c", "a"] (by decide) (by decide)
  (elimOK_invert exD (by decide) _) (elimOK_of_perm exD (by decide) _ _ (List.reverse_perm _))

/-- … and `(b, a)`, inside the first clique: the cached branch answers from the stored table -/
example := gen_query_paths_one_joint ex_callOK' (fun _ _ e => e) (fun _ _ e => e) false false ["b", "a"] (by decide) (by decide)
  (elimOK_invert exD (by decide) _) (elimOK_invert exD (by decide) _)

example : (genInit exNx exD exCl (⟨100⟩ : LogOf ℚ) (.given exElim)).cliques.find? (fun cl => JT.subset ["b", "a"] cl)
    = some ["a", "b"] := by decide

example : (genInit exNx exD exCl (⟨100⟩ : LogOf ℚ) (.given exElim)).cliques.find? (fun cl => JT.subset ["c", "a"] cl) = none := by
  decide

example (idx : List Nat) (hidx : InRange exD.shape idx) := gen_datavector_end_to_end ex_callOK idx hidx

/-- `gen_krondot_sums` on the first call: the all-ones query returns the total -/
example := gen_krondot_sums ex_callOK (by decide) (by decide)

/-- `gen_krondot_end_to_end`: the all-ones row vectors (the total query) -/
example := gen_krondot_end_to_end ex_callOK [(1, [⟨1⟩, ⟨1⟩]), (1, [⟨1⟩, ⟨1⟩]), (1, [⟨1⟩, ⟨1⟩])] (by decide) (by decide) (by decide)
  (by decide) [0, 0, 0] (by decide)

/-- `gen_manyMarginals_end_to_end`: the shortest-path tables of the model's tree are an admissible `floyd_warshall` outcome; an in-clique
tuple, an out-of-clique pair (twice) and a permuted triple -/
example := gen_manyMarginals_end_to_end ex_callOK _ _ (pathsOK_model _ _) (fun _ _ e => e) false
  [["b"], ["c", "a"], ["c", "a"], ["c", "b", "a"]] (by decide) (fun proj _ => elimOK_invert exD (by decide) proj)

/-- `gen_answers_agree_on_shared_attributes`: the cached answer for `(b, a)` and the uncached answer for `(c, b)` agree on `b` -/
example := gen_project_paths_agree_on_shared_attributes ex_callOK (fun _ _ e => e) (fun _ _ e => e.reverse) true false ["b", "a"]
  ["c", "b"] (by decide) (by decide) (by decide) (by decide) (elimOK_invert exD (by decide) _)
  (elimOK_of_perm exD (by decide) _ _ (List.reverse_perm _)) (fun _ => 1) C01.exValid

example := answer_sums_to_total ex_callOK exD.attrs (by decide) (fun _ h => h) _ (answer_datavector ex_callOK)

/-- … and so do the data vector and an entry of `calculate_many_marginals` -/
example (e : List Attr × Factor (PlainOf ℚ))
    (he : e ∈ GMQ.calculateManyMarginals (fun ci cj => predOf (bfs (modelTree exNx exD exCl (⟨100⟩ : LogOf ℚ) (.given exElim)) ci) cj)
      (fun ci cj => distOf (bfs (modelTree exNx exD exCl (⟨100⟩ : LogOf ℚ) (.given exElim)) ci) cj)
      (genProjectC exNx exD exCl (.given exElim) (⟨100⟩ : LogOf ℚ) exPots (fun _ _ e => e) false)
      (genInit exNx exD exCl (⟨100⟩ : LogOf ℚ) (.given exElim)).domain (genInit exNx exD exCl (⟨100⟩ : LogOf ℚ) (.given exElim)).cliques
      (genCache exNx exD exCl (.given exElim) (⟨100⟩ : LogOf ℚ) exPots)
      (genInit exNx exD exCl (⟨100⟩ : LogOf ℚ) (.given exElim)).neighbors [["c", "a"]]) (he1 : e.1 = ["c", "a"]) :=
  gen_answers_agree_on_shared_attributes ex_callOK exD.attrs e.1 _ _ (answer_datavector ex_callOK)
    (answer_manyMarginals ex_callOK _ _ (pathsOK_model _ _) (fun _ _ e => e) false [["c", "a"]] (by decide)
      (fun proj _ => elimOK_invert exD (by decide) proj) e he)
    (by decide) (by rw [he1]; decide) (fun _ h => h) (by rw [he1]; decide) (fun _ => 1) C01.exValid

end examples

end PGM.C02E
