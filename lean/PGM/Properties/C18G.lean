import PGM.Generated.LocalG
import PGM.Proofs.LocalGen
import PGM.Proofs.LocalLossGen
import PGM.Proofs.RealScalar
import PGM.Properties.C18
/-!
# C18 (translator tie) — the regenerated reading of `src/mbi/local_inference.py` is the hand model

`PGM/Generated/LocalG.lean` is produced on every run by `tools/py2local.py` from the current source of
`class LocalInference`: `mirror_descent_auto` (saved potentials / messages, the loop with its restart and
late branches, the feasibility phase, the recursion as a fuel-bounded recursion), `mirror_descent`, `estimate`,
`_marginal_loss` (both metrics) and `_setup` from the clique list on.  Each generated definition is identified
here with the hand model the C18 theorems are about (`Model/Local.lean`: `loop`, `attempt`, `post`, `mda`, run on
the operations `Local.pyOps` that `Model/LocalPy.lean` spells out: `theta - alpha*dL`, `>`, `alpha/2`,
`(0.9 + damping)/2`, `primal_feasibility(mu) < 1.0`), and `mda_ok`, `ok_or_named_failure`,
`early_losses_le_start` are re-stated for the generated `mirrorDescentAuto`.

Hypotheses, all about the oracle object or the scalars, none about the run:

* `obj.Frame` — what an oracle call may change: writing `potentials` and `messages` back restores the object
  (the hand model restarts every attempt from the same `(theta0, st0)`; the source re-installs the two attributes);
* `HalfLaw α` — `alpha *= 0.5` and `alpha/2` are the same number (the hand model has one `half`);
* `obj.PotLens` — reading / overwriting `model.potentials` (for `_setup`, which builds them in three stores);
* `(mu.map Prod.fst).Nodup`, `p.2.dom = d.project p.1` — as in C04G, for `_marginal_loss`.

The callback cannot influence the result: every equality below holds for every `callback` and forgets the
world it acted on (`dropWorld*`).
-/
namespace PGM.C18.LocalG
open PGM PGM.JT PGM.Local PGM.LocalGen
variable {α : Type} [Scalar α] {Msg σ κ : Type}

/-! ## `mirror_descent_auto` -/

/-- the `for t in range(iters)` loop is `Local.loop`: same restart point (with the object restored and the
recursive call's arguments `alpha/2, iters` pending) or same final state -/
theorem gen_loop (obj : Obj α Msg σ) (loss : CliqueVec α → α × CliqueVec α) (cb : Option (CliqueVec α → κ → κ))
    (hF : obj.Frame) (hH : HalfLaw α) (iters : Nat) (model : σ) (w : κ) (alpha : α) :
    match (attempt (pyOps obj loss) (obj.getPot model) model alpha iters).1 with
    | .restart _ =>
      (List.foldl (LocalG.mirrorDescentAuto_loop1 obj loss cb iters (obj.getPot model) (obj.getMsg model))
        ((obj.bp model (obj.getPot model)).2, obj.getPot model, (obj.bp model (obj.getPot model)).1, none, w, none, alpha, none)
        (List.range iters)).1 = model ∧
      (List.foldl (LocalG.mirrorDescentAuto_loop1 obj loss cb iters (obj.getPot model) (obj.getMsg model))
        ((obj.bp model (obj.getPot model)).2, obj.getPot model, (obj.bp model (obj.getPot model)).1, none, w, none, alpha, none)
        (List.range iters)).2.2.2.2.2.2.2 = some (Scalar.div alpha (Scalar.add Scalar.one Scalar.one), iters)
    | .finished s' =>
      ∃ w', List.foldl (LocalG.mirrorDescentAuto_loop1 obj loss cb iters (obj.getPot model) (obj.getMsg model))
        ((obj.bp model (obj.getPot model)).2, obj.getPot model, (obj.bp model (obj.getPot model)).1, none, w, none, alpha, none)
        (List.range iters) = (s'.st, s'.theta, s'.mu, s'.prev, w', s'.l, s'.alpha, none) := by
  have h := loop1_eq obj loss cb iters (obj.getPot model) (obj.getMsg model) hF hH alpha model iters 0
    { theta := obj.getPot model, mu := (obj.bp model (obj.getPot model)).1, st := (obj.bp model (obj.getPot model)).2,
      alpha := alpha, prev := none, l := none } [] w
    (fun _ => ⟨rfl, by rw [hF.restore_bp, hF.restore_id]⟩)
  rw [← List.range_eq_range'] at h
  exact h

/-- the feasibility phase (`for _ in range(1000)` with its `break`) is `Local.post` -/
theorem gen_post (obj : Obj α Msg σ) (loss : CliqueVec α → α × CliqueVec α) (cb : Option (CliqueVec α → κ → κ))
    (theta : CliqueVec α) (n : Nat) (mu : CliqueVec α) (st : σ) (w : κ) (k : Nat) :
    (List.foldl (LocalG.mirrorDescentAuto_loop2 obj loss cb theta) (st, mu, w, false) (List.range n)).1
        = (post (pyOps obj loss) theta n mu st k).2.1 ∧
    (List.foldl (LocalG.mirrorDescentAuto_loop2 obj loss cb theta) (st, mu, w, false) (List.range n)).2.1
        = (post (pyOps obj loss) theta n mu st k).1 :=
  loop2_range obj loss cb theta n mu st w k

/-- **`mirror_descent_auto` is `Local.mda`** run on `pyOps`, started from the object's own potentials and state:
same outcome (`RecursionError` when `fuel` activations do not suffice, `UnboundLocalError`, or the triple and
the object), whatever the callback -/
theorem gen_mda (obj : Obj α Msg σ) (hF : obj.Frame) (hH : HalfLaw α) (loss : CliqueVec α → α × CliqueVec α)
    (cb : Option (CliqueVec α → κ → κ)) (fuel : Nat) (model : σ) (w : κ) (alpha : α) (iters : Nat) :
    dropWorld4 (LocalG.mirrorDescentAuto obj loss cb fuel model w alpha iters) = mdaPy obj loss fuel model alpha iters :=
  LocalGen.gen_mda obj hF hH loss cb iters model fuel w alpha 0

/-- the restart counter of the model is bookkeeping: the outcome does not depend on it -/
theorem gen_mda_any_k (obj : Obj α Msg σ) (hF : obj.Frame) (hH : HalfLaw α) (loss : CliqueVec α → α × CliqueVec α)
    (cb : Option (CliqueVec α → κ → κ)) (fuel : Nat) (model : σ) (w : κ) (alpha : α) (iters k : Nat) :
    dropWorld4 (LocalG.mirrorDescentAuto obj loss cb fuel model w alpha iters)
      = (mda (pyOps obj loss) (obj.getPot model) model iters fuel k alpha).toPy :=
  LocalGen.gen_mda obj hF hH loss cb iters model fuel w alpha k

/-- **what a callback sees** during a call that returns: the iterate at the head of every loop iteration of every
attempt (failed ones included), then the output of every extra oracle call (`Local.mdaWorld`) -/
theorem gen_mda_world (obj : Obj α Msg σ) (hF : obj.Frame) (hH : HalfLaw α) (loss : CliqueVec α → α × CliqueVec α)
    (cb : Option (CliqueVec α → κ → κ)) (fuel : Nat) (model : σ) (w : κ) (alpha : α) (iters : Nat)
    (v : α × CliqueVec α × CliqueVec α × σ × κ)
    (h : LocalG.mirrorDescentAuto obj loss cb fuel model w alpha iters = .ok v) :
    v.2.2.2.2 = mdaWorld (pyOps obj loss) cb (obj.getPot model) model iters fuel alpha w :=
  LocalGen.gen_mda_world obj hF hH loss cb iters model fuel w alpha v h

/-! ### the hypotheses are satisfiable -/

section
variable {K : Type} [Field K] [LinearOrder K]

theorem halfLaw_plain : HalfLaw (PlainOf K) := by
  intro a
  show (⟨a.v * ((1 : K) * (1 + 1)⁻¹)⟩ : PlainOf K) = ⟨a.v * (1 + 1)⁻¹⟩
  rw [one_mul]
end

theorem halfLaw_real : HalfLaw ℝ := by
  intro a
  show a * (1 / (1 + 1)) = a / (1 + 1)
  ring

/-- an oracle object whose state is exactly (potentials, messages, damping): a call stores its argument as
the potentials and counts in the messages -/
def exObj : Obj (PlainOf ℚ) Nat (CliqueVec (PlainOf ℚ) × Nat × PlainOf ℚ) where
  bp := fun s θ => (θ, (θ, s.2.1 + 1, s.2.2))
  pf := fun _ => ⟨0⟩
  getPot := fun s => s.1
  setPot := fun s p => (p, s.2)
  getMsg := fun s => s.2.1
  setMsg := fun s m => (s.1, m, s.2.2)
  hasDamping := fun _ => true
  getDamp := fun s => s.2.2
  setDamp := fun s d => (s.1, s.2.1, d)
  setMarg := fun s _ => s
  setTotal := fun s _ => s
  cliques := fun s => s.1.map Prod.fst
  domain := fun _ => []

example : exObj.Frame ∧ HalfLaw (PlainOf ℚ) := ⟨⟨fun _ _ _ _ => rfl, fun _ => rfl⟩, halfLaw_plain⟩

/-! ## the C18 theorems, for the generated `mirrorDescentAuto` -/

/-- a successful call of the generated code is a successful call of the model with the same results -/
theorem gen_ok_inv (obj : Obj α Msg σ) (hF : obj.Frame) (hH : HalfLaw α) (loss : CliqueVec α → α × CliqueVec α)
    (cb : Option (CliqueVec α → κ → κ)) (fuel : Nat) (model : σ) (w : κ) (alpha : α) (iters : Nat)
    (l : α) (theta mu : CliqueVec α) (model' : σ) (w' : κ)
    (h : LocalG.mirrorDescentAuto obj loss cb fuel model w alpha iters = .ok (l, theta, mu, model', w')) :
    ∃ r, mda (pyOps obj loss) (obj.getPot model) model iters fuel 0 alpha = .ok r ∧
      r.l = l ∧ r.theta = theta ∧ r.mu = mu ∧ r.st = model' := by
  have hg := gen_mda obj hF hH loss cb fuel model w alpha iters
  rw [h] at hg
  unfold mdaPy at hg
  cases hm : mda (pyOps obj loss) (obj.getPot model) model iters fuel 0 alpha with
  | ok r =>
    rw [hm] at hg
    simp only [dropWorld4, Outcome.toPy, Py.ok.injEq, Prod.mk.injEq] at hg
    exact ⟨r, rfl, hg.1.symm, hg.2.1.symm, hg.2.2.1.symm, hg.2.2.2.symm⟩
  | unbound => rw [hm] at hg; simp [dropWorld4, Outcome.toPy] at hg
  | recursion => rw [hm] at hg; simp [dropWorld4, Outcome.toPy] at hg

/-- **`mda_ok` for the generated code**: `iters > 0`; `j < fuel` restarts, each a loss increase at `t ≤ 50` of an
attempt started from the saved potentials and object with step `alpha/2^i`; the returned loss and potentials
are those of the finished attempt; the returned marginals are an oracle output on the returned potentials;
fewer than 1000 extra calls ⇒ `primal_feasibility(mu) < 1.0` -/
theorem gen_mda_ok (obj : Obj α Msg σ) (hF : obj.Frame) (hH : HalfLaw α) (loss : CliqueVec α → α × CliqueVec α)
    (cb : Option (CliqueVec α → κ → κ)) (fuel : Nat) (model : σ) (w : κ) (alpha : α) (iters : Nat)
    (l : α) (theta mu : CliqueVec α) (model' : σ) (w' : κ)
    (h : LocalG.mirrorDescentAuto obj loss cb fuel model w alpha iters = .ok (l, theta, mu, model', w')) :
    0 < iters ∧
    (∃ j, j < fuel ∧
      (∀ i < j, ∃ t, (attempt (pyOps obj loss) (obj.getPot model) model
          (iter (fun a => Scalar.div a (Scalar.add Scalar.one Scalar.one)) i alpha) iters).1 = .restart t) ∧
      ∃ s lg, attempt (pyOps obj loss) (obj.getPot model) model
          (iter (fun a => Scalar.div a (Scalar.add Scalar.one Scalar.one)) j alpha) iters = (.finished s, lg) ∧
        s.l = some l ∧ theta = s.theta ∧ lg.length = iters ∧ ∀ e ∈ lg, e.t ≤ 50 → e.worse = false) ∧
    (∃ st, mu = (obj.bp st theta).1) ∧
    (∃ p, p ≤ 1000 ∧ (p < 1000 → LocalG.gtG Scalar.one (obj.pf mu) = true)) := by
  obtain ⟨r, hm, rfl, rfl, rfl, rfl⟩ := gen_ok_inv obj hF hH loss cb fuel model w alpha iters l theta mu model' w' h
  obtain ⟨h1, ⟨j, hj, ha, -, hre, s, hs, hsl, hth⟩, h3, h4, h5, h6⟩ :=
    C18.mda_ok (pyOps obj loss) (obj.getPot model) model iters fuel 0 alpha r hm
  refine ⟨h1, ⟨j, hj, hre, s, r.log, ?_, hsl, hth, h5, h6⟩, h3, r.post, h4⟩
  rw [ha] at hs; exact hs

/-- **`ok_or_named_failure` for the generated code**: the call returns, or raises `UnboundLocalError` because
`iters = 0`, or `RecursionError` after a restart in every one of the `fuel` activations — nothing else -/
theorem gen_ok_or_named_failure (obj : Obj α Msg σ) (hF : obj.Frame) (hH : HalfLaw α) (loss : CliqueVec α → α × CliqueVec α)
    (cb : Option (CliqueVec α → κ → κ)) (fuel : Nat) (model : σ) (w : κ) (alpha : α) (iters : Nat) :
    (∃ v, LocalG.mirrorDescentAuto obj loss cb fuel model w alpha iters = .ok v) ∨
    (LocalG.mirrorDescentAuto obj loss cb fuel model w alpha iters = .unbound ∧ iters = 0) ∨
    (LocalG.mirrorDescentAuto obj loss cb fuel model w alpha iters = .recursion ∧
      ∀ i < fuel, ∃ t, (attempt (pyOps obj loss) (obj.getPot model) model
          (iter (fun a => Scalar.div a (Scalar.add Scalar.one Scalar.one)) i alpha) iters).1 = .restart t) := by
  have hg := gen_mda obj hF hH loss cb fuel model w alpha iters
  unfold mdaPy at hg
  rcases C18.ok_or_named_failure (pyOps obj loss) (obj.getPot model) model iters fuel 0 alpha with ⟨r, hr⟩ | ⟨hr, hi⟩ | ⟨hr, hi⟩
  · rw [hr] at hg
    cases hc : LocalG.mirrorDescentAuto obj loss cb fuel model w alpha iters with
    | ok v => exact Or.inl ⟨v, rfl⟩
    | unbound => rw [hc] at hg; simp [dropWorld4, Outcome.toPy] at hg
    | recursion => rw [hc] at hg; simp [dropWorld4, Outcome.toPy] at hg
    | attrError => rw [hc] at hg; simp [dropWorld4, Outcome.toPy] at hg
  · rw [hr] at hg
    cases hc : LocalG.mirrorDescentAuto obj loss cb fuel model w alpha iters with
    | ok v => rw [hc] at hg; simp [dropWorld4, Outcome.toPy] at hg
    | unbound => exact Or.inr (Or.inl ⟨rfl, hi⟩)
    | recursion => rw [hc] at hg; simp [dropWorld4, Outcome.toPy] at hg
    | attrError => rw [hc] at hg; simp [dropWorld4, Outcome.toPy] at hg
  · rw [hr] at hg
    cases hc : LocalG.mirrorDescentAuto obj loss cb fuel model w alpha iters with
    | ok v => rw [hc] at hg; simp [dropWorld4, Outcome.toPy] at hg
    | unbound => rw [hc] at hg; simp [dropWorld4, Outcome.toPy] at hg
    | recursion => exact Or.inr (Or.inr ⟨rfl, hi⟩)
    | attrError => rw [hc] at hg; simp [dropWorld4, Outcome.toPy] at hg

/-- **`early_losses_le_start` for the generated code** (`partial`, as in C18): on a linear order on which the
interface's `x - y > 0` is `y < x`, the loss returned by a call with `iters ≤ 51` is at most the loss of the
starting marginals -/
theorem gen_early_losses_le_start [LinearOrder α] (hgt : ∀ l p : α, pyGt l p = true ↔ p < l)
    (obj : Obj α Msg σ) (hF : obj.Frame) (hH : HalfLaw α) (loss : CliqueVec α → α × CliqueVec α)
    (cb : Option (CliqueVec α → κ → κ)) (fuel : Nat) (model : σ) (w : κ) (alpha : α) (iters : Nat)
    (l : α) (theta mu : CliqueVec α) (model' : σ) (w' : κ)
    (h : LocalG.mirrorDescentAuto obj loss cb fuel model w alpha iters = .ok (l, theta, mu, model', w'))
    (hit : iters ≤ 51) :
    l ≤ (loss (obj.bp model (obj.getPot model)).1).1 := by
  obtain ⟨r, hm, rfl, -, -, -⟩ := gen_ok_inv obj hF hH loss cb fuel model w alpha iters l theta mu model' w' h
  exact (C18.early_losses_le_start (pyOps obj loss) hgt (obj.getPot model) model iters fuel 0 alpha r hm).2 hit

/-- the comparison hypothesis holds on the reals -/
example : ∀ l p : ℝ, pyGt l p = true ↔ p < l := by
  intro l p
  show decide ((0 : ℝ) < l + -p) = true ↔ p < l
  simp only [decide_eq_true_eq]
  constructor <;> intro h <;> linarith

/-! ## `mirror_descent`, `estimate` -/

/-- `mirror_descent` (after `_setup`): the descent from `initial_alpha`, then `model.potentials = theta`,
`model.marginals = mu`, returning `l` -/
theorem gen_mirrorDescent (obj : Obj α Msg σ) (hF : obj.Frame) (hH : HalfLaw α) (loss : CliqueVec α → α × CliqueVec α)
    (cb : Option (CliqueVec α → κ → κ)) (fuel : Nat) (model : σ) (w : κ) (alpha : α) (iters : Nat) :
    dropWorld2 (LocalG.mirrorDescent obj loss fuel model w alpha iters cb) = Local.mirrorDescent obj loss fuel model alpha iters :=
  LocalGen.gen_mirrorDescent obj hF hH loss cb fuel model w alpha iters

/-- the default `initial_alpha=10.0` -/
theorem gen_initial_alpha : (LocalG.mirrorDescent_initial_alpha : α) = defaultAlpha := rfl

/-- `estimate` passes the caller's callback, or a `Logger` when there is none and `self.log` is set -/
theorem gen_estimate_plumbing (obj : Obj α Msg σ) (loss : CliqueVec α → α × CliqueVec α)
    (cb : Option (CliqueVec α → κ → κ)) (fuel : Nat) (model : σ) (w : κ) (oia : Option α) (iters : Nat) (log : Bool)
    (logger : CliqueVec α → κ → κ) :
    LocalG.estimate obj loss fuel model w oia iters cb log logger
      = match LocalG.mirrorDescent obj loss fuel model w (oia.getD defaultAlpha) iters (estimateCallback cb log logger) with
        | .ok r => .ok (r.2.1, r.2.2)
        | .unbound => .unbound
        | .recursion => .recursion
        | .attrError => .attrError :=
  LocalGen.gen_estimate_plumbing obj loss cb fuel model w oia iters log logger

/-- `estimate` returns the model `mirror_descent` leaves -/
theorem gen_estimate (obj : Obj α Msg σ) (hF : obj.Frame) (hH : HalfLaw α) (loss : CliqueVec α → α × CliqueVec α)
    (cb : Option (CliqueVec α → κ → κ)) (fuel : Nat) (model : σ) (w : κ) (oia : Option α) (iters : Nat) (log : Bool)
    (logger : CliqueVec α → κ → κ) :
    dropWorld (LocalG.estimate obj loss fuel model w oia iters cb log logger) = Local.estimate obj loss fuel model oia iters :=
  LocalGen.gen_estimate obj hF hH loss cb fuel model w oia iters log logger

/-! ## `_setup` from the clique list on -/

theorem gen_setupCliques (meas : List (Loss.Meas α)) (zeros : CliqueVec α) :
    LocalG.setupCliques meas zeros = Local.setupCliques meas zeros := rfl

/-- the oracle: `RegionGraph` / `FactorGraph` by name with `convex` and `iters=self.inner_iters`, a caller's object
with `total` overwritten, `AttributeError` for any other string -/
theorem gen_setupModel (mk : Ctor α σ) (obj : Obj α Msg σ) (d : Dom) (sel : Sel σ) (cliques : List Clique) (total : α)
    (inner : Nat) :
    LocalG.setupModel mk obj d sel cliques total inner = Local.setupModel mk obj d sel cliques total inner :=
  LocalGen.gen_setupModel mk obj d sel cliques total inner

/-- zero potentials on the oracle's cliques, structural zeros, warm start — for oracles built by name only -/
theorem gen_setupPotentials (obj : Obj α Msg σ) (hL : obj.PotLens) (d : Dom) (zeros : CliqueVec α) (warm : Bool)
    (prev : Option σ) (sel : Sel σ) (model : σ) :
    LocalG.setupPotentials obj d zeros warm prev sel model = .ok (Local.setupPotentials obj d zeros warm prev sel model) :=
  LocalGen.gen_setupPotentials obj hL d zeros warm prev sel model

example : exObj.PotLens := ⟨fun _ _ => rfl, fun _ _ _ => rfl⟩

/-- `self.groups[cl]`: the measurements whose first containing clique, by increasing `model.domain.size`, is `cl` -/
theorem gen_setupGroups (obj : Obj α Msg σ) (model : σ) (meas : List (Loss.Meas α)) (cl : Clique) :
    LocalG.dgetD (LocalG.setupGroups (obj.domain model) (obj.cliques model) meas) cl [] = setupGroup obj model meas cl :=
  LocalLossGen.setupGroups_eq (obj.domain model) (obj.cliques model) meas cl

/-- one measurement is filed under `groupOf` (the `break`), or nowhere -/
theorem gen_groupOf (d : Dom) (cliques : List Clique) (m : Loss.Meas α) :
    LocalG.setupGroups d cliques [m]
      = match Loss.groupOf d cliques m.proj with
        | some c => [(c, [m])]
        | none => [] :=
  LocalLossGen.setupGroups_single d cliques m

/-! ## `_marginal_loss` -/

theorem gen_marginalLossL2 (d : Dom) (cliques : List Clique) (meas : List (Loss.Meas α)) (mu : CliqueVec α)
    (hkeys : (mu.map Prod.fst).Nodup) (hdom : ∀ p ∈ mu, p.2.dom = d.project p.1) :
    LocalG.marginalLossL2 d cliques meas mu = Loss.marginalLoss d cliques meas mu :=
  LocalLossGen.gen_marginalLossL2 d cliques meas mu hkeys hdom

theorem gen_marginalLossL1 (d : Dom) (cliques : List Clique) (meas : List (Loss.Meas α)) (mu : CliqueVec α)
    (hkeys : (mu.map Prod.fst).Nodup) (hdom : ∀ p ∈ mu, p.2.dom = d.project p.1) :
    LocalG.marginalLossL1 d cliques meas mu = Loss.marginalLossL1 d cliques meas mu :=
  LocalLossGen.gen_marginalLossL1 d cliques meas mu hkeys hdom

end PGM.C18.LocalG
