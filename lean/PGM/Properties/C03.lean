import PGM.Model.Certificate
namespace PGM.C03
end PGM.C03
