import PGM.Proofs.CertSem
/-!
# C03 — estimation attains the global optimum over all distributions

What a theorem can carry here is the **a-posteriori certificate**: for the squared-error objective
`L(p) = Σ_m ½‖A_m p − y_m‖²` (with `A_m = (1/σ_m) Q_m Π_m` on the full table) and *every*
nonnegative table `q` with the same total, `L(p) − L(q) ≤ fwGap p T` — computable from the returned
table alone.  The check evaluates it on `model.datavector()` of the real estimator for each solver.
That MD / RDA / IG drive this gap to zero ("given enough iterations") is the convergence theory of
Beck–Teboulle, Xiao and Auslender–Teboulle; it is **not** proved here and is decided per generated
input by this certificate (a test, labelled so in the evidence).  "Never below the optimum" holds
because every answer is the marginal of one explicit nonnegative table (C01/C02/C08).
-/
namespace PGM.C03
open PGM PGM.Cert
variable {K : Type} [Field K] [LinearOrder K] [IsStrictOrderedRing K]

/-- **certificate**: for the squared-error objective, any table `p` and *every* nonnegative table
`q` of the same length with total `T`: `L(p) − L(q) ≤ fwGap p T`.  In particular
`L(p) ≤ min_q L(q) + fwGap p T`, with no reference to an independent solver. -/
theorem fw_gap_bound (ms : List (List (List (PlainOf K)) × List (PlainOf K))) (p q : List (PlainOf K))
    (T : PlainOf K) (hn : 0 < p.length) (hc : Conform ms p.length) (hq : q.length = p.length)
    (hq0 : ∀ x ∈ q, 0 ≤ x.v) (hqT : (q.map (·.v)).sum = T.v) :
    (loss ms p).v - (loss ms q).v ≤ (fwGap ms p T).v := by
  apply Cert.fw_gap_bound <;> assumption

/-- the gap is nonnegative at feasible points (so a reported gap `≤ ε` really brackets the optimum) -/
theorem fw_gap_nonneg (ms : List (List (List (PlainOf K)) × List (PlainOf K))) (p : List (PlainOf K))
    (T : PlainOf K) (hn : 0 < p.length) (hc : Conform ms p.length)
    (hp0 : ∀ x ∈ p, 0 ≤ x.v) (hpT : (p.map (·.v)).sum = T.v) :
    0 ≤ (fwGap ms p T).v := by
  apply Cert.fw_gap_nonneg <;> assumption

/-- a table with zero gap is a global minimiser over all nonnegative tables with that total -/
theorem optimal_of_zero_gap (ms : List (List (List (PlainOf K)) × List (PlainOf K))) (p q : List (PlainOf K))
    (T : PlainOf K) (hn : 0 < p.length) (hc : Conform ms p.length) (hq : q.length = p.length)
    (hq0 : ∀ x ∈ q, 0 ≤ x.v) (hqT : (q.map (·.v)).sum = T.v) (hgap : (fwGap ms p T).v = 0) :
    (loss ms p).v ≤ (loss ms q).v := by
  apply Cert.optimal_of_zero_gap <;> assumption

end PGM.C03
