import PGM.Proofs.SynthSem
/-!
# C11 — synthetic records faithfully realise the model (rounding mode, column level)

Theorems about `PGM/Model/Synth.lean`, the model of the inner `synthetic_col` of
`graphical_model.py:196-249` over exact rationals, quantified over **every** admissible random
outcome `pick` (which indices receive the extra unit).  `colOK` is the checker the correspondence
run applies to every (column, group) histogram of the tables the real code generates;
`colOK_sound` says what acceptance guarantees.
-/
namespace PGM.C11
open PGM PGM.Synth

/-- the targets sum to `total`; hence `Σ⌊x⌋ ≤ total` and `extra = Σ frac` -/
theorem scaled_sum (counts : List Rat) (total : Nat) (h : CountsOK counts) :
    sumQ (scaled counts total) = total := by
  apply Synth.scaled_sum <;> assumption

theorem extra_eq_sum_fracs (counts : List Rat) (total : Nat) (h : CountsOK counts) :
    (extra counts total : Rat) = sumQ (fracs (scaled counts total)) := by
  apply Synth.extra_eq_sum_fracs <;> assumption

/-- **a valid choice of the extra indices always exists**: there are at least `extra` indices with
positive fractional part (each fractional part is < 1 and they sum to `extra`) -/
theorem extra_le_posfrac (counts : List Rat) (total : Nat) (h : CountsOK counts) :
    extra counts total ≤ ((fracs (scaled counts total)).filter (fun f => decide (0 < f))).length := by
  apply Synth.extra_le_posfrac <;> assumption

/-- **exact row count**: for every admissible outcome `pick`, the column has exactly `total` entries -/
theorem column_length (counts : List Rat) (total : Nat) (pick : List Nat) (h : CountsOK counts)
    (hp : pickOK counts total pick = true) : (column counts total pick).length = total := by
  apply Synth.column_length <;> assumption

/-- every emitted value is a valid index of the attribute's domain -/
theorem column_in_domain (counts : List Rat) (total : Nat) (pick : List Nat) (v : Nat)
    (hv : v ∈ column counts total pick) : v < counts.length := by
  apply Synth.column_in_domain <;> assumption

/-- **rounding error below one, and zero cells stay empty**: value `i` is emitted `⌊xᵢ⌋` or `⌊xᵢ⌋+1`
times, so `|count − xᵢ| < 1`, and never when `xᵢ = 0` -/
theorem colCounts_round (counts : List Rat) (total : Nat) (pick : List Nat) (h : CountsOK counts)
    (hp : pickOK counts total pick = true) (i : Nat) (hi : i < counts.length) :
    let x := (scaled counts total).getD i 0
    let o := (colCounts counts total pick).getD i 0
    |(o : Rat) - x| < 1 ∧ (x = 0 → o = 0) ∧ (counts.getD i 0 = 0 → o = 0) := by
  apply Synth.colCounts_round <;> assumption

/-- the number of occurrences of `i` in the emitted column is `colCounts[i]` -/
theorem column_count (counts : List Rat) (total : Nat) (pick : List Nat) (i : Nat) (hi : i < counts.length) :
    (column counts total pick).count i = (colCounts counts total pick).getD i 0 := by
  apply Synth.column_count <;> assumption

/-- the histogram of every admissible outcome passes the checker … -/
theorem colOK_of_pick (counts : List Rat) (total : Nat) (pick : List Nat) (h : CountsOK counts)
    (hp : pickOK counts total pick = true) : colOK counts total (colCounts counts total pick) = true := by
  apply Synth.colOK_of_pick <;> assumption

/-- … and **the checker is sound**: an observed histogram it accepts has exactly `total` entries,
rounding error below one in every cell, and nothing in zero-probability cells (`colOK` allows
`⌊x⌋ + 1` only when `x` has a positive fractional part, so an integral target is never rounded up). -/
theorem colOK_sound (counts : List Rat) (total : Nat) (out : List Nat) (h : CountsOK counts)
    (hok : colOK counts total out = true) :
    sumN out = total ∧ ∀ i, i < counts.length →
      |((out.getD i 0 : Nat) : Rat) - (scaled counts total).getD i 0| < 1 ∧
      (counts.getD i 0 = 0 → out.getD i 0 = 0) := by
  apply Synth.colOK_sound <;> assumption

end PGM.C11
