import PGM.Model.Synth
namespace PGM.C11
end PGM.C11
