import PGM.Proofs.JTree
import PGM.Proofs.JTWeight
import PGM.Proofs.JTExists
/-!
# C12 — every constructed junction tree is valid, with a valid message schedule

`checkJT` is the executable checker the correspondence run applies to the *implementation's own*
tree, node list and schedule on every generated case.  `checkJT_sound` says that acceptance implies
the property's clauses in their semantic form (paths, not fuel-bounded searches).  The remaining
theorems are about the model of the construction itself (`_greedy_order`, `_triangulated`).
-/
namespace PGM.C12
open PGM PGM.JT

/-- **soundness of the checker**: if `checkJT` accepts, the tree is a valid junction tree with a
valid schedule -/
theorem checkJT_sound (attrs : List Attr) (cliques : List Clique) (t : Tree)
    (order : List (Clique × Clique)) (h : checkJT attrs cliques t order = true) :
    Valid attrs cliques t order :=
  JT.checkJT_sound attrs cliques t order h

/-- the default elimination order is a permutation of the domain's attributes, whatever the
cliques: so the triangulation theorem applies to mode `None` -/
theorem greedyOrder_perm (d : Dom) (cliques : List Clique) (attrs : List Attr) (h : attrs.Nodup) :
    (greedyOrder d cliques attrs attrs.length).Perm attrs :=
  JT.greedyOrder_perm d cliques attrs h

/-- **elimination yields a chordal graph**: for any graph and any duplicate-free order covering its
nodes, `order` is a perfect elimination order of the triangulated graph — the later neighbours of
every node are pairwise adjacent -/
theorem triangulate_peo (g : Graph) (order : List Attr) (hnd : order.Nodup)
    (hsub : ∀ a ∈ order, a ∈ g.nodes)
    (pre post : List Attr) (v : Attr) (hsplit : order = pre ++ v :: post)
    (x y : Attr) (hx : x ∈ post) (hy : y ∈ post) (hxy : x ≠ y)
    (hvx : (triangulate g order).adj v x = true) (hvy : (triangulate g order).adj v y = true) :
    (triangulate g order).adj x y = true :=
  JT.triangulate_peo g order hnd hsub pre post v hsplit x y hx hy hxy hvx hvy

/-- triangulation only adds edges: every input clique is still a clique -/
theorem triangulate_mono (g : Graph) (order : List Attr) (a b : Attr) (h : g.adj a b = true) :
    (triangulate g order).adj a b = true :=
  JT.triangulate_mono g order a b h

/-- every input clique is complete in the graph built from the cliques -/
theorem makeGraph_complete (attrs : List Attr) (cliques : List Clique) (c : Clique) (hc : c ∈ cliques)
    (a b : Attr) (ha : a ∈ c) (hb : b ∈ c) (hab : a ≠ b) (hsub : ∀ x ∈ c, x ∈ attrs) :
    (makeGraph attrs cliques).adj a b = true :=
  JT.makeGraph_complete attrs cliques c hc a b ha hb hab hsub

/-- **weight bound**: for any spanning tree over any family of cliques,
`Σ_edges |separator| ≤ Σ_a (n_a − 1)` … -/
theorem weight_le_bound (attrs : List Attr) (t : Tree) (h : TreeHyp attrs t) :
    weight t ≤ weightBound attrs t.nodes :=
  JT.weight_le_bound attrs t h

/-- … with equality exactly when the running-intersection property holds -/
theorem weight_eq_iff_rip (attrs : List Attr) (t : Tree) (h : TreeHyp attrs t) :
    weight t = weightBound attrs t.nodes ↔ rip attrs t = true :=
  JT.weight_eq_iff_rip attrs t h

/-- **every maximum-weight spanning tree is a junction tree** as soon as some spanning tree over
the same nodes is one — whichever tie-breaking `networkx.minimum_spanning_tree` uses.
(`_partial`: that the maximal cliques of a chordal graph admit *some* junction tree is the classical
existence theorem, not formalised; each generated case is decided by `checkJT` on the
implementation's own tree together with the weight certificate above.) -/
theorem max_weight_tree_is_jt_partial (attrs : List Attr) (t t' : Tree)
    (h : TreeHyp attrs t) (h' : TreeHyp attrs t') (hn : t'.nodes = t.nodes)
    (hrip : rip attrs t' = true) (hw : weight t' ≤ weight t) :
    rip attrs t = true :=
  JT.max_weight_tree_is_jt_partial attrs t t' h h' hn hrip hw

/-- **chordal graphs have junction trees** (classical existence theorem, by induction along the
perfect elimination order) -/
theorem chordal_has_jt (g : Graph) (order : List Attr) (nodes : List Clique)
    (hne : g.nodes ≠ []) (hnd : g.nodes.Nodup) (hpeo : IsPEO g order) (hfam : IsMaxCliqueFamily g nodes) :
    ∃ t : Tree, t.nodes = nodes ∧ isTree t = true ∧ rip g.nodes t = true :=
  JT.chordal_has_jt g order nodes hne hnd hpeo hfam

/-- **every maximum-weight spanning tree over the maximal cliques of a chordal graph is a junction
tree** — full strength -/
theorem max_weight_tree_is_jt (g : Graph) (order : List Attr) (t : Tree)
    (hne : g.nodes ≠ []) (hnd : g.nodes.Nodup) (hpeo : IsPEO g order) (hfam : IsMaxCliqueFamily g t.nodes)
    (ht : isTree t = true)
    (hmax : ∀ t' : Tree, t'.nodes = t.nodes → isTree t' = true → weight t' ≤ weight t) :
    rip g.nodes t = true :=
  JT.max_weight_tree_is_jt g order t hne hnd hpeo hfam ht hmax

/-- the triangulated graph has the elimination order as a perfect elimination order -/
theorem triangulate_isPEO (g : Graph) (order : List Attr) (hnd : order.Nodup)
    (hiff : ∀ a, a ∈ g.nodes ↔ a ∈ order) : IsPEO (triangulate g order) order := by
  refine ⟨hnd, ?_, ?_⟩
  · intro a; simpa [triangulate, Graph.addEdges] using hiff a
  · intro pre post v hsplit x hx y hy hxy hvx hvy
    exact JT.triangulate_peo g order hnd (fun a ha => (hiff a).2 ha) pre post v hsplit x y hx hy hxy hvx hvy

theorem makeGraph_nodes (attrs : List Attr) (cliques : List Clique) :
    (makeGraph attrs cliques).nodes = attrs := by
  unfold makeGraph
  have key : ∀ (cs : List Clique) (g0 : Graph),
      (cs.foldl (fun g cl => g.addEdges (pairs cl)) g0).nodes = g0.nodes := by
    intro cs
    induction cs with
    | nil => intro g0; rfl
    | cons c cs ih => intro g0; simp only [List.foldl_cons]; rw [ih]; rfl
  rw [key]

/-- **the construction of `JunctionTree` is correct, end to end** (modulo the two networkx
contracts, which appear as hypotheses and are validated per generated case): for any clique set over
the domain and any elimination order that is a permutation of the domain's attributes, if `t.nodes`
lists the maximal cliques of the triangulated graph (`find_cliques`) and `t` is a spanning tree of
maximum total separator size (`minimum_spanning_tree` on weights `−|Cᵢ∩Cⱼ|`), then `t` has the
running-intersection property, every input clique is inside some node and every attribute appears. -/
theorem junction_tree_construction_valid (attrs : List Attr) (cliques : List Clique) (order : List Attr)
    (t : Tree) (hne : attrs ≠ []) (hnd : attrs.Nodup) (hperm : order.Perm attrs)
    (hcl : ∀ c ∈ cliques, c.Nodup ∧ ∀ a ∈ c, a ∈ attrs)
    (hfam : IsMaxCliqueFamily (triangulate (makeGraph attrs cliques) order) t.nodes)
    (ht : isTree t = true)
    (hmax : ∀ t' : Tree, t'.nodes = t.nodes → isTree t' = true → weight t' ≤ weight t) :
    rip attrs t = true ∧
    (∀ c ∈ cliques, ∃ n ∈ t.nodes, ∀ a ∈ c, a ∈ n) ∧
    (∀ a ∈ attrs, ∃ n ∈ t.nodes, a ∈ n) := by
  have hnodes : (makeGraph attrs cliques).nodes = attrs := makeGraph_nodes attrs cliques
  have htn : (triangulate (makeGraph attrs cliques) order).nodes = attrs := by
    simp [triangulate, Graph.addEdges, hnodes]
  have hiff : ∀ a, a ∈ (makeGraph attrs cliques).nodes ↔ a ∈ order := by
    intro a; rw [hnodes]; exact (hperm.mem_iff).symm
  have hpeo := triangulate_isPEO (makeGraph attrs cliques) order (hperm.nodup_iff.2 hnd) hiff
  have hrip := JT.max_weight_tree_is_jt _ order t (by rw [htn]; exact hne) (by rw [htn]; exact hnd) hpeo hfam ht hmax
  rw [htn] at hrip
  refine ⟨hrip, ?_, ?_⟩
  · intro c hc
    obtain ⟨hcn, hca⟩ := hcl c hc
    have hclq : IsClique (triangulate (makeGraph attrs cliques) order) c := by
      refine ⟨hcn, fun a ha => by rw [htn]; exact hca a ha, fun a ha b hb hab => ?_⟩
      exact JT.triangulate_mono _ order a b (JT.makeGraph_complete attrs cliques c hc a b ha hb hab hca)
    exact hfam.complete c hclq
  · intro a ha
    have hclq : IsClique (triangulate (makeGraph attrs cliques) order) [a] := by
      refine ⟨by simp, fun b hb => by rw [htn]; simp at hb; rw [hb]; exact ha, fun x hx y hy hxy => ?_⟩
      simp at hx hy; rw [hx, hy] at hxy; exact absurd rfl hxy
    obtain ⟨n, hn, hsub⟩ := hfam.complete [a] hclq
    exact ⟨n, hn, hsub a (by simp)⟩

/-- non-vacuity: a concrete 3-node tree with its schedule is accepted -/
example : checkJT ["a", "b", "c", "d"] [["a", "b"], ["b", "c"], ["c", "d"]]
    ⟨[["a", "b"], ["b", "c"], ["c", "d"]], [(["a", "b"], ["b", "c"]), (["b", "c"], ["c", "d"])]⟩
    [(["a", "b"], ["b", "c"]), (["c", "d"], ["b", "c"]), (["b", "c"], ["a", "b"]), (["b", "c"], ["c", "d"])] = true := by
  decide

end PGM.C12
