import PGM.Proofs.JTree
import PGM.Proofs.JTWeight
/-!
# C12 — every constructed junction tree is valid, with a valid message schedule

`checkJT` is the executable checker the correspondence run applies to the *implementation's own*
tree, node list and schedule on every generated case.  `checkJT_sound` says that acceptance implies
the property's clauses in their semantic form (paths, not fuel-bounded searches).  The remaining
theorems are about the model of the construction itself (`_greedy_order`, `_triangulated`).
-/
namespace PGM.C12
open PGM PGM.JT

/-- **soundness of the checker**: if `checkJT` accepts, the tree is a valid junction tree with a
valid schedule -/
theorem checkJT_sound (attrs : List Attr) (cliques : List Clique) (t : Tree)
    (order : List (Clique × Clique)) (h : checkJT attrs cliques t order = true) :
    Valid attrs cliques t order :=
  JT.checkJT_sound attrs cliques t order h

/-- the default elimination order is a permutation of the domain's attributes, whatever the
cliques: so the triangulation theorem applies to mode `None` -/
theorem greedyOrder_perm (d : Dom) (cliques : List Clique) (attrs : List Attr) (h : attrs.Nodup) :
    (greedyOrder d cliques attrs attrs.length).Perm attrs :=
  JT.greedyOrder_perm d cliques attrs h

/-- **elimination yields a chordal graph**: for any graph and any duplicate-free order covering its
nodes, `order` is a perfect elimination order of the triangulated graph — the later neighbours of
every node are pairwise adjacent -/
theorem triangulate_peo (g : Graph) (order : List Attr) (hnd : order.Nodup)
    (hcov : ∀ a ∈ g.nodes, a ∈ order) (hsub : ∀ a ∈ order, a ∈ g.nodes)
    (hed : ∀ e ∈ g.edges, e.1 ∈ g.nodes ∧ e.2 ∈ g.nodes)
    (pre post : List Attr) (v : Attr) (hsplit : order = pre ++ v :: post)
    (x y : Attr) (hx : x ∈ post) (hy : y ∈ post) (hxy : x ≠ y)
    (hvx : (triangulate g order).adj v x = true) (hvy : (triangulate g order).adj v y = true) :
    (triangulate g order).adj x y = true :=
  JT.triangulate_peo g order hnd hcov hsub hed pre post v hsplit x y hx hy hxy hvx hvy

/-- triangulation only adds edges: every input clique is still a clique -/
theorem triangulate_mono (g : Graph) (order : List Attr) (a b : Attr) (h : g.adj a b = true) :
    (triangulate g order).adj a b = true :=
  JT.triangulate_mono g order a b h

/-- every input clique is complete in the graph built from the cliques -/
theorem makeGraph_complete (attrs : List Attr) (cliques : List Clique) (c : Clique) (hc : c ∈ cliques)
    (a b : Attr) (ha : a ∈ c) (hb : b ∈ c) (hab : a ≠ b) (hsub : ∀ x ∈ c, x ∈ attrs) :
    (makeGraph attrs cliques).adj a b = true :=
  JT.makeGraph_complete attrs cliques c hc a b ha hb hab hsub

/-- **weight bound**: for any spanning tree over any family of cliques,
`Σ_edges |separator| ≤ Σ_a (n_a − 1)` … -/
theorem weight_le_bound (attrs : List Attr) (t : Tree) (h : TreeHyp attrs t) :
    weight t ≤ weightBound attrs t.nodes :=
  JT.weight_le_bound attrs t h

/-- … with equality exactly when the running-intersection property holds -/
theorem weight_eq_iff_rip (attrs : List Attr) (t : Tree) (h : TreeHyp attrs t) :
    weight t = weightBound attrs t.nodes ↔ rip attrs t = true :=
  JT.weight_eq_iff_rip attrs t h

/-- **every maximum-weight spanning tree is a junction tree** as soon as some spanning tree over
the same nodes is one — whichever tie-breaking `networkx.minimum_spanning_tree` uses.
(`_partial`: that the maximal cliques of a chordal graph admit *some* junction tree is the classical
existence theorem, not formalised; each generated case is decided by `checkJT` on the
implementation's own tree together with the weight certificate above.) -/
theorem max_weight_tree_is_jt_partial (attrs : List Attr) (t t' : Tree)
    (h : TreeHyp attrs t) (h' : TreeHyp attrs t') (hn : t'.nodes = t.nodes)
    (hrip : rip attrs t' = true) (hw : weight t' ≤ weight t) :
    rip attrs t = true :=
  JT.max_weight_tree_is_jt_partial attrs t t' h h' hn hrip hw

/-- non-vacuity: a concrete 3-node tree with its schedule is accepted -/
example : checkJT ["a", "b", "c", "d"] [["a", "b"], ["b", "c"], ["c", "d"]]
    ⟨[["a", "b"], ["b", "c"], ["c", "d"]], [(["a", "b"], ["b", "c"]), (["b", "c"], ["c", "d"])]⟩
    [(["a", "b"], ["b", "c"]), (["c", "d"], ["b", "c"]), (["b", "c"], ["a", "b"]), (["b", "c"], ["c", "d"])] = true := by
  decide

end PGM.C12
