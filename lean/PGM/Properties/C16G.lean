import PGM.Generated.FactorGraphG
import PGM.Proofs.FGGen
import PGM.Properties.C16
/-!
# C16 (translator tie) — the regenerated reading of `src/mbi/factor_graph.py` (non-convex path) is the hand model

`PGM/Generated/FactorGraphG.lean` is produced on every run by `tools/py2fg.py` from the current source of
`FactorGraph.__init__` (convex=False), `init_messages`, `loopy_belief_propagation` (callback=None; `lbpSweep` is the body of
its `for i in range(self.iters)` loop), `clique_marginals` (self.convex = False) and `primal_feasibility`, statement by
statement.  Every generated definition is related here to the definition of `PGM/Model/FactorGraph.lean` that the C16
theorems about loopy propagation are about (`initMessages`, `lbpSweep`, `cliqueMarginals`, `lbp`, `beliefs`,
`primalFeasibility`, `countingAttr`), so those theorems are re-checked against what the source says now: a semantic change
of the source breaks the translation or one of these equalities.

Representation.  The source keeps the two message dictionaries in local names `mu_n`, `mu_f` (a pair stored in
`self.messages`); the model keeps them in one `FG.State`.  `tup s = (s.muN, s.muF)` is the pair of a state; every equality
below holds for EVERY state / clique list / domain / potential vector (no hypothesis), except

* `self.beliefs = {v: … for v in self.domain}` and `{i: Factor.zeros(…) for i in domain}`: a Python dict keeps one entry per
  key where the model lists one entry per element of `dom.attrs` — equal exactly when the attribute names of the domain are
  distinct (`dom.attrs.Nodup`, i.e. `Dom.WF`; `Domain.__init__` builds `config = dict(zip(attrs, shape))`, so a repeated
  name is not a usable domain); witness `beliefs_dup_differs`;
* `primal_feasibility(mu)`: `for r in mu: for s in mu: if r == s: break` visits the keys listed before `r` — the model's
  `keys.take i` — when the keys of `mu` are distinct (they are: `mu` is a dict).

The convex=True path (`convergent_belief_propagation`, `get_counting_numbers`) is out of scope; the translator checks that the
tests selecting it (`if convex:` in `__init__`, `if self.convex:` in `clique_marginals`) are unchanged, and `gen_dispatch`
records what `__init__` stores in `self.belief_propagation`.
-/
namespace PGM.C16.FGG
open PGM PGM.JT PGM.RG PGM.FGGen PGM.Oracle PGM.Sem PGM.ExactDisjoint PGM.LbpTree
set_option linter.unusedSectionVars false

/-! ## the generated definitions in normal form (by unfolding alone) -/
section shape
variable {α : Type} [Scalar α]

theorem gen_lbpSweep_shape (dom : Dom) (cliques : List Clique) (pots : CliqueVec α) (st : FGG.MuN α × FGG.MuF α) :
    FGG.lbpSweep dom cliques pots st = sweepF dom cliques pots st := rfl

theorem gen_primalFeasibility_shape (mu : CliqueVec α) : FGG.primalFeasibility mu = primalFeasibilityF mu := rfl

/-! ## every generated definition is the hand model -/

/-- `init_messages` -/
theorem gen_initMessages (dom : Dom) (cliques : List Clique) :
    (FGG.initMessages dom cliques : FGG.MuN α × FGG.MuF α) = tup (FG.initMessages dom cliques) := by
  unfold FGG.initMessages FG.initMessages
  symm
  refine foldl_iso tup _ _ ?_ cliques ⟨[], []⟩
  intro s cl
  refine foldl_iso tup _ _ ?_ cl s
  intro s v
  rfl

/-- `clique_marginals` (the non-convex branch): the belief of every clique, normalised to `total` -/
theorem gen_cliqueMarginals (cliques : List Clique) (total : α) (s : FG.State α) (pots : CliqueVec α) :
    FGG.cliqueMarginals cliques total s.muN s.muF pots = FG.cliqueMarginals cliques pots total s := by
  unfold FGG.cliqueMarginals FG.cliqueMarginals
  simp only [sum_eq, addF_toPy, getN_eq]
  rfl

/-- one sweep of `loopy_belief_propagation`: both message phases, in the order of the source -/
theorem gen_lbpSweep (dom : Dom) (cliques : List Clique) (pots : CliqueVec α) (s : FG.State α) :
    FGG.lbpSweep dom cliques pots (tup s) = tup (FG.lbpSweep dom cliques pots s) :=
  sweep_eq dom cliques pots s

/-- `loopy_belief_propagation(potentials)` called on an object whose `self.messages` is the state `s`: the returned
marginals, and the four fields it stores (`self.potentials`, `self.beliefs`, `self.messages`, `self.marginals`) -/
theorem gen_loopyBeliefPropagation (dom : Dom) (cliques : List Clique) (total : α) (iters : Nat) (s : FG.State α) (pots : CliqueVec α) :
    FGG.loopyBeliefPropagation dom cliques total iters (tup s) pots =
      ((FG.lbp dom cliques pots total iters s).1, pots, beliefsF dom cliques (FG.lbp dom cliques pots total iters s).2.muF,
       tup (FG.lbp dom cliques pots total iters s).2, (FG.lbp dom cliques pots total iters s).1) := by
  have hloop : (List.range iters).foldl (fun st (i : Nat) => FGG.lbpSweep dom cliques pots st) (s.muN, s.muF)
      = tup (iterate (FG.lbpSweep dom cliques pots) iters s) := by
    rw [foldl_range_iterate]
    exact iterate_sweep dom cliques pots iters s
  unfold FGG.loopyBeliefPropagation tup
  simp only []
  rw [hloop]
  unfold tup
  simp only [gen_cliqueMarginals]
  rfl

/-- the value returned by `loopy_belief_propagation` -/
theorem gen_lbp_return (dom : Dom) (cliques : List Clique) (total : α) (iters : Nat) (s : FG.State α) (pots : CliqueVec α) :
    (FGG.loopyBeliefPropagation dom cliques total iters (tup s) pots).1 = (FG.lbp dom cliques pots total iters s).1 := by
  rw [gen_loopyBeliefPropagation]

/-- the persisted `self.messages` after the call -/
theorem gen_lbp_messages (dom : Dom) (cliques : List Clique) (total : α) (iters : Nat) (s : FG.State α) (pots : CliqueVec α) :
    (FGG.loopyBeliefPropagation dom cliques total iters (tup s) pots).2.2.2.1 = tup (FG.lbp dom cliques pots total iters s).2 := by
  rw [gen_loopyBeliefPropagation]

/-- `self.beliefs` after the call, for a domain with distinct attribute names -/
theorem gen_lbp_beliefs (dom : Dom) (cliques : List Clique) (total : α) (iters : Nat) (s : FG.State α) (pots : CliqueVec α)
    (hd : dom.attrs.Nodup) :
    (FGG.loopyBeliefPropagation dom cliques total iters (tup s) pots).2.2.1 =
      (FG.beliefs dom cliques (FG.lbp dom cliques pots total iters s).2).map (fun p => (p.1, toPy p.2)) := by
  rw [gen_loopyBeliefPropagation]
  exact beliefsF_eq dom cliques _ hd

/-- `primal_feasibility(mu)` for a dictionary `mu` -/
theorem gen_primalFeasibility (mu : CliqueVec α) (hk : (mu.map Prod.fst).Nodup) :
    FGG.primalFeasibility mu = FG.primalFeasibility mu := by
  rw [gen_primalFeasibility_shape]
  exact primalFeasibilityF_eq mu hk

/-- `FactorGraph.__init__(domain, cliques, total, convex=False, iters)`: the stored fields
`(domain, cliques, total, convex, iters, counting_numbers, belief_propagation, potentials, marginals, messages, beliefs)` -/
theorem gen_init (dom : Dom) (cliques : List Clique) (total : α) (iters : Nat) :
    FGG.init dom cliques total iters =
      (dom, cliques, total, false, iters, ((none : Option Unit), (none : Option Unit), countingF dom cliques),
       "loopy_belief_propagation", none, none, tup (FG.initMessages dom cliques), beliefs0F dom) := by
  unfold FGG.init
  simp only [gen_initMessages]
  rfl

/-- the dispatch: with `convex=False` the method called as `self.belief_propagation` is `loopy_belief_propagation` -/
theorem gen_dispatch (dom : Dom) (cliques : List Clique) (total : α) (iters : Nat) :
    (FGG.init dom cliques total iters).2.2.2.2.2.2.1 = "loopy_belief_propagation" := by
  rw [gen_init]

/-- the messages a fresh object starts from are those of `init_messages` -/
theorem gen_init_messages (dom : Dom) (cliques : List Clique) (total : α) (iters : Nat) :
    (FGG.init dom cliques total iters).2.2.2.2.2.2.2.2.2.1 = tup (FG.initMessages dom cliques) := by
  rw [gen_init]

/-- `counting_numbers[cl] = 1.0` -/
theorem gen_init_counting_clique (dom : Dom) (cliques : List Clique) (total : α) (iters : Nat) (cl : Clique) (h : cl ∈ cliques) :
    (FGG.init dom cliques total iters).2.2.2.2.2.1.2.2.lookup (Sum.inl cl) = some Scalar.one := by
  rw [gen_init]
  exact counting_clique dom cliques cl h

/-- `counting_numbers[a] = 1.0 - len([cl for cl in cliques if a in cl])` -/
theorem gen_init_counting_attr (dom : Dom) (cliques : List Clique) (total : α) (iters : Nat) (a : Attr) (h : a ∈ dom.attrs) :
    (FGG.init dom cliques total iters).2.2.2.2.2.1.2.2.lookup (Sum.inr a) =
      some (Scalar.sub Scalar.one (Scalar.ofNat ((cliques.filter (fun cl => cl.contains a)).length))) := by
  rw [gen_init]
  exact counting_attr dom cliques a h

/-- the initial `self.beliefs`, for a domain with distinct attribute names -/
theorem gen_init_beliefs (dom : Dom) (cliques : List Clique) (total : α) (iters : Nat) (hd : dom.attrs.Nodup) :
    (FGG.init dom cliques total iters).2.2.2.2.2.2.2.2.2.2 = dom.attrs.map (fun i => (i, Factor.zeros (dom.project [i]))) := by
  rw [gen_init]
  exact beliefs0F_eq dom hd

end shape

/-- over the reals the attribute counting number is the model's `countingAttr` -/
theorem gen_init_countingAttr (dom : Dom) (cliques : List Clique) (total : ℝ) (iters : Nat) (a : Attr) (h : a ∈ dom.attrs) :
    (FGG.init dom cliques total iters).2.2.2.2.2.1.2.2.lookup (Sum.inr a) = some ((FG.countingAttr cliques a : ℤ) : ℝ) := by
  rw [gen_init_counting_attr dom cliques total iters a h]
  congr 1
  unfold FG.countingAttr
  show (1 : ℝ) - ((cliques.filter (fun cl => cl.contains a)).length : ℝ) = _
  push_cast
  rfl

/-! ### the hypotheses are satisfiable, and needed -/

example : (Dom.attrs [("a", 2), ("b", 3), ("c", 2)]).Nodup := by decide

example : ((([(["a", "b"], Factor.zeros [("a", 2), ("b", 3)]), (["b", "c"], Factor.zeros [("b", 3), ("c", 2)])] :
    CliqueVec ExtQ)).map Prod.fst).Nodup := by decide

/-- with a repeated attribute name the dictionary `self.beliefs` has ONE entry where the model lists two (such a
domain cannot be built: `Domain.__init__` stores `dict(zip(attrs, shape))`) -/
theorem beliefs_dup_differs :
    (beliefs0F [("a", 2), ("a", 2)] : List (Attr × Factor ExtQ)).length = 1 ∧
    ((Dom.attrs [("a", 2), ("a", 2)]).map (fun i => (i, (Factor.zeros (Dom.project [("a", 2), ("a", 2)] [i]) : Factor ExtQ)))).length = 2 := by
  constructor
  · rfl
  · rfl

/-! ## the C16 theorems about loopy propagation, for the regenerated definitions -/

/-- `FactorGraph(domain, cliques, total, False, iters).belief_propagation(potentials)` on a fresh object: the fields the call
reads are the ones the regenerated `__init__` stored, the method is the one `__init__` selected (`gen_dispatch`) -/
noncomputable def run (dom : Dom) (cliques : List Clique) (T : ℝ) (iters : Nat) (pots : CliqueVec ℝ) : CliqueVec ℝ :=
  match FGG.init dom cliques T iters with
  | (domain, cliques', total, _convex, iters', _cn, _bp, _pot, _marg, messages, _bel) =>
    (FGG.loopyBeliefPropagation domain cliques' total iters' messages pots).1

theorem gen_run (dom : Dom) (cliques : List Clique) (T : ℝ) (iters : Nat) (pots : CliqueVec ℝ) :
    run dom cliques T iters pots = (FG.lbp dom cliques pots T iters (FG.initMessages dom cliques)).1 := by
  unfold run
  rw [gen_init]
  exact gen_lbp_return dom cliques T iters _ pots

/-- **every returned table is `normalise total (belief)`** — for every clique list, potential vector, total, sweep count and
persisted message state -/
theorem gen_lbp_tables_normalised (dom : Dom) (cliques : List Clique) (pots : CliqueVec ℝ) (T : ℝ)
    (iters : Nat) (s : FG.State ℝ) (p : Clique × Factor ℝ)
    (hp : p ∈ (FGG.loopyBeliefPropagation dom cliques T iters (tup s) pots).1) :
    ∃ b : Factor ℝ, p.2 = RG.normalise T b := by
  rw [gen_lbp_return] at hp
  exact C16.lbp_tables_normalised dom cliques pots T iters s p hp

theorem gen_lbp_keys (dom : Dom) (cliques : List Clique) (pots : CliqueVec ℝ) (T : ℝ) (iters : Nat)
    (s : FG.State ℝ) (hnd : cliques.Nodup) :
    (FGG.loopyBeliefPropagation dom cliques T iters (tup s) pots).1.map Prod.fst = cliques := by
  rw [gen_lbp_return]
  exact C16.lbp_keys dom cliques pots T iters s hnd

/-- **loopy propagation returns valid tables** (strictly positive entries summing to `T`), warm messages -/
theorem gen_lbp_tables_valid_pos (dom : Dom) (cliques : List Clique) (pots : CliqueVec ℝ) (T : ℝ)
    (iters : Nat) (s : FG.State ℝ) (hT : 0 < T)
    (hcl : ∀ cl ∈ cliques, PosDom (pots.get cl).dom ∧ (pots.get cl).vals.data.size ≠ 0)
    (hs : PosState s)
    (p : Clique × Factor ℝ) (hp : p ∈ (FGG.loopyBeliefPropagation dom cliques T iters (tup s) pots).1) : ValidTable T p.2 := by
  rw [gen_lbp_return] at hp
  exact C16.lbp_tables_valid_pos dom cliques pots T iters s hT hcl hs p hp

/-- the same on a fresh object, with hypotheses on the inputs only -/
theorem gen_lbp_tables_valid_init (dom : Dom) (cliques : List Clique) (pots : CliqueVec ℝ) (T : ℝ)
    (iters : Nat) (hT : 0 < T) (hdom : PosDom dom)
    (hsub : ∀ cl ∈ cliques, ∀ v ∈ cl, v ∈ dom.attrs)
    (hcl : ∀ cl ∈ cliques, PosDom (pots.get cl).dom ∧ (pots.get cl).vals.data.size ≠ 0)
    (p : Clique × Factor ℝ) (hp : p ∈ run dom cliques T iters pots) : ValidTable T p.2 := by
  rw [gen_run] at hp
  exact C16.lbp_tables_valid_init dom cliques pots T iters hT hdom hsub hcl p hp

/-- pairwise disjoint cliques: the normalised potentials, for every sweep count -/
theorem gen_lbp_disjoint (dom : Dom) (cliques : List Clique) (pots : CliqueVec ℝ) (T : ℝ) (iters : Nat)
    (hd : Disjoint cliques) (hnd : cliques.Nodup) (htup : ∀ cl ∈ cliques, cl.Nodup)
    (hpot : ∀ cl ∈ cliques, (pots.get cl).WF ∧ (pots.get cl).dom = dom.project cl)
    (c : Clique) (hc : c ∈ cliques) :
    ((run dom cliques T iters pots).get c).datavector = (RG.normalise T (pots.get c)).datavector := by
  rw [gen_run]
  exact C16.lbp_disjoint dom cliques pots T iters hd hnd htup hpot c hc

/-- **loopy belief propagation, as the source now reads, is exact on forests** -/
theorem gen_lbp_exact_on_forest (dom : Dom) (cliques : List Clique) (pots : CliqueVec ℝ) (T : ℝ) (iters : Nat)
    (h : Clique → Attr → Nat)
    (hG : GraphOK dom cliques pots) (hpos : PosDom dom) (hF : Forest cliques h)
    (hiters : ∀ cl ∈ cliques, ∀ v ∈ cl, Shared cliques cl v → h cl v < iters)
    (hT : 0 < T) (c : Clique) (hc : c ∈ cliques) :
    let table := (run dom cliques T iters pots).get c
    table.WF ∧ table.dom = dom.project c ∧
    ∀ σ, dom.Valid σ → table.sem σ = T * marginalR dom cliques pots c σ / partitionR dom cliques pots := by
  rw [gen_run]
  exact C16.lbp_exact_on_forest dom cliques pots T iters h hG hpos hF hiters hT c hc

/-- exactness from an elimination order, with `2·#cliques` sweeps -/
theorem gen_lbp_exact_of_elim (dom : Dom) (cliques : List Clique) (pots : CliqueVec ℝ) (T : ℝ) (iters : Nat)
    (hG : GraphOK dom cliques pots) (hpos : PosDom dom) (hel : ElimOrder cliques)
    (hiters : 2 * cliques.length ≤ iters) (hT : 0 < T) (c : Clique) (hc : c ∈ cliques) :
    let table := (run dom cliques T iters pots).get c
    table.WF ∧ table.dom = dom.project c ∧
    ∀ σ, dom.Valid σ → table.sem σ = T * marginalR dom cliques pots c σ / partitionR dom cliques pots := by
  rw [gen_run]
  exact C16.lbp_exact_of_elim dom cliques pots T iters hG hpos hel hiters hT c hc

end PGM.C16.FGG
