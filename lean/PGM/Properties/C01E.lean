import PGM.Generated.GraphicalModelInitG
import PGM.Proofs.GMInitGen
import PGM.Proofs.CoherentSum
import PGM.Properties.C12G
import PGM.Properties.C01G
import PGM.Properties.C01B
/-!
# C01 (end to end) — from the caller's arguments of `GraphicalModel(domain, cliques, total, elimination_order)` to the marginals

`PGM/Generated/GraphicalModelInitG.lean` is rewritten on every run by `tools/py2gminit.py` from the current source of
`GraphicalModel.__init__` (graphical_model.py): the construction of the `JunctionTree` and the fields read off it
(`cliques`, `message_order`, `sep_axes`, `neighbors`, `elimination_order`, `size`), stated over the definitions that `tools/py2jt.py`
generates from junction_tree.py (`Generated/JunctionTreeG.lean`).  This file

1. says what every stored field is (`gen_init_*`: by `rfl`, for the three forms of `elimination_order`);
2. proves that the generated tree, re-listed in the order of `self.cliques`, together with `self.message_order` passes the verified
   checker `checkJT` (`gen_init_checkJT`), that `self.sep_axes` is read by `belief_propagation` as the hand model reads it
   (`gen_init_sep_axes_read`) and that `self.neighbors` lists the tree neighbours (`gen_init_neighbors`);
3. composes `gen_junction_tree_construction_valid*`, `gen_mp_order_valid`, `gen_separator_axes` (C12G) with `gen_bp_marginals`,
   `gen_logZ_correct` (C01G): **`gen_exact_inference_end_to_end`** — the tables the GENERATED `belief_propagation` returns on the fields
   of the GENERATED `__init__` are `total · marginal / Z` of the product of the potentials, for every domain, clique list, form of
   `elimination_order` and admissible behaviour of networkx / set iteration / `np.random.choice` — **under the hypothesis
   `hZ : partition d pots ≠ 0`** (`Z ≠ 0`): the scalar class here is the exponential-domain real one, where a potential may be 0
   (structural zeros), and when every joint cell is 0 the real code computes `0/0`; `Z ≠ 0` is exactly what excludes it (it holds
   automatically for potentials of the form `exp θ` with finite `θ`);
4. corollaries: the marginal on every INPUT clique (`gen_input_clique_marginal_end_to_end`), independence of the elimination order
   and of the contract outcomes (`gen_bp_order_indep_end_to_end`), `gen_logZ_end_to_end`.

The contracts are bundled in `Nx` (one function per call site, see the header of the generated file) and `Admissible`.
-/
namespace PGM.C01E
open PGM PGM.JT PGM.Sem PGM.C12G
set_option linter.unusedSectionVars false
set_option linter.unusedVariables false

/-! ## the contracts, bundled -/

/-- one outcome function per library call site of `GraphicalModel.__init__` (the parameters of `GMIG.init_*`) -/
structure Nx where
  /-- `tuple(set(..))` inside `_greedy_order` -/
  tos : List Attr → List Attr
  find_cliques : Graph → List Clique
  minimum_spanning_tree : WGraph → Tree
  /-- `np.random.choice` (int mode) -/
  choice : Nat → List Rat → Nat → Nat
  /-- `nx.dfs_preorder_nodes` in `tree.maximal_cliques()` (→ `self.cliques`) -/
  dfs_cliques : Tree → List Clique
  /-- `nx.topological_sort` in `tree.mp_order()` (→ `self.message_order`) -/
  topo_order : DiGraph → List Msg
  /-- `tuple(set(i) & set(j))` in `tree.separator_axes()` -/
  tos_sep : List Attr → List Attr
  /-- `nx.topological_sort` in the `mp_order()` that `tree.separator_axes()` re-runs -/
  topo_sep : DiGraph → List Msg
  /-- `nx.dfs_preorder_nodes` in the `maximal_cliques()` that `tree.neighbors()` re-runs -/
  dfs_nbrs : Tree → List Clique

/-- the dynamic form of the argument `elimination_order` -/
inductive ElimMode where
  /-- a sequence of attributes -/
  | given (order : List Attr)
  /-- `None` (the default): deterministic greedy order -/
  | none
  /-- an int `n = draws.length`; `draws[k]` are the outcomes of `np.random.choice` in the k-th randomised greedy run -/
  | int (draws : List (List Nat))

/-- `GraphicalModel(domain, cliques, total, elimination_order)`: the generated `__init__` of the form of the argument -/
def genInit {τ : Type} (nx : Nx) (d : Dom) (cliques : List Clique) (total : τ) : ElimMode → GMIG.Model τ
  | .given order => GMIG.init_given nx.tos nx.find_cliques nx.minimum_spanning_tree nx.choice nx.dfs_cliques nx.topo_order nx.tos_sep
      nx.topo_sep nx.dfs_nbrs d cliques total order
  | .none => GMIG.init_none nx.tos nx.find_cliques nx.minimum_spanning_tree nx.choice nx.dfs_cliques nx.topo_order nx.tos_sep
      nx.topo_sep nx.dfs_nbrs d cliques total
  | .int draws => GMIG.init_int nx.tos nx.find_cliques nx.minimum_spanning_tree nx.choice nx.dfs_cliques nx.topo_order nx.tos_sep
      nx.topo_sep nx.dfs_nbrs d cliques total draws.length draws

/-- `JunctionTree(domain, cliques, elimination_order)`: the generated `(self.tree, self.order)` -/
def genTree (nx : Nx) (d : Dom) (cliques : List Clique) : ElimMode → Tree × List Attr
  | .given order => JTG.init_given nx.find_cliques nx.minimum_spanning_tree d cliques order
  | .none => JTG.init_none nx.tos nx.find_cliques nx.minimum_spanning_tree d cliques
  | .int draws => JTG.init_int nx.tos nx.find_cliques nx.minimum_spanning_tree nx.choice d cliques draws.length draws

/-- what is asked of the argument itself: a given order is a permutation of the domain's attributes; drawn outcomes are indices -/
def ModeOK (d : Dom) : ElimMode → Prop
  | .given order => order.Perm d.attrs
  | .none => True
  | .int draws => ∀ picks ∈ draws, picks.length = d.attrs.length ∧ picksInRange d.attrs.length picks = true

/-- **every admissible behaviour of the library calls**: each contract at the arguments `__init__` passes -/
structure Admissible (nx : Nx) (d : Dom) (cliques : List Clique) (mode : ElimMode) : Prop where
  mode_ok : ModeOK d mode
  tos : TosOK nx.tos
  tos_sep : TosOK nx.tos_sep
  choice : ChoiceContract nx.choice
  /-- `find_cliques`, `minimum_spanning_tree` on the graphs `_make_tree` builds for the elimination order it uses -/
  nx_tree : NxContracts nx.find_cliques nx.minimum_spanning_tree d cliques (genTree nx d cliques mode).2
  /-- the two `topological_sort` calls, on the dependency digraph of the generated tree -/
  topo_order : isTopoSort (JTG.mp_order_G (genTree nx d cliques mode).1).nodes (JTG.mp_order_G (genTree nx d cliques mode).1).arcs
    (nx.topo_order (JTG.mp_order_G (genTree nx d cliques mode).1)) = true
  topo_sep : isTopoSort (JTG.mp_order_G (genTree nx d cliques mode).1).nodes (JTG.mp_order_G (genTree nx d cliques mode).1).arcs
    (nx.topo_sep (JTG.mp_order_G (genTree nx d cliques mode).1)) = true
  /-- the two `dfs_preorder_nodes` calls, on the generated tree -/
  dfs_cliques : isPreorder (genTree nx d cliques mode).1 (nx.dfs_cliques (genTree nx d cliques mode).1) = true
  dfs_nbrs : isPreorder (genTree nx d cliques mode).1 (nx.dfs_nbrs (genTree nx d cliques mode).1) = true

/-! ## 1. the stored fields (`self.X = …`), for every form of `elimination_order` -/
section fields
variable {τ : Type} (nx : Nx) (d : Dom) (cliques : List Clique) (total : τ) (mode : ElimMode)

/-- `self.domain = domain` -/
theorem gen_init_domain : (genInit nx d cliques total mode).domain = d := by cases mode <;> rfl
/-- `self.total = total` -/
theorem gen_init_total : (genInit nx d cliques total mode).total = total := by cases mode <;> rfl
/-- `self.junction_tree = JunctionTree(domain, cliques, elimination_order)` -/
theorem gen_init_junction_tree : (genInit nx d cliques total mode).junction_tree = genTree nx d cliques mode := by
  cases mode <;> rfl
/-- `self.cliques = tree.maximal_cliques()`: the nodes of THAT tree in depth-first preorder (not the input list) -/
theorem gen_init_cliques :
    (genInit nx d cliques total mode).cliques = JTG.maximal_cliques nx.dfs_cliques (genTree nx d cliques mode).1 := by
  cases mode <;> rfl
/-- `self.message_order = tree.mp_order()` of the same tree -/
theorem gen_init_message_order :
    (genInit nx d cliques total mode).message_order = JTG.mp_order nx.topo_order (genTree nx d cliques mode).1 := by
  cases mode <;> rfl
/-- `self.sep_axes = tree.separator_axes()` of the same tree -/
theorem gen_init_sep_axes :
    (genInit nx d cliques total mode).sep_axes = JTG.separator_axes nx.tos_sep nx.topo_sep (genTree nx d cliques mode).1 := by
  cases mode <;> rfl
/-- `self.neighbors = tree.neighbors()` of the same tree -/
theorem gen_init_neighbors_eq :
    (genInit nx d cliques total mode).neighbors = JTG.neighbors nx.dfs_nbrs (genTree nx d cliques mode).1 := by
  cases mode <;> rfl
/-- `self.elimination_order = tree.elimination_order`: the order the tree was built with -/
theorem gen_init_elimination_order :
    (genInit nx d cliques total mode).elimination_order = (genTree nx d cliques mode).2 := by
  cases mode with
  | given order => rfl
  | none =>
    show JTG.elimination_order_none nx.tos d cliques = (JTG.init_none nx.tos nx.find_cliques nx.minimum_spanning_tree d cliques).2
    rw [gen_init_none]; rfl
  | int draws =>
    show JTG.elimination_order_int nx.tos nx.choice d cliques draws.length draws
      = (JTG.init_int nx.tos nx.find_cliques nx.minimum_spanning_tree nx.choice d cliques draws.length draws).2
    rw [gen_init_int]; rfl
/-- … which is the caller's sequence when one is given -/
theorem gen_init_elimination_order_given (order : List Attr) :
    (genInit nx d cliques total (.given order)).elimination_order = order := rfl
/-- `self.size = sum(domain.size(cl) for cl in self.cliques)`: total number of cells over the MODEL's cliques -/
theorem gen_init_size :
    (genInit nx d cliques total mode).size = (((genInit nx d cliques total mode).cliques).map (fun cl => d.sizeOf cl)).sum := by
  cases mode <;> rfl

end fields

/-! ## 2. the generated construction, in every mode, is the given-order construction at some permutation -/

/-- the three forms of `elimination_order` meet in `_make_tree`: the tree is the one built from some permutation `o` of the
attributes (the caller's; the greedy one; the cheapest of the greedy and the randomised ones) -/
theorem genTree_eq_given (nx : Nx) (d : Dom) (cliques : List Clique) (mode : ElimMode) (hnd : d.attrs.Nodup)
    (hcl : ∀ c ∈ cliques, c.Nodup ∧ ∀ a ∈ c, a ∈ d.attrs) (hm : ModeOK d mode) (htos : TosOK nx.tos)
    (hch : ChoiceContract nx.choice) :
    ∃ o : List Attr, o.Perm d.attrs ∧ (genTree nx d cliques mode).2 = o ∧
      genTree nx d cliques mode = JTG.init_given nx.find_cliques nx.minimum_spanning_tree d cliques o := by
  have key : ∀ o : List Attr, o.Perm d.attrs →
      genTree nx d cliques mode = JTG.init_given nx.find_cliques nx.minimum_spanning_tree d cliques o →
      ∃ o : List Attr, o.Perm d.attrs ∧ (genTree nx d cliques mode).2 = o ∧
        genTree nx d cliques mode = JTG.init_given nx.find_cliques nx.minimum_spanning_tree d cliques o := by
    intro o hp he
    refine ⟨o, hp, ?_, he⟩
    rw [he, gen_init_given]; rfl
  cases mode with
  | given order => exact key order hm rfl
  | none =>
    refine key (JTG.greedy_order_det nx.tos d cliques).1 ?_ ?_
    · rw [gen_greedy_order_det nx.tos htos d cliques hnd (fun c hc => (hcl c hc).1)]
      exact C12.greedyOrder_perm d cliques d.attrs hnd
    · show JTG.init_none _ _ _ _ _ = _
      rw [gen_init_none, gen_make_tree_none, ← gen_init_given]
  | int draws =>
    have hsome := gen_int_mode_order nx.tos htos nx.choice hch d cliques draws hnd (fun c hc => (hcl c hc).1) hm
    obtain ⟨o, ho, hop⟩ := C12.int_mode_make_tree_perm d cliques d.attrs hnd draws hm
    rw [ho] at hsome
    have heq := Option.some.inj hsome
    refine key o.1 hop ?_
    show JTG.init_int _ _ _ _ _ _ _ _ = _
    rw [gen_init_int, gen_make_tree_int, ← gen_init_given, heq]

/-- the nodes of the generated tree are duplicate-free attribute lists inside the domain (they are cliques of the triangulated graph) -/
theorem gen_tree_nodes_ok (fc : Graph → List Clique) (mst : WGraph → Tree) (d : Dom) (cliques : List Clique) (order : List Attr)
    (hnd : d.attrs.Nodup) (hnx : NxContracts fc mst d cliques order) :
    ∀ n ∈ (JTG.init_given fc mst d cliques order).1.nodes, n.Nodup ∧ ∀ a ∈ n, a ∈ d.attrs := by
  rw [gen_init_given, gen_make_tree_given]
  obtain ⟨hfc, hmst⟩ := hnx
  have hg : JTG.make_graph d cliques = makeGraph d.attrs cliques := C12G.gen_make_graph d cliques hnd
  have hgn : (JTG.make_graph d cliques).nodes = d.attrs := by rw [hg]; exact C12.makeGraph_nodes _ _
  obtain ⟨hfam, hcn⟩ := make_tree_cliques_family fc d _ order hnd hgn hfc
  rw [JT.gen_make_tree_complete fc d _ order hfam.nodup hcn] at hmst ⊢
  obtain ⟨hn, _, _⟩ := mst_max_weight _ hcn _ hmst
  intro n hmem
  rw [hn] at hmem
  obtain ⟨⟨h1, h2, _⟩, _⟩ := hfam.clique n hmem
  refine ⟨h1, fun a ha => ?_⟩
  have := h2 a ha
  rw [← hgn]
  simpa [triangulate, Graph.addEdges] using this

/-- everything the composition needs to know about the generated tree and the two stored listings -/
structure TreeFactsAt (nx : Nx) (d : Dom) (cliques : List Clique) (tp : Tree × List Attr) : Prop where
  valid : TreeValid d cliques tp.1
  order_perm : tp.2.Perm d.attrs
  nodes_ok : ∀ n ∈ tp.1.nodes, n.Nodup ∧ ∀ a ∈ n, a ∈ d.attrs
  nodes_nodup : tp.1.nodes.Nodup
  cliques_nodup : (nx.dfs_cliques tp.1).Nodup
  cliques_perm : (nx.dfs_cliques tp.1).Perm tp.1.nodes
  sched_complete : scheduleComplete tp.1 (JTG.mp_order nx.topo_order tp.1) = true
  sched_respects : scheduleRespects tp.1 [] (JTG.mp_order nx.topo_order tp.1) = true

abbrev TreeFacts (nx : Nx) (d : Dom) (cliques : List Clique) (mode : ElimMode) : Prop :=
  TreeFactsAt nx d cliques (genTree nx d cliques mode)

theorem treeFacts_of_admissible (nx : Nx) (d : Dom) (cliques : List Clique) (mode : ElimMode) (hd : d.WF) (hne : d.attrs ≠ [])
    (hcl : ∀ c ∈ cliques, c.Nodup ∧ ∀ a ∈ c, a ∈ d.attrs) (hadm : Admissible nx d cliques mode) :
    TreeFacts nx d cliques mode := by
  obtain ⟨o, hop, ho2, heq⟩ := genTree_eq_given nx d cliques mode hd hcl hadm.mode_ok hadm.tos hadm.choice
  have hto := hadm.topo_order
  have hdc := hadm.dfs_cliques
  have hnx : NxContracts nx.find_cliques nx.minimum_spanning_tree d cliques o := ho2 ▸ hadm.nx_tree
  show TreeFactsAt nx d cliques (genTree nx d cliques mode)
  rw [heq] at hto hdc ⊢
  obtain ⟨h1, h2⟩ := gen_junction_tree_construction_valid nx.find_cliques nx.minimum_spanning_tree d cliques o hne hd hop hcl
    hnx
  have hnn : (JTG.init_given nx.find_cliques nx.minimum_spanning_tree d cliques o).1.nodes.Nodup := by
    have := h2.1
    simp only [isTree, Bool.and_eq_true] at this
    exact (nodup_iff _).mp this.1.1.1
  obtain ⟨hs1, hs2⟩ := gen_mp_order_valid nx.topo_order _ h2.1 hto
  obtain ⟨hp1, hp2⟩ := isPreorder_perm _ _ hnn hdc
  exact ⟨h2, h1 ▸ hop, gen_tree_nodes_ok _ _ d cliques o hd hnx, hnn, hp1, hp2, hs1, hs2⟩

/-! ## 3. the generated `__init__` hands `belief_propagation` a checked junction tree -/
section checked
variable {τ : Type} (nx : Nx) (d : Dom) (cliques : List Clique) (total : τ) (mode : ElimMode)

/-- the junction tree of the generated model with its nodes listed as `self.cliques` lists them -/
def modelTree : Tree :=
  ((genInit nx d cliques total mode).junction_tree.1).withNodes (genInit nx d cliques total mode).cliques

theorem modelTree_nodes : (modelTree nx d cliques total mode).nodes = (genInit nx d cliques total mode).cliques := rfl
theorem modelTree_edges : (modelTree nx d cliques total mode).edges = (genTree nx d cliques mode).1.edges := by
  cases mode <;> rfl

/-- **`gen_init_checkJT`**: whatever the contracts answer, the tree built by the generated `__init__` (nodes in the order of
`self.cliques`) and the stored `self.message_order` are accepted by the verified checker `checkJT` — with respect to the caller's
clique list: every input clique lies inside a model clique, every attribute is covered, no model clique contains another, the tree
is a spanning tree with the running-intersection property, the schedule is complete and respects the dependencies -/
theorem gen_init_checkJT (hd : d.WF) (hne : d.attrs ≠ []) (hcl : ∀ c ∈ cliques, c.Nodup ∧ ∀ a ∈ c, a ∈ d.attrs)
    (hadm : Admissible nx d cliques mode) :
    checkJT d.attrs cliques (modelTree nx d cliques total mode) (genInit nx d cliques total mode).message_order = true := by
  have F := treeFacts_of_admissible nx d cliques mode hd hne hcl hadm
  unfold modelTree
  rw [gen_init_junction_tree, gen_init_cliques, gen_init_message_order, gen_maximal_cliques,
    checkJT_withNodes _ _ _ _ _ F.nodes_nodup F.cliques_perm]
  obtain ⟨ht, hrip, hcov, hdom, hanti⟩ := F.valid
  exact checkJT_of_clauses d.attrs cliques _ _ hcov hdom hanti ht hrip F.sched_complete F.sched_respects

/-- the same with no input cliques (the form `ModelOK` asks for) -/
theorem gen_init_checkJT_nil (hd : d.WF) (hne : d.attrs ≠ []) (hcl : ∀ c ∈ cliques, c.Nodup ∧ ∀ a ∈ c, a ∈ d.attrs)
    (hadm : Admissible nx d cliques mode) :
    checkJT d.attrs [] (modelTree nx d cliques total mode) (genInit nx d cliques total mode).message_order = true := by
  have h := gen_init_checkJT nx d cliques total mode hd hne hcl hadm
  simp only [checkJT, Bool.and_eq_true] at h ⊢
  obtain ⟨⟨⟨⟨⟨⟨_, h2⟩, h3⟩, h4⟩, h5⟩, h6⟩, h7⟩ := h
  exact ⟨⟨⟨⟨⟨⟨rfl, h2⟩, h3⟩, h4⟩, h5⟩, h6⟩, h7⟩

/-- the model's cliques: duplicate-free attribute lists inside the domain, pairwise distinct, a re-listing of the tree's nodes -/
theorem gen_init_cliques_ok (hd : d.WF) (hne : d.attrs ≠ []) (hcl : ∀ c ∈ cliques, c.Nodup ∧ ∀ a ∈ c, a ∈ d.attrs)
    (hadm : Admissible nx d cliques mode) :
    (genInit nx d cliques total mode).cliques.Nodup ∧
      (genInit nx d cliques total mode).cliques.Perm (genInit nx d cliques total mode).junction_tree.1.nodes ∧
      ∀ c ∈ (genInit nx d cliques total mode).cliques, c.Nodup ∧ ∀ a ∈ c, a ∈ d.attrs := by
  have F := treeFacts_of_admissible nx d cliques mode hd hne hcl hadm
  rw [gen_init_junction_tree, gen_init_cliques, gen_maximal_cliques]
  exact ⟨F.cliques_nodup, F.cliques_perm, fun c hc => F.nodes_ok c (F.cliques_perm.mem_iff.mp hc)⟩

/-- every INPUT clique lies inside a clique of the model -/
theorem gen_init_covers_input (hd : d.WF) (hne : d.attrs ≠ []) (hcl : ∀ c ∈ cliques, c.Nodup ∧ ∀ a ∈ c, a ∈ d.attrs)
    (hadm : Admissible nx d cliques mode) (c0 : Clique) (hc0 : c0 ∈ cliques) :
    ∃ n ∈ (genInit nx d cliques total mode).cliques, ∀ a ∈ c0, a ∈ n := by
  have F := treeFacts_of_admissible nx d cliques mode hd hne hcl hadm
  obtain ⟨n, hn, hsub⟩ := F.valid.2.2.1 c0 hc0
  rw [gen_init_cliques, gen_maximal_cliques]
  exact ⟨n, F.cliques_perm.mem_iff.mpr hn, hsub⟩

/-- `self.elimination_order` is a permutation of the domain's attributes in every mode -/
theorem gen_init_elimination_order_perm (hd : d.WF) (hne : d.attrs ≠ []) (hcl : ∀ c ∈ cliques, c.Nodup ∧ ∀ a ∈ c, a ∈ d.attrs)
    (hadm : Admissible nx d cliques mode) : (genInit nx d cliques total mode).elimination_order.Perm d.attrs := by
  rw [gen_init_elimination_order]
  exact (treeFacts_of_admissible nx d cliques mode hd hne hcl hadm).order_perm

/-- **`self.sep_axes` as `belief_propagation` reads it**: for every message `(i, j)` of `self.message_order` the dictionary has an
entry, and `beliefs[i].domain.invert(self.sep_axes[(i, j)])` is what the generated (and the hand) `belief_propagation` computes from
`JT.inter i j` — although `separator_axes()` re-runs `mp_order()` (another admissible topological sort) and lists each separator in
an unspecified order -/
theorem gen_init_sep_axes_read (hd : d.WF) (hne : d.attrs ≠ []) (hcl : ∀ c ∈ cliques, c.Nodup ∧ ∀ a ∈ c, a ∈ d.attrs)
    (hadm : Admissible nx d cliques mode) (ij : Msg) (hij : ij ∈ (genInit nx d cliques total mode).message_order) :
    ∃ s, List.lookup ij (genInit nx d cliques total mode).sep_axes = some s ∧
      ∀ dom : Dom, dom.invert s = dom.invert (JT.inter ij.1 ij.2) := by
  have F := treeFacts_of_admissible nx d cliques mode hd hne hcl hadm
  rw [gen_init_message_order] at hij
  rw [gen_init_sep_axes]
  -- the keys of `sep_axes` are the other topological sort: the same messages
  have hkeys := (gen_separator_axes nx.tos_sep hadm.tos_sep nx.topo_sep (genTree nx d cliques mode).1).1
  obtain ⟨hs1, _⟩ := gen_mp_order_valid nx.topo_sep _ F.valid.1 hadm.topo_sep
  have hmem : ∀ m, m ∈ JTG.mp_order nx.topo_order (genTree nx d cliques mode).1 →
      m ∈ JTG.mp_order nx.topo_sep (genTree nx d cliques mode).1 := by
    intro m hm
    have hV := scheduleComplete_mem (genTree nx d cliques mode).1 F.valid.1 _ F.sched_complete m
    have hV' := scheduleComplete_mem (genTree nx d cliques mode).1 F.valid.1 _ hs1 m
    exact hV'.mpr (hV.mp hm)
  have hk : ij ∈ (JTG.separator_axes nx.tos_sep nx.topo_sep (genTree nx d cliques mode).1).map Prod.fst := by
    rw [hkeys]; exact hmem ij hij
  obtain ⟨⟨k, s⟩, hks, hkeq⟩ := List.mem_map.mp hk
  simp only at hkeq
  subst hkeq
  -- every entry under the key `(i, j)` is a listing of the intersection
  have hall : ∀ p ∈ JTG.separator_axes nx.tos_sep nx.topo_sep (genTree nx d cliques mode).1,
      ∀ a, a ∈ p.2 ↔ (a ∈ p.1.1 ∧ a ∈ p.1.2) := by
    intro p hp a
    simp only [JTG.separator_axes, List.mem_map] at hp
    obtain ⟨m, _, rfl⟩ := hp
    rw [(hadm.tos_sep _).mem_iff]
    simp [setInter, mem_toSet]
  cases hlk : List.lookup k (JTG.separator_axes nx.tos_sep nx.topo_sep (genTree nx d cliques mode).1) with
  | none =>
    rw [List.lookup_eq_none_iff] at hlk
    exact absurd (beq_self_eq_true k) (by simpa using hlk (k, s) hks)
  | some s' =>
    refine ⟨s', rfl, fun dom => ?_⟩
    have hin : (k, s') ∈ JTG.separator_axes nx.tos_sep nx.topo_sep (genTree nx d cliques mode).1 := by
      obtain ⟨l₁, l₂, hl, _⟩ := List.lookup_eq_some_iff.mp hlk
      rw [hl]; simp
    exact C01.GMG.gen_invert_sep dom k.1 k.2 s' (hall (k, s') hin)

/-- **`self.neighbors`**: one entry per clique of the model, holding exactly its neighbours in the tree (as a set) -/
theorem gen_init_neighbors (hd : d.WF) (hne : d.attrs ≠ []) (hcl : ∀ c ∈ cliques, c.Nodup ∧ ∀ a ∈ c, a ∈ d.attrs)
    (hadm : Admissible nx d cliques mode) :
    ((genInit nx d cliques total mode).neighbors.map Prod.fst).Perm (genInit nx d cliques total mode).cliques ∧
      ∀ p ∈ (genInit nx d cliques total mode).neighbors, ∀ b,
        b ∈ p.2 ↔ (b ∈ (genInit nx d cliques total mode).cliques ∧ (modelTree nx d cliques total mode).adj p.1 b = true) := by
  have F := treeFacts_of_admissible nx d cliques mode hd hne hcl hadm
  obtain ⟨_, hpn⟩ := isPreorder_perm _ _ F.nodes_nodup hadm.dfs_nbrs
  rw [gen_init_neighbors_eq, gen_neighbors _ _ F.nodes_nodup, gen_init_cliques, gen_maximal_cliques]
  constructor
  · rw [List.map_map]
    have : (Prod.fst ∘ fun i => (i, (genTree nx d cliques mode).1.nbrs i)) = id := rfl
    rw [this, List.map_id]
    exact hpn.trans F.cliques_perm.symm
  · intro p hp b
    obtain ⟨i, _, rfl⟩ := List.mem_map.mp hp
    simp only [Tree.nbrs, List.mem_filter]
    rw [F.cliques_perm.mem_iff]
    have : (modelTree nx d cliques total mode).adj i b = (genTree nx d cliques mode).1.adj i b := by
      cases mode <;> rfl
    rw [this]

end checked

/-! ## 4. end to end -/
section endToEnd
variable {K : Type} [Field K] [LinearOrder K] [IsStrictOrderedRing K]

/-- a potential vector over the cliques of a model: one table per clique, in the model's order, each a well-formed nonnegative
table over exactly the clique's attributes (in any order) with the domain's sizes — what `CliqueVector` holds -/
structure PotsOK (d : Dom) (mcliques : List Clique) (pots : CliqueVec (LogOf K)) : Prop where
  keys : pots.map Prod.fst = mcliques
  pot_ok : ∀ p ∈ pots, p.2.WF ∧ p.2.dom.attrs.Perm p.1 ∧ p.2.dom.Agrees d
  nonneg : ∀ p ∈ pots, ∀ x ∈ p.2.vals.data.toList, 0 ≤ x.v

variable (nx : Nx) (d : Dom) (cliques : List Clique) (mode : ElimMode) (total : LogOf K)

/-- the generated `__init__` produces a model the C01 theorems apply to (`ModelOK`), whatever the contracts answer -/
theorem gen_init_modelOK (hd : d.WF) (hne : d.attrs ≠ []) (hcl : ∀ c ∈ cliques, c.Nodup ∧ ∀ a ∈ c, a ∈ d.attrs)
    (hadm : Admissible nx d cliques mode) (pots : CliqueVec (LogOf K))
    (hpots : PotsOK d (genInit nx d cliques total mode).cliques pots) :
    ModelOK d (genInit nx d cliques total mode).cliques (modelTree nx d cliques total mode)
      (genInit nx d cliques total mode).message_order pots where
  dom_wf := hd
  nodes := rfl
  jt := gen_init_checkJT_nil nx d cliques total mode hd hne hcl hadm
  clique_ok := (gen_init_cliques_ok nx d cliques total mode hd hne hcl hadm).2.2
  keys := hpots.keys
  pot_ok := hpots.pot_ok
  nonneg := hpots.nonneg

/-- the field identity behind `gen_exact_inference_end_to_end`, for EVERY `total : K` — no sign hypothesis: at `LogOf K` the
identity is plain field algebra; only `0 < total` corresponds to the code (`np.log(total)` is `nan` for a negative total, where the
model returns negative "marginals").  Kept for C08E, whose statement carries the sign of `total` clause by clause.

Original wording: **EXACT INFERENCE, END TO END, FOR THE GENERATED CODE.**  For every well-formed non-empty domain, every list of cliques inside
it (each duplicate-free; duplicated, nested, permuted, cyclic or disconnected lists allowed), every form of `elimination_order`
(a permutation / None / an int with any draws), every admissible behaviour of `find_cliques`, `minimum_spanning_tree`,
`topological_sort`, `dfs_preorder_nodes`, `tuple(set)` and `np.random.choice`, every nonnegative potential vector over the cliques of
the generated model and every total: the tables returned by the GENERATED `belief_propagation` run on the `cliques`, `message_order`
and `total` stored by the GENERATED `__init__` are `total · marginal / Z` of the product of the potentials (the caller's `total`),
laid out over the potential's attributes -/
theorem gen_exact_inference_anyTotal (hd : d.WF) (hne : d.attrs ≠ [])
    (hcl : ∀ c ∈ cliques, c.Nodup ∧ ∀ a ∈ c, a ∈ d.attrs) (hadm : Admissible nx d cliques mode)
    (pots : CliqueVec (LogOf K)) (hpots : PotsOK d (genInit nx d cliques total mode).cliques pots)
    (hZ : partition d pots ≠ 0) (c : Clique) (hc : c ∈ (genInit nx d cliques total mode).cliques)
    (σ : Attr → Nat) (hσ : d.Valid σ) :
    ((GMG.beliefPropagation (genInit nx d cliques total mode).cliques (genInit nx d cliques total mode).message_order pots
        (genInit nx d cliques total mode).total).get c).dom.attrs = (pots.get c).dom.attrs ∧
    (((GMG.beliefPropagation (genInit nx d cliques total mode).cliques (genInit nx d cliques total mode).message_order pots
        (genInit nx d cliques total mode).total).get c).sem σ).v
      = total.v * marginal d pots c σ / partition d pots := by
  have hok := gen_init_modelOK nx d cliques mode total hd hne hcl hadm pots hpots
  have h := C01.GMG.gen_bp_marginals_anyTotal d _ _ _ pots hok (genInit nx d cliques total mode).total hZ c hc σ hσ
  rw [gen_init_total] at h ⊢
  exact h

/-- **EXACT INFERENCE, END TO END, FOR THE GENERATED CODE.**  For every well-formed non-empty domain, every list of cliques inside
it (each duplicate-free; duplicated, nested, permuted, cyclic or disconnected lists allowed), every form of `elimination_order`
(a permutation / None / an int with any draws), every admissible behaviour of `find_cliques`, `minimum_spanning_tree`,
`topological_sort`, `dfs_preorder_nodes`, `tuple(set)` and `np.random.choice`, every nonnegative potential vector over the cliques of
the generated model and every POSITIVE total (`htot`; see `C01.bp_marginals` — the hypothesis restricts the statement to
the totals on which the model reads the code, the proof does not use it): the tables returned by the GENERATED `belief_propagation` run on the `cliques`, `message_order`
and `total` stored by the GENERATED `__init__` are `total · marginal / Z` of the product of the potentials (the caller's `total`),
laid out over the potential's attributes -/
theorem gen_exact_inference_end_to_end (hd : d.WF) (hne : d.attrs ≠ [])
    (hcl : ∀ c ∈ cliques, c.Nodup ∧ ∀ a ∈ c, a ∈ d.attrs) (hadm : Admissible nx d cliques mode)
    (pots : CliqueVec (LogOf K)) (hpots : PotsOK d (genInit nx d cliques total mode).cliques pots)
    (hZ : partition d pots ≠ 0) (_htot : 0 < total.v) (c : Clique) (hc : c ∈ (genInit nx d cliques total mode).cliques)
    (σ : Attr → Nat) (hσ : d.Valid σ) :
    ((GMG.beliefPropagation (genInit nx d cliques total mode).cliques (genInit nx d cliques total mode).message_order pots
        (genInit nx d cliques total mode).total).get c).dom.attrs = (pots.get c).dom.attrs ∧
    (((GMG.beliefPropagation (genInit nx d cliques total mode).cliques (genInit nx d cliques total mode).message_order pots
        (genInit nx d cliques total mode).total).get c).sem σ).v
      = total.v * marginal d pots c σ / partition d pots :=
  gen_exact_inference_anyTotal nx d cliques mode total hd hne hcl hadm pots hpots hZ c hc σ hσ

/-- **the partition function, end to end**: the generated `belief_propagation(potentials, logZ=True)` on the generated `__init__`'s
fields returns `log Z` of the product -/
theorem gen_logZ_end_to_end (hd : d.WF) (hne : d.attrs ≠ [])
    (hcl : ∀ c ∈ cliques, c.Nodup ∧ ∀ a ∈ c, a ∈ d.attrs) (hadm : Admissible nx d cliques mode)
    (pots : CliqueVec (LogOf K)) (hpots : PotsOK d (genInit nx d cliques total mode).cliques pots) :
    (GMG.logZ (genInit nx d cliques total mode).cliques (genInit nx d cliques total mode).message_order pots).v
      = partition d pots :=
  C01.GMG.gen_logZ_correct d _ _ _ pots (gen_init_modelOK nx d cliques mode total hd hne hcl hadm pots hpots)

/-- **the marginal on every INPUT clique**: each clique `c0` the caller listed lies inside some clique `n` of the model, and summing
the returned table of ANY such `n` over the attributes of `n` outside `c0` gives `total · marginal_{c0} / Z` -/
theorem gen_input_clique_marginal_end_to_end (hd : d.WF) (hne : d.attrs ≠ [])
    (hcl : ∀ c ∈ cliques, c.Nodup ∧ ∀ a ∈ c, a ∈ d.attrs) (hadm : Admissible nx d cliques mode)
    (pots : CliqueVec (LogOf K)) (hpots : PotsOK d (genInit nx d cliques total mode).cliques pots)
    (hZ : partition d pots ≠ 0) (htot : 0 < total.v) (c0 : Clique) (hc0 : c0 ∈ cliques) (σ : Attr → Nat) (hσ : d.Valid σ) :
    (∃ n ∈ (genInit nx d cliques total mode).cliques, ∀ a ∈ c0, a ∈ n) ∧
    ∀ n ∈ (genInit nx d cliques total mode).cliques, (∀ a ∈ c0, a ∈ n) →
      sumOver d (n.filter (fun a => !c0.contains a)) σ (fun τ =>
        (((GMG.beliefPropagation (genInit nx d cliques total mode).cliques (genInit nx d cliques total mode).message_order pots
          (genInit nx d cliques total mode).total).get n).sem τ).v)
        = total.v * marginal d pots c0 σ / partition d pots := by
  refine ⟨gen_init_covers_input nx d cliques total mode hd hne hcl hadm c0 hc0, fun n hn hsub => ?_⟩
  obtain ⟨hnn, hna⟩ := (gen_init_cliques_ok nx d cliques total mode hd hne hcl hadm).2.2 n hn
  rw [sumOver_congr_valid d hd _ σ _ (fun τ => total.v * marginal d pots n τ / partition d pots) hσ
    (fun τ hτ => (gen_exact_inference_end_to_end nx d cliques mode total hd hne hcl hadm pots hpots hZ htot n hn τ hτ).2)]
  have hsum : sumOver d (n.filter (fun a => !c0.contains a)) σ (fun τ => marginal d pots n τ) = marginal d pots c0 σ := by
    unfold marginal
    apply Coherent.marg_merge d hd (joint pots) n c0 _ (hnn.filter _)
    · intro a ha; exact (List.mem_filter.mp ha).1
    · intro a ha; exact hna a (List.mem_filter.mp ha).1
    · intro a _
      constructor
      · intro h
        exact ⟨hsub a h, fun hf => by simpa [h] using (List.mem_filter.mp hf).2⟩
      · rintro ⟨h1, h2⟩
        by_contra hne
        exact h2 (List.mem_filter.mpr ⟨h1, by simpa using hne⟩)
  have hrw : (fun τ => total.v * marginal d pots n τ / partition d pots)
      = fun τ => total.v / partition d pots * marginal d pots n τ := by
    funext τ; ring
  rw [hrw, sumOver_mul_left, hsum]
  ring

/-- **independence of the elimination order and of the library's choices, end to end**: two constructions from the same arguments —
with different forms / values of `elimination_order` and different admissible outcomes of every networkx / set-iteration / random
call (hence possibly different cliques, trees and schedules) — carrying potentials whose products agree on every IN-RANGE assignment
up to a constant factor `k ≠ 0` (`k = 1`: the same distribution laid out on the two models; `k ≠ 1`: a constant added to a
log-space potential) give, on every INPUT clique, the same marginal.

The products are compared on `d.Valid τ` only (C01 `bp_tree_indep`): out of range every lookup reads the default `⟨1⟩`, so the
earlier unrestricted hypothesis `∀ τ, joint pots τ = joint pots' τ` could only be met by re-orderings of the same tables. -/
theorem gen_bp_order_indep_end_to_end (nx' : Nx) (mode' : ElimMode) (hd : d.WF) (hne : d.attrs ≠ [])
    (hcl : ∀ c ∈ cliques, c.Nodup ∧ ∀ a ∈ c, a ∈ d.attrs)
    (hadm : Admissible nx d cliques mode) (hadm' : Admissible nx' d cliques mode')
    (pots pots' : CliqueVec (LogOf K)) (hpots : PotsOK d (genInit nx d cliques total mode).cliques pots)
    (hpots' : PotsOK d (genInit nx' d cliques total mode').cliques pots')
    (k : K) (hk : k ≠ 0) (hjoint : ∀ τ, d.Valid τ → joint pots τ = k * joint pots' τ) (hZ : partition d pots ≠ 0)
    (htot : 0 < total.v)
    (c0 : Clique) (hc0 : c0 ∈ cliques) (σ : Attr → Nat) (hσ : d.Valid σ)
    (n : Clique) (hn : n ∈ (genInit nx d cliques total mode).cliques) (hsub : ∀ a ∈ c0, a ∈ n)
    (n' : Clique) (hn' : n' ∈ (genInit nx' d cliques total mode').cliques) (hsub' : ∀ a ∈ c0, a ∈ n') :
    sumOver d (n.filter (fun a => !c0.contains a)) σ (fun τ =>
        (((GMG.beliefPropagation (genInit nx d cliques total mode).cliques (genInit nx d cliques total mode).message_order pots
          (genInit nx d cliques total mode).total).get n).sem τ).v)
      = sumOver d (n'.filter (fun a => !c0.contains a)) σ (fun τ =>
        (((GMG.beliefPropagation (genInit nx' d cliques total mode').cliques (genInit nx' d cliques total mode').message_order pots'
          (genInit nx' d cliques total mode').total).get n').sem τ).v) := by
  have h0 : d.Valid (fun _ => 0) := fun p hp => Nat.zero_lt_of_lt (hσ p hp)
  have hpart : partition d pots = k * partition d pots' := by
    unfold partition
    rw [← sumOver_mul_left]
    exact sumOver_congr_valid d hd _ _ _ _ h0 hjoint
  have hmarg : marginal d pots c0 σ = k * marginal d pots' c0 σ := by
    unfold marginal
    rw [← sumOver_mul_left]
    exact sumOver_congr_valid d hd _ _ _ _ hσ hjoint
  have hZ' : partition d pots' ≠ 0 := by
    intro h; apply hZ; rw [hpart, h, mul_zero]
  rw [(gen_input_clique_marginal_end_to_end nx d cliques mode total hd hne hcl hadm pots hpots hZ htot c0 hc0 σ hσ).2 n hn hsub,
    (gen_input_clique_marginal_end_to_end nx' d cliques mode' total hd hne hcl hadm' pots' hpots' hZ' htot c0 hc0 σ hσ).2
      n' hn' hsub', hpart, hmarg, mul_left_comm, mul_div_mul_left _ _ hk]

/-- the same on a clique the two models share: the two tables agree cell by cell -/
theorem gen_bp_order_indep_shared (nx' : Nx) (mode' : ElimMode) (hd : d.WF) (hne : d.attrs ≠ [])
    (hcl : ∀ c ∈ cliques, c.Nodup ∧ ∀ a ∈ c, a ∈ d.attrs)
    (hadm : Admissible nx d cliques mode) (hadm' : Admissible nx' d cliques mode')
    (pots pots' : CliqueVec (LogOf K)) (hpots : PotsOK d (genInit nx d cliques total mode).cliques pots)
    (hpots' : PotsOK d (genInit nx' d cliques total mode').cliques pots')
    (k : K) (hk : k ≠ 0) (hjoint : ∀ τ, d.Valid τ → joint pots τ = k * joint pots' τ) (hZ : partition d pots ≠ 0)
    (htot : 0 < total.v)
    (c : Clique) (hc : c ∈ (genInit nx d cliques total mode).cliques) (hc' : c ∈ (genInit nx' d cliques total mode').cliques)
    (σ : Attr → Nat) (hσ : d.Valid σ) :
    (((GMG.beliefPropagation (genInit nx d cliques total mode).cliques (genInit nx d cliques total mode).message_order pots
        (genInit nx d cliques total mode).total).get c).sem σ).v
      = (((GMG.beliefPropagation (genInit nx' d cliques total mode').cliques (genInit nx' d cliques total mode').message_order pots'
        (genInit nx' d cliques total mode').total).get c).sem σ).v := by
  have h0 : d.Valid (fun _ => 0) := fun p hp => Nat.zero_lt_of_lt (hσ p hp)
  have hpart : partition d pots = k * partition d pots' := by
    unfold partition
    rw [← sumOver_mul_left]
    exact sumOver_congr_valid d hd _ _ _ _ h0 hjoint
  have hmarg : marginal d pots c σ = k * marginal d pots' c σ := by
    unfold marginal
    rw [← sumOver_mul_left]
    exact sumOver_congr_valid d hd _ _ _ _ hσ hjoint
  have hZ' : partition d pots' ≠ 0 := by
    intro h; apply hZ; rw [hpart, h, mul_zero]
  rw [(gen_exact_inference_end_to_end nx d cliques mode total hd hne hcl hadm pots hpots hZ htot c hc σ hσ).2,
    (gen_exact_inference_end_to_end nx' d cliques mode' total hd hne hcl hadm' pots' hpots' hZ' htot c hc' σ hσ).2,
    hpart, hmarg, mul_left_comm, mul_div_mul_left _ _ hk]

end endToEnd

/-! ## non-vacuity: a concrete call `GraphicalModel(exD, [("a","b"), ("b","c")], total, elimination_order=["a","c","b"])`

The domain, cliques, tree, schedule and potentials are those of the example of `C01B` (a huge entry `10⁶`, structural zeros). -/
section Example
open PGM.C01 (exD exCl exT exOrd exPots)

/-- one admissible behaviour of every library call on this input -/
def exNx : Nx where
  tos := id
  find_cliques := fun _ => exCl
  minimum_spanning_tree := fun _ => exT
  choice := fun _ _ i => i
  dfs_cliques := fun _ => exCl
  topo_order := fun _ => exOrd
  tos_sep := List.reverse
  topo_sep := fun _ => exOrd.reverse
  dfs_nbrs := fun _ => exCl.reverse

def exElim : List Attr := ["a", "c", "b"]

def exG : Graph := ⟨["a", "b", "c"], [("a", "b"), ("b", "c")]⟩

theorem exG_family : IsMaxCliqueFamily exG exCl where
  clique := by
    intro n hn
    simp only [exCl, List.mem_cons, List.not_mem_nil, or_false] at hn
    rcases hn with rfl | rfl <;> exact ⟨by unfold IsClique; decide, by decide⟩
  maximal := by decide
  complete := by
    intro c ⟨_, hS, hA⟩
    have hmem : ∀ x ∈ c, x = "a" ∨ x = "b" ∨ x = "c" := by
      intro x hx; simpa [exG] using hS x hx
    by_cases ha : "a" ∈ c
    · refine ⟨["a", "b"], by decide, fun x hx => ?_⟩
      rcases hmem x hx with rfl | rfl | rfl
      · decide
      · decide
      · exact absurd (hA "a" ha "c" hx (by decide)) (by decide)
    · refine ⟨["b", "c"], by decide, fun x hx => ?_⟩
      rcases hmem x hx with rfl | rfl | rfl
      · exact absurd hx ha
      · decide
      · decide
  distinct := by decide

theorem ex_tri (fc : Graph → List Clique) (o : List Attr) (ho : o = exElim ∨ o = ["a", "b", "c"]) :
    (JTG.triangulated fc exD (JTG.make_graph exD exCl) o).1 = exG := by
  have h1 : (JTG.triangulated fc exD (JTG.make_graph exD exCl) o).1.nodes = exG.nodes := by
    rw [C12G.gen_triangulated_nodes]; rcases ho with rfl | rfl <;> decide +kernel
  have h2 : (JTG.triangulated fc exD (JTG.make_graph exD exCl) o).1.edges = exG.edges := by
    rcases ho with rfl | rfl
    · show (JTG.triangulated (fun _ => []) exD (JTG.make_graph exD exCl) exElim).1.edges = exG.edges
      decide +kernel
    · show (JTG.triangulated (fun _ => []) exD (JTG.make_graph exD exCl) ["a", "b", "c"]).1.edges = exG.edges
      decide +kernel
  calc (JTG.triangulated fc exD (JTG.make_graph exD exCl) o).1
      = ⟨(JTG.triangulated fc exD (JTG.make_graph exD exCl) o).1.nodes,
          (JTG.triangulated fc exD (JTG.make_graph exD exCl) o).1.edges⟩ := rfl
    _ = exG := by rw [h1, h2]

theorem ex_sorted : sortCliques exCl = exCl := List.mergeSort_of_pairwise (by decide)

theorem ex_nodes (o : List Attr) :
    JTG.make_tree_cliques (fun _ => exCl) exD (JTG.make_graph exD exCl) o = exCl := by
  rw [C12G.gen_make_tree_cliques]
  show sortCliques (exCl.map (Dom.canonical exD)) = exCl
  have : exCl.map (Dom.canonical exD) = exCl := by decide
  rw [this, ex_sorted]

theorem ex_complete (o : List Attr) :
    JTG.make_tree_complete (fun _ => exCl) exD (JTG.make_graph exD exCl) o = completeW exCl := by
  rw [C12G.gen_make_tree_complete _ _ _ _ (by rw [ex_nodes]; decide) (by rw [ex_nodes]; decide), ex_nodes]

theorem ex_wt (a b : Clique) (h : (completeW exCl).hasEdge a b = true) : (completeW exCl).wt a b = -1 := by
  have hedges : (completeW exCl).edges = [(["a", "b"], ["b", "c"], -1)] := by decide
  simp only [WGraph.hasEdge, WGraph.wt, WGraph.entry, hedges, List.reverse_singleton, List.find?_cons, List.find?_nil] at h ⊢
  split at h <;> simp_all

/-- any spanning tree of the two-node complete graph is a minimum spanning tree -/
theorem ex_mst (t : Tree) (h1 : t.nodes = (completeW exCl).nodes) (h2 : isTree t = true)
    (h3 : ∀ e ∈ t.edges, (completeW exCl).hasEdge e.1 e.2 = true) (htot : (completeW exCl).total t = -1) :
    IsMST (completeW exCl) t := by
  refine ⟨h1, h2, h3, ?_⟩
  intro t' hn ht' he
  rw [htot]
  obtain ⟨nodes', edges'⟩ := t'
  simp only at hn
  simp only [isTree, Bool.and_eq_true, beq_iff_eq] at ht'
  obtain ⟨⟨⟨_, hlen⟩, _⟩, _⟩ := ht'
  have hl2 : nodes'.length = 2 := by rw [hn]; decide
  rw [hl2] at hlen
  match edges', hlen, he with
  | [e], _, he =>
    have h := ex_wt e.1 e.2 (he e (by simp))
    simp [WGraph.total, h]

/-- the contracts hold for `exNx` on this call -/
theorem ex_admissible : Admissible exNx exD exCl (.given exElim) where
  mode_ok := by show exElim.Perm exD.attrs; decide
  tos := fun l => List.Perm.refl l
  tos_sep := fun l => List.reverse_perm l
  choice := fun _ _ => rfl
  nx_tree := by
    show NxContracts exNx.find_cliques exNx.minimum_spanning_tree exD exCl exElim
    refine ⟨?_, ?_⟩
    · rw [ex_tri _ _ (Or.inl rfl)]; exact exG_family
    · exact (ex_complete exElim).symm ▸ ex_mst exT (by decide) (by decide) (by decide) (by decide)
  topo_order := by decide
  topo_sep := by decide
  dfs_cliques := by decide
  dfs_nbrs := by decide

theorem ex_potsOK (total : LogOf ℚ) : PotsOK exD (genInit exNx exD exCl total (.given exElim)).cliques exPots :=
  ⟨rfl, C01.exModelOK.pot_ok, C01.exNonneg⟩

/-- the end-to-end theorem applies: the generated code returns `100 · marginal / Z` on the example, under each model clique -/
example (c : Clique) (hc : c ∈ (genInit exNx exD exCl (⟨100⟩ : LogOf ℚ) (.given exElim)).cliques) :=
  gen_exact_inference_end_to_end exNx exD exCl (.given exElim) (⟨100⟩ : LogOf ℚ) (by decide) (by decide) (by decide)
    ex_admissible exPots (ex_potsOK _) C01.exZ_ne (by norm_num) c hc (fun _ => 1) C01.exValid

example := gen_logZ_end_to_end exNx exD exCl (.given exElim) (⟨100⟩ : LogOf ℚ) (by decide) (by decide) (by decide)
    ex_admissible exPots (ex_potsOK _)

/-- ANOTHER admissible behaviour of every library call: sets iterate backwards, the spanning tree stores its edge the other way
round, depth-first search starts from the other end, the other topological sort is returned -/
def exNx' : Nx where
  tos := List.reverse
  find_cliques := fun _ => exCl
  minimum_spanning_tree := fun _ => ⟨exCl, [(["b", "c"], ["a", "b"])]⟩
  choice := fun _ _ i => i
  dfs_cliques := fun _ => exCl.reverse
  topo_order := fun _ => exOrd.reverse
  tos_sep := id
  topo_sep := fun _ => exOrd
  dfs_nbrs := fun _ => exCl

theorem ex_greedy : (genTree exNx' exD exCl .none).2 = ["a", "b", "c"] := by decide +kernel

/-- … with `elimination_order=None` -/
theorem ex_admissible' : Admissible exNx' exD exCl .none where
  mode_ok := trivial
  tos := fun l => List.reverse_perm l
  tos_sep := fun l => List.Perm.refl l
  choice := fun _ _ => rfl
  nx_tree := by
    rw [ex_greedy]
    refine ⟨?_, ?_⟩
    · rw [ex_tri _ _ (Or.inr rfl)]; exact exG_family
    · exact (ex_complete ["a", "b", "c"]).symm ▸ ex_mst _ (by decide) (by decide) (by decide) (by decide)
  topo_order := by decide
  topo_sep := by decide
  dfs_cliques := by decide
  dfs_nbrs := by decide

theorem ex_potsOK' (total : LogOf ℚ) : PotsOK exD (genInit exNx' exD exCl total .none).cliques exPots.reverse :=
  ⟨rfl, fun p hp => C01.exModelOK.pot_ok p (List.mem_reverse.mp hp), fun p hp => C01.exNonneg p (List.mem_reverse.mp hp)⟩

/-- the two runs (given order vs. None, different outcomes of every contract, cliques stored in opposite orders) give the same
marginal on the input clique `("a","b")` -/
example := gen_bp_order_indep_end_to_end exNx exD exCl (.given exElim) (⟨100⟩ : LogOf ℚ) exNx' .none (by decide) (by decide)
    (by decide) ex_admissible ex_admissible' exPots exPots.reverse (ex_potsOK _) (ex_potsOK' _)
    1 one_ne_zero (fun τ _ => by unfold joint; rw [List.map_reverse, List.prod_reverse, one_mul]) C01.exZ_ne (by norm_num)
    ["a", "b"] (by decide) (fun _ => 1) C01.exValid
    ["a", "b"] (by decide) (fun _ h => h) ["a", "b"] (by decide) (fun _ h => h)

/-- the generated `__init__` computes: the fields of the example model -/
example : (genInit exNx exD exCl (⟨100⟩ : LogOf ℚ) (.given exElim)).cliques = [["a", "b"], ["b", "c"]] ∧
    (genInit exNx exD exCl (⟨100⟩ : LogOf ℚ) (.given exElim)).message_order = exOrd ∧
    (genInit exNx exD exCl (⟨100⟩ : LogOf ℚ) (.given exElim)).elimination_order = ["a", "c", "b"] ∧
    (genInit exNx exD exCl (⟨100⟩ : LogOf ℚ) (.given exElim)).size = 8 ∧
    (genInit exNx exD exCl (⟨100⟩ : LogOf ℚ) (.given exElim)).sep_axes
      = [((["b", "c"], ["a", "b"]), ["b"]), ((["a", "b"], ["b", "c"]), ["b"])] := by
  refine ⟨rfl, rfl, rfl, by decide, by decide⟩

end Example

end PGM.C01E
