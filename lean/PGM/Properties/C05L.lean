import PGM.Properties.C05E
import PGM.Proofs.FlowCount
import PGM.Generated.MechProgs
/-!
# C05 — the loop bounds of the ledgers, tied to the regenerated control flow

`C05E.lean` charges every event of a run; how MANY events there are was a hypothesis about the run.  Here the numbers come
from the regenerated programs (`Generated/MechProgs.lean`, `tools/py2flow.py`) under the trace semantics `Flow.exec`.
-/
set_option linter.unusedSimpArgs false
set_option linter.unusedVariables false
set_option maxRecDepth 100000
namespace PGM.C05L
open PGM.Flow PGM.Gen.Flow

/-! ## splitting a program at its event-bearing loops -/

def quiet (s : Stmt) : Bool := (shape s).isSome
def preOf (l : List Stmt) : List Stmt := l.takeWhile quiet
def restOf (l : List Stmt) : List Stmt := l.dropWhile quiet

theorem preOf_append_restOf (l : List Stmt) : preOf l ++ restOf l = l := List.takeWhile_append_dropWhile

def isAssignTo (x : String) : Stmt → Bool
  | .assign y _ => y == x
  | _ => false
/-- the statements before / after the first top-level assignment to `x` -/
def beforeAssign (x : String) (l : List Stmt) : List Stmt := l.takeWhile (fun s => !isAssignTo x s)
def afterAssign (x : String) (l : List Stmt) : List Stmt := (l.dropWhile (fun s => !isAssignTo x s)).tail

/-! ## MWEM+PGM -/

/-- `range(1, rounds+1)` -/
def mwemRange : Expr := .call "fn:range" [.lit "1", .call "op:Add" [.var "rounds", .lit "1"]]

def loopBody : Stmt → Stmt
  | .forIn _ _ b => b
  | .while _ b => b
  | _ => .skip

def retExpr : Stmt → Expr
  | .ret e => e
  | _ => .lit ""

section mwem
variable {Val : Type} (I : Interp Val) (oracle : Nat → Val)

/-- any program of the form `quiet prefix ; for _ in range(1, rounds+1): body ; return e` whose body performs one selection
and then one release on every path and does not assign `rounds` -/
theorem mwem_counts_gen (prog body : Stmt) (re : Expr)
    (hsplit : restOf (flat prog) = [.forIn "_it#1" mwemRange body, .ret re])
    (hpre : shapeL (preOf (flat prog)) = some [])
    (hbody : shape body = some [.sel, .rel])
    (hw : "rounds" ∉ writes body)
    (num : Val → ℕ) (L : NumLaws I num) {f : ℕ} {s0 s1 : State Val} (hs0 : s0.ret = none)
    (h : exec I oracle f prog s0 = some s1) :
    s1.kinds = s0.kinds ++ (List.replicate (num (s1.env "rounds")) [Kind.sel, Kind.rel]).flatten := by
  have hR := runL_of_exec I oracle prog f s0 s1 h
  rw [← preOf_append_restOf (flat prog), hsplit] at hR
  obtain ⟨sL, hpreR, hrest⟩ := RunL.of_append I oracle hR
  obtain ⟨hrL, hkL⟩ := RunL.shape I oracle hpre hs0 hpreR
  obtain ⟨sM, hloop, hret⟩ := RunL.of_append I oracle (as := [Stmt.forIn "_it#1" mwemRange body]) (bs := [Stmt.ret re]) hrest
  obtain ⟨hrM, hkM⟩ := RunL.forIn_shape I oracle hbody hrL hloop
  have hk1 := RunL.ret_kinds I oracle hret
  have hn : (I.elems (evalE I sL.env mwemRange)).length = num (sL.env "rounds") := by
    simp only [mwemRange, evalE, evalEs]
    rw [L.range2, L.add, L.one, Nat.add_sub_cancel]
  have hrounds : s1.env "rounds" = sL.env "rounds" := by
    refine RunL.env I oracle "rounds" ?_ hrest
    simp only [List.flatMap_cons, List.flatMap_nil, writes, List.append_nil, List.mem_append, List.mem_cons, not_or]
    exact ⟨by decide, hw⟩
  rw [hk1, hkM, hkL, hn, hrounds, List.append_nil]

theorem mwemBounded_split : restOf (flat mwemBoundedProg) =
    [.forIn "_it#1" mwemRange (loopBody ((restOf (flat mwemBoundedProg)).headD .skip)),
     .ret (retExpr ((restOf (flat mwemBoundedProg)).getD 1 .skip))] := by rfl


theorem mwemUnbounded_split : restOf (flat mwemUnboundedProg) =
    [.forIn "_it#1" mwemRange (loopBody ((restOf (flat mwemUnboundedProg)).headD .skip)),
     .ret (retExpr ((restOf (flat mwemUnboundedProg)).getD 1 .skip))] := by rfl

/-- **MWEM+PGM (replace-one variant): the primitives of a run are `rounds` times (one selection, one release)**, where
`rounds` is the value of the variable the per-round budget slices divide by (it is not assigned after them) -/
theorem mwem_bounded_counts (num : Val → ℕ) (L : NumLaws I num) {f : ℕ} {s0 s1 : State Val} (hs0 : s0.ret = none)
    (h : exec I oracle f mwemBoundedProg s0 = some s1) :
    s1.kinds = s0.kinds ++ (List.replicate (num (s1.env "rounds")) [Kind.sel, Kind.rel]).flatten :=
  mwem_counts_gen I oracle mwemBoundedProg _ _ mwemBounded_split (by rfl) (by rfl) (by decide +kernel) num L hs0 h

theorem mwem_unbounded_counts (num : Val → ℕ) (L : NumLaws I num) {f : ℕ} {s0 s1 : State Val} (hs0 : s0.ret = none)
    (h : exec I oracle f mwemUnboundedProg s0 = some s1) :
    s1.kinds = s0.kinds ++ (List.replicate (num (s1.env "rounds")) [Kind.sel, Kind.rel]).flatten :=
  mwem_counts_gen I oracle mwemUnboundedProg _ _ mwemUnbounded_split (by rfl) (by rfl) (by decide +kernel) num L hs0 h

/-- the regenerated program of the adjacency notion -/
def mwemProg (bounded : Bool) : Stmt := if bounded then mwemBoundedProg else mwemUnboundedProg

theorem mwem_counts (bounded : Bool) (num : Val → ℕ) (L : NumLaws I num) {f : ℕ} {s0 s1 : State Val} (hs0 : s0.ret = none)
    (h : exec I oracle f (mwemProg bounded) s0 = some s1) :
    s1.kinds = s0.kinds ++ (List.replicate (num (s1.env "rounds")) [Kind.sel, Kind.rel]).flatten := by
  cases bounded
  · exact mwem_unbounded_counts I oracle num L hs0 h
  · exact mwem_bounded_counts I oracle num L hs0 h

/-- … in numbers: exactly `rounds` selections and `rounds` releases -/
theorem mwem_count_numbers (bounded : Bool) (num : Val → ℕ) (L : NumLaws I num) {f : ℕ} {s0 s1 : State Val}
    (hs0 : s0.ret = none) (ht : s0.trace = []) (h : exec I oracle f (mwemProg bounded) s0 = some s1) :
    countSelects s1.trace = num (s1.env "rounds") ∧ countReleases s1.trace = num (s1.env "rounds") := by
  have hk := mwem_counts I oracle bounded num L hs0 h
  have h0 : s0.kinds = [] := by simp [State.kinds, kindsOf, ht]
  rw [h0, List.nil_append] at hk
  refine ⟨?_, ?_⟩
  · show s1.kinds.count .sel = _
    rw [hk, count_flatten_replicate]; simp
  · show s1.kinds.count .rel = _
    rw [hk, count_flatten_replicate]; simp
end mwem


/-! ## AIM -/

section aim
variable {Val : Type} (I : Interp Val) (oracle : Nat → Val)

/-- `len(oneway)*0.5/sigma**2` — the expression of the slice `aim_rho_used0 (len_oneway) (sigma)` (`tools/slices.json`), with
`len_oneway` spelled out as the `len` of the variable `oneway` -/
def aimRhoUsed0 : Expr :=
  .call "op:Div" [.call "op:Mult" [.call "fn:len" [.var "oneway"], .lit "0.5"], .call "op:Pow" [.var "sigma", .lit "2"]]

def aimR1 : List Stmt := restOf (flat aimProg)
def aimBody1 : Stmt := loopBody (aimR1.headD .skip)
def aimMid : List Stmt := preOf aimR1.tail
def aimBody2 : Stmt := loopBody ((restOf aimR1.tail).headD .skip)
def aimPost : List Stmt := (restOf aimR1.tail).tail.dropLast
def aimRet : Expr := retExpr ((restOf aimR1.tail).getLastD .skip)
def aimPre0 : List Stmt := (preOf (flat aimProg)).dropLast

/-- the statement before the first loop initialises `rho_used` from `len(oneway)` … -/
theorem aim_pre_split : preOf (flat aimProg) = aimPre0 ++ [.assign "rho_used" aimRhoUsed0] := by rfl

/-- **… and the first loop iterates over that same variable `oneway`** (a loop over `data.domain` breaks this theorem);
then a quiet block, the `while not terminate` loop, a quiet block and the `return` -/
theorem aim_loops_split : restOf (flat aimProg) =
    .forIn "_it#1" (.var "oneway") aimBody1 ::
      (aimMid ++ .while (.call "op:Not" [.var "terminate"]) aimBody2 :: (aimPost ++ [.ret aimRet])) := by rfl

theorem aim_body1_shape : shape aimBody1 = some [.rel] := by rfl
theorem aim_body2_shape : shape aimBody2 = some [.sel, .rel] := by rfl
theorem aim_quiet_blocks : shapeL aimPre0 = some [] ∧ shapeL aimMid = some [] ∧ shapeL aimPost = some [] := by
  refine ⟨by rfl, by rfl, by rfl⟩

/-- **AIM: the primitives of a run.**  In the state `sL` in which the first loop is entered, `rho_used` has just been set to
`len(W)*0.5/sigma**2` for the value `W` of `oneway`; the run then performs exactly one release per element of that same `W`,
followed by `n` times (one selection, one release), `n` the number of iterations of the `while` loop. -/
theorem aim_counts {f : ℕ} {s0 s1 : State Val} (hs0 : s0.ret = none) (h : exec I oracle f aimProg s0 = some s1) :
    ∃ (sL : State Val) (n : ℕ), RunL I oracle (preOf (flat aimProg)) s0 sL ∧
      sL.env "rho_used" = I.call "op:Div" [I.call "op:Mult" [I.call "fn:len" [sL.env "oneway"], I.lit "0.5"],
        I.call "op:Pow" [sL.env "sigma", I.lit "2"]] ∧
      s1.kinds = s0.kinds ++ List.replicate (I.elems (sL.env "oneway")).length Kind.rel
        ++ (List.replicate n [Kind.sel, Kind.rel]).flatten := by
  have hR := runL_of_exec I oracle aimProg f s0 s1 h
  rw [← preOf_append_restOf (flat aimProg)] at hR
  obtain ⟨sL, hpreR, hrest⟩ := RunL.of_append I oracle hR
  refine ⟨sL, ?_⟩
  -- the prefix
  have hpreR' := hpreR
  rw [aim_pre_split] at hpreR'
  obtain ⟨sP, hp0, hp1⟩ := RunL.of_append I oracle hpreR'
  obtain ⟨hrP, hkP⟩ := RunL.shape I oracle aim_quiet_blocks.1 hs0 hp0
  have hsL := RunL.assign_inv I oracle hrP hp1
  have hrL : sL.ret = none := by rw [hsL]; exact hrP
  have hkL : sL.kinds = s0.kinds := by rw [hsL]; simpa using hkP
  have hru : sL.env "rho_used" = I.call "op:Div" [I.call "op:Mult" [I.call "fn:len" [sL.env "oneway"], I.lit "0.5"],
      I.call "op:Pow" [sL.env "sigma", I.lit "2"]] := by
    rw [hsL]
    simp [aimRhoUsed0, evalE, evalEs]
  -- the loops
  rw [aim_loops_split] at hrest
  obtain ⟨f1, sA, hl1, hrest⟩ := RunL.cons_inv I oracle hrest
  obtain ⟨hrA, hkA⟩ := RunL.forIn_shape I oracle aim_body1_shape hrL (.cons f1 hl1 (.nil _))
  obtain ⟨sB, hmid, hrest⟩ := RunL.of_append I oracle hrest
  obtain ⟨hrB, hkB⟩ := RunL.shape I oracle aim_quiet_blocks.2.1 hrA hmid
  obtain ⟨f2, sC, hl2, hrest⟩ := RunL.cons_inv I oracle hrest
  obtain ⟨n, _, hrC, hkC⟩ := RunL.while_shape I oracle aim_body2_shape hrB (.cons f2 hl2 (.nil _))
  obtain ⟨sD, hpost, hret⟩ := RunL.of_append I oracle hrest
  obtain ⟨hrD, hkD⟩ := RunL.shape I oracle aim_quiet_blocks.2.2 hrC hpost
  have hk1 := RunL.ret_kinds I oracle hret
  refine ⟨n, hpreR, hru, ?_⟩
  rw [hk1, hkD, hkC, hkB, hkA, hkL]
  simp [evalE, List.flatten_replicate_singleton]
end aim


/-! ## Adaptive Grid -/

section ada
variable {Val : Type} (I : Interp Val) (oracle : Nat → Val)

/-- `np.sqrt(0.5 / rho_step_1) * np.sqrt(len(step1_all))` — the slice `ada_step1_sigma (rho_step_1) (len_step1_all)` -/
def adaStep1Sigma : Expr :=
  .call "op:Mult" [.call "meth:sqrt" [.lit "np", .call "op:Div" [.lit "0.5", .var "rho_step_1"]],
    .call "meth:sqrt" [.lit "np", .call "fn:len" [.var "step1_all"]]]
/-- `range(1, len(targets) + 2)` -/
def adaRange1 : Expr := .call "fn:range" [.lit "1", .call "op:Add" [.call "fn:len" [.var "targets"], .lit "2"]]
/-- `[cl for cl in step1_all if len(cl) == k]` -/
def adaSplit : Expr :=
  .call "comprehension" [.var "step1_all", .call "op:Eq" [.call "fn:len" [.lit "_bound_"], .var "k"], .lit "_bound_"]
/-- `np.sqrt(8 * rho / (r - 1))` of the inlined `select` — the slice `ada_select_eps` -/
def adaEps : Expr :=
  .call "meth:sqrt" [.lit "np", .call "op:Div" [.call "op:Mult" [.lit "8", .var "rho@select4"],
    .call "op:Sub" [.var "r@select4", .lit "1"]]]
/-- `np.sqrt(len(step2_queries)) * np.sqrt(0.5 / rho_step_3)` — the slice `ada_step3_sigma (len_step2_queries) (rho_step_3)` -/
def adaStep3Sigma : Expr :=
  .call "op:Mult" [.call "meth:sqrt" [.lit "np", .call "fn:len" [.var "step2_queries"]],
    .call "meth:sqrt" [.lit "np", .call "op:Div" [.lit "0.5", .var "rho_step_3"]]]

def adaF : List Stmt := flat adagridProg
def adaPre0 : List Stmt := (preOf adaF).dropLast
def adaOuter : Stmt := loopBody ((restOf adaF).headD .skip)
def adaInner1 : Stmt := loopBody ((flat adaOuter).getD 2 .skip)
def adaT1 : List Stmt := (restOf adaF).tail
def adaMid1 : List Stmt := (preOf adaT1).dropLast
def adaBody2 : Stmt := loopBody ((restOf adaT1).headD .skip)
def adaT2 : List Stmt := (restOf adaT1).tail
def adaMid2 : List Stmt := (preOf adaT2).dropLast
def adaBody3 : Stmt := loopBody ((restOf adaT2).headD .skip)
def adaPost : List Stmt := (restOf adaT2).tail.dropLast
def adaRet : Expr := retExpr ((restOf adaT2).getLastD .skip)

/-- **the scale of step 1 is computed from `len(step1_all)` right before the step-1 loops …** -/
theorem ada_pre_split : preOf adaF = adaPre0 ++ [.assign "step1_sigma" adaStep1Sigma] := by rfl
/-- **… which iterate over the sublists `[cl for cl in step1_all if len(cl) == k]`, `k in range(1, len(targets)+2)`, of that
same `step1_all`** (a loop over `step1_outer` breaks `ada_outer_split`) -/
theorem ada_loop1_split : restOf adaF = .forIn "_it#2" adaRange1 adaOuter :: adaT1 := by rfl
theorem ada_outer_split : flat adaOuter =
    [.assign "k" (.var "_it#2"), .assign "split" adaSplit, .forIn "_it#3" (.var "split") adaInner1] := by rfl
theorem ada_mid1_split : preOf adaT1 = adaMid1 ++ [.assign "epsilon@select4" adaEps] := by rfl
theorem ada_loop2_split : restOf adaT1 =
    .forIn "_it#7" (.call "fn:range" [.call "op:Sub" [.var "r@select4", .lit "1"]]) adaBody2 :: adaT2 := by rfl
theorem ada_mid2_split : preOf adaT2 = adaMid2 ++ [.assign "step3_sigma" adaStep3Sigma] := by rfl
theorem ada_loop3_split : restOf adaT2 = .forIn "_it#9" (.var "step2_queries") adaBody3 :: (adaPost ++ [.ret adaRet]) := by rfl

theorem ada_shapes : shape adaInner1 = some [.rel] ∧ shape adaBody2 = some [.sel] ∧ shape adaBody3 = some [.rel] := by
  refine ⟨by rfl, by rfl, by rfl⟩
theorem ada_quiet_blocks : shapeL adaPre0 = some [] ∧ shapeL adaMid1 = some [] ∧ shapeL adaMid2 = some [] ∧ shapeL adaPost = some [] := by
  refine ⟨by rfl, by rfl, by rfl, by rfl⟩
theorem ada_outer_keeps_step1_all : "step1_all" ∉ (flat adaOuter).flatMap writes := by decide +kernel

/-- number of elements of `[cl for cl in W if len(cl) == k]` -/
def adaSplitLen (W k : Val) : ℕ :=
  (I.elems (I.call "comprehension" [W, I.call "op:Eq" [I.call "fn:len" [I.lit "_bound_"], k], I.lit "_bound_"])).length

/-- one iteration of the outer step-1 loop: one release per element of the `k`-th sublist of `step1_all` -/
theorem ada_outer_iteration (W : Val) (v : Val) (s t : State Val) (hW : s.env "step1_all" = W) (hs : s.ret = none)
    (h : RunL I oracle (flat adaOuter) (s.setVar "_it#2" v) t) :
    t.env "step1_all" = W ∧ t.ret = none ∧ t.kinds = s.kinds ++ List.replicate (adaSplitLen I W v) Kind.rel := by
  have hkeep := RunL.env I oracle "step1_all" ada_outer_keeps_step1_all h
  rw [ada_outer_split] at h
  obtain ⟨f1, a1, h1, h⟩ := RunL.cons_inv I oracle h
  have e1 := exec_assign_inv I oracle (s := s.setVar "_it#2" v) (by simpa using hs) h1
  obtain ⟨f2, a2, h2, h⟩ := RunL.cons_inv I oracle h
  have hr1 : a1.ret = none := by rw [e1]; simpa using hs
  have e2 := exec_assign_inv I oracle hr1 h2
  have hr2 : a2.ret = none := by rw [e2]; simpa using hr1
  obtain ⟨hrt, hkt⟩ := RunL.forIn_shape I oracle ada_shapes.1 hr2 h
  refine ⟨by rw [hkeep]; simpa using hW, hrt, ?_⟩
  rw [hkt, e2, e1]
  simp [adaSplit, evalE, evalEs, adaSplitLen, hW, List.flatten_replicate_singleton]

/-- **Adaptive Grid: the primitives of a run.**  `sL1`, `sL2`, `sL3`: the states in which the step-1 loops, the selection
loop and the step-3 loop are entered.  `step1_sigma` has just been computed from `len(W)`, `W` the value of `step1_all`; the
step-1 loops release once per element of the sublists `[cl for cl in W if len(cl)==k]`, `k` in `range(1, len(targets)+2)`;
`select` draws once per element of `range(r-1)` for the `r` its epsilon divides by; step 3 releases once per element of the
`step2_queries` whose `len` `step3_sigma` has just been computed from. -/
theorem ada_counts {f : ℕ} {s0 s1 : State Val} (hs0 : s0.ret = none) (h : exec I oracle f adagridProg s0 = some s1) :
    ∃ sL1 sL2 sL3 : State Val, RunL I oracle (preOf adaF) s0 sL1 ∧
      sL1.env "step1_sigma" = I.call "op:Mult" [I.call "meth:sqrt" [I.lit "np", I.call "op:Div" [I.lit "0.5", sL1.env "rho_step_1"]],
        I.call "meth:sqrt" [I.lit "np", I.call "fn:len" [sL1.env "step1_all"]]] ∧
      sL2.env "epsilon@select4" = I.call "meth:sqrt" [I.lit "np", I.call "op:Div" [I.call "op:Mult" [I.lit "8", sL2.env "rho@select4"],
        I.call "op:Sub" [sL2.env "r@select4", I.lit "1"]]] ∧
      sL3.env "step3_sigma" = I.call "op:Mult" [I.call "meth:sqrt" [I.lit "np", I.call "fn:len" [sL3.env "step2_queries"]],
        I.call "meth:sqrt" [I.lit "np", I.call "op:Div" [I.lit "0.5", sL3.env "rho_step_3"]]] ∧
      s1.kinds = s0.kinds
        ++ List.replicate (((I.elems (evalE I sL1.env adaRange1)).map (adaSplitLen I (sL1.env "step1_all"))).sum) Kind.rel
        ++ List.replicate (I.elems (I.call "fn:range" [I.call "op:Sub" [sL2.env "r@select4", I.lit "1"]])).length Kind.sel
        ++ List.replicate (I.elems (sL3.env "step2_queries")).length Kind.rel := by
  have hR := runL_of_exec I oracle adagridProg f s0 s1 h
  change RunL I oracle adaF s0 s1 at hR
  rw [← preOf_append_restOf adaF, ada_pre_split, ada_loop1_split] at hR
  obtain ⟨sL1, hp, hR⟩ := RunL.of_append I oracle hR
  have hp1 : RunL I oracle (preOf adaF) s0 sL1 := by rw [ada_pre_split]; exact hp
  obtain ⟨sP1, _, e1, hr1, hk1⟩ := RunL.pre_assign I oracle ada_quiet_blocks.1 hs0 hp
  obtain ⟨fa, sA, hl1, hR⟩ := RunL.cons_inv I oracle hR
  obtain ⟨_, hrA, hkA⟩ := RunL.forIn_gen I oracle (fun s => s.env "step1_all" = sL1.env "step1_all")
    (fun v => List.replicate (adaSplitLen I (sL1.env "step1_all") v) Kind.rel)
    (fun v s t hi hs ht => ada_outer_iteration I oracle _ v s t hi hs ht) rfl hr1 (.cons fa hl1 (.nil _))
  rw [← preOf_append_restOf adaT1, ada_mid1_split, ada_loop2_split] at hR
  obtain ⟨sL2, hp, hR⟩ := RunL.of_append I oracle hR
  obtain ⟨sP2, _, e2, hr2, hk2⟩ := RunL.pre_assign I oracle ada_quiet_blocks.2.1 hrA hp
  obtain ⟨fb, sB, hl2, hR⟩ := RunL.cons_inv I oracle hR
  obtain ⟨hrB, hkB⟩ := RunL.forIn_shape I oracle ada_shapes.2.1 hr2 (.cons fb hl2 (.nil _))
  rw [← preOf_append_restOf adaT2, ada_mid2_split, ada_loop3_split] at hR
  obtain ⟨sL3, hp, hR⟩ := RunL.of_append I oracle hR
  obtain ⟨sP3, _, e3, hr3, hk3⟩ := RunL.pre_assign I oracle ada_quiet_blocks.2.2.1 hrB hp
  obtain ⟨fc, sC, hl3, hR⟩ := RunL.cons_inv I oracle hR
  obtain ⟨hrC, hkC⟩ := RunL.forIn_shape I oracle ada_shapes.2.2 hr3 (.cons fc hl3 (.nil _))
  obtain ⟨sD, hpost, hret⟩ := RunL.of_append I oracle hR
  obtain ⟨hrD, hkD⟩ := RunL.shape I oracle ada_quiet_blocks.2.2.2 hrC hpost
  have hkE := RunL.ret_kinds I oracle hret
  refine ⟨sL1, sL2, sL3, hp1, ?_, ?_, ?_, ?_⟩
  · rw [e1]; simp [adaStep1Sigma, evalE, evalEs]
  · rw [e2]; simp [adaEps, evalE, evalEs]
  · rw [e3]; simp [adaStep3Sigma, evalE, evalEs]
  · rw [hkE, hkD, hkC, hk3, hkB, hk2, hkA, hk1, flatMap_replicate_eq]
    simp [evalE, evalEs, List.flatten_replicate_singleton]

/-- the contract on the opaque `comprehension` / `range` that makes the step-1 sublists disjoint parts of `step1_all`:
filtering by `len(cl) == k` for the (distinct) `k` of a range selects each element at most once -/
def AdaPartLaw : Prop :=
  ∀ (W a b : Val), ((I.elems (I.call "fn:range" [a, b])).map (adaSplitLen I W)).sum ≤ (I.elems W).length

/-- **step 1 makes at most `len(step1_all)` releases, and `select` makes `r − 1` draws** -/
theorem ada_count_numbers (num : Val → ℕ) (L : NumLaws I num) (hpart : AdaPartLaw I) (sL1 sL2 : State Val) :
    ((I.elems (evalE I sL1.env adaRange1)).map (adaSplitLen I (sL1.env "step1_all"))).sum
        ≤ num (I.call "fn:len" [sL1.env "step1_all"]) ∧
    (I.elems (I.call "fn:range" [I.call "op:Sub" [sL2.env "r@select4", I.lit "1"]])).length = num (sL2.env "r@select4") - 1 := by
  refine ⟨?_, ?_⟩
  · rw [L.len]
    simp only [adaRange1, evalE, evalEs]
    exact hpart _ _ _
  · rw [L.range1, L.sub, L.one]
end ada

/-! ## MST -/

section mst
variable {Val : Type} (I : Interp Val) (oracle : Nat → Val)

/-- `np.sqrt(8*rho/(r-1))` of the inlined `select` — the slice `mst_select_eps (rho) (r)` -/
def mstEps : Expr :=
  .call "meth:sqrt" [.lit "np", .call "op:Div" [.call "op:Mult" [.lit "8", .var "rho@select15"],
    .call "op:Sub" [.var "r@select15", .lit "1"]]]

def mstF : List Stmt := flat mstProg
def mstBody1 : Stmt := loopBody ((restOf mstF).headD .skip)
def mstT1 : List Stmt := (restOf mstF).tail
def mstMid1 : List Stmt := (preOf mstT1).dropLast
def mstBody2 : Stmt := loopBody ((restOf mstT1).headD .skip)
def mstT2 : List Stmt := (restOf mstT1).tail
def mstBody3 : Stmt := loopBody ((restOf mstT2).headD .skip)
def mstPost : List Stmt := (restOf mstT2).tail.dropLast
def mstRet : Expr := retExpr ((restOf mstT2).getLastD .skip)

/-- phase 1: `measure` iterates `zip(cliques, weights)` of its own arguments -/
theorem mst_loop1_split : restOf mstF =
    .forIn "_it#2" (.call "fn:zip" [.var "cliques@measure1", .var "weights@measure1"]) mstBody1 :: mstT1 := by rfl
/-- phase 2: `select` draws for `i in range(r-1)`, right after `epsilon = sqrt(8*rho/(r-1))` of the same `r` -/
theorem mst_mid1_split : preOf mstT1 = mstMid1 ++ [.assign "epsilon@select15" mstEps] := by rfl
theorem mst_loop2_split : restOf mstT1 =
    .forIn "_it#19" (.call "fn:range" [.call "op:Sub" [.var "r@select15", .lit "1"]]) mstBody2 :: mstT2 := by rfl
/-- phase 3: `measure` again -/
theorem mst_loop3_split : restOf mstT2 =
    .forIn "_it#22" (.call "fn:zip" [.var "cliques@measure21", .var "weights@measure21"]) mstBody3 :: (mstPost ++ [.ret mstRet]) := by rfl

/-- the first `measure` call receives `cliques`, which is `[(col,) for col in data.domain]` … -/
theorem mst_measure1_arg_split : preOf mstF = beforeAssign "cliques@measure1" (preOf mstF)
    ++ .assign "cliques@measure1" (.var "cliques") :: afterAssign "cliques@measure1" (preOf mstF) := by rfl
theorem mst_cliques1_split : beforeAssign "cliques@measure1" (preOf mstF) = beforeAssign "cliques" (preOf mstF)
    ++ .assign "cliques" (.call "comprehension" [.var "data.domain", .call "op:Tuple" [.lit "_bound_"]])
      :: afterAssign "cliques" (beforeAssign "cliques@measure1" (preOf mstF)) := by rfl
/-- … **the second `measure` call receives the `cliques` that `select` returned** (measuring `cliques + cliques` breaks this) -/
theorem mst_measure2_arg_split : preOf mstT2 = beforeAssign "cliques@measure21" (preOf mstT2)
    ++ .assign "cliques@measure21" (.var "cliques") :: afterAssign "cliques@measure21" (preOf mstT2) := by rfl
theorem mst_arg_blocks :
    shapeL (beforeAssign "cliques@measure1" (preOf mstF)) = some [] ∧ shapeL (beforeAssign "cliques" (preOf mstF)) = some [] ∧
    shapeL (beforeAssign "cliques@measure21" (preOf mstT2)) = some [] := by
  refine ⟨by rfl, by rfl, by rfl⟩
theorem mst_arg_keeps :
    (∀ y ∈ ["cliques@measure1", "data.domain"], y ∉ (afterAssign "cliques@measure1" (preOf mstF)).flatMap writes) ∧
    (∀ y ∈ ["cliques", "data.domain"], y ∉ (afterAssign "cliques" (beforeAssign "cliques@measure1" (preOf mstF))).flatMap writes) ∧
    (∀ y ∈ ["cliques@measure21", "cliques"], y ∉ (afterAssign "cliques@measure21" (preOf mstT2)).flatMap writes) := by
  decide +kernel

theorem mst_shapes : shape mstBody1 = some [.rel] ∧ shape mstBody2 = some [.sel] ∧ shape mstBody3 = some [.rel] := by
  refine ⟨by rfl, by rfl, by rfl⟩
theorem mst_quiet_blocks : shapeL (preOf mstF) = some [] ∧ shapeL mstMid1 = some [] ∧ shapeL (preOf mstT2) = some [] ∧
    shapeL mstPost = some [] := by
  refine ⟨by rfl, by rfl, by rfl, by rfl⟩

/-- **MST: the primitives of a run**: one release per element of `zip(cliques, weights)` of the first `measure` call, one draw
per element of `range(r-1)` for the `r` the selection epsilon divides by, one release per element of `zip(cliques, weights)`
of the second `measure` call — nothing else -/
theorem mst_counts {f : ℕ} {s0 s1 : State Val} (hs0 : s0.ret = none) (h : exec I oracle f mstProg s0 = some s1) :
    ∃ sL1 sL2 sL3 : State Val, RunL I oracle (preOf mstF) s0 sL1 ∧
      sL1.env "cliques@measure1" = I.call "comprehension" [sL1.env "data.domain", I.call "op:Tuple" [I.lit "_bound_"]] ∧
      sL2.env "epsilon@select15" = I.call "meth:sqrt" [I.lit "np", I.call "op:Div" [I.call "op:Mult" [I.lit "8", sL2.env "rho@select15"],
        I.call "op:Sub" [sL2.env "r@select15", I.lit "1"]]] ∧
      sL3.env "cliques@measure21" = sL3.env "cliques" ∧
      s1.kinds = s0.kinds
        ++ List.replicate (I.elems (I.call "fn:zip" [sL1.env "cliques@measure1", sL1.env "weights@measure1"])).length Kind.rel
        ++ List.replicate (I.elems (I.call "fn:range" [I.call "op:Sub" [sL2.env "r@select15", I.lit "1"]])).length Kind.sel
        ++ List.replicate (I.elems (I.call "fn:zip" [sL3.env "cliques@measure21", sL3.env "weights@measure21"])).length Kind.rel := by
  have hR := runL_of_exec I oracle mstProg f s0 s1 h
  change RunL I oracle mstF s0 s1 at hR
  rw [← preOf_append_restOf mstF, mst_loop1_split] at hR
  obtain ⟨sL1, hp1, hR⟩ := RunL.of_append I oracle hR
  obtain ⟨hr1, hk1⟩ := RunL.shape I oracle mst_quiet_blocks.1 hs0 hp1
  obtain ⟨fa, sA, hl1, hR⟩ := RunL.cons_inv I oracle hR
  obtain ⟨hrA, hkA⟩ := RunL.forIn_shape I oracle mst_shapes.1 hr1 (.cons fa hl1 (.nil _))
  rw [← preOf_append_restOf mstT1, mst_mid1_split, mst_loop2_split] at hR
  obtain ⟨sL2, hp, hR⟩ := RunL.of_append I oracle hR
  obtain ⟨sP2, _, e2, hr2, hk2⟩ := RunL.pre_assign I oracle mst_quiet_blocks.2.1 hrA hp
  obtain ⟨fb, sB, hl2, hR⟩ := RunL.cons_inv I oracle hR
  obtain ⟨hrB, hkB⟩ := RunL.forIn_shape I oracle mst_shapes.2.1 hr2 (.cons fb hl2 (.nil _))
  rw [← preOf_append_restOf mstT2, mst_loop3_split] at hR
  obtain ⟨sL3, hp, hR⟩ := RunL.of_append I oracle hR
  obtain ⟨hr3, hk3⟩ := RunL.shape I oracle mst_quiet_blocks.2.2.1 hrB hp
  obtain ⟨fc, sC, hl3, hR⟩ := RunL.cons_inv I oracle hR
  obtain ⟨hrC, hkC⟩ := RunL.forIn_shape I oracle mst_shapes.2.2 hr3 (.cons fc hl3 (.nil _))
  obtain ⟨sD, hpost, hret⟩ := RunL.of_append I oracle hR
  obtain ⟨hrD, hkD⟩ := RunL.shape I oracle mst_quiet_blocks.2.2.2 hrC hpost
  have hkE := RunL.ret_kinds I oracle hret
  have hc1 : sL1.env "cliques@measure1" = I.call "comprehension" [sL1.env "data.domain", I.call "op:Tuple" [I.lit "_bound_"]] := by
    have hq := hp1
    rw [mst_measure1_arg_split] at hq
    obtain ⟨sX, hX, hrX, ex, keepX⟩ := RunL.assign_then_quiet I oracle mst_arg_blocks.1
      (mst_arg_keeps.1 _ (by simp)) hs0 hq
    rw [mst_cliques1_split] at hX
    obtain ⟨sY, _, _, ey, keepY⟩ := RunL.assign_then_quiet I oracle mst_arg_blocks.2.1
      (mst_arg_keeps.2.1 _ (by simp)) hs0 hX
    rw [ex, keepX "data.domain" (mst_arg_keeps.1 _ (by simp)) (by decide)]
    simp only [evalE]
    rw [ey, keepY "data.domain" (mst_arg_keeps.2.1 _ (by simp)) (by decide)]
    simp [evalE, evalEs]
  have hc3 : sL3.env "cliques@measure21" = sL3.env "cliques" := by
    have hq := hp
    rw [mst_measure2_arg_split] at hq
    obtain ⟨sX, _, _, ex, keepX⟩ := RunL.assign_then_quiet I oracle mst_arg_blocks.2.2
      (mst_arg_keeps.2.2 _ (by simp)) hrB hq
    rw [ex, keepX "cliques" (mst_arg_keeps.2.2 _ (by simp)) (by decide)]
    simp [evalE]
  refine ⟨sL1, sL2, sL3, hp1, hc1, ?_, hc3, ?_⟩
  · rw [e2]; simp [mstEps, evalE, evalEs]
  · rw [hkE, hkD, hkC, hk3, hkB, hk2, hkA, hk1]
    simp [evalE, evalEs, List.flatten_replicate_singleton]

/-- `select` makes `r − 1` draws; with `zip` truncating to the shorter list, `measure` makes at most `len(cliques)` releases -/
theorem mst_count_numbers (num : Val → ℕ) (L : NumLaws I num)
    (hzip : ∀ a b, (I.elems (I.call "fn:zip" [a, b])).length = min (I.elems a).length (I.elems b).length) (r C w : Val) :
    (I.elems (I.call "fn:range" [I.call "op:Sub" [r, I.lit "1"]])).length = num r - 1 ∧
    (I.elems (I.call "fn:zip" [C, w])).length ≤ num (I.call "fn:len" [C]) := by
  refine ⟨by rw [L.range1, L.sub, L.one], ?_⟩
  rw [hzip, L.len]; exact Nat.min_le_left _ _
end mst

/-! ## the ledgers of `C05E`, with the number of events taken from the run

Bridge: a ledger `evs : List C05E.Event` DECORATES a run when its events have, in order, the kinds of the primitives the run
performed (`evs.map ekind = s1.kinds`): the ledger charges exactly the primitives of the run, no more and no fewer.

**SCOPE of the `_run` theorems (`mwem_…_run`, `aim_…_run`, `ada_…_run`, `mst_…_run`): they tie COUNTS only** — how many
releases / selections a run of the regenerated program performs, and that the numbers the scales divide by are those counts.
The budget `rho`, the scales in the ledger's events (the regenerated SLICES of `C05E`, not values read from the run's
environment) and, for MST, `Σw² = 1` / `0 < w` of the normalised weights remain HYPOTHESES about the ledger, exactly as in
`C05E`; the run does not compute them in this semantics (arithmetic other than `+`, `-`, `len`, `range`, `zip` is opaque). -/

open PGM.C05E PGM.Gen.R PGM.Ledger PGM.C05 PGM.C05S PGM.SelectG PGM.SelGen PGM.LedgerE

def ekind : C05E.Event → Kind
  | .release _ _ _ => .rel
  | .select _ => .sel

section ledgers
variable {Val : Type} (I : Interp Val) (oracle : Nat → Val) (inf fmax : ℝ)
local notation "npR" => realOps inf fmax

theorem kinds_nil_of_trace {s : State Val} (h : s.trace = []) : s.kinds = [] := by simp [State.kinds, kindsOf, h]

theorem replicate_flatten_inj {a b : ℕ} (h : (List.replicate a [Kind.sel, Kind.rel]).flatten = (List.replicate b [Kind.sel, Kind.rel]).flatten) :
    a = b := by
  have := congrArg List.length h
  rw [length_flatten_replicate, length_flatten_replicate] at this
  simpa using this

section mwemL
variable {C R : Type} [DecidableEq C]

theorem mwem_gauss_ledger_kinds (rho alpha rounds : ℝ) (bounded : Bool) (cell : C → R → ℕ) (size : C → ℕ) (D D' : List R)
    (rds : List (MwemRound C)) :
    (rds.flatMap (mwemGaussRound inf fmax rho alpha rounds bounded cell size D D')).map ekind
      = (List.replicate rds.length [Kind.sel, Kind.rel]).flatten := by
  induction rds with
  | nil => rfl
  | cons rd rds ih => simp [List.flatMap_cons, List.replicate_succ, ih, mwemGaussRound, ekind]

theorem mwem_laplace_ledger_kinds (eps alpha rounds : ℝ) (bounded : Bool) (cell : C → R → ℕ) (size : C → ℕ) (D D' : List R)
    (rds : List (MwemRound C)) :
    (rds.flatMap (mwemLaplaceRound inf fmax eps alpha rounds bounded cell size D D')).map ekind
      = (List.replicate rds.length [Kind.sel, Kind.rel]).flatten := by
  induction rds with
  | nil => rfl
  | cons rd rds ih => simp [List.flatMap_cons, List.replicate_succ, ih, mwemLaplaceRound, ekind]

/-- **MWEM+PGM, end to end, for a run of the regenerated program**: `rounds` is the number the variable `rounds` denotes (the
one the budget slices divide by); a ledger of per-round events (`C05E.mwemGaussRound` / `mwemLaplaceRound`) that decorates the
run costs at most the budget.  The hypothesis `rds.length = rounds` of `C05E.mwem_total_cost_le_budget` is now a consequence
of `mwem_counts` (loop `range(1, rounds+1)`, one selection and one release per round).  Ties the COUNT only: `budget`, `alpha`
(`0 < alpha ≤ 1`, the source's assertion) and the scales of the ledger's events are hypotheses / the slices of `C05E`. -/
theorem mwem_total_cost_le_budget_run (num : Val → ℕ) (L : NumLaws I num) {f : ℕ} {s0 s1 : State Val}
    (hs0 : s0.ret = none) (ht0 : s0.trace = []) (bounded : Bool) (hrun : exec I oracle f (mwemProg bounded) s0 = some s1)
    (budget alpha : ℝ) (laplace : Bool) (cell : C → R → ℕ) (size : C → ℕ) (D D' : List R) (rds : List (MwemRound C))
    (hdec : (if laplace = true then rds.flatMap (mwemLaplaceRound inf fmax budget alpha (num (s1.env "rounds")) bounded cell size D D')
      else rds.flatMap (mwemGaussRound inf fmax budget alpha (num (s1.env "rounds")) bounded cell size D D')).map ekind = s1.kinds)
    (hb : 0 < budget) (hr : 0 < num (s1.env "rounds")) (ha0 : 0 < alpha) (ha1 : alpha ≤ 1)
    (hnb : Nbr bounded D D') (hsz : ∀ rd ∈ rds, ∀ cl, (rd.xest cl).length = size cl) :
    rds.length = num (s1.env "rounds") ∧
    (if laplace = true then totalPure (rds.flatMap (mwemLaplaceRound inf fmax budget alpha (num (s1.env "rounds")) bounded cell size D D')) ≤ budget
    else total (rds.flatMap (mwemGaussRound inf fmax budget alpha (num (s1.env "rounds")) bounded cell size D D')) ≤ budget) := by
  have hk := mwem_counts I oracle bounded num L hs0 hrun
  rw [kinds_nil_of_trace ht0, List.nil_append] at hk
  have hlen : rds.length = num (s1.env "rounds") := by
    apply replicate_flatten_inj
    rw [← hk, ← hdec]
    cases laplace
    · simp only [Bool.false_eq_true, if_false]; rw [mwem_gauss_ledger_kinds]
    · simp only [if_true]; rw [mwem_laplace_ledger_kinds]
  exact ⟨hlen, mwem_total_cost_le_budget inf fmax budget alpha (num (s1.env "rounds")) laplace bounded cell size D D' rds hb hr ha0 ha1
    hlen hnb hsz⟩
end mwemL

section aimL
variable {C DS R : Type} [DecidableEq C]

/-- the ledger of `C05E.aimEvents` with the list of one-way marginals that are RELEASED separated from the number that is
CHARGED in the initial `rho_used` -/
noncomputable def aimEventsRun (rho rounds : ℝ) (g : GraphOps C DS ℝ) (cands : List (C × ℝ)) (released : List C) (charged : ℕ)
    (cell : C → R → ℕ) (size : C → ℕ) (D D' : List R) (rds : List (AimRound C)) : List C05E.Event :=
  released.map (fun cl => C05E.Event.release .gauss (aim_noise_scale_init (aim_sigma0 rounds rho))
      (l2 (marg cell size D cl) (marg cell size D' cl)))
  ++ aimLoopEvents inf fmax rho g cands cell size D D' rds (aimInit rho rounds charged)

theorem aimEventsRun_eq (rho rounds : ℝ) (g : GraphOps C DS ℝ) (cands : List (C × ℝ)) (oneway : List C)
    (cell : C → R → ℕ) (size : C → ℕ) (D D' : List R) (rds : List (AimRound C)) :
    aimEventsRun inf fmax rho rounds g cands oneway oneway.length cell size D D' rds
      = aimEvents inf fmax rho rounds g cands oneway cell size D D' rds := rfl

theorem aim_loop_head (rho : ℝ) (g : GraphOps C DS ℝ) (cands : List (C × ℝ)) (cell : C → R → ℕ) (size : C → ℕ) (D D' : List R) :
    ∀ (rds : List (AimRound C)) (s : AimState),
      ((aimLoopEvents inf fmax rho g cands cell size D D' rds s).map ekind).head? ≠ some Kind.rel
  | [], s => by simp [aimLoopEvents]
  | rd :: rest, s => by
    simp only [aimLoopEvents, aimRoundEvents]
    by_cases ht : s.terminated = true
    · simp only [ht, if_true, List.nil_append]
      exact aim_loop_head rho g cands cell size D D' rest _
    · simp [ht, ekind]

/-- **AIM, end to end, for a run of the regenerated program.**  `sL` is the state in which the first loop of the run is
entered and `W` the value of `oneway` there; the run's `rho_used` starts at `len(W)·0.5/σ²` (second conjunct: the expression
of the slice `aim_rho_used0`).  For every ledger that releases the marginals `released`, charges `len(W)` in the initial
`rho_used` and decorates the run, `released.length = len(W)` follows from `aim_counts` and the total is at most `rho`.
With the loop over `data.domain` instead of `oneway`, `aim_loops_split` fails.  Ties the COUNT `len(W)` only: `rho`, `rounds`
and the scales are hypotheses / slices.  `0.9·len(W) < rounds` is STRICT (at equality the real code divides by zero and the
ledger would charge a scale-0 release 0, `C05E.cost_zero_scale`); third conjunct: every event summed has a positive scale. -/
theorem aim_total_cost_le_rho_run (num : Val → ℕ) (L : NumLaws I num) {f : ℕ} {s0 s1 : State Val}
    (hs0 : s0.ret = none) (ht0 : s0.trace = []) (hrun : exec I oracle f aimProg s0 = some s1) :
    ∃ sL : State Val, RunL I oracle (preOf (flat aimProg)) s0 sL ∧
      sL.env "rho_used" = I.call "op:Div" [I.call "op:Mult" [I.call "fn:len" [sL.env "oneway"], I.lit "0.5"],
        I.call "op:Pow" [sL.env "sigma", I.lit "2"]] ∧
      ∀ (rho rounds : ℝ) (g : GraphOps C DS ℝ) (cands : List (C × ℝ)) (released : List C)
        (cell : C → R → ℕ) (size : C → ℕ) (D D' : List R) (rds : List (AimRound C)),
        (aimEventsRun inf fmax rho rounds g cands released (num (I.call "fn:len" [sL.env "oneway"])) cell size D D' rds).map ekind
          = s1.kinds →
        0 < rho → 0 < rounds → 0.9 * ((num (I.call "fn:len" [sL.env "oneway"]) : ℕ) : ℝ) < rounds → AddRemove D D' →
        (∀ rd ∈ rds, AimRoundOK inf fmax g cands size rd) →
        released.length = num (I.call "fn:len" [sL.env "oneway"]) ∧
        total (aimEventsRun inf fmax rho rounds g cands released (num (I.call "fn:len" [sL.env "oneway"])) cell size D D' rds) ≤ rho ∧
        ∀ ev ∈ aimEventsRun inf fmax rho rounds g cands released (num (I.call "fn:len" [sL.env "oneway"])) cell size D D' rds,
          PosScale ev := by
  obtain ⟨sL, n, hpre, hru, hk⟩ := aim_counts I oracle hs0 hrun
  refine ⟨sL, hpre, hru, ?_⟩
  intro rho rounds g cands released cell size D D' rds hdec hrho hrounds hfit hnb hok
  rw [kinds_nil_of_trace ht0, List.nil_append] at hk
  have hlen : released.length = num (I.call "fn:len" [sL.env "oneway"]) := by
    rw [L.len]
    have e : (aimEventsRun inf fmax rho rounds g cands released (num (I.call "fn:len" [sL.env "oneway"])) cell size D D' rds).map ekind
        = List.replicate released.length Kind.rel
          ++ (aimLoopEvents inf fmax rho g cands cell size D D' rds (aimInit rho rounds (num (I.call "fn:len" [sL.env "oneway"])))).map ekind := by
      simp only [aimEventsRun, List.map_append, List.map_map]
      congr 1
      rw [List.eq_replicate_iff]
      exact ⟨by simp, by intro b hb; obtain ⟨a, _, rfl⟩ := List.mem_map.1 hb; rfl⟩
    rw [e, hk] at hdec
    refine (replicate_rel_prefix_unique _ _ _ _ (aim_loop_head inf fmax rho g cands cell size D D' rds _) ?_ hdec).1
    cases n with
    | zero => simp
    | succ n => simp [List.replicate_succ]
  refine ⟨hlen, ?_⟩
  rw [← hlen, aimEventsRun_eq]
  exact ⟨aim_total_cost_le_rho inf fmax rho rounds g cands released cell size D D' rds hrho hrounds (by rw [hlen]; exact hfit) hnb hok,
    aim_events_scale_pos inf fmax rho rounds g cands released cell size D D' rds hrho hrounds (by rw [hlen]; exact hfit)⟩
end aimL

theorem map_ekind_const (evs : List C05E.Event) (k : Kind) (h : ∀ e ∈ evs, ekind e = k) :
    evs.map ekind = List.replicate evs.length k := by
  rw [List.eq_replicate_iff]
  exact ⟨by simp, by intro b hb; obtain ⟨a, ha, rfl⟩ := List.mem_map.1 hb; exact h a ha⟩

theorem three_phase_kinds (e1 e2 e3 : List C05E.Event) (h1 : ∀ e ∈ e1, ekind e = .rel) (h2 : ∀ e ∈ e2, ekind e = .sel)
    (h3 : ∀ e ∈ e3, ekind e = .rel) :
    (e1 ++ e2 ++ e3).map ekind = List.replicate e1.length Kind.rel ++ List.replicate e2.length Kind.sel
      ++ List.replicate e3.length Kind.rel := by
  rw [List.map_append, List.map_append, map_ekind_const e1 _ h1, map_ekind_const e2 _ h2, map_ekind_const e3 _ h3]

theorem zipWith_select_kind {α β : Type} (f : α → β → ℝ) : ∀ (l1 : List α) (l2 : List β),
    ∀ e ∈ List.zipWith (fun d d' => C05E.Event.select (f d d')) l1 l2, ekind e = .sel
  | [], _ => by simp
  | _ :: _, [] => by simp
  | a :: l1, b :: l2 => by
    intro e he
    simp only [List.zipWith_cons_cons, List.mem_cons] at he
    rcases he with rfl | he
    · rfl
    · exact zipWith_select_kind f l1 l2 e he

section adaL
variable {A DS R : Type} [DecidableEq A] [Inhabited A]

/-- **Adaptive Grid, end to end, for a run of the regenerated program.**  `n1`, the number the step-1 scale is computed from,
is `len(W)` for the value `W` of `step1_all` when the step-1 loops are entered (second conjunct: the expression of the slice
`ada_step1_sigma`).  For every ledger `C05E.adaEvents` with that `n1` which decorates the run (and a run with at least one
draw of `select`), the hypothesis `step1.length ≤ n1` of `C05E.ada_total_cost_le_steps` follows from `ada_counts` and the
contract `AdaPartLaw`; the total is at most `rho1 + rho2 + rho3`.  Ties the COUNTS only: `rho1..3` and the scales are
hypotheses / slices (positive scales: `C05E.ada_events_scale_pos`). -/
theorem ada_total_cost_le_steps_run (num : Val → ℕ) (L : NumLaws I num) (hpart : AdaPartLaw I) {f : ℕ} {s0 s1 : State Val}
    (hs0 : s0.ret = none) (ht0 : s0.trace = []) (hrun : exec I oracle f adagridProg s0 = some s1) :
    ∃ sL1 sL2 : State Val, RunL I oracle (preOf adaF) s0 sL1 ∧
      sL1.env "step1_sigma" = I.call "op:Mult" [I.call "meth:sqrt" [I.lit "np", I.call "op:Div" [I.lit "0.5", sL1.env "rho_step_1"]],
        I.call "meth:sqrt" [I.lit "np", I.call "fn:len" [sL1.env "step1_all"]]] ∧
      ∀ (rho1 rho2 rho3 : ℝ) (g : GraphOps A DS ℝ) (step1 : List (List A))
        (matrices : List A → AdaGrid.Mat ℝ) (hist : List (AdaGrid.Mat ℝ)) (cell : List A → R → ℕ) (size : List A → ℕ)
        (attrs targets : List A) (xest : List A → List ℝ) (msize : List A → ℝ) (mcl : List (List A)) (draws : ℕ → ℕ)
        (D D' : List R),
        (adaEvents inf fmax rho1 rho2 rho3 g (num (I.call "fn:len" [sL1.env "step1_all"])) step1 matrices cell size attrs targets
          xest msize mcl draws D D').map ekind = s1.kinds →
        1 < num (sL2.env "r@select4") →
        0 < rho1 → 0 < rho2 → 0 < rho3 → AddRemove D D' → AdaGridSens.History hist → (∀ cl, matrices cl ∈ hist) →
        ada_select_eps (ada_select_rho rho2) ((attrs.length : ℝ) - (targets.length : ℝ)) ≠ inf →
        (∀ c, (xest c).length = size c) →
        step1.length ≤ num (I.call "fn:len" [sL1.env "step1_all"]) ∧
        total (adaEvents inf fmax rho1 rho2 rho3 g (num (I.call "fn:len" [sL1.env "step1_all"])) step1 matrices cell size attrs targets
          xest msize mcl draws D D') ≤ rho1 + rho2 + rho3 := by
  obtain ⟨sL1, sL2, sL3, hp1, hsig, _, _, hk⟩ := ada_counts I oracle hs0 hrun
  refine ⟨sL1, sL2, hp1, hsig, ?_⟩
  intro rho1 rho2 rho3 g step1 matrices hist cell size attrs targets xest msize mcl draws D D' hdec hr h1 h2 h3 hnb hhist hmat hinf hsz
  rw [kinds_nil_of_trace ht0, List.nil_append] at hk
  obtain ⟨hle, hsel⟩ := ada_count_numbers I num L hpart sL1 sL2
  have hn1 : step1.length ≤ num (I.call "fn:len" [sL1.env "step1_all"]) := by
    unfold adaEvents at hdec
    rw [three_phase_kinds _ _ _
      (by intro e he; obtain ⟨a, _, rfl⟩ := List.mem_map.1 he; rfl)
      (zipWith_select_kind _ _ _)
      (by intro e he; obtain ⟨a, _, rfl⟩ := List.mem_map.1 he; rfl), hk] at hdec
    have := three_blocks_unique (by rw [hsel]; omega) hdec.symm
    rw [List.length_map] at this
    rw [← this.1]; exact hle
  exact ⟨hn1, ada_total_cost_le_steps inf fmax rho1 rho2 rho3 g _ step1 matrices hist cell size attrs targets xest msize mcl draws D D'
    h1 h2 h3 hnb hn1 hhist hmat hinf hsz⟩
end adaL


section mstL
variable {A DS R C1 : Type} [DecidableEq A] [Inhabited A]

theorem measureEvents_kind {C : Type} (scale : ℝ → ℝ) (x x' : C → List ℝ) (cliques : List C) (ws : List ℝ) :
    ∀ e ∈ measureEvents scale x x' cliques ws, ekind e = .rel := by
  intro e he
  obtain ⟨a, _, rfl⟩ := List.mem_map.1 he
  rfl

/-- **MST, end to end, for a run of the regenerated program.**  Every ledger `C05E.mstEvents` that decorates the run (with at
least one draw of `select`) has exactly as many phase-1 releases as `zip(cliques, weights)` of the first `measure` call has
elements, exactly `r − 1` selections for the `r` the selection epsilon `sqrt(8·rho/(r−1))` divides by, exactly as many phase-3
releases as the second `zip(cliques, weights)` — and costs at most `rho`.  Ties the COUNTS only: `rho`, the scales `σ/w` and
`Σw² = 1`, `0 < w` for the two weight lists are HYPOTHESES about the ledger (positive scales: `C05E.mst_events_scale_pos`). -/
theorem mst_total_cost_le_rho_run (num : Val → ℕ) (L : NumLaws I num) {f : ℕ} {s0 s1 : State Val}
    (hs0 : s0.ret = none) (ht0 : s0.trace = []) (hrun : exec I oracle f mstProg s0 = some s1) :
    ∃ sL1 sL2 sL3 : State Val, RunL I oracle (preOf mstF) s0 sL1 ∧
      sL2.env "epsilon@select15" = I.call "meth:sqrt" [I.lit "np", I.call "op:Div" [I.call "op:Mult" [I.lit "8", sL2.env "rho@select15"],
        I.call "op:Sub" [sL2.env "r@select15", I.lit "1"]]] ∧
      ∀ (rho : ℝ) (g : GraphOps A DS ℝ) (cols1 : List C1) (ws1 ws2 : List ℝ)
        (cell1 : C1 → R → ℕ) (size1 : C1 → ℕ) (cell2 : List A → R → ℕ) (size2 : List A → ℕ) (attrs : List A)
        (xest : List A → List ℝ) (msize : List A → ℝ) (mcl : List (List A)) (draws : ℕ → ℕ) (D D' : List R),
        (mstEvents inf fmax rho g cols1 ws1 ws2 cell1 size1 cell2 size2 attrs xest msize mcl draws D D').map ekind = s1.kinds →
        1 < num (sL2.env "r@select15") →
        0 < rho → AddRemove D D' → (ws1.map (· ^ 2)).sum = 1 → (ws2.map (· ^ 2)).sum = 1 →
        (∀ w ∈ ws1, 0 < w) → (∀ w ∈ ws2, 0 < w) → (∀ c, (xest c).length = size2 c) →
        (List.zip cols1 ws1).length = (I.elems (I.call "fn:zip" [sL1.env "cliques@measure1", sL1.env "weights@measure1"])).length ∧
        (List.zipWith (fun d d' => C05E.Event.select (logDist d.p d'.p))
          (mst_select_call npR g (marg cell2 size2 D) attrs rho xest msize mcl draws).2
          (mst_select_call npR g (marg cell2 size2 D') attrs rho xest msize mcl draws).2).length = num (sL2.env "r@select15") - 1 ∧
        (List.zip ((mst_select_call npR g (marg cell2 size2 D) attrs rho xest msize mcl draws).1.map (fun e => [e.1, e.2])) ws2).length
          = (I.elems (I.call "fn:zip" [sL3.env "cliques@measure21", sL3.env "weights@measure21"])).length ∧
        total (mstEvents inf fmax rho g cols1 ws1 ws2 cell1 size1 cell2 size2 attrs xest msize mcl draws D D') ≤ rho := by
  obtain ⟨sL1, sL2, sL3, hp1, _, heps, _, hk⟩ := mst_counts I oracle hs0 hrun
  refine ⟨sL1, sL2, sL3, hp1, heps, ?_⟩
  intro rho g cols1 ws1 ws2 cell1 size1 cell2 size2 attrs xest msize mcl draws D D' hdec hr hrho hnb h1 h2 hp1' hp2 hsz
  rw [kinds_nil_of_trace ht0, List.nil_append] at hk
  have hsel : (I.elems (I.call "fn:range" [I.call "op:Sub" [sL2.env "r@select15", I.lit "1"]])).length
      = num (sL2.env "r@select15") - 1 := by rw [L.range1, L.sub, L.one]
  unfold mstEvents at hdec
  rw [three_phase_kinds _ _ _ (measureEvents_kind _ _ _ _ _) (zipWith_select_kind _ _ _) (measureEvents_kind _ _ _ _ _), hk] at hdec
  have := three_blocks_unique (by rw [hsel]; omega) hdec.symm
  simp only [measureEvents, List.length_map] at this
  refine ⟨this.1.symm, by rw [← this.2.1, hsel], this.2.2.symm, ?_⟩
  exact mst_total_cost_le_rho inf fmax rho g cols1 ws1 ws2 cell1 size1 cell2 size2 attrs xest msize mcl draws D D' hrho hnb h1 h2 hp1' hp2 hsz
end mstL

end ledgers


/-! ## the hypotheses are satisfiable: a concrete interpretation obeying the contracts, and complete runs under it -/

section examples

/-- values are natural numbers; a number `n` iterates as a list of `n` elements (so `len`, `range` are the identity on
lengths); `+`, `-` as in Python, `zip` truncates; every other function returns `0` and every test is false -/
def exI : Interp ℕ where
  lit c := if c = "1" then 1 else if c = "2" then 2 else 0
  call f args :=
    match f, args with
    | "op:Add", [a, b] => a + b
    | "op:Sub", [a, b] => a - b
    | "fn:len", [v] => v
    | "fn:range", [b] => b
    | "fn:range", [a, b] => b - a
    | "fn:zip", [a, b] => min a b
    | _, _ => 0
  elems v := List.replicate v 0
  truthy _ := false

theorem exI_laws : NumLaws exI id where
  one := by decide
  two := by decide
  add := fun a b => rfl
  sub := fun a b => rfl
  len := fun v => by show v = (List.replicate v 0).length; simp
  range1 := fun b => by show (List.replicate b 0).length = b; simp
  range2 := fun a b => by show (List.replicate (b - a) 0).length = b - a; simp

theorem exI_zip (a b : ℕ) : (exI.elems (exI.call "fn:zip" [a, b])).length = min (exI.elems a).length (exI.elems b).length := by
  show (List.replicate (min a b) 0).length = min (List.replicate a 0).length (List.replicate b 0).length
  simp

theorem exI_part : AdaPartLaw exI := by
  intro W a b
  have e : adaSplitLen exI W = fun _ => 0 := funext (fun k => rfl)
  rw [e]
  simp

def exS0 (rounds : ℕ) : State ℕ := ⟨fun x => if x = "rounds" then rounds else 0, 0, [], none⟩

/-- a complete MWEM+PGM run with `rounds = 2`: select, release, select, release -/
theorem ex_mwem_run : (exec exI (fun _ => 0) 100 (mwemProg false) (exS0 2)).map State.kinds = some [.sel, .rel, .sel, .rel] := by
  decide +kernel

/-- `mwem_count_numbers` applied to that run -/
example : ∃ s1, exec exI (fun _ => 0) 100 (mwemProg false) (exS0 2) = some s1 ∧
    countSelects s1.trace = s1.env "rounds" ∧ countReleases s1.trace = s1.env "rounds" := by
  cases h : exec exI (fun _ => 0) 100 (mwemProg false) (exS0 2) with
  | none => have := ex_mwem_run; rw [h] at this; cases this
  | some s1 => exact ⟨s1, rfl, mwem_count_numbers exI _ false id exI_laws rfl rfl h⟩

/-- like `exI`, but every opaque call returns `3` (independent audit, `audit/scratch/c05l_run.lean`): lists have 3 elements,
`r = 3` connected components — so the runs of the other three programs below perform primitives (under `exI` all their lists are
empty and the traces are `[]`, which exercises nothing) -/
def exJ : Interp ℕ where
  lit c := if c = "1" then 1 else if c = "2" then 2 else 0
  call f args :=
    match f, args with
    | "op:Add", [a, b] => a + b
    | "op:Sub", [a, b] => a - b
    | "fn:len", [v] => v
    | "fn:range", [b] => b
    | "fn:range", [a, b] => b - a
    | "fn:zip", [a, b] => min a b
    | _, _ => 3
  elems v := List.replicate v 0
  truthy _ := false

theorem exJ_laws : NumLaws exJ id where
  one := by decide
  two := by decide
  add := fun a b => rfl
  sub := fun a b => rfl
  len := fun v => by show v = (List.replicate v 0).length; simp
  range1 := fun b => by show (List.replicate b 0).length = b; simp
  range2 := fun a b => by show (List.replicate (b - a) 0).length = b - a; simp

/-- a complete, NON-TRIVIAL MST run: 3 one-way releases, `r − 1 = 2` selections, 3 releases over the selected edges -/
theorem ex_mst_run : (exec exJ (fun _ => 3) 1000 mstProg (exS0 0)).map State.kinds
    = some [.rel, .rel, .rel, .sel, .sel, .rel, .rel, .rel] := by decide +kernel

/-- the `r` that run's selection epsilon divides by is 3 = (number of selections) + 1 -/
example : (exec exJ (fun _ => 3) 1000 mstProg (exS0 0)).map (fun s => s.env "r@select15") = some 3 := by decide +kernel

/-- `mst_total_cost_le_rho_run` applies to that run (its hypotheses `hs0`, `ht0`, `hrun` hold with `NumLaws exJ id`) -/
example : ∃ s1, exec exJ (fun _ => 3) 1000 mstProg (exS0 0) = some s1 ∧ (exS0 0).ret = none ∧ (exS0 0).trace = [] ∧
    s1.kinds = [.rel, .rel, .rel, .sel, .sel, .rel, .rel, .rel] := by
  cases h : exec exJ (fun _ => 3) 1000 mstProg (exS0 0) with
  | none => have := ex_mst_run; rw [h] at this; cases this
  | some s1 =>
    have := ex_mst_run; rw [h] at this
    exact ⟨s1, rfl, rfl, rfl, by simpa using this⟩

/-- complete non-trivial runs of AIM (3 one-way releases; every test is false, so the `while` loop is not entered) and of
Adaptive Grid (6 step-1 releases) under `exJ` -/
example : (exec exJ (fun _ => 3) 1000 aimProg (exS0 0)).map State.kinds = some [.rel, .rel, .rel] := by decide +kernel
example : (exec exJ (fun _ => 3) 1000 adagridProg (exS0 0)).map State.kinds
    = some [.rel, .rel, .rel, .rel, .rel, .rel] := by decide +kernel

/-- the syntactic analysis on a small program: an `ite` with equal branches -/
example : shape (.ite (.var "c") (.seq (.release "y" (.var "x") (.lit "1")) (.seq (.select "a" (.var "x") []) (.select "b" (.var "x") [])))
    (.seq (.release "z" (.var "x") (.lit "2")) (.seq (.select "a" (.var "x") []) (.select "b" (.var "x") []))))
    = some [.rel, .sel, .sel] := by decide
end examples

end PGM.C05L
