import PGM.Properties.C05E
import PGM.Proofs.FlowCount
import PGM.Generated.MechProgs
/-!
# C05 — the loop bounds of the ledgers, tied to the regenerated control flow

`C05E.lean` charges every event of a run; how MANY events there are was a hypothesis about the run.  Here the numbers come
from the regenerated programs (`Generated/MechProgs.lean`, `tools/py2flow.py`) under the trace semantics `Flow.exec`.
-/
set_option linter.unusedSimpArgs false
set_option linter.unusedVariables false
set_option maxRecDepth 100000
namespace PGM.C05L
open PGM.Flow PGM.Gen.Flow

/-! ## splitting a program at its event-bearing loops -/

def quiet (s : Stmt) : Bool := (shape s).isSome
def preOf (l : List Stmt) : List Stmt := l.takeWhile quiet
def restOf (l : List Stmt) : List Stmt := l.dropWhile quiet

theorem preOf_append_restOf (l : List Stmt) : preOf l ++ restOf l = l := List.takeWhile_append_dropWhile

/-! ## MWEM+PGM -/

/-- `range(1, rounds+1)` -/
def mwemRange : Expr := .call "fn:range" [.lit "1", .call "op:Add" [.var "rounds", .lit "1"]]

def loopBody : Stmt → Stmt
  | .forIn _ _ b => b
  | .while _ b => b
  | _ => .skip

def retExpr : Stmt → Expr
  | .ret e => e
  | _ => .lit ""

section mwem
variable {Val : Type} (I : Interp Val) (oracle : Nat → Val)

/-- any program of the form `quiet prefix ; for _ in range(1, rounds+1): body ; return e` whose body performs one selection
and then one release on every path and does not assign `rounds` -/
theorem mwem_counts_gen (prog body : Stmt) (re : Expr)
    (hsplit : restOf (flat prog) = [.forIn "_it#1" mwemRange body, .ret re])
    (hpre : shapeL (preOf (flat prog)) = some [])
    (hbody : shape body = some [.sel, .rel])
    (hw : "rounds" ∉ writes body)
    (num : Val → ℕ) (L : NumLaws I num) {f : ℕ} {s0 s1 : State Val} (hs0 : s0.ret = none)
    (h : exec I oracle f prog s0 = some s1) :
    s1.kinds = s0.kinds ++ (List.replicate (num (s1.env "rounds")) [Kind.sel, Kind.rel]).flatten := by
  have hR := runL_of_exec I oracle prog f s0 s1 h
  rw [← preOf_append_restOf (flat prog), hsplit] at hR
  obtain ⟨sL, hpreR, hrest⟩ := RunL.of_append I oracle hR
  obtain ⟨hrL, hkL⟩ := RunL.shape I oracle hpre hs0 hpreR
  obtain ⟨sM, hloop, hret⟩ := RunL.of_append I oracle (as := [Stmt.forIn "_it#1" mwemRange body]) (bs := [Stmt.ret re]) hrest
  obtain ⟨hrM, hkM⟩ := RunL.forIn_shape I oracle hbody hrL hloop
  have hk1 := RunL.ret_kinds I oracle hret
  have hn : (I.elems (evalE I sL.env mwemRange)).length = num (sL.env "rounds") := by
    simp only [mwemRange, evalE, evalEs]
    rw [L.range2, L.add, L.one, Nat.add_sub_cancel]
  have hrounds : s1.env "rounds" = sL.env "rounds" := by
    refine RunL.env I oracle "rounds" ?_ hrest
    simp only [List.flatMap_cons, List.flatMap_nil, writes, List.append_nil, List.mem_append, List.mem_cons, not_or]
    exact ⟨by decide, hw⟩
  rw [hk1, hkM, hkL, hn, hrounds, List.append_nil]

theorem mwemBounded_split : restOf (flat mwemBoundedProg) =
    [.forIn "_it#1" mwemRange (loopBody ((restOf (flat mwemBoundedProg)).headD .skip)),
     .ret (retExpr ((restOf (flat mwemBoundedProg)).getD 1 .skip))] := by rfl


theorem mwemUnbounded_split : restOf (flat mwemUnboundedProg) =
    [.forIn "_it#1" mwemRange (loopBody ((restOf (flat mwemUnboundedProg)).headD .skip)),
     .ret (retExpr ((restOf (flat mwemUnboundedProg)).getD 1 .skip))] := by rfl

/-- **MWEM+PGM (replace-one variant): the primitives of a run are `rounds` times (one selection, one release)**, where
`rounds` is the value of the variable the per-round budget slices divide by (it is not assigned after them) -/
theorem mwem_bounded_counts (num : Val → ℕ) (L : NumLaws I num) {f : ℕ} {s0 s1 : State Val} (hs0 : s0.ret = none)
    (h : exec I oracle f mwemBoundedProg s0 = some s1) :
    s1.kinds = s0.kinds ++ (List.replicate (num (s1.env "rounds")) [Kind.sel, Kind.rel]).flatten :=
  mwem_counts_gen I oracle mwemBoundedProg _ _ mwemBounded_split (by rfl) (by rfl) (by decide +kernel) num L hs0 h

theorem mwem_unbounded_counts (num : Val → ℕ) (L : NumLaws I num) {f : ℕ} {s0 s1 : State Val} (hs0 : s0.ret = none)
    (h : exec I oracle f mwemUnboundedProg s0 = some s1) :
    s1.kinds = s0.kinds ++ (List.replicate (num (s1.env "rounds")) [Kind.sel, Kind.rel]).flatten :=
  mwem_counts_gen I oracle mwemUnboundedProg _ _ mwemUnbounded_split (by rfl) (by rfl) (by decide +kernel) num L hs0 h

/-- the regenerated program of the adjacency notion -/
def mwemProg (bounded : Bool) : Stmt := if bounded then mwemBoundedProg else mwemUnboundedProg

theorem mwem_counts (bounded : Bool) (num : Val → ℕ) (L : NumLaws I num) {f : ℕ} {s0 s1 : State Val} (hs0 : s0.ret = none)
    (h : exec I oracle f (mwemProg bounded) s0 = some s1) :
    s1.kinds = s0.kinds ++ (List.replicate (num (s1.env "rounds")) [Kind.sel, Kind.rel]).flatten := by
  cases bounded
  · exact mwem_unbounded_counts I oracle num L hs0 h
  · exact mwem_bounded_counts I oracle num L hs0 h

/-- … in numbers: exactly `rounds` selections and `rounds` releases -/
theorem mwem_count_numbers (bounded : Bool) (num : Val → ℕ) (L : NumLaws I num) {f : ℕ} {s0 s1 : State Val}
    (hs0 : s0.ret = none) (ht : s0.trace = []) (h : exec I oracle f (mwemProg bounded) s0 = some s1) :
    countSelects s1.trace = num (s1.env "rounds") ∧ countReleases s1.trace = num (s1.env "rounds") := by
  have hk := mwem_counts I oracle bounded num L hs0 h
  have h0 : s0.kinds = [] := by simp [State.kinds, kindsOf, ht]
  rw [h0, List.nil_append] at hk
  refine ⟨?_, ?_⟩
  · show s1.kinds.count .sel = _
    rw [hk, count_flatten_replicate]; simp
  · show s1.kinds.count .rel = _
    rw [hk, count_flatten_replicate]; simp
end mwem


/-! ## AIM -/

section aim
variable {Val : Type} (I : Interp Val) (oracle : Nat → Val)

/-- `len(oneway)*0.5/sigma**2` — the expression of the slice `aim_rho_used0 (len_oneway) (sigma)` (`tools/slices.json`), with
`len_oneway` spelled out as the `len` of the variable `oneway` -/
def aimRhoUsed0 : Expr :=
  .call "op:Div" [.call "op:Mult" [.call "fn:len" [.var "oneway"], .lit "0.5"], .call "op:Pow" [.var "sigma", .lit "2"]]

def aimR1 : List Stmt := restOf (flat aimProg)
def aimBody1 : Stmt := loopBody (aimR1.headD .skip)
def aimMid : List Stmt := preOf aimR1.tail
def aimBody2 : Stmt := loopBody ((restOf aimR1.tail).headD .skip)
def aimPost : List Stmt := (restOf aimR1.tail).tail.dropLast
def aimRet : Expr := retExpr ((restOf aimR1.tail).getLastD .skip)
def aimPre0 : List Stmt := (preOf (flat aimProg)).dropLast

/-- the statement before the first loop initialises `rho_used` from `len(oneway)` … -/
theorem aim_pre_split : preOf (flat aimProg) = aimPre0 ++ [.assign "rho_used" aimRhoUsed0] := by rfl

/-- **… and the first loop iterates over that same variable `oneway`** (a loop over `data.domain` breaks this theorem);
then a quiet block, the `while not terminate` loop, a quiet block and the `return` -/
theorem aim_loops_split : restOf (flat aimProg) =
    .forIn "_it#1" (.var "oneway") aimBody1 ::
      (aimMid ++ .while (.call "op:Not" [.var "terminate"]) aimBody2 :: (aimPost ++ [.ret aimRet])) := by rfl

theorem aim_body1_shape : shape aimBody1 = some [.rel] := by rfl
theorem aim_body2_shape : shape aimBody2 = some [.sel, .rel] := by rfl
theorem aim_quiet_blocks : shapeL aimPre0 = some [] ∧ shapeL aimMid = some [] ∧ shapeL aimPost = some [] := by
  refine ⟨by rfl, by rfl, by rfl⟩

/-- **AIM: the primitives of a run.**  In the state `sL` in which the first loop is entered, `rho_used` has just been set to
`len(W)*0.5/sigma**2` for the value `W` of `oneway`; the run then performs exactly one release per element of that same `W`,
followed by `n` times (one selection, one release), `n` the number of iterations of the `while` loop. -/
theorem aim_counts {f : ℕ} {s0 s1 : State Val} (hs0 : s0.ret = none) (h : exec I oracle f aimProg s0 = some s1) :
    ∃ (sL : State Val) (n : ℕ), RunL I oracle (preOf (flat aimProg)) s0 sL ∧
      sL.env "rho_used" = I.call "op:Div" [I.call "op:Mult" [I.call "fn:len" [sL.env "oneway"], I.lit "0.5"],
        I.call "op:Pow" [sL.env "sigma", I.lit "2"]] ∧
      s1.kinds = s0.kinds ++ List.replicate (I.elems (sL.env "oneway")).length Kind.rel
        ++ (List.replicate n [Kind.sel, Kind.rel]).flatten := by
  have hR := runL_of_exec I oracle aimProg f s0 s1 h
  rw [← preOf_append_restOf (flat aimProg)] at hR
  obtain ⟨sL, hpreR, hrest⟩ := RunL.of_append I oracle hR
  refine ⟨sL, ?_⟩
  -- the prefix
  have hpreR' := hpreR
  rw [aim_pre_split] at hpreR'
  obtain ⟨sP, hp0, hp1⟩ := RunL.of_append I oracle hpreR'
  obtain ⟨hrP, hkP⟩ := RunL.shape I oracle aim_quiet_blocks.1 hs0 hp0
  have hsL := RunL.assign_inv I oracle hrP hp1
  have hrL : sL.ret = none := by rw [hsL]; exact hrP
  have hkL : sL.kinds = s0.kinds := by rw [hsL]; simpa using hkP
  have hru : sL.env "rho_used" = I.call "op:Div" [I.call "op:Mult" [I.call "fn:len" [sL.env "oneway"], I.lit "0.5"],
      I.call "op:Pow" [sL.env "sigma", I.lit "2"]] := by
    rw [hsL]
    simp [aimRhoUsed0, evalE, evalEs]
  -- the loops
  rw [aim_loops_split] at hrest
  obtain ⟨f1, sA, hl1, hrest⟩ := RunL.cons_inv I oracle hrest
  obtain ⟨hrA, hkA⟩ := RunL.forIn_shape I oracle aim_body1_shape hrL (.cons f1 hl1 (.nil _))
  obtain ⟨sB, hmid, hrest⟩ := RunL.of_append I oracle hrest
  obtain ⟨hrB, hkB⟩ := RunL.shape I oracle aim_quiet_blocks.2.1 hrA hmid
  obtain ⟨f2, sC, hl2, hrest⟩ := RunL.cons_inv I oracle hrest
  obtain ⟨n, _, hrC, hkC⟩ := RunL.while_shape I oracle aim_body2_shape hrB (.cons f2 hl2 (.nil _))
  obtain ⟨sD, hpost, hret⟩ := RunL.of_append I oracle hrest
  obtain ⟨hrD, hkD⟩ := RunL.shape I oracle aim_quiet_blocks.2.2 hrC hpost
  have hk1 := RunL.ret_kinds I oracle hret
  refine ⟨n, hpreR, hru, ?_⟩
  rw [hk1, hkD, hkC, hkB, hkA, hkL]
  simp [evalE, List.flatten_replicate_singleton]
end aim


/-! ## the ledgers of `C05E`, with the number of events taken from the run

Bridge: a ledger `evs : List C05E.Event` DECORATES a run when its events have, in order, the kinds of the primitives the run
performed (`evs.map ekind = s1.kinds`): the ledger charges exactly the primitives of the run, no more and no fewer. -/

open PGM.C05E PGM.Gen.R PGM.Ledger PGM.C05 PGM.C05S PGM.SelectG PGM.SelGen PGM.LedgerE

def ekind : C05E.Event → Kind
  | .release _ _ _ => .rel
  | .select _ => .sel

section ledgers
variable {Val : Type} (I : Interp Val) (oracle : Nat → Val) (inf fmax : ℝ)

theorem kinds_nil_of_trace {s : State Val} (h : s.trace = []) : s.kinds = [] := by simp [State.kinds, kindsOf, h]

theorem replicate_flatten_inj {a b : ℕ} (h : (List.replicate a [Kind.sel, Kind.rel]).flatten = (List.replicate b [Kind.sel, Kind.rel]).flatten) :
    a = b := by
  have := congrArg List.length h
  rw [length_flatten_replicate, length_flatten_replicate] at this
  simpa using this

section mwemL
variable {C R : Type} [DecidableEq C]

theorem mwem_gauss_ledger_kinds (rho alpha rounds : ℝ) (bounded : Bool) (cell : C → R → ℕ) (size : C → ℕ) (D D' : List R)
    (rds : List (MwemRound C)) :
    (rds.flatMap (mwemGaussRound inf fmax rho alpha rounds bounded cell size D D')).map ekind
      = (List.replicate rds.length [Kind.sel, Kind.rel]).flatten := by
  induction rds with
  | nil => rfl
  | cons rd rds ih => simp [List.flatMap_cons, List.replicate_succ, ih, mwemGaussRound, ekind]

theorem mwem_laplace_ledger_kinds (eps alpha rounds : ℝ) (bounded : Bool) (cell : C → R → ℕ) (size : C → ℕ) (D D' : List R)
    (rds : List (MwemRound C)) :
    (rds.flatMap (mwemLaplaceRound inf fmax eps alpha rounds bounded cell size D D')).map ekind
      = (List.replicate rds.length [Kind.sel, Kind.rel]).flatten := by
  induction rds with
  | nil => rfl
  | cons rd rds ih => simp [List.flatMap_cons, List.replicate_succ, ih, mwemLaplaceRound, ekind]

/-- **MWEM+PGM, end to end, for a run of the regenerated program**: `rounds` is the number the variable `rounds` denotes (the
one the budget slices divide by); a ledger of per-round events (`C05E.mwemGaussRound` / `mwemLaplaceRound`) that decorates the
run costs at most the budget.  The hypothesis `rds.length = rounds` of `C05E.mwem_total_cost_le_budget` is now a consequence
of `mwem_counts` (loop `range(1, rounds+1)`, one selection and one release per round). -/
theorem mwem_total_cost_le_budget_run (num : Val → ℕ) (L : NumLaws I num) {f : ℕ} {s0 s1 : State Val}
    (hs0 : s0.ret = none) (ht0 : s0.trace = []) (bounded : Bool) (hrun : exec I oracle f (mwemProg bounded) s0 = some s1)
    (budget alpha : ℝ) (laplace : Bool) (cell : C → R → ℕ) (size : C → ℕ) (D D' : List R) (rds : List (MwemRound C))
    (hdec : (if laplace = true then rds.flatMap (mwemLaplaceRound inf fmax budget alpha (num (s1.env "rounds")) bounded cell size D D')
      else rds.flatMap (mwemGaussRound inf fmax budget alpha (num (s1.env "rounds")) bounded cell size D D')).map ekind = s1.kinds)
    (hb : 0 < budget) (hr : 0 < num (s1.env "rounds")) (ha0 : 0 < alpha) (ha1 : alpha < 1)
    (hnb : Nbr bounded D D') (hsz : ∀ rd ∈ rds, ∀ cl, (rd.xest cl).length = size cl) :
    rds.length = num (s1.env "rounds") ∧
    (if laplace = true then totalPure (rds.flatMap (mwemLaplaceRound inf fmax budget alpha (num (s1.env "rounds")) bounded cell size D D')) ≤ budget
    else total (rds.flatMap (mwemGaussRound inf fmax budget alpha (num (s1.env "rounds")) bounded cell size D D')) ≤ budget) := by
  have hk := mwem_counts I oracle bounded num L hs0 hrun
  rw [kinds_nil_of_trace ht0, List.nil_append] at hk
  have hlen : rds.length = num (s1.env "rounds") := by
    apply replicate_flatten_inj
    rw [← hk, ← hdec]
    cases laplace
    · simp only [Bool.false_eq_true, if_false]; rw [mwem_gauss_ledger_kinds]
    · simp only [if_true]; rw [mwem_laplace_ledger_kinds]
  exact ⟨hlen, mwem_total_cost_le_budget inf fmax budget alpha (num (s1.env "rounds")) laplace bounded cell size D D' rds hb hr ha0 ha1
    hlen hnb hsz⟩
end mwemL

section aimL
variable {C DS R : Type} [DecidableEq C]

/-- the ledger of `C05E.aimEvents` with the list of one-way marginals that are RELEASED separated from the number that is
CHARGED in the initial `rho_used` -/
noncomputable def aimEventsRun (rho rounds : ℝ) (g : GraphOps C DS ℝ) (cands : List (C × ℝ)) (released : List C) (charged : ℕ)
    (cell : C → R → ℕ) (size : C → ℕ) (D D' : List R) (rds : List (AimRound C)) : List C05E.Event :=
  released.map (fun cl => C05E.Event.release .gauss (aim_noise_scale_init (aim_sigma0 rounds rho))
      (l2 (marg cell size D cl) (marg cell size D' cl)))
  ++ aimLoopEvents inf fmax rho g cands cell size D D' rds (aimInit rho rounds charged)

theorem aimEventsRun_eq (rho rounds : ℝ) (g : GraphOps C DS ℝ) (cands : List (C × ℝ)) (oneway : List C)
    (cell : C → R → ℕ) (size : C → ℕ) (D D' : List R) (rds : List (AimRound C)) :
    aimEventsRun inf fmax rho rounds g cands oneway oneway.length cell size D D' rds
      = aimEvents inf fmax rho rounds g cands oneway cell size D D' rds := rfl

theorem aim_loop_head (rho : ℝ) (g : GraphOps C DS ℝ) (cands : List (C × ℝ)) (cell : C → R → ℕ) (size : C → ℕ) (D D' : List R) :
    ∀ (rds : List (AimRound C)) (s : AimState),
      ((aimLoopEvents inf fmax rho g cands cell size D D' rds s).map ekind).head? ≠ some Kind.rel
  | [], s => by simp [aimLoopEvents]
  | rd :: rest, s => by
    simp only [aimLoopEvents, aimRoundEvents]
    by_cases ht : s.terminated = true
    · simp only [ht, if_true, List.nil_append]
      exact aim_loop_head rho g cands cell size D D' rest _
    · simp [ht, ekind]

/-- **AIM, end to end, for a run of the regenerated program.**  `sL` is the state in which the first loop of the run is
entered and `W` the value of `oneway` there; the run's `rho_used` starts at `len(W)·0.5/σ²` (second conjunct: the expression
of the slice `aim_rho_used0`).  For every ledger that releases the marginals `released`, charges `len(W)` in the initial
`rho_used` and decorates the run, `released.length = len(W)` follows from `aim_counts` and the total is at most `rho`.
With the loop over `data.domain` instead of `oneway`, `aim_loops_split` fails. -/
theorem aim_total_cost_le_rho_run (num : Val → ℕ) (L : NumLaws I num) {f : ℕ} {s0 s1 : State Val}
    (hs0 : s0.ret = none) (ht0 : s0.trace = []) (hrun : exec I oracle f aimProg s0 = some s1) :
    ∃ sL : State Val, RunL I oracle (preOf (flat aimProg)) s0 sL ∧
      sL.env "rho_used" = I.call "op:Div" [I.call "op:Mult" [I.call "fn:len" [sL.env "oneway"], I.lit "0.5"],
        I.call "op:Pow" [sL.env "sigma", I.lit "2"]] ∧
      ∀ (rho rounds : ℝ) (g : GraphOps C DS ℝ) (cands : List (C × ℝ)) (released : List C)
        (cell : C → R → ℕ) (size : C → ℕ) (D D' : List R) (rds : List (AimRound C)),
        (aimEventsRun inf fmax rho rounds g cands released (num (I.call "fn:len" [sL.env "oneway"])) cell size D D' rds).map ekind
          = s1.kinds →
        0 < rho → 0 < rounds → 0.9 * ((num (I.call "fn:len" [sL.env "oneway"]) : ℕ) : ℝ) ≤ rounds → AddRemove D D' →
        (∀ rd ∈ rds, AimRoundOK inf fmax g cands size rd) →
        released.length = num (I.call "fn:len" [sL.env "oneway"]) ∧
        total (aimEventsRun inf fmax rho rounds g cands released (num (I.call "fn:len" [sL.env "oneway"])) cell size D D' rds) ≤ rho := by
  obtain ⟨sL, n, hpre, hru, hk⟩ := aim_counts I oracle hs0 hrun
  refine ⟨sL, hpre, hru, ?_⟩
  intro rho rounds g cands released cell size D D' rds hdec hrho hrounds hfit hnb hok
  rw [kinds_nil_of_trace ht0, List.nil_append] at hk
  have hlen : released.length = num (I.call "fn:len" [sL.env "oneway"]) := by
    rw [L.len]
    have e : (aimEventsRun inf fmax rho rounds g cands released (num (I.call "fn:len" [sL.env "oneway"])) cell size D D' rds).map ekind
        = List.replicate released.length Kind.rel
          ++ (aimLoopEvents inf fmax rho g cands cell size D D' rds (aimInit rho rounds (num (I.call "fn:len" [sL.env "oneway"])))).map ekind := by
      simp only [aimEventsRun, List.map_append, List.map_map]
      congr 1
      rw [List.eq_replicate_iff]
      exact ⟨by simp, by intro b hb; obtain ⟨a, _, rfl⟩ := List.mem_map.1 hb; rfl⟩
    rw [e, hk] at hdec
    refine (replicate_rel_prefix_unique _ _ _ _ (aim_loop_head inf fmax rho g cands cell size D D' rds _) ?_ hdec).1
    cases n with
    | zero => simp
    | succ n => simp [List.replicate_succ]
  refine ⟨hlen, ?_⟩
  rw [← hlen, aimEventsRun_eq]
  exact aim_total_cost_le_rho inf fmax rho rounds g cands released cell size D D' rds hrho hrounds (by rw [hlen]; exact hfit) hnb hok
end aimL
end ledgers

end PGM.C05L
