import PGM.Model.Total
namespace PGM.C09
end PGM.C09
