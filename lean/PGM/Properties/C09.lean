import PGM.Proofs.TotalSem
/-!
# C09 — known totals are honoured; unknown totals are the best linear estimate

Theorems about `PGM/Model/Total.lean` (the total estimate of `inference.py:289-304` and its copies),
instantiated at any linearly ordered field.  `lsmr` is modelled by its contract (minimum-norm
least-squares solution), computed exactly by certified Gauss–Jordan elimination.
-/
namespace PGM.C09
open PGM PGM.Total
variable {K : Type} [Field K] [LinearOrder K] [IsStrictOrderedRing K]

/-- a supplied total is used exactly -/
theorem total_given_used (t : K) (meas : List (Meas K)) : totalOf (some t) meas = t :=
  Total.total_given_used t meas

/-- whatever is estimated is at least 1 … -/
theorem total_ge_one (meas : List (Meas K)) : 1 ≤ totalEstimate meas :=
  Total.total_ge_one meas

/-- … and exactly 1 when no measurement's queries can express the overall count -/
theorem total_no_qualifying (meas : List (Meas K)) (h : ∀ m ∈ meas, unbiasedVec m.Q = none) :
    totalEstimate meas = 1 :=
  Total.total_no_qualifying meas h

/-- the vector a qualifying measurement is used with is certified: `Qᵀ v = 1` and `v ∈ range Q` -/
theorem unbiasedVec_spec (Q : List (List K)) (v : List K) (h : unbiasedVec Q = some v) :
    matTVec Q v = ones (ncols Q) ∧ ∃ z, v = matVec Q z :=
  Total.unbiasedVec_spec Q v h

/-- **unbiasedness**: if `Qᵀ v = 1` then `⟨v, Q x⟩ = Σ x` for every data vector `x` -/
theorem unbiased (Q : List (List K)) (v x : List K) (hQ : Rect Q) (hv : matTVec Q v = ones (ncols Q))
    (hvl : v.length = Q.length) (hx : x.length = ncols Q) :
    dot v (matVec Q x) = x.sum :=
  Total.unbiased Q v x hQ hv hvl hx

/-- **minimum variance within a measurement**: among all `u` with `Qᵀ u = 1`, the vector in the
range of `Q` (the minimum-norm solution that `lsmr` returns) has the smallest `⟨u,u⟩` -/
theorem minnorm_minimises_variance (Q : List (List K)) (v u : List K) (hQ : Rect Q)
    (hv : unbiasedVec Q = some v) (hu : matTVec Q u = ones (ncols Q)) (hul : u.length = Q.length) :
    dot v v ≤ dot u u :=
  Total.minnorm_minimises_variance Q v u hQ hv hu hul

/-- **completeness of the qualification test**: a measurement qualifies iff the ones vector is in
the row space of its query matrix -/
theorem qualifies_iff_rowspace (Q : List (List K)) (hQ : Rect Q) (hne : Q ≠ []) :
    (unbiasedVec Q).isSome ↔ ∃ u : List K, u.length = Q.length ∧ matTVec Q u = ones (ncols Q) :=
  Total.qualifies_iff_rowspace Q hQ hne

/-- **inverse-variance weighting is the best linear combination**: `combine` is the weighted mean
with weights `(1/varᵢ)/Σ(1/varⱼ)`, which sum to one, and no other weights summing to one give a
smaller variance `Σ wᵢ² varᵢ` -/
theorem invvar_is_blue (ev : List (K × K)) (hne : ev ≠ []) (hpos : ∀ p ∈ ev, 0 < p.2)
    (w : List K) (hwl : w.length = ev.length) (hw : w.sum = 1) :
    let W := (ev.map (fun p => 1 / p.2)).sum
    combine ev = (ev.map (fun p => (1 / p.2 / W) * p.1)).sum ∧
    (ev.map (fun p => 1 / p.2 / W)).sum = 1 ∧
    (ev.map (fun p => (1 / p.2 / W) ^ 2 * p.2)).sum = 1 / W ∧
    1 / W ≤ (List.zipWith (fun wi p => wi ^ 2 * p.2) w ev).sum :=
  Total.invvar_is_blue ev hne hpos w hwl hw

/-- **noise-free measurements recover N exactly**: if every measurement is `y = Q x` of a data
vector with `Σ x = N ≥ 1`, noise scales are positive and at least one measurement qualifies, the
estimated total is `N` — for every query matrix with the ones vector in its row space, any size -/
theorem noise_free_total (meas : List (Meas K)) (N : K) (hN : 1 ≤ N)
    (hrect : ∀ m ∈ meas, Rect m.Q) (hnoise : ∀ m ∈ meas, 0 < m.noise)
    (hy : ∀ m ∈ meas, ∃ x : List K, x.length = ncols m.Q ∧ x.sum = N ∧ m.y = matVec m.Q x)
    (hq : ∃ m ∈ meas, (unbiasedVec m.Q).isSome)
    (hnz : ∀ m ∈ meas, ncols m.Q ≠ 0) :
    totalEstimate meas = N :=
  Total.noise_free_total meas N hN hrect hnoise hy hq hnz

end PGM.C09
