import PGM.Proofs.Dataset
/-!
# C15 — datasets vectorise to their contingency table; projection commutes; domain laws

Theorems about `PGM/Model/Dataset.lean` and `PGM/Model/Domain.lean` (hand models of
`src/mbi/dataset.py`, `src/mbi/domain.py`, tied to the code by the correspondence run).
The scalar type is arbitrary; where sums are rearranged the needed laws of `Scalar.add`
(associative, commutative, `zero` neutral) are explicit hypotheses, satisfied by ℚ and ℝ.
-/
namespace PGM.C15
open PGM Dataset

variable {α : Type} [Scalar α]

/-- the vector form is the contingency table: the entry of cell `c` is the total weight of the
records equal to `c` (records inside the domain) -/
theorem datavector_eq_count (D : Dataset α) (hin : D.InDomain) (c : List Nat)
    (hc : InRange D.dom.shape c) :
    D.datavector[ravel D.dom.shape c]? = some (D.tableAt c) :=
  Dataset.datavector_eq_count D hin c hc

theorem datavector_length (D : Dataset α) : D.datavector.length = D.dom.size :=
  Dataset.datavector_length D

/-- boundary behaviour of the histogram: a value equal to the attribute's size is counted in the
last bin, anything further out drops the record -/
theorem bin1_boundary (n : Nat) (hn : 0 < n) :
    bin1 n (n : Int) = some (n - 1) ∧ bin1 n ((n : Int) + 1) = none ∧ bin1 n (-1) = none :=
  Dataset.bin1_boundary n hn

/-- **projection commutes with marginalising and transposing the table**: for any duplicate-free
list `cols` of domain attributes in any order, the vector of the projected dataset at cell `c'`
is the sum, over all settings of the dropped attributes, of the full table — weights carried. -/
theorem datavector_project_comm (D : Dataset α) (cols : List Attr)
    (hassoc : ∀ a b c : α, Scalar.add (Scalar.add a b) c = Scalar.add a (Scalar.add b c))
    (hcomm : ∀ a b : α, Scalar.add a b = Scalar.add b a)
    (hzero : ∀ a : α, Scalar.add Scalar.zero a = a)
    (hD : D.dom.WF) (hin : D.InDomain) (hcols : cols.Nodup) (hsub : ∀ a ∈ cols, a ∈ D.dom.attrs)
    (c' : List Nat) (hc' : InRange (D.dom.project cols).shape c') :
    (D.project cols).tableAt c' =
      Scalar.sum ((cells ((D.dom.invert cols).map D.dom.cfg)).map
        (fun v => D.tableAt (D.dom.attrs.map (Dom.override (Dom.assign cols c') (D.dom.invert cols) v)))) :=
  Dataset.datavector_project_comm D cols hassoc hcomm hzero hD hin hcols hsub c' hc'

/-- projecting keeps every record in the (projected) domain, so the two theorems compose -/
theorem project_inDomain (D : Dataset α) (cols : List Attr) (hD : D.dom.WF) (hin : D.InDomain)
    (hsub : ∀ a ∈ cols, a ∈ D.dom.attrs) : (D.project cols).InDomain :=
  Dataset.project_inDomain D cols hD hin hsub

/-! ### domain laws -/

theorem project_project (d : Dom) (as bs : List Attr) (hd : d.WF) (has : as.Nodup)
    (hsub : ∀ b ∈ bs, b ∈ as) (hsub' : ∀ a ∈ as, a ∈ d.attrs) :
    (d.project as).project bs = d.project bs := Dom.project_project d as bs hd has hsub hsub'

theorem merge_attrs (d o : Dom) (ho : o.WF) :
    (d.merge o).attrs = d.attrs ++ o.attrs.filter (fun a => !d.attrs.contains a) :=
  Dom.merge_attrs d o ho

theorem size_merge (d o : Dom) : (d.merge o).size = d.size * (o.marginalize d.attrs).size :=
  Dom.size_merge d o

theorem size_project_mul_size_marginalize (d : Dom) (as : List Attr) (hd : d.WF) :
    (d.project (d.canonical as)).size * (d.marginalize as).size = d.size :=
  Dom.size_project_mul_size_marginalize d as hd

theorem canonical_sublist (d : Dom) (as : List Attr) : (d.canonical as).Sublist d.attrs :=
  Dom.canonical_sublist d as

theorem invert_canonical_partition (d : Dom) (as : List Attr) :
    ∀ a ∈ d.attrs, (a ∈ d.canonical as ∧ a ∉ d.invert as) ∨ (a ∉ d.canonical as ∧ a ∈ d.invert as) :=
  Dom.invert_canonical_partition d as

theorem sortSize_perm (d : Dom) (hd : d.WF) : d.sortSize.Perm d := Dom.sortSize_perm d hd

theorem sortSize_sorted (d : Dom) (hd : d.WF) : d.sortSize.shape.Pairwise (· ≤ ·) :=
  Dom.sortSize_sorted d hd

theorem contains_iff_subset (d o : Dom) : d.contains o = true ↔ ∀ a ∈ o.attrs, a ∈ d.attrs :=
  Dom.contains_iff_subset d o

theorem axes_index (d : Dom) (as : List Attr) (hsub : ∀ a ∈ as, a ∈ d.attrs) (i : Nat) (hi : i < as.length) :
    d.attrs[(d.axes as).getD i 0]? = as[i]? := Dom.axes_index d as hsub i hi

end PGM.C15
