import PGM.Model.Dataset
namespace PGM.C15
end PGM.C15
