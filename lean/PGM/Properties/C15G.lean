import PGM.Generated.DomainG
import PGM.Proofs.Domain
/-!
# C15 (translator tie) — the regenerated reading of `src/mbi/domain.py` is the hand-written model

`PGM/Generated/DomainG.lean` is produced on every run by `tools/py2dom.py` from the current source of
`class Domain`.  Each generated definition is proved equal to the definition of `PGM/Model/Domain.lean`
that the domain laws of `PGM/Properties/C15.lean` are about — so those laws are re-checked against what
the source says now; a semantic change of `domain.py` breaks one of these equalities (or the translation).
Python's `Domain(attrs, shape)` is `List.zip attrs shape`; `config[a]` is `Dom.cfg` (first match — for a
duplicate-free attribute list the same as `dict(zip(attrs, shape))[a]`).
-/
namespace PGM.C15
open PGM

theorem foldl_mul_eq_size (l : List Nat) (k : Nat) : l.foldl (fun x y => x * y) k = k * PGM.size l := by
  induction l generalizing k with
  | nil => simp [PGM.size]
  | cons n ns ih => simp only [List.foldl_cons, PGM.size, ih]; exact Nat.mul_assoc k n (PGM.size ns)

theorem zip_map_right_eq {α β : Type} (l : List α) (f : α → β) :
    List.zip l (l.map f) = l.map (fun a => (a, f a)) := by
  induction l with
  | nil => rfl
  | cons a l ih => simp [ih]

theorem zip_fst_snd {α β : Type} (l : List (α × β)) : List.zip (l.map Prod.fst) (l.map Prod.snd) = l := by
  induction l with
  | nil => rfl
  | cons a l ih => simp [ih]

/-- `Domain.size()` -/
theorem gen_size (d : Dom) : DomG.size d = Dom.size d := by
  simp [DomG.size, Dom.size, foldl_mul_eq_size]

/-- `Domain.project` -/
theorem gen_project (d : Dom) (as : List Attr) : DomG.project d as = Dom.project d as := by
  simp [DomG.project, Dom.project, zip_map_right_eq]

/-- `Domain.size(attrs)` -/
theorem gen_sizeOf (d : Dom) (as : List Attr) : DomG.sizeOf d as = Dom.sizeOf d as := by
  simp [DomG.sizeOf, Dom.sizeOf, gen_project, gen_size]

/-- `Domain.invert` -/
theorem gen_invert (d : Dom) (as : List Attr) : DomG.invert d as = Dom.invert d as := rfl

/-- `Domain.marginalize` -/
theorem gen_marginalize (d : Dom) (as : List Attr) : DomG.marginalize d as = Dom.marginalize d as := by
  simp [DomG.marginalize, Dom.marginalize, Dom.invert, gen_project]

/-- `Domain.transpose` is `project` -/
theorem gen_transpose (d : Dom) (as : List Attr) : DomG.transpose d as = Dom.project d as := by
  simp [DomG.transpose, gen_project]

/-- `Domain.axes` -/
theorem gen_axes (d : Dom) (as : List Attr) : DomG.axes d as = Dom.axes d as := rfl

/-- `Domain.canonical` -/
theorem gen_canonical (d : Dom) (as : List Attr) : DomG.canonical d as = Dom.canonical d as := rfl

/-- `Domain.contains` -/
theorem gen_contains (d o : Dom) : DomG.contains d o = Dom.contains d o := rfl

/-- `Domain.merge`: `Domain(self.attrs + extra.attrs, self.shape + extra.shape)` is the concatenation -/
theorem gen_merge (d o : Dom) : DomG.merge d o = Dom.merge d o := by
  simp only [DomG.merge, Dom.merge, gen_marginalize, Dom.attrs, Dom.shape]
  rw [List.zip_append (by simp), zip_fst_snd, zip_fst_snd]

/-- `Domain.sort('size')`: `key=self.size` is called with one attribute name, i.e. `size([a]) = config[a]` -/
theorem gen_sortSize (d : Dom) : DomG.sortSize d = Dom.sortSize d := by
  have hk : (fun a => DomG.sizeOf d [a]) = fun a => Dom.cfg d a := by
    funext a
    simp [DomG.sizeOf, DomG.size, DomG.project, Dom.shape]
  simp [DomG.sortSize, Dom.sortSize, gen_project, hk]

/-- `Domain.sort('name')` -/
theorem gen_sortName (d : Dom) : DomG.sortName d = Dom.sortName d := by
  simp [DomG.sortName, Dom.sortName, gen_project]

end PGM.C15
