import PGM.Generated.RegionGraphG
import PGM.Proofs.RegionGraphGen
import PGM.Proofs.RegionGraphGen2
import PGM.Proofs.RegionGraphGen3
import PGM.Proofs.RegionGraphGen4
import PGM.Properties.C16
import PGM.Properties.C17
/-!
# C16/C17 (translator tie) — the regenerated reading of `src/mbi/region_graph.py` is the hand model

`PGM/Generated/RegionGraphG.lean` is produced on every run by `tools/py2rg.py` from the current source of
`RegionGraph.hazan_peng_shashua`, `generalized_belief_propagation`, `primal_feasibility`, `is_converged`, statement by
statement, plus two slices (`initCliques` of `__init__`, `initMessages` = the last block of `build_graph`).  Every generated
definition is proved equal here to the definition of `PGM/Model/RegionGraph.lean` the C16 / C17 theorems are about, for every
scalar instance (`gen_primalFeasibility`, `gen_isConverged`, `gen_hpsSweep`, `gen_hpsLoop`, `gen_hps`, `gen_gbpSweep`,
`gen_gbpLoop`, `gen_gbp`, `gen_initCliques`, `gen_initMessages`), and the main theorems are re-stated for the GENERATED code
(`gen_belief_lagrangian_form`, `gen_hps_certificate`, `gen_hps_certificate_warm`, `gen_hps_certificate_checked`,
`gen_hps_tables_*`, `gen_gbp_tables_*`, `gen_gbp_disjoint_msgs`).

Where the source does more than the model, the equality is stated under the hypothesis that makes the difference vanish:

* `pot` and `cc` are dictionaries filled by loops over `self.regions` / `self.parents[r]` in the source, total functions
  (`potOf`, `ccOf`) in the model: equal on the keys the loops insert.  `gen_hps` therefore assumes that parent lists stay
  inside the region list, `gen_gbp` that the message order starts at regions (`pot[p]` is a KeyError in Python otherwise);
  both hold for every graph that passes `RG.graphCheck` and for every `RG.build` graph (used in `gen_hps_certificate*`).
* the three successive stores `new[p,r] = …; new[p,r] = c0[p] * new[p,r].logsumexp(…); new[p,r] -= …` are one store in the
  model (`dictSet_dictSet`, `get_dictSet_self`); `sum(...)` of Factors starts from the int 0 in both (`PyVal` / `PySum`).
* the model's `hpsLoop` also counts the sweeps (third component); the source returns the CliqueVector and leaves the
  messages in `self.messages`: `gen_hps` identifies the pair with components 1 and 2.1.
* `self.messages[k] = …` in `build_graph` are dictionary stores, `RG.initMessages` appends: equal when no edge is listed
  twice or in both directions (`gen_initMessages`; `initMessages_needs_nodup` shows the difference otherwise).

`build_graph` (second part of this file): `gen_closeStep` / `gen_closureWhile` / `gen_closure` / `gen_build_regions` (the regenerated
intersection closure is `RG.closure`), `gen_buildGraphCM` / `gen_buildGraphCS` (convex: every field the oracle reads is `RG.buildOn`'s),
`gen_buildGraphNM_skeleton` / `gen_buildGraphNS_skeleton` (non-convex: children, parents, descendants, ancestors, messages, message
order), for every duplicate-free region list; `gen_initMessages_buildOn` discharges the fresh-key hypothesis of `gen_initMessages`
from `BuiltOK`.  Certificates with the regenerated construction feeding the regenerated oracle: `gen_hps_certificate_built`,
`gen_hps_certificate_source` (from the clique list on), `gen_counting_convex`, `gen_gbp_tables_normalised_built`,
`gen_gbp_tables_valid_built` (generalised propagation on the regenerated N / D / B themselves, `genGraphN`).

N / D / B (third part): `gen_buildGraphNM_NDB`, `gen_buildGraphNS_NDB` — the regenerated dictionaries are `beliefSetMin` / `msgSetsMin` /
`beliefSetSat` / `msgSetsSat` of the model, entry by entry and in order; `genGraphN'` is the graph record built from regenerated
fields only, `gen_gbp_built_eq` identifies the regenerated oracle on it with `RG.gbp` on `RG.buildOn`, `gen_gbp_tables_*_built'`.
Counting numbers: `gen_counting_NM` / `gen_counting_NS` — the regenerated memoised recursion returns THE solution of
`c r = 1 − Σ_{a ∈ ancestors r} c a` under acyclicity (`MoebiusOK`), hence `gen_counting_eq_model`: equal to `RG.moebius` look-up by
look-up whenever the model's numbers satisfy the recurrence.  The dictionary ORDER differs from the model's list
(`counting_order_differs`: completion order of the recursion vs region order) — a full list equality is false.

`MoebiusOK` holds for every `RG.buildOn` graph (`moebiusOK_buildOn`, from `Proofs/RegionGraphGen4.lean`: `reach_min` / `reach_closed` /
`reach_mono` — the breadth-first search of `RG.reach` is sound, reaches a fixed point within `regions.length` rounds, hence is
transitive; `anc_longer` / `anc_card_lt` — on the cover graph ancestors are strictly longer regions and have fewer ancestors;
`table_rec` / `moebius_rec` — the table of `RG.moebius`, filled in `byDepth` order, satisfies the recurrence).  Hence, with no
hypothesis beyond duplicate-free regions and a depth bound above their total length: `gen_counting`, and the full field-by-field
statements `gen_buildGraphNM`, `gen_buildGraphNS`, `genGraphN'_counting`.
-/
namespace PGM.C17G
open PGM PGM.JT PGM.RG PGM.RGGen
open PGM.GM (dictSet)
set_option linter.unusedSectionVars false

variable {α : Type} [Scalar α]

/-! ## `primal_feasibility`, `is_converged` -/

theorem gen_primalFeasibility (g : RG.Graph) (mu : CliqueVec α) :
    RGG.primalFeasibility g.cliques g.children mu = RG.primalFeasibility g mu := by
  unfold RGG.primalFeasibility RG.primalFeasibility
  have h := fold_pair2 (α := α) (fun r => RG.look g.children r)
    (fun r s => norm1Diff ((mu.get r).projectSum s).datavector (mu.get s).datavector) g.cliques Scalar.zero 0
  simp only [norm1_flatSub, look_eq]
  generalize (g.cliques.flatMap fun r => (RG.look g.children r).map fun s =>
    norm1Diff ((mu.get r).projectSum s).datavector (mu.get s).datavector) = errs at h ⊢
  show (match (g.cliques.foldl (fun (st : α × Nat) r => (RG.look g.children r).foldl (fun (st : α × Nat) s =>
      (Scalar.add st.1 (norm1Diff ((mu.get r).projectSum s).datavector (mu.get s).datavector), st.2 + 1)) st) (Scalar.zero, 0)) with
    | (ans, count) => if (count == 0) = true then Scalar.zero else Scalar.div ans (Scalar.ofNat count)) = _
  rw [h]
  cases errs with
  | nil => rfl
  | cons e es =>
    show (if (0 + (es.length + 1) == 0) = true then _ else _) = _
    have : (0 + (es.length + 1) == 0) = false := by simp
    rw [this]
    simp only [List.isEmpty_cons, Bool.false_eq_true, if_false, Nat.zero_add]

theorem gen_isConverged (g : RG.Graph) (conv : α) (mu : CliqueVec α) :
    RGG.isConverged g.cliques g.children conv mu = RG.isConverged g conv mu := by
  unfold RGG.isConverged RG.isConverged RGG.pyLe
  rw [gen_primalFeasibility]


/-! ## `hazan_peng_shashua` -/

/-- one pass of the loop body, as regenerated, is the normal form `sweepNF` read with the dictionaries `pot`, `cc` -/
theorem gen_hpsSweep_NF (g : RG.Graph) (pot : CliqueVec α) (c0 : Region → α) (cc : List (Edge × α)) (T rho : α)
    (msgs : Msgs α) (mu0 : CliqueVec α) :
    RGG.hazanPengShashuaSweep g.regions g.children g.parents T rho c0 pot cc (msgs, mu0)
      = sweepNF g (CliqueVec.get pot) c0 (fun p r => RGG.numGet cc (p, r)) T rho msgs := by
  unfold RGG.hazanPengShashuaSweep sweepNF downDict upDict dampDict muDict downMsg upMsg
  simp only [facAdd_pySum, facSub_pySum, msgGet_eq, look_eq, setDiff_eq, get_dictSet_self, dictSet_dictSet, RG.normalise]


/-- the regenerated sweep is the model's, for dictionaries `pot`, `cc` that hold the model's values on the keys read -/
theorem gen_hpsSweep (g : RG.Graph) (potd : CliqueVec α) (pot : Region → Factor α) (c0 : Region → α) (cc : List (Edge × α))
    (T rho : α) (msgs : Msgs α) (mu0 : CliqueVec α)
    (hr : ∀ r ∈ g.regions, potd.get r = pot r)
    (hp : ∀ r ∈ g.regions, ∀ p ∈ RG.look g.parents r, potd.get p = pot p)
    (hc : ∀ r ∈ g.regions, ∀ p ∈ RG.look g.parents r, RGG.numGet cc (p, r) = ccOf g c0 p r) :
    RGG.hazanPengShashuaSweep g.regions g.children g.parents T rho c0 potd cc (msgs, mu0) = RG.hpsSweep g pot c0 T rho msgs := by
  rw [gen_hpsSweep_NF, hpsSweep_eq_NF]
  exact sweepNF_congr g _ _ c0 _ _ T rho msgs hr hp hc

/-- the loop `for _ in range(self.iters)` with its early exit (the model also counts the sweeps: third component) -/
theorem gen_hpsLoop (g : RG.Graph) (potd : CliqueVec α) (pot : Region → Factor α) (c0 : Region → α) (cc : List (Edge × α))
    (T rho conv : α)
    (hr : ∀ r ∈ g.regions, potd.get r = pot r)
    (hp : ∀ r ∈ g.regions, ∀ p ∈ RG.look g.parents r, potd.get p = pot p)
    (hc : ∀ r ∈ g.regions, ∀ p ∈ RG.look g.parents r, RGG.numGet cc (p, r) = ccOf g c0 p r)
    (n done : Nat) (msgs : Msgs α) (mu : CliqueVec α) :
    RGG.hazanPengShashuaLoop g.regions g.cliques g.children g.parents T rho conv c0 potd cc n (msgs, mu)
      = ((RG.hpsLoop g pot c0 T rho conv n done msgs mu).1, (RG.hpsLoop g pot c0 T rho conv n done msgs mu).2.1) := by
  induction n generalizing done msgs mu with
  | zero => rfl
  | succ n ih =>
    rw [RGG.hazanPengShashuaLoop, RG.hpsLoop, gen_hpsSweep g potd pot c0 cc T rho msgs mu hr hp hc]
    generalize RG.hpsSweep g pot c0 T rho msgs = out
    obtain ⟨m, mu'⟩ := out
    simp only [gen_isConverged]
    by_cases h : RG.isConverged g conv mu' = true
    · simp only [h, if_true]
    · simp only [h, if_false, Bool.false_eq_true]
      exact ih (done + 1) m mu'

/-- the dictionary `pot` of lines 290-293 holds the model's `potOf` on every region -/
theorem potDict_get (dom : Dom) (g : RG.Graph) (potentials : CliqueVec α) (r : Region) (hr : r ∈ g.regions) :
    CliqueVec.get (g.regions.foldl (fun (pot : CliqueVec α) (r : Region) =>
      CliqueVec.set pot r (if (List.contains g.cliques r) then (CliqueVec.get potentials r) else (Factor.zeros (Dom.project dom r)))) []) r
      = potOf dom g potentials r := by
  have h := lookup_foldl_dictSet (fun r => if (List.contains g.cliques r) then (CliqueVec.get potentials r) else (Factor.zeros (α := α) (Dom.project dom r)))
    g.regions [] r (Or.inl hr)
  have e : (g.regions.foldl (fun (pot : CliqueVec α) (r : Region) =>
      CliqueVec.set pot r (if (List.contains g.cliques r) then (CliqueVec.get potentials r) else (Factor.zeros (Dom.project dom r)))) [])
      = (g.regions.foldl (fun d k => dictSet d k (if (List.contains g.cliques k) then (CliqueVec.get potentials k) else (Factor.zeros (Dom.project dom k)))) []) := rfl
  have hg : ∀ (cv : CliqueVec α) (f : Factor α), cv.lookup r = some f → cv.get r = f := by
    intro cv f hh
    unfold CliqueVec.get
    rw [hh]
  rw [e, hg _ _ h]
  rfl

/-- the dictionary `cc` of lines 301-304 holds the model's `ccOf` on every edge -/
theorem ccDict_get (g : RG.Graph) (c0 : Region → α) (r p : Region) (hr : r ∈ g.regions) (hp : p ∈ RG.look g.parents r) :
    RGG.numGet (g.regions.foldl (fun (cc : List (Edge × α)) (r : Region) =>
      (RG.look g.parents r).foldl (fun (cc : List (Edge × α)) (p : Region) =>
        dictSet cc (p, r) (Scalar.div (c0 p) (Scalar.add (c0 r) (((RG.look g.parents r).map (fun p1 => c0 p1)).foldl Scalar.add Scalar.zero)))) cc) []) (p, r)
      = ccOf g c0 p r := by
  have h := lookup_foldl2_dictSet (fun (k : Edge) => Scalar.div (c0 k.1) (Scalar.add (c0 k.2) (((RG.look g.parents k.2).map (fun p1 => c0 p1)).foldl Scalar.add Scalar.zero)))
    g.regions (fun r => RG.look g.parents r) (fun r p => (p, r)) r p hr hp
  unfold RGG.numGet
  rw [h]
  rfl

/-- **`hazan_peng_shashua` as regenerated is the model's `RG.hps`** (returned CliqueVector and final `self.messages`), on
every graph whose parent lists stay inside the region list (`pot[p]` is a KeyError otherwise) -/
theorem gen_hps (dom : Dom) (g : RG.Graph) (c0 : Region → α) (potentials : CliqueVec α) (T rho conv : α) (iters : Nat)
    (msgs : Msgs α) (hpar : ∀ r ∈ g.regions, ∀ p ∈ RG.look g.parents r, p ∈ g.regions) :
    RGG.hazanPengShashua dom g.regions g.cliques g.children g.parents c0 T rho conv iters potentials msgs
      = ((RG.hps dom g c0 potentials T iters rho conv msgs).1, (RG.hps dom g c0 potentials T iters rho conv msgs).2.1) := by
  unfold RGG.hazanPengShashua RG.hps
  apply gen_hpsLoop
  · intro r hr
    exact potDict_get dom g potentials r hr
  · intro r hr p hp
    exact potDict_get dom g potentials p (hpar r hr p hp)
  · intro r hr p hp
    exact ccDict_get g c0 r p hr hp

theorem gen_hps_pre (iters : Nat) : RGG.hazanPengShashua_pre iters = RG.preHps iters := rfl


/-! ## `generalized_belief_propagation` -/

theorem gen_gbpSweep_NF (g : RG.Graph) (potd : CliqueVec α) (msgs : Msgs α) :
    RGG.generalizedBeliefPropagationSweep g.N g.D g.messageOrder potd msgs = gbpSweepNF g (CliqueVec.get potd) msgs := by
  unfold RGG.generalizedBeliefPropagationSweep gbpSweepNF gbpNew gbpDamp
  simp only [facAdd_pySum, facSub_pySum, msgGet_eq, look_eq, setDiff_eq, get_dictSet_self, dictSet_dictSet]
  rfl

/-- one pass of the loop body, as regenerated, is the model's `gbpSweep` for a dictionary `pot` that holds the model's values
at the sources of the message order -/
theorem gen_gbpSweep (g : RG.Graph) (potd : CliqueVec α) (pot : Region → Factor α) (msgs : Msgs α)
    (h : ∀ e ∈ g.messageOrder, potd.get e.1 = pot e.1) :
    RGG.generalizedBeliefPropagationSweep g.N g.D g.messageOrder potd msgs = RG.gbpSweep g pot msgs := by
  rw [gen_gbpSweep_NF, gbpSweep_eq_NF]
  exact gbpSweepNF_congr g _ _ msgs h

theorem gen_gbpLoop (g : RG.Graph) (potd : CliqueVec α) (pot : Region → Factor α) (potentials : CliqueVec α) (T : α)
    (h : ∀ e ∈ g.messageOrder, potd.get e.1 = pot e.1) (n : Nat) (msgs : Msgs α) :
    RGG.generalizedBeliefPropagationLoop g.cliques g.N g.D g.B g.messageOrder T potentials potd n msgs
      = gbpExit g potentials T (iterate (gbpSweep g pot) n msgs) := by
  induction n generalizing msgs with
  | zero =>
    unfold RGG.generalizedBeliefPropagationLoop gbpExit
    simp only [facAdd_pySum, msgGet_eq, look_eq, RG.normalise]
    rfl
  | succ n ih =>
    rw [RGG.generalizedBeliefPropagationLoop, gen_gbpSweep g potd pot msgs h]
    exact ih _

/-- **`generalized_belief_propagation` as regenerated is the model's `RG.gbp`** (returned CliqueVector and final
`self.messages`), on every graph whose message order starts at regions (`pot[ru]` is a KeyError otherwise) -/
theorem gen_gbp (dom : Dom) (g : RG.Graph) (potentials : CliqueVec α) (T : α) (iters : Nat) (msgs : Msgs α)
    (hsrc : ∀ e ∈ g.messageOrder, e.1 ∈ g.regions) :
    RGG.generalizedBeliefPropagation dom g.regions g.cliques g.N g.D g.B g.messageOrder T iters potentials msgs
      = RG.gbp dom g potentials T iters msgs := by
  rw [gbp_eq_exit]
  unfold RGG.generalizedBeliefPropagation
  apply gen_gbpLoop
  intro e he
  exact potDict_get dom g potentials e.1 (hsrc e he)


/-! ## the C17 / C16 theorems for the GENERATED definitions (real-number instance) -/

section main
open PGM.Convex PGM.Oracle

/-- the regenerated `hazan_peng_shashua` on the fields of a graph record, unit counting numbers (`convex=True`) -/
noncomputable abbrev genHps (dom : Dom) (g : RG.Graph) (potentials : CliqueVec ℝ) (T rho conv : ℝ) (iters : Nat) (msgs : Msgs ℝ) :
    CliqueVec ℝ × Msgs ℝ :=
  RGG.hazanPengShashua dom g.regions g.cliques g.children g.parents (fun _ => (1 : ℝ)) T rho conv iters potentials msgs

/-- the regenerated `generalized_belief_propagation` on the fields of a graph record -/
noncomputable abbrev genGbp (dom : Dom) (g : RG.Graph) (potentials : CliqueVec ℝ) (T : ℝ) (iters : Nat) (msgs : Msgs ℝ) :
    CliqueVec ℝ × Msgs ℝ :=
  RGG.generalizedBeliefPropagation dom g.regions g.cliques g.N g.D g.B g.messageOrder T iters potentials msgs

theorem parents_in_of_shape {dom : Dom} {g : RG.Graph} {pot : Region → Factor ℝ} {msgs : Msgs ℝ} (hs : Shape dom g pot msgs) :
    ∀ r ∈ g.regions, ∀ p ∈ RG.look g.parents r, p ∈ g.regions :=
  fun r hr p hp => ((hs.parents_dual r hr p).mp hp).1

/-- `belief_lagrangian_form` for the regenerated sweep: what one pass of the loop body of the SOURCE leaves in `mu` is
`total · softmax(θ̃_r)` for the messages it leaves in `self.messages` (`cc` any dictionary holding the `cc[p,r]` of the source) -/
theorem gen_belief_lagrangian_form (g : RG.Graph) (potd : CliqueVec ℝ) (cc : List (Edge × ℝ)) (T rho : ℝ) (msgs : Msgs ℝ)
    (mu0 : CliqueVec ℝ) (hnd : g.regions.Nodup)
    (hc : ∀ r ∈ g.regions, ∀ p ∈ RG.look g.parents r, RGG.numGet cc (p, r) = ccOf g (fun _ => (1 : ℝ)) p r) :
    (RGG.hazanPengShashuaSweep g.regions g.children g.parents T rho (fun _ => (1 : ℝ)) potd cc (msgs, mu0)).2.map (fun p => (p.1, p.2.datavector))
      = (lagrangianBeliefs g potd.get T
          (RGG.hazanPengShashuaSweep g.regions g.children g.parents T rho (fun _ => (1 : ℝ)) potd cc (msgs, mu0)).1).map
            (fun p => (p.1, p.2.datavector)) := by
  rw [gen_hpsSweep g potd potd.get (fun _ => (1 : ℝ)) cc T rho msgs mu0 (fun _ _ => rfl) (fun _ _ _ _ => rfl) hc]
  exact C17.belief_lagrangian_form g potd.get T rho msgs hnd

/-- **`hps_certificate_warm` for the regenerated `hazan_peng_shashua`**: for any graph, potentials and persisted messages
satisfying `Shape ∧ MsgsDown`, the pair (CliqueVector, final `self.messages`) computed by the SOURCE satisfies (1) beliefs
`= b(λ_out)`, (2) `Shape`, (3) `MsgsDown` for `λ_out`, (4) weak duality, (5) zero gap and optimality at consistency -/
theorem gen_hps_certificate_warm (dom : Dom) (g : RG.Graph) (potentials : CliqueVec ℝ)
    (T rho conv : ℝ) (iters : Nat) (msgs : Msgs ℝ) (hT : 0 < T) (hit : 0 < iters)
    (hs : Shape dom g (potOf dom g potentials) msgs) (hd : MsgsDown dom g msgs) :
    let pot := potOf dom g potentials
    let out := genHps dom g potentials T rho conv iters msgs
    out.1.map (fun p => (p.1, p.2.datavector))
        = (lagrangianBeliefs g pot T out.2).map (fun p => (p.1, p.2.datavector)) ∧
    Shape dom g pot out.2 ∧
    MsgsDown dom g out.2 ∧
    (∀ q, LocallyConsistent dom g T q → primalValue g pot T q ≤ dualValue g pot T out.2) ∧
    (LocallyConsistent dom g T (lagrangianBeliefs g pot T out.2) →
      primalValue g pot T (lagrangianBeliefs g pot T out.2) = dualValue g pot T out.2 ∧
      ∀ q, LocallyConsistent dom g T q →
        primalValue g pot T q ≤ primalValue g pot T (lagrangianBeliefs g pot T out.2)) := by
  have h := C17.hps_certificate_warm dom g potentials T rho conv iters msgs hT hit hs hd
  unfold genHps
  rw [gen_hps dom g (fun _ => (1 : ℝ)) potentials T rho conv iters msgs (parents_in_of_shape hs)]
  exact h

/-- **`hps_certificate_checked` for the regenerated code**: cold start on any exported graph that passes `RG.graphCheck` -/
theorem gen_hps_certificate_checked (dom : Dom) (g : RG.Graph) (potentials : CliqueVec ℝ)
    (T rho conv : ℝ) (iters : Nat) (hT : 0 < T) (hit : 0 < iters)
    (hchk : graphCheck dom g = true)
    (hp : ∀ r ∈ g.regions, g.cliques.contains r = true →
      (potentials.get r).WF ∧ (potentials.get r).dom = dom.project r) :
    let pot := potOf dom g potentials
    let out := genHps dom g potentials T rho conv iters (initMessages dom g.messageOrder)
    out.1.map (fun p => (p.1, p.2.datavector))
        = (lagrangianBeliefs g pot T out.2).map (fun p => (p.1, p.2.datavector)) ∧
    Shape dom g pot out.2 ∧
    MsgsDown dom g out.2 ∧
    (∀ q, LocallyConsistent dom g T q → primalValue g pot T q ≤ dualValue g pot T out.2) ∧
    (LocallyConsistent dom g T (lagrangianBeliefs g pot T out.2) →
      primalValue g pot T (lagrangianBeliefs g pot T out.2) = dualValue g pot T out.2 ∧
      ∀ q, LocallyConsistent dom g T q →
        primalValue g pot T q ≤ primalValue g pot T (lagrangianBeliefs g pot T out.2)) := by
  have h := C17.hps_certificate_checked dom g potentials T rho conv iters hT hit hchk hp
  have hb := (C17.graphCheck_sound hchk).2.2.2.2
  unfold genHps
  rw [gen_hps dom g (fun _ => (1 : ℝ)) potentials T rho conv iters _ (fun r hr p hp => ((hb.parents_dual r hr p).mp hp).1)]
  exact h

/-- **`hps_certificate` for the regenerated code** on `g = RG.build cliques true minimal`, cold start -/
theorem gen_hps_certificate (dom : Dom) (cliques : List Region) (minimal : Bool) (potentials : CliqueVec ℝ)
    (T rho conv : ℝ) (iters : Nat) (hT : 0 < T) (hit : 0 < iters)
    (hd : dom.WF) (hsz : ∀ p ∈ dom, 0 < p.2) (hcl : ∀ c ∈ cliques, c.Nodup ∧ ∀ a ∈ c, a ∈ dom.attrs)
    (hp : ∀ r ∈ (RG.build cliques true minimal).regions,
      (potentials.get r).WF ∧ (potentials.get r).dom = dom.project r) :
    let g := RG.build cliques true minimal
    let pot := potOf dom g potentials
    let out := genHps dom g potentials T rho conv iters (initMessages dom g.messageOrder)
    out.1.map (fun p => (p.1, p.2.datavector))
        = (lagrangianBeliefs g pot T out.2).map (fun p => (p.1, p.2.datavector)) ∧
    Shape dom g pot out.2 ∧
    (∀ q, LocallyConsistent dom g T q → primalValue g pot T q ≤ dualValue g pot T out.2) ∧
    (LocallyConsistent dom g T (lagrangianBeliefs g pot T out.2) →
      primalValue g pot T (lagrangianBeliefs g pot T out.2) = dualValue g pot T out.2) := by
  have h := C17.hps_certificate dom cliques minimal potentials T rho conv iters hT hit hd hsz hcl hp
  have hpar := parents_in_of_shape h.2.1
  intro g pot
  have e := gen_hps dom g (fun _ => (1 : ℝ)) potentials T rho conv iters (initMessages dom g.messageOrder) hpar
  unfold genHps
  rw [e]
  exact h

theorem gen_hps_tables_normalised (dom : Dom) (g : RG.Graph) (counting : Region → ℝ) (pots : CliqueVec ℝ)
    (T : ℝ) (iters : Nat) (rho conv : ℝ) (msgs : Msgs ℝ)
    (hpar : ∀ r ∈ g.regions, ∀ p ∈ RG.look g.parents r, p ∈ g.regions) (p : Clique × Factor ℝ)
    (hp : p ∈ (RGG.hazanPengShashua dom g.regions g.cliques g.children g.parents counting T rho conv iters pots msgs).1) :
    ∃ b : Factor ℝ, p.2 = RG.normalise T b := by
  rw [gen_hps dom g counting pots T rho conv iters msgs hpar] at hp
  exact C17.hps_tables_normalised dom g counting pots T iters rho conv msgs p hp

theorem gen_hps_keys (dom : Dom) (g : RG.Graph) (counting : Region → ℝ) (pots : CliqueVec ℝ)
    (T : ℝ) (iters : Nat) (rho conv : ℝ) (msgs : Msgs ℝ) (hi : 0 < iters) (hnd : g.regions.Nodup)
    (hpar : ∀ r ∈ g.regions, ∀ p ∈ RG.look g.parents r, p ∈ g.regions) :
    (RGG.hazanPengShashua dom g.regions g.cliques g.children g.parents counting T rho conv iters pots msgs).1.map Prod.fst = g.regions := by
  rw [gen_hps dom g counting pots T rho conv iters msgs hpar]
  exact C17.hps_keys dom g counting pots T iters rho conv msgs hi hnd

/-- **the regenerated convex oracle returns valid tables** (finite, positive, summing to `T`) -/
theorem gen_hps_tables_valid_pos (dom : Dom) (g : RG.Graph) (counting : Region → ℝ) (pots : CliqueVec ℝ)
    (T : ℝ) (iters : Nat) (rho conv : ℝ) (msgs : Msgs ℝ) (hT : 0 < T)
    (hpar : ∀ r ∈ g.regions, ∀ p ∈ RG.look g.parents r, p ∈ g.regions)
    (hpot : ∀ r ∈ g.regions, PosDom (RG.potOf dom g pots r).dom ∧
      ∀ p ∈ RG.look g.parents r, PosDom (RG.potOf dom g pots p).dom)
    (hsz : ∀ r ∈ g.regions, (RG.potOf dom g pots r).vals.data.size ≠ 0)
    (hm : PosMsgs msgs)
    (p : Clique × Factor ℝ)
    (hp : p ∈ (RGG.hazanPengShashua dom g.regions g.cliques g.children g.parents counting T rho conv iters pots msgs).1) :
    ValidTable T p.2 := by
  rw [gen_hps dom g counting pots T rho conv iters msgs hpar] at hp
  exact C17.hps_tables_valid_pos dom g counting pots T iters rho conv msgs hT hpot hsz hm p hp

/-! ### C16: generalised propagation -/

theorem gen_gbp_tables_normalised (dom : Dom) (g : RG.Graph) (pots : CliqueVec ℝ) (T : ℝ) (iters : Nat)
    (msgs : Msgs ℝ) (hsrc : ∀ e ∈ g.messageOrder, e.1 ∈ g.regions) (p : Clique × Factor ℝ)
    (hp : p ∈ (genGbp dom g pots T iters msgs).1) :
    ∃ b : Factor ℝ, p.2 = RG.normalise T b := by
  unfold genGbp at hp
  rw [gen_gbp dom g pots T iters msgs hsrc] at hp
  exact C16.gbp_tables_normalised dom g pots T iters msgs p hp

theorem gen_gbp_keys (dom : Dom) (g : RG.Graph) (pots : CliqueVec ℝ) (T : ℝ) (iters : Nat) (msgs : Msgs ℝ)
    (hsrc : ∀ e ∈ g.messageOrder, e.1 ∈ g.regions) (hnd : g.cliques.Nodup) :
    (genGbp dom g pots T iters msgs).1.map Prod.fst = g.cliques := by
  unfold genGbp
  rw [gen_gbp dom g pots T iters msgs hsrc]
  exact C16.gbp_keys dom g pots T iters msgs hnd

/-- **the regenerated generalised propagation returns valid tables** -/
theorem gen_gbp_tables_valid_pos (dom : Dom) (g : RG.Graph) (pots : CliqueVec ℝ) (T : ℝ) (iters : Nat)
    (msgs : Msgs ℝ) (hT : 0 < T) (hsrc : ∀ e ∈ g.messageOrder, e.1 ∈ g.regions)
    (hpot : ∀ e ∈ g.messageOrder, PosDom (RG.potOf dom g pots e.1).dom)
    (hcl : ∀ r ∈ g.cliques, PosDom (pots.get r).dom ∧ (pots.get r).vals.data.size ≠ 0)
    (hm : PosMsgs msgs)
    (p : Clique × Factor ℝ) (hp : p ∈ (genGbp dom g pots T iters msgs).1) : ValidTable T p.2 := by
  unfold genGbp at hp
  rw [gen_gbp dom g pots T iters msgs hsrc] at hp
  exact C16.gbp_tables_valid_pos dom g pots T iters msgs hT hpot hcl hm p hp

/-- the same from the initial messages, hypotheses on the inputs only -/
theorem gen_gbp_tables_valid_init (dom : Dom) (g : RG.Graph) (pots : CliqueVec ℝ) (T : ℝ) (iters : Nat)
    (hT : 0 < T) (hdom : PosDom dom) (hsrc : ∀ e ∈ g.messageOrder, e.1 ∈ g.regions)
    (hord : ∀ e ∈ g.messageOrder, (∀ a ∈ e.1, a ∈ dom.attrs) ∧ (∀ a ∈ e.2, a ∈ dom.attrs))
    (hcl : ∀ r ∈ g.cliques, PosDom (pots.get r).dom ∧ (pots.get r).vals.data.size ≠ 0)
    (p : Clique × Factor ℝ)
    (hp : p ∈ (genGbp dom g pots T iters (RG.initMessages dom g.messageOrder)).1) : ValidTable T p.2 := by
  unfold genGbp at hp
  rw [gen_gbp dom g pots T iters _ hsrc] at hp
  exact C16.gbp_tables_valid_init dom g pots T iters hT hdom hord hcl p hp

/-- exactness where nothing is shared, for the regenerated code: pairwise disjoint cliques, any message state (the graph has
no edge, so the message order is empty and `hsrc` holds trivially — shown through the model's own theorem) -/
theorem gen_gbp_disjoint_msgs (dom : Dom) (cliques : List Clique) (pots : CliqueVec ℝ) (T : ℝ) (iters : Nat)
    (msgs : Msgs ℝ)
    (hd : Disjoint cliques) (hnd : cliques.Nodup) (hne : ∀ c ∈ cliques, c ≠ [])
    (hsrc : ∀ e ∈ (RG.build cliques false true).messageOrder, e.1 ∈ (RG.build cliques false true).regions)
    (c : Clique) (hc : c ∈ cliques) :
    ((genGbp dom (RG.build cliques false true) pots T iters msgs).1.get c).datavector
      = (RG.normalise T (pots.get c)).datavector := by
  unfold genGbp
  rw [gen_gbp dom _ pots T iters msgs hsrc]
  exact C16.gbp_disjoint_msgs dom cliques pots T iters msgs hd hnd hne c hc

end main

/-! ## the hypotheses are satisfiable: a graph with shared sub-regions -/

/-- `{A,B}`, `{B,C}`, `{B}` in that order: `buildOn` gives a graph whose parent lists stay inside the region list and whose
message order starts at regions — the hypotheses `hpar` / `hsrc` of `gen_hps` / `gen_gbp` -/
example : let g := RG.buildOn [["A", "B"], ["B", "C"], ["B"]] true true
    (∀ r ∈ g.regions, ∀ p ∈ RG.look g.parents r, p ∈ g.regions) ∧ (∀ e ∈ g.messageOrder, e.1 ∈ g.regions) ∧
      g.messageOrder = [(["A", "B"], ["B"]), (["B", "C"], ["B"])] := by
  decide

example : let g := RG.buildOn [["A", "B"], ["B", "C"], ["B"]] false true
    (∀ e ∈ g.messageOrder, e.1 ∈ g.regions) ∧ g.messageOrder.length = 2 := by
  decide


/-! ## `__init__` (clique list handed to `build_graph`) and the last block of `build_graph` -/

theorem gen_ssubset (a b : Region) : RGG.ssubset a b = RG.ssubset a b := rfl
theorem gen_sortByLen (l : List Region) : RGG.sortByLen l = RG.sortByLen l := rfl

/-- lines 14-19 of `__init__`: with `convex=False` only the cliques not strictly contained in another one are kept -/
theorem gen_initCliques (cliques : List Region) (convex : Bool) :
    RGG.initCliques cliques convex = RG.initCliques cliques convex := by
  unfold RGG.initCliques RG.initCliques
  cases convex
  · have h := foldl_append_if (fun r => !(List.any (cliques.map (fun s => RGG.ssubset r s)) id)) cliques []
    simp only [Bool.not_false, if_true, Bool.false_eq_true, if_false]
    rw [List.nil_append] at h
    rw [show (cliques.filter fun r => !cliques.any fun s => RG.ssubset r s)
        = cliques.filter (fun r => !(List.any (cliques.map (fun s => RGG.ssubset r s)) id)) from by
      congr 1
      funext r
      rw [List.any_map]
      rfl]
    exact h
  · rfl

/-- lines 242-248 of `build_graph`: the message order is the model's (`buildOn … .messageOrder` is this expression) -/
theorem gen_initMessages_order (dom : Dom) (regions : List Region) (children : List (Region × List Region)) :
    (RGG.initMessages (α := α) dom regions children).2
      = (RG.sortByLen regions).flatMap (fun ru => (RG.look children ru).map (fun rd => (ru, rd))) ∧
    (RGG.initMessages (α := α) dom regions children)
      = ((RG.sortByLen regions).flatMap (fun ru => (RG.look children ru).map (fun rd => (ru, rd)))).foldl (initStep dom) ([], []) := by
  have e : (RGG.initMessages (α := α) dom regions children)
      = ((RG.sortByLen regions).flatMap (fun ru => (RG.look children ru).map (fun rd => (ru, rd)))).foldl (initStep dom) ([], []) := by
    rw [List.foldl_flatMap]
    unfold RGG.initMessages
    show (RG.sortByLen regions).foldl _ _ = _
    congr 1
    funext st ru
    rw [List.foldl_map]
    rfl
  refine ⟨?_, e⟩
  rw [e]
  have h : ∀ (es : List Edge) (m : Msgs α) (mo : List Edge), (es.foldl (initStep dom) (m, mo)).2 = mo ++ es := by
    intro es
    induction es with
    | nil => intro m mo; simp
    | cons x xs ih =>
      intro m mo
      rw [List.foldl_cons]
      show (xs.foldl (initStep dom) (_, mo ++ [x])).2 = _
      rw [ih]
      simp
  rw [h]
  rfl

/-- … and the message dictionary is the model's `RG.initMessages` of that order, whenever no edge occurs twice or in both
directions (then every store is to a fresh key; holds for every `build_graph` graph: `BuiltOK.antisymm`, `children_nodup`) -/
theorem gen_initMessages (dom : Dom) (regions : List Region) (children : List (Region × List Region))
    (h : (((RG.sortByLen regions).flatMap (fun ru => (RG.look children ru).map (fun rd => (ru, rd)))).flatMap edgeKeys).Nodup) :
    RGG.initMessages (α := α) dom regions children
      = (RG.initMessages dom ((RG.sortByLen regions).flatMap (fun ru => (RG.look children ru).map (fun rd => (ru, rd)))),
         (RG.sortByLen regions).flatMap (fun ru => (RG.look children ru).map (fun rd => (ru, rd)))) := by
  rw [(gen_initMessages_order dom regions children).2, foldl_initStep dom _ [] [] (by simpa using h)]
  simp only [List.nil_append]
  rfl

/-- the hypothesis of `gen_initMessages` on a graph with shared sub-regions -/
example : let g := RG.buildOn [["A", "B"], ["B", "C"], ["B"]] true true
    (((RG.sortByLen g.regions).flatMap (fun ru => (RG.look g.children ru).map (fun rd => (ru, rd)))).flatMap edgeKeys).Nodup := by
  decide

/-- the stores are NOT appends when an edge is listed twice: Python keeps one entry per key, `RG.initMessages` lists it twice -/
theorem initMessages_needs_nodup :
    (RGG.initMessages (α := ExtQ) [("A", 2)] [["A", "B"]] [(["A", "B"], [["A"], ["A"]])]).1.length = 2 ∧
    (RG.initMessages (α := ExtQ) [("A", 2)] [(["A", "B"], ["A"]), (["A", "B"], ["A"])]).length = 4 := by
  decide


/-! ## `build_graph` from `G = nx.DiGraph()` on: the regenerated graph is the model's `RG.buildOn` -/

/-- convex, minimal: children / parents / descendants / ancestors / counting numbers are the model's, and the last block is
`RGG.initMessages` (identified with the model in `gen_initMessages`) -/
theorem gen_buildGraphCM (dom : Dom) (regions : List Region) (hnd : regions.Nodup) :
    RGG.buildGraphCM (α := α) dom regions
      = ((RG.buildOn regions true true).children, (RG.buildOn regions true true).parents, (RG.buildOn regions true true).descendants,
         (RG.buildOn regions true true).ancestors, (RG.buildOn regions true true).counting,
         RGG.initMessages dom regions (RG.buildOn regions true true).children) := by
  unfold RGG.buildGraphCM
  simp only [addNodes_empty, coverFold_eq, RGG.nxNeighbors, RGG.nxRevNeighbors, RGG.nxTCNeighbors, RGG.nxTCRevNeighbors, RGG.nxEdges,
    edgesOf_coverEdges regions hnd, look_eq, minFold_eq, RGG.DiGraph.addEdges, List.nil_append]
  rfl


/-- convex, saturated (`minimal=False`) -/
theorem gen_buildGraphCS (dom : Dom) (regions : List Region) (hnd : regions.Nodup) :
    RGG.buildGraphCS (α := α) dom regions
      = ((RG.buildOn regions true false).children, (RG.buildOn regions true false).parents, (RG.buildOn regions true false).descendants,
         (RG.buildOn regions true false).ancestors, (RG.buildOn regions true false).counting,
         RGG.initMessages dom regions (RG.buildOn regions true false).children) := by
  unfold RGG.buildGraphCS
  simp only [addNodes_empty, coverFold_eq, RGG.nxNeighbors, RGG.nxRevNeighbors, RGG.nxTCNeighbors, RGG.nxTCRevNeighbors, RGG.nxEdges,
    edgesOf_coverEdges regions hnd, look_eq, List.nil_append]
  rfl

/-- non-convex, minimal: the graph skeleton (the counting numbers and N / D / B are components 5-8) -/
theorem gen_buildGraphNM_skeleton (dom : Dom) (regions : List Region) (fuel : Nat) (hnd : regions.Nodup) :
    let out := RGG.buildGraphNM (α := α) dom regions fuel
    let g := RG.buildOn regions false true
    out.1 = g.children ∧ out.2.1 = g.parents ∧ out.2.2.1 = g.descendants ∧ out.2.2.2.1 = g.ancestors ∧
      out.2.2.2.2.2.2.2.2 = RGG.initMessages dom regions g.children := by
  intro out g
  show (RGG.buildGraphNM (α := α) dom regions fuel).1 = _ ∧ (RGG.buildGraphNM (α := α) dom regions fuel).2.1 = _ ∧
    (RGG.buildGraphNM (α := α) dom regions fuel).2.2.1 = _ ∧ (RGG.buildGraphNM (α := α) dom regions fuel).2.2.2.1 = _ ∧
    (RGG.buildGraphNM (α := α) dom regions fuel).2.2.2.2.2.2.2.2 = _
  unfold RGG.buildGraphNM
  simp only [addNodes_empty, coverFold_eq, RGG.nxNeighbors, RGG.nxRevNeighbors, RGG.nxTCNeighbors, RGG.nxTCRevNeighbors, RGG.nxEdges,
    edgesOf_coverEdges regions hnd, look_eq, minFold_eq, RGG.DiGraph.addEdges, List.nil_append]
  exact ⟨rfl, rfl, rfl, rfl, rfl⟩

/-- non-convex, saturated -/
theorem gen_buildGraphNS_skeleton (dom : Dom) (regions : List Region) (fuel : Nat) (hnd : regions.Nodup) :
    let out := RGG.buildGraphNS (α := α) dom regions fuel
    let g := RG.buildOn regions false false
    out.1 = g.children ∧ out.2.1 = g.parents ∧ out.2.2.1 = g.descendants ∧ out.2.2.2.1 = g.ancestors ∧
      out.2.2.2.2.2.2.2.2 = RGG.initMessages dom regions g.children := by
  intro out g
  show (RGG.buildGraphNS (α := α) dom regions fuel).1 = _ ∧ (RGG.buildGraphNS (α := α) dom regions fuel).2.1 = _ ∧
    (RGG.buildGraphNS (α := α) dom regions fuel).2.2.1 = _ ∧ (RGG.buildGraphNS (α := α) dom regions fuel).2.2.2.1 = _ ∧
    (RGG.buildGraphNS (α := α) dom regions fuel).2.2.2.2.2.2.2.2 = _
  unfold RGG.buildGraphNS
  simp only [addNodes_empty, coverFold_eq, RGG.nxNeighbors, RGG.nxRevNeighbors, RGG.nxTCNeighbors, RGG.nxTCRevNeighbors, RGG.nxEdges,
    edgesOf_coverEdges regions hnd, look_eq, List.nil_append]
  exact ⟨rfl, rfl, rfl, rfl, rfl⟩


/-! ## the certificates with the REGENERATED graph construction feeding the regenerated oracles -/

section built
open PGM.Convex PGM.Oracle

/-- the regenerated `build_graph` with `convex=True` (`minimal` selects the variant) -/
noncomputable def genBuildC (dom : Dom) (regions : List Region) (minimal : Bool) :=
  if minimal then RGG.buildGraphCM (α := ℝ) dom regions else RGG.buildGraphCS (α := ℝ) dom regions

/-- `self.messages` / `self.message_order` of the regenerated `build_graph` are the model's `initMessages` / `messageOrder`
on every `buildOn` graph (regions without repetition) -/
theorem gen_initMessages_buildOn (dom : Dom) (regions : List Region) (convex minimal : Bool) (hnd : regions.Nodup) :
    RGG.initMessages (α := α) dom regions (RG.buildOn regions convex minimal).children
      = (RG.initMessages dom (RG.buildOn regions convex minimal).messageOrder, (RG.buildOn regions convex minimal).messageOrder) := by
  have hok := buildOn_ok regions convex minimal hnd
  exact gen_initMessages dom regions _ (order_keys_nodup regions _ hnd hok.children_nodup
    (fun r hr c hc => (hok.children_sub r hr c hc).1) hok.antisymm)

theorem gen_buildGraphC (dom : Dom) (regions : List Region) (minimal : Bool) (hnd : regions.Nodup) :
    genBuildC dom regions minimal
      = ((RG.buildOn regions true minimal).children, (RG.buildOn regions true minimal).parents, (RG.buildOn regions true minimal).descendants,
         (RG.buildOn regions true minimal).ancestors, (RG.buildOn regions true minimal).counting,
         RG.initMessages dom (RG.buildOn regions true minimal).messageOrder, (RG.buildOn regions true minimal).messageOrder) := by
  unfold genBuildC
  cases minimal
  · simp only [Bool.false_eq_true, if_false]
    rw [gen_buildGraphCS dom regions hnd, gen_initMessages_buildOn dom regions true false hnd]
  · simp only [if_true]
    rw [gen_buildGraphCM dom regions hnd, gen_initMessages_buildOn dom regions true true hnd]

/-- the regenerated counting numbers of the convex graph are 1 on every region -/
theorem gen_counting_convex (dom : Dom) (regions : List Region) (minimal : Bool) (hnd : regions.Nodup) (r : Region) (hr : r ∈ regions) :
    RGG.intGet (genBuildC dom regions minimal).2.2.2.2.1 r = 1 := by
  rw [gen_buildGraphC dom regions minimal hnd]
  show (List.lookup r (regions.map (fun r => (r, (1 : Int))))).getD 0 = 1
  rw [PGM.Convex.lookup_map_self regions (fun _ => (1 : Int)) r hr]
  rfl

/-- **the certificate for the source as a whole** (from `G = nx.DiGraph()` on): the regenerated `build_graph` (convex) run on the
region list, its `children`, `parents`, `self.messages` handed to the regenerated `hazan_peng_shashua` with unit counting numbers
(`gen_counting_convex`), satisfy the conclusions of `hps_certificate_checked` — beliefs in Lagrangian form, `Shape`, `MsgsDown`,
weak duality, optimality at consistency.  Hypotheses on the inputs only. -/
theorem gen_hps_certificate_built (dom : Dom) (regions : List Region) (minimal : Bool) (potentials : CliqueVec ℝ)
    (T rho conv : ℝ) (iters : Nat) (hT : 0 < T) (hit : 0 < iters)
    (hd : dom.WF) (hsz : ∀ p ∈ dom, 0 < p.2) (hnd : regions.Nodup) (hreg : ∀ r ∈ regions, RegOK dom r)
    (hp : ∀ r ∈ regions, (potentials.get r).WF ∧ (potentials.get r).dom = dom.project r) :
    let b := genBuildC dom regions minimal
    let out := RGG.hazanPengShashua dom regions (RGG.sortByLen regions) b.1 b.2.1 (fun _ => (1 : ℝ)) T rho conv iters potentials b.2.2.2.2.2.1
    let g := RG.buildOn regions true minimal
    let pot := potOf dom g potentials
    out.1.map (fun p => (p.1, p.2.datavector))
        = (lagrangianBeliefs g pot T out.2).map (fun p => (p.1, p.2.datavector)) ∧
    Shape dom g pot out.2 ∧
    MsgsDown dom g out.2 ∧
    (∀ q, LocallyConsistent dom g T q → primalValue g pot T q ≤ dualValue g pot T out.2) ∧
    (LocallyConsistent dom g T (lagrangianBeliefs g pot T out.2) →
      primalValue g pot T (lagrangianBeliefs g pot T out.2) = dualValue g pot T out.2 ∧
      ∀ q, LocallyConsistent dom g T q →
        primalValue g pot T q ≤ primalValue g pot T (lagrangianBeliefs g pot T out.2)) := by
  intro b out g pot
  have hb := gen_buildGraphC dom regions minimal hnd
  have hout : out = genHps dom g potentials T rho conv iters (initMessages dom g.messageOrder) := by
    show RGG.hazanPengShashua dom regions (RGG.sortByLen regions) (genBuildC dom regions minimal).1 (genBuildC dom regions minimal).2.1
      (fun _ => (1 : ℝ)) T rho conv iters potentials (genBuildC dom regions minimal).2.2.2.2.2.1 = _
    rw [hb]
    rfl
  rw [hout]
  exact gen_hps_certificate_checked dom g potentials T rho conv iters hT hit
    (C17.buildOn_passes_check dom regions true minimal hd hsz hnd hreg) (fun r hr _ => hp r hr)

/-! ### generalised propagation on the regenerated N / D / B -/

/-- the graph record whose every field the oracles read comes from the regenerated `build_graph` (non-convex): adjacency, counting
numbers, N, D, B, message order; `children0` / `parents0` (model-only book-keeping) are the model's -/
noncomputable def genGraphN (dom : Dom) (regions : List Region) (minimal : Bool) (fuel : Nat) : RG.Graph :=
  let b := if minimal then RGG.buildGraphNM (α := ℝ) dom regions fuel else RGG.buildGraphNS (α := ℝ) dom regions fuel
  { regions := regions, cliques := RGG.sortByLen regions, children := b.1, parents := b.2.1, descendants := b.2.2.1, ancestors := b.2.2.2.1,
    children0 := (RG.buildOn regions false minimal).children0, parents0 := (RG.buildOn regions false minimal).parents0,
    counting := b.2.2.2.2.1, N := b.2.2.2.2.2.1, D := b.2.2.2.2.2.2.1, B := b.2.2.2.2.2.2.2.1, messageOrder := b.2.2.2.2.2.2.2.2.2 }

theorem genGraphN_order (dom : Dom) (regions : List Region) (minimal : Bool) (fuel : Nat) (hnd : regions.Nodup) :
    (genGraphN dom regions minimal fuel).messageOrder = (RG.buildOn regions false minimal).messageOrder ∧
    (genGraphN dom regions minimal fuel).children = (RG.buildOn regions false minimal).children ∧
    (genGraphN dom regions minimal fuel).parents = (RG.buildOn regions false minimal).parents := by
  unfold genGraphN
  cases minimal
  · obtain ⟨h1, h2, _, _, h5⟩ := gen_buildGraphNS_skeleton (α := ℝ) dom regions fuel hnd
    simp only [Bool.false_eq_true, if_false]
    rw [h1, h2, h5, gen_initMessages_buildOn dom regions false false hnd]
    exact ⟨rfl, rfl, rfl⟩
  · obtain ⟨h1, h2, _, _, h5⟩ := gen_buildGraphNM_skeleton (α := ℝ) dom regions fuel hnd
    simp only [if_true]
    rw [h1, h2, h5, gen_initMessages_buildOn dom regions false true hnd]
    exact ⟨rfl, rfl, rfl⟩

theorem genGraphN_src (dom : Dom) (regions : List Region) (minimal : Bool) (fuel : Nat) (hnd : regions.Nodup) :
    ∀ e ∈ (genGraphN dom regions minimal fuel).messageOrder, e.1 ∈ (genGraphN dom regions minimal fuel).regions := by
  rw [(genGraphN_order dom regions minimal fuel hnd).1]
  intro e he
  exact ((buildOn_ok regions false minimal hnd).order_sound e he).1

/-- **C16 for the source as a whole**: the regenerated `generalized_belief_propagation` run on the regenerated graph (its own N, D, B,
message order, initial messages) returns normalised tables … -/
theorem gen_gbp_tables_normalised_built (dom : Dom) (regions : List Region) (minimal : Bool) (fuel : Nat) (pots : CliqueVec ℝ) (T : ℝ)
    (iters : Nat) (msgs : Msgs ℝ) (hnd : regions.Nodup) (p : Clique × Factor ℝ)
    (hp : p ∈ (genGbp dom (genGraphN dom regions minimal fuel) pots T iters msgs).1) :
    ∃ b : Factor ℝ, p.2 = RG.normalise T b :=
  gen_gbp_tables_normalised dom _ pots T iters msgs (genGraphN_src dom regions minimal fuel hnd) p hp

/-- … that are valid (positive, summing to `T`) from the initial messages, under hypotheses on the inputs only -/
theorem gen_gbp_tables_valid_built (dom : Dom) (regions : List Region) (minimal : Bool) (fuel : Nat) (pots : CliqueVec ℝ) (T : ℝ)
    (iters : Nat) (hT : 0 < T) (hdom : PosDom dom) (hnd : regions.Nodup) (hreg : ∀ r ∈ regions, ∀ a ∈ r, a ∈ dom.attrs)
    (hcl : ∀ r ∈ regions, PosDom (pots.get r).dom ∧ (pots.get r).vals.data.size ≠ 0)
    (p : Clique × Factor ℝ)
    (hp : p ∈ (genGbp dom (genGraphN dom regions minimal fuel) pots T iters
      (RG.initMessages dom (genGraphN dom regions minimal fuel).messageOrder)).1) : ValidTable T p.2 := by
  refine gen_gbp_tables_valid_init dom _ pots T iters hT hdom (genGraphN_src dom regions minimal fuel hnd) ?_ ?_ p hp
  · rw [(genGraphN_order dom regions minimal fuel hnd).1]
    intro e he
    have hs := (buildOn_ok regions false minimal hnd).order_sound e he
    have hc := (buildOn_ok regions false minimal hnd).children_sub e.1 hs.1 e.2 hs.2
    exact ⟨hreg e.1 hs.1, hreg e.2 hc.1⟩
  · intro r hr
    exact hcl r ((mem_sortByLen regions r).mp hr)

end built


/-! ## lines 120-127 of `build_graph`: the intersection closure -/

/-- one pass of `for r1, r2 in itertools.combinations(regions, 2)` as regenerated is the model's `closeStep` -/
theorem gen_closeStep (rs : List Region) :
    (GM.combos2 rs).foldl (fun (regions : List Region) (r1r2 : Edge) =>
      if ((decide ((List.length (RG.sortedInter r1r2.1 r1r2.2)) > 0)) && (!(List.contains regions (RG.sortedInter r1r2.1 r1r2.2))))
      then RGG.setAdd regions (RG.sortedInter r1r2.1 r1r2.2) else regions) rs = RG.closeStep rs := by
  unfold RG.closeStep
  apply List.foldl_ext
  intro acc p _
  unfold RGG.setAdd
  by_cases h : RG.sortedInter p.1 p.2 ∈ acc
  · simp [h]
  · simp [h]

/-- the `while` loop: after the first pass, `n` further iterations of the source are `n+1` rounds of the model's `closeLoop`
(the source tests before a pass, the model after it) -/
theorem gen_closureWhile (n : Nat) (R : List Region) :
    (RGG.closureWhile n (RG.closeStep R, R.length)).1 = RG.closeLoop (n + 1) R := by
  induction n generalizing R with
  | zero =>
    show RG.closeStep R = (if (RG.closeStep R).length > R.length then RG.closeLoop 0 (RG.closeStep R) else RG.closeStep R)
    split <;> rfl
  | succ n ih =>
    simp only [RGG.closureWhile, gen_closeStep]
    rw [RG.closeLoop]
    by_cases h : (RG.closeStep R).length > R.length
    · simp only [h, decide_true, if_true]
      exact ih (RG.closeStep R)
    · simp only [h, decide_false, if_false, Bool.false_eq_true]

/-- **the regenerated closure is the model's**, for every bound on the number of passes; with the model's bound it is `RG.closure` -/
theorem gen_closure (cliques : List Region) (n : Nat) :
    RGG.closure cliques (n + 1) = RG.closeLoop (n + 1) (RG.dedup cliques) := by
  unfold RGG.closure RGG.pySet
  simp only [RGG.closureWhile, gen_closeStep]
  by_cases h : (RG.dedup cliques).length > 0
  · simp only [h, decide_true, if_true]
    exact gen_closureWhile n (RG.dedup cliques)
  · have h0 : RG.dedup cliques = [] := by
      cases hd : RG.dedup cliques with
      | nil => rfl
      | cons x xs => rw [hd] at h; simp at h
    simp only [h, decide_false, if_false, Bool.false_eq_true]
    rw [h0]
    rfl

theorem gen_closure_model (cliques : List Region) :
    RGG.closure cliques ((RG.dedup cliques).length + 1) = RG.closure cliques := by
  rw [gen_closure]
  rfl

/-- `__init__` + the closure: the region list the model's `RG.build` hands to `buildOn` -/
theorem gen_build_regions (cliques : List Region) (convex : Bool) :
    RGG.closure (RGG.initCliques cliques convex) ((RG.dedup (RGG.initCliques cliques convex)).length + 1)
      = RG.closure (RG.initCliques cliques convex) := by
  rw [gen_closure_model, gen_initCliques]


/-- **the certificate from the clique list on**: regenerated `__init__` filter (convex: the identity), regenerated closure (with the
model's bound on the passes), regenerated `build_graph`, regenerated `hazan_peng_shashua`.

HOW TO READ THE FOUR CONJUNCTS (independent audit, `audit/scratch/c17_a.lean`: `wrong_oracle_passes`).  Only conjunct 1 is about
the ALGORITHM's output: the tables `hazan_peng_shashua` returns are the Lagrangian beliefs of the messages it returns.
Conjuncts 2–4 — the message state has the `Shape` layout, weak duality `primal(q) ≤ dual(messages)` for every locally consistent
`q`, and zero gap when the beliefs of the messages are themselves locally consistent — hold for EVERY message state with the
layout (e.g. the initial messages after zero sweeps pass them verbatim), not specially for the one the algorithm computes: that is
what a CERTIFICATE is — a bound anyone can check from the returned messages without trusting how they were produced.  They do NOT
say the algorithm converges, nor that its dual value is small; how good the bound is after `iters` sweeps is a per-input test
(C17 check).  Conjunct 1 is what makes the certificate speak about the returned marginals. -/
theorem gen_hps_certificate_source (dom : Dom) (cliques regions : List Region) (minimal : Bool) (potentials : CliqueVec ℝ)
    (T rho conv : ℝ) (iters : Nat) (hT : 0 < T) (hit : 0 < iters)
    (hd : dom.WF) (hsz : ∀ p ∈ dom, 0 < p.2) (hcl : ∀ c ∈ cliques, PGM.Convex.RegOK dom c)
    (hregs : regions = RGG.closure (RGG.initCliques cliques true) ((RG.dedup (RGG.initCliques cliques true)).length + 1))
    (hp : ∀ r ∈ regions, (potentials.get r).WF ∧ (potentials.get r).dom = dom.project r) :
    let b := genBuildC dom regions minimal
    let out := RGG.hazanPengShashua dom regions (RGG.sortByLen regions) b.1 b.2.1 (fun _ => (1 : ℝ)) T rho conv iters potentials b.2.2.2.2.2.1
    let g := RG.build cliques true minimal
    let pot := potOf dom g potentials
    out.1.map (fun p => (p.1, p.2.datavector))
        = (lagrangianBeliefs g pot T out.2).map (fun p => (p.1, p.2.datavector)) ∧
    PGM.Convex.Shape dom g pot out.2 ∧
    (∀ q, PGM.Convex.LocallyConsistent dom g T q → primalValue g pot T q ≤ dualValue g pot T out.2) ∧
    (PGM.Convex.LocallyConsistent dom g T (lagrangianBeliefs g pot T out.2) →
      primalValue g pot T (lagrangianBeliefs g pot T out.2) = dualValue g pot T out.2) := by
  have e : regions = RG.closure (RG.initCliques cliques true) := hregs.trans (gen_build_regions cliques true)
  have hok := PGM.Convex.closure_ok dom cliques hcl
  have e' : regions = RG.closure cliques := e
  subst e'
  have h := gen_hps_certificate_built dom (RG.closure cliques) minimal potentials T rho conv iters hT hit hd hsz hok.1 hok.2 hp
  exact ⟨h.1, h.2.1, h.2.2.2.1, fun hc => (h.2.2.2.2 hc).1⟩


/-! ## N / D / B of the non-convex graph: the regenerated dictionaries are the model's -/

theorem buildOn_keys_nodup (regions : List Region) (convex minimal : Bool) (hnd : regions.Nodup) :
    (regions.flatMap (fun p => (RG.look (RG.buildOn regions convex minimal).children p).map (fun r => (p, r)))).Nodup :=
  nodup_pairs_flatMap regions _ hnd (PGM.Convex.buildOn_ok regions convex minimal hnd).children_nodup

/-- non-convex, minimal: N, D, B (components 6-8) -/
theorem gen_buildGraphNM_NDB (dom : Dom) (regions : List Region) (fuel : Nat) (hnd : regions.Nodup) :
    (RGG.buildGraphNM (α := α) dom regions fuel).2.2.2.2.2.1 = (RG.buildOn regions false true).N ∧
    (RGG.buildGraphNM (α := α) dom regions fuel).2.2.2.2.2.2.1 = (RG.buildOn regions false true).D ∧
    (RGG.buildGraphNM (α := α) dom regions fuel).2.2.2.2.2.2.2.1 = (RG.buildOn regions false true).B := by
  have hND := NDmin_eq regions (RG.buildOn regions false true).children (RG.buildOn regions false true).parents
    (RG.buildOn regions false true).descendants (buildOn_keys_nodup regions false true hnd)
  have hB := Bmin_eq regions (RG.buildOn regions false true).parents (RG.buildOn regions false true).descendants hnd
  unfold RGG.buildGraphNM
  simp only [addNodes_empty, coverFold_eq, RGG.nxNeighbors, RGG.nxRevNeighbors, RGG.nxTCNeighbors, RGG.nxTCRevNeighbors, RGG.nxEdges,
    edgesOf_coverEdges regions hnd, look_eq, minFold_eq, RGG.DiGraph.addEdges, List.nil_append]
  exact ⟨(congrArg Prod.fst hND).trans rfl, (congrArg Prod.snd hND).trans rfl, hB.trans rfl⟩


theorem look_downp (regions : List Region) (desc : List (Region × List Region)) (r : Region) (hr : r ∈ regions) :
    RG.look (regions.map (fun r => (r, RGG.pySet ([r] ++ RG.look desc r)))) r = RG.downp desc r := by
  rw [PGM.Convex.look_map_self regions (fun r => RGG.pySet ([r] ++ RG.look desc r)) r hr]
  rfl

/-- non-convex, saturated: N, D, B (components 6-8) -/
theorem gen_buildGraphNS_NDB (dom : Dom) (regions : List Region) (fuel : Nat) (hnd : regions.Nodup) :
    (RGG.buildGraphNS (α := α) dom regions fuel).2.2.2.2.2.1 = (RG.buildOn regions false false).N ∧
    (RGG.buildGraphNS (α := α) dom regions fuel).2.2.2.2.2.2.1 = (RG.buildOn regions false false).D ∧
    (RGG.buildGraphNS (α := α) dom regions fuel).2.2.2.2.2.2.2.1 = (RG.buildOn regions false false).B := by
  have hok := PGM.Convex.buildOn_ok regions false false hnd
  have hdp := fun r hr => look_downp regions (RG.buildOn regions false false).descendants r hr
  have hND := NDsat_eq regions (coverEdges regions) (RG.buildOn regions false false).children
    (RG.buildOn regions false false).descendants _ (buildOn_keys_nodup regions false false hnd)
    (fun p hp c hc => (hok.children_sub p hp c hc).1) hdp
  have hB := Bsat_eq regions (RG.buildOn regions false false).parents (RG.buildOn regions false false).descendants _ hnd hdp
  unfold RGG.buildGraphNS
  simp only [addNodes_empty, coverFold_eq, RGG.nxNeighbors, RGG.nxRevNeighbors, RGG.nxTCNeighbors, RGG.nxTCRevNeighbors, RGG.nxEdges,
    edgesOf_coverEdges regions hnd, look_eq]
  exact ⟨(congrArg Prod.fst hND).trans rfl, (congrArg Prod.snd hND).trans rfl, hB.trans rfl⟩


/-! ## the Möbius counting numbers (memoised recursion) -/

theorem isGcn_NM (anc : List (Region × List Region)) : IsGcn anc (RGG.buildGraphNM_get_counting_number anc) :=
  ⟨fun _ _ => rfl, fun _ _ _ => rfl⟩
theorem isGcn_NS (anc : List (Region × List Region)) : IsGcn anc (RGG.buildGraphNS_get_counting_number anc) :=
  ⟨fun _ _ => rfl, fun _ _ _ => rfl⟩

/-- the hypotheses under which the memoised recursion is identified: a solution `c` of `c r = 1 − Σ_{a ∈ ancestors r} c a` on
the regions, and a rank that decreases along `ancestors`, which stay inside the regions (acyclicity); depth bound above the ranks -/
structure MoebiusOK (regions : List Region) (anc : List (Region × List Region)) (c : Region → Int) (rank : Region → Nat) (fuel : Nat) : Prop where
  recur : ∀ r ∈ regions, c r = 1 - ((RG.look anc r).map c).foldl (· + ·) 0
  rank_lt : ∀ r ∈ regions, ∀ a ∈ RG.look anc r, rank a < rank r ∧ a ∈ regions
  fuel_ok : ∀ r ∈ regions, rank r < fuel

/-- **the regenerated memoised recursion computes the solution of the Möbius recurrence** (minimal variant): after
`for r in regions: get_counting_number(r)` the dictionary `self.counting_numbers` holds `c r` under every region -/
theorem gen_counting_NM (dom : Dom) (regions : List Region) (fuel : Nat) (hnd : regions.Nodup) (c : Region → Int) (rank : Region → Nat)
    (h : MoebiusOK regions (RG.buildOn regions false true).ancestors c rank fuel) (r : Region) (hr : r ∈ regions) :
    RGG.intGet (RGG.buildGraphNM (α := α) dom regions fuel).2.2.2.2.1 r = c r := by
  have key := gcn_all (RG.buildOn regions false true).ancestors _ (isGcn_NM _) c rank regions h.recur h.rank_lt fuel regions
    (fun x hx => ⟨h.fuel_ok x hx, hx⟩) r hr
  unfold RGG.buildGraphNM
  simp only [addNodes_empty, coverFold_eq, RGG.nxNeighbors, RGG.nxRevNeighbors, RGG.nxTCNeighbors, RGG.nxTCRevNeighbors, RGG.nxEdges,
    edgesOf_coverEdges regions hnd, look_eq, minFold_eq, RGG.DiGraph.addEdges, List.nil_append]
  exact key

theorem gen_counting_NS (dom : Dom) (regions : List Region) (fuel : Nat) (hnd : regions.Nodup) (c : Region → Int) (rank : Region → Nat)
    (h : MoebiusOK regions (RG.buildOn regions false false).ancestors c rank fuel) (r : Region) (hr : r ∈ regions) :
    RGG.intGet (RGG.buildGraphNS (α := α) dom regions fuel).2.2.2.2.1 r = c r := by
  have key := gcn_all (RG.buildOn regions false false).ancestors _ (isGcn_NS _) c rank regions h.recur h.rank_lt fuel regions
    (fun x hx => ⟨h.fuel_ok x hx, hx⟩) r hr
  unfold RGG.buildGraphNS
  simp only [addNodes_empty, coverFold_eq, RGG.nxNeighbors, RGG.nxRevNeighbors, RGG.nxTCNeighbors, RGG.nxTCRevNeighbors, RGG.nxEdges,
    edgesOf_coverEdges regions hnd, look_eq]
  exact key

/-- **equal to the model's `RG.moebius`, region by region**, whenever the model's numbers satisfy the recurrence (the model's half of
the uniqueness argument; OPEN in general, see the example for a checked instance).  The dictionaries themselves differ in ORDER:
Python's `moebius` is filled in order of completion of the recursion, the model lists the regions in their own order
(`counting_order_differs`) — only look-ups are read. -/
theorem gen_counting_eq_model (dom : Dom) (regions : List Region) (minimal : Bool) (fuel : Nat) (hnd : regions.Nodup) (rank : Region → Nat)
    (h : MoebiusOK regions (RG.buildOn regions false minimal).ancestors (fun r => RGG.intGet (RG.buildOn regions false minimal).counting r) rank fuel)
    (r : Region) (hr : r ∈ regions) :
    RGG.intGet (if minimal then (RGG.buildGraphNM (α := α) dom regions fuel).2.2.2.2.1 else (RGG.buildGraphNS (α := α) dom regions fuel).2.2.2.2.1) r
      = RGG.intGet (RG.buildOn regions false minimal).counting r := by
  cases minimal
  · exact gen_counting_NS dom regions fuel hnd _ rank h r hr
  · exact gen_counting_NM dom regions fuel hnd _ rank h r hr

/-- the hypotheses hold on `{A,B}`, `{B,C}`, `{B}` (both variants), with the number of ancestors as rank -/
example : MoebiusOK [["A", "B"], ["B", "C"], ["B"]] (RG.buildOn [["A", "B"], ["B", "C"], ["B"]] false true).ancestors
    (fun r => RGG.intGet (RG.buildOn [["A", "B"], ["B", "C"], ["B"]] false true).counting r)
    (fun r => (RG.look (RG.buildOn [["A", "B"], ["B", "C"], ["B"]] false true).ancestors r).length) 4 :=
  ⟨by decide, by decide, by decide⟩

/-- the ORDER of the dictionary differs from the model's list: `[["B"], ["A","B"]]` — the recursion completes `("A","B")` first -/
theorem counting_order_differs :
    (RGG.buildGraphNS (α := ExtQ) [("A", 2), ("B", 2)] [["B"], ["A", "B"]] 3).2.2.2.2.1 = [(["A", "B"], 1), (["B"], 0)] ∧
    (RG.buildOn [["B"], ["A", "B"]] false false).counting = [(["B"], 0), (["A", "B"], 1)] := by
  decide

/-! ## generalised propagation on the graph built ENTIRELY by regenerated code -/

section builtN
open PGM.Convex PGM.Oracle

/-- every field from the regenerated non-convex `build_graph`; the two model-only book-keeping fields `children0` / `parents0`
(no oracle, no check and no theorem about the oracles reads them) repeat `children` / `parents`; the counting numbers are the
look-ups of the regenerated dictionary in region order -/
noncomputable def genGraphN' (dom : Dom) (regions : List Region) (minimal : Bool) (fuel : Nat) : RG.Graph :=
  let b := if minimal then RGG.buildGraphNM (α := ℝ) dom regions fuel else RGG.buildGraphNS (α := ℝ) dom regions fuel
  { regions := regions, cliques := RGG.sortByLen regions, children := b.1, parents := b.2.1, descendants := b.2.2.1, ancestors := b.2.2.2.1,
    children0 := b.1, parents0 := b.2.1,
    counting := regions.map (fun r => (r, RGG.intGet b.2.2.2.2.1 r)), N := b.2.2.2.2.2.1, D := b.2.2.2.2.2.2.1, B := b.2.2.2.2.2.2.2.1,
    messageOrder := b.2.2.2.2.2.2.2.2.2 }

/-- the oracle-relevant fields of that graph are the model's -/
theorem genGraphN'_fields (dom : Dom) (regions : List Region) (minimal : Bool) (fuel : Nat) (hnd : regions.Nodup) :
    let g' := genGraphN' dom regions minimal fuel
    let g := RG.buildOn regions false minimal
    g'.regions = g.regions ∧ g'.cliques = g.cliques ∧ g'.children = g.children ∧ g'.parents = g.parents ∧
      g'.descendants = g.descendants ∧ g'.ancestors = g.ancestors ∧ g'.N = g.N ∧ g'.D = g.D ∧ g'.B = g.B ∧ g'.messageOrder = g.messageOrder := by
  unfold genGraphN'
  cases minimal
  · obtain ⟨h1, h2, h3, h4, h5⟩ := gen_buildGraphNS_skeleton (α := ℝ) dom regions fuel hnd
    obtain ⟨n1, n2, n3⟩ := gen_buildGraphNS_NDB (α := ℝ) dom regions fuel hnd
    simp only [Bool.false_eq_true, if_false]
    rw [h1, h2, h3, h4, h5, n1, n2, n3, gen_initMessages_buildOn dom regions false false hnd]
    exact ⟨rfl, rfl, rfl, rfl, rfl, rfl, rfl, rfl, rfl, rfl⟩
  · obtain ⟨h1, h2, h3, h4, h5⟩ := gen_buildGraphNM_skeleton (α := ℝ) dom regions fuel hnd
    obtain ⟨n1, n2, n3⟩ := gen_buildGraphNM_NDB (α := ℝ) dom regions fuel hnd
    simp only [if_true]
    rw [h1, h2, h3, h4, h5, n1, n2, n3, gen_initMessages_buildOn dom regions false true hnd]
    exact ⟨rfl, rfl, rfl, rfl, rfl, rfl, rfl, rfl, rfl, rfl⟩

theorem genGraphN'_src (dom : Dom) (regions : List Region) (minimal : Bool) (fuel : Nat) (hnd : regions.Nodup) :
    ∀ e ∈ (genGraphN' dom regions minimal fuel).messageOrder, e.1 ∈ (genGraphN' dom regions minimal fuel).regions := by
  rw [(genGraphN'_fields dom regions minimal fuel hnd).2.2.2.2.2.2.2.2.2]
  intro e he
  exact ((buildOn_ok regions false minimal hnd).order_sound e he).1

/-- **the regenerated oracle on the regenerated graph is the model's oracle on the model's graph** -/
theorem gen_gbp_built_eq (dom : Dom) (regions : List Region) (minimal : Bool) (fuel : Nat) (pots : CliqueVec ℝ) (T : ℝ)
    (iters : Nat) (msgs : Msgs ℝ) (hnd : regions.Nodup) :
    genGbp dom (genGraphN' dom regions minimal fuel) pots T iters msgs
      = RG.gbp dom (RG.buildOn regions false minimal) pots T iters msgs := by
  obtain ⟨f1, f2, _, _, _, _, f7, f8, f9, f10⟩ := genGraphN'_fields dom regions minimal fuel hnd
  unfold genGbp
  rw [f1, f2, f7, f8, f9, f10]
  exact gen_gbp dom (RG.buildOn regions false minimal) pots T iters msgs
    (fun e he => ((buildOn_ok regions false minimal hnd).order_sound e he).1)

theorem gen_gbp_tables_normalised_built' (dom : Dom) (regions : List Region) (minimal : Bool) (fuel : Nat) (pots : CliqueVec ℝ) (T : ℝ)
    (iters : Nat) (msgs : Msgs ℝ) (hnd : regions.Nodup) (p : Clique × Factor ℝ)
    (hp : p ∈ (genGbp dom (genGraphN' dom regions minimal fuel) pots T iters msgs).1) :
    ∃ b : Factor ℝ, p.2 = RG.normalise T b :=
  gen_gbp_tables_normalised dom _ pots T iters msgs (genGraphN'_src dom regions minimal fuel hnd) p hp

theorem gen_gbp_tables_valid_built' (dom : Dom) (regions : List Region) (minimal : Bool) (fuel : Nat) (pots : CliqueVec ℝ) (T : ℝ)
    (iters : Nat) (hT : 0 < T) (hdom : PosDom dom) (hnd : regions.Nodup) (hreg : ∀ r ∈ regions, ∀ a ∈ r, a ∈ dom.attrs)
    (hcl : ∀ r ∈ regions, PosDom (pots.get r).dom ∧ (pots.get r).vals.data.size ≠ 0)
    (p : Clique × Factor ℝ)
    (hp : p ∈ (genGbp dom (genGraphN' dom regions minimal fuel) pots T iters
      (RG.initMessages dom (genGraphN' dom regions minimal fuel).messageOrder)).1) : ValidTable T p.2 := by
  refine gen_gbp_tables_valid_init dom _ pots T iters hT hdom (genGraphN'_src dom regions minimal fuel hnd) ?_ ?_ p hp
  · rw [(genGraphN'_fields dom regions minimal fuel hnd).2.2.2.2.2.2.2.2.2]
    intro e he
    have hs := (buildOn_ok regions false minimal hnd).order_sound e he
    have hc := (buildOn_ok regions false minimal hnd).children_sub e.1 hs.1 e.2 hs.2
    exact ⟨hreg e.1 hs.1, hreg e.2 hc.1⟩
  · intro r hr
    exact hcl r ((mem_sortByLen regions r).mp hr)

end builtN


/-! ## `MoebiusOK` holds for every `RG.buildOn` graph — the counting numbers without hypothesis -/

/-- the model's half of the uniqueness argument: `RG.moebius` solves the recurrence (`moebius_rec`), the ancestors of the cover graph
are regions of strictly larger length (`anc_rank`), and any depth above the total length suffices -/
theorem moebiusOK_buildOn (regions : List Region) (minimal : Bool) (hnd : regions.Nodup) (hreg : ∀ r ∈ regions, r.Nodup)
    (fuel : Nat) (hfuel : (regions.map List.length).sum < fuel) :
    MoebiusOK regions (RG.buildOn regions false minimal).ancestors
      (fun r => RGG.intGet (RG.buildOn regions false minimal).counting r)
      (fun r => (regions.map List.length).sum - r.length) fuel := by
  refine ⟨?_, ?_, ?_⟩
  · intro r hr
    exact moebius_rec regions hnd hreg r hr
  · intro r hr a ha
    exact anc_rank regions hreg r hr a ha
  · intro r _
    show (regions.map List.length).sum - r.length < fuel
    omega

/-- **the regenerated counting numbers are the model's `RG.moebius`, region by region** (both variants), for every duplicate-free
list of duplicate-free regions and every depth bound above the total length of the regions -/
theorem gen_counting (dom : Dom) (regions : List Region) (minimal : Bool) (fuel : Nat) (hnd : regions.Nodup)
    (hreg : ∀ r ∈ regions, r.Nodup) (hfuel : (regions.map List.length).sum < fuel) (r : Region) (hr : r ∈ regions) :
    RGG.intGet (if minimal then (RGG.buildGraphNM (α := α) dom regions fuel).2.2.2.2.1 else (RGG.buildGraphNS (α := α) dom regions fuel).2.2.2.2.1) r
      = RGG.intGet (RG.buildOn regions false minimal).counting r :=
  gen_counting_eq_model dom regions minimal fuel hnd _ (moebiusOK_buildOn regions minimal hnd hreg fuel hfuel) r hr

/-- **`build_graph` (non-convex, minimal) as regenerated is `RG.buildOn regions false true`, field by field**; the counting numbers
look-up by look-up (the dictionary order differs, `counting_order_differs`) -/
theorem gen_buildGraphNM (dom : Dom) (regions : List Region) (fuel : Nat) (hnd : regions.Nodup)
    (hreg : ∀ r ∈ regions, r.Nodup) (hfuel : (regions.map List.length).sum < fuel) :
    let out := RGG.buildGraphNM (α := α) dom regions fuel
    let g := RG.buildOn regions false true
    out.1 = g.children ∧ out.2.1 = g.parents ∧ out.2.2.1 = g.descendants ∧ out.2.2.2.1 = g.ancestors ∧
    (∀ r ∈ regions, RGG.intGet out.2.2.2.2.1 r = RGG.intGet g.counting r) ∧
    out.2.2.2.2.2.1 = g.N ∧ out.2.2.2.2.2.2.1 = g.D ∧ out.2.2.2.2.2.2.2.1 = g.B ∧
    out.2.2.2.2.2.2.2.2 = (RG.initMessages dom g.messageOrder, g.messageOrder) := by
  intro out g
  obtain ⟨h1, h2, h3, h4, h5⟩ := gen_buildGraphNM_skeleton (α := α) dom regions fuel hnd
  obtain ⟨n1, n2, n3⟩ := gen_buildGraphNM_NDB (α := α) dom regions fuel hnd
  refine ⟨h1, h2, h3, h4, ?_, n1, n2, n3, ?_⟩
  · intro r hr
    exact gen_counting (α := α) dom regions true fuel hnd hreg hfuel r hr
  · exact h5.trans (gen_initMessages_buildOn dom regions false true hnd)

/-- **`build_graph` (non-convex, saturated) as regenerated is `RG.buildOn regions false false`, field by field** -/
theorem gen_buildGraphNS (dom : Dom) (regions : List Region) (fuel : Nat) (hnd : regions.Nodup)
    (hreg : ∀ r ∈ regions, r.Nodup) (hfuel : (regions.map List.length).sum < fuel) :
    let out := RGG.buildGraphNS (α := α) dom regions fuel
    let g := RG.buildOn regions false false
    out.1 = g.children ∧ out.2.1 = g.parents ∧ out.2.2.1 = g.descendants ∧ out.2.2.2.1 = g.ancestors ∧
    (∀ r ∈ regions, RGG.intGet out.2.2.2.2.1 r = RGG.intGet g.counting r) ∧
    out.2.2.2.2.2.1 = g.N ∧ out.2.2.2.2.2.2.1 = g.D ∧ out.2.2.2.2.2.2.2.1 = g.B ∧
    out.2.2.2.2.2.2.2.2 = (RG.initMessages dom g.messageOrder, g.messageOrder) := by
  intro out g
  obtain ⟨h1, h2, h3, h4, h5⟩ := gen_buildGraphNS_skeleton (α := α) dom regions fuel hnd
  obtain ⟨n1, n2, n3⟩ := gen_buildGraphNS_NDB (α := α) dom regions fuel hnd
  refine ⟨h1, h2, h3, h4, ?_, n1, n2, n3, ?_⟩
  · intro r hr
    exact gen_counting (α := α) dom regions false fuel hnd hreg hfuel r hr
  · exact h5.trans (gen_initMessages_buildOn dom regions false false hnd)

/-- the record built from regenerated fields only carries the model's counting numbers (its list is in region order) -/
theorem genGraphN'_counting (dom : Dom) (regions : List Region) (minimal : Bool) (fuel : Nat) (hnd : regions.Nodup)
    (hreg : ∀ r ∈ regions, r.Nodup) (hfuel : (regions.map List.length).sum < fuel) :
    (genGraphN' dom regions minimal fuel).counting = (RG.buildOn regions false minimal).counting := by
  have hm : (RG.buildOn regions false minimal).counting
      = regions.map (fun r => (r, RGG.intGet (RG.buildOn regions false minimal).counting r)) := by
    show RG.moebius regions (ancOf regions) = _
    conv => lhs; unfold RG.moebius
    apply List.map_congr_left
    intro r hr
    exact congrArg (Prod.mk r) (moebius_lookup regions r hr).symm
  rw [hm]
  unfold genGraphN'
  apply List.map_congr_left
  intro r hr
  have := gen_counting (α := ℝ) dom regions minimal fuel hnd hreg hfuel r hr
  cases minimal <;> simpa using this

end PGM.C17G
