import PGM.Driver.Codec
import PGM.Driver.C12
import PGM.Model.GM
import PGM.Model.LogQ
/-! driver handlers for exact inference (C01, C02) -/
open Lean
namespace PGM.Driver
open PGM PGM.JT PGM.GM

instance : Codec LogQ where
  dec j := (Codec.dec j : Except String ExtQ).map LogQ.mk
  enc x := Codec.enc x.v

/-- potentials arrive in exp-space; as `LogQ` they are the log-space factors of the code -/
def decCliqueVec {α} [Codec α] [Scalar α] (j : Json) : Except String (CliqueVec α) := do
  (← j.getArr?).toList.mapM (fun e => do
    let cl ← decClique (← e.getObjVal? "clique")
    let f : Factor α ← decFactor e
    pure (cl, f))

def encCliqueVec {α} [Codec α] (cv : CliqueVec α) : Json :=
  .arr (cv.map (fun (c, f) => Json.mkObj [("clique", encList c), ("dom", encDom f.dom), ("vals", encList f.vals.data.toList)])).toArray

def handleBP (req : Json) : Except String Json := do
  let cliques ← decCliques (← req.getObjVal? "cliques")
  let order ← decPairs (← req.getObjVal? "order")
  let pots : CliqueVec LogQ ← decCliqueVec (← req.getObjVal? "pots")
  let total : LogQ ← Codec.dec (← req.getObjVal? "total")
  let marg := beliefPropagation cliques order pots total
  let z := logZ cliques order pots
  pure (Json.mkObj [("marg", encCliqueVec marg), ("Z", Codec.enc z)])

def handleProject (req : Json) : Except String Json := do
  let dom ← decDom (← req.getObjVal? "dom")
  let pots : CliqueVec LogQ ← decCliqueVec (← req.getObjVal? "pots")
  let total : LogQ ← Codec.dec (← req.getObjVal? "total")
  let attrs : List Attr ← decList (← req.getObjVal? "attrs")
  if !(preVE (pots.map Prod.snd) (dom.invert attrs)) then throw "raise"
  let f := GMproject dom pots total attrs
  pure (encFactor f)

def handleGMDatavector (req : Json) : Except String Json := do
  let dom ← decDom (← req.getObjVal? "dom")
  let cliques ← decCliques (← req.getObjVal? "cliques")
  let pots : CliqueVec LogQ ← decCliqueVec (← req.getObjVal? "pots")
  let total : ExtQ ← Codec.dec (← req.getObjVal? "total")
  -- log-space part in LogQ, the final `* wgt * total` in plain arithmetic
  if cliques.isEmpty then throw "raise"
  let core := datavectorCore dom cliques pots
  let covered := (cliques.foldl JT.union []).length
  let csize : Nat := dom.sizeOf (dom.canonical (cliques.foldl JT.union []))
  let _ := covered
  let wgt := ExtQ.div (.fin (csize : Rat)) (.fin (dom.size : Rat))
  let flat := core.vals.data.toList.map (·.v)
  pure (Json.mkObj [("vec", encList (datavectorScale flat wgt total))])

end PGM.Driver

namespace PGM.Driver
open PGM PGM.JT PGM.GM

def toPlain (f : Factor LogQ) : Factor ExtQ := ⟨f.dom, ⟨f.vals.shape, f.vals.data.map (·.v)⟩⟩

def handleKrondot (req : Json) : Except String Json := do
  let dom ← decDom (← req.getObjVal? "dom")
  let cliques ← decCliques (← req.getObjVal? "cliques")
  let order ← decPairs (← req.getObjVal? "order")
  let pots : CliqueVec LogQ ← decCliqueVec (← req.getObjVal? "pots")
  let total : ExtQ ← Codec.dec (← req.getObjVal? "total")
  let matsJ ← (← req.getObjVal? "mats").getArr?
  let mats : List (Nat × List ExtQ) ← matsJ.toList.mapM (fun m => do
    let rows ← (← m.getObjVal? "rows").getNat?
    let vals : List ExtQ ← decList (← m.getObjVal? "vals")
    pure (rows, vals))
  if mats.length ≠ dom.length then throw "raise"
  if !((List.zip dom mats).all (fun p => p.2.2.length == p.2.1 * p.1.2)) then throw "raise"
  let z := (logZ cliques order pots).v
  let expPots := cliques.map (fun c => toPlain ((pots.get c).exp))
  let out := krondot dom expPots mats total z
  pure (Json.mkObj [("shape", encList out.shape), ("vals", encList out.data.toList)])

def handleMany (req : Json) : Except String Json := do
  let dom ← decDom (← req.getObjVal? "dom")
  let cliques ← decCliques (← req.getObjVal? "cliques")
  let edges ← decPairs (← req.getObjVal? "edges")
  let order ← decPairs (← req.getObjVal? "order")
  let pots : CliqueVec LogQ ← decCliqueVec (← req.getObjVal? "pots")
  let total : LogQ ← Codec.dec (← req.getObjVal? "total")
  let projs ← decCliques (← req.getObjVal? "projections")
  let margL := beliefPropagation cliques order pots total
  let marg : CliqueVec ExtQ := margL.map (fun (c, f) => (c, toPlain f))
  let fallback (proj : List Attr) : Factor ExtQ :=
    match cliques.find? (fun c => JT.subset proj c) with
    | some c => (marg.get c).projectSum proj
    | none => toPlain (GMproject dom pots total proj)
  let ans := manyMarginals dom cliques ⟨cliques, edges⟩ marg fallback projs
  pure (.arr (ans.map (fun (p, f) => Json.mkObj [("proj", encList p), ("dom", encDom f.dom), ("vals", encList f.vals.data.toList)])).toArray)

end PGM.Driver
