import PGM.Driver.C04
import PGM.Model.Solvers
/-! driver handlers for the solvers (C08, C10): Float instance, log-space potentials -/
open Lean
namespace PGM.Driver
open PGM PGM.JT PGM.GM PGM.Loss PGM.Solvers

def decZeros (j : Json) : Except String (List (Clique × List (List Nat))) := do
  (← j.getArr?).toList.mapM (fun e => do
    let cl ← decClique (← e.getObjVal? "clique")
    let cells ← (← (← e.getObjVal? "cells").getArr?).toList.mapM (fun c => (decList c : Except String (List Nat)))
    pure (cl, cells))

/-- `_setup`: zero potentials on the model cliques combined with the structural zeros -/
def setupPotentials (dom : Dom) (cliques : List Clique) (zeros : List (Clique × List (List Nat))) : CliqueVec Float × CliqueVec Float :=
  let z : CliqueVec Float := zeros.map (fun (cl, cells) => (cl, Factor.active FloatS.ninf (dom.project cl) cells))
  (CliqueVec.combine (CliqueVec.zerosV dom cliques) z, z)

def handleSolve (req : Json) : Except String Json := do
  let engine ← (← req.getObjVal? "engine").getStr?
  let dom ← decDom (← req.getObjVal? "dom")
  let cliques ← decCliques (← req.getObjVal? "cliques")
  let order ← decPairs (← req.getObjVal? "order")
  let meas : List (Meas Float) ← (← (← req.getObjVal? "meas").getArr?).toList.mapM decMeas
  let total : Float ← Codec.dec (← req.getObjVal? "total")
  let iters ← (← req.getObjVal? "iters").getNat?
  let zeros ← decZeros (← req.getObjVal? "zeros")
  let L : Float ← Codec.dec (← req.getObjVal? "L")
  let (theta0, z) := setupPotentials dom cliques zeros
  let bp (th : CliqueVec Float) := beliefPropagation cliques order th total
  let lossgrad (mu : CliqueVec Float) := marginalLoss dom cliques meas mu
  let mleF (w : CliqueVec Float) : CliqueVec Float := mle Factor.log cliques w
  let r ← match engine with
    | "MD" => pure (mirrorDescent bp lossgrad iters theta0 (1.0 / (total * total)))
    | "RDA" => pure (dualAveraging bp (fun u => (lossgrad u).2) mleF dom cliques z iters theta0 L total)
    | "IG" => pure (interiorGradient bp (fun u => (lossgrad u).2) mleF iters theta0 L total)
    | _ => throw s!"unknown engine {engine}"
  pure (Json.mkObj [("potentials", encCliqueVec r.potentials),
    ("marginals", match r.marginals with | some m => encCliqueVec m | none => Json.null)])

/-- `belief_propagation` and `mle` on doubles, for checking stored marginals against stored parameters -/
def handleBPF (req : Json) : Except String Json := do
  let cliques ← decCliques (← req.getObjVal? "cliques")
  let order ← decPairs (← req.getObjVal? "order")
  let pots : CliqueVec Float ← decCliqueVec (← req.getObjVal? "pots")
  let total : Float ← Codec.dec (← req.getObjVal? "total")
  pure (Json.mkObj [("marg", encCliqueVec (beliefPropagation cliques order pots total))])

def handleMLE (req : Json) : Except String Json := do
  let cliques ← decCliques (← req.getObjVal? "cliques")
  let marg : CliqueVec Float ← decCliqueVec (← req.getObjVal? "marg")
  pure (Json.mkObj [("pots", encCliqueVec (mle (α := Float) Factor.log cliques marg))])

/-- `CliqueVector` arithmetic over exact extended rationals (C14): `const*v`, `a+b`, `a-b`, `a.dot(b)`, `a.combine(b)`,
`CliqueVector.zeros`, `v + const` -/
def handleCV (req : Json) : Except String Json := do
  let fn ← (← req.getObjVal? "fn").getStr?
  let a : CliqueVec ExtQ ← decCliqueVec (← req.getObjVal? "a")
  let getB : Except String (CliqueVec ExtQ) := do decCliqueVec (← req.getObjVal? "b")
  let getC : Except String ExtQ := do Codec.dec (← req.getObjVal? "c")
  match fn with
  | "smul" => do pure (encCliqueVec (CliqueVec.smul (← getC) a))
  | "add" => do pure (encCliqueVec (CliqueVec.addV a (← getB)))
  | "sub" => do pure (encCliqueVec (CliqueVec.subV a (← getB)))
  | "dot" => do pure (Json.mkObj [("val", Codec.enc (CliqueVec.dotV a (← getB)))])
  | "combine" => do pure (encCliqueVec (CliqueVec.combine a (← getB)))
  | "zeros" => do
    let dom ← decDom (← req.getObjVal? "dom")
    pure (encCliqueVec (CliqueVec.zerosV (α := ExtQ) dom (a.map Prod.fst)))
  | _ => throw s!"unknown fn {fn}"

end PGM.Driver
