import Lean.Data.Json
import PGM.Model.Factor
/-!
# Line-protocol helpers: JSON ⇄ model values

Exact scalars travel as strings `"p/q"`, `"p"`, `"inf"`, `"-inf"`, `"nan"`; doubles travel as their
IEEE bit pattern (a JSON integer) so that no decimal rounding happens on either side.
-/
open Lean
namespace PGM

def parseInt? (s : String) : Option Int :=
  if s.startsWith "-" then (s.drop 1).toNat?.map (fun n => -(n : Int))
  else if s.startsWith "+" then (s.drop 1).toNat?.map (fun n => (n : Int))
  else s.toNat?.map (fun n => (n : Int))

def parseRat? (s : String) : Option Rat :=
  match s.splitOn "/" with
  | [p] => (parseInt? p).map (fun n => (n : Rat))
  | [p, q] => do
    let n ← parseInt? p
    let d ← q.toNat?
    if d = 0 then none else some (mkRat n d)
  | _ => none

def ratToString (q : Rat) : String :=
  if q.den = 1 then toString q.num else toString q.num ++ "/" ++ toString q.den

class Codec (α : Type) where
  dec : Json → Except String α
  enc : α → Json

instance : Codec Rat where
  dec j := match j with
    | .str s => match parseRat? s with
      | some q => .ok q
      | none => .error s!"bad rational {s}"
    | .num n => if n.exponent = 0 then .ok (n.mantissa : Rat) else .error "non-integer number in exact stream"
    | _ => .error "bad rational"
  enc q := .str (ratToString q)

instance : Codec ExtQ where
  dec j := match j with
    | .str "inf" => .ok .pinf
    | .str "-inf" => .ok .ninf
    | .str "nan" => .ok .nan
    | j => (Codec.dec j : Except String Rat).map ExtQ.fin
  enc x := match x with
    | .pinf => .str "inf"
    | .ninf => .str "-inf"
    | .nan => .str "nan"
    | .fin q => .str (ratToString q)

instance : Codec Float where
  dec j := match j with
    | .num n => if n.exponent = 0 ∧ n.mantissa ≥ 0 then .ok (Float.ofBits n.mantissa.toNat.toUInt64)
                else .error "float must be sent as bit pattern"
    | _ => .error "bad float"
  enc x := .num ⟨(x.toBits.toNat : Int), 0⟩

instance : Codec Nat where
  dec j := match j.getNat? with | .ok n => .ok n | .error e => .error e
  enc n := .num ⟨n, 0⟩

instance : Codec String where
  dec j := j.getStr?
  enc s := .str s

def decList {α} [Codec α] (j : Json) : Except String (List α) := do
  let arr ← j.getArr?
  arr.toList.mapM Codec.dec

def encList {α} [Codec α] (l : List α) : Json := .arr (l.map Codec.enc).toArray

def decDom (j : Json) : Except String Dom := do
  let arr ← j.getArr?
  arr.toList.mapM (fun p => do
    let pr ← p.getArr?
    if pr.size ≠ 2 then throw "bad domain entry"
    let a ← pr[0]!.getStr?
    let n ← pr[1]!.getNat?
    pure (a, n))

def encDom (d : Dom) : Json := .arr (d.map (fun (a, n) => Json.arr #[.str a, .num ⟨n, 0⟩])).toArray

def decFactor {α} [Codec α] [Scalar α] (j : Json) : Except String (Factor α) := do
  let d ← decDom (← j.getObjVal? "dom")
  let vs : List α ← decList (← j.getObjVal? "vals")
  if vs.length ≠ d.size then throw "raise"
  pure ⟨d, ⟨d.shape, vs.toArray⟩⟩

def encFactor {α} [Codec α] (f : Factor α) : Json :=
  Json.mkObj [("dom", encDom f.dom), ("shape", encList f.vals.shape), ("vals", encList f.vals.data.toList)]

def getAttrs (j : Json) (key : String) : Except String (List Attr) := do
  decList (← j.getObjVal? key)

end PGM
