import PGM.Driver.Codec
import PGM.Model.Dataset
/-! driver handlers for datasets and domains (C15) -/
open Lean
namespace PGM.Driver
open PGM

def decInt (j : Json) : Except String Int := j.getInt?

def decRows (j : Json) : Except String (List (List Int)) := do
  let arr ← j.getArr?
  arr.toList.mapM (fun r => do
    let ra ← r.getArr?
    ra.toList.mapM decInt)

def handleDataset (req : Json) : Except String Json := do
  let cols : List String ← decList (← req.getObjVal? "cols")
  let rows ← decRows (← req.getObjVal? "rows")
  let dom ← decDom (← req.getObjVal? "dom")
  let w : Option (List ExtQ) ←
    match req.getObjVal? "weights" with
    | .ok Json.null => pure none
    | .ok j => do pure (some (← decList j))
    | .error _ => pure none
  let t : Dataset.Table := ⟨cols, rows⟩
  if !(Dataset.preMk t dom) then throw "raise"
  match w with
  | some ws => if ws.length ≠ rows.length then throw "raise"
  | none => pure ()
  let mut D : Dataset ExtQ := Dataset.ofTable t dom w
  let projs ← (← req.getObjVal? "projs").getArr?
  for p in projs do
    let as : List Attr ← decList p
    if !(D.dom.hasAll as) then throw "raise"
    D := D.project as
  pure (Json.mkObj [("dom", encDom D.dom), ("records", Codec.enc D.records),
                    ("vec", encList D.datavector)])

def handleDomain (req : Json) : Except String Json := do
  let fn ← (← req.getObjVal? "fn").getStr?
  let d ← decDom (← req.getObjVal? "dom")
  let attrsArg : Except String (List Attr) := getAttrs req "attrs"
  match fn with
  | "project" => do
    let as ← attrsArg
    if !(d.hasAll as) then throw "raise"
    pure (Json.mkObj [("dom", encDom (d.project as))])
  | "marginalize" => do pure (Json.mkObj [("dom", encDom (d.marginalize (← attrsArg)))])
  | "invert" => do pure (Json.mkObj [("attrs", encList (d.invert (← attrsArg)))])
  | "canonical" => do pure (Json.mkObj [("attrs", encList (d.canonical (← attrsArg)))])
  | "axes" => do
    let as ← attrsArg
    if !(d.hasAll as) then throw "raise"
    pure (Json.mkObj [("axes", encList (d.axes as))])
  | "merge" => do
    let o ← decDom (← req.getObjVal? "dom2")
    pure (Json.mkObj [("dom", encDom (d.merge o))])
  | "contains" => do
    let o ← decDom (← req.getObjVal? "dom2")
    pure (Json.mkObj [("val", Json.bool (d.contains o))])
  | "size" => pure (Json.mkObj [("val", Codec.enc d.size)])
  | "size_of" => do
    let as ← attrsArg
    if !(d.hasAll as) then throw "raise"
    pure (Json.mkObj [("val", Codec.enc (d.sizeOf as))])
  | "sort_size" => pure (Json.mkObj [("dom", encDom d.sortSize)])
  | "sort_name" => pure (Json.mkObj [("dom", encDom d.sortName)])
  | _ => throw s!"unknown fn {fn}"

end PGM.Driver
