import PGM.Driver.Codec
import PGM.Model.Total
/-! driver handler for the total estimate (C09) -/
open Lean
namespace PGM.Driver
open PGM PGM.Total

def handleTotal (req : Json) : Except String Json := do
  let ms ← (← req.getObjVal? "meas").getArr?
  let meas : List (Meas Rat) ← ms.toList.mapM (fun j => do
    let rows ← (← j.getObjVal? "Q").getArr?
    let Q : List (List Rat) ← rows.toList.mapM decList
    let y : List Rat ← decList (← j.getObjVal? "y")
    let noise : Rat ← Codec.dec (← j.getObjVal? "noise")
    pure (⟨Q, y, noise⟩ : Meas Rat))
  let given : Option Rat ← match req.getObjVal? "total" with
    | .ok Json.null => pure none
    | .ok j => do pure (some (← Codec.dec j))
    | .error _ => pure none
  let ev := estimates meas
  pure (Json.mkObj [("total", Codec.enc (totalOf given meas)),
    ("qualifies", .arr (meas.map (fun m => Json.bool (unbiasedVec m.Q).isSome)).toArray),
    ("estimates", encList (ev.map (·.1))), ("variances", encList (ev.map (·.2)))])

end PGM.Driver
