import PGM.Driver.Codec
import PGM.Model.AdaGrid
/-! driver handler for the Adaptive Grid query matrices (C05) -/
open Lean
namespace PGM.Driver
open PGM PGM.AdaGrid

def decMatF (j : Json) : Except String (Mat Float) := do
  (← j.getArr?).toList.mapM (fun r => (decList r : Except String (List Float)))

def encMatF (m : Mat Float) : Json := .arr (m.map (fun r => (encList r : Json))).toArray

/-- `Q = vstack([Q1', get_aggregate(...) @ (I - Q1)])` rebuilt by the model from the recorded selection, the child matrices and the
cell projections; the largest squared column norm of the result -/
def handleAdaQuery (req : Json) : Except String Json := do
  let n ← (← req.getObjVal? "n").getNat?
  let sel : List Nat ← decList (← req.getObjVal? "sel")
  let coef : Float ← Codec.dec (← req.getObjVal? "coef")
  let children ← (← (← req.getObjVal? "children").getArr?).toList.mapM (fun c => do
    let q ← decMatF (← c.getObjVal? "Q")
    let s : List Nat ← decList (← c.getObjVal? "sigma")
    pure (q, s))
  let agg := aggregate coef children
  let q := query n sel coef children
  let norms := (List.range n).map (fun j => colSq q j)
  pure (Json.mkObj [("agg", encMatF agg), ("Q", encMatF q), ("col_sq", encList norms)])

end PGM.Driver
