import PGM.Driver.Codec
import PGM.Generated.Cdp2adpF
import PGM.Generated.SlicesF
/-! driver handlers for the generated zCDP conversions (C07) -/
open Lean
namespace PGM.Driver
open PGM

def handleCdp (req : Json) : Except String Json := do
  let fn ← (← req.getObjVal? "fn").getStr?
  let a : Float ← Codec.dec (← req.getObjVal? "a")
  let b : Float ← Codec.dec (← req.getObjVal? "b")
  let v ← match fn with
    | "cdp_delta_standard" => pure (Gen.F.cdp_delta_standard a b)
    | "cdp_delta" => pure (Gen.F.cdp_delta a b)
    | "cdp_eps" => pure (Gen.F.cdp_eps a b)
    | "cdp_rho" => pure (Gen.F.cdp_rho a b)
    | _ => throw s!"unknown fn {fn}"
  pure (Json.mkObj [("val", Codec.enc v)])

end PGM.Driver
