import PGM.Driver.Codec
import PGM.Generated.Cdp2adpF
import PGM.Generated.SlicesF
/-! driver handlers for the generated zCDP conversions (C07) -/
open Lean
namespace PGM.Driver
open PGM

def handleCdp (req : Json) : Except String Json := do
  let fn ← (← req.getObjVal? "fn").getStr?
  let a : Float ← Codec.dec (← req.getObjVal? "a")
  let b : Float ← Codec.dec (← req.getObjVal? "b")
  let v ← match fn with
    | "cdp_delta_standard" => pure (Gen.F.cdp_delta_standard a b)
    | "cdp_delta" => pure (Gen.F.cdp_delta a b)
    | "cdp_eps" => pure (Gen.F.cdp_eps a b)
    | "cdp_rho" => pure (Gen.F.cdp_rho a b)
    | _ => throw s!"unknown fn {fn}"
  pure (Json.mkObj [("val", Codec.enc v)])

end PGM.Driver

namespace PGM.Driver
open PGM

/-- probability vector of a selection primitive, computed with the *generated* score expressions -/
def handleEM (req : Json) : Except String Json := do
  let prim ← (← req.getObjVal? "prim").getStr?
  let q : List Float ← decList (← req.getObjVal? "q")
  let eps : Float ← Codec.dec (← req.getObjVal? "eps")
  let sens : Float ← Codec.dec (← req.getObjVal? "sens")
  let mono := (req.getObjValAs? Bool "monotonic").toOption.getD false
  let bounded := (req.getObjValAs? Bool "bounded").toOption.getD false
  let base : Option (List Float) ← match req.getObjVal? "base" with
    | .ok Json.null => pure none
    | .ok j => do pure (some (← decList j))
    | .error _ => pure none
  let qmax := q.foldl FloatS.fmax (q.headD 0.0)
  let scores : List Float ← match prim with
    | "mech" => match base with
      | none => pure (q.map (fun x => Gen.F.mech_em_score eps sens (Gen.F.mech_em_shift x qmax)))
      | some b => pure (List.zipWith (fun x bi => Gen.F.mech_em_score_base eps sens (Gen.F.mech_em_shift x qmax) (Float.log bi)) q b)
    | "mst" => pure (q.map (fun x => Gen.F.mst_em_scores (Gen.F.mst_em_coef mono) eps sens x qmax))
    | "ada" => pure (q.map (fun x => Gen.F.ada_em_scores (Gen.F.ada_em_coef mono) eps sens x qmax))
    | "mwem" => pure (q.map (fun x => Gen.F.mwem_sel_score eps (Gen.F.mwem_sel_sensitivity bounded) x qmax))
    | _ => throw s!"unknown primitive {prim}"
  let l := FloatS.lse scores
  pure (Json.mkObj [("p", encList (scores.map (fun s => Float.exp (s - l))))])

def handleScale (req : Json) : Except String Json := do
  let fn ← (← req.getObjVal? "fn").getStr?
  let a : Float ← Codec.dec (← req.getObjVal? "a")
  let b : Float ← Codec.dec (← req.getObjVal? "b")
  let bounded := (req.getObjValAs? Bool "bounded").toOption.getD false
  let v ← match fn with
    | "laplace_scale" => pure (Gen.F.mech_laplace_scale bounded a b)
    | "gaussian_scale" => pure (Gen.F.mech_gaussian_scale bounded b a 0.0 0.0)   -- a = sensitivity, b = sigma_ana
    | "gaussian_arg" => pure (Gen.F.mech_gaussian_noise_scale_arg a)
    | "laplace_arg" => pure (Gen.F.mech_laplace_noise_scale_arg a)
    | _ => throw s!"unknown fn {fn}"
  pure (Json.mkObj [("val", Codec.enc v)])

end PGM.Driver
