import PGM.Driver.Codec
import PGM.Model.Local
/-! driver handler for the control structure of `LocalInference.mirror_descent_auto` (C18):
`mda_trace` runs `Local.mda` on the *recorded* oracle — the losses and feasibility values the
implementation observed, attempt by attempt — and returns every decision the model takes
(restarts, step sizes, damping, extra oracle calls), for comparison with what the implementation did. -/
open Lean
namespace PGM.Driver
open PGM PGM.Local

structure RecAttempt where
  alpha : Float
  /-- `losses[i]` = loss of the output of the `i`-th oracle call of the attempt -/
  losses : Array Float
  /-- `feas[j]` = `primal_feasibility` of the iterate after `j` extra calls -/
  feas : Array Float

def nanF : Float := 0.0 / 0.0

/-- the trace instance: a potential vector is the list of step sizes applied since `theta0`; a
marginal vector is the potential vector it was computed from plus the number of extra calls made
on it; the oracle state is the damping -/
def traceOps (recs : List RecAttempt) (hasDamping : Bool) : Ops Float (List Float) (List Float × Nat) Unit Float where
  bp := fun d th => ((th, 0), d)
  loss := fun mu =>
    let rec? := match mu.1 with
      | [] => recs.head?
      | a :: _ => recs.find? (fun r => r.alpha == a)
    (match rec? with
     | some r => if h : mu.1.length < r.losses.size then r.losses[mu.1.length] else nanF
     | none => nanF, ())
  upd := fun th a _ => th ++ [a]
  feasible := fun mu =>
    match (match mu.1 with | [] => recs.head? | a :: _ => recs.find? (fun r => r.alpha == a)) with
    | some r => if h : mu.2 < r.feas.size then r.feas[mu.2] < 1.0 else false
    | none => false
  bump := if hasDamping then some (fun d => (0.9 + d) / 2.0) else none
  gt := fun l p => l > p
  half := fun a => a / 2.0

/-- the extra calls all use the final potential vector; count them on the marginal's second component -/
def traceOpsPost (recs : List RecAttempt) (hasDamping : Bool) : Ops Float (List Float) (List Float × Nat) Unit (Float × Nat) where
  bp := fun st th => ((th, st.2), (st.1, st.2 + 1))
  loss := fun mu => (traceOps recs hasDamping).loss (mu.1, 0)
  upd := fun th a _ => th ++ [a]
  feasible := fun mu =>
    match (match mu.1 with | [] => recs.head? | a :: _ => recs.find? (fun r => r.alpha == a)) with
    | some r =>
      -- `mu.2` = number of oracle calls before the one that produced `mu`; the loop's last call is number `|θ|`
      let j := mu.2 - mu.1.length
      if h : j < r.feas.size then r.feas[j] < 1.0 else false
    | none => false
  bump := if hasDamping then some (fun st => ((0.9 + st.1) / 2.0, st.2)) else none
  gt := fun l p => l > p
  half := fun a => a / 2.0

def decRecAttempt (j : Json) : Except String RecAttempt := do
  let alpha : Float ← Codec.dec (← j.getObjVal? "alpha")
  let losses : List Float ← decList (← j.getObjVal? "losses")
  let feas : List Float ← decList (← j.getObjVal? "feas")
  pure { alpha, losses := losses.toArray, feas := feas.toArray }

def handleMdaTrace (req : Json) : Except String Json := do
  let alpha0 : Float ← Codec.dec (← req.getObjVal? "alpha0")
  let iters ← (← req.getObjVal? "iters").getNat?
  let fuel ← (← req.getObjVal? "fuel").getNat?
  let hasDamping ← (← req.getObjVal? "has_damping").getBool?
  let damping0 : Float ← Codec.dec (← req.getObjVal? "damping0")
  let recs ← (← (← req.getObjVal? "attempts").getArr?).toList.mapM decRecAttempt
  let O := traceOpsPost recs hasDamping
  match mda O [] (damping0, 0) iters fuel 0 alpha0 with
  | .recursion => pure (Json.mkObj [("outcome", "recursion")])
  | .unbound => pure (Json.mkObj [("outcome", "unbound")])
  | .ok r =>
    pure (Json.mkObj [("outcome", "ok"), ("restarts", r.restarts), ("alpha", Codec.enc r.alpha), ("post", r.post),
      ("l", Codec.enc r.l), ("damping", Codec.enc r.st.1), ("theta", encList r.theta),
      ("log", Json.arr (r.log.map (fun e => Json.arr #[Json.num ⟨e.t, 0⟩, Codec.enc e.l, Codec.enc e.alpha, Json.bool e.worse])).toArray)])

def encLog (log : List (IterRec Float)) : Json :=
  Json.arr (log.map (fun e => Json.arr #[Json.num ⟨e.t, 0⟩, Codec.enc e.l, Codec.enc e.alpha, Json.bool e.worse])).toArray

/-- one activation only: where it restarts, or that it runs to the end -/
def handleMdaAttempt (req : Json) : Except String Json := do
  let alpha : Float ← Codec.dec (← req.getObjVal? "alpha")
  let iters ← (← req.getObjVal? "iters").getNat?
  let hasDamping ← (← req.getObjVal? "has_damping").getBool?
  let damping0 : Float ← Codec.dec (← req.getObjVal? "damping0")
  let recs ← (← (← req.getObjVal? "attempts").getArr?).toList.mapM decRecAttempt
  let O := traceOpsPost recs hasDamping
  match attempt O [] (damping0, 0) alpha iters with
  | (.restart t, log) => pure (Json.mkObj [("outcome", "restart"), ("t", t), ("log", encLog log)])
  | (.finished s, log) => pure (Json.mkObj [("outcome", "finished"), ("damping", Codec.enc s.st.1), ("log", encLog log)])

end PGM.Driver
