import PGM.Driver.Codec
/-! driver handlers for the factor algebra (C14) -/
open Lean
namespace PGM.Driver

open PGM

def factorOp {α} [Codec α] [Scalar α] (req : Json) : Except String Json := do
  let fn ← (← req.getObjVal? "fn").getStr?
  let f : Factor α ← decFactor (← req.getObjVal? "f")
  let getG : Except String (Factor α) := do decFactor (← req.getObjVal? "g")
  let getC : Except String α := do Codec.dec (← req.getObjVal? "c")
  let okF (r : Factor α) : Except String Json := pure (encFactor r)
  let okS (v : α) : Except String Json := pure (Json.mkObj [("val", Codec.enc v)])
  let guard (b : Bool) : Except String Unit := if b then pure () else throw "raise"
  match fn with
  | "expand" => do
    let d ← decDom (← req.getObjVal? "dom2")
    guard (f.preExpand d); okF (f.expand d)
  | "transpose" => do
    let as ← getAttrs req "attrs"
    guard (f.preTranspose as); okF (f.transpose as)
  | "project" => do
    let as ← getAttrs req "attrs"
    guard (f.prePoject as); okF (f.projectSum as)
  | "project_lse" => do
    let as ← getAttrs req "attrs"
    guard (f.prePoject as); okF (f.projectLse as)
  | "sum" => do
    let as ← getAttrs req "attrs"
    guard (f.preReduce as); okF (f.sum as)
  | "logsumexp" => do
    let as ← getAttrs req "attrs"
    guard (f.preReduce as); okF (f.logsumexp as)
  | "max" => do
    let as ← getAttrs req "attrs"
    guard (f.preReduce as); okF (f.max as)
  | "sum_all" => okS f.sumAll
  | "logsumexp_all" => okS f.logsumexpAll
  | "max_all" => okS f.maxAll
  | "condition" => do
    let ev ← decDom (← req.getObjVal? "ev")
    okF (f.condition ev)
  | "add" => do okF (f.add (← getG))
  | "mul" => do okF (f.mul (← getG))
  | "sub" => do okF (f.sub (← getG))
  | "div" => do
    let g ← getG
    guard (g.preExpand f.dom); okF (f.divF g)
  | "logaddexp" => do okF (f.logaddexpF (← getG))
  | "iadd" => do
    let g ← getG
    guard (g.preExpand f.dom); okF (f.iadd g)
  | "imul" => do
    let g ← getG
    guard (g.preExpand f.dom); okF (f.imul g)
  | "mul_scalar" => do okF (f.mulScalar (← getC))
  | "add_scalar" => do okF (f.addScalar (← getC))
  | "sub_scalar" => do okF (f.subScalar (← getC))
  | "div_scalar" => do okF (f.divScalar (← getC))
  | "iadd_scalar" => do okF (f.iaddScalar (← getC))
  | "imul_scalar" => do okF (f.imulScalar (← getC))
  | "exp" => okF f.exp
  | "log" => okF f.log
  | "copy" => okF f.copy
  | _ => throw s!"unknown fn {fn}"

def handleC14 (req : Json) : Except String Json := do
  let k := (req.getObjValAs? String "k").toOption.getD "q"
  if k == "f" then factorOp (α := Float) req else factorOp (α := ExtQ) req

end PGM.Driver
