import PGM.Driver.C01
import PGM.Model.Loss
/-! driver handler for the estimation objective (C04) -/
open Lean
namespace PGM.Driver
open PGM PGM.JT PGM.Loss

def decMeas {α : Type} [Codec α] (j : Json) : Except String (Meas α) := do
  let rows ← (← j.getObjVal? "Q").getArr?
  let Q : List (List α) ← rows.toList.mapM decList
  let y : List α ← decList (← j.getObjVal? "y")
  let noise : α ← Codec.dec (← j.getObjVal? "noise")
  let proj : List Attr ← decList (← j.getObjVal? "proj")
  pure ⟨Q, y, noise, proj⟩

def handleLoss (req : Json) : Except String Json := do
  let dom ← decDom (← req.getObjVal? "dom")
  let cliques ← decCliques (← req.getObjVal? "cliques")
  let meas : List (Meas ExtQ) ← (← (← req.getObjVal? "meas").getArr?).toList.mapM decMeas
  let mu : CliqueVec ExtQ ← decCliqueVec (← req.getObjVal? "mu")
  let eigs : List ExtQ ← decList (← req.getObjVal? "eigs")
  let l1 := (req.getObjValAs? Bool "l1").toOption.getD false
  let (loss, grad) := if l1 then marginalLossL1 dom cliques meas mu else marginalLoss dom cliques meas mu
  let lip := lipschitz dom cliques meas eigs
  let groups := meas.map (fun m => match groupOf dom cliques m.proj with
    | some c => (encList c : Json) | none => Json.null)
  pure (Json.mkObj [("loss", Codec.enc loss), ("grad", encCliqueVec grad), ("lipschitz", Codec.enc lip),
    ("groups", .arr groups.toArray)])

end PGM.Driver
