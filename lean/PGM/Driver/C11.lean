import PGM.Driver.Codec
import PGM.Model.Synth
import PGM.Model.SynthChain
/-! driver handler for synthetic columns (C11) -/
open Lean
namespace PGM.Driver
open PGM PGM.Synth

/-- a batch of `(counts, total, out)` triples checked by the verified `colOK` -/
def handleColCheck (req : Json) : Except String Json := do
  let items ← (← req.getObjVal? "items").getArr?
  let res ← items.toList.mapM (fun it => do
    let counts : List Rat ← decList (← it.getObjVal? "counts")
    let total ← (← it.getObjVal? "total").getNat?
    let out : List Nat ← decList (← it.getObjVal? "out")
    pure (Json.bool (colOK counts total out)))
  pure (Json.mkObj [("ok", .arr res.toArray)])

def decNatLists (j : Json) : Except String (List (List Nat)) := do
  (← j.getArr?).toList.mapM (fun x => (decList x : Except String (List Nat)))

/-- one step of the column loop: `cond` arrives as a list of `[key, counts]` pairs (the slices of the model marginal) -/
def decColSpec (j : Json) : Except String ColSpec := do
  let col ← (← j.getObjVal? "col").getNat?
  let proj : List Nat ← decList (← j.getObjVal? "proj")
  let size ← (← j.getObjVal? "size").getNat?
  let tbl ← (← (← j.getObjVal? "cond").getArr?).toList.mapM (fun e => do
    let k : List Nat ← decList (← e.getObjVal? "key")
    let c : List Rat ← decList (← e.getObjVal? "counts")
    pure (k, c))
  pure ⟨col, proj, size, fun g => (tbl.lookup g).getD []⟩

/-- the whole table of `synthetic_data` replayed from the recorded outcomes of `synthetic_col`, the admissibility of those outcomes
(`outsOK`: group sizes, domain, verified `colOK` on every group histogram), and — when a parent function is supplied — the chain-rule
targets and the row-independent error bound of `synthTable_clique_error` evaluated on the replayed table -/
def handleSynthTable (req : Json) : Except String Json := do
  let ncols ← (← req.getObjVal? "ncols").getNat?
  let total ← (← req.getObjVal? "total").getNat?
  let specs ← (← (← req.getObjVal? "specs").getArr?).toList.mapM decColSpec
  let outs ← (← (← req.getObjVal? "outs").getArr?).toList.mapM decNatLists
  let init := List.replicate total (List.replicate ncols 0)
  let tab := synthTable ncols total specs outs
  -- group keys seen by every step (pandas visits them in this order)
  let keys := (List.range specs.length).map (fun k =>
    groupKeys (specAt specs k).proj (synthTable ncols total (specs.take k) (outs.take k)))
  let base := [("table", Json.arr (tab.map (fun r => (encList r : Json))).toArray),
    ("wf", Json.bool (specsWF ncols [] specs)), ("outs_ok", Json.bool (outsOK ncols total specs outs init)),
    ("keys", Json.arr (keys.map (fun ks => Json.arr (ks.map (fun k => (encList k : Json))).toArray)).toArray)]
  match req.getObjVal? "parent" with
  | .ok pj => do
    let par : List Nat ← decList pj
    let parent := fun k => par.getD k 0
    let S : Rat ← Codec.dec (← req.getObjVal? "mass")
    let worst := (List.range specs.length).map (fun k =>
      let sp := specAt specs k
      let cells := tuplesOver (attrSize specs) sp.proj
      let errs := cells.flatMap (fun g => (List.range sp.size).map (fun v =>
        let n : Rat := (cellCount (sp.proj ++ [sp.col]) (g ++ [v]) tab : Nat)
        let d := n - target specs parent total k g v
        if d < 0 then -d else d))
      errs.foldl (fun a b => if a < b then b else a) 0)
    pure (Json.mkObj (base ++ [("chain_wf", Json.bool (chainWF specs parent)),
      ("marg_consistent", Json.bool (margConsistent specs parent S)),
      ("err_bound", encList ((List.range specs.length).map (errBound specs parent))),
      ("worst_err", encList worst)]))
  | .error _ => pure (Json.mkObj base)

end PGM.Driver
