import PGM.Driver.Codec
import PGM.Model.Synth
/-! driver handler for synthetic columns (C11) -/
open Lean
namespace PGM.Driver
open PGM PGM.Synth

/-- a batch of `(counts, total, out)` triples checked by the verified `colOK` -/
def handleColCheck (req : Json) : Except String Json := do
  let items ← (← req.getObjVal? "items").getArr?
  let res ← items.toList.mapM (fun it => do
    let counts : List Rat ← decList (← it.getObjVal? "counts")
    let total ← (← it.getObjVal? "total").getNat?
    let out : List Nat ← decList (← it.getObjVal? "out")
    pure (Json.bool (colOK counts total out)))
  pure (Json.mkObj [("ok", .arr res.toArray)])

end PGM.Driver
