import PGM.Driver.Codec
import PGM.Driver.C12
import PGM.Driver.C01
import PGM.Model.RegionGraph
import PGM.Model.FactorGraph
import PGM.Model.RGCheck
/-! driver handlers for the approximate marginal oracles (C16, C17, C18):
`rg_build` (structure validation), `gbp`, `hps`, `lbp` (message passing on `Float`) -/
open Lean
namespace PGM.Driver
open PGM PGM.JT PGM.GM PGM.RG

def sameSetL {β : Type} [BEq β] (a b : List β) : Bool :=
  a.all (fun x => b.contains x) && b.all (fun x => a.contains x) && nodup a && nodup b

/-- `[[key, [v, …]], …]` -/
def decAdj {κ β : Type} (dk : Json → Except String κ) (dv : Json → Except String β) (j : Json) :
    Except String (List (κ × List β)) := do
  (← j.getArr?).toList.mapM (fun e => do
    let a ← e.getArr?
    if a.size ≠ 2 then throw "bad adjacency entry"
    let k ← dk a[0]!
    let vs ← (← a[1]!.getArr?).toList.mapM dv
    pure (k, vs))

def optField (j : Json) (k : String) : Option Json := (j.getObjVal? k).toOption

def decAdjOpt {κ β : Type} (dk : Json → Except String κ) (dv : Json → Except String β) (j : Json) (k : String) :
    Except String (List (κ × List β)) :=
  match optField j k with
  | some v => if v.isNull then pure [] else decAdj dk dv v
  | none => pure []

def decCounting (j : Json) : Except String (List (Region × Int)) := do
  (← j.getArr?).toList.mapM (fun e => do
    let a ← e.getArr?
    if a.size ≠ 2 then throw "bad counting entry"
    let r ← decClique a[0]!
    let q : Rat ← Codec.dec a[1]!
    if q.den ≠ 1 then throw "non-integer counting number"
    pure (r, q.num))

/-- the exported `RegionGraph` structure -/
def decGraph (j : Json) : Except String RG.Graph := do
  let regions ← decCliques (← j.getObjVal? "regions")
  let cliques ← decCliques (← j.getObjVal? "cliques")
  let children ← decAdj decClique decClique (← j.getObjVal? "children")
  let parents ← decAdj decClique decClique (← j.getObjVal? "parents")
  let descendants ← decAdjOpt decClique decClique j "descendants"
  let ancestors ← decAdjOpt decClique decClique j "ancestors"
  let children0 ← decAdjOpt decClique decClique j "children0"
  let parents0 ← decAdjOpt decClique decClique j "parents0"
  let counting ← match optField j "counting" with
    | some v => decCounting v
    | none => pure []
  let N ← decAdjOpt decPair decPair j "N"
  let D ← decAdjOpt decPair decPair j "D"
  let B ← decAdjOpt decClique decPair j "B"
  let order ← decPairs (← j.getObjVal? "message_order")
  pure { regions, cliques, children, parents, descendants, ancestors, children0, parents0, counting, N, D, B,
         messageOrder := order }

def showR (r : Region) : String := "(" ++ ",".intercalate r ++ ")"
def showE (e : Edge) : String := showR e.1 ++ "->" ++ showR e.2

/-- compare two dictionaries `key ↦ list`: same key set; per key the same set; reports order
differences separately -/
def cmpAdj {κ β : Type} [BEq κ] [BEq β] (name : String) (sk : κ → String) (model impl : List (κ × List β)) :
    List String × List String :=
  let keysOK := sameSetL (model.map Prod.fst) (impl.map Prod.fst)
  let bad := if keysOK then [] else [s!"{name}: key sets differ (model {model.length} keys, implementation {impl.length})"]
  model.foldl (fun (acc : List String × List String) (e : κ × List β) =>
    match impl.lookup e.1 with
    | none => acc
    | some vs =>
      if !(sameSetL e.2 vs) then (acc.1 ++ [s!"{name}[{sk e.1}]: model has {e.2.length} entries, implementation {vs.length}, different as sets"], acc.2)
      else if e.2 != vs then (acc.1, acc.2 ++ [s!"{name}[{sk e.1}]"])
      else acc) (bad, [])

def encAdj (l : List (Region × List Region)) : Json :=
  .arr (l.map (fun (r, vs) => Json.arr #[encList r, encCliques vs])).toArray
def encEdges (l : List Edge) : Json := .arr (l.map (fun e => Json.arr #[encList e.1, encList e.2])).toArray

def handleRGBuild (req : Json) : Except String Json := do
  let cliques ← decCliques (← req.getObjVal? "cliques")
  let convex ← (← req.getObjVal? "convex").getBool?
  let minimal ← (← req.getObjVal? "minimal").getBool?
  let implJ ← req.getObjVal? "impl"
  let impl ← decGraph implJ
  let own := closure (initCliques cliques convex)
  let m := buildOn impl.regions convex minimal
  let mut bad : List String := []
  let mut ord : List String := []
  if !(sameSetL own impl.regions) then
    bad := bad ++ [s!"regions: closure of the model has {own.length} regions, implementation {impl.regions.length}, different as sets"]
  if m.cliques != impl.cliques then
    if sameSetL m.cliques impl.cliques then ord := ord ++ ["cliques"] else bad := bad ++ ["cliques (sorted regions) differ as sets"]
  for (name, a, b) in [("children", m.children, impl.children), ("parents", m.parents, impl.parents),
      ("descendants", m.descendants, impl.descendants), ("ancestors", m.ancestors, impl.ancestors)] do
    let (x, y) := cmpAdj name showR a b
    bad := bad ++ x; ord := ord ++ y
  if !impl.children0.isEmpty then
    let (x, y) := cmpAdj "children0" showR m.children0 impl.children0
    bad := bad ++ x; ord := ord ++ y
  if !impl.parents0.isEmpty then
    let (x, y) := cmpAdj "parents0" showR m.parents0 impl.parents0
    bad := bad ++ x; ord := ord ++ y
  -- counting numbers
  if !(sameSetL (m.counting.map Prod.fst) (impl.counting.map Prod.fst)) then
    bad := bad ++ ["counting numbers: key sets differ"]
  for rc in m.counting do
    let c : Int := rc.2
    match impl.counting.lookup rc.1 with
    | some (c' : Int) => if c != c' then bad := bad ++ [s!"counting[{showR rc.1}]: model {c}, implementation {c'}"]
    | none => pure ()
  if !convex then
    let (x, y) := cmpAdj "N" showE m.N impl.N
    bad := bad ++ x; ord := ord ++ y
    let (x, y) := cmpAdj "D" showE m.D impl.D
    bad := bad ++ x; ord := ord ++ y
    let (x, y) := cmpAdj "B" showR m.B impl.B
    bad := bad ++ x; ord := ord ++ y
  if m.messageOrder != impl.messageOrder then
    if sameSetL m.messageOrder impl.messageOrder then ord := ord ++ ["message_order"]
    else bad := bad ++ [s!"message_order: model {m.messageOrder.length} messages, implementation {impl.messageOrder.length}, different as sets"]
  -- the message dictionary has both directions of every edge
  match optField implJ "message_keys" with
  | some v =>
    let keys ← decPairs v
    let want := m.messageOrder.flatMap (fun e => [(e.1, e.2), (e.2, e.1)])
    if !(sameSetL keys want) then bad := bad ++ ["messages: key set is not both directions of every edge"]
  | none => pure ()
  -- the model's stand-alone construction (own iteration order) for inspection
  let ownG := build cliques convex minimal
  pure (Json.mkObj [("mismatch", encList bad), ("order", encList ord),
    ("n_regions", Codec.enc m.regions.length), ("n_edges", Codec.enc m.messageOrder.length),
    ("n_edges0", Codec.enc (m.children0.map (fun e => e.2.length)).sum),
    ("own_regions", encCliques ownG.regions), ("own_edges", encEdges ownG.messageOrder)])

/-! ### message passing (Float) -/

structure Call where
  iters : Nat
  pots : CliqueVec Float
  /-- `obj.damping` at the time of the call, when it differs from the request-level value -/
  damping : Option Float := none

def decCalls (req : Json) : Except String (List Call) := do
  (← (← req.getObjVal? "calls").getArr?).toList.mapM (fun c => do
    let iters ← (← c.getObjVal? "iters").getNat?
    let pots : CliqueVec Float ← decCliqueVec (← c.getObjVal? "pots")
    let damping : Option Float ← match optField c "damping" with
      | some v => if v.isNull then pure none else (do let d : Float ← Codec.dec v; pure (some d))
      | none => pure none
    pure ⟨iters, pots, damping⟩)

def encMsgs (m : RG.Msgs Float) : Json :=
  .arr (m.map (fun (e, f) => Json.mkObj [("from", encList e.1), ("to", encList e.2), ("dom", encDom f.dom),
    ("vals", encList f.vals.data.toList)])).toArray

def wantMsgs (req : Json) : Bool :=
  match optField req "want_msgs" with
  | some (.bool b) => b
  | _ => false

def handleGBP (req : Json) : Except String Json := do
  let dom ← decDom (← req.getObjVal? "dom")
  let g ← decGraph (← req.getObjVal? "rg")
  let total : Float ← Codec.dec (← req.getObjVal? "total")
  let calls ← decCalls req
  let mut msgs : RG.Msgs Float := initMessages dom g.messageOrder
  let mut out : Array Json := #[]
  for c in calls do
    if !(prePots g c.pots) then throw "raise KeyError"
    let (marg, msgs') := gbp dom g c.pots total c.iters msgs
    msgs := msgs'
    out := out.push (Json.mkObj [("marg", encCliqueVec marg), ("pf", Codec.enc (primalFeasibility g marg))])
  pure (Json.mkObj ([("results", Json.arr out)] ++ (if wantMsgs req then [("msgs", encMsgs msgs)] else [])))

/-- largest cell-wise difference; `b`'s tables are brought to `a`'s attribute order first -/
def maxAbsDiff (a b : CliqueVec Float) : Float :=
  a.foldl (fun (acc : Float) (e : Clique × Factor Float) =>
    let other := ((b.get e.1).transpose e.2.dom.attrs).datavector
    (List.zipWith (fun x y => Float.abs (x - y)) e.2.datavector other).foldl FloatS.fmax acc) 0.0

def decMsgs (j : Json) : Except String (RG.Msgs Float) := do
  (← j.getArr?).toList.mapM (fun e => do
    let a ← decClique (← e.getObjVal? "from")
    let b ← decClique (← e.getObjVal? "to")
    let f : Factor Float ← decFactor e
    pure ((a, b), f))

/-- the optimality certificate of C17 evaluated on the implementation's own messages and tables -/
def handleHPSCert (req : Json) : Except String Json := do
  let dom ← decDom (← req.getObjVal? "dom")
  let g ← decGraph (← req.getObjVal? "rg")
  let total : Float ← Codec.dec (← req.getObjVal? "total")
  let pots : CliqueVec Float ← decCliqueVec (← req.getObjVal? "pots")
  let msgs ← decMsgs (← req.getObjVal? "msgs")
  let mu : CliqueVec Float ← decCliqueVec (← req.getObjVal? "marg")
  if !(prePots g pots) then throw "raise KeyError"
  let pot := potOf dom g pots
  let dual := dualValue g pot total msgs
  let primal := primalValue g pot total mu
  let lag := lagrangianBeliefs g pot total msgs
  pure (Json.mkObj [("dual", Codec.enc dual), ("primal", Codec.enc primal), ("gap", Codec.enc (dual - primal)),
    ("lagr_err", Codec.enc (maxAbsDiff mu lag)), ("pf", Codec.enc (primalFeasibility g mu)),
    -- the verified checker of the certificate's graph-level hypotheses (`Convex.graphCheck_sound`), on the implementation's own graph
    ("graph_check", Json.bool (graphCheck dom g)),
    -- layout of the potentials and of both directions of every message (`hps_certificate_checked_warm`)
    ("layout_check", Json.bool (
      g.regions.all (fun r => decide (pot r).WF && (pot r).dom == dom.project r) &&
      g.regions.all (fun p => (look g.children p).all (fun c =>
        decide (msgs.get (c, p)).WF && decide (msgs.get (p, c)).WF &&
        (msgs.get (c, p)).dom == dom.project c && (msgs.get (p, c)).dom == dom.project c))))])

def handleHPS (req : Json) : Except String Json := do
  let dom ← decDom (← req.getObjVal? "dom")
  let g ← decGraph (← req.getObjVal? "rg")
  let total : Float ← Codec.dec (← req.getObjVal? "total")
  let rho : Float ← Codec.dec (← req.getObjVal? "damping")
  let conv : Float ← Codec.dec (← req.getObjVal? "convergence")
  let calls ← decCalls req
  let c0 (r : Region) : Float := ofInt ((g.counting.lookup r).getD 1)
  let mut msgs : RG.Msgs Float := initMessages dom g.messageOrder
  let mut out : Array Json := #[]
  for c in calls do
    if !(prePots g c.pots) then throw "raise KeyError"
    if !(preHps c.iters) then throw "raise UnboundLocalError"
    let (mu, msgs', sweeps) := hps dom g c0 c.pots total c.iters (c.damping.getD rho) conv msgs
    msgs := msgs'
    let pot := potOf dom g c.pots
    let dual := dualValue g pot total msgs
    let primal := primalValue g pot total mu
    let lag := lagrangianBeliefs g pot total msgs
    out := out.push (Json.mkObj [("marg", encCliqueVec mu), ("sweeps", Codec.enc sweeps),
      ("pf", Codec.enc (primalFeasibility g mu)), ("dual", Codec.enc dual), ("primal", Codec.enc primal),
      ("gap", Codec.enc (dual - primal)), ("lagr_err", Codec.enc (maxAbsDiff mu lag))])
  pure (Json.mkObj ([("results", Json.arr out)] ++ (if wantMsgs req then [("msgs", encMsgs msgs)] else [])))

def handleLBP (req : Json) : Except String Json := do
  let dom ← decDom (← req.getObjVal? "dom")
  let cliques ← decCliques (← req.getObjVal? "cliques")
  let total : Float ← Codec.dec (← req.getObjVal? "total")
  let calls ← decCalls req
  let mut st : FG.State Float := FG.initMessages dom cliques
  let mut out : Array Json := #[]
  for c in calls do
    if !(FG.prePots cliques c.pots) then throw "raise KeyError"
    let (marg, st') := FG.lbp dom cliques c.pots total c.iters st
    st := st'
    out := out.push (Json.mkObj [("marg", encCliqueVec marg), ("pf", Codec.enc (FG.primalFeasibility marg))])
  let counting := Json.arr (dom.attrs.map (fun a => Json.arr #[Json.str a, Json.num ⟨FG.countingAttr cliques a, 0⟩])).toArray
  pure (Json.mkObj [("results", Json.arr out), ("counting", counting)])

end PGM.Driver
