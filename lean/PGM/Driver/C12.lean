import PGM.Driver.Codec
import PGM.Model.JTree
/-! driver handler for junction trees (C12) -/
open Lean
namespace PGM.Driver
open PGM PGM.JT

def decClique (j : Json) : Except String Clique := decList j
def decCliques (j : Json) : Except String (List Clique) := do
  (← j.getArr?).toList.mapM decClique
def decPair (j : Json) : Except String (Clique × Clique) := do
  let a ← j.getArr?
  if a.size ≠ 2 then throw "bad pair"
  pure (← decClique a[0]!, ← decClique a[1]!)
def decPairs (j : Json) : Except String (List (Clique × Clique)) := do
  (← j.getArr?).toList.mapM decPair
def encCliques (l : List Clique) : Json := .arr (l.map (fun c => (encList c : Json))).toArray

def handleJT (req : Json) : Except String Json := do
  let dom ← decDom (← req.getObjVal? "dom")
  let cliques ← decCliques (← req.getObjVal? "cliques")
  let order : List Attr ← decList (← req.getObjVal? "order")
  let nodes ← decCliques (← req.getObjVal? "nodes")
  let edges ← decPairs (← req.getObjVal? "edges")
  let mp ← decPairs (← req.getObjVal? "mp_order")
  let t : Tree := ⟨nodes, edges⟩
  let attrs := dom.attrs
  let g := makeGraph attrs cliques
  let tri := triangulate g order
  let mc := (maximalCliques tri).map (canonical attrs)
  let greedy := greedyOrder dom cliques attrs attrs.length
  let chk := Json.mkObj [
    ("covers_input", coversInput cliques nodes), ("covers_domain", coversDomain attrs nodes),
    ("antichain", antichain nodes), ("is_tree", isTree t), ("rip", rip attrs t),
    ("schedule_complete", scheduleComplete t mp), ("schedule_respects", scheduleRespects t [] mp),
    ("topo", isTopoSort (messages t) (depEdges t) mp),
    ("preorder", isPreorder t nodes), ("rip_order", ripOrder nodes),
    ("all", checkJT attrs cliques t mp)]
  pure (Json.mkObj [("check", chk), ("model_nodes", encCliques mc), ("weight", Codec.enc (weight t)),
    ("bound", Codec.enc (weightBound attrs nodes)), ("greedy", encList greedy),
    ("fill", Codec.enc (fillIn g order).length)])

/-- the stochastic / integer mode of `_make_tree`: the recorded draws of every stochastic run -/
def handleJTPicks (req : Json) : Except String Json := do
  let dom ← decDom (← req.getObjVal? "dom")
  let cliques ← decCliques (← req.getObjVal? "cliques")
  let runs ← (← (← req.getObjVal? "picks").getArr?).toList.mapM (fun j => (decList j : Except String (List Nat)))
  let attrs := dom.attrs
  let det := greedyOrder dom cliques attrs attrs.length
  let detc := greedyCost dom cliques det
  let sto := runs.map (fun pk => greedyOrderPicks dom cliques attrs pk)
  let all := (det, detc) :: sto
  let chosen := (firstMin all).getD ([], 0)
  pure (Json.mkObj [("orders", .arr (all.map (fun o => Json.mkObj [("order", encList o.1), ("cost", Codec.enc o.2)])).toArray),
    ("chosen", encList chosen.1)])

end PGM.Driver
