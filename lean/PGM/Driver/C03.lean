import PGM.Driver.Codec
import PGM.Model.Certificate
/-! driver handler for the optimality certificate (C03), Float instance -/
open Lean
namespace PGM.Driver
open PGM PGM.Cert

def handleFWGap (req : Json) : Except String Json := do
  let msJ ← (← req.getObjVal? "ms").getArr?
  let ms : List (List (List Float) × List Float) ← msJ.toList.mapM (fun m => do
    let rows ← (← m.getObjVal? "A").getArr?
    let A : List (List Float) ← rows.toList.mapM decList
    let y : List Float ← decList (← m.getObjVal? "y")
    pure (A, y))
  let p : List Float ← decList (← req.getObjVal? "p")
  let T : Float ← Codec.dec (← req.getObjVal? "T")
  pure (Json.mkObj [("loss", Codec.enc (loss ms p)), ("gap", Codec.enc (fwGap ms p T))])

end PGM.Driver
