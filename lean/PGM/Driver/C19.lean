import PGM.Driver.Codec
import PGM.Model.Public
/-! driver handler for public-data reweighting (C19), Float instance -/
open Lean
namespace PGM.Driver
open PGM PGM.Public

def handleEmd (req : Json) : Except String Json := do
  let msJ ← (← req.getObjVal? "ms").getArr?
  let ms : List (List (List Float) × List Float) ← msJ.toList.mapM (fun m => do
    let rows ← (← m.getObjVal? "A").getArr?
    let A : List (List Float) ← rows.toList.mapM decList
    let y : List Float ← decList (← m.getObjVal? "y")
    pure (A, y))
  let x0 : List Float ← decList (← req.getObjVal? "x0")
  let total : Float ← Codec.dec (← req.getObjVal? "total")
  let iters ← (← req.getObjVal? "iters").getNat?
  let w := emd (lossgradQuad ms) x0 total (Float.ofBits 1) iters
  let lg := lossgradQuad ms w
  pure (Json.mkObj [("w", encList w), ("loss", Codec.enc lg.1)])

end PGM.Driver
