/-!
# `LocalInference.mirror_descent_auto` (`src/mbi/local_inference.py`, lines 84-126)

The control structure of approximate estimation, over an *abstract* marginal oracle: mirror
descent with a step size that is halved — restarting from the saved potentials and messages while
`t ≤ 50`, continuing (and raising the oracle's damping, where it has one) afterwards — followed by
up to 1000 oracle calls without gradient step until the oracle's own feasibility measure drops
below 1.

Everything the loop calls is a field of `Ops`:

* `bp st θ`       — `model.belief_propagation(θ)`; `st` is the oracle state that persists on the
                    Python object between calls (`model.messages`, `model.damping`)
* `loss μ`        — `self._marginal_loss(μ)` : loss and gradient
* `upd θ a g`     — `θ - a*g`
* `feasible μ`    — `model.primal_feasibility(μ) < 1.0`
* `bump`          — `model.damping = (0.9 + model.damping)/2` when the oracle has the attribute
                    (`none` for `FactorGraph`, which has no `damping`)
* `gt l p`        — `l > prev_l`; `half a` — `a/2` (`alpha/2` and `alpha *= 0.5` agree on floats)

The Python recursion `return self.mirror_descent_auto(alpha/2, iters, callback)` is bounded by the
interpreter's recursion limit; `fuel` is the number of attempts that fit, `Outcome.recursion` the
`RecursionError`.
-/
namespace PGM
namespace Local

structure Ops (α Θ M G σ : Type) where
  bp : σ → Θ → M × σ
  loss : M → α × G
  upd : Θ → α → G → Θ
  feasible : M → Bool
  bump : Option (σ → σ)
  gt : α → α → Bool
  half : α → α

variable {α Θ M G σ : Type}

/-- what one iteration of the `for t in range(iters)` loop did -/
structure IterRec (α : Type) where
  t : Nat
  /-- `l`, the loss of the iterate the step was taken from -/
  l : α
  /-- the step size used for `theta = theta - alpha*dL` -/
  alpha : α
  /-- `l > prev_l` -/
  worse : Bool
  deriving Repr

/-- loop state: `theta, mu, model state, alpha, prev_l` (`none` = `np.inf`), last `l` -/
structure LoopSt (α Θ M σ : Type) where
  theta : Θ
  mu : M
  st : σ
  alpha : α
  prev : Option α
  l : Option α

inductive AttemptOut (α Θ M σ : Type) where
  /-- the loss rose at iteration `t ≤ 50` -/
  | restart (t : Nat)
  /-- the `for` loop ran to the end -/
  | finished (s : LoopSt α Θ M σ)

def isWorse (O : Ops α Θ M G σ) (l : α) : Option α → Bool
  | none => false          -- `l > np.inf`
  | some p => O.gt l p

def applyBump (O : Ops α Θ M G σ) (st : σ) : σ :=
  match O.bump with
  | some b => b st
  | none => st

/-- the body of the `for t in range(iters)` loop, iterations `t, t+1, …, t+n-1` -/
def loop (O : Ops α Θ M G σ) : Nat → Nat → LoopSt α Θ M σ → List (IterRec α) →
    AttemptOut α Θ M σ × List (IterRec α)
  | 0, _, s, log => (.finished s, log)
  | n + 1, t, s, log =>
    let (l, dL) := O.loss s.mu
    let theta := O.upd s.theta s.alpha dL
    let (mu, st) := O.bp s.st theta
    let worse := isWorse O l s.prev
    let log := log ++ [{ t := t, l := l, alpha := s.alpha, worse := worse }]
    if worse then
      if t ≤ 50 then (.restart t, log)
      else loop O n (t + 1)
        { theta := theta, mu := mu, st := applyBump O st, alpha := O.half s.alpha, prev := some l, l := some l } log
    else loop O n (t + 1) { theta := theta, mu := mu, st := st, alpha := s.alpha, prev := some l, l := some l } log

/-- lines 86-90 and the loop: one activation of `mirror_descent_auto` up to the post-iterations -/
def attempt (O : Ops α Θ M G σ) (theta0 : Θ) (st0 : σ) (alpha : α) (iters : Nat) :
    AttemptOut α Θ M σ × List (IterRec α) :=
  let (mu, st) := O.bp st0 theta0
  loop O iters 0 { theta := theta0, mu := mu, st := st, alpha := alpha, prev := none, l := none } []

/-- lines 113-119: `for _ in range(1000): if feasibility(mu) < 1: break; mu = bp(theta)`;
returns the number of extra oracle calls -/
def post (O : Ops α Θ M G σ) (theta : Θ) : Nat → M → σ → Nat → M × σ × Nat
  | 0, mu, st, k => (mu, st, k)
  | n + 1, mu, st, k =>
    if O.feasible mu then (mu, st, k)
    else
      let (mu, st) := O.bp st theta
      post O theta n mu st (k + 1)

structure Result (α Θ M σ : Type) where
  l : α
  theta : Θ
  mu : M
  st : σ
  /-- number of restarts before the successful attempt -/
  restarts : Nat
  /-- initial step size of the successful attempt -/
  alpha : α
  /-- extra oracle calls of the feasibility phase -/
  post : Nat
  log : List (IterRec α)

inductive Outcome (α Θ M σ : Type) where
  | ok (r : Result α Θ M σ)
  /-- `iters = 0`: `l` is unbound at `return l, theta, mu` (`UnboundLocalError`) -/
  | unbound
  /-- more restarts than the interpreter's stack allows (`RecursionError`) -/
  | recursion

/-- `mirror_descent_auto(alpha, iters)`; `model.potentials = theta0`, `model.messages = messages0`
are what a restart re-installs, so every attempt starts from `(theta0, st0)` -/
def mda (O : Ops α Θ M G σ) (theta0 : Θ) (st0 : σ) (iters : Nat) : Nat → Nat → α → Outcome α Θ M σ
  | 0, _, _ => .recursion
  | fuel + 1, k, alpha =>
    match attempt O theta0 st0 alpha iters with
    | (.restart _, _) => mda O theta0 st0 iters fuel (k + 1) (O.half alpha)
    | (.finished s, log) =>
      match s.l with
      | none => .unbound
      | some l =>
        let (mu, st, p) := post O s.theta 1000 s.mu s.st 0
        .ok { l := l, theta := s.theta, mu := mu, st := st, restarts := k, alpha := alpha, post := p, log := log }

end Local
end PGM
