import PGM.Model.Index
/-!
# L1a — n-dimensional arrays with numpy's indexing contracts

`NdArr α` is a shape plus flat row-major data.  Every numpy primitive used by `factor.py`
(`reshape`, `moveaxis`, `broadcast_to`, `sum/max/logsumexp(axis=…)`, integer/slice indexing,
element-wise arithmetic) is defined through multi-indices: `ofFn shape (fun idx => …)`.
These definitions are the *contract* assumed of numpy; the correspondence check exercises each of
them against numpy itself.
-/
namespace PGM

structure NdArr (α : Type) where
  shape : List Nat
  data : Array α
  deriving Repr

namespace NdArr
variable {α : Type} [Inhabited α]

def ofFn (shape : List Nat) (f : List Nat → α) : NdArr α :=
  ⟨shape, ((cells shape).map f).toArray⟩

def get (a : NdArr α) (idx : List Nat) : α :=
  a.data.getD (ravel a.shape idx) default

/-- well-formed: as many data cells as the shape says -/
def WF (a : NdArr α) : Prop := a.data.size = size a.shape

instance (a : NdArr α) : Decidable a.WF := by unfold WF; infer_instance

/-- numpy `reshape` (C order): same flat data under another shape of the same size -/
def reshape (a : NdArr α) (s : List Nat) : NdArr α := ⟨s, a.data⟩

def ndim (a : NdArr α) : Nat := a.shape.length

/-- `np.transpose(a, perm)`: result axis `k` is input axis `perm[k]` -/
def transposeAx (a : NdArr α) (perm : List Nat) : NdArr α :=
  ofFn (perm.map (fun p => a.shape.getD p 0))
    (fun idx => a.get ((List.range a.shape.length).map (fun j => idx.getD (perm.idxOf j) 0)))

/-- the axis permutation computed by `np.moveaxis(a, src, dst)`: result axis `dst[i]` is input axis
`src[i]`; the remaining input axes fill the remaining result positions in their original order -/
def moveaxisPerm (n : Nat) (src dst : List Nat) : List Nat :=
  let rest := (List.range n).filter (fun j => !src.contains j)
  (List.range n).map (fun p =>
    if dst.contains p then src.getD (dst.idxOf p) 0
    else rest.getD (((List.range p).filter (fun q => !dst.contains q)).length) 0)

def moveaxis (a : NdArr α) (src dst : List Nat) : NdArr α :=
  a.transposeAx (moveaxisPerm a.shape.length src dst)

/-- `np.broadcast_to(a, s)` for equal rank: axes of extent 1 are repeated -/
def broadcastTo (a : NdArr α) (s : List Nat) : NdArr α :=
  ofFn s (fun idx => a.get (List.zipWith (fun i d => if d = 1 then 0 else i) idx a.shape))

/-- can `a` be broadcast to `s` (same rank; each extent equal or 1)? -/
def broadcastable (a : NdArr α) (s : List Nat) : Bool :=
  a.shape.length == s.length && (List.zipWith (fun d e => d == e || d == 1) a.shape s).all id

/-- assemble a full index from the kept part and the reduced part -/
def assemble (n : Nat) (keepPos redPos : List Nat) (kidx ridx : List Nat) : List Nat :=
  (List.range n).map (fun j =>
    if keepPos.contains j then kidx.getD (keepPos.idxOf j) 0 else ridx.getD (redPos.idxOf j) 0)

/-- `np.<reduce>(a, axis=axes)`: the listed axes disappear; the reduction `r` receives the values
along them in row-major order of those axes -/
def reduceAxes (r : List α → α) (a : NdArr α) (axes : List Nat) : NdArr α :=
  let n := a.shape.length
  let keepPos := (List.range n).filter (fun j => !axes.contains j)
  let redPos := (List.range n).filter (fun j => axes.contains j)
  let rshape := redPos.map (fun p => a.shape.getD p 0)
  ofFn (keepPos.map (fun p => a.shape.getD p 0))
    (fun kidx => r ((cells rshape).map (fun ridx => a.get (assemble n keepPos redPos kidx ridx))))

/-- full reduction (`np.sum(a)` etc.) in flat order -/
def reduceAll (r : List α → α) (a : NdArr α) : α := r a.data.toList

/-- `a[tuple(slices)]` where each slice is an integer (`some i`) or `slice(None)` (`none`) -/
def take (a : NdArr α) (slices : List (Option Nat)) : NdArr α :=
  let n := a.shape.length
  let keepPos := (List.range n).filter (fun j => (slices.getD j none).isNone)
  ofFn (keepPos.map (fun p => a.shape.getD p 0))
    (fun kidx => a.get ((List.range n).map (fun j =>
      match slices.getD j none with
      | some i => i
      | none => kidx.getD (keepPos.idxOf j) 0)))

def map {β : Type} (f : α → β) (a : NdArr α) : NdArr β := ⟨a.shape, a.data.map f⟩

/-- element-wise binary operation on arrays of the same shape -/
def zipWith {β γ : Type} (f : α → β → γ) (a : NdArr α) (b : NdArr β) : NdArr γ :=
  ⟨a.shape, Array.zipWith f a.data b.data⟩

def const (s : List Nat) (v : α) : NdArr α := ⟨s, Array.replicate (size s) v⟩

end NdArr
end PGM
