import PGM.Model.Scalar
/-!
# `LogQ` — the exp-space image of log-space arithmetic, exactly

A value `x : LogQ` stands for the log-space number `log x.v` (`x.v = 0` stands for `-∞`).  Log-space
`+` is multiplication, `-x` is `1/x`, `logsumexp` is the sum, `exp`/`log` are the identity on the
carrier.  With this instance the *same* model code that transcribes the log-space Python computes
the exp-space mathematics in exact rational arithmetic (with IEEE ∞/nan conventions of `ExtQ`).
Scalar multiplication of log values (a power) is not rational and is not provided.
-/
namespace PGM

structure LogQ where
  v : ExtQ
  deriving Repr, BEq, Inhabited

namespace LogQ
def isZero : ExtQ → Bool
  | .fin q => q == 0
  | _ => false

instance : Scalar LogQ where
  default := ⟨.fin 1⟩
  zero := ⟨.fin 1⟩
  one := ⟨.nan⟩
  add x y := ⟨ExtQ.mul x.v y.v⟩
  neg x := ⟨ExtQ.div (.fin 1) x.v⟩
  mul _ _ := ⟨.nan⟩
  div _ _ := ⟨.nan⟩
  isNegInf x := isZero x.v
  gt0 x := match x.v with | .fin q => q > 1 | .pinf => true | _ => false
  le0 x := match x.v with | .fin q => q ≤ 1 | _ => false
  max x y := ⟨ExtQ.max x.v y.v⟩
  nanToNum x := x
  exp x := x
  log x := x
  lse l := ⟨(l.map (·.v)).foldl ExtQ.add (.fin 0)⟩
  logaddexp x y := ⟨ExtQ.add x.v y.v⟩
  tiny := ⟨.fin 0⟩
  ofNat _ := ⟨.nan⟩
end LogQ
end PGM
