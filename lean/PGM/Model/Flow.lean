/-!
# `Mech.Prog` — a small imperative language for the mechanisms' information flow (C06)

`tools/py2lean.py` translates the bodies of the four mechanisms into terms of `Stmt`.  Everything
that is not a DP primitive is an *opaque deterministic function* (`Expr.call`); the private dataset
is a variable labelled `H`.  Two primitives:

* `release x operand scale` — `x := operand + noise(scale)`; the operand may be private, the scale
  must be public; the released value is public;
* `select x scores params` — `x := choice(p = f(scores, params))` (an exponential-mechanism
  primitive); the scores may be private, the parameters must be public; the selection is public.

`flowOK Γ s` is a two-level (L/H) type check: private data may reach only the operand of a release
or the scores of a selection; branch conditions, loop iterables and the returned value must be L.
Its soundness (non-interference up to the primitives' outcomes) is `PGM/Proofs/FlowSound.lean`.
-/
namespace PGM
namespace Flow

inductive Label where
  | L | H
  deriving DecidableEq, Repr, Inhabited

def Label.join : Label → Label → Label
  | .L, .L => .L
  | _, _ => .H

inductive Expr where
  | var (x : String)
  | lit (c : String)
  | call (f : String) (args : List Expr)
  deriving Repr, Inhabited

inductive Stmt where
  | skip
  | assign (x : String) (e : Expr)
  | release (x : String) (operand scale : Expr)
  | select (x : String) (scores : Expr) (params : List Expr)
  | seq (s t : Stmt)
  | ite (c : Expr) (s t : Stmt)
  | forIn (x : String) (e : Expr) (body : Stmt)
  | while (c : Expr) (body : Stmt)
  | ret (e : Expr)
  deriving Repr, Inhabited

/-- label environment: listed variables carry their label, every other variable is `H` -/
abbrev Env := List (String × Label)

def Env.get (Γ : Env) (x : String) : Label := (Γ.lookup x).getD .H
def Env.set (Γ : Env) (x : String) (l : Label) : Env := (x, l) :: Γ.filter (fun p => p.1 != x)

mutual
def labE (Γ : Env) : Expr → Label
  | .var x => Γ.get x
  | .lit _ => .L
  | .call _ args => labEs Γ args
def labEs (Γ : Env) : List Expr → Label
  | [] => .L
  | e :: es => (labE Γ e).join (labEs Γ es)
end

/-- pointwise join of two environments on the variables listed in either -/
def Env.join (Γ Δ : Env) : Env :=
  let keys := (Γ.map Prod.fst ++ Δ.map Prod.fst).eraseDups
  keys.map (fun x => (x, (Γ.get x).join (Δ.get x)))

/-- `Γ ⊑ Δ`: every variable is at most as secret in `Γ` as in `Δ` (on the listed keys of either) -/
def Env.le (Γ Δ : Env) : Bool :=
  (Γ.map Prod.fst ++ Δ.map Prod.fst).all (fun x => Γ.get x == .L || Δ.get x == .H)

/-- fixpoint search for loops: the loop guard must be `L` in the current environment, the body is
checked by `step`, and the environment is widened (`join`) until it is stable; `none` if the guard is
secret, the body is rejected, or no fixpoint is found within `n` rounds -/
def fixLoop (guard : Env → Label) (step : Env → Option Env) : Nat → Env → Option Env
  | 0, _ => none
  | n + 1, Γ =>
    if guard Γ = .L then
      match step Γ with
      | some Γ' =>
        let Γ'' := Γ.join Γ'
        if Γ''.le Γ then some Γ else fixLoop guard step n Γ''
      | none => none
    else none

/-- the check; `none` = rejected.  Loops are checked at a fixpoint of their body's effect, searched
for `fuel` rounds (the number of variables suffices). -/
def flow (fuel : Nat) (Γ : Env) : Stmt → Option Env
  | .skip => some Γ
  | .assign x e => some (Γ.set x (labE Γ e))
  | .release x _ scale => if labE Γ scale = .L then some (Γ.set x .L) else none
  | .select x _ params => if labEs Γ params = .L then some (Γ.set x .L) else none
  | .seq s t => (flow fuel Γ s).bind (fun Γ' => flow fuel Γ' t)
  | .ite c s t =>
    if labE Γ c = .L then
      match flow fuel Γ s, flow fuel Γ t with
      | some Γ₁, some Γ₂ => some (Γ₁.join Γ₂)
      | _, _ => none
    else none
  | .forIn x e body => fixLoop (fun Γ => labE Γ e) (fun Γ => flow fuel (Γ.set x .L) body) fuel Γ
  | .while c body => fixLoop (fun Γ => labE Γ c) (fun Γ => flow fuel Γ body) fuel Γ
  | .ret e => if labE Γ e = .L then some Γ else none

/-- accepted iff the check returns an environment -/
def flowOK (fuel : Nat) (Γ : Env) (s : Stmt) : Bool := (flow fuel Γ s).isSome

/-- number of primitives in a program text (for the evidence) -/
def countPrims : Stmt → Nat
  | .release .. => 1
  | .select .. => 1
  | .seq s t => countPrims s + countPrims t
  | .ite _ s t => countPrims s + countPrims t
  | .forIn _ _ b => countPrims b
  | .while _ b => countPrims b
  | _ => 0

end Flow
end PGM
