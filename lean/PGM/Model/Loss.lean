import PGM.Model.GM
/-!
# L4 — the estimation objective (`src/mbi/inference.py`): measurement grouping, loss, gradient,
smoothness constant.  Plain-space arithmetic (`Scalar.add`, `mul`, `div`).
-/
namespace PGM
namespace Loss
variable {α : Type} [Scalar α]
open Scalar JT

/-- a measurement `(Q, y, noise, proj)` with `Q` dense, row by row -/
structure Meas (α : Type) where
  Q : List (List α)
  y : List α
  noise : α
  proj : List Attr

def dot (x y : List α) : α := Scalar.sum (List.zipWith Scalar.mul x y)
/-- `Q @ x` -/
def matVec (Q : List (List α)) (x : List α) : List α := Q.map (fun row => dot row x)
/-- `Q.T @ v` for a matrix with `n` columns -/
def matTVec (Q : List (List α)) (n : Nat) (v : List α) : List α :=
  (List.range n).map (fun j => Scalar.sum (List.zipWith (fun row vi => Scalar.mul (row.getD j Scalar.zero) vi) Q v))

/-- `_setup`'s grouping: the first clique, in (stable) order of increasing size, containing `proj` -/
def groupOf (d : Dom) (cliques : List Clique) (proj : List Attr) : Option Clique :=
  (Dom.sortBy (fun c => d.sizeOf c) cliques).find? (fun c => JT.subset proj c)

/-- residual `c (Q x − y)` of one measurement at the clique marginal `mu` -/
def residual (m : Meas α) (mu : Factor α) : List α :=
  let c := Scalar.div Scalar.one m.noise
  let x := (mu.projectSum m.proj).datavector
  (List.zipWith (fun q yi => Scalar.mul c (Scalar.sub q yi)) (matVec m.Q x) m.y)

/-- `_marginal_loss` (L2): loss and, per clique, the gradient accumulated by name -/
def marginalLoss (d : Dom) (cliques : List Clique) (meas : List (Meas α)) (mu : CliqueVec α) : α × CliqueVec α :=
  mu.foldl (fun (acc : α × CliqueVec α) (e : Clique × Factor α) =>
    let (cl, f) := e
    let mine := meas.filter (fun m => groupOf d cliques m.proj == some cl)
    let (loss, g) := mine.foldl (fun (lg : α × Factor α) m =>
      let c := Scalar.div Scalar.one m.noise
      let diff := residual m f
      let loss := Scalar.add lg.1 (Scalar.mul (Scalar.div Scalar.one (Scalar.add Scalar.one Scalar.one)) (dot diff diff))
      let mu2dom := f.dom.project m.proj
      let grad := (matTVec m.Q mu2dom.size diff).map (fun v => Scalar.mul c v)
      let gf : Factor α := Factor.mk' mu2dom ⟨mu2dom.shape, grad.toArray⟩
      (loss, lg.2.iadd gf)) (acc.1, Factor.zeros f.dom)
    (loss, acc.2 ++ [(cl, g)])) (Scalar.zero, [])

/-- `abs(x)` and `np.sign(x)` through the comparison of the interface (`nan` is not modelled here) -/
def absS (x : α) : α := if Scalar.gt0 x then x else Scalar.neg x
def signS (x : α) : α := if Scalar.gt0 x then Scalar.one else if Scalar.gt0 (Scalar.neg x) then Scalar.neg Scalar.one else Scalar.zero

/-- `_marginal_loss` with `metric='L1'`: `loss += abs(diff).sum()`, `grad = c * Q.T @ sign(diff)` -/
def marginalLossL1 (d : Dom) (cliques : List Clique) (meas : List (Meas α)) (mu : CliqueVec α) : α × CliqueVec α :=
  mu.foldl (fun (acc : α × CliqueVec α) (e : Clique × Factor α) =>
    let (cl, f) := e
    let mine := meas.filter (fun m => groupOf d cliques m.proj == some cl)
    let (loss, g) := mine.foldl (fun (lg : α × Factor α) m =>
      let c := Scalar.div Scalar.one m.noise
      let diff := residual m f
      let loss := Scalar.add lg.1 (Scalar.sum (diff.map absS))
      let mu2dom := f.dom.project m.proj
      let grad := (matTVec m.Q mu2dom.size (diff.map signS)).map (fun v => Scalar.mul c v)
      let gf : Factor α := Factor.mk' mu2dom ⟨mu2dom.shape, grad.toArray⟩
      (loss, lg.2.iadd gf)) (acc.1, Factor.zeros f.dom)
    (loss, acc.2 ++ [(cl, g)])) (Scalar.zero, [])

/-- `_lipschitz` given, per measurement, the largest eigenvalue of `QᵀQ` (the `eigsh` contract) -/
def lipschitz (d : Dom) (cliques : List Clique) (meas : List (Meas α)) (eigs : List α) : α :=
  let per := cliques.map (fun cl =>
    (List.zip meas eigs).foldl (fun acc (me : Meas α × α) =>
      if groupOf d cliques me.1.proj == some cl then
        let n := (Scalar.ofNat (d.sizeOf cl) : α)
        let p := (Scalar.ofNat (d.sizeOf me.1.proj) : α)
        Scalar.add acc (Scalar.div (Scalar.div (Scalar.mul me.2 n) p) (Scalar.mul me.1.noise me.1.noise))
      else acc) Scalar.zero)
  Scalar.maxL per

end Loss
end PGM
