import PGM.Model.Local
import PGM.Model.Loss
import PGM.Model.Solvers
/-!
# `LocalInference` at the level of the Python object (`src/mbi/local_inference.py`)

`PGM/Model/Local.lean` states the control structure of `mirror_descent_auto` over abstract operations
(`Ops`).  This file says what the implementation passes for them — the constants `0.9`, `2`, `1.0`,
the comparison `>`, `theta - alpha*dL` on `CliqueVector`s — and how the oracle *object* is used:
which attributes are read and written (`potentials`, `messages`, `damping`, `marginals`, `total`),
and what `_setup`, `mirror_descent` and `estimate` do around the descent.  `tools/py2local.py`
regenerates the same from the source (`PGM/Generated/LocalG.lean`) and `Properties/C18G.lean` proves
the two equal.
-/
namespace PGM
namespace Local
open JT

/-- the oracle object (`RegionGraph`, `FactorGraph` or a caller's object) as `LocalInference` uses it;
`σ` is the state of the object, `Msg` the type of `model.messages` -/
structure Obj (α Msg σ : Type) where
  /-- `model.belief_propagation(theta)`: the marginals and the object afterwards -/
  bp : σ → CliqueVec α → CliqueVec α × σ
  /-- `model.primal_feasibility(mu)` (reads only the fixed region / factor structure) -/
  pf : CliqueVec α → α
  getPot : σ → CliqueVec α
  setPot : σ → CliqueVec α → σ
  /-- `deepcopy(model.messages)` -/
  getMsg : σ → Msg
  setMsg : σ → Msg → σ
  /-- `hasattr(model, 'damping')` -/
  hasDamping : σ → Bool
  getDamp : σ → α
  setDamp : σ → α → σ
  setMarg : σ → CliqueVec α → σ
  setTotal : σ → α → σ
  /-- `model.cliques`, `model.domain` -/
  cliques : σ → List Clique
  domain : σ → Dom

/-- what the calls may change: a belief-propagation call changes at most `potentials` and `messages`
(of what later calls read), so writing both back restores the object -/
structure Obj.Frame {α Msg σ : Type} (obj : Obj α Msg σ) : Prop where
  restore_bp : ∀ s θ p m, obj.setMsg (obj.setPot (obj.bp s θ).2 p) m = obj.setMsg (obj.setPot s p) m
  restore_id : ∀ s, obj.setMsg (obj.setPot s (obj.getPot s)) (obj.getMsg s) = s

/-! ## what a callback sees

`mirror_descent_auto` calls `callback(mu)` at the head of every loop iteration (also in attempts that end in a
restart) and after every extra oracle call of the feasibility phase.  A callback acts on a world `κ`. -/

/-- `if callback is not None: callback(mu)` -/
def callCb {M κ : Type} (cb : Option (M → κ → κ)) (mu : M) (w : κ) : κ :=
  match cb with
  | some f => f mu w
  | none => w

/-- the world after the iterations `t, …, t+n-1` of the loop (up to and including a restarting one) -/
def loopWorld {α Θ M G σ κ : Type} (O : Ops α Θ M G σ) (cb : Option (M → κ → κ)) : Nat → Nat → LoopSt α Θ M σ → κ → κ
  | 0, _, _, w => w
  | n + 1, t, s, w =>
    let w := callCb cb s.mu w
    let (l, dL) := O.loss s.mu
    let theta := O.upd s.theta s.alpha dL
    let (mu, st) := O.bp s.st theta
    if isWorse O l s.prev then
      if t ≤ 50 then w
      else loopWorld O cb n (t + 1)
        { theta := theta, mu := mu, st := applyBump O st, alpha := O.half s.alpha, prev := some l, l := some l } w
    else loopWorld O cb n (t + 1) { theta := theta, mu := mu, st := st, alpha := s.alpha, prev := some l, l := some l } w

/-- the world after the feasibility phase: the callback sees the output of every extra oracle call -/
def postWorld {α Θ M G σ κ : Type} (O : Ops α Θ M G σ) (cb : Option (M → κ → κ)) (theta : Θ) : Nat → M → σ → κ → κ
  | 0, _, _, w => w
  | n + 1, mu, st, w =>
    if O.feasible mu then w
    else
      let (mu, st) := O.bp st theta
      postWorld O cb theta n mu st (callCb cb mu w)

/-- the world after `mirror_descent_auto` (every attempt starts from `(theta0, st0)`, the world goes on) -/
def mdaWorld {α Θ M G σ κ : Type} (O : Ops α Θ M G σ) (cb : Option (M → κ → κ)) (theta0 : Θ) (st0 : σ) (iters : Nat) :
    Nat → α → κ → κ
  | 0, _, w => w
  | fuel + 1, alpha, w =>
    let s0 : LoopSt α Θ M σ :=
      { theta := theta0, mu := (O.bp st0 theta0).1, st := (O.bp st0 theta0).2, alpha := alpha, prev := none, l := none }
    let w := loopWorld O cb iters 0 s0 w
    match (attempt O theta0 st0 alpha iters).1 with
    | .restart _ => mdaWorld O cb theta0 st0 iters fuel (O.half alpha) w
    | .finished s => postWorld O cb s.theta 1000 s.mu s.st w

/-- outcome of a Python call: a value, `UnboundLocalError` (`iters = 0`), `RecursionError`,
`AttributeError` (a `marginal_oracle` string that names no oracle) -/
inductive Py (β : Type) where
  | ok (v : β)
  | unbound
  | recursion
  | attrError

section
variable {α Msg σ : Type} [Scalar α]

def two : α := Scalar.add Scalar.one Scalar.one
/-- float `x > y`, through the interface (`x - y > 0`; false on nan) -/
def pyGt (x y : α) : Bool := Scalar.gt0 (Scalar.sub x y)
/-- float `x < y` -/
def pyLt (x y : α) : Bool := Scalar.gt0 (Scalar.sub y x)
/-- the literal `0.9` -/
def nineTenths : α := Scalar.div (Scalar.ofNat 9) (Scalar.ofNat 10)

/-- `model.damping = (0.9 + model.damping) / 2.0`, for an object that has the attribute -/
def raiseDamping (obj : Obj α Msg σ) (s : σ) : σ :=
  if obj.hasDamping s then obj.setDamp s (Scalar.div (Scalar.add nineTenths (obj.getDamp s)) two) else s

/-- the operations `mirror_descent_auto` runs on -/
def pyOps (obj : Obj α Msg σ) (loss : CliqueVec α → α × CliqueVec α) :
    Ops α (CliqueVec α) (CliqueVec α) (CliqueVec α) σ where
  bp := obj.bp
  loss := loss
  upd := fun θ a g => CliqueVec.subV θ (CliqueVec.smul a g)
  feasible := fun μ => pyLt (obj.pf μ) Scalar.one
  bump := some (raiseDamping obj)
  gt := pyGt
  half := fun a => Scalar.div a two

/-- what the caller of `mirror_descent_auto` sees: `(l, theta, mu)` and the object -/
def Outcome.toPy : Outcome α (CliqueVec α) (CliqueVec α) σ → Py (α × CliqueVec α × CliqueVec α × σ)
  | .ok r => .ok (r.l, r.theta, r.mu, r.st)
  | .unbound => .unbound
  | .recursion => .recursion

/-- `mirror_descent_auto(alpha, iters)` on the object `model`; `fuel` activations fit on the stack -/
def mdaPy (obj : Obj α Msg σ) (loss : CliqueVec α → α × CliqueVec α) (fuel : Nat) (model : σ) (alpha : α)
    (iters : Nat) : Py (α × CliqueVec α × CliqueVec α × σ) :=
  (mda (pyOps obj loss) (obj.getPot model) model iters fuel 0 alpha).toPy

/-- `mirror_descent` after `_setup`: run the descent, store `theta` / `mu` on the model, return `l` -/
def mirrorDescent (obj : Obj α Msg σ) (loss : CliqueVec α → α × CliqueVec α) (fuel : Nat) (model : σ)
    (initialAlpha : α) (iters : Nat) : Py (α × σ) :=
  match mdaPy obj loss fuel model initialAlpha iters with
  | .ok (l, theta, mu, model) => .ok (l, obj.setMarg (obj.setPot model theta) mu)
  | .unbound => .unbound
  | .recursion => .recursion
  | .attrError => .attrError

/-- the default `initial_alpha=10.0` -/
def defaultAlpha : α := Scalar.ofNat 10

/-! ## `_setup` after the total estimate -/

/-- `self.marginal_oracle`: a string or an oracle object -/
inductive Sel (σ : Type) where
  | name (s : String)
  | object (o : σ)

/-- the constructors `RegionGraph(domain, cliques, total, convex=·, iters=·)`,
`FactorGraph(domain, cliques, total, convex=·, iters=·)` -/
structure Ctor (α σ : Type) where
  region : Dom → List Clique → α → Bool → Nat → σ
  factor : Dom → List Clique → α → Bool → Nat → σ

/-- the cliques handed to the oracle: the measured ones, then the keys of the structural zeros -/
def setupCliques (meas : List (Loss.Meas α)) (zeros : CliqueVec α) : List Clique :=
  meas.map (·.proj) ++ zeros.map Prod.fst

/-- the oracle object: built by name, or the caller's object with its `total` overwritten -/
def setupModel (mk : Ctor α σ) (obj : Obj α Msg σ) (d : Dom) (sel : Sel σ) (cliques : List Clique) (total : α)
    (inner : Nat) : Py σ :=
  match sel with
  | .name s =>
    if s == "approx" then .ok (mk.region d cliques total false inner)
    else if s == "convex" then .ok (mk.region d cliques total true inner)
    else if s == "pairwise" then .ok (mk.factor d cliques total false inner)
    else if s == "pairwise-convex" then .ok (mk.factor d cliques total true inner)
    else .attrError
  | .object o => .ok (obj.setTotal o total)

/-- potentials of an oracle built by name: zero tables on the oracle's cliques, the structural zeros
added in, then (warm start, when an earlier model exists) the earlier potentials; a caller's object
keeps its own -/
def setupPotentials (obj : Obj α Msg σ) (d : Dom) (zeros : CliqueVec α) (warm : Bool) (prev : Option σ)
    (sel : Sel σ) (model : σ) : σ :=
  match sel with
  | .name _ =>
    let p := CliqueVec.combine (CliqueVec.zerosV d (obj.cliques model)) zeros
    obj.setPot model (match warm, prev with
      | true, some old => CliqueVec.combine p (obj.getPot old)
      | _, _ => p)
  | .object _ => model

/-- `_setup` from the clique list on: the model (`self.model`) -/
def setup (mk : Ctor α σ) (obj : Obj α Msg σ) (d : Dom) (sel : Sel σ) (zeros : CliqueVec α) (warm : Bool)
    (prev : Option σ) (inner : Nat) (meas : List (Loss.Meas α)) (total : α) : Py σ :=
  match setupModel mk obj d sel (setupCliques meas zeros) total inner with
  | .ok model => .ok (setupPotentials obj d zeros warm prev sel model)
  | .unbound => .unbound
  | .recursion => .recursion
  | .attrError => .attrError

/-- `self.groups[cl]`: the measurements filed under `cl` by the grouping loop, which sorts
`model.cliques` by `model.domain.size` -/
def setupGroup (obj : Obj α Msg σ) (model : σ) (meas : List (Loss.Meas α)) (cl : Clique) : List (Loss.Meas α) :=
  meas.filter (fun m => Loss.groupOf (obj.domain model) (obj.cliques model) m.proj == some cl)

/-! ## `estimate` -/

/-- the callback `estimate` hands on: the caller's, or a `callbacks.Logger` when there is none and
`self.log` is set -/
def estimateCallback {κ : Type} (callback : Option κ) (log : Bool) (logger : κ) : Option κ :=
  match callback with
  | some c => some c
  | none => if log then some logger else none

/-- `estimate` after the `_setup` inside `mirror_descent`: the model with the fitted potentials and marginals;
`options` may carry `initial_alpha` -/
def estimate (obj : Obj α Msg σ) (loss : CliqueVec α → α × CliqueVec α) (fuel : Nat) (model : σ)
    (initialAlpha : Option α) (iters : Nat) : Py σ :=
  match mirrorDescent obj loss fuel model (initialAlpha.getD defaultAlpha) iters with
  | .ok (_, model) => .ok model
  | .unbound => .unbound
  | .recursion => .recursion
  | .attrError => .attrError

/-- reading and writing `model.potentials` -/
structure Obj.PotLens (obj : Obj α Msg σ) : Prop where
  get_set : ∀ s p, obj.getPot (obj.setPot s p) = p
  set_set : ∀ s p q, obj.setPot (obj.setPot s p) q = obj.setPot s q

end
end Local
end PGM
