import PGM.Model.GM
/-!
# Region graphs and their approximate marginal oracles (`src/mbi/region_graph.py`)

Transcription of `RegionGraph.build_graph`, `generalized_belief_propagation`,
`hazan_peng_shashua`, `primal_feasibility` / `is_converged`, generic over the scalar.

Conventions
* a region is the Python tuple of attribute names (`Region = List Attr`); two tuples naming the
  same attribute *set* in different orders are different regions (they are different dict keys in
  the Python), while `<`, `&`, `-` on `set(r)` are the set operations `ssubset`, `inter`, `diff`.
* Python `set`s of regions / edges are duplicate-free lists.  The iteration order of a Python set
  depends on `PYTHONHASHSEED`; every function below that iterates `self.regions` takes the ordered
  list `regions` as an argument, so that the model can be run on the implementation's own order.
  Given that order, networkx adjacency is deterministic (insertion-ordered dicts): `children[r]`,
  `parents[r]` list the neighbours in `regions` order — `edgesOf`.
* `nx.transitive_closure` is modelled by its contract: `v ∈ TC.neighbors(u)` iff there is a
  non-empty path `u → v` (`reach`).
* `DisjointSet` (package `disjoint_set` 0.9.0) is modelled by its parent-pointer dictionary:
  `find` follows pointers to the root (path halving only shortens paths, it never changes a root),
  `union x y` re-points `find x` to `find y`; so the representative of a merged class is the root
  of the *second* argument.
* the message dictionary `self.messages`, which persists between calls, is an explicit argument and
  result (`Msgs`).
-/
namespace PGM
namespace RG
open Scalar JT GM

abbrev Region := Clique
abbrev Edge := Region × Region

/-! ## small list-as-set helpers -/

def dedup {β : Type} [BEq β] (l : List β) : List β :=
  l.foldl (fun acc x => if acc.contains x then acc else acc ++ [x]) []

/-- `set(a) < set(b)` -/
def ssubset (a b : Region) : Bool := subset a b && !subset b a

/-- `set(a) - set(b)` (as a duplicate-free list, in `a`'s order) -/
def diff (a b : Region) : Region := dedup (a.filter (fun x => !b.contains x))

def insertStr (x : String) : List String → List String
  | [] => [x]
  | y :: ys => if x < y then x :: y :: ys else if x == y then y :: ys else y :: insertStr x ys

/-- `tuple(sorted(set(r1) & set(r2)))` -/
def sortedInter (r1 r2 : Region) : Region := (inter r1 r2).foldl (fun acc x => insertStr x acc) []

/-- Python dict lookup with a default for absent keys -/
def look {κ β : Type} [BEq κ] (d : List (κ × List β)) (k : κ) : List β := (d.lookup k).getD []

/-- `sorted(l, key=len)` (stable) -/
def sortByLen (l : List Region) : List Region := Dom.sortBy (fun r => r.length) l

/-! ## `build_graph` -/

/-- one pass of `for r1, r2 in itertools.combinations(regions, 2)` (the pairs are taken from a
snapshot, membership is tested in the live set) -/
def closeStep (regions : List Region) : List Region :=
  (combos2 regions).foldl (fun acc (p : Region × Region) =>
    let z := sortedInter p.1 p.2
    if z.length > 0 && !acc.contains z then acc ++ [z] else acc) regions

def closeLoop : Nat → List Region → List Region
  | 0, rs => rs
  | fuel + 1, rs =>
    let rs' := closeStep rs
    if rs'.length > rs.length then closeLoop fuel rs' else rs'

/-- lines 120-127: closure of the clique set under non-empty intersections.  After pass `k` every
intersection of `k+1` cliques is present, so `length + 1` passes reach the fixed point. -/
def closure (cliques : List Region) : List Region :=
  let rs := dedup cliques
  closeLoop (rs.length + 1) rs

/-- lines 131-135: cover edges of the strict-subset order, in `G.edges` order -/
def coverEdges (regions : List Region) : List Edge :=
  regions.flatMap (fun r1 => regions.filterMap (fun r2 =>
    if ssubset r2 r1 && !regions.any (fun r3 => ssubset r2 r3 && ssubset r3 r1) then some (r1, r2) else none))

/-- `nx.DiGraph` with nodes `regions` (in order) and the given edges added in order: `G.edges`
iterates node-major, each adjacency in insertion order; duplicates are ignored -/
def edgesOf (regions : List Region) (raw : List Edge) : List Edge :=
  regions.flatMap (fun u => dedup (raw.filter (fun e => e.1 == u)))

/-- `{r : list(G.neighbors(r))}` -/
def childrenOf (regions : List Region) (edges : List Edge) : List (Region × List Region) :=
  regions.map (fun r => (r, (edges.filter (fun e => e.1 == r)).map Prod.snd))

/-- `{r : list(G.reverse().neighbors(r))}`: `reverse` re-inserts the edges in `G.edges` order -/
def parentsOf (regions : List Region) (edges : List Edge) : List (Region × List Region) :=
  regions.map (fun r => (r, (edges.filter (fun e => e.2 == r)).map Prod.fst))

/-- nodes reachable from `r` by a non-empty path (contract of `nx.transitive_closure`), listed in
`regions` order -/
def reach (regions : List Region) (nbrs : List (Region × List Region)) (r : Region) : List Region :=
  let rec go : Nat → List Region → List Region
    | 0, seen => seen
    | fuel + 1, seen =>
      let next := dedup ((seen.flatMap (look nbrs)).filter (fun x => !seen.contains x))
      if next.isEmpty then seen else go fuel (seen ++ next)
  let seen := go regions.length (dedup (look nbrs r))
  regions.filter (fun x => seen.contains x)

def closureOf (regions : List Region) (nbrs : List (Region × List Region)) : List (Region × List Region) :=
  regions.map (fun r => (r, reach regions nbrs r))

/-! ### DisjointSet -/

structure DS where
  data : List (Region × Region) := []

namespace DS
/-- `IdentityDict.__getitem__` with `__missing__` -/
def get (ds : DS) (x : Region) : Region := (ds.data.lookup x).getD x
def touch (ds : DS) (x : Region) : DS :=
  if ds.data.any (fun p => p.1 == x) then ds else ⟨ds.data ++ [(x, x)]⟩
/-- `find`: the root of `x` -/
def find (ds : DS) (x : Region) : Region :=
  let rec go : Nat → Region → Region
    | 0, x => x
    | fuel + 1, x => let p := ds.get x; if p == x then x else go fuel p
  go (ds.data.length + 1) x
/-- `union`: re-point the root of `x` to the root of `y` -/
def union (ds : DS) (x y : Region) : DS :=
  let ds := (ds.touch x).touch y
  let px := ds.find x
  let py := ds.find y
  if px != py then ⟨ds.data.map (fun p => if p.1 == px then (px, py) else p)⟩ else ds
end DS

/-- lines 148-159: `min_edges` — for each region, one incoming edge per class of parents linked
by a common ancestor; `parents0`/`ancestors` are those of the un-pruned graph -/
def minEdges (regions : List Region) (parents0 ancestors : List (Region × List Region)) : List Edge :=
  regions.flatMap (fun r =>
    let ps := look parents0 r
    let ds := ps.foldl DS.touch {}
    let ds := (combos2 ps).foldl (fun (ds : DS) (uv : Region × Region) =>
      let au := look ancestors uv.1
      let av := look ancestors uv.2
      if au.any (fun x => av.contains x) then ds.union uv.1 uv.2 else ds) ds
    let canonical := dedup (ps.map ds.find)
    canonical.map (fun u => (u, r)))

/-- lines 182-188: Möbius counting numbers `c_r = 1 − Σ_{s ∈ ancestors(r)} c_s` (memoised
recursion; evaluated here from the largest regions down) -/
def moebius (regions : List Region) (ancestors : List (Region × List Region)) : List (Region × Int) :=
  let byDepth := Dom.sortBy (fun r => (look ancestors r).length) regions
  let tbl := byDepth.foldl (fun (tbl : List (Region × Int)) r =>
    let s := ((look ancestors r).map (fun a => (tbl.lookup a).getD 0)).foldl (· + ·) 0
    tbl ++ [(r, 1 - s)]) []
  regions.map (fun r => (r, (tbl.lookup r).getD 0))

/-- the region-graph structure stored on the Python object after `build_graph` -/
structure Graph where
  regions : List Region
  /-- `self.cliques` after `__init__`: `sorted(self.regions, key=len)` -/
  cliques : List Region
  children : List (Region × List Region)
  parents : List (Region × List Region)
  descendants : List (Region × List Region)
  ancestors : List (Region × List Region)
  /-- un-pruned adjacency (equal to `children`/`parents` when `minimal = False`) -/
  children0 : List (Region × List Region)
  parents0 : List (Region × List Region)
  counting : List (Region × Int)
  N : List (Edge × List Edge)
  D : List (Edge × List Edge)
  B : List (Region × List Edge)
  messageOrder : List Edge

/-- `set(parents[d]) - {r} - set(descendants[r])` -/
def outsideParents (parents descendants : List (Region × List Region)) (d r : Region) : List Region :=
  (dedup (look parents d)).filter (fun p => p != r && !(look descendants r).contains p)

/-- `B[r]` of the `minimal` branch (Eq. 30) -/
def beliefSetMin (parents descendants : List (Region × List Region)) (r : Region) : List Edge :=
  dedup ((look parents r).map (fun p => (p, r)) ++
    (look descendants r).flatMap (fun d => (outsideParents parents descendants d r).map (fun p => (p, d))))

/-- `N[p,r]`, `D[p,r]` of the `minimal` branch (Eq. 31) after cancellation -/
def msgSetsMin (parents descendants : List (Region × List Region)) (p r : Region) : List Edge × List Edge :=
  let n := dedup ((look parents p).map (fun s => (s, p)) ++
    (look descendants p).flatMap (fun d => (outsideParents parents descendants d p).map (fun s => (s, d))))
  let d := dedup (((dedup (look parents r)).filter (fun s => s != p)).map (fun s => (s, r)) ++
    (look descendants r).flatMap (fun d => (outsideParents parents descendants d r).map (fun p1 => (p1, d))))
  (n.filter (fun e => !d.contains e), d.filter (fun e => !n.contains e))

/-- `downp[r] = {r} ∪ descendants[r]` -/
def downp (descendants : List (Region × List Region)) (r : Region) : List Region := dedup (r :: look descendants r)

/-- the saturated (`minimal = False`) branch, lines 224-237 -/
def beliefSetSat (parents descendants : List (Region × List Region)) (r : Region) : List Edge :=
  (look parents r).map (fun ru => (ru, r)) ++
    (look descendants r).flatMap (fun rd =>
      ((dedup (look parents rd)).filter (fun ru => !(downp descendants r).contains ru)).map (fun ru => (ru, rd)))

def msgSetsSat (edges : List Edge) (descendants : List (Region × List Region)) (ru rd : Region) : List Edge × List Edge :=
  let fu := downp descendants ru
  let fd := downp descendants rd
  let fufd := fu.filter (fun x => !fd.contains x)
  (edges.filter (fun e => !fu.contains e.1 && fufd.contains e.2),
   edges.filter (fun e => fufd.contains e.1 && fd.contains e.2 && e != (ru, rd)))

/-- `RegionGraph.__init__` line 15-19: in the non-convex case only cliques that are not strictly
contained in another clique are kept -/
def initCliques (cliques : List Region) (convex : Bool) : List Region :=
  if convex then cliques else cliques.filter (fun r => !cliques.any (fun s => ssubset r s))

/-- `build_graph` on a given iteration order `regions` of the closed region set -/
def buildOn (regions : List Region) (convex minimal : Bool) : Graph :=
  let edges0 := coverEdges regions
  let children0 := childrenOf regions edges0
  let parents0 := parentsOf regions edges0
  let descendants := closureOf regions children0
  let ancestors := closureOf regions parents0
  let edges := if minimal then edgesOf regions (minEdges regions parents0 ancestors) else edges0
  let children := childrenOf regions edges
  let parents := parentsOf regions edges
  let counting : List (Region × Int) :=
    if convex then regions.map (fun r => (r, 1)) else moebius regions ancestors
  let B := if convex then [] else
    regions.map (fun r => (r, if minimal then beliefSetMin parents descendants r else beliefSetSat parents descendants r))
  let ND := if convex then [] else
    regions.flatMap (fun p => (look children p).map (fun r =>
      ((p, r), if minimal then msgSetsMin parents descendants p r else msgSetsSat edges descendants p r)))
  let order := (sortByLen regions).flatMap (fun ru => (look children ru).map (fun rd => (ru, rd)))
  { regions := regions, cliques := sortByLen regions, children := children, parents := parents,
    descendants := descendants, ancestors := ancestors, children0 := children0, parents0 := parents0,
    counting := counting, N := ND.map (fun e => (e.1, e.2.1)), D := ND.map (fun e => (e.1, e.2.2)),
    B := B, messageOrder := order }

/-- `RegionGraph(domain, cliques, minimal=…, convex=…)` with the model's own iteration order -/
def build (cliques : List Region) (convex minimal : Bool) : Graph :=
  buildOn (closure (initCliques cliques convex)) convex minimal

/-! ## message passing -/

variable {α : Type} [Scalar α]

abbrev Msgs (α : Type) := List (Edge × Factor α)

def Msgs.get (m : Msgs α) (e : Edge) : Factor α :=
  match m.lookup e with
  | some f => f
  | none => Factor.zeros []

/-- Python's `sum(generator of Factors)`: the int `0` when empty, else `((0 + f₁) + f₂) + …` -/
inductive PySum (α : Type) where
  | zero
  | fac (f : Factor α)

def pySum (l : List (Factor α)) : PySum α :=
  l.foldl (fun acc f => match acc with
    | .zero => .fac (f.addScalar zero)
    | .fac g => .fac (g.add f)) .zero

/-- `x + sum(…)` -/
def addSum (x : Factor α) : PySum α → Factor α
  | .zero => x.addScalar zero
  | .fac g => x.add g

/-- `x - sum(…)`: scalar subtraction of `0`, or `Factor.__sub__` (with its `-inf` rule) -/
def subSum (x : Factor α) : PySum α → Factor α
  | .zero => x.subScalar zero
  | .fac g => x.sub g

def ofInt (z : Int) : α := if z ≥ 0 then ofNat z.toNat else neg (ofNat (-z).toNat)

/-- the literal `0.5` -/
def half : α := div one (ofNat 2)

/-- lines 242-248: all messages start at zero, in both directions of every edge -/
def initMessages (dom : Dom) (order : List Edge) : Msgs α :=
  order.flatMap (fun e => [((e.1, e.2), Factor.zeros (dom.project e.2)), ((e.2, e.1), Factor.zeros (dom.project e.2))])

/-- lines 252-255 / 290-293: potentials of the regions that are model cliques, zero otherwise -/
def potOf (dom : Dom) (g : Graph) (potentials : CliqueVec α) (r : Region) : Factor α :=
  if g.cliques.contains r then potentials.get r else Factor.zeros (dom.project r)

/-- every region the code looks up in `potentials` is present (`KeyError` otherwise) -/
def prePots (g : Graph) (potentials : CliqueVec α) : Bool :=
  g.regions.all (fun r => !g.cliques.contains r || potentials.has r)

/-- `np.linalg.norm(x - y, 1)` on flat vectors -/
def norm1Diff (x y : List α) : α :=
  Scalar.sum (List.zipWith (fun a b => let d := Scalar.sub a b; Scalar.max d (neg d)) x y)

/-- `RegionGraph.primal_feasibility` (lines 103-113) -/
def primalFeasibility (g : Graph) (mu : CliqueVec α) : α :=
  let errs := g.cliques.flatMap (fun r => (look g.children r).map (fun s =>
    norm1Diff ((mu.get r).projectSum s).datavector (mu.get s).datavector))
  if errs.isEmpty then zero else div (errs.foldl add zero) (ofNat errs.length)

/-- `is_converged` -/
def isConverged (g : Graph) (convergence : α) (mu : CliqueVec α) : Bool :=
  le0 (Scalar.sub (primalFeasibility g mu) convergence)

/-- `belief += np.log(self.total) - belief.logsumexp(); belief.exp()` -/
def normalise (total : α) (belief : Factor α) : Factor α :=
  (belief.iaddScalar (Scalar.sub (Scalar.log total) belief.logsumexpAll)).exp

/-- one pass of the loop body of `generalized_belief_propagation` (lines 258-271) -/
def gbpSweep (g : Graph) (pot : Region → Factor α) (msgs : Msgs α) : Msgs α :=
  let new := g.messageOrder.foldl (fun (new : Msgs α) (e : Edge) =>
    let (ru, rd) := e
    let num := pot ru
    let num := addSum num (pySum (((g.N.lookup e).getD []).map msgs.get))
    let denom := pySum (((g.D.lookup e).getD []).map (Msgs.get new))
    let m := subSum (num.logsumexp (diff ru rd)) denom
    let m := m.subScalar m.logsumexpAll
    dictSet new e m) []
  g.messageOrder.foldl (fun (msgs : Msgs α) e =>
    dictSet msgs e ((Factor.mulScalar half (msgs.get e)).add (Factor.mulScalar half (Msgs.get new e)))) msgs

def iterate {β : Type} (f : β → β) : Nat → β → β
  | 0, x => x
  | n + 1, x => iterate f n (f x)

/-- `generalized_belief_propagation(potentials)` with `self.iters = iters`; returns the marginals
and the updated `self.messages` -/
def gbp (dom : Dom) (g : Graph) (potentials : CliqueVec α) (total : α) (iters : Nat) (msgs : Msgs α) :
    CliqueVec α × Msgs α :=
  let pot := potOf dom g potentials
  let msgs := iterate (gbpSweep g pot) iters msgs
  let marg := g.cliques.foldl (fun (acc : CliqueVec α) r =>
    let belief := addSum (potentials.get r) (pySum ((look g.B r).map msgs.get))
    acc.set r (normalise total belief)) []
  (marg, msgs)

/-- `cc[p,r]` (lines 301-304) -/
def ccOf (g : Graph) (c0 : Region → α) (p r : Region) : α :=
  div (c0 p) (add (c0 r) (((look g.parents r).map c0).foldl add zero))

/-- the body of one iteration of `hazan_peng_shashua` (lines 307-331): new messages from the old
ones (Jacobi), damping, beliefs -/
def hpsSweep (g : Graph) (pot : Region → Factor α) (c0 : Region → α) (total rho : α) (msgs : Msgs α) :
    Msgs α × CliqueVec α :=
  let down : Msgs α := g.regions.foldl (fun (new : Msgs α) r =>
    (look g.parents r).foldl (fun (new : Msgs α) p =>
      let s1 := pySum (((look g.children p).filter (fun c => c != r)).map (fun c => msgs.get (c, p)))
      let s2 := pySum ((look g.parents p).map (fun p1 => msgs.get (p, p1)))
      let m := (subSum (addSum (pot p) s1) s2).divScalar (c0 p)
      let m := Factor.mulScalar (c0 p) (m.logsumexp (diff p r))
      let m := m.subScalar m.logsumexpAll
      dictSet new (p, r) m) new) []
  let new : Msgs α := g.regions.foldl (fun (new : Msgs α) r =>
    (look g.parents r).foldl (fun (new : Msgs α) p =>
      let s1 := pySum ((look g.children r).map (fun c => msgs.get (c, r)))
      let s2 := pySum ((look g.parents r).map (fun p1 => msgs.get (p1, r)))
      let m := (Factor.mulScalar (ccOf g c0 p r) (addSum (addSum (pot r) s1) s2)).sub (msgs.get (p, r))
      let m := m.subScalar m.logsumexpAll
      dictSet new (r, p) m) new) down
  let one_rho : α := Scalar.sub one rho
  let msgs := g.regions.foldl (fun (msgs : Msgs α) p =>
    (look g.children p).foldl (fun (msgs : Msgs α) r =>
      let msgs : Msgs α := dictSet msgs (p, r) ((Factor.mulScalar rho (msgs.get (p, r))).add (Factor.mulScalar one_rho (Msgs.get new (p, r))))
      dictSet msgs (r, p) ((Factor.mulScalar rho (msgs.get (r, p))).add (Factor.mulScalar one_rho (Msgs.get new (r, p))))) msgs) msgs
  let mu := g.regions.foldl (fun (mu : CliqueVec α) r =>
    let s1 := pySum ((look g.children r).map (fun c => msgs.get (c, r)))
    let s2 := pySum ((look g.parents r).map (fun p => msgs.get (r, p)))
    let belief := (subSum (addSum (pot r) s1) s2).divScalar (c0 r)
    mu.set r (normalise total belief)) []
  (msgs, mu)

/-- the `for _ in range(self.iters)` loop with its early exit; third component = sweeps executed -/
def hpsLoop (g : Graph) (pot : Region → Factor α) (c0 : Region → α) (total rho convergence : α) :
    Nat → Nat → Msgs α → CliqueVec α → CliqueVec α × Msgs α × Nat
  | 0, done, msgs, mu => (mu, msgs, done)
  | n + 1, done, msgs, _ =>
    let (msgs, mu) := hpsSweep g pot c0 total rho msgs
    if isConverged g convergence mu then (mu, msgs, done + 1)
    else hpsLoop g pot c0 total rho convergence n (done + 1) msgs mu

/-- `hazan_peng_shashua(potentials)`; `iters = 0` raises in Python (`mu` unbound) — `preHps` -/
def hps (dom : Dom) (g : Graph) (counting : Region → α) (potentials : CliqueVec α)
    (total : α) (iters : Nat) (rho convergence : α) (msgs : Msgs α) : CliqueVec α × Msgs α × Nat :=
  hpsLoop g (potOf dom g potentials) counting total rho convergence iters 0 msgs []

def preHps (iters : Nat) : Bool := iters > 0

/-! ## the variational problem of the convex oracle (C17)

With all counting numbers 1 the oracle maximises `F(b) = Σ_r ⟨θ_r, b_r⟩ + Σ_r H(b_r)` over locally
consistent tables of mass `total`, `H(b) = −Σ b log(b/total)`.  The upward messages
`λ_{(c,p)} = messages[c,p]` are the multipliers of `proj_c(b_p) = b_c`; the reparametrised potential is
`θ̃_r = θ_r + Σ_{c ∈ children r} λ_{(c,r)} − Σ_{p ∈ parents r} λ_{(r,p)}` and the dual function is
`D(λ) = total · Σ_r logsumexp(θ̃_r)`. -/

def thetaTilde (g : Graph) (pot : Region → Factor α) (msgs : Msgs α) (r : Region) : Factor α :=
  let s1 := pySum ((look g.children r).map (fun c => msgs.get (c, r)))
  let s2 := pySum ((look g.parents r).map (fun p => msgs.get (r, p)))
  subSum (addSum (pot r) s1) s2

/-- the beliefs in Lagrangian form: `total · softmax(θ̃_r)` -/
def lagrangianBeliefs (g : Graph) (pot : Region → Factor α) (total : α) (msgs : Msgs α) : CliqueVec α :=
  g.regions.map (fun r => (r, normalise total (thetaTilde g pot msgs r)))

def dualValue (g : Graph) (pot : Region → Factor α) (total : α) (msgs : Msgs α) : α :=
  mul total (Scalar.sum (g.regions.map (fun r => (thetaTilde g pot msgs r).logsumexpAll)))

/-- `H(b) = −Σ b log(b/total)` with `0 log 0 = 0` -/
def entropy (total : α) (b : Factor α) : α :=
  neg (Scalar.sum (b.datavector.map (fun v => if gt0 v then mul v (Scalar.log (div v total)) else zero)))

def primalValue (g : Graph) (pot : Region → Factor α) (total : α) (mu : CliqueVec α) : α :=
  add (Scalar.sum (g.regions.map (fun r => ((pot r).mul (mu.get r)).sumAll)))
      (Scalar.sum (g.regions.map (fun r => entropy total (mu.get r))))

end RG
end PGM
