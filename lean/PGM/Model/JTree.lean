import PGM.Model.Domain
/-!
# L2 — graphs, triangulation, junction trees (`src/mbi/junction_tree.py`)

Attributes sets are duplicate-free lists.  networkx is modelled by contract:
`find_cliques` = the set of maximal cliques (executable: Bron–Kerbosch), `minimum_spanning_tree` =
some minimum-weight spanning tree (never recomputed here: the implementation's tree is *checked*),
`topological_sort` = some linear extension (checked likewise).
-/
namespace PGM
namespace JT

abbrev Clique := List Attr

def subset (a b : Clique) : Bool := a.all (fun x => b.contains x)
def inter (a b : Clique) : Clique := a.filter (fun x => b.contains x)
def union (a b : Clique) : Clique := a ++ b.filter (fun x => !a.contains x)
def sameSet (a b : Clique) : Bool := subset a b && subset b a

/-- undirected graph: node list and a list of (unordered) edges -/
structure Graph where
  nodes : List Attr
  edges : List (Attr × Attr)

def Graph.adj (g : Graph) (a b : Attr) : Bool :=
  a != b && (g.edges.contains (a, b) || g.edges.contains (b, a))

def Graph.nbrs (g : Graph) (a : Attr) : List Attr := g.nodes.filter (fun b => g.adj a b)

def pairs : List Attr → List (Attr × Attr)
  | [] => []
  | x :: xs => xs.map (fun y => (x, y)) ++ pairs xs

def Graph.addEdges (g : Graph) (es : List (Attr × Attr)) : Graph :=
  { g with edges := g.edges ++ es.filter (fun e => e.1 != e.2 && !g.adj e.1 e.2) }

def Graph.removeNode (g : Graph) (a : Attr) : Graph :=
  { nodes := g.nodes.filter (· != a), edges := g.edges.filter (fun e => e.1 != a && e.2 != a) }

/-- `_make_graph`: all domain attributes as nodes, every clique completed -/
def makeGraph (attrs : List Attr) (cliques : List Clique) : Graph :=
  cliques.foldl (fun g cl => g.addEdges (pairs cl)) { nodes := attrs, edges := [] }

/-- the elimination loop of `_triangulated`: returns the fill-in edges -/
def fillIn (g : Graph) : List Attr → List (Attr × Attr)
  | [] => []
  | v :: rest =>
    let tmp := pairs (g.nbrs v)
    let new := tmp.filter (fun e => !g.adj e.1 e.2)
    new ++ fillIn ((g.addEdges tmp).removeNode v) rest

/-- `_triangulated`: the original graph plus every fill-in edge -/
def triangulate (g : Graph) (order : List Attr) : Graph := g.addEdges (fillIn g order)

/-- Bron–Kerbosch without pivoting: all maximal cliques (the contract of `nx.find_cliques`) -/
partial def bronKerbosch (g : Graph) (r p x : List Attr) : List Clique :=
  if p.isEmpty then (if x.isEmpty then [r] else [])
  else
    let rec go (p x : List Attr) (todo : List Attr) (acc : List Clique) : List Clique :=
      match todo with
      | [] => acc
      | v :: vs =>
        let nb := g.nbrs v
        let acc := acc ++ bronKerbosch g (r ++ [v]) (p.filter nb.contains) (x.filter nb.contains)
        go (p.filter (· != v)) (x ++ [v]) vs acc
    go p x p []

def maximalCliques (g : Graph) : List Clique := bronKerbosch g [] g.nodes []

/-- `domain.canonical` -/
def canonical (attrs : List Attr) (c : Clique) : Clique := attrs.filter (fun a => c.contains a)

/-- `_greedy_order(stochastic=False)`: repeatedly eliminate the first attribute (in domain order)
whose merged super-clique is smallest -/
def greedyOrder (d : Dom) : List Clique → List Attr → Nat → List Attr
  | _, _, 0 => []
  | cliques, unmarked, fuel + 1 =>
    match unmarked with
    | [] => []
    | u :: us =>
      let cost (a : Attr) : Nat :=
        let nb := cliques.filter (fun cl => cl.contains a)
        let vars := nb.foldl union []
        d.sizeOf vars
      let best := us.foldl (fun b a => if cost a < cost b then a else b) u
      let nb := cliques.filter (fun cl => cl.contains best)
      let vars := (nb.foldl union []).filter (· != best)
      let cliques' := cliques.filter (fun cl => !cl.contains best)
      let cliques' := if cliques'.any (fun c => sameSet c vars) then cliques' else cliques' ++ [vars]
      best :: greedyOrder d cliques' (unmarked.filter (· != best)) fuel

/-! ## the checked artefact: a tree over cliques with a message schedule -/

structure Tree where
  nodes : List Clique
  edges : List (Clique × Clique)

def Tree.adj (t : Tree) (a b : Clique) : Bool := t.edges.contains (a, b) || t.edges.contains (b, a)
def Tree.nbrs (t : Tree) (a : Clique) : List Clique := t.nodes.filter (fun b => t.adj a b)

/-- nodes reachable from the seeds inside the allowed set, by `fuel` rounds of expansion -/
def reach (t : Tree) (allowed : List Clique) : Nat → List Clique → List Clique
  | 0, s => s
  | fuel + 1, s =>
    let s' := s ++ (allowed.filter (fun b => !s.contains b && s.any (fun a => t.adj a b)))
    reach t allowed fuel s'

/-- the allowed nodes are connected using only allowed nodes -/
def connectedWithin (t : Tree) (allowed : List Clique) : Bool :=
  match allowed with
  | [] => true
  | a :: _ => let r := reach t allowed allowed.length [a]; allowed.all (fun b => r.contains b)

def coversInput (cliques nodes : List Clique) : Bool := cliques.all (fun c => nodes.any (fun n => subset c n))
def coversDomain (attrs : List Attr) (nodes : List Clique) : Bool := attrs.all (fun a => nodes.any (fun n => n.contains a))
def antichain (nodes : List Clique) : Bool :=
  nodes.all (fun a => nodes.all (fun b => a == b || !(subset a b)))
def nodup {β : Type} [BEq β] : List β → Bool
  | [] => true
  | x :: xs => !xs.contains x && nodup xs
def isTree (t : Tree) : Bool :=
  nodup t.nodes && t.edges.length + 1 == t.nodes.length &&
  t.edges.all (fun e => t.nodes.contains e.1 && t.nodes.contains e.2 && e.1 != e.2) &&
  connectedWithin t t.nodes
/-- running-intersection property: for every attribute, the nodes containing it are connected
among themselves -/
def rip (attrs : List Attr) (t : Tree) : Bool :=
  attrs.all (fun a => connectedWithin t (t.nodes.filter (fun n => n.contains a)))

/-- the message schedule lists each direction of each edge exactly once … -/
def scheduleComplete (t : Tree) (order : List (Clique × Clique)) : Bool :=
  nodup order && order.length == 2 * t.edges.length &&
  t.edges.all (fun e => order.contains (e.1, e.2) && order.contains (e.2, e.1))

/-- … and only after every message it depends on: `(k,i)` for every neighbour `k ≠ j` of `i`
precedes `(i,j)` -/
def scheduleRespects (t : Tree) : List (Clique × Clique) → List (Clique × Clique) → Bool
  | _, [] => true
  | before, (i, j) :: rest =>
    (t.nbrs i).all (fun k => k == j || before.contains (k, i)) && scheduleRespects t (before ++ [(i, j)]) rest

/-- separators are the intersections -/
def sepOK (seps : List ((Clique × Clique) × Clique)) : Bool :=
  seps.all (fun s => sameSet s.2 (inter s.1.1 s.1.2))

def checkJT (attrs : List Attr) (cliques : List Clique) (t : Tree) (order : List (Clique × Clique)) : Bool :=
  coversInput cliques t.nodes && coversDomain attrs t.nodes && antichain t.nodes && isTree t &&
  rip attrs t && scheduleComplete t order && scheduleRespects t [] order

/-- weight of a tree: total separator size -/
def weight (t : Tree) : Nat := (t.edges.map (fun e => (inter e.1 e.2).length)).sum
/-- the bound `Σ_v (n_v − 1)` over attributes occurring in some node -/
def weightBound (attrs : List Attr) (nodes : List Clique) : Nat :=
  (attrs.map (fun a => (nodes.filter (fun n => n.contains a)).length - 1)).sum

/-! ## `mp_order`: the dependency digraph handed to `nx.topological_sort` (junction_tree.py:23-34) -/

abbrev Msg := Clique × Clique

/-- `messages`: every tree edge in both directions -/
def messages (t : Tree) : List Msg := t.edges ++ t.edges.map (fun e => (e.2, e.1))

/-- the arcs `m1 → m2`: `m1` arrives where `m2` leaves, and `m2` does not go straight back -/
def depEdges (t : Tree) : List (Msg × Msg) :=
  (messages t).flatMap (fun m1 =>
    ((messages t).filter (fun m2 => m1.2 == m2.1 && m1.1 != m2.2)).map (fun m2 => (m1, m2)))

/-- the contract of `nx.topological_sort` on the digraph `(nodes, arcs)`: a listing of all nodes,
each exactly once, in which every arc points forward -/
def isTopoSort (nodes : List Msg) (arcs : List (Msg × Msg)) (order : List Msg) : Bool :=
  nodup order && order.length == nodes.length && nodes.all (fun m => order.contains m) &&
  arcs.all (fun a => order.idxOf a.1 < order.idxOf a.2)

/-! ## `_greedy_order(stochastic=True)` and the integer mode of `_make_tree` -/

/-- cost of eliminating `a`: size of the merged super-clique -/
def elimCost (d : Dom) (cliques : List Clique) (a : Attr) : Nat :=
  d.sizeOf ((cliques.filter (fun cl => cl.contains a)).foldl union [])

/-- one clean-up step shared by both modes: remove the cliques containing `a`, add their union minus `a` -/
def elimStep (cliques : List Clique) (a : Attr) : List Clique :=
  let nb := cliques.filter (fun cl => cl.contains a)
  let vars := (nb.foldl union []).filter (· != a)
  let cliques' := cliques.filter (fun cl => !cl.contains a)
  if cliques'.any (fun c => sameSet c vars) then cliques' else cliques' ++ [vars]

/-- `_greedy_order(stochastic=True)`: which unmarked attribute is eliminated at each step is a random
outcome — `picks` lists the indices `i` drawn by `np.random.choice(probas.size, p=probas)` (the costs
only shape the distribution). Returns the order and the accumulated cost. A pick out of range ends
the run (numpy never produces one). -/
def greedyOrderPicks (d : Dom) : List Clique → List Attr → List Nat → List Attr × Nat
  | _, [], _ => ([], 0)
  | _, _ :: _, [] => ([], 0)
  | cliques, unmarked@(_ :: _), i :: picks =>
    match unmarked[i]? with
    | none => ([], 0)
    | some a =>
      let r := greedyOrderPicks d (elimStep cliques a) (unmarked.filter (· != a)) picks
      (a :: r.1, elimCost d cliques a + r.2)
termination_by _ _ picks => picks.length

/-- accumulated cost of the deterministic greedy order (second component of `_greedy_order(False)`) -/
def greedyCost (d : Dom) : List Clique → List Attr → Nat
  | _, [] => 0
  | cliques, a :: rest => elimCost d cliques a + greedyCost d (elimStep cliques a) rest

/-- `min(orders, key=cost)`: the first order of least cost -/
def firstMin : List (List Attr × Nat) → Option (List Attr × Nat)
  | [] => none
  | o :: os => some (os.foldl (fun b x => if x.2 < b.2 then x else b) o)

/-! ## `maximal_cliques()`: `list(nx.dfs_preorder_nodes(self.tree))` -/

/-- the contract of a depth-first preorder of a connected tree: every node is listed exactly once and
every node after the first has a tree neighbour earlier in the list (its DFS parent) -/
def isPreorder (t : Tree) (l : List Clique) : Bool :=
  nodup l && l.length == t.nodes.length && t.nodes.all (fun n => l.contains n) &&
  (List.range l.length).all (fun i => i == 0 ||
    (List.range i).any (fun j => t.adj (l.getD j []) (l.getD i [])))

/-- the running-intersection *order* property `mle` relies on: each clique meets the union of the
earlier ones inside a single earlier clique -/
def ripOrder (l : List Clique) : Bool :=
  (List.range l.length).all (fun i => i == 0 ||
    (List.range i).any (fun j =>
      (l.getD i []).all (fun a => !((List.range i).any (fun k => (l.getD k []).contains a)) || (l.getD j []).contains a)))

end JT
end PGM
