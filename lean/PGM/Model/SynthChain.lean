import PGM.Model.SynthTable
/-!
# Synthetic records: chain-rule targets and the row-independent error bound (executable)

The expected count of every cell of every model clique visited by the column loop, by the chain rule
along the generation order, and the bound `errBound` of `C11.synthTable_clique_error`; evaluated by
the driver on the tables the real code generates.
-/
namespace PGM.Synth

/-! ### definitions (executable) -/

/-- a step that generates nothing (default for out-of-range indices) -/
def ColSpec.dflt : ColSpec := ⟨0, [], 0, fun _ => []⟩

/-- the `k`-th step -/
def specAt (specs : List ColSpec) (k : Nat) : ColSpec := specs.getD k ColSpec.dflt

/-- the positions of the model clique of a step: conditioning positions, then the generated one -/
def ColSpec.pos (sp : ColSpec) : List Nat := sp.proj ++ [sp.col]

/-- number of values of the attribute at position `a`: declared by the step generating it -/
def attrSize (specs : List ColSpec) (a : Nat) : Nat :=
  match specs.find? (fun sp => sp.col == a) with
  | some sp => sp.size
  | none => 0

/-- all value tuples over the positions `pos` -/
def tuplesOver (size : Nat → Nat) : List Nat → List (List Nat)
  | [] => [[]]
  | a :: pos => (List.range (size a)).flatMap (fun x => (tuplesOver size pos).map (fun t => x :: t))

/-- a cell over `pos`, read at the positions `pos'` -/
def restrict (pos pos' : List Nat) (cell : List Nat) : List Nat :=
  pos'.map (fun a => cell.getD (pos.idxOf a) 0)

/-- the cells of the parent step `sj` that project onto the key `g` of the child step `sp` -/
def fiber (specs : List ColSpec) (sj sp : ColSpec) (g : List Nat) : List (List Nat) :=
  (tuplesOver (attrSize specs) sj.pos).filter (fun c => restrict sj.pos sp.proj c == g)

/-- the conditional probability the step uses: `marg[g][v] / marg[g].sum()` -/
def condProb (sp : ColSpec) (g : List Nat) (v : Nat) : Rat := (sp.cond g).getD v 0 / sumQ (sp.cond g)

/-- **chain-rule targets**: `target k g v = targetProj k g · cond_k(v | g)`, where `targetProj k g`
is `total` for an unconditional step and otherwise the sum of the parent's targets over the
parent's cells that project onto `g` -/
def target (specs : List ColSpec) (parent : Nat → Nat) (total : Nat) : Nat → List Nat → Nat → Rat
  | k, g, v =>
    (if (specAt specs k).proj = [] then (total : Rat)
     else if _h : parent k < k then
       ((fiber specs (specAt specs (parent k)) (specAt specs k) g).map
          (fun c => target specs parent total (parent k) c.dropLast (c.getLastD 0))).sum
     else 0) * condProb (specAt specs k) g v
termination_by k => k

/-- the number of cells of the parent that project onto one key: the product of the sizes of the
parent's positions the child does not condition on -/
def fiberBound (specs : List ColSpec) (sj sp : ColSpec) : Nat :=
  ((sj.pos.filter (fun a => !sp.proj.contains a)).map (attrSize specs)).prod

/-- **the error bound**: `1` for an unconditional step, `1 + M · B(parent)` otherwise -/
def errBound (specs : List ColSpec) (parent : Nat → Nat) : Nat → Nat
  | k =>
    if (specAt specs k).proj = [] then 1
    else if _h : parent k < k then
      1 + fiberBound specs (specAt specs (parent k)) (specAt specs k) * errBound specs parent (parent k)
    else 1
termination_by k => k

/-- well-formed parent function: every conditional step has an earlier parent step whose clique
contains all its conditioning positions -/
def chainWF (specs : List ColSpec) (parent : Nat → Nat) : Bool :=
  (List.range specs.length).all (fun k =>
    (specAt specs k).proj.isEmpty ||
      (decide (parent k < k) &&
        (specAt specs k).proj.all (fun a => (specAt specs (parent k)).pos.contains a)))


/-- the (unnormalised) clique marginal a step reads: `marg[g][v]` -/
def mu (specs : List ColSpec) (k : Nat) (g : List Nat) (v : Nat) : Rat :=
  ((specAt specs k).cond g).getD v 0

/-- one consistent family: an unconditional table has mass `S`; the table of a conditional step,
summed over the generated attribute, is the parent's table summed over the parent's cells that
project onto the key (checked on every key of the domain) -/
def margConsistent (specs : List ColSpec) (parent : Nat → Nat) (S : Rat) : Bool :=
  (List.range specs.length).all (fun k =>
    if (specAt specs k).proj = [] then sumQ ((specAt specs k).cond []) == S
    else (tuplesOver (attrSize specs) (specAt specs k).proj).all (fun g =>
      sumQ ((specAt specs k).cond g) ==
        ((fiber specs (specAt specs (parent k)) (specAt specs k) g).map
          (fun c => mu specs (parent k) c.dropLast (c.getLastD 0))).sum))


end PGM.Synth
