/-!
# Synthetic records, rounding mode (`graphical_model.py:196-249`, inner `synthetic_col`)

`synthetic_col(counts, total)`: scale the counts to sum `total`, split into integer and fractional
parts, give one extra unit to `extra = total − Σ⌊·⌋` *distinct* indices drawn among those with
positive fractional part (`np.random.choice(..., extra, False, frac/frac.sum())` — which ones is
the random outcome, a parameter `pick` here), emit value `i` exactly `integ[i]` times, shuffle.
Over exact rationals.
-/
namespace PGM
namespace Synth

def sumQ (l : List Rat) : Rat := l.foldl (· + ·) 0
def sumN (l : List Nat) : Nat := l.foldl (· + ·) 0

/-- `counts * total / counts.sum()` -/
def scaled (counts : List Rat) (total : Nat) : List Rat := counts.map (fun c => c * total / sumQ counts)
def floors (xs : List Rat) : List Nat := xs.map (fun x => x.floor.toNat)
def fracs (xs : List Rat) : List Rat := xs.map (fun x => x - x.floor)
/-- number of extra units to hand out -/
def extra (counts : List Rat) (total : Nat) : Nat := total - sumN (floors (scaled counts total))

/-- is `pick` an outcome `np.random.choice(n, extra, replace=False, p=frac/frac.sum())` can produce:
`extra` distinct indices, each with positive fractional part -/
def pickOK (counts : List Rat) (total : Nat) (pick : List Nat) : Bool :=
  let fr := fracs (scaled counts total)
  pick.length == extra counts total && pick.all (fun i => i < fr.length && decide (0 < fr.getD i 0)) &&
  (List.range fr.length).all (fun i => (pick.filter (· == i)).length ≤ 1)

/-- how many times each value is emitted -/
def colCounts (counts : List Rat) (total : Nat) (pick : List Nat) : List Nat :=
  (floors (scaled counts total)).zipIdx.map (fun (f, i) => if pick.contains i then f + 1 else f)

/-- the emitted column before shuffling: `np.repeat(np.arange(n), integ)` -/
def column (counts : List Rat) (total : Nat) (pick : List Nat) : List Nat :=
  (colCounts counts total pick).zipIdx.flatMap (fun (k, i) => List.replicate k i)

/-- checker applied to an observed histogram `out` of a generated column: right length, sums to
`total`, every entry is the floor of its target, or the floor plus one *when the target has a
positive fractional part*, and zero targets get zero -/
def colOK (counts : List Rat) (total : Nat) (out : List Nat) : Bool :=
  let xs := scaled counts total
  out.length == counts.length && sumN out == total &&
  (List.zip xs out).all (fun (x, o) =>
    (o == x.floor.toNat || (o == x.floor.toNat + 1 && decide (0 < x - x.floor))) && (x != 0 || o == 0))

end Synth
end PGM
