import PGM.Model.Certificate
import PGM.Model.Loss
import PGM.Model.Dataset
/-!
# Public-data reweighting (`src/mbi/public_inference.py:20-46`): entropic mirror descent

Transcribed as written — in particular `P` is computed once before the loop and is **not** updated
when a step is accepted (only `logP`, `loss`, `dL` are); since the repair recorded in
`known_findings.json` the gradient is centred at the top of the loop body.  `lossgrad` is the objective
(`loss_and_grad`: weighted contingency tables, `_marginal_loss`, gather of the clique gradients at
the records' cells); for the squared error it is `Cert.loss` / `Cert.grad` with `A = c·Q·Inc`
(`Inc` the record→cell incidence matrix).
-/
namespace PGM
namespace Public
variable {α : Type} [Scalar α]
open Scalar

def vsum (x : List α) : α := Scalar.sum x
def dotv (x y : List α) : α := Scalar.sum (List.zipWith Scalar.mul x y)

structure EmdState (α : Type) where
  logP : List α
  loss : α
  dL : List α
  alpha : α
  begun : Bool

/-- `dL - dL.mean()`: the first statement of the loop body (the step does not depend on a constant
added to `dL` because `Q` is renormalised; removing it keeps `alpha*dL` small) -/
def center (d : List α) : List α :=
  let m := Scalar.div (vsum d) (Scalar.ofNat d.length)
  d.map (fun x => Scalar.sub x m)

/-- one iteration of the loop; `P0` is the (stale) initial point used in the acceptance test.
`dL` is rebound to its centred value at the top of the body, so a rejected step leaves the centred
gradient in the state -/
def emdStep (lossgrad : List α → α × List α) (total : α) (P0 : List α) (s : EmdState α) : EmdState α :=
  let dL := center s.dL
  let logQ0 := List.zipWith (fun lp d => Scalar.sub lp (Scalar.mul s.alpha d)) s.logP dL
  let shift := Scalar.sub (Scalar.log total) (Scalar.lse logQ0)
  let logQ := logQ0.map (fun v => Scalar.add v shift)
  let Q := logQ.map Scalar.exp
  let r := lossgrad Q
  let two : α := Scalar.add Scalar.one Scalar.one
  let half : α := Scalar.div Scalar.one two
  let thr := Scalar.mul (Scalar.mul half s.alpha) (dotv dL (List.zipWith Scalar.sub P0 Q))
  -- `loss - new_loss >= thr`  as  `thr - (loss - new_loss) <= 0`: false when a nan is involved, so a nan
  -- objective value is REJECTED, as in Python (the earlier reading `!(thr - … > 0)` accepted it)
  if Scalar.le0 (Scalar.sub thr (Scalar.sub s.loss r.1)) then
    ⟨logQ, r.1, r.2, if s.begun then s.alpha else Scalar.mul s.alpha two, s.begun⟩
  else
    ⟨s.logP, s.loss, dL, Scalar.mul s.alpha half, true⟩

/-- `entropic_mirror_descent(loss_and_grad, x0, total, iters)`; `eps0 = np.nextafter(0,1)` -/
def emd (lossgrad : List α → α × List α) (x0 : List α) (total eps0 : α) (iters : Nat) : List α :=
  let s0sum := vsum x0
  let logP := x0.map (fun x => Scalar.sub (Scalar.add (Scalar.log (Scalar.add x eps0)) (Scalar.log total)) (Scalar.log s0sum))
  let P0 := x0.map (fun x => Scalar.div (Scalar.mul x total) s0sum)
  let r := lossgrad P0
  let s := (List.range iters).foldl (fun s _ => emdStep lossgrad total P0 s) ⟨logP, r.1, r.2, Scalar.one, false⟩
  s.logP.map Scalar.exp

/-- the squared-error objective of `PublicInference` as a function of the record weights -/
def lossgradQuad (ms : List (List (List α) × List α)) (w : List α) : α × List α :=
  (Cert.loss ms w, Cert.grad ms w)

/-! ## `class PublicInference` (`public_inference.py:69-131`)

`weights ↦ (loss, dweights)`: the weighted public records are tabulated on every measured clique
(`CliqueVector.from_data`), the measurement loss and its per-clique gradient tables are computed
(`_marginal_loss`: residual `c·(Q x − y)` per measurement, metric L2 or L1), and every record collects the
gradient entries of the cells it falls in (`dL[cl].values[tuple(idx.T)]`). -/

/-- `PublicInference.__init__`: one unit weight per public record -/
def initWeights (pub : Dataset α) : List α := List.replicate pub.records Scalar.one

/-- `Dataset(pub.df, pub.domain, w)`: the public records under the weights `w` (the frame of a dataset has exactly
the domain's columns, so selecting them again changes nothing when the attributes are distinct —
`Proofs/PublicGen.lean: reweight_rows`) -/
def reweight (pub : Dataset α) (w : List α) : Dataset α :=
  Dataset.ofTable ⟨pub.dom.attrs, pub.rows⟩ pub.dom (some w)

/-- `CliqueVector.from_data(est, cliques)`: the contingency table of every clique; a clique measured twice is
tabulated twice and stored once (dict semantics) -/
def tabulate (est : Dataset α) (cliques : List JT.Clique) : CliqueVec α :=
  cliques.foldl (fun (ans : CliqueVec α) cl =>
    let mu := est.project cl
    ans.set cl (Factor.mk' mu.dom ⟨[mu.datavector.length], mu.datavector.toArray⟩)) []

/-- residual `c (Q x − y)` of one measurement at the table `mu` of ITS OWN clique (no projection: in
`PublicInference` a measurement is compared with the table keyed by its `proj`) -/
def residual (m : Loss.Meas α) (mu : Factor α) : List α :=
  let c := Scalar.div Scalar.one m.noise
  (List.zipWith Scalar.sub (Loss.matVec m.Q mu.datavector) m.y).map (fun v => Scalar.mul c v)

/-- one measurement's contribution to `_marginal_loss`: `lossOf` is the loss of the residual, `dirOf` the vector
that is pulled back through `c·Qᵀ` (the residual itself for L2, its signs for L1) -/
def measStep (lossOf : List α → α) (dirOf : List α → List α) (marginals : CliqueVec α)
    (acc : α × CliqueVec α) (m : Loss.Meas α) : α × CliqueVec α :=
  let mu := marginals.get m.proj
  let c := Scalar.div Scalar.one m.noise
  let diff := residual m mu
  let grad := (Loss.matTVec m.Q mu.datavector.length (dirOf diff)).map (fun v => Scalar.mul c v)
  (Scalar.add acc.1 (lossOf diff),
   acc.2.set m.proj ((acc.2.get m.proj).iadd (Factor.mk' mu.dom ⟨[grad.length], grad.toArray⟩)))

/-- `_marginal_loss` for a residual loss: gradient tables start at zero, one per key of `marginals` -/
def marginalLossWith (lossOf : List α → α) (dirOf : List α → List α) (meas : List (Loss.Meas α))
    (marginals : CliqueVec α) : α × CliqueVec α :=
  meas.foldl (measStep lossOf dirOf marginals)
    (Scalar.zero, (marginals.map Prod.fst).map (fun cl => (cl, Factor.zeros (marginals.get cl).dom)))

/-- metric 'L2': `½‖diff‖²`, gradient `c·Qᵀ diff` -/
def marginalLoss (meas : List (Loss.Meas α)) (marginals : CliqueVec α) : α × CliqueVec α :=
  marginalLossWith (fun d => Scalar.mul (Scalar.div Scalar.one (Scalar.add Scalar.one Scalar.one)) (Loss.dot d d))
    (fun d => d) meas marginals

/-- metric 'L1': `‖diff‖₁`, gradient `c·Qᵀ sign(diff)` -/
def marginalLossL1 (meas : List (Loss.Meas α)) (marginals : CliqueVec α) : α × CliqueVec α :=
  marginalLossWith (fun d => Scalar.sum (d.map Loss.absS)) (fun d => d.map Loss.signS) meas marginals

/-- the entries of a table at the cells of the given records (`values[tuple(idx.T)]`) -/
def gather (a : NdArr α) (idx : List (List Int)) : List α := idx.map (fun r => a.get (r.map Int.toNat))

/-- the closure `loss_and_grad` of `estimate`: `mloss` is `_marginal_loss` as a function of the current measurement
list and the tables -/
def lossAndGrad (mloss : List (Loss.Meas α) → CliqueVec α → α × CliqueVec α) (pub : Dataset α)
    (meas : List (Loss.Meas α)) (w : List α) : α × List α :=
  let est := reweight pub w
  let r := mloss meas (tabulate est (meas.map (·.proj)))
  (r.1, (r.2.map Prod.fst).foldl (fun (dw : List α) cl =>
      List.zipWith Scalar.add dw (gather (r.2.get cl).vals (est.project cl).rows))
    (List.replicate w.length Scalar.zero))

/-- `PublicInference.estimate(measurements, total)`: (returned dataset, `self.weights` afterwards); `w0` is
`self.weights` at entry (`initWeights pub` for a fresh object), 250 iterations -/
def estimate (mloss : List (Loss.Meas α) → CliqueVec α → α × CliqueVec α) (pub : Dataset α) (w0 : List α)
    (meas : List (Loss.Meas α)) (total eps0 : α) : Dataset α × List α :=
  let w := emd (lossAndGrad mloss pub meas) w0 total eps0 250
  (reweight pub w, w)

end Public
end PGM
