import PGM.Model.Certificate
/-!
# Public-data reweighting (`src/mbi/public_inference.py:20-46`): entropic mirror descent

Transcribed as written — in particular `P` is computed once before the loop and is **not** updated
when a step is accepted (only `logP`, `loss`, `dL` are); since the repair recorded in
`known_findings.json` the gradient is centred at the top of the loop body.  `lossgrad` is the objective
(`loss_and_grad`: weighted contingency tables, `_marginal_loss`, gather of the clique gradients at
the records' cells); for the squared error it is `Cert.loss` / `Cert.grad` with `A = c·Q·Inc`
(`Inc` the record→cell incidence matrix).
-/
namespace PGM
namespace Public
variable {α : Type} [Scalar α]
open Scalar

def vsum (x : List α) : α := Scalar.sum x
def dotv (x y : List α) : α := Scalar.sum (List.zipWith Scalar.mul x y)

structure EmdState (α : Type) where
  logP : List α
  loss : α
  dL : List α
  alpha : α
  begun : Bool

/-- `dL - dL.mean()`: the first statement of the loop body (the step does not depend on a constant
added to `dL` because `Q` is renormalised; removing it keeps `alpha*dL` small) -/
def center (d : List α) : List α :=
  let m := Scalar.div (vsum d) (Scalar.ofNat d.length)
  d.map (fun x => Scalar.sub x m)

/-- one iteration of the loop; `P0` is the (stale) initial point used in the acceptance test.
`dL` is rebound to its centred value at the top of the body, so a rejected step leaves the centred
gradient in the state -/
def emdStep (lossgrad : List α → α × List α) (total : α) (P0 : List α) (s : EmdState α) : EmdState α :=
  let dL := center s.dL
  let logQ0 := List.zipWith (fun lp d => Scalar.sub lp (Scalar.mul s.alpha d)) s.logP dL
  let shift := Scalar.sub (Scalar.log total) (Scalar.lse logQ0)
  let logQ := logQ0.map (fun v => Scalar.add v shift)
  let Q := logQ.map Scalar.exp
  let r := lossgrad Q
  let two : α := Scalar.add Scalar.one Scalar.one
  let half : α := Scalar.div Scalar.one two
  let thr := Scalar.mul (Scalar.mul half s.alpha) (dotv dL (List.zipWith Scalar.sub P0 Q))
  -- `loss - new_loss >= thr`  as  `!(thr > loss - new_loss)`
  if !(Scalar.gt0 (Scalar.sub thr (Scalar.sub s.loss r.1))) then
    ⟨logQ, r.1, r.2, if s.begun then s.alpha else Scalar.mul s.alpha two, s.begun⟩
  else
    ⟨s.logP, s.loss, dL, Scalar.mul s.alpha half, true⟩

/-- `entropic_mirror_descent(loss_and_grad, x0, total, iters)`; `eps0 = np.nextafter(0,1)` -/
def emd (lossgrad : List α → α × List α) (x0 : List α) (total eps0 : α) (iters : Nat) : List α :=
  let s0sum := vsum x0
  let logP := x0.map (fun x => Scalar.sub (Scalar.add (Scalar.log (Scalar.add x eps0)) (Scalar.log total)) (Scalar.log s0sum))
  let P0 := x0.map (fun x => Scalar.div (Scalar.mul x total) s0sum)
  let r := lossgrad P0
  let s := (List.range iters).foldl (fun s _ => emdStep lossgrad total P0 s) ⟨logP, r.1, r.2, Scalar.one, false⟩
  s.logP.map Scalar.exp

/-- the squared-error objective of `PublicInference` as a function of the record weights -/
def lossgradQuad (ms : List (List (List α) × List α)) (w : List α) : α × List α :=
  (Cert.loss ms w, Cert.grad ms w)

end Public
end PGM
