import PGM.Model.Scalar
/-!
# A-posteriori optimality certificate for the squared-error objective (Frank–Wolfe gap)

For `L(p) = Σ_m ½‖A_m p − y_m‖²` over tables `p ≥ 0` with `Σ p = T`: for every feasible `q`,
`L(p) − L(q) ≤ ⟨∇L(p), p⟩ − T · min_x ∇L(p)_x`.  The right-hand side is computable from the returned
table alone.  Generic over the scalar (run at `Float` by the driver, proved over ordered fields).
-/
namespace PGM
namespace Cert
variable {α : Type} [Scalar α]
open Scalar

def dot (x y : List α) : α := Scalar.sum (List.zipWith Scalar.mul x y)
def matVec (A : List (List α)) (x : List α) : List α := A.map (fun r => dot r x)
/-- residual `A p − y` -/
def resid (A : List (List α)) (y p : List α) : List α := List.zipWith Scalar.sub (matVec A p) y
/-- `Aᵀ v` for a matrix with `n` columns -/
def matTVec (A : List (List α)) (n : Nat) (v : List α) : List α :=
  (List.range n).map (fun j => Scalar.sum (List.zipWith (fun row vi => Scalar.mul (row.getD j Scalar.zero) vi) A v))
def half : α := Scalar.div Scalar.one (Scalar.add Scalar.one Scalar.one)

/-- `L(p) = Σ_m ½‖A_m p − y_m‖²` -/
def loss (ms : List (List (List α) × List α)) (p : List α) : α :=
  Scalar.sum (ms.map (fun m => Scalar.mul half (dot (resid m.1 m.2 p) (resid m.1 m.2 p))))
/-- `∇L(p) = Σ_m A_mᵀ (A_m p − y_m)` -/
def grad (ms : List (List (List α) × List α)) (p : List α) : List α :=
  ms.foldl (fun g m => List.zipWith Scalar.add g (matTVec m.1 p.length (resid m.1 m.2 p))) (p.map (fun _ => Scalar.zero))
def minL (l : List α) : α :=
  match l with
  | [] => default
  | x :: xs => xs.foldl (fun a b => if Scalar.gt0 (Scalar.sub a b) then b else a) x
/-- the Frank–Wolfe gap `⟨g,p⟩ − T·min g` at `p` -/
def fwGap (ms : List (List (List α) × List α)) (p : List α) (T : α) : α :=
  let g := grad ms p
  Scalar.sub (dot g p) (Scalar.mul T (minL g))

end Cert
end PGM
