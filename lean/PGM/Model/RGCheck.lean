import PGM.Model.RegionGraph
/-!
# A run-time check of an exported region graph

The region order of the implementation is a Python `set` (hash dependent), so the correspondence
run feeds the model the *exported* `RG.Graph` record.  `graphCheck dom g` decides, on that record,
exactly the graph-level hypotheses under which the primal–dual certificate of the convex oracle is
proved (`PGM/Proofs/ConvexCheck.lean`: `graphCheck_iff`, `hps_certificate_checked`):

* the domain has duplicate-free attributes and positive sizes;
* the region list is duplicate-free, every region is a duplicate-free list of domain attributes;
* `children[r] ⊆ regions`, every child is a sub-set of its parent;
* `parents` and `children` are dual (`p ∈ parents[r] ↔ p ∈ regions ∧ r ∈ children[p]`);
* no child / parent is listed twice;
* `messageOrder` lists exactly the edges `(parent, child)`;
* no edge is present in both directions.

Core Lean only; every test is a nested `all`/`contains` over the lists of the record, so the cost is
polynomial (at most cubic in the number of regions, times the cost of comparing two regions).
-/
namespace PGM
namespace RG

/-- duplicate-freeness as a Boolean -/
def nodupB {β : Type} [BEq β] : List β → Bool
  | [] => true
  | x :: xs => !xs.contains x && nodupB xs

/-- attributes duplicate-free, sizes positive -/
def chkDom (dom : Dom) : Bool :=
  nodupB dom.attrs && dom.all (fun p => decide (0 < p.2))

/-- the region list is duplicate-free; each region is a duplicate-free list of domain attributes -/
def chkRegions (dom : Dom) (g : Graph) : Bool :=
  nodupB g.regions && g.regions.all (fun r => nodupB r && r.all (fun a => dom.attrs.contains a))

/-- children are regions and sub-sets of their parent -/
def chkChildrenSub (g : Graph) : Bool :=
  g.regions.all (fun r => (look g.children r).all (fun c =>
    g.regions.contains c && c.all (fun a => r.contains a)))

/-- every listed parent `p` of `r` is a region that lists `r` as a child -/
def chkParentsFwd (g : Graph) : Bool :=
  g.regions.all (fun r => (look g.parents r).all (fun p =>
    g.regions.contains p && (look g.children p).contains r))

/-- every region `p` is listed as a parent by each of its children -/
def chkParentsBwd (g : Graph) : Bool :=
  g.regions.all (fun p => (look g.children p).all (fun r => (look g.parents r).contains p))

def chkChildrenNodup (g : Graph) : Bool := g.regions.all (fun r => nodupB (look g.children r))
def chkParentsNodup (g : Graph) : Bool := g.regions.all (fun r => nodupB (look g.parents r))

/-- every entry of the message order is an edge `(parent, child)` -/
def chkOrderSound (g : Graph) : Bool :=
  g.messageOrder.all (fun e => g.regions.contains e.1 && (look g.children e.1).contains e.2)

/-- every edge is in the message order -/
def chkOrderComplete (g : Graph) : Bool :=
  g.regions.all (fun p => (look g.children p).all (fun c => g.messageOrder.contains (p, c)))

/-- no edge in both directions -/
def chkAntisymm (g : Graph) : Bool :=
  g.regions.all (fun p => (look g.children p).all (fun c => !(look g.children c).contains p))

/-- the run-time check of an exported graph record against a domain -/
def graphCheck (dom : Dom) (g : Graph) : Bool :=
  chkDom dom && chkRegions dom g && chkChildrenSub g && chkParentsFwd g && chkParentsBwd g &&
    chkChildrenNodup g && chkParentsNodup g && chkOrderSound g && chkOrderComplete g && chkAntisymm g

end RG
end PGM
