import PGM.Model.GM
/-!
# L4 — `CliqueVector` arithmetic and the three solvers as state machines
(`src/mbi/clique_vector.py`, `src/mbi/inference.py:102-245, 281-343`)

The solvers are parameterised by the marginal oracle `bp` and the objective `lossgrad`
(`_marginal_loss`), so that their bookkeeping can be stated and proved for any oracle and any loss.
-/
namespace PGM
namespace CliqueVec
variable {α : Type} [Scalar α]
open Scalar

/-- `const * vec` -/
def smul (c : α) (v : CliqueVec α) : CliqueVec α := v.map (fun p => (p.1, p.2.mulScalar c))
/-- `a + b` (clique by clique, keys of `a`) -/
def addV (a b : CliqueVec α) : CliqueVec α := a.map (fun p => (p.1, p.2.add (b.get p.1)))
/-- `a - b = a + -1*b` -/
def subV (a b : CliqueVec α) : CliqueVec α := addV a (smul (Scalar.neg Scalar.one) b)
/-- `a.dot(b)` -/
def dotV (a b : CliqueVec α) : α :=
  Scalar.sum (a.map (fun p => (p.2.mul (b.get p.1)).sumAll))
/-- `CliqueVector.zeros` -/
def zerosV (d : Dom) (cliques : List JT.Clique) : CliqueVec α := cliques.map (fun c => (c, Factor.zeros (d.project c)))

/-- `CliqueVector.combine`: each factor of `other` is added into the *first* clique of `self`
containing it (and nowhere if there is none) -/
def combine (self other : CliqueVec α) : CliqueVec α :=
  other.foldl (fun acc (o : JT.Clique × Factor α) =>
    match acc.find? (fun p => JT.subset o.1 p.1) with
    | some p => acc.set p.1 (p.2.iadd o.2)
    | none => acc) self

end CliqueVec

namespace Factor
variable {α : Type} [Scalar α]
/-- `Factor.active(domain, structural_zeros)`: 0 everywhere, `-∞` at the listed cells -/
def active (negInf : α) (d : Dom) (cells : List (List Nat)) : Factor α :=
  mk' d (NdArr.ofFn d.shape (fun idx => if cells.contains idx then negInf else Scalar.zero))
end Factor

namespace Solvers
variable {α : Type} [Scalar α]
open Scalar CliqueVec

structure Result (α : Type) where
  potentials : CliqueVec α
  marginals : Option (CliqueVec α)
  loss : Option α

/-- `a == 0` on losses -/
def isZero (x : α) : Bool := !(Scalar.gt0 x) && !(Scalar.gt0 (Scalar.neg x))

/-- `x ≥ y` as `!(y > x)` -/
def ge (x y : α) : Bool := !(Scalar.gt0 (Scalar.sub y x))

/-- `mirror_descent` with line search (inference.py:192-245). `alpha0 = 1/total²`. -/
def mirrorDescent (bp : CliqueVec α → CliqueVec α) (lossgrad : CliqueVec α → α × CliqueVec α)
    (iters : Nat) (theta0 : CliqueVec α) (alpha0 : α) : Result α :=
  let mu0 := bp theta0
  let ans0 := lossgrad mu0
  if isZero ans0.1 then ⟨theta0, none, some ans0.1⟩ else
  let two : α := Scalar.add Scalar.one Scalar.one
  let half : α := Scalar.div Scalar.one two
  let st := (List.range iters).foldl (fun (st : CliqueVec α × CliqueVec α × (α × CliqueVec α) × α) _ =>
    let (theta, mu, ans, alpha) := st
    let omega := theta
    let nu := mu
    let currLoss := ans.1
    let dL := ans.2
    let alpha := Scalar.mul two alpha
    -- up to 25 trials, halving the step until the Armijo test passes; the 25th is taken regardless
    let trial := (List.range 25).foldl (fun (tr : CliqueVec α × CliqueVec α × (α × CliqueVec α) × α × Bool) _ =>
      let (th, m, a, al, done) := tr
      if done then tr else
        let th' := subV omega (smul al dL)
        let m' := bp th'
        let a' := lossgrad m'
        if ge (Scalar.sub currLoss a'.1) (Scalar.mul (Scalar.mul half al) (dotV dL (subV nu m'))) then (th', m', a', al, true)
        else (th', m', a', Scalar.mul al half, false)) (theta, mu, ans, alpha, false)
    (trial.1, trial.2.1, trial.2.2.1, trial.2.2.2.1)) (theta0, mu0, ans0, alpha0)
  ⟨st.1, some st.2.1, some st.2.2.1.1⟩

/-- `dual_averaging` (inference.py:147-190), after the repair that re-applies the structural
zeros to the rebuilt parameters. `mleF` is `model.mle`. -/
def dualAveraging (bp : CliqueVec α → CliqueVec α) (grad : CliqueVec α → CliqueVec α)
    (mleF : CliqueVec α → CliqueVec α) (d : Dom) (cliques : List JT.Clique) (zeros : CliqueVec α)
    (iters : Nat) (theta0 : CliqueVec α) (L total : α) : Result α :=
  if isZero L then ⟨theta0, none, none⟩ else
  let two : α := Scalar.add Scalar.one Scalar.one
  let four : α := Scalar.add two two
  let w0 := bp theta0
  let st := (List.range iters).foldl (fun (st : CliqueVec α × CliqueVec α × CliqueVec α) k =>
    let (gbar, w, v) := st
    let t : α := Scalar.ofNat (k + 1)
    let c := Scalar.div two (Scalar.add t Scalar.one)
    let omc := Scalar.sub Scalar.one c
    let u := addV (smul omc w) (smul c v)
    let g := grad u
    let gbar := addV (smul omc gbar) (smul c g)
    let coef := Scalar.div (Scalar.div (Scalar.neg (Scalar.mul t (Scalar.add t Scalar.one))) (Scalar.mul four L)) total
    let theta := combine (smul coef gbar) zeros
    let v := bp theta
    let w := addV (smul omc w) (smul c v)
    (gbar, w, v)) (zerosV d cliques, w0, w0)
  ⟨mleF st.2.1, some st.2.1, none⟩

/-- `interior_gradient` (inference.py:102-145) with `c = sigma = 1` -/
def interiorGradient (bp : CliqueVec α → CliqueVec α) (grad : CliqueVec α → CliqueVec α)
    (mleF : CliqueVec α → CliqueVec α) (iters : Nat) (theta0 : CliqueVec α) (L total : α) : Result α :=
  let two : α := Scalar.add Scalar.one Scalar.one
  let four : α := Scalar.add two two
  let x0 := bp theta0
  let l := Scalar.div Scalar.one L
  let sqrtF (x : α) : α := Scalar.exp (Scalar.div (Scalar.log x) two)
  let st := (List.range iters).foldl (fun (st : CliqueVec α × CliqueVec α × CliqueVec α × α) _ =>
    let (theta, x, z, c) := st
    let cl := Scalar.mul c l
    -- `a = 2*c*l / (sqrt((c*l)**2 + 4*c*l) + l*c)` (the cancellation-free form, since the repair 7f3f6a5)
    let a := Scalar.div (Scalar.mul two cl) (Scalar.add (sqrtF (Scalar.add (Scalar.mul cl cl) (Scalar.mul four cl))) cl)
    let y := addV (smul (Scalar.sub Scalar.one a) x) (smul a z)
    let c := Scalar.mul c (Scalar.sub Scalar.one a)
    let g := grad y
    let theta := subV theta (smul (Scalar.div (Scalar.div a c) total) g)
    let z := bp theta
    let x := addV (smul (Scalar.sub Scalar.one a) x) (smul a z)
    (theta, x, z, c)) (theta0, x0, x0, Scalar.one)
  ⟨mleF st.2.1, some st.2.1, none⟩

end Solvers
end PGM
