import PGM.Model.JTree
/-!
# Python / networkx / numpy contracts used by the regenerated `junction_tree.py`
(`PGM/Generated/JunctionTreeG.lean`, written by `tools/py2jt.py`)

Core Lean only.  Nothing here is specific to the junction-tree construction: these are the meanings
the translator gives to the library calls it meets.

* Python `set`: a list in which only membership is meaningful.  `setAdd` / `setUnion` / `toSet` keep
  first occurrences (one admissible iteration order); wherever the source turns a set back into a
  tuple (`tuple(set(..))`) the generated definition takes the iteration order as an explicit
  parameter `tos`, and the equality theorems hold for every `tos` that returns a permutation.
* `itertools.combinations(xs, 2)`: `combinations2`.
* `nx.Graph()` / `add_nodes_from`: `Graph.empty` / `Graph.addNodes`; `add_edges_from`, `neighbors`,
  `remove_node`, `nx.Graph(G)` are `Graph.addEdges`, `Graph.nbrs`, `Graph.removeNode` and the identity
  of `Model/JTree.lean` (graphs are values; `add_edges_from` is only used between existing nodes: an
  attribute outside the domain makes `domain.project` raise).
* the weighted graph handed to `nx.minimum_spanning_tree`: `WGraph`; the contract is `IsMST`.
* `OrderedDict`: association list with `dictSet` / `dictGet` / `dictKeys`.
* `min(xs, key=f)`: `pyMin` (first element of least key).
* `np.max(c) - c + 1` normalised: written out over `Rat`.
-/
namespace PGM
namespace JT

/-! ## Python sets -/

def setAdd {α : Type} [BEq α] (s : List α) (x : α) : List α := if s.contains x then s else s ++ [x]
def setUnion {α : Type} [BEq α] (s xs : List α) : List α := xs.foldl setAdd s
def toSet {α : Type} [BEq α] (xs : List α) : List α := setUnion [] xs
def setDiff {α : Type} [BEq α] (s r : List α) : List α := s.filter (fun x => !r.contains x)
def setInter {α : Type} [BEq α] (a b : List α) : List α := a.filter (fun x => b.contains x)
/-- `set.union(s0, *sets)` -/
def setUnionAll {α : Type} [BEq α] (s0 : List α) (sets : List (List α)) : List α := sets.foldl setUnion s0

/-- `list.remove(x)`: drops the first occurrence -/
def listRemove {α : Type} [BEq α] (l : List α) (x : α) : List α := l.erase x

/-- `itertools.combinations(xs, 2)` -/
def combinations2 {α : Type} : List α → List (α × α)
  | [] => []
  | x :: xs => xs.map (fun y => (x, y)) ++ combinations2 xs

/-! ## networkx graphs over attributes -/

/-- `nx.Graph()` -/
def Graph.empty : Graph := { nodes := [], edges := [] }
/-- `G.add_nodes_from(xs)` -/
def Graph.addNodes (g : Graph) (xs : List Attr) : Graph := { g with nodes := setUnion g.nodes xs }

/-! ## the dependency digraph handed to `nx.topological_sort` -/

structure DiGraph where
  nodes : List Msg
  arcs : List (Msg × Msg)

/-- `nx.DiGraph()` -/
def DiGraph.empty : DiGraph := { nodes := [], arcs := [] }
def DiGraph.addNodes (g : DiGraph) (xs : List Msg) : DiGraph := { g with nodes := setUnion g.nodes xs }
/-- `G.add_edges_from(es)`: end points are added as nodes when absent -/
def DiGraph.addEdges (g : DiGraph) (es : List (Msg × Msg)) : DiGraph :=
  { nodes := es.foldl (fun ns e => setAdd (setAdd ns e.1) e.2) g.nodes, arcs := setUnion g.arcs es }

/-! ## the weighted complete graph over cliques and `nx.minimum_spanning_tree` -/

structure WGraph where
  nodes : List Clique
  edges : List (Clique × Clique × Int)

def WGraph.empty : WGraph := { nodes := [], edges := [] }
def WGraph.addNodes (g : WGraph) (xs : List Clique) : WGraph := { g with nodes := setUnion g.nodes xs }
/-- `G.add_edge(a, b, weight=w)`: adds the end points when absent; a later weight for the same
(unordered) pair overrides an earlier one — `wt` reads the last entry -/
def WGraph.addEdge (g : WGraph) (a b : Clique) (w : Int) : WGraph :=
  { nodes := setAdd (setAdd g.nodes a) b, edges := g.edges ++ [(a, b, w)] }
def WGraph.entry (g : WGraph) (a b : Clique) : Option (Clique × Clique × Int) :=
  g.edges.reverse.find? (fun e => (e.1 == a && e.2.1 == b) || (e.1 == b && e.2.1 == a))
def WGraph.hasEdge (g : WGraph) (a b : Clique) : Bool := (g.entry a b).isSome
def WGraph.wt (g : WGraph) (a b : Clique) : Int :=
  match g.entry a b with
  | some e => e.2.2
  | none => 0
/-- total weight of a tree inside the weighted graph -/
def WGraph.total (g : WGraph) (t : Tree) : Int := (t.edges.map (fun e => g.wt e.1 e.2)).sum

/-- the contract of `nx.minimum_spanning_tree(g)` on a connected graph: a spanning tree of `g`
(same nodes, edges of `g`) whose total weight is least among all spanning trees of `g` -/
def IsMST (g : WGraph) (t : Tree) : Prop :=
  t.nodes = g.nodes ∧ isTree t = true ∧ (∀ e ∈ t.edges, g.hasEdge e.1 e.2 = true) ∧
  ∀ t' : Tree, t'.nodes = g.nodes → isTree t' = true → (∀ e ∈ t'.edges, g.hasEdge e.1 e.2 = true) →
    g.total t ≤ g.total t'

/-- `sorted(list of tuples of strings)`: lexicographic -/
def sortCliques (l : List Clique) : List Clique := l.mergeSort (fun a b => decide (a ≤ b))

/-! ## `OrderedDict`, `min(.., key=..)` -/

def dictSet {κ β : Type} [BEq κ] (m : List (κ × β)) (k : κ) (v : β) : List (κ × β) :=
  if m.any (fun p => p.1 == k) then m.map (fun p => if p.1 == k then (k, v) else p) else m ++ [(k, v)]
def dictGet {κ : Type} [BEq κ] (m : List (κ × Nat)) (k : κ) : Nat := (m.lookup k).getD 0
def dictKeys {κ β : Type} (m : List (κ × β)) : List κ := m.map Prod.fst

/-- `min(xs, key=f)`: the first element of least key (`ValueError` on an empty sequence: `dflt`) -/
def pyMin {α : Type} (xs : List α) (key : α → Nat) (dflt : α) : α :=
  match xs with
  | [] => dflt
  | x :: xs => xs.foldl (fun b a => if key a < key b then a else b) x

/-! ## numpy in the stochastic branch of `_greedy_order` -/

def ratMax : List Rat → Rat
  | [] => 0
  | x :: xs => xs.foldl (fun m y => if m < y then y else m) x
def ratSum (l : List Rat) : Rat := l.foldl (fun s x => s + x) 0

/-- the model of the selection probabilities: `max − cost + 1` (numpy broadcasting: two passes), normalised -/
def probas (costs : List Rat) : List Rat :=
  let p := (costs.map (fun x => ratMax costs - x)).map (fun x => x + (1 : Rat))
  p.map (fun x => x / ratSum p)

/-- one outcome of `np.random.choice(n, p=probas)` is admissible: an index below `n = len(probas)` of
positive probability (numpy raises unless the probabilities are non-negative and sum to one) -/
def choiceOK (n : Nat) (p : List Rat) (i : Nat) : Bool :=
  n == p.length && decide (i < n) && decide (0 < p.getD i 0)

end JT
end PGM
