import PGM.Model.RegionGraph
/-!
# Factor graphs and loopy belief propagation (`src/mbi/factor_graph.py`, non-convex variant)

`init_messages`, `loopy_belief_propagation`, `clique_marginals`, `primal_feasibility`, generic over
the scalar.  The two message dictionaries `mu_n[v][cl]` (variable → factor) and `mu_f[cl][v]`
(factor → variable) persist on the object between calls; they are the explicit `State`.
Dictionaries are association lists in insertion order; `self.cliques` is a list and is iterated
as given (duplicates included), `self.domain` is iterated in attribute order.
-/
namespace PGM
namespace FG
open Scalar JT GM RG

variable {α : Type} [Scalar α]

structure State (α : Type) where
  /-- `mu_n[v][cl]` -/
  muN : List ((Attr × Clique) × Factor α)
  /-- `mu_f[cl][v]` -/
  muF : List ((Clique × Attr) × Factor α)

def getN (s : State α) (v : Attr) (cl : Clique) : Factor α :=
  match s.muN.lookup (v, cl) with | some f => f | none => Factor.zeros []
def getF (s : State α) (cl : Clique) (v : Attr) : Factor α :=
  match s.muF.lookup (cl, v) with | some f => f | none => Factor.zeros []

/-- `init_messages` (lines 41-48) -/
def initMessages (dom : Dom) (cliques : List Clique) : State α :=
  cliques.foldl (fun (s : State α) cl =>
    cl.foldl (fun (s : State α) v =>
      { muN := dictSet s.muN (v, cl) (Factor.zeros (dom.project [v])),
        muF := dictSet s.muF (cl, v) (Factor.zeros (dom.project [v])) }) s) ⟨[], []⟩

/-- the counting numbers stored by `__init__` for the non-convex graph:
1 per clique, `1 − #{cliques containing a}` per attribute -/
def countingAttr (cliques : List Clique) (a : Attr) : Int :=
  1 - ((cliques.filter (fun cl => cl.contains a)).length : Int)

/-- one pass of the loop body of `loopy_belief_propagation` (lines 92-110) -/
def lbpSweep (dom : Dom) (cliques : List Clique) (potentials : CliqueVec α) (s : State α) : State α :=
  -- factor to variable
  let s := cliques.foldl (fun (s : State α) cl =>
    let pre := pySum (cl.map (fun c => getN s c cl))
    cl.foldl (fun (s : State α) v =>
      let complement := cl.filter (fun var => var != v)
      let m := (addSum (potentials.get cl) pre).sub (getN s v cl)
      let m := m.logsumexp complement
      let m := m.subScalar m.logsumexpAll
      { s with muF := dictSet s.muF (cl, v) m }) s) s
  -- variable to factor
  dom.attrs.foldl (fun (s : State α) v =>
    let fac := cliques.filter (fun cl => cl.contains v)
    match pySum (fac.map (fun cl => getF s cl v)) with
    | .zero => s
    | .fac pre => fac.foldl (fun (s : State α) f => { s with muN := dictSet s.muN (v, f) (pre.sub (getF s f v)) }) s) s

/-- `clique_marginals` (lines 160-168), non-convex -/
def cliqueMarginals (cliques : List Clique) (potentials : CliqueVec α) (total : α) (s : State α) : CliqueVec α :=
  cliques.foldl (fun (acc : CliqueVec α) cl =>
    let belief := addSum (potentials.get cl) (pySum (cl.map (fun n => getN s n cl)))
    acc.set cl (normalise total belief)) []

/-- `loopy_belief_propagation(potentials)` with `self.iters = iters` -/
def lbp (dom : Dom) (cliques : List Clique) (potentials : CliqueVec α) (total : α) (iters : Nat) (s : State α) :
    CliqueVec α × State α :=
  let s := iterate (lbpSweep dom cliques potentials) iters s
  (cliqueMarginals cliques potentials total s, s)

/-- `self.beliefs` after a call (line 116) -/
def beliefs (dom : Dom) (cliques : List Clique) (s : State α) : List (Attr × PySum α) :=
  dom.attrs.map (fun v => (v, pySum ((cliques.filter (fun cl => cl.contains v)).map (fun cl => getF s cl v))))

def prePots (cliques : List Clique) (potentials : CliqueVec α) : Bool := cliques.all potentials.has

/-- `FactorGraph.primal_feasibility` (lines 50-64): mean L1 disagreement over all pairs of tables
(later key vs every earlier key) that share an attribute -/
def primalFeasibility (mu : CliqueVec α) : α :=
  let keys := mu.map Prod.fst
  let errs := (List.range keys.length).flatMap (fun i =>
    let r := keys.getD i []
    (keys.take i).filterMap (fun s =>
      let d := dedup (inter r s)
      if d.length > 0 then
        some (norm1Diff ((mu.get r).projectSum d).datavector ((mu.get s).projectSum d).datavector)
      else none))
  if errs.isEmpty then zero else div (errs.foldl add zero) (ofNat errs.length)

end FG
end PGM
