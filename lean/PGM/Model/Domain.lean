import PGM.Model.Index
/-!
# Domains (`src/mbi/domain.py`)

A domain is an ordered list of `(attribute, size)` pairs.  Python keeps `attrs`, `shape` and the
dict `config = dict(zip(attrs, shape))`; with duplicate-free attribute lists (`Dom.WF`) the three
views coincide with this list.
-/
namespace PGM

abbrev Attr := String
abbrev Dom := List (Attr × Nat)

namespace Dom

def attrs (d : Dom) : List Attr := d.map Prod.fst
def shape (d : Dom) : List Nat := d.map Prod.snd
/-- `config[a]` (KeyError in Python when absent — see `hasAll`) -/
def cfg (d : Dom) (a : Attr) : Nat := (d.lookup a).getD 0
def WF (d : Dom) : Prop := d.attrs.Nodup
instance (d : Dom) : Decidable d.WF := by unfold WF; infer_instance

/-- all of `as` are attributes of `d` (otherwise `project` raises KeyError) -/
def hasAll (d : Dom) (as : List Attr) : Bool := as.all (fun a => d.attrs.contains a)

/-- `Domain.project` / `Domain.transpose` -/
def project (d : Dom) (as : List Attr) : Dom := as.map (fun a => (a, d.cfg a))
/-- `Domain.invert` -/
def invert (d : Dom) (as : List Attr) : List Attr := d.attrs.filter (fun a => !as.contains a)
/-- `Domain.marginalize` -/
def marginalize (d : Dom) (as : List Attr) : Dom := d.project (d.invert as)
/-- `Domain.axes` (`tuple.index`: ValueError when absent) -/
def axes (d : Dom) (as : List Attr) : List Nat := as.map (fun a => d.attrs.idxOf a)
/-- `Domain.merge` -/
def merge (d o : Dom) : Dom := d ++ o.marginalize d.attrs
/-- `Domain.contains` -/
def contains (d o : Dom) : Bool := o.attrs.all (fun a => d.attrs.contains a)
/-- `Domain.size()` -/
def size (d : Dom) : Nat := PGM.size d.shape
/-- `Domain.size(attrs)` -/
def sizeOf (d : Dom) (as : List Attr) : Nat := (d.project as).size
/-- `Domain.canonical` -/
def canonical (d : Dom) (as : List Attr) : List Attr := d.attrs.filter (fun a => as.contains a)

/-- stable insertion sort by a key, as Python's `sorted(key=…)` (stable) -/
def insertBy {β : Type} (key : β → Nat) (x : β) : List β → List β
  | [] => [x]
  | y :: ys => if key x < key y then x :: y :: ys else y :: insertBy key x ys
def sortBy {β : Type} (key : β → Nat) (l : List β) : List β :=
  l.foldl (fun acc x => insertBy key x acc) []

/-- `Domain.sort('size')` -/
def sortSize (d : Dom) : Dom := d.project (sortBy (fun a => d.cfg a) d.attrs)
/-- `Domain.sort('name')` -/
def sortName (d : Dom) : Dom := d.project (d.attrs.mergeSort (fun a b => decide (a ≤ b)))

end Dom
end PGM

namespace PGM
namespace Dom

/-- `σ` is a valid joint assignment for `D`: every attribute's value is inside its size -/
def Valid (D : Dom) (σ : Attr → Nat) : Prop := ∀ p ∈ D, σ p.1 < p.2
/-- `d`'s attribute sizes are those `D` gives them -/
def Agrees (d D : Dom) : Prop := ∀ p ∈ d, D.cfg p.1 = p.2
/-- shared attributes have equal sizes -/
def Compatible (d o : Dom) : Prop := ∀ a n m, (a, n) ∈ d → (a, m) ∈ o → n = m
/-- the attributes of `d` named in `as`, in `d`'s order -/
def removed (d : Dom) (as : List Attr) : List Attr := d.attrs.filter (fun a => as.contains a)
/-- assignment `σ` with the attributes `red` re-set to the values `v` (positionally) -/
def override (σ : Attr → Nat) (red : List Attr) (v : List Nat) : Attr → Nat :=
  fun a => if red.contains a then v.getD (red.idxOf a) 0 else σ a

end Dom
end PGM
