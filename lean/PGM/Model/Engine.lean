import PGM.Model.Solvers
/-!
# The estimator object as a state machine (`FactoredInference`, inference.py:49-81, 281-318)

`estimate` reads the configuration fields (`domain`, `iters`, `warm_start`, `structural_zeros`,
`elim_order`, `metric`) and — only when `warm_start` is set — the potentials of the model stored by
the previous call; it overwrites `self.model` / `self.groups`.  `build` stands for everything that
happens after the initial parameters are fixed (junction tree, grouping, solver run): a function of
the configuration, the call's arguments and the initial parameter vector.
-/
namespace PGM
namespace Engine
variable {α : Type} [Scalar α]

structure Config (α : Type) where
  dom : Dom
  iters : Nat
  warmStart : Bool
  zeros : CliqueVec α

/-- a returned model: an immutable value -/
structure Model (α : Type) where
  cliques : List JT.Clique
  potentials : CliqueVec α
  marginals : Option (CliqueVec α)
  total : α

structure State (α : Type) where
  model : Option (Model α)

/-- `_setup`'s initial parameters: zeros, combined with the structural zeros, combined — under warm
start only — with the previous model's parameters -/
def initialTheta (cfg : Config α) (cliques : List JT.Clique) (s : State α) : CliqueVec α :=
  let p := CliqueVec.combine (CliqueVec.zerosV cfg.dom cliques) cfg.zeros
  match cfg.warmStart, s.model with
  | true, some m => CliqueVec.combine p m.potentials
  | _, _ => p

/-- one `estimate` call: `cliquesOf args` are the model cliques determined by the measurement list
and the zero specification, `build` is the solver run -/
def estimate {Args : Type} (cfg : Config α) (cliquesOf : Args → List JT.Clique)
    (build : Config α → Args → CliqueVec α → Model α) (s : State α) (args : Args) : State α × Model α :=
  let m := build cfg args (initialTheta cfg (cliquesOf args) s)
  (⟨some m⟩, m)

/-- the models returned along a history of calls -/
def runHistory {Args : Type} (cfg : Config α) (cliquesOf : Args → List JT.Clique)
    (build : Config α → Args → CliqueVec α → Model α) : State α → List Args → List (Model α)
  | _, [] => []
  | s, a :: as =>
    let r := estimate cfg cliquesOf build s a
    r.2 :: runHistory cfg cliquesOf build r.1 as

end Engine
end PGM
