import PGM.Model.Domain
/-!
# Substrate for MST's domain compression (`mechanisms/mst.py`: `compress_domain`, `transform_data`, `reverse_data`)

The numpy / pandas / scipy operations that the three helpers use, written out as *contracts* (what the library call
is taken to do), plus the small table model the generated definitions (`PGM/Generated/MstDomG.lean`, produced by
`tools/py2mstdom.py`) are expressed in.  Core Lean only.

* a **cell** is a non-negative integer code or `none` (pandas `NaN`: the result of `Series.map` on a key the dict
  lacks; an out-of-range fancy index, which numpy reports as `IndexError`, is collapsed to `none` as well — the
  theorems of `Properties/C06D.lean` show that no cell of the result is `none`, i.e. neither happens);
* a **frame** is a list of labelled columns (`pandas.DataFrame`, column-major); a **dataset** is a frame and a domain;
* a **measurement** is the tuple `(Q, y, sigma, proj)` of the source; the matrix type `κ` is opaque except for
  `scipy.sparse.diags`;
* a Python **dict** is an association list in insertion order (`dictSet` on a present key replaces the value in place —
  Python keeps the original position —, on an absent key appends);
* `np.random.choice(a, k)` is an outcome parameter `choice n a k` (`n` = number of earlier draws), constrained by
  `Admissible` only: `k` values, each among the elements of `a`.
-/
namespace PGM.MstDom
open PGM

/-- the float operations the translated code uses (nothing is assumed about them) -/
class MScalar (α : Type) where
  ofInt : Int → α
  add : α → α → α
  sub : α → α → α
  mul : α → α → α
  div : α → α → α
  sqrt : α → α
  ge : α → α → Bool
  gt : α → α → Bool
  le : α → α → Bool
  lt : α → α → Bool

/-- `scipy.sparse.diags(v)` -/
class QMat (α κ : Type) where
  diags : List α → κ

abbrev Cell := Option Nat
abbrev Frame := List (Attr × List Cell)

structure DS where
  df : Frame
  domain : Dom

abbrev Meas (α κ : Type) := κ × List α × α × List Attr

/-! ## dicts -/
section dict
variable {K V : Type} [DecidableEq K]

def dictFind : List (K × V) → K → Option V
  | [], _ => none
  | (k', v') :: d, k => if k' = k then some v' else dictFind d k

/-- `d[k]` (KeyError when absent: modelled by the default value; the theorems assume presence) -/
def dictGet [Inhabited V] (d : List (K × V)) (k : K) : V := (dictFind d k).getD default

/-- `d[k] = v` -/
def dictSet : List (K × V) → K → V → List (K × V)
  | [], k, v => [(k, v)]
  | (k', v') :: d, k, v => if k' = k then (k', v) :: d else (k', v') :: dictSet d k v

def dictKeys (d : List (K × V)) : List K := d.map Prod.fst
end dict

/-! ## numpy -/

/-- `m.sum()` of a boolean array -/
def maskSum (m : List Bool) : Nat := m.count true
/-- `~m` -/
def maskNot (m : List Bool) : List Bool := m.map (fun b => !b)
/-- `x[m]` for a boolean mask `m` (same length) -/
def maskSelect {β : Type} : List β → List Bool → List β
  | x :: xs, b :: bs => if b then x :: maskSelect xs bs else maskSelect xs bs
  | _, _ => []
/-- `v.sum()` of a float array -/
def vsum {α : Type} [MScalar α] (v : List α) : α := v.foldl MScalar.add (MScalar.ofInt 0)
/-- positions of `true`, counted from `off` -/
def whereFrom : Nat → List Bool → List Nat
  | _, [] => []
  | off, b :: bs => if b then off :: whereFrom (off + 1) bs else whereFrom (off + 1) bs
/-- `np.where(m)[0]` -/
def npWhere (m : List Bool) : List Nat := whereFrom 0 m
/-- `v[-1] = f(v[-1])` (IndexError on an empty array: modelled as no change) -/
def updLast {β : Type} (l : List β) (f : β → β) : List β :=
  match l.getLast? with
  | none => l
  | some x => l.dropLast ++ [f x]
/-- `np.ones(n)` -/
def npOnes {α : Type} [MScalar α] (n : Nat) : List α := List.replicate n (MScalar.ofInt 1)
/-- `m[i]` of a boolean array (IndexError past the end: `false`) -/
def maskAt (m : List Bool) (i : Nat) : Bool := m.getD i false

/-! ## pandas -/

/-- `s == v` -/
def seriesEq (s : List Cell) (v : Nat) : List Bool := s.map (fun c => decide (c = some v))
/-- `s.map(mapping)`: keys the dict lacks become NaN -/
def seriesMap (s : List Cell) (mapping : List (Nat × Nat)) : List Cell :=
  s.map (fun c => c.bind (dictFind mapping))
/-- `arr[s]`: fancy indexing of an integer array by a column of codes -/
def takeCells (arr : List Nat) (s : List Cell) : List Cell :=
  s.map (fun c => c.bind (fun v => arr[v]?))
def natsToCells (l : List Nat) : List Cell := l.map some
/-- `s[m] = vals`: the positions where `m` holds receive the successive values (pandas raises when the counts differ;
here a position is left as it is when the values have run out) -/
def locSet : List Cell → List Bool → List Cell → List Cell
  | _ :: s, true :: m, v :: vs => v :: locSet s m vs
  | c :: s, true :: m, [] => c :: locSet s m []
  | c :: s, false :: m, vs => c :: locSet s m vs
  | s, [], _ => s
  | [], _, _ => []

namespace Frame
def labels (df : Frame) : List Attr := df.map Prod.fst
/-- `df[c]` (KeyError when absent: the empty column) -/
def get (df : Frame) (c : Attr) : List Cell := dictGet df c
/-- `df[c] = s` for a present label `c` (position kept) -/
def set (df : Frame) (c : Attr) (s : List Cell) : Frame :=
  df.map (fun p => if p.1 = c then (p.1, s) else p)
/-- `df.loc[m, c]` -/
def locGet (df : Frame) (m : List Bool) (c : Attr) : List Cell := maskSelect (df.get c) m
/-- `df.loc[m, c] = vals` -/
def locSet (df : Frame) (m : List Bool) (c : Attr) (vals : List Cell) : Frame :=
  df.set c (MstDom.locSet (df.get c) m vals)
end Frame

/-- `Dataset(df, domain)`: `self.df = df.loc[:, domain.attrs]` (re-read from `src/mbi/dataset.py` by the translator) -/
def mkDataset (df : Frame) (domain : Dom) : DS :=
  { df := (Dom.attrs domain).map (fun a => (a, df.get a)), domain := domain }

/-- the contract of `np.random.choice(a, k)` for a non-empty `a` (numpy raises on an empty `a`) -/
def Admissible (choice : Nat → List Nat → Nat → List Nat) : Prop :=
  ∀ n a k, a ≠ [] → (choice n a k).length = k ∧ ∀ v ∈ choice n a k, v ∈ a

/-- what `MST` calls and this translation leaves opaque; the first argument of the effectful ones is the number of
the call site (so that two calls with equal arguments may differ) -/
structure Oracles (α κ ε μ : Type) where
  cdp_rho : α → α → α
  measure : Nat → DS → List (List Attr) → α → List (Meas α κ)
  select : Nat → DS → α → List (Meas α κ) → List (List Attr)
  FactoredInference : Dom → Nat → ε
  estimate : Nat → ε → List (Meas α κ) → μ
  synthetic_data : Nat → μ → DS

/-! ## what "a table over a domain" means -/

/-- every cell is a code `< n` -/
def ColIn (n : Nat) (s : List Cell) : Prop := ∀ c ∈ s, ∃ v, c = some v ∧ v < n

/-- `D` carries the domain `d`, its frame has exactly `d`'s columns in `d`'s order, `rows` rows, every value inside -/
def DS.Over (D : DS) (d : Dom) (rows : Nat) : Prop :=
  D.domain = d ∧ D.df.labels = d.attrs ∧ ∀ p ∈ d, (D.df.get p.1).length = rows ∧ ColIn p.2 (D.df.get p.1)

end PGM.MstDom
