/-!
# L0 — multi-indices, row-major layout

Core-Lean only (no Mathlib).  `cells s` enumerates every in-range multi-index of a shape `s` in
row-major order (last axis fastest) — numpy's C order; `ravel` is the flat offset.
-/
namespace PGM

/-- number of cells of a shape (`Domain.size`, `np.prod(shape)`) -/
def size : List Nat → Nat
  | [] => 1
  | n :: ns => n * size ns

/-- all in-range multi-indices of a shape, row-major (last axis fastest) -/
def cells : List Nat → List (List Nat)
  | [] => [[]]
  | n :: ns => (List.range n).flatMap (fun i => (cells ns).map (fun r => i :: r))

/-- row-major flat offset -/
def ravel : List Nat → List Nat → Nat
  | [], _ => 0
  | _ :: _, [] => 0
  | _ :: ns, i :: is => i * size ns + ravel ns is

/-- `idx` is a valid multi-index for `shape` -/
def InRange : List Nat → List Nat → Prop
  | [], [] => True
  | n :: ns, i :: is => i < n ∧ InRange ns is
  | _, _ => False

def inRangeB : List Nat → List Nat → Bool
  | [], [] => true
  | n :: ns, i :: is => decide (i < n) && inRangeB ns is
  | _, _ => false

theorem inRangeB_iff (s idx : List Nat) : inRangeB s idx = true ↔ InRange s idx := by
  induction s generalizing idx with
  | nil => cases idx <;> simp [inRangeB, InRange]
  | cons n ns ih => cases idx with
    | nil => simp [inRangeB, InRange]
    | cons i is => simp [inRangeB, InRange, ih]

instance (s idx : List Nat) : Decidable (InRange s idx) :=
  decidable_of_iff _ (inRangeB_iff s idx)

theorem InRange.length_eq {s idx : List Nat} (h : InRange s idx) : idx.length = s.length := by
  induction s generalizing idx with
  | nil => cases idx <;> simp_all [InRange]
  | cons n ns ih => cases idx with
    | nil => simp [InRange] at h
    | cons i is => simp [ih h.2]

theorem length_cells (s : List Nat) : (cells s).length = size s := by
  induction s with
  | nil => rfl
  | cons n ns ih =>
    simp only [cells, size, List.length_flatMap, List.length_map, ih]
    induction n with
    | zero => simp
    | succ k ihk => simp [List.range_succ, ihk, Nat.succ_mul]

theorem ravel_lt (s idx : List Nat) (h : InRange s idx) : ravel s idx < size s := by
  induction s generalizing idx with
  | nil => cases idx <;> simp_all [InRange, ravel, size]
  | cons n ns ih =>
    cases idx with
    | nil => simp [InRange] at h
    | cons i is =>
      obtain ⟨hi, hr⟩ := h
      have := ih is hr
      simp only [ravel, size]
      calc i * size ns + ravel ns is < i * size ns + size ns := by omega
        _ = (i+1) * size ns := by rw [Nat.succ_mul]
        _ ≤ n * size ns := Nat.mul_le_mul_right _ hi

/-- key lemma: the cell at flat position `ravel s idx` is `idx` -/
theorem cells_getElem_ravel (s idx : List Nat) (h : InRange s idx) :
    (cells s)[ravel s idx]? = some idx := by
  induction s generalizing idx with
  | nil => cases idx <;> simp_all [InRange, ravel, cells]
  | cons n ns ih =>
    cases idx with
    | nil => simp [InRange] at h
    | cons i is =>
      obtain ⟨hi, hr⟩ := h
      simp only [cells, ravel]
      have key : ∀ (m : Nat) (i : Nat) (off : Nat), i < m →
          ((List.range' off m).flatMap (fun j => (cells ns).map (fun r => j :: r)))[i * size ns + ravel ns is]?
            = some ((off + i) :: is) := by
        intro m
        induction m with
        | zero => intro i off h0; omega
        | succ k ihk =>
          intro i off hik
          simp only [List.range'_succ, List.flatMap_cons]
          cases i with
          | zero =>
            simp only [Nat.zero_mul, Nat.zero_add, Nat.add_zero]
            rw [List.getElem?_append_left (by simpa [length_cells] using ravel_lt ns is hr)]
            simp [List.getElem?_map, ih is hr]
          | succ i' =>
            rw [List.getElem?_append_right (by simp [length_cells, Nat.succ_mul]; omega)]
            have : (i'+1) * size ns + ravel ns is - ((cells ns).map (fun r => off :: r)).length
                  = i' * size ns + ravel ns is := by
              simp [length_cells, Nat.succ_mul]; omega
            rw [this]
            have := ihk i' (off+1) (by omega)
            simpa [Nat.add_assoc, Nat.add_comm 1 i'] using this
      have := key n i 0 hi
      simpa [List.range_eq_range'] using this

/-- every enumerated cell is in range -/
theorem mem_cells_inRange (s idx : List Nat) (h : idx ∈ cells s) : InRange s idx := by
  induction s generalizing idx with
  | nil => simp [cells] at h; subst h; trivial
  | cons n ns ih =>
    simp only [cells, List.mem_flatMap, List.mem_range, List.mem_map] at h
    obtain ⟨i, hi, r, hr, rfl⟩ := h
    exact ⟨hi, ih r hr⟩

/-- every in-range multi-index is enumerated -/
theorem inRange_mem_cells (s idx : List Nat) (h : InRange s idx) : idx ∈ cells s := by
  have := cells_getElem_ravel s idx h
  exact List.mem_of_getElem? this

theorem mem_cells_iff (s idx : List Nat) : idx ∈ cells s ↔ InRange s idx :=
  ⟨mem_cells_inRange s idx, inRange_mem_cells s idx⟩

end PGM
