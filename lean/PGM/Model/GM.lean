import PGM.Model.Factor
import PGM.Model.JTree
/-!
# L3 — exact inference (`src/mbi/graphical_model.py`), generic over the scalar

`CliqueVec α` is the `CliqueVector` dictionary as an association list in insertion order.
Log-space functions (`beliefPropagation`, `veLogspace`, `datavector`, `mle`) use the log-space
reading of `Scalar` (`add` = `+` on logs, `lse`, `negInfAware`); exp-space functions
(`variableElimination`, `krondot`, `manyMarginals`) use `mul`, `sum`, `safeDiv`.
-/
namespace PGM

abbrev CliqueVec (α : Type) := List (JT.Clique × Factor α)

namespace CliqueVec
variable {α : Type} [Scalar α]

def get (cv : CliqueVec α) (c : JT.Clique) : Factor α :=
  match cv.lookup c with
  | some f => f
  | none => Factor.zeros []

def has (cv : CliqueVec α) (c : JT.Clique) : Bool := (cv.lookup c).isSome

/-- `d[c] = f` (replace in place, or append) -/
def set (cv : CliqueVec α) (c : JT.Clique) (f : Factor α) : CliqueVec α :=
  if cv.any (fun p => p.1 == c) then cv.map (fun p => if p.1 == c then (c, f) else p) else cv ++ [(c, f)]

end CliqueVec

namespace GM
variable {α : Type} [Scalar α]
open Scalar JT

abbrev Msgs (α : Type) := List ((Clique × Clique) × Factor α)

/-- `belief_propagation` (graphical_model.py:148-176): the message loop -/
def bpLoop (order : List (Clique × Clique)) (pots : CliqueVec α) : CliqueVec α × Msgs α :=
  order.foldl (fun (st : CliqueVec α × Msgs α) (ij : Clique × Clique) =>
    let (beliefs, messages) := st
    let (i, j) := ij
    let bi := beliefs.get i
    let sep := bi.dom.invert (JT.inter i j)
    let tau := match messages.lookup (j, i) with
      | some m => bi.sub m
      | none => bi
    let msg := tau.logsumexp sep
    let beliefs := beliefs.set j ((beliefs.get j).iadd msg)
    (beliefs, messages ++ [((i, j), msg)])) (pots, [])

/-- log-partition function: `beliefs[cliques[0]].logsumexp()` -/
def logZ (cliques : List Clique) (order : List (Clique × Clique)) (pots : CliqueVec α) : α :=
  ((bpLoop order pots).1.get (cliques.headD [])).logsumexpAll

/-- `belief_propagation(potentials)`: normalised clique marginals with the given total -/
def beliefPropagation (cliques : List Clique) (order : List (Clique × Clique)) (pots : CliqueVec α)
    (total : α) : CliqueVec α :=
  let beliefs := (bpLoop order pots).1
  let lz := (beliefs.get (cliques.headD [])).logsumexpAll
  let shift := Scalar.sub (Scalar.log total) lz
  cliques.map (fun cl => (cl, ((beliefs.get cl).iaddScalar shift).exp))

/-- `variable_elimination_logspace(potentials, elim, total)` (graphical_model.py:251-262) -/
def veLogspace (pots : List (Factor α)) (elim : List Attr) (total : α) : Factor α :=
  let psi := elim.foldl (fun (psi : List (Factor α)) z =>
    let psi2 := psi.filter (fun f => f.dom.attrs.contains z)
    let rest := psi.filter (fun f => !f.dom.attrs.contains z)
    match psi2 with
    | [] => rest   -- Python would fail on `0.logsumexp`; excluded by `preVE`
    | p :: ps =>
      let phi := ps.foldl Factor.add p
      rest ++ [phi.logsumexp [z]]) pots
  match psi with
  | [] => Factor.zeros []
  | p :: ps =>
    let ans := ps.foldl Factor.add p
    ((ans.subScalar ans.logsumexpAll).addScalar (Scalar.log total)).exp

/-- every eliminated variable occurs in some factor, and something is left to multiply -/
def preVE (pots : List (Factor α)) (elim : List Attr) : Bool :=
  elim.all (fun z => pots.any (fun f => f.dom.attrs.contains z)) && !pots.isEmpty

/-- `variable_elimination(factors, elim)` (exp-space, graphical_model.py:264-275) -/
def variableElimination (factors : List (Factor α)) (elim : List Attr) : Factor α :=
  let psi := elim.foldl (fun (psi : List (Factor α)) z =>
    let psi2 := psi.filter (fun f => f.dom.attrs.contains z)
    let rest := psi.filter (fun f => !f.dom.attrs.contains z)
    match psi2 with
    | [] => rest
    | p :: ps =>
      let phi := ps.foldl Factor.mul p
      rest ++ [phi.sum [z]]) factors
  match psi with
  | [] => Factor.ones []
  | p :: ps => ps.foldl Factor.mul p

/-- elimination order used by the model for `project`: any order gives the same table
(`ve_order_irrelevant`); the model takes the attributes in domain order -/
def GMproject (dom : Dom) (pots : CliqueVec α) (total : α) (attrs : List Attr) : Factor α :=
  let elim := dom.invert attrs
  let ans := veLogspace (pots.map Prod.snd) elim total
  ans.projectSum attrs

/-- `GraphicalModel.datavector` (graphical_model.py:138-143), log-space part:
`exp(logp − logp.logsumexp())` expanded onto the full domain -/
def datavectorCore (dom : Dom) (cliques : List Clique) (pots : CliqueVec α) : Factor α :=
  match cliques.map pots.get with
  | [] => Factor.zeros []
  | p :: ps =>
    let logp := ps.foldl Factor.add p
    let ans := (logp.subScalar logp.logsumexpAll).exp
    ans.expand dom

/-- … and the plain-space tail `* wgt * total` on the flat values -/
def datavectorScale {β : Type} [Scalar β] (flat : List β) (wgt total : β) : List β :=
  flat.map (fun v => Scalar.mul (Scalar.mul v wgt) total)

/-- `mle` (graphical_model.py:178-191): potentials from marginals, cliques in DFS order.
The marginals live in plain space (`β`), the potentials in log space (`α`); `logf` is
`Factor.log` (for `Float` both types coincide; for the exact instances it is the carrier
re-interpretation, with the `1e-100` offset dropped). -/
def mle {β : Type} [Scalar β] (logf : Factor β → Factor α) (cliques : List Clique) (marg : CliqueVec β) :
    CliqueVec α :=
  (cliques.foldl (fun (st : List Attr × CliqueVec α) cl =>
    let (vars, out) := st
    let new := cl.filter (fun a => vars.contains a)
    let m := marg.get cl
    let pot := (logf m).sub (logf (m.projectSum new))
    (JT.union vars cl, out ++ [(cl, pot)])) ([], [])).2

end GM
end PGM

namespace PGM
namespace GM
variable {α : Type} [Scalar α]
open Scalar JT

/-- `krondot` (graphical_model.py:72-93) in exp-space: `expPots` are the exponentiated potentials
in `cliques` order, `mats` one `(rows, flat row-major entries)` matrix per domain attribute -/
def krondot (dom : Dom) (expPots : List (Factor α)) (mats : List (Nat × List α)) (total z : α) : NdArr α :=
  let qf := (List.zip dom mats).map (fun (p : (Attr × Nat) × (Nat × List α)) =>
    let d : Dom := [(p.1.1 ++ "-answer", p.2.1), (p.1.1, p.1.2)]
    (Factor.mk' d ⟨d.shape, p.2.2.toArray⟩ : Factor α))
  let res := variableElimination (expPots ++ qf) dom.attrs
  let res := res.transpose (dom.attrs.map (· ++ "-answer"))
  res.vals.map (fun v => Scalar.div (Scalar.mul v total) z)

/-- breadth-first predecessor / distance table of a tree from `src`:
entries `(node, dist, pred)`; the contract of `floyd_warshall_predecessor_and_distance` on a tree -/
def bfs (t : Tree) (src : Clique) : List (Clique × Nat × Clique) :=
  let rec go (fuel : Nat) (frontier : List Clique) (seen : List (Clique × Nat × Clique)) (d : Nat) :=
    match fuel with
    | 0 => seen
    | fuel + 1 =>
      let next := frontier.flatMap (fun u =>
        (t.nbrs u).filterMap (fun v => if seen.any (fun s => s.1 == v) then none else some (v, d + 1, u)))
      -- drop duplicates (cannot occur in a tree, kept total)
      let next := next.foldl (fun acc e => if acc.any (fun s => s.1 == e.1) then acc else acc ++ [e]) []
      if next.isEmpty then seen else go fuel (next.map (·.1)) (seen ++ next) (d + 1)
  go t.nodes.length [src] [(src, 0, src)] 0

def distOf (tbl : List (Clique × Nat × Clique)) (v : Clique) : Nat :=
  match tbl.find? (fun e => e.1 == v) with | some e => e.2.1 | none => 0
def predOf (tbl : List (Clique × Nat × Clique)) (v : Clique) : Clique :=
  match tbl.find? (fun e => e.1 == v) with | some e => e.2.2 | none => v

def combos2 {β : Type} : List β → List (β × β)
  | [] => []
  | x :: xs => xs.map (fun y => (x, y)) ++ combos2 xs

/-- assoc-list update with Python-dict semantics: an existing key keeps its position -/
def dictSet {κ β : Type} [BEq κ] (d : List (κ × β)) (k : κ) (v : β) : List (κ × β) :=
  if d.any (fun p => p.1 == k) then d.map (fun p => if p.1 == k then (k, v) else p) else d ++ [(k, v)]

/-- `calculate_many_marginals` (graphical_model.py:95-136): `marg` are the calibrated clique
marginals; `fallback` answers projections no pairwise result covers (`self.project`) -/
def manyMarginals (dom : Dom) (cliques : List Clique) (t : Tree) (marg : CliqueVec α)
    (fallback : List Attr → Factor α) (projections : List (List Attr)) : List (List Attr × Factor α) :=
  let conditional (cj ci : Clique) : Factor α :=
    let z := marg.get cj
    z.divF (z.projectSum (JT.inter cj ci))
  let tables := cliques.map (fun c => (c, bfs t c))
  let tbl (c : Clique) := (tables.lookup c).getD []
  let prs := Dom.sortBy (fun (p : Clique × Clique) => distOf (tbl p.1) p.2) (combos2 cliques)
  let results := prs.foldl (fun (res : List ((Clique × Clique) × Factor α)) (p : Clique × Clique) =>
    let (ci, cj) := p
    let cl := predOf (tbl ci) cj
    let y := conditional cj cl
    let r := if cl == ci then (marg.get ci).mul y
      else
        let x := (res.lookup (ci, cl)).getD (Factor.zeros [])
        let s := cl.filter (fun a => !ci.contains a && !cj.contains a)
        (x.mul y).sum s
    dictSet (dictSet res (ci, cj) r) (cj, ci) r) []
  let results2 := results.foldl (fun (d : List (List Attr × Factor α)) (e : (Clique × Clique) × Factor α) =>
    dictSet d (dom.canonical (e.1.1 ++ e.1.2)) e.2) []
  projections.map (fun proj =>
    match results2.find? (fun e => JT.subset proj e.1) with
    | some e => (proj, e.2.projectSum proj)
    | none => (proj, fallback proj))

end GM
end PGM
