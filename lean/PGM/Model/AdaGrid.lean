import PGM.Model.Scalar
/-!
# Adaptive Grid: the query matrices of steps 1 and 3 (`mechanisms/adaptive_grid.py:112-178, 287-348`)

For a clique `cl` the mechanism measures `Q @ mu` with `Q = vstack([Q1', Q2])`:
* `Q1 = get_identity(cl, …)` is the diagonal 0/1 matrix of the cells that earlier (noisy) answers
  leave plausible, `Q1'` its non-zero rows;
* `Q2 = get_aggregate(cl, matrices, domain) @ (I − Q1)`, where `get_aggregate` stacks, for every
  already measured child clique `c` (one attribute less), `1/sqrt(#children) · kron(ones, Q_c) @ P`:
  column `j` of `kron(ones, Q_c) @ P` (cell `x` of `cl`) is column `σ j` of `Q_c` (the cell `x|c`).

The comment in the source says "Q has sensitivity 1 by construction": every column has Euclidean
norm at most 1, so adding or removing one record moves `Q @ mu` by at most 1 — the sensitivity the
noise scale `sigma` is calibrated to.  Matrices are lists of rows.
-/
namespace PGM
namespace AdaGrid
variable {α : Type} [Scalar α]
open Scalar

abbrev Mat (α : Type) := List (List α)

/-- squared Euclidean norm of column `j` -/
def colSq (M : Mat α) (j : Nat) : α :=
  Scalar.sum (M.map (fun row => let x := row.getD j Scalar.zero; Scalar.mul x x))

/-- `kron(ones(|a|), Qc) @ P`: column `j` is column `σ[j]` of `Qc` -/
def lift (Qc : Mat α) (σ : List Nat) : Mat α :=
  Qc.map (fun row => σ.map (fun i => row.getD i Scalar.zero))

/-- `get_aggregate`: the lifted child matrices, each scaled by `coef = 1/sqrt(#children)`, stacked -/
def aggregate (coef : α) (children : List (Mat α × List Nat)) : Mat α :=
  children.flatMap (fun c => (lift c.1 c.2).map (fun row => row.map (fun x => Scalar.mul coef x)))

/-- the unit rows of the selected cells (`Q1[Q1.getnnz(1) > 0]`) -/
def unitRows (n : Nat) (sel : List Nat) : Mat α :=
  ((List.range n).filter (fun j => sel.contains j)).map
    (fun j => (List.range n).map (fun i => if i == j then Scalar.one else Scalar.zero))

/-- `agg @ (I − Q1)`: the columns of the selected cells are zeroed -/
def maskCols (n : Nat) (sel : List Nat) (agg : Mat α) : Mat α :=
  agg.map (fun row => (List.range n).map (fun i => if sel.contains i then Scalar.zero else row.getD i Scalar.zero))

/-- `Q = vstack([Q1', Q2])` for a clique with `n` cells -/
def query (n : Nat) (sel : List Nat) (coef : α) (children : List (Mat α × List Nat)) : Mat α :=
  unitRows n sel ++ maskCols n sel (aggregate coef children)

/-- `Q @ mu` -/
def apply (M : Mat α) (mu : List α) : List α :=
  M.map (fun row => Scalar.sum ((List.zip row mu).map (fun p => Scalar.mul p.1 p.2)))

end AdaGrid
end PGM
