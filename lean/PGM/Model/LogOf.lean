import PGM.Model.Scalar
/-!
# Proof-side scalar instances over an arbitrary (semi)field `K`

* `LogOf K` — the exp-space image of log-space arithmetic: a value `x` stands for `log x.v`
  (`x.v = 0` for `-∞`); `add` is `*`, `neg` is `⁻¹`, `lse` is the sum, `exp`/`log` are the identity
  on the carrier.  This is `LogQ` without the IEEE ∞/nan decorations.
* `PlainOf K` — ordinary arithmetic.

The model functions are generic over `Scalar`, so the theorems proved at these instances are about
the very same Lean terms the driver executes at `LogQ` / `ExtQ` / `Float`.
-/
namespace PGM

structure LogOf (K : Type) where
  v : K

structure PlainOf (K : Type) where
  v : K

section
variable {K : Type} [Zero K] [One K] [Add K] [Mul K] [Inv K] [Neg K] [DecidableEq K] [LT K]
  [DecidableRel (α := K) (· < ·)]

instance : Scalar (LogOf K) where
  default := ⟨1⟩
  zero := ⟨1⟩
  one := ⟨1⟩            -- unused by log-space code
  add x y := ⟨x.v * y.v⟩
  neg x := ⟨x.v⁻¹⟩
  mul x _ := x          -- unused (a power)
  div x _ := x          -- unused
  isNegInf x := decide (x.v = 0)
  gt0 x := decide (1 < x.v)
  le0 x := !decide (1 < x.v)
  max x y := if x.v < y.v then y else x
  nanToNum x := x
  exp x := x
  log x := x
  lse l := ⟨(l.map (·.v)).foldl (· + ·) 0⟩
  logaddexp x y := ⟨x.v + y.v⟩
  tiny := ⟨0⟩
  ofNat _ := ⟨1⟩

instance : Scalar (PlainOf K) where
  default := ⟨0⟩
  zero := ⟨0⟩
  one := ⟨1⟩
  add x y := ⟨x.v + y.v⟩
  neg x := ⟨-x.v⟩
  mul x y := ⟨x.v * y.v⟩
  div x y := ⟨x.v * y.v⁻¹⟩
  isNegInf _ := false
  gt0 x := decide (0 < x.v)
  le0 x := !decide (0 < x.v)
  max x y := if x.v < y.v then y else x
  nanToNum x := x
  exp x := x            -- unused
  log x := x            -- unused
  lse l := ⟨(l.map (·.v)).foldl (· + ·) 0⟩   -- unused
  logaddexp x y := ⟨x.v + y.v⟩               -- unused
  tiny := ⟨0⟩
  ofNat n := ⟨n.rec 0 (fun _ acc => acc + 1)⟩
end

end PGM
