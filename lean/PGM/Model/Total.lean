/-!
# Estimating the total (`inference.py:289-304` and its copies in local/public/mixture inference)

For each measurement `(Q, y, σ)`: `v = lsmr(Qᵀ, 1)` — by contract the minimum-norm least-squares
solution — is kept iff `Qᵀ v = 1`; then `estimate = ⟨v,y⟩`, `variance = σ²⟨v,v⟩`; estimates are
combined by inverse variance and the result is `max(1, ·)`; `1` when nothing qualifies.

Executable over any field with decidable equality/order (core `Rat` in the driver): the minimum-norm
solution is `v = Q z` with `(QᵀQ) z = 1`, found by Gauss–Jordan elimination, and *certified* by
checking `Qᵀ v = 1` exactly — so a measurement is only ever used with a verified unbiased `v`.
-/
namespace PGM
namespace Total

variable {K : Type} [Add K] [Sub K] [Mul K] [Div K] [Zero K] [One K] [DecidableEq K] [LT K]
  [DecidableRel (α := K) (· < ·)]

def dot (x y : List K) : K := (List.zipWith (· * ·) x y).foldl (· + ·) 0
def matVec (Q : List (List K)) (x : List K) : List K := Q.map (fun r => dot r x)
def col (Q : List (List K)) (j : Nat) : List K := Q.map (fun r => r.getD j 0)
def ncols (Q : List (List K)) : Nat := (Q.headD []).length
/-- `Qᵀ v` -/
def matTVec (Q : List (List K)) (v : List K) : List K := (List.range (ncols Q)).map (fun j => dot (col Q j) v)
/-- `QᵀQ` -/
def gram (Q : List (List K)) : List (List K) :=
  (List.range (ncols Q)).map (fun i => (List.range (ncols Q)).map (fun j => dot (col Q i) (col Q j)))

/-- Gauss–Jordan on the augmented rows `(row, rhs)`; returns the rows and the pivot columns -/
def gaussJordan (n : Nat) (rows : List (List K × K)) : List (List K × K) × List (Nat × Nat) :=
  (List.range n).foldl (fun (st : List (List K × K) × List (Nat × Nat)) c =>
    let (rows, pivots) := st
    let used := pivots.map (·.1)
    match (List.range rows.length).find? (fun i => !used.contains i && (rows.getD i ([], 0)).1.getD c 0 ≠ 0) with
    | none => (rows, pivots)
    | some pi =>
      let prow := rows.getD pi ([], 0)
      let pv := prow.1.getD c 0
      let prow' : List K × K := (prow.1.map (· / pv), prow.2 / pv)
      let rows' := (List.range rows.length).map (fun i =>
        if i = pi then prow'
        else
          let r := rows.getD i ([], 0)
          let f := r.1.getD c 0
          (List.zipWith (fun a b => a - f * b) r.1 prow'.1, r.2 - f * prow'.2))
      (rows', pivots ++ [(pi, c)])) (rows, [])

/-- a solution candidate of `A z = b` (free variables 0) -/
def solve (A : List (List K)) (b : List K) : List K :=
  let n := ncols A
  let (rows, pivots) := gaussJordan n (List.zip A b)
  (List.range n).map (fun c =>
    match pivots.find? (fun p => p.2 = c) with
    | some p => (rows.getD p.1 ([], 0)).2
    | none => 0)

/-- the certified minimum-norm vector: `some v` with `v = Q z` and `Qᵀ v = 1`, else `none` -/
def unbiasedVec (Q : List (List K)) : Option (List K) :=
  let n := ncols Q
  let ones := List.replicate n (1 : K)
  let z := solve (gram Q) ones
  let v := matVec Q z
  if matTVec Q v = ones then some v else none

structure Meas (K : Type) where
  Q : List (List K)
  y : List K
  noise : K

/-- `(estimate, variance)` of each qualifying measurement -/
def estimates (meas : List (Meas K)) : List (K × K) :=
  meas.filterMap (fun m => (unbiasedVec m.Q).map (fun v => (dot v m.y, m.noise * m.noise * dot v v)))

/-- inverse-variance combination (`variance * Σ est/var` with `variance = 1/Σ 1/var`) -/
def combine (ev : List (K × K)) : K :=
  let w := (ev.map (fun p => 1 / p.2)).foldl (· + ·) 0
  let s := (ev.map (fun p => p.1 / p.2)).foldl (· + ·) 0
  (1 / w) * s

/-- the total used when the caller gives none -/
def totalEstimate (meas : List (Meas K)) : K :=
  let ev := estimates meas
  if ev.isEmpty then 1 else
    let e := combine ev
    if e < 1 then 1 else e

/-- `_setup(measurements, total)`: a supplied total is used as is -/
def totalOf (given : Option K) (meas : List (Meas K)) : K :=
  match given with
  | some t => t
  | none => totalEstimate meas

end Total
end PGM
