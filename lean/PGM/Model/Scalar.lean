/-!
# Scalars

`Scalar α` is the interface through which every numeric definition of the model is written once.
Instances:
* `ExtQ` — exact rationals extended by `+∞`, `−∞`, `nan` with IEEE-754 conventions (no signed
  zeros, no rounding).  The exact oracle for operations that are rational.
* `Float` — IEEE doubles (Lean's `Float`), the model of the code as written when `exp`/`log` occur.
* `LogQ` (in `LogQ.lean`) — the exp-space image of log-space code over nonnegative rationals.
-/
namespace PGM

class Scalar (α : Type) extends Inhabited α where
  zero : α
  one : α
  add : α → α → α
  neg : α → α
  mul : α → α → α
  div : α → α → α
  /-- `x == -inf` -/
  isNegInf : α → Bool
  /-- `x > 0` (false on nan) -/
  gt0 : α → Bool
  /-- `x <= 0` (false on nan) -/
  le0 : α → Bool
  /-- numpy `maximum` (nan-propagating) -/
  max : α → α → α
  /-- `np.nan_to_num` -/
  nanToNum : α → α
  exp : α → α
  log : α → α
  /-- `scipy.special.logsumexp` of a list -/
  lse : List α → α
  /-- `np.logaddexp` -/
  logaddexp : α → α → α
  /-- the constant `1e-100` added inside `Factor.log` -/
  tiny : α
  ofNat : Nat → α

namespace Scalar
variable {α : Type} [Scalar α]
def sub (x y : α) : α := add x (neg y)
def sum (l : List α) : α := l.foldl add zero
def maxL (l : List α) : α :=
  match l with
  | [] => default
  | x :: xs => xs.foldl max x
end Scalar

/-- rationals extended with ±∞ and nan, IEEE conventions -/
inductive ExtQ where
  | fin (q : Rat)
  | pinf
  | ninf
  | nan
  deriving Repr, BEq, DecidableEq, Inhabited

namespace ExtQ

/-- largest finite double, exactly: (2^53 − 1)·2^971 -/
def maxFloat : Rat := ((2:Rat)^53 - 1) * (2:Rat)^971

def add : ExtQ → ExtQ → ExtQ
  | nan, _ => nan
  | _, nan => nan
  | pinf, ninf => nan
  | ninf, pinf => nan
  | pinf, _ => pinf
  | _, pinf => pinf
  | ninf, _ => ninf
  | _, ninf => ninf
  | fin a, fin b => fin (a + b)

def neg : ExtQ → ExtQ
  | nan => nan
  | pinf => ninf
  | ninf => pinf
  | fin a => fin (-a)

/-- sign of an extended rational: -1, 0, 1 (nan ↦ 0, unused) -/
def sgn : ExtQ → Int
  | fin a => if a > 0 then 1 else if a < 0 then -1 else 0
  | pinf => 1
  | ninf => -1
  | nan => 0

def ofSign (s : Int) : ExtQ := if s > 0 then pinf else if s < 0 then ninf else nan

def mul : ExtQ → ExtQ → ExtQ
  | nan, _ => nan
  | _, nan => nan
  | fin a, fin b => fin (a * b)
  | x, y => ofSign (sgn x * sgn y)   -- at least one infinite; 0·∞ = nan

def div : ExtQ → ExtQ → ExtQ
  | nan, _ => nan
  | _, nan => nan
  | fin a, fin b => if b = 0 then ofSign (sgn (fin a)) else fin (a / b)
  | fin _, _ => fin 0        -- finite / ±∞
  | _, pinf => nan
  | _, ninf => nan
  | x, fin b => if b < 0 then neg x else x   -- ±∞ / finite (÷ +0 keeps the sign)

def isNegInf : ExtQ → Bool
  | ninf => true
  | _ => false

def gt0 : ExtQ → Bool
  | fin a => a > 0
  | pinf => true
  | _ => false

def le0 : ExtQ → Bool
  | fin a => a ≤ 0
  | ninf => true
  | _ => false

def max : ExtQ → ExtQ → ExtQ
  | nan, _ => nan
  | _, nan => nan
  | pinf, _ => pinf
  | _, pinf => pinf
  | ninf, y => y
  | x, ninf => x
  | fin a, fin b => if a < b then fin b else fin a

def nanToNum : ExtQ → ExtQ
  | nan => fin 0
  | pinf => fin maxFloat
  | ninf => fin (-maxFloat)
  | x => x

instance : Scalar ExtQ where
  default := fin 0
  zero := fin 0
  one := fin 1
  add := add
  neg := neg
  mul := mul
  div := div
  isNegInf := isNegInf
  gt0 := gt0
  le0 := le0
  max := max
  nanToNum := nanToNum
  exp := fun _ => nan      -- not rational: the exact stream never calls these
  log := fun _ => nan
  lse := fun _ => nan
  logaddexp := fun _ _ => nan
  tiny := fin 0
  ofNat := fun n => fin n

end ExtQ

namespace FloatS
def inf : Float := 1.0 / 0.0
def ninf : Float := -1.0 / 0.0
def maxFloat : Float := 1.7976931348623157e308

def fmax (x y : Float) : Float :=
  if x.isNaN then x else if y.isNaN then y else if x < y then y else x

def nanToNum (x : Float) : Float :=
  if x.isNaN then 0.0 else if x == inf then maxFloat else if x == ninf then -maxFloat else x

/-- scipy's logsumexp: shift by the maximum (taken as 0 when it is not finite) -/
def lse (l : List Float) : Float :=
  match l with
  | [] => ninf
  | x :: xs =>
    let m := xs.foldl fmax x
    let m := if m.isFinite then m else 0.0
    let s := l.foldl (fun acc v => acc + Float.exp (v - m)) 0.0
    Float.log s + m

/-- `log1p` by the classical compensated formula (Lean's `Float` has no `log1p`) -/
def log1p (x : Float) : Float :=
  let u := 1.0 + x
  if u == 1.0 then x else Float.log u * x / (u - 1.0)

def logaddexp (x y : Float) : Float :=
  if x == y then x + Float.log 2.0      -- numpy: handles ±∞ equal operands
  else
    let d := x - y
    if d > 0 then x + log1p (Float.exp (-d))
    else if d ≤ 0 then y + log1p (Float.exp d)
    else x + y  -- nan

instance : Scalar Float where
  default := 0.0
  zero := 0.0
  one := 1.0
  add := (· + ·)
  neg := fun x => -x
  mul := (· * ·)
  div := (· / ·)
  isNegInf := fun x => x == ninf
  gt0 := fun x => x > 0.0
  le0 := fun x => x ≤ 0.0
  max := fmax
  nanToNum := nanToNum
  exp := Float.exp
  log := Float.log
  lse := lse
  logaddexp := logaddexp
  tiny := 1e-100
  ofNat := fun n => n.toFloat
end FloatS

end PGM
