import PGM.Model.NdArr
import PGM.Model.Domain
import PGM.Model.Scalar
/-!
# L1b — factors (`src/mbi/factor.py`), transcribed operation by operation

Each definition follows the Python line by line in terms of the numpy contracts of `NdArr`.
Where Python raises (assert / KeyError / ValueError / numpy broadcast error) the corresponding
`pre…` predicate is false; the operations themselves are total and the theorems are stated under
the predicate.
-/
namespace PGM

structure Factor (α : Type) where
  dom : Dom
  vals : NdArr α
  deriving Repr

namespace Factor
variable {α : Type} [Scalar α]
open Scalar

/-- `Factor(domain, values)`: values are reshaped to the domain's shape -/
def mk' (d : Dom) (v : NdArr α) : Factor α := ⟨d, v.reshape d.shape⟩

/-- the constructor's assertion -/
def preMk (d : Dom) (v : NdArr α) : Bool := d.size == v.data.size

def WF (f : Factor α) : Prop := f.dom.WF ∧ f.vals.shape = f.dom.shape ∧ f.vals.WF

instance (f : Factor α) : Decidable f.WF := by unfold WF; infer_instance

def zeros (d : Dom) : Factor α := mk' d (NdArr.const d.shape zero)
def ones (d : Dom) : Factor α := mk' d (NdArr.const d.shape one)

/-- `Factor.expand` (factor.py:47-54) -/
def expand (f : Factor α) (d : Dom) : Factor α :=
  let dims := d.length - f.dom.length
  let v1 := f.vals.reshape (f.dom.shape ++ List.replicate dims 1)
  let ax := d.axes f.dom.attrs
  let v2 := v1.moveaxis (List.range ax.length) ax
  let v3 := v2.broadcastTo d.shape
  mk' d v3

def preExpand (f : Factor α) (d : Dom) : Bool := d.contains f.dom

/-- `Factor.transpose` (factor.py:56-61) -/
def transpose (f : Factor α) (as : List Attr) : Factor α :=
  let newdom := f.dom.project as
  let ax := newdom.axes f.dom.attrs
  let v := f.vals.moveaxis (List.range ax.length) ax
  mk' newdom v

def preTranspose (f : Factor α) (as : List Attr) : Bool :=
  as.all (fun a => f.dom.attrs.contains a) && f.dom.attrs.all (fun a => as.contains a)

/-- `sum/logsumexp/max` over named attributes with reduction `r` (factor.py:76-106) -/
def reduce (r : List α → α) (f : Factor α) (as : List Attr) : Factor α :=
  let axes := f.dom.axes as
  let v := f.vals.reduceAxes r axes
  mk' (f.dom.marginalize as) v

def preReduce (f : Factor α) (as : List Attr) : Bool := f.dom.hasAll as

def sum (f : Factor α) (as : List Attr) : Factor α := reduce Scalar.sum f as
def logsumexp (f : Factor α) (as : List Attr) : Factor α := reduce lse f as
def max (f : Factor α) (as : List Attr) : Factor α := reduce maxL f as

def sumAll (f : Factor α) : α := f.vals.reduceAll Scalar.sum
def logsumexpAll (f : Factor α) : α := f.vals.reduceAll lse
def maxAll (f : Factor α) : α := f.vals.reduceAll maxL

/-- `Factor.project` (factor.py:63-74) -/
def project (r : List α → α) (f : Factor α) (as : List Attr) : Factor α :=
  let marginalized := f.dom.marginalize as
  (reduce r f marginalized.attrs).transpose as

def prePoject (f : Factor α) (as : List Attr) : Bool :=
  as.all (fun a => f.dom.attrs.contains a)

def projectSum (f : Factor α) (as : List Attr) : Factor α := project Scalar.sum f as
def projectLse (f : Factor α) (as : List Attr) : Factor α := project lse f as

/-- `Factor.condition` (factor.py:108-115); `ev` is the evidence dictionary -/
def condition (f : Factor α) (ev : List (Attr × Nat)) : Factor α :=
  let slices := f.dom.attrs.map (fun a => ev.lookup a)
  mk' (f.dom.marginalize (ev.map Prod.fst)) (f.vals.take slices)

/-- generic binary operation: merge domains, expand both, combine cell-wise
(factor.py:123-139 `__mul__`, `__add__`) -/
def binop (op : α → α → α) (f g : Factor α) : Factor α :=
  let newdom := f.dom.merge g.dom
  let f1 := f.expand newdom
  let f2 := g.expand newdom
  mk' newdom (NdArr.zipWith op f1.vals f2.vals)

def add (f g : Factor α) : Factor α := binop Scalar.add f g
def mul (f g : Factor α) : Factor α := binop Scalar.mul f g

/-- `Factor.logaddexp` (factor.py:92-96) -/
def logaddexpF (f g : Factor α) : Factor α := binop Scalar.logaddexp f g

/-- the rewrite inside `__sub__`: `where(other == -inf, 0, -other)` -/
def negInfAware (x : α) : α := if isNegInf x then zero else neg x

/-- `Factor.__sub__` (factor.py:161-165) -/
def sub (f g : Factor α) : Factor α :=
  add f (mk' g.dom (g.vals.map negInfAware))

/-- cell-wise rule of `__truediv__` (factor.py:167-176): divide where the divisor is positive,
0 where it is ≤ 0 -/
def safeDiv (x t : α) : α := if gt0 t then div x t else if le0 t then zero else default

/-- `Factor.__truediv__` by a factor: `other` is expanded onto `self`'s domain -/
def divF (f g : Factor α) : Factor α :=
  let tmp := g.expand f.dom
  mk' f.dom (NdArr.zipWith safeDiv f.vals tmp.vals)

/-- in-place `+=` / `*=` by a factor: `other` is expanded onto `self`'s domain -/
def iop (op : α → α → α) (f g : Factor α) : Factor α :=
  let f2 := g.expand f.dom
  ⟨f.dom, NdArr.zipWith op f.vals f2.vals⟩

def iadd (f g : Factor α) : Factor α := iop Scalar.add f g
def imul (f g : Factor α) : Factor α := iop Scalar.mul f g

/-- scalar forms -/
def mulScalar (c : α) (f : Factor α) : Factor α := mk' f.dom (f.vals.map (fun v => nanToNum (Scalar.mul c v)))
def addScalar (c : α) (f : Factor α) : Factor α := mk' f.dom (f.vals.map (fun v => Scalar.add c v))
def subScalar (f : Factor α) (c : α) : Factor α := mk' f.dom (f.vals.map (fun v => Scalar.sub v c))
def divScalar (f : Factor α) (c : α) : Factor α := mk' f.dom (f.vals.map (fun v => nanToNum (Scalar.div v c)))
def iaddScalar (f : Factor α) (c : α) : Factor α := ⟨f.dom, f.vals.map (fun v => Scalar.add v c)⟩
def imulScalar (f : Factor α) (c : α) : Factor α := ⟨f.dom, f.vals.map (fun v => Scalar.mul v c)⟩

def exp (f : Factor α) : Factor α := mk' f.dom (f.vals.map Scalar.exp)
/-- `Factor.log()` adds 1e-100 first -/
def log (f : Factor α) : Factor α := mk' f.dom (f.vals.map (fun v => Scalar.log (Scalar.add v tiny)))
def copy (f : Factor α) : Factor α := mk' f.dom ⟨f.vals.shape, f.vals.data⟩

/-- `datavector()` : flat row-major values -/
def datavector (f : Factor α) : List α := f.vals.data.toList

/-- semantic reading: the value at a joint assignment -/
def sem (f : Factor α) (σ : Attr → Nat) : α := f.vals.get (f.dom.attrs.map σ)

end Factor
end PGM
