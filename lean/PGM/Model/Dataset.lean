import PGM.Model.Domain
import PGM.Model.Index
import PGM.Model.Scalar
/-!
# Datasets (`src/mbi/dataset.py`)

A dataset is a table with named columns (a pandas frame restricted to the domain's attributes, in
domain order), an optional weight per row, and a domain.  `datavector` is
`np.histogramdd(values, bins=[range(n+1) …], weights)`: along each attribute with size `n` the bin
edges are `0,1,…,n`, so a value `v` falls in bin `v` when `0 ≤ v < n`, **in bin `n-1` when `v = n`**
(numpy closes the last bin on the right) and the whole record is dropped otherwise.
The scalar type `α` is any `Scalar`; only `zero`, `one` and `add` are used.
-/
namespace PGM

structure Dataset (α : Type) where
  dom : Dom
  /-- one list of cell values per record, in domain order -/
  rows : List (List Int)
  /-- `None` = every record has weight one -/
  weights : Option (List α)

namespace Dataset
variable {α : Type}

/-- a raw table: column names and rows (possibly more columns than the domain, any order) -/
structure Table where
  cols : List String
  rows : List (List Int)

/-- `df.loc[:, attrs]`: select columns by name -/
def Table.select (t : Table) (as : List Attr) : List (List Int) :=
  t.rows.map (fun r => as.map (fun a => r.getD (t.cols.idxOf a) 0))

/-- the constructor's assertion `set(domain.attrs) <= set(df.columns)` -/
def preMk (t : Table) (d : Dom) : Bool := d.attrs.all (fun a => t.cols.contains a)

/-- `Dataset(df, domain, weights)` -/
def ofTable (t : Table) (d : Dom) (w : Option (List α)) : Dataset α :=
  ⟨d, t.select d.attrs, w⟩

/-- `Dataset.project(cols)`: select/reorder columns, keep the weights -/
def project (D : Dataset α) (cols : List Attr) : Dataset α :=
  ⟨D.dom.project cols,
   D.rows.map (fun r => cols.map (fun a => r.getD (D.dom.attrs.idxOf a) 0)),
   D.weights⟩

def records (D : Dataset α) : Nat := D.rows.length

/-- bin of one coordinate under edges `0..n` -/
def bin1 (n : Nat) (v : Int) : Option Nat :=
  if v < 0 then none
  else if v.toNat < n then some v.toNat
  else if v.toNat = n ∧ 0 < n then some (n - 1)
  else none

/-- bin (cell) of a record, `none` when some coordinate is outside every bin -/
def binOf : List Nat → List Int → Option (List Nat)
  | [], [] => some []
  | n :: ns, v :: vs => do
    let b ← bin1 n v
    let bs ← binOf ns vs
    pure (b :: bs)
  | _, _ => none

/-- weight of record number `i` -/
def weightAt [Scalar α] (D : Dataset α) (i : Nat) : α :=
  match D.weights with
  | none => Scalar.one
  | some w => w.getD i Scalar.zero

/-- `datavector()`: total weight of the records falling in each cell, cells in row-major order -/
def datavector [Scalar α] (D : Dataset α) : List α :=
  let binned := D.rows.zipIdx.map (fun (r, i) => (binOf D.dom.shape r, D.weightAt i))
  (cells D.dom.shape).map (fun c =>
    binned.foldl (fun acc (b, w) => if b = some c then Scalar.add acc w else acc) Scalar.zero)

/-! ## numpy contract: `np.histogramdd(values, bins, weights)` with explicit bin edges

Along one axis with increasing integer edges `e_0 < … < e_k` (`k ≥ 1`) a value `v` is dropped when
`v < e_0` or `v > e_k`, falls in the last bin when `v = e_k` (numpy closes the last bin on the right)
and in bin `#{i : e_i ≤ v} − 1` otherwise.  `dataset.py` passes `range(n+1)` per attribute; the
translator (`tools/py2ds.py`) regenerates that expression and `Properties/C15D.lean` proves that it
makes this contract the `bin1 / binOf / datavector` above. -/

/-- bin of one coordinate under explicit edges -/
def edgeBin (edges : List Nat) (v : Int) : Option Nat :=
  match edges.getLast? with
  | none => none
  | some last =>
    if edges.length < 2 then none
    else if v < (edges.headD 0 : Nat) then none
    else if v.toNat > last then none
    else if v.toNat = last then some (edges.length - 2)
    else some ((edges.filter (fun e => decide (e ≤ v.toNat))).length - 1)

/-- bins of a record under one edge list per axis -/
def edgeBins : List (List Nat) → List Int → Option (List Nat)
  | [], [] => some []
  | e :: es, v :: vs => do
    let b ← edgeBin e v
    let bs ← edgeBins es vs
    pure (b :: bs)
  | _, _ => none

/-- `np.histogramdd(rows, bins, weights=weights)[0].flatten()` -/
def histogramdd [Scalar α] (rows : List (List Int)) (bins : List (List Nat)) (weights : Option (List α)) : List α :=
  let shape := bins.map (fun e => e.length - 1)
  let binned := rows.zipIdx.map (fun (r, i) =>
    (edgeBins bins r, match weights with | none => Scalar.one | some w => w.getD i Scalar.zero))
  (cells shape).map (fun c =>
    binned.foldl (fun acc (b, w) => if b = some c then Scalar.add acc w else acc) Scalar.zero)

end Dataset
end PGM
