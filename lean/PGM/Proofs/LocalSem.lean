import PGM.Model.Local
import Mathlib.Tactic.Set
import Mathlib.Order.Defs.LinearOrder
/-!
# `mirror_descent_auto`: what the control structure guarantees, for every oracle (C18)
-/
namespace PGM.Local
variable {α Θ M G σ : Type}

/-- the log entries are what the loop computes: each `worse` flag is the comparison of the entry's
loss with the previous entry's -/
def Consistent (O : Ops α Θ M G σ) : Option α → List (IterRec α) → Prop
  | _, [] => True
  | prev, r :: rs => r.worse = isWorse O r.l prev ∧ Consistent O (some r.l) rs

/-- iteration numbers are consecutive from `t` -/
def Numbered : Nat → List (IterRec α) → Prop
  | _, [] => True
  | t, r :: rs => r.t = t ∧ Numbered (t + 1) rs

theorem loop_spec (O : Ops α Θ M G σ) (n t : Nat) (s : LoopSt α Θ M σ) (log : List (IterRec α)) :
    ∃ new, (loop O n t s log).2 = log ++ new ∧ Consistent O s.prev new ∧ Numbered t new ∧ new.length ≤ n ∧
      (∀ s', (loop O n t s log).1 = .finished s' →
          new.length = n ∧ (∀ r ∈ new, r.t ≤ 50 → r.worse = false) ∧
          (s'.l = (match new.getLast? with | some r => some r.l | none => s.l)) ∧
          (∃ st, (n = 0 ∧ s'.mu = s.mu ∧ s'.theta = s.theta) ∨ s'.mu = (O.bp st s'.theta).1)) ∧
      (∀ t', (loop O n t s log).1 = .restart t' →
          t' ≤ 50 ∧ ∃ r, new.getLast? = some r ∧ r.t = t' ∧ r.worse = true) := by
  induction n generalizing t s log with
  | zero =>
    refine ⟨[], by simp [loop], trivial, trivial, by simp, ?_, ?_⟩
    · intro s' h
      simp only [loop] at h
      cases h
      refine ⟨rfl, by simp, by simp, s.st, Or.inl ⟨rfl, rfl, rfl⟩⟩
    · intro t' h; simp [loop] at h
  | succ n ih =>
    unfold loop
    generalize hl : O.loss s.mu = ld
    obtain ⟨l, dL⟩ := ld
    simp only
    set rec : IterRec α := { t := t, l := l, alpha := s.alpha, worse := isWorse O l s.prev } with hrec
    by_cases hw : isWorse O l s.prev = true
    · simp only [hw, if_true]
      by_cases ht : t ≤ 50
      · simp only [ht, if_true]
        refine ⟨[rec], rfl, ⟨by simp [hrec], trivial⟩, ⟨by simp [hrec], trivial⟩, by simp, ?_, ?_⟩
        · intro s' h; cases h
        · intro t' h
          cases h
          exact ⟨ht, rec, by simp, by simp [hrec], by simp [hrec, hw]⟩
      · simp only [ht, if_false]
        obtain ⟨new, h1, h2, h3, h4, h5, h6⟩ := ih (t + 1)
          { theta := O.upd s.theta s.alpha dL, mu := (O.bp s.st (O.upd s.theta s.alpha dL)).1, st := applyBump O (O.bp s.st (O.upd s.theta s.alpha dL)).2, alpha := O.half s.alpha, prev := some l, l := some l }
          (log ++ [rec])
        refine ⟨rec :: new, by simp [h1], ⟨by simp [hrec], by simpa [hrec] using h2⟩, ⟨by simp [hrec], h3⟩,
          by simp; omega, ?_, ?_⟩
        · intro s' h
          obtain ⟨a, b, c, d⟩ := h5 s' h
          refine ⟨by simp [a], ?_, ?_, ?_⟩
          · intro r hr hr50
            rcases List.mem_cons.1 hr with rfl | hr
            · simp [hrec] at hr50; omega
            · exact b r hr hr50
          · rw [c]
            cases hnew : new.getLast? with
            | none =>
              have : new = [] := by simpa using hnew
              subst this; simp [hrec]
            | some r =>
              have : (rec :: new).getLast? = some r := by
                rw [List.getLast?_cons]; simp [hnew]
              simp [this]
          · obtain ⟨st', hd⟩ := d
            rcases hd with ⟨hn0, hmu, hth⟩ | hd
            · exact ⟨s.st, Or.inr (by simp only [hmu, hth])⟩
            · exact ⟨st', Or.inr hd⟩
        · intro t' h
          obtain ⟨a, r, b, c, d⟩ := h6 t' h
          refine ⟨a, r, ?_, c, d⟩
          rw [List.getLast?_cons]; simp [b]
    · have hw' : isWorse O l s.prev = false := by simpa using hw
      simp only [hw', Bool.false_eq_true, if_false]
      obtain ⟨new, h1, h2, h3, h4, h5, h6⟩ := ih (t + 1)
        { theta := O.upd s.theta s.alpha dL, mu := (O.bp s.st (O.upd s.theta s.alpha dL)).1, st := (O.bp s.st (O.upd s.theta s.alpha dL)).2, alpha := s.alpha, prev := some l, l := some l }
        (log ++ [rec])
      refine ⟨rec :: new, by simp [h1], ⟨by simp [hrec], by simpa [hrec] using h2⟩, ⟨by simp [hrec], h3⟩,
        by simp; omega, ?_, ?_⟩
      · intro s' h
        obtain ⟨a, b, c, d⟩ := h5 s' h
        refine ⟨by simp [a], ?_, ?_, ?_⟩
        · intro r hr hr50
          rcases List.mem_cons.1 hr with rfl | hr
          · simp [hrec, hw']
          · exact b r hr hr50
        · rw [c]
          cases hnew : new.getLast? with
          | none =>
            have : new = [] := by simpa using hnew
            subst this; simp [hrec]
          | some r =>
            have : (rec :: new).getLast? = some r := by
              rw [List.getLast?_cons]; simp [hnew]
            simp [this]
        · obtain ⟨st', hd⟩ := d
          rcases hd with ⟨hn0, hmu, hth⟩ | hd
          · exact ⟨s.st, Or.inr (by simp only [hmu, hth])⟩
          · exact ⟨st', Or.inr hd⟩
      · intro t' h
        obtain ⟨a, r, b, c, d⟩ := h6 t' h
        refine ⟨a, r, ?_, c, d⟩
        rw [List.getLast?_cons]; simp [b]

/-- the first entry the loop logs carries the loss of the iterate it starts from -/
theorem loop_succ_snd (O : Ops α Θ M G σ) (n t : Nat) (s : LoopSt α Θ M σ) (log : List (IterRec α)) :
    ∃ rest, (loop O (n + 1) t s log).2 =
      log ++ ({ t := t, l := (O.loss s.mu).1, alpha := s.alpha, worse := isWorse O (O.loss s.mu).1 s.prev } :: rest) := by
  unfold loop
  simp only
  split
  · split
    · exact ⟨[], rfl⟩
    · obtain ⟨new', h1, -⟩ := loop_spec O n (t + 1) _ _
      exact ⟨new', by rw [h1]; simp⟩
  · obtain ⟨new', h1, -⟩ := loop_spec O n (t + 1) _ _
    exact ⟨new', by rw [h1]; simp⟩

theorem loop_first (O : Ops α Θ M G σ) (n t : Nat) (s : LoopSt α Θ M σ) (log new : List (IterRec α))
    (h : (loop O (n + 1) t s log).2 = log ++ new) : ∃ r rest, new = r :: rest ∧ r.l = (O.loss s.mu).1 := by
  obtain ⟨rest, h1⟩ := loop_succ_snd O n t s log
  rw [h1] at h
  exact ⟨_, rest, (List.append_cancel_left h).symm, rfl⟩

/-- the feasibility phase: at most `n` extra oracle calls, all on the same potentials; if it stops
early the oracle's feasibility test holds for the returned iterate -/
theorem post_spec (O : Ops α Θ M G σ) (theta : Θ) (n : Nat) (mu : M) (st : σ) (k : Nat) :
    k ≤ (post O theta n mu st k).2.2 ∧ (post O theta n mu st k).2.2 ≤ k + n ∧
    ((post O theta n mu st k).2.2 < k + n → O.feasible (post O theta n mu st k).1 = true) ∧
    (((post O theta n mu st k).2.2 = k ∧ (post O theta n mu st k).1 = mu ∧ (post O theta n mu st k).2.1 = st) ∨
      ∃ st', (post O theta n mu st k).1 = (O.bp st' theta).1 ∧ (post O theta n mu st k).2.1 = (O.bp st' theta).2) := by
  induction n generalizing mu st k with
  | zero => simp [post]
  | succ n ih =>
    unfold post
    by_cases hf : O.feasible mu = true
    · simp [hf]
    · simp only [hf, Bool.false_eq_true, if_false]
      obtain ⟨a, b, c, d⟩ := ih (O.bp st theta).1 (O.bp st theta).2 (k + 1)
      refine ⟨Nat.le_trans (Nat.le_succ k) a, Nat.le_trans b (by omega),
        fun h => c (Nat.lt_of_lt_of_le h (by omega)), ?_⟩
      rcases d with ⟨d1, d2, d3⟩ | d
      · exact Or.inr ⟨st, d2, d3⟩
      · exact Or.inr d

/-- `f` applied `j` times -/
def iter (f : α → α) : Nat → α → α
  | 0, a => a
  | j + 1, a => iter f j (f a)

/-- **what a successful call returns** (any oracle, any loss):
* `iters > 0`;
* the successful activation is the one with step size `alpha / 2^j` after `j` restarts, each of them
  started from the saved potentials and oracle state `(theta0, st0)` and each abandoned at an iteration
  `t ≤ 50` whose loss exceeded the previous one;
* the returned marginals are the output of an oracle call on the returned potentials;
* fewer than 1000 extra calls ⇒ the oracle's feasibility test holds for the returned marginals;
* within the successful activation no iteration `t ≤ 50` saw its loss rise. -/
theorem mda_ok_spec (O : Ops α Θ M G σ) (theta0 : Θ) (st0 : σ) (iters fuel k : Nat) (alpha : α)
    (r : Result α Θ M σ) (h : mda O theta0 st0 iters fuel k alpha = .ok r) :
    0 < iters ∧
    (∃ j, j < fuel ∧ r.alpha = iter O.half j alpha ∧ r.restarts = k + j ∧
      (∀ i < j, ∃ t, (attempt O theta0 st0 (iter O.half i alpha) iters).1 = .restart t) ∧
      ∃ s, attempt O theta0 st0 r.alpha iters = (.finished s, r.log) ∧ s.l = some r.l ∧ r.theta = s.theta) ∧
    (∃ st, r.mu = (O.bp st r.theta).1) ∧
    (r.post ≤ 1000 ∧ (r.post < 1000 → O.feasible r.mu = true)) ∧
    (r.log.length = iters ∧ ∀ e ∈ r.log, e.t ≤ 50 → e.worse = false) := by
  induction fuel generalizing k alpha with
  | zero => simp [mda] at h
  | succ fuel ih =>
    unfold mda at h
    generalize ha : attempt O theta0 st0 alpha iters = a at h
    obtain ⟨out, log⟩ := a
    cases out with
    | restart t =>
      simp only at h
      obtain ⟨h0, ⟨j, hj, hal, hre, hall, hs⟩, h2, h3, h4⟩ := ih (k + 1) (O.half alpha) h
      refine ⟨h0, ⟨j + 1, by omega, by simpa [iter] using hal, by omega, ?_, hs⟩, h2, h3, h4⟩
      intro i hi
      cases i with
      | zero => exact ⟨t, by simp [iter, ha]⟩
      | succ i => simpa [iter] using hall i (by omega)
    | finished s =>
      simp only at h
      cases hl : s.l with
      | none => simp [hl] at h
      | some l =>
        simp only [hl] at h
        injection h with h
        subst h
        simp only
        -- facts about the loop
        have hsp := loop_spec O iters 0
          { theta := theta0, mu := (O.bp st0 theta0).1, st := (O.bp st0 theta0).2, alpha := alpha, prev := none, l := none } []
        obtain ⟨new, h1, -, -, -, h5, -⟩ := hsp
        have hatt : attempt O theta0 st0 alpha iters = loop O iters 0
          { theta := theta0, mu := (O.bp st0 theta0).1, st := (O.bp st0 theta0).2, alpha := alpha, prev := none, l := none } [] := rfl
        rw [hatt] at ha
        have hfin := h5 s (by rw [ha])
        have hlog : new = log := by
          have := h1; rw [ha] at this; simpa using this.symm
        subst hlog
        obtain ⟨hlen, hnw, hlast, st', hmu⟩ := hfin
        have hpos : 0 < iters := by
          rcases Nat.eq_zero_or_pos iters with h0 | h0
          · subst h0
            have : new = [] := by simpa using hlen
            subst this
            simp [hl] at hlast
          · exact h0
        have hp := post_spec O s.theta 1000 s.mu s.st 0
        refine ⟨hpos, ⟨0, by omega, rfl, rfl, by intro i hi; omega, s, by rw [hatt, ha], hl, rfl⟩, ?_, ⟨by simpa using hp.2.1, ?_⟩, hlen, hnw⟩
        · rcases hp.2.2.2 with ⟨-, e, -⟩ | ⟨st'', e, -⟩
          · rcases hmu with ⟨h0, -⟩ | hmu
            · omega
            · exact ⟨st', by rw [e]; exact hmu⟩
          · exact ⟨st'', e⟩
        · intro hlt
          exact hp.2.2.1 (by simpa using hlt)

theorem numbered_ge : ∀ (t : Nat) (log : List (IterRec α)), Numbered t log → ∀ e ∈ log, t ≤ e.t
  | _, [], _, e, he => by simp at he
  | t, r :: rs, h, e, he => by
    rcases List.mem_cons.1 he with rfl | he
    · exact Nat.le_of_eq h.1.symm
    · exact Nat.le_trans (Nat.le_succ t) (numbered_ge (t + 1) rs h.2 e he)

/-- with `l > prev_l` read in a linear order: as long as no early (`t ≤ 50`) iteration saw its loss rise,
the logged losses of the early iterations never exceed the value before them -/
theorem early_losses_le [LinearOrder α] (O : Ops α Θ M G σ) (hgt : ∀ l p, O.gt l p = true ↔ p < l) :
    ∀ (t : Nat) (log : List (IterRec α)) (p : α), Consistent O (some p) log → Numbered t log →
      (∀ e ∈ log, e.t ≤ 50 → e.worse = false) → ∀ e ∈ log, e.t ≤ 50 → e.l ≤ p
  | _, [], _, _, _, _, e, he, _ => by simp at he
  | t, r :: rs, p, hc, hn, hw, e, he, h50 => by
    have hr50 : r.t ≤ 50 := by
      have := numbered_ge t (r :: rs) hn e he
      have h1 : r.t = t := hn.1
      omega
    have hrl : r.l ≤ p := by
      have h1 := hw r (by simp) hr50
      rw [hc.1] at h1
      have : ¬ (O.gt r.l p = true) := by simpa [isWorse] using h1
      rw [hgt] at this
      exact not_lt.1 this
    rcases List.mem_cons.1 he with rfl | he
    · exact hrl
    · exact le_trans (early_losses_le O hgt (t + 1) rs r.l hc.2 hn.2 (fun e he => hw e (List.mem_cons_of_mem _ he)) e he h50) hrl

/-- **how far "no worse than the start" goes.**  On a successful return, every loss the loop recorded at
an iteration `t ≤ 50` — the loss of the iterate *from which* step `t` was taken — is at most the loss of
the starting iterate `bp(theta0)`.  In particular, for `iters ≤ 51` the returned `l` is at most the
starting loss.  (The returned *marginals* are one oracle call further on, and nothing in the loop
compares their loss with anything: that is the recorded finding for `iters = 1`.) -/
theorem mda_early_losses_le_start [LinearOrder α] (O : Ops α Θ M G σ) (hgt : ∀ l p, O.gt l p = true ↔ p < l)
    (theta0 : Θ) (st0 : σ) (iters fuel k : Nat) (alpha : α) (r : Result α Θ M σ)
    (h : mda O theta0 st0 iters fuel k alpha = .ok r) :
    (∀ e ∈ r.log, e.t ≤ 50 → e.l ≤ (O.loss (O.bp st0 theta0).1).1) ∧
    (iters ≤ 51 → r.l ≤ (O.loss (O.bp st0 theta0).1).1) := by
  obtain ⟨hpos, ⟨j, -, -, -, -, s, hatt, hsl, -⟩, -, -, hlen, hnw⟩ := mda_ok_spec O theta0 st0 iters fuel k alpha r h
  have hatt' : loop O iters 0
      { theta := theta0, mu := (O.bp st0 theta0).1, st := (O.bp st0 theta0).2, alpha := r.alpha, prev := none, l := none } []
      = (.finished s, r.log) := hatt
  obtain ⟨new, h1, hc, hn, -, h5, -⟩ := loop_spec O iters 0
      { theta := theta0, mu := (O.bp st0 theta0).1, st := (O.bp st0 theta0).2, alpha := r.alpha, prev := none, l := none } []
  rw [hatt'] at h1 h5
  have hnew : new = r.log := by simpa using h1.symm
  subst hnew
  obtain ⟨n, rfl⟩ : ∃ n, iters = n + 1 := ⟨iters - 1, by omega⟩
  obtain ⟨r0, rest, hcons, hr0⟩ := loop_first O n 0 _ [] r.log (by rw [hatt']; simp)
  have hlast := (h5 s rfl).2.2.1
  rw [hcons] at hc hn hnw hlast hlen
  have hrest := early_losses_le O hgt 1 rest r0.l hc.2 hn.2 (fun e he => hnw e (List.mem_cons_of_mem _ he))
  have hall : ∀ e ∈ r.log, e.t ≤ 50 → e.l ≤ (O.loss (O.bp st0 theta0).1).1 := by
    intro e he h50
    rw [hcons] at he
    rcases List.mem_cons.1 he with rfl | he
    · exact le_of_eq hr0
    · exact le_trans (hrest e he h50) (le_of_eq hr0)
  refine ⟨hall, fun h51 => ?_⟩
  -- the returned `l` is the last entry's loss
  have hne : (r0 :: rest).getLast? = some ((r0 :: rest).getLast (by simp)) := List.getLast?_eq_some_getLast (by simp)
  rw [hne, hsl] at hlast
  have hl : r.l = ((r0 :: rest).getLast (by simp)).l := by simpa using hlast
  have hmem : (r0 :: rest).getLast (by simp) ∈ r.log := by rw [hcons]; exact List.getLast_mem _
  rw [hl]
  apply hall _ hmem
  -- its iteration number is `n ≤ 50`
  have hnum : ∀ (t : Nat) (l : List (IterRec α)) (hl : l ≠ []), Numbered t l → (l.getLast hl).t = t + l.length - 1 := by
    intro t l
    induction l generalizing t with
    | nil => intro hl; exact absurd rfl hl
    | cons a as ih =>
      intro hl hnum
      cases as with
      | nil => simp [hnum.1]
      | cons b bs =>
        rw [List.getLast_cons (by simp)]
        rw [ih (t + 1) (by simp) hnum.2]
        simp; omega
  rw [hnum 0 _ (by simp) hn]
  simp at hlen ⊢
  omega

end PGM.Local

namespace PGM.Local
/-- non-vacuity: a toy oracle over `Int` (identity oracle, loss `(μ-4)²`, gradient `2(μ-4)`) on which the
first step size `2` makes the loss rise at iteration 1 (one restart), and the halved step size runs the
three iterations through; the hypotheses of `mda_ok_spec` / `mda_early_losses_le_start` are met -/
def toyOps : Ops Int Int Int Int Unit where
  bp := fun st th => (th, st)
  loss := fun mu => ((mu - 4) * (mu - 4), 2 * (mu - 4))
  upd := fun th a g => th - a * g
  feasible := fun _ => true
  bump := none
  gt := fun l p => decide (p < l)
  half := fun a => a / 2

example : ∃ r, mda toyOps 0 () 3 5 0 2 = .ok r ∧ r.restarts = 1 ∧ r.alpha = 1 ∧ r.post = 0 ∧ r.l = 16 := by
  refine ⟨_, rfl, ?_⟩
  decide

example : ∀ l p, toyOps.gt l p = true ↔ p < l := by intro l p; simp [toyOps]
end PGM.Local
