import PGM.Model.FactorGraph
import PGM.Proofs.RealScalar
import PGM.Proofs.Factor
import PGM.Proofs.LossFactor
import PGM.Proofs.SumOver
import PGM.Proofs.OracleLbp
/-!
# Real-number semantics of the factor operations used by loopy belief propagation

Every table that occurs while a message of clique `cl` is computed lives on a sub-domain of
`P = dom.project cl` (with `P`'s sizes): `Sub P f`.  On assignments valid for `P` the operations
`add`, `sub`, `logsumexp`, `subScalar`, Python's `sum(…)` (`pySum`) and `x + sum(…)` (`addSum`) act
pointwise on `Factor.sem` as the corresponding real operations.
-/
namespace PGM.LbpTree
open PGM PGM.JT PGM.RG PGM.Oracle
set_option linter.unusedSectionVars false
set_option linter.unusedVariables false

/-! ### pointwise readings over `ℝ` -/

theorem sem_add (f g : Factor ℝ) (σ : Attr → Nat) (hf : f.WF) (hg : g.WF)
    (hc : f.dom.Compatible g.dom) (hσ : (f.dom.merge g.dom).Valid σ) :
    (f.add g).sem σ = f.sem σ + g.sem σ :=
  Factor.sem_binop Scalar.add f g σ hf hg hc hσ

theorem sem_sub (f g : Factor ℝ) (σ : Attr → Nat) (hf : f.WF) (hg : g.WF)
    (hc : f.dom.Compatible g.dom) (hσ : (f.dom.merge g.dom).Valid σ) :
    (f.sub g).sem σ = f.sem σ - g.sem σ := by
  rw [Factor.sem_sub f g σ hf hg hc hσ, negInfAware_real]
  show f.sem σ + -g.sem σ = _
  ring

theorem subScalar_sem (f : Factor ℝ) (hf : f.WF) (c : ℝ) (σ : Attr → Nat) (hσ : f.dom.Valid σ) :
    (f.subScalar c).sem σ = f.sem σ - c := by
  have := mapF_sem f hf (fun v => Scalar.sub v c) σ hσ
  show (Factor.mk' f.dom (f.vals.map (fun v => Scalar.sub v c))).sem σ = _
  rw [this]
  show f.sem σ + -c = _
  ring

theorem subScalar_dom (f : Factor ℝ) (c : ℝ) : (f.subScalar c).dom = f.dom := rfl
theorem addScalar_dom (f : Factor ℝ) (c : ℝ) : (f.addScalar c).dom = f.dom := rfl

/-- `logsumexp` over named attributes = `log Σ exp` over their settings -/
theorem sem_logsumexp (f : Factor ℝ) (as : List Attr) (σ : Attr → Nat) (hf : f.WF)
    (hσ : ∀ a ∈ f.dom.attrs, a ∉ as → σ a < f.dom.cfg a) :
    (f.logsumexp as).sem σ =
      Real.log (Sem.sumOver f.dom (f.dom.removed as) σ (fun τ => Real.exp (f.sem τ))) := by
  show (Factor.reduce Scalar.lse f as).sem σ = _
  rw [LossAux.sem_reduce' Scalar.lse f as σ hf hσ]
  show Real.log _ = _
  unfold Sem.sumOver
  rw [List.map_map]
  rfl

/-! ### tables on a sub-domain -/

/-- a well-formed table over part of `P`, with `P`'s sizes -/
structure Sub (P : Dom) (f : Factor ℝ) : Prop where
  wf : f.WF
  cont : P.contains f.dom = true
  agr : f.dom.Agrees P

theorem Sub.valid {P : Dom} {f : Factor ℝ} (h : Sub P f) (hP : P.WF) (σ : Attr → Nat) (hσ : P.Valid σ) :
    f.dom.Valid σ :=
  Dom.valid_of_agrees f.dom P h.wf.1 hP h.cont h.agr σ hσ

theorem Sub.self (f : Factor ℝ) (hf : f.WF) : Sub f.dom f :=
  ⟨hf, LossAux.contains_self _, LossAux.agrees_self _ hf.1⟩

theorem Sub.compat {P : Dom} {f g : Factor ℝ} (hf : Sub P f) (hg : Sub P g) : f.dom.Compatible g.dom :=
  compatible_of_agrees_both hf.agr hg.agr

theorem Sub.merge_valid {P : Dom} {f g : Factor ℝ} (hf : Sub P f) (hg : Sub P g) (hP : P.WF)
    (σ : Attr → Nat) (hσ : P.Valid σ) : (f.dom.merge g.dom).Valid σ := by
  have hM := Dom.merge_WF f.dom g.dom hf.wf.1 hg.wf.1
  rw [Dom.valid_iff _ hM]
  intro a ha
  have h1 := (Dom.valid_iff _ hf.wf.1 σ).mp (hf.valid hP σ hσ)
  have h2 := (Dom.valid_iff _ hg.wf.1 σ).mp (hg.valid hP σ hσ)
  by_cases h : a ∈ f.dom.attrs
  · rw [Dom.cfg_merge_left _ _ a h]; exact h1 a h
  · rw [Dom.attrs_merge] at ha
    have hag : a ∈ g.dom.attrs := by
      rcases List.mem_append.mp ha with h' | h'
      · exact absurd h' h
      · exact (List.mem_filter.mp h').1
    rw [Dom.cfg_merge_right _ _ a h hag]; exact h2 a hag

theorem Sub.add {P : Dom} {f g : Factor ℝ} (hf : Sub P f) (hg : Sub P g) : Sub P (f.add g) := by
  have hcompat := hf.compat hg
  have hM := Dom.merge_WF f.dom g.dom hf.wf.1 hg.wf.1
  refine ⟨Factor.binop_WF Scalar.add f g hf.wf hg.wf hcompat, ?_, ?_⟩
  · show P.contains (f.dom.merge g.dom) = true
    have hfc := hf.cont
    have hgc := hg.cont
    rw [Dom.contains_iff] at hfc hgc ⊢
    intro a ha
    rw [Dom.attrs_merge] at ha
    rcases List.mem_append.mp ha with h | h
    · exact hfc a h
    · exact hgc a (List.mem_filter.mp h).1
  · show (f.dom.merge g.dom).Agrees P
    rw [Dom.agrees_iff _ _ hM]
    intro a ha
    by_cases h : a ∈ f.dom.attrs
    · rw [Dom.cfg_merge_left _ _ a h]
      exact (Dom.agrees_iff _ _ hf.wf.1).mp hf.agr a h
    · rw [Dom.attrs_merge] at ha
      have hag : a ∈ g.dom.attrs := by
        rcases List.mem_append.mp ha with h' | h'
        · exact absurd h' h
        · exact (List.mem_filter.mp h').1
      rw [Dom.cfg_merge_right _ _ a h hag]
      exact (Dom.agrees_iff _ _ hg.wf.1).mp hg.agr a hag

theorem Sub.sem_add {P : Dom} {f g : Factor ℝ} (hf : Sub P f) (hg : Sub P g) (hP : P.WF)
    (σ : Attr → Nat) (hσ : P.Valid σ) : (f.add g).sem σ = f.sem σ + g.sem σ :=
  LbpTree.sem_add f g σ hf.wf hg.wf (hf.compat hg) (hf.merge_valid hg hP σ hσ)

theorem Sub.sub {P : Dom} {f g : Factor ℝ} (hf : Sub P f) (hg : Sub P g) : Sub P (f.sub g) := by
  have hg' : Sub P (Factor.mk' g.dom (g.vals.map Factor.negInfAware)) :=
    ⟨mapF_WF g hg.wf _, hg.cont, hg.agr⟩
  exact Sub.add hf hg'

theorem Sub.sem_sub {P : Dom} {f g : Factor ℝ} (hf : Sub P f) (hg : Sub P g) (hP : P.WF)
    (σ : Attr → Nat) (hσ : P.Valid σ) : (f.sub g).sem σ = f.sem σ - g.sem σ :=
  LbpTree.sem_sub f g σ hf.wf hg.wf (hf.compat hg) (hf.merge_valid hg hP σ hσ)

theorem Sub.addScalar {P : Dom} {f : Factor ℝ} (hf : Sub P f) (c : ℝ) : Sub P (f.addScalar c) :=
  ⟨addScalar_WF f hf.wf c, hf.cont, hf.agr⟩

theorem Sub.subScalar {P : Dom} {f : Factor ℝ} (hf : Sub P f) (c : ℝ) : Sub P (f.subScalar c) :=
  ⟨subScalar_WF f hf.wf c, hf.cont, hf.agr⟩

/-- adding a table on a sub-domain of `pot.dom` keeps the domain -/
theorem add_dom_of_sub (pot z : Factor ℝ) (hz : Sub pot.dom z) : (pot.add z).dom = pot.dom :=
  Dom.merge_eq_self_of_contains _ _ hz.cont

theorem sub_dom_of_sub (pot z : Factor ℝ) (hz : Sub pot.dom z) : (pot.sub z).dom = pot.dom :=
  Dom.merge_eq_self_of_contains _ _ hz.cont

/-! ### Python's `sum(list)` -/

/-- `s` is Python's sum of tables on sub-domains of `P` whose pointwise value is `val` -/
def SumIs (P : Dom) (s : PySum ℝ) (val : (Attr → Nat) → ℝ) : Prop :=
  match s with
  | .zero => ∀ σ, val σ = 0
  | .fac g => Sub P g ∧ ∀ σ, P.Valid σ → g.sem σ = val σ

theorem pySum_snoc_zero (l : List (Factor ℝ)) (x : Factor ℝ) (h : pySum l = PySum.zero) :
    pySum (l ++ [x]) = PySum.fac (x.addScalar Scalar.zero) := by
  unfold pySum at h ⊢
  rw [List.foldl_append, h]
  rfl

theorem pySum_snoc_fac (l : List (Factor ℝ)) (x g : Factor ℝ) (h : pySum l = PySum.fac g) :
    pySum (l ++ [x]) = PySum.fac (g.add x) := by
  unfold pySum at h ⊢
  rw [List.foldl_append, h]
  rfl

theorem sumIs_pySum (P : Dom) (hP : P.WF) (l : List (Factor ℝ)) (h : ∀ f ∈ l, Sub P f) :
    SumIs P (pySum l) (fun σ => (l.map (fun f => f.sem σ)).sum) := by
  induction l using List.reverseRecOn with
  | nil => intro σ; rfl
  | append_singleton xs x ih =>
    have hx := h x (by simp)
    have ih' := ih (fun f hf => h f (by simp [hf]))
    have e : (fun σ => ((xs ++ [x]).map (fun f => f.sem σ)).sum)
        = (fun σ => (xs.map (fun f => f.sem σ)).sum + x.sem σ) := by
      funext σ
      simp
    rw [e]
    cases hs : pySum xs with
    | zero =>
      rw [hs] at ih'
      rw [pySum_snoc_zero xs x hs]
      refine ⟨hx.addScalar _, ?_⟩
      intro σ hσ
      rw [addScalar_sem x hx.wf _ σ (hx.valid hP σ hσ)]
      show (0 : ℝ) + x.sem σ = (xs.map (fun f => f.sem σ)).sum + x.sem σ
      have := ih' σ
      simp only at this
      rw [this]
    | fac g =>
      rw [hs] at ih'
      rw [pySum_snoc_fac xs x g hs]
      obtain ⟨hg, hv⟩ := ih'
      refine ⟨hg.add hx, ?_⟩
      intro σ hσ
      rw [hg.sem_add hx hP σ hσ, hv σ hσ]

/-- `pot + sum(list)` -/
theorem addSum_sumIs (pot : Factor ℝ) (hp : pot.WF) (s : PySum ℝ) (val : (Attr → Nat) → ℝ)
    (hs : SumIs pot.dom s val) :
    (addSum pot s).WF ∧ (addSum pot s).dom = pot.dom ∧
      ∀ σ, pot.dom.Valid σ → (addSum pot s).sem σ = pot.sem σ + val σ := by
  cases s with
  | zero =>
    refine ⟨addScalar_WF pot hp _, rfl, ?_⟩
    intro σ hσ
    show (pot.addScalar Scalar.zero).sem σ = _
    rw [addScalar_sem pot hp _ σ hσ, hs σ]
    show (0 : ℝ) + pot.sem σ = _
    ring
  | fac z =>
    obtain ⟨hz, hv⟩ := hs
    have hself := Sub.self pot hp
    refine ⟨(hself.add hz).wf, add_dom_of_sub pot z hz, ?_⟩
    intro σ hσ
    show (pot.add z).sem σ = _
    rw [hself.sem_add hz hp.1 σ hσ, hv σ hσ]

end PGM.LbpTree
