import Mathlib.Analysis.SpecialFunctions.Log.Basic
import Mathlib.Algebra.BigOperators.Group.Finset.Basic
import Mathlib.Algebra.Order.BigOperators.Ring.Finset
/-!
# Helper lemmas on `exp (s i - log Σ exp s)` (soft-max), used by `PGM/Properties/C20.lean`

Nothing here mentions generated definitions.
-/
namespace PGM.Softmax
open Finset

theorem sum_exp_pos {n : ℕ} (s : Fin n → ℝ) (hn : 0 < n) : 0 < ∑ j, Real.exp (s j) := by
  have : Nonempty (Fin n) := ⟨⟨0, hn⟩⟩
  exact Finset.sum_pos (fun j _ => Real.exp_pos (s j)) Finset.univ_nonempty

/-- `exp (sᵢ − log Σ exp s) = exp sᵢ / Σ exp s` -/
theorem exp_sub_log_sum {n : ℕ} (s : Fin n → ℝ) (i : Fin n) (hn : 0 < n) :
    Real.exp (s i - Real.log (∑ j, Real.exp (s j))) = Real.exp (s i) / ∑ j, Real.exp (s j) := by
  rw [Real.exp_sub, Real.exp_log (sum_exp_pos s hn)]

/-- `log (exp (sᵢ − log Σ exp s)) = sᵢ − log Σ exp s` -/
theorem log_exp_sub_log_sum {n : ℕ} (s : Fin n → ℝ) (i : Fin n) :
    Real.log (Real.exp (s i - Real.log (∑ j, Real.exp (s j)))) = s i - Real.log (∑ j, Real.exp (s j)) :=
  Real.log_exp _

/-- a common factor in every exponential cancels in the normalised exponential -/
theorem normalised_mul_cancel {n : ℕ} (f : Fin n → ℝ) (k : ℝ) (hk : k ≠ 0) (i : Fin n) :
    (f i * k) / ∑ j, f j * k = f i / ∑ j, f j := by
  rw [← Finset.sum_mul, mul_div_mul_right _ _ hk]

/-- one-sided bound: if `s ≤ s' + B` coordinatewise then `log Σ exp s ≤ log Σ exp s' + B` -/
theorem log_sum_exp_le {n : ℕ} (s s' : Fin n → ℝ) (B : ℝ) (hn : 0 < n) (h : ∀ j, s j ≤ s' j + B) :
    Real.log (∑ j, Real.exp (s j)) ≤ Real.log (∑ j, Real.exp (s' j)) + B := by
  have hpos := sum_exp_pos s hn
  have hpos' := sum_exp_pos s' hn
  have hle : ∑ j, Real.exp (s j) ≤ (∑ j, Real.exp (s' j)) * Real.exp B := by
    rw [Finset.sum_mul]
    refine Finset.sum_le_sum (fun j _ => ?_)
    rw [← Real.exp_add]
    exact Real.exp_le_exp.mpr (h j)
  calc Real.log (∑ j, Real.exp (s j))
      ≤ Real.log ((∑ j, Real.exp (s' j)) * Real.exp B) := Real.log_le_log hpos hle
    _ = Real.log (∑ j, Real.exp (s' j)) + B := by
        rw [Real.log_mul hpos'.ne' (Real.exp_pos B).ne', Real.log_exp]

theorem abs_log_sum_exp_sub_le {n : ℕ} (s s' : Fin n → ℝ) (B : ℝ) (hn : 0 < n)
    (h : ∀ j, |s j - s' j| ≤ B) :
    |Real.log (∑ j, Real.exp (s j)) - Real.log (∑ j, Real.exp (s' j))| ≤ B := by
  have h1 := log_sum_exp_le s s' B hn (fun j => by have := (abs_le.mp (h j)).2; linarith)
  have h2 := log_sum_exp_le s' s B hn (fun j => by have := (abs_le.mp (h j)).1; linarith)
  rw [abs_le]; constructor <;> linarith

/-- log-ratio bound for the soft-max written out -/
theorem abs_log_softmax_sub_le {n : ℕ} (s s' : Fin n → ℝ) (B : ℝ) (hn : 0 < n)
    (h : ∀ j, |s j - s' j| ≤ B) (i : Fin n) :
    |Real.log (Real.exp (s i - Real.log (∑ j, Real.exp (s j))))
      - Real.log (Real.exp (s' i - Real.log (∑ j, Real.exp (s' j))))| ≤ 2 * B := by
  rw [Real.log_exp, Real.log_exp]
  have h1 := abs_le.mp (h i)
  have h2 := abs_le.mp (abs_log_sum_exp_sub_le s s' B hn h)
  rw [abs_le]; constructor <;> linarith

end PGM.Softmax
