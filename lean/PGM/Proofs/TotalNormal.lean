import Mathlib.LinearAlgebra.Matrix.Rank
/-!
# The normal equations `MᵀM z = Mᵀu` are solvable over a linearly ordered field
-/
namespace PGM.Total
open Matrix

theorem exists_normal_eq {K : Type} [Field K] [LinearOrder K] [IsStrictOrderedRing K]
    {m n : Type} [Fintype m] [Fintype n] [DecidableEq m] [DecidableEq n]
    (M : Matrix m n K) (u : m → K) : ∃ z : n → K, (Mᵀ * M) *ᵥ z = Mᵀ *ᵥ u := by
  have hle : LinearMap.range (Mᵀ * M).mulVecLin ≤ LinearMap.range Mᵀ.mulVecLin := by
    rw [Matrix.mulVecLin_mul]
    exact LinearMap.range_comp_le_range _ _
  have hrk : Module.finrank K (LinearMap.range (Mᵀ * M).mulVecLin)
      = Module.finrank K (LinearMap.range Mᵀ.mulVecLin) := by
    have h1 : (Mᵀ * M).rank = Mᵀ.rank := by rw [rank_transpose_mul_self, rank_transpose]
    exact h1
  have heq := Submodule.eq_of_le_of_finrank_eq hle hrk
  have hmem : Mᵀ *ᵥ u ∈ LinearMap.range Mᵀ.mulVecLin := ⟨u, rfl⟩
  rw [← heq] at hmem
  obtain ⟨z, hz⟩ := hmem
  exact ⟨z, hz⟩

end PGM.Total
