import PGM.Generated.SelectG
import PGM.Properties.C20
import Mathlib.Analysis.SpecialFunctions.Sqrt
import Mathlib.Analysis.SpecialFunctions.Trigonometric.Basic
import Mathlib.Algebra.BigOperators.Fin
import Mathlib.Data.List.Forall2
import Mathlib.Data.List.OfFn
/-!
# Helper lemmas for `PGM/Properties/C05S.lean` (generated selection sites, `PGM/Generated/SelectG.lean`)

* the generated header operations at `K = ℝ` (`npSum`, `absK`, `pyMaxList`, `softmaxL`, `lse`);
* dicts as association lists: what a loop of `d[k] = F k` over a key list builds;
* reverse triangle inequality for the L1 distance of lists;
* the list form of `C20.em_logratio_le`, with the max-shift removed by shift invariance.

Nothing here mentions a generated *site*; only the generated header.
-/
namespace PGM.SelGen
open PGM.SelectG

/-- numpy at `K = ℝ`; `np.inf` and `np.finfo(np.float64).max` have no real counterpart and stay parameters -/
noncomputable def realOps (inf fmax : ℝ) : NpOps ℝ := ⟨Real.exp, Real.log, Real.sqrt, Real.pi, inf, fmax⟩

/-! ### header operations over ℝ -/

theorem foldl_add (l : List ℝ) (a : ℝ) : l.foldl (· + ·) a = a + l.sum := by
  induction l generalizing a with
  | nil => simp
  | cons x xs ih => simp [ih, add_assoc]

theorem npSum_real (l : List ℝ) : npSum l = l.sum := by
  unfold npSum; rw [foldl_add]; simp

theorem absK_real (x : ℝ) : absK x = |x| := by
  unfold absK
  split
  · rename_i h; rw [abs_of_neg (by simpa using h)]
  · rename_i h; rw [abs_of_nonneg (by simpa using h)]

theorem absK_real_fun : (absK : ℝ → ℝ) = fun x => |x| := funext absK_real

theorem foldl_max_ge (l : List ℝ) (a : ℝ) : a ≤ l.foldl (fun m t => if m < t then t else m) a := by
  induction l generalizing a with
  | nil => simp
  | cons x xs ih =>
    simp only [List.foldl_cons]
    split
    · rename_i h; exact le_trans h.le (ih x)
    · exact ih a

theorem foldl_max_mem_ge (l : List ℝ) (a x : ℝ) (hx : x ∈ l) :
    x ≤ l.foldl (fun m t => if m < t then t else m) a := by
  induction l generalizing a with
  | nil => simp at hx
  | cons y ys ih =>
    simp only [List.foldl_cons]
    rcases List.mem_cons.mp hx with rfl | h
    · split
      · exact foldl_max_ge _ _
      · rename_i h; exact le_trans (not_lt.mp h) (foldl_max_ge _ _)
    · exact ih _ h

/-- `max(list)` dominates every element -/
theorem le_pyMaxList (l : List ℝ) (x : ℝ) (hx : x ∈ l) : x ≤ pyMaxList l := by
  cases l with
  | nil => simp at hx
  | cons y ys =>
    show x ≤ List.foldl (fun m t => if m < t then t else m) y ys
    rcases List.mem_cons.mp hx with rfl | h
    · exact foldl_max_ge _ _
    · exact foldl_max_mem_ge _ _ _ h

theorem foldl_max_mem (l : List ℝ) (a : ℝ) :
    l.foldl (fun m t => if m < t then t else m) a = a ∨ l.foldl (fun m t => if m < t then t else m) a ∈ l := by
  induction l generalizing a with
  | nil => simp
  | cons y ys ih =>
    simp only [List.foldl_cons]
    split
    · rcases ih y with h | h
      · right; rw [h]; exact List.mem_cons_self
      · right; exact List.mem_cons_of_mem _ h
    · rcases ih a with h | h
      · left; exact h
      · right; exact List.mem_cons_of_mem _ h

/-- `max(list)` is one of the elements -/
theorem pyMaxList_mem (l : List ℝ) (hl : l ≠ []) : pyMaxList l ∈ l := by
  cases l with
  | nil => exact absurd rfl hl
  | cons y ys =>
    show List.foldl (fun m t => if m < t then t else m) y ys ∈ y :: ys
    rcases foldl_max_mem ys y with h | h
    · rw [h]; exact List.mem_cons_self
    · exact List.mem_cons_of_mem _ h

/-! ### dicts -/

section dict
variable {C V : Type} [DecidableEq C]

/-- key list after `d[k] = _`: unchanged if present, appended otherwise -/
def keysInsert (ks : List C) (k : C) : List C := if k ∈ ks then ks else ks ++ [k]

/-- the key order a loop of writes over `ks` (into an empty dict) produces: first occurrences -/
def keyOrder (ks : List C) : List C := ks.foldl keysInsert []

theorem dictKeys_dictSet (d : List (C × V)) (k : C) (v : V) :
    dictKeys (dictSet d k v) = keysInsert (dictKeys d) k := by
  induction d with
  | nil => simp [dictSet, dictKeys, keysInsert]
  | cons p rest ih =>
    obtain ⟨c, w⟩ := p
    unfold dictKeys at ih ⊢
    by_cases h : c = k
    · subst h; simp [dictSet, keysInsert]
    · have hk : ¬ k = c := fun e => h e.symm
      simp only [dictSet, h, if_false, List.map_cons, ih, keysInsert, List.mem_cons, hk, false_or]
      split <;> simp

theorem mem_keysInsert (ks : List C) (k a : C) : a ∈ keysInsert ks k ↔ a ∈ ks ∨ a = k := by
  unfold keysInsert
  split
  · rename_i h; constructor
    · exact Or.inl
    · rintro (h' | rfl); exacts [h', h]
  · simp

theorem nodup_keysInsert (ks : List C) (k : C) (h : ks.Nodup) : (keysInsert ks k).Nodup := by
  unfold keysInsert
  split
  · exact h
  · rename_i hk
    rw [List.nodup_append]
    exact ⟨h, List.nodup_singleton k, by intro a ha b hb; simp at hb; subst hb; exact fun e => hk (e ▸ ha)⟩

theorem foldl_keysInsert_mem (ks acc : List C) (a : C) :
    a ∈ ks.foldl keysInsert acc ↔ a ∈ acc ∨ a ∈ ks := by
  induction ks generalizing acc with
  | nil => simp
  | cons k rest ih => simp [ih, mem_keysInsert, or_assoc]

theorem foldl_keysInsert_nodup (ks acc : List C) (h : acc.Nodup) : (ks.foldl keysInsert acc).Nodup := by
  induction ks generalizing acc with
  | nil => exact h
  | cons k rest ih => exact ih _ (nodup_keysInsert _ _ h)

theorem mem_keyOrder (ks : List C) (a : C) : a ∈ keyOrder ks ↔ a ∈ ks := by
  unfold keyOrder; rw [foldl_keysInsert_mem]; simp

theorem nodup_keyOrder (ks : List C) : (keyOrder ks).Nodup :=
  foldl_keysInsert_nodup _ _ List.nodup_nil

theorem keyOrder_eq_nil (ks : List C) : keyOrder ks = [] ↔ ks = [] := by
  constructor
  · intro h
    cases ks with
    | nil => rfl
    | cons k rest =>
      have : k ∈ keyOrder (k :: rest) := (mem_keyOrder _ _).2 List.mem_cons_self
      rw [h] at this; simp at this
  · rintro rfl; rfl

/-- a loop `for k in ks: d[k] = F k` -/
def writeAll (F : C → V) (d : List (C × V)) (ks : List C) : List (C × V) :=
  ks.foldl (fun d k => dictSet d k (F k)) d

theorem dictKeys_writeAll (F : C → V) (d : List (C × V)) (ks : List C) :
    dictKeys (writeAll F d ks) = ks.foldl keysInsert (dictKeys d) := by
  induction ks generalizing d with
  | nil => rfl
  | cons k rest ih =>
    simp only [writeAll, List.foldl_cons] at ih ⊢
    rw [ih, dictKeys_dictSet]

theorem dictKeys_writeAll_nil (F : C → V) (ks : List C) :
    dictKeys (writeAll F ([] : List (C × V)) ks) = keyOrder ks := by
  rw [dictKeys_writeAll]; rfl
end dict

section dictK
variable {C : Type} [DecidableEq C]

theorem dictGet_dictSet (d : List (C × ℝ)) (k a : C) (v : ℝ) :
    dictGet (dictSet d k v) a = if k = a then v else dictGet d a := by
  induction d with
  | nil => simp [dictSet, dictGet]
  | cons p rest ih =>
    obtain ⟨c, w⟩ := p
    by_cases h : c = k
    · subst h; by_cases h2 : c = a <;> simp [dictSet, dictGet, h2]
    · by_cases h2 : c = a
      · subst h2
        have : ¬ k = c := fun e => h e.symm
        simp [dictSet, dictGet, h, this]
      · simp [dictSet, dictGet, h, h2, ih]

theorem dictGet_writes_not_mem (F : C → ℝ) (rest : List C) (a : C) (d : List (C × ℝ)) (hnot : a ∉ rest) :
    dictGet (rest.foldl (fun d k => dictSet d k (F k)) d) a = dictGet d a := by
  induction rest generalizing d with
  | nil => rfl
  | cons k' rest' ih' =>
    simp only [List.foldl_cons]
    have h1 : a ∉ rest' := fun h => hnot (List.mem_cons_of_mem _ h)
    have h2 : ¬ k' = a := fun e => hnot (e ▸ List.mem_cons_self)
    rw [ih' _ h1, dictGet_dictSet]
    simp [h2]

/-- after `for k in ks: d[k] = F k`, every written key holds `F k` -/
theorem dictGet_writeAll (F : C → ℝ) (d : List (C × ℝ)) (ks : List C) (a : C) (ha : a ∈ ks) :
    dictGet (writeAll F d ks) a = F a := by
  induction ks generalizing d with
  | nil => simp at ha
  | cons k rest ih =>
    simp only [writeAll, List.foldl_cons] at ih ⊢
    by_cases hr : a ∈ rest
    · exact ih _ hr
    · have hk : a = k := by
        rcases List.mem_cons.mp ha with h | h
        · exact h
        · exact absurd h hr
      subst hk
      rw [dictGet_writes_not_mem F rest a _ hr, dictGet_dictSet]; simp

/-- a loop `for k in ks: if keep k: d[k] = F k` -/
theorem foldl_cond_write (F : C → ℝ) (keep : C → Bool) (d : List (C × ℝ)) (ks : List C) :
    ks.foldl (fun d k => if keep k = true then dictSet d k (F k) else d) d = writeAll F d (ks.filter keep) := by
  induction ks generalizing d with
  | nil => rfl
  | cons k rest ih =>
    simp only [List.foldl_cons, List.filter_cons]
    by_cases h : keep k = true
    · simp only [h, if_true]; rw [ih]; rfl
    · simp only [h]; rw [ih]; simp

/-- in a dict with distinct keys, `values()` is `[d[k] for k in keys()]` -/
theorem dictValues_eq_map_get (d : List (C × ℝ)) (h : (dictKeys d).Nodup) :
    dictValues d = (dictKeys d).map (dictGet d) := by
  induction d with
  | nil => rfl
  | cons p rest ih =>
    obtain ⟨c, w⟩ := p
    unfold dictKeys dictValues at *
    simp only [List.map_cons, List.nodup_cons] at h
    simp only [List.map_cons, dictGet, if_true]
    congr 1
    rw [ih h.2]
    apply List.map_congr_left
    intro a ha
    have : ¬ c = a := fun e => h.1 (e ▸ ha)
    simp [this]
end dictK

/-- a fold whose state is a pair updated componentwise is the pair of the folds -/
theorem foldl_pair {σ τ β : Type} (f : σ → β → σ) (g : τ → β → τ) (l : List β) (s : σ) (t : τ) :
    l.foldl (fun st b => (f st.1 b, g st.2 b)) (s, t) = (l.foldl f s, l.foldl g t) := by
  induction l generalizing s t with
  | nil => rfl
  | cons b rest ih => simp [ih]

/-- a loop `for a in l: xs = np.append(xs, F a)` -/
theorem foldl_append_map {α β : Type} (F : α → β) (l : List α) (acc : List β) :
    l.foldl (fun xs a => xs ++ [F a]) acc = acc ++ l.map F := by
  induction l generalizing acc with
  | nil => simp
  | cons a rest ih => simp [ih]

/-! ### L1 distance of lists -/

/-- `np.linalg.norm(x - y, 1)` / `np.abs(x - y).sum()` as the translator writes it -/
noncomputable def l1 (x y : List ℝ) : ℝ := npSum ((List.zipWith (fun s t => s - t) x y).map absK)

theorem l1_nil : l1 [] [] = 0 := by simp [l1, npSum_real]

theorem l1_cons (a b : ℝ) (x y : List ℝ) : l1 (a :: x) (b :: y) = |a - b| + l1 x y := by
  simp [l1, npSum_real, absK_real]

theorem l1_nonneg (x y : List ℝ) : 0 ≤ l1 x y := by
  induction x generalizing y with
  | nil => simp [l1, npSum_real]
  | cons a x ih =>
    cases y with
    | nil => simp [l1, npSum_real]
    | cons b y => rw [l1_cons]; have := ih y; positivity

/-- **reverse triangle inequality**: `|‖x − z‖₁ − ‖x' − z‖₁| ≤ ‖x − x'‖₁` for vectors of one length -/
theorem l1_rev_triangle (x x' z : List ℝ) (h : x.length = z.length) (h' : x'.length = z.length) :
    |l1 x z - l1 x' z| ≤ l1 x x' := by
  induction z generalizing x x' with
  | nil =>
    rw [List.length_eq_zero_iff.mp h, List.length_eq_zero_iff.mp h']; simp [l1_nil]
  | cons c z ih =>
    cases x with
    | nil => simp at h
    | cons a x =>
      cases x' with
      | nil => simp at h'
      | cons b x' =>
        simp only [List.length_cons, Nat.add_right_cancel_iff] at h h'
        rw [l1_cons, l1_cons, l1_cons]
        have h1 := ih x x' h h'
        have h2 : abs (abs (a - c) - abs (b - c)) ≤ abs (a - b) := by
          have := abs_abs_sub_abs_le_abs_sub (a - c) (b - c)
          simpa using this
        calc abs ((abs (a - c) + l1 x z) - (abs (b - c) + l1 x' z))
            = abs ((abs (a - c) - abs (b - c)) + (l1 x z - l1 x' z)) := by congr 1; ring
          _ ≤ abs (abs (a - c) - abs (b - c)) + abs (l1 x z - l1 x' z) := abs_add_le _ _
          _ ≤ abs (a - b) + l1 x x' := add_le_add h2 h1

/-! ### soft-max on lists -/

section softmax
variable (inf fmax : ℝ)

theorem sum_map_eq_fin {α : Type} (l : List α) (h : α → ℝ) :
    (l.map h).sum = ∑ j : Fin l.length, h (l.get j) := by
  rw [← List.sum_ofFn]
  congr 1
  conv_lhs => rw [← List.ofFn_get l]
  rw [List.map_ofFn]
  rfl

theorem lse_map {α : Type} (l : List α) (f : α → ℝ) :
    lse (realOps inf fmax) (l.map f) = Real.log (∑ j : Fin l.length, Real.exp (f (l.get j))) := by
  unfold lse
  rw [npSum_real, List.map_map, sum_map_eq_fin]
  rfl

/-- the generated soft-max of `[f a for a in l]` is `[softmaxP (f ∘ l.get) j …]` -/
theorem softmaxL_map {α : Type} (l : List α) (f : α → ℝ) :
    softmaxL (realOps inf fmax) (l.map f)
      = List.ofFn (fun j : Fin l.length => PGM.C20.softmaxP (fun j => f (l.get j)) j) := by
  unfold softmaxL
  rw [lse_map, List.map_map]
  apply List.ext_getElem (by simp)
  intro i h1 h2
  simp only [List.getElem_map, List.getElem_ofFn, Function.comp]
  rfl

/-- **list form of `C20.em_logratio_le`** -/
theorem softmaxL_logratio {α : Type} (l : List α) (f f' : α → ℝ) (B : ℝ) (h : ∀ a ∈ l, |f a - f' a| ≤ B) :
    List.Forall₂ (fun p p' => |Real.log p - Real.log p'| ≤ 2 * B)
      (softmaxL (realOps inf fmax) (l.map f)) (softmaxL (realOps inf fmax) (l.map f')) := by
  rw [softmaxL_map, softmaxL_map, List.forall₂_iff_get]
  refine ⟨by simp, ?_⟩
  intro i h1 h2
  simp only [List.get_eq_getElem, List.getElem_ofFn]
  have hn : 0 < l.length := by simp at h1; omega
  exact PGM.C20.em_logratio_le _ _ B hn (fun j => h _ (List.get_mem l j)) _

/-- shift invariance: a constant added to every score changes no probability -/
theorem softmaxL_shift {α : Type} (l : List α) (f : α → ℝ) (k : ℝ) :
    softmaxL (realOps inf fmax) (l.map (fun a => f a + k)) = softmaxL (realOps inf fmax) (l.map f) := by
  by_cases hl : l = []
  · subst hl; rfl
  have hn : 0 < l.length := List.length_pos_iff.mpr hl
  rw [softmaxL_map, softmaxL_map]
  congr 1
  funext j
  rw [PGM.C20.softmaxP_eq _ _ hn, PGM.C20.softmaxP_eq _ _ hn]
  simp only [Real.exp_add]
  rw [← Finset.sum_mul, mul_div_mul_right _ _ (Real.exp_pos k).ne']

/-- **cost of one exponential-mechanism call** in the shape every generated site has: scores
`c·(F a − m)` (with `m` the data-dependent maximum), qualities moving by at most `Δ`: every log-probability moves
by at most `2·c·Δ` -/
theorem em_scores_logratio {α : Type} (l : List α) (F F' : α → ℝ) (c m m' Δ : ℝ) (hc : 0 ≤ c)
    (hΔ : ∀ a ∈ l, |F a - F' a| ≤ Δ) :
    List.Forall₂ (fun p p' => |Real.log p - Real.log p'| ≤ 2 * (c * Δ))
      (softmaxL (realOps inf fmax) (l.map (fun a => c * (F a - m))))
      (softmaxL (realOps inf fmax) (l.map (fun a => c * (F' a - m')))) := by
  have e1 : (fun a => c * (F a - m)) = (fun a => c * F a + -(c * m)) := by funext a; ring
  have e2 : (fun a => c * (F' a - m')) = (fun a => c * F' a + -(c * m')) := by funext a; ring
  rw [e1, e2, softmaxL_shift, softmaxL_shift]
  apply softmaxL_logratio
  intro a ha
  rw [← mul_sub, abs_mul, abs_of_nonneg hc]
  exact mul_le_mul_of_nonneg_left (hΔ a ha) hc

/-- the same with a data-independent base measure `β` (log-weights) added to every score -/
theorem em_scores_base_logratio {α : Type} (l : List α) (F F' β : α → ℝ) (c m m' Δ : ℝ) (hc : 0 ≤ c)
    (hΔ : ∀ a ∈ l, |F a - F' a| ≤ Δ) :
    List.Forall₂ (fun p p' => |Real.log p - Real.log p'| ≤ 2 * (c * Δ))
      (softmaxL (realOps inf fmax) (l.map (fun a => c * (F a - m) + β a)))
      (softmaxL (realOps inf fmax) (l.map (fun a => c * (F' a - m') + β a))) := by
  have e1 : (fun a => c * (F a - m) + β a) = (fun a => (c * F a + β a) + -(c * m)) := by funext a; ring
  have e2 : (fun a => c * (F' a - m') + β a) = (fun a => (c * F' a + β a) + -(c * m')) := by funext a; ring
  rw [e1, e2, softmaxL_shift, softmaxL_shift]
  apply softmaxL_logratio
  intro a ha
  have : c * F a + β a - (c * F' a + β a) = c * (F a - F' a) := by ring
  rw [this, abs_mul, abs_of_nonneg hc]
  exact mul_le_mul_of_nonneg_left (hΔ a ha) hc
end softmax

end PGM.SelGen
