import PGM.Proofs.LossRegroup
import Mathlib.Algebra.Order.Chebyshev
/-!
# Helpers for C04 (3): tables of plain factors — projection as a row sum, linearity,
adjointness of expand/project, the norm bound of a projection
-/
set_option linter.unusedSectionVars false
set_option linter.unusedVariables false
namespace PGM.LossAux
open PGM PGM.Factor

section Generic
variable {α : Type} [Scalar α]

/-- `sem_reduce` needs validity only on the attributes that are kept -/
theorem sem_reduce' (r : List α → α) (f : Factor α) (as : List Attr) (σ : Attr → Nat)
    (hf : f.WF) (hσ : ∀ a ∈ f.dom.attrs, a ∉ as → σ a < f.dom.cfg a) :
    (reduce r f as).sem σ
      = r ((cells ((f.dom.removed as).map f.dom.cfg)).map
            (fun v => f.sem (Dom.override σ (f.dom.removed as) v))) := by
  obtain ⟨hfd, hfs, hfw⟩ := hf
  have hs : f.vals.shape = f.dom.attrs.map f.dom.cfg := by rw [hfs, Dom.shape_eq_map_cfg _ hfd]
  unfold sem
  rw [reduce_attrs, reduce_vals, reduceAxes_eq r f.vals f.dom.attrs f.dom.cfg hfd hs as]
  rw [get_reshape_of_shape_eq _ _ (NdArr.ofFn_shape _ _)]
  unfold Dom.removed Dom.invert
  rw [NdArr.get_ofFn _ _ _ (NdArr.inRange_map _ _ _
    (fun a ha => hσ a (List.mem_filter.mp ha).1 (by
      have := (List.mem_filter.mp ha).2
      simpa using this)))]
  congr 1
  apply List.map_congr_left
  intro v _
  congr 1
  rw [assemble_eq f.dom.attrs hfd (fun a => as.contains a) σ v]
  apply List.map_congr_left
  intro a ha
  unfold Dom.override
  have h1 : (f.dom.attrs.filter (fun a => as.contains a)).contains a = as.contains a := by
    rw [Bool.eq_iff_iff, List.contains_iff_mem]
    simp [ha]
  rw [h1]

theorem mem_invert_invert (D : Dom) (as : List Attr) (a : Attr) :
    a ∈ D.invert (D.invert as) ↔ a ∈ D.attrs ∧ a ∈ as := by
  rw [Dataset.mem_invert, Dataset.mem_invert]
  constructor
  · rintro ⟨h1, h2⟩
    refine ⟨h1, ?_⟩
    by_contra h
    exact h2 ⟨h1, h⟩
  · rintro ⟨h1, h2⟩
    exact ⟨h1, fun h => h.2 h2⟩

theorem project_perm (r : List α → α) (f : Factor α) (as : List Attr)
    (hf : f.WF) (has : as.Nodup) (hsub : ∀ a ∈ as, a ∈ f.dom.attrs) :
    as.Perm (reduce r f (f.dom.invert as)).dom.attrs := by
  have hrw := reduce_WF r f (f.dom.invert as) hf
  rw [List.perm_ext_iff_of_nodup has hrw.1, reduce_attrs]
  intro a
  rw [mem_invert_invert]
  exact ⟨fun ha => ⟨hsub a ha, ha⟩, fun h => h.2⟩

theorem project_WF (r : List α → α) (f : Factor α) (as : List Attr)
    (hf : f.WF) (has : as.Nodup) (hsub : ∀ a ∈ as, a ∈ f.dom.attrs) : (project r f as).WF := by
  have hM : (f.dom.marginalize as).attrs = f.dom.invert as := by
    rw [Dom.marginalize, Dom.attrs_project]
  show ((reduce r f (f.dom.marginalize as).attrs).transpose as).WF
  rw [hM]
  exact transpose_WF _ as (reduce_WF r f _ hf) (project_perm r f as hf has hsub)

theorem project_shape (r : List α → α) (f : Factor α) (as : List Attr)
    (hsub : ∀ a ∈ as, a ∈ f.dom.attrs) : (project r f as).dom.shape = as.map f.dom.cfg := by
  have hM : (f.dom.marginalize as).attrs = f.dom.invert as := by
    rw [Dom.marginalize, Dom.attrs_project]
  show ((reduce r f (f.dom.marginalize as).attrs).transpose as).dom.shape = _
  rw [hM, transpose_dom, Dom.shape_project, reduce_dom, Dom.marginalize]
  apply List.map_congr_left
  intro a ha
  exact Dom.cfg_project f.dom _ a ((mem_invert_invert f.dom as a).mpr ⟨hsub a ha, ha⟩)

/-- `sem_project` needs validity only on the projected attributes -/
theorem sem_project' (r : List α → α) (f : Factor α) (as : List Attr) (σ : Attr → Nat)
    (hf : f.WF) (has : as.Nodup) (hsub : ∀ a ∈ as, a ∈ f.dom.attrs)
    (hσ : ∀ a ∈ as, σ a < f.dom.cfg a) :
    (project r f as).sem σ
      = r ((cells ((f.dom.invert as).map f.dom.cfg)).map
            (fun v => f.sem (Dom.override σ (f.dom.invert as) v))) := by
  have hM : (f.dom.marginalize as).attrs = f.dom.invert as := by
    rw [Dom.marginalize, Dom.attrs_project]
  have hrw := reduce_WF r f (f.dom.invert as) hf
  have hperm := project_perm r f as hf has hsub
  have hvalid : (reduce r f (f.dom.invert as)).dom.Valid σ := by
    rw [reduce_dom, Dom.marginalize]
    intro p hp
    simp only [Dom.project, List.mem_map] at hp
    obtain ⟨a, ha, rfl⟩ := hp
    exact hσ a ((mem_invert_invert f.dom as a).mp ha).2
  have hrem : f.dom.removed (f.dom.invert as) = f.dom.invert as := by
    unfold Dom.removed Dom.invert
    apply List.filter_congr
    intro a ha
    rw [Bool.eq_iff_iff, List.contains_iff_mem]
    simp [ha]
  show ((reduce r f (f.dom.marginalize as).attrs).transpose as).sem σ = _
  rw [hM, sem_transpose _ as σ hrw hperm hvalid, sem_reduce' r f _ σ hf, hrem]
  intro a ha hna
  by_contra hlt
  have : a ∈ as := by
    by_contra hnas
    exact hna ((Dataset.mem_invert f.dom as a).mpr ⟨ha, hnas⟩)
  exact hlt (hσ a this)

theorem iop_WF (op : α → α → α) (f g : Factor α)
    (hf : f.WF) (hg : g.WF) (hc : f.dom.contains g.dom = true) (ha : g.dom.Agrees f.dom) :
    (iop op f g).WF := by
  have h2 := expand_WF g _ hg hf.1 hc ha
  refine ⟨hf.1, hf.2.1, ?_⟩
  exact NdArr.zipWith_WF op _ _ hf.2.2 h2.2.2 (by rw [hf.2.1]; rfl)

theorem assign_self_map (l : List Attr) (hl : l.Nodup) (cell : List Nat) (hlen : cell.length = l.length) :
    l.map (Dom.assign l cell) = cell := by
  conv => rhs; rw [← Dataset.map_getD_idxOf_self l hl cell 0 hlen]
  apply List.map_congr_left
  intro a ha
  exact assign_of_mem l cell a ha

/-- value of a factor at a cell = its semantics at the assignment naming that cell -/
theorem sem_assign (f : Factor α) (hf : f.WF) (cell : List Nat) (hc : cell ∈ cells f.dom.shape) :
    f.sem (Dom.assign f.dom.attrs cell) = f.vals.get cell := by
  unfold sem
  rw [assign_self_map _ hf.1 cell]
  have := (mem_cells_inRange _ _ hc).length_eq
  rw [this, Dom.length_shape, Dom.length_attrs]

theorem valid_assign (D : Dom) (hD : D.WF) (cell : List Nat) (hc : cell ∈ cells D.shape) :
    D.Valid (Dom.assign D.attrs cell) := by
  rw [Dom.valid_iff D hD]
  intro a ha
  rw [assign_of_mem _ _ _ ha]
  rw [Dom.shape_eq_map_cfg D hD, mem_cells_iff] at hc
  exact getD_lt_of_inRange D.attrs D.cfg cell hc a ha

theorem agrees_self (D : Dom) (hD : D.WF) : D.Agrees D := fun p hp => Dom.cfg_of_mem D hD p hp

theorem contains_self (D : Dom) : D.contains D = true := (Dom.contains_iff D D).mpr (fun _ h => h)

end Generic

variable {K : Type} [Field K] [LinearOrder K] [IsStrictOrderedRing K]

/-- the table of a plain factor -/
def tab (f : Factor (PlainOf K)) (cell : List Nat) : K := (f.vals.get cell).v
def vals (f : Factor (PlainOf K)) : List K := f.datavector.map (·.v)

theorem vals_eq (f : Factor (PlainOf K)) (hf : f.WF) : vals f = (cells f.dom.shape).map (tab f) := by
  unfold vals
  rw [datavector_eq f hf, List.map_map]
  rfl

theorem vals_length (f : Factor (PlainOf K)) (hf : f.WF) : (vals f).length = size f.dom.shape := by
  rw [vals_eq f hf, List.length_map, length_cells]

/-- projection = row sums -/
theorem xOf_eq (f : Factor (PlainOf K)) (hf : f.WF) (P : List Attr) (hP : P.Nodup)
    (hsub : ∀ a ∈ P, a ∈ f.dom.attrs) :
    vals (f.projectSum P) = (cells (P.map f.dom.cfg)).map (fun idx =>
      ((cells ((restA f.dom.attrs P).map f.dom.cfg)).map
        (fun v => tab f (asm f.dom.attrs P idx v))).sum) := by
  have hg := project_WF Scalar.sum f P hf hP hsub
  have hsh := project_shape Scalar.sum f P hsub
  have hat := project_attrs Scalar.sum f P
  unfold projectSum
  rw [vals_eq _ hg, hsh]
  apply List.map_congr_left
  intro idx hidx
  have hidx' : idx ∈ cells (project Scalar.sum f P).dom.shape := by rw [hsh]; exact hidx
  unfold tab
  rw [← sem_assign _ hg idx hidx', hat]
  rw [sem_project' Scalar.sum f P _ hf hP hsub (by
    intro a ha
    rw [assign_of_mem _ _ _ ha]
    exact getD_lt_of_inRange P f.dom.cfg idx ((mem_cells_iff _ _).mp hidx) a ha)]
  rw [sum_v, List.map_map]
  rfl

theorem add_dom (f g : Factor (PlainOf K)) (hd : g.dom = f.dom) : (f.add g).dom = f.dom := by
  show f.dom.merge g.dom = f.dom
  rw [hd]
  exact Dom.merge_eq_self_of_contains f.dom f.dom (contains_self f.dom)

theorem add_WF (f g : Factor (PlainOf K)) (hf : f.WF) (hg : g.WF) (hd : g.dom = f.dom) :
    (f.add g).WF :=
  binop_WF _ f g hf hg (by rw [hd]; exact Dom.compatible_of_agrees _ _ hf.1 (agrees_self _ hf.1))

theorem tab_add (f g : Factor (PlainOf K)) (hf : f.WF) (hg : g.WF) (hd : g.dom = f.dom)
    (cell : List Nat) (hc : cell ∈ cells f.dom.shape) :
    tab (f.add g) cell = tab f cell + tab g cell := by
  have hw := add_WF f g hf hg hd
  have hdom := add_dom f g hd
  have hcg : cell ∈ cells g.dom.shape := by rw [hd]; exact hc
  have hca : cell ∈ cells (f.add g).dom.shape := by rw [hdom]; exact hc
  unfold tab
  rw [← sem_assign _ hw cell hca, ← sem_assign f hf cell hc, ← sem_assign g hg cell hcg, hdom, hd]
  have := sem_binop Scalar.add f g (Dom.assign f.dom.attrs cell) hf hg
    (by rw [hd]; exact Dom.compatible_of_agrees _ _ hf.1 (agrees_self _ hf.1))
    (by
      have h1 : f.dom.merge g.dom = f.dom := hdom
      rw [h1]; exact valid_assign f.dom hf.1 cell hc)
  show ((binop Scalar.add f g).sem _).v = _
  rw [this]
  rfl

/-- linearity of `f ↦ xOf m f` -/
theorem xOf_add (f g : Factor (PlainOf K)) (hf : f.WF) (hg : g.WF) (hd : g.dom = f.dom)
    (P : List Attr) (hP : P.Nodup) (hsub : ∀ a ∈ P, a ∈ f.dom.attrs) :
    vals ((f.add g).projectSum P)
      = List.zipWith (· + ·) (vals (f.projectSum P)) (vals (g.projectSum P)) := by
  have hw := add_WF f g hf hg hd
  have hdom := add_dom f g hd
  rw [xOf_eq _ hw P hP (by rw [hdom]; exact hsub), xOf_eq f hf P hP hsub,
    xOf_eq g hg P hP (by rw [hd]; exact hsub), hdom, hd, zipWith_map_map]
  apply List.map_congr_left
  intro idx hidx
  rw [← list_sum_map_add]
  congr 1
  apply List.map_congr_left
  intro v hv
  apply tab_add f g hf hg hd
  rw [Dom.shape_eq_map_cfg _ hf.1]
  exact asm_mem_cells _ P _ hf.1 hP hsub idx v hidx hv

theorem xOf_length (f : Factor (PlainOf K)) (hf : f.WF) (P : List Attr) (hP : P.Nodup)
    (hsub : ∀ a ∈ P, a ∈ f.dom.attrs) :
    (vals (f.projectSum P)).length = size (P.map f.dom.cfg) := by
  rw [xOf_eq f hf P hP hsub, List.length_map, length_cells]

/-- zero table -/
theorem zeros_WF (D : Dom) (hD : D.WF) : (Factor.zeros D : Factor (PlainOf K)).WF := by
  refine ⟨hD, rfl, ?_⟩
  show (Array.replicate (size D.shape) (Scalar.zero : PlainOf K)).size = size D.shape
  simp

theorem tab_zeros (D : Dom) (cell : List Nat) : tab (Factor.zeros D : Factor (PlainOf K)) cell = 0 := by
  unfold tab
  show ((Array.replicate (size D.shape) (Scalar.zero : PlainOf K)).getD (ravel D.shape cell) default).v = 0
  unfold Array.getD
  split
  · simp
  · rfl

/-- in-place addition of a smaller table, cell by cell -/
theorem tab_iadd (f g : Factor (PlainOf K)) (hf : f.WF) (hg : g.WF)
    (hc : f.dom.contains g.dom = true) (ha : g.dom.Agrees f.dom)
    (cell : List Nat) (hcell : cell ∈ cells f.dom.shape) :
    tab (f.iadd g) cell = tab f cell + (g.sem (Dom.assign f.dom.attrs cell)).v := by
  have hw : (f.iadd g).WF := iop_WF _ f g hf hg hc ha
  unfold tab
  have hcell' : cell ∈ cells (f.iadd g).dom.shape := hcell
  rw [← sem_assign _ hw cell hcell', ← sem_assign f hf cell hcell]
  show ((iop Scalar.add f g).sem (Dom.assign f.dom.attrs cell)).v = _
  rw [sem_iop Scalar.add f g _ hf hg hc ha (valid_assign f.dom hf.1 cell hcell)]
  rfl

/-- **adjointness** of expand and project: `⟨expand g, h⟩ = ⟨g, project h⟩` -/
theorem adjoint (g h : Factor (PlainOf K)) (hg : g.WF) (hh : h.WF) (P : List Attr) (hP : P.Nodup)
    (hsub : ∀ a ∈ P, a ∈ h.dom.attrs) (hgd : g.dom = h.dom.project P) :
    ((cells h.dom.shape).map (fun cell => (g.sem (Dom.assign h.dom.attrs cell)).v * tab h cell)).sum
      = vdot (vals g) (vals (h.projectSum P)) := by
  have hgs : g.dom.shape = P.map h.dom.cfg := by rw [hgd, Dom.shape_project]
  have hga : g.dom.attrs = P := by rw [hgd, Dom.attrs_project]
  rw [vals_eq g hg, hgs, xOf_eq h hh P hP hsub, vdot_map_map]
  rw [Dom.shape_eq_map_cfg _ hh.1, regroup h.dom.attrs P h.dom.cfg hh.1 hP hsub]
  apply congrArg
  apply List.map_congr_left
  intro idx hidx
  rw [← list_sum_map_mul_left]
  apply congrArg
  apply List.map_congr_left
  intro v hv
  congr 1
  unfold sem tab
  rw [hga, asm_proj_P h.dom.attrs P h.dom.cfg hh.1 hP hsub idx v hidx]

/-- Cauchy–Schwarz for a list of distinct indices -/
theorem sq_list_sum_le {ι : Type} (l : List ι) (hl : l.Nodup) (t : ι → K) :
    (l.map t).sum * (l.map t).sum ≤ (l.length : K) * (l.map (fun i => t i * t i)).sum := by
  classical
  rw [← List.sum_toFinset _ hl, ← List.sum_toFinset _ hl]
  have h := sq_sum_le_card_mul_sum_sq (s := l.toFinset) (f := t)
  rw [List.toFinset_card_of_nodup hl] at h
  simpa [pow_two] using h

/-- **norm bound** of a projection: `‖π h‖² ≤ |rest| ‖h‖²` -/
theorem proj_norm_le (h : Factor (PlainOf K)) (hh : h.WF) (P : List Attr) (hP : P.Nodup)
    (hsub : ∀ a ∈ P, a ∈ h.dom.attrs) :
    vdot (vals (h.projectSum P)) (vals (h.projectSum P))
      ≤ (size ((restA h.dom.attrs P).map h.dom.cfg) : K) * vdot (vals h) (vals h) := by
  rw [xOf_eq h hh P hP hsub, vals_eq h hh, vdot_map_map, vdot_map_map]
  rw [Dom.shape_eq_map_cfg _ hh.1, regroup h.dom.attrs P h.dom.cfg hh.1 hP hsub,
    ← list_sum_map_mul_left]
  apply list_sum_le
  intro idx _
  have := sq_list_sum_le (cells ((restA h.dom.attrs P).map h.dom.cfg)) (Dataset.nodup_cells _)
    (fun v => tab h (asm h.dom.attrs P idx v))
  rw [length_cells] at this
  exact this

end PGM.LossAux
