import PGM.Proofs.JTWeightEdges
import Mathlib.Data.List.Perm.Subperm
/-!
# `mp_order`: every linear extension of the dependency digraph is a valid message schedule

`messages`, `depEdges`, `isTopoSort` (end of `PGM/Model/JTree.lean`) transcribe
`JunctionTree.mp_order`.  Here: the membership specification of `depEdges`, duplicate-freeness of
`messages` for a tree, and `mp_order_valid`.
-/
namespace PGM.JT

theorem mem_messages (t : Tree) (m : Msg) :
    m ∈ messages t ↔ m ∈ t.edges ∨ (m.2, m.1) ∈ t.edges := by
  simp only [messages, List.mem_append, List.mem_map]
  constructor
  · rintro (h | ⟨e, he, rfl⟩)
    · exact Or.inl h
    · exact Or.inr he
  · rintro (h | h)
    · exact Or.inl h
    · exact Or.inr ⟨(m.2, m.1), h, rfl⟩

theorem messages_length (t : Tree) : (messages t).length = 2 * t.edges.length := by
  simp only [messages, List.length_append, List.length_map]; omega

theorem mem_messages_swap (t : Tree) (a b : Clique) :
    (a, b) ∈ messages t ↔ (b, a) ∈ messages t := by
  simp only [mem_messages]; exact Or.comm

/-- a message joins two adjacent cliques -/
theorem mem_messages_iff_adj (t : Tree) (a b : Clique) :
    (a, b) ∈ messages t ↔ t.adj a b = true := by
  simp [mem_messages, Tree.adj]

/-- **`depEdges` is the arc set built by the double loop of `mp_order`** -/
theorem depEdges_spec (t : Tree) (m1 m2 : Msg) :
    (m1, m2) ∈ depEdges t ↔
      m1 ∈ messages t ∧ m2 ∈ messages t ∧ m1.2 = m2.1 ∧ m1.1 ≠ m2.2 := by
  simp only [depEdges, List.mem_flatMap, List.mem_map, List.mem_filter, Bool.and_eq_true,
    beq_iff_eq, bne_iff_ne, ne_eq, Prod.mk.injEq]
  constructor
  · rintro ⟨a, ha, b, ⟨hb, h1, h2⟩, rfl, rfl⟩
    exact ⟨ha, hb, h1, h2⟩
  · rintro ⟨h1, h2, h3, h4⟩
    exact ⟨m1, h1, m2, ⟨h2, h3, h4⟩, rfl, rfl⟩

/-! ## a tree lists no edge twice and no edge in both directions -/

theorem toSym_swap (e : Clique × Clique) : toSym (e.2, e.1) = toSym e := by
  simp [toSym, Sym2.eq_swap]

theorem messages_nodup_of_facts (t : Tree) (f : TreeFacts t) : (messages t).Nodup := by
  have hinj : ∀ x ∈ t.edges, ∀ y ∈ t.edges, toSym x = toSym y → x = y :=
    List.inj_on_of_nodup_map f.sym_nodup
  have hnd : t.edges.Nodup := List.Nodup.of_map _ f.sym_nodup
  unfold messages
  rw [List.nodup_append]
  refine ⟨hnd, ?_, ?_⟩
  · refine hnd.map ?_
    intro x y hxy
    simp only [Prod.mk.injEq] at hxy
    exact Prod.ext hxy.2 hxy.1
  · intro a ha b hb hab
    simp only [List.mem_map] at hb
    obtain ⟨e, he, rfl⟩ := hb
    have hae : a = e := hinj a ha e he (by rw [hab, toSym_swap])
    subst hae
    have h1 : a.1 = a.2 := congrArg Prod.fst hab
    exact (f.ends a ha).2.2 h1

/-- **`isTree` makes `messages` duplicate-free**: a connected graph on `n` nodes with `n - 1`
listed edges cannot list an edge twice, nor in both directions -/
theorem isTree_messages_nodup (t : Tree) (h : isTree t = true) : nodup (messages t) = true :=
  (nodup_iffW _).mpr (messages_nodup_of_facts t (treeFacts t h))

/-! ## from a topological sort to a schedule -/

theorem isTopoSort_iff (nodes : List Msg) (arcs : List (Msg × Msg)) (order : List Msg) :
    isTopoSort nodes arcs order = true ↔
      order.Nodup ∧ order.length = nodes.length ∧ (∀ m ∈ nodes, m ∈ order) ∧
      ∀ a ∈ arcs, order.idxOf a.1 < order.idxOf a.2 := by
  simp only [isTopoSort, Bool.and_eq_true, nodup_iffW, beq_iff_eq, List.all_eq_true,
    List.contains_iff_mem, decide_eq_true_eq, and_assoc]

/-- a duplicate-free listing of all of a duplicate-free `nodes`, of the same length, lists nothing
else -/
theorem perm_of_topo {nodes order : List Msg} (hn : nodes.Nodup) (hlen : order.length = nodes.length)
    (hsub : ∀ m ∈ nodes, m ∈ order) : nodes.Perm order :=
  (List.subperm_of_subset hn hsub).perm_of_length_le (Nat.le_of_eq hlen)

theorem idxOf_append_self {before rest : List Msg} {m : Msg} (h : m ∉ before) :
    (before ++ m :: rest).idxOf m = before.length := by
  rw [List.idxOf_append_of_notMem h, List.idxOf_cons_self]; rfl

theorem mem_of_idxOf_lt_length {before rest : List Msg} {m : Msg}
    (h : (before ++ rest).idxOf m < before.length) : m ∈ before := by
  by_contra hm
  rw [List.idxOf_append_of_notMem hm] at h
  omega

/-- if, in the whole order, every dependency of a message precedes it, then the suffix check
`scheduleRespects` succeeds from every split point -/
theorem scheduleRespects_of_idx (t : Tree) (order : List Msg) (hnd : order.Nodup)
    (H : ∀ i j k, (i, j) ∈ order → k ∈ t.nbrs i → k ≠ j →
      order.idxOf (k, i) < order.idxOf (i, j)) :
    ∀ (rest before : List Msg), before ++ rest = order → scheduleRespects t before rest = true := by
  intro rest
  induction rest with
  | nil => intro before _; rfl
  | cons m rest ih =>
    intro before h
    obtain ⟨i, j⟩ := m
    simp only [scheduleRespects, Bool.and_eq_true, List.all_eq_true, Bool.or_eq_true, beq_iff_eq,
      List.contains_iff_mem]
    refine ⟨fun k hk => ?_, ih (before ++ [(i, j)]) (by rw [← h]; simp)⟩
    by_cases hkj : k = j
    · exact Or.inl hkj
    · right
      have hlt := H i j k (by rw [← h]; simp) hk hkj
      have hnot : (i, j) ∉ before := by
        intro hmem
        rw [← h] at hnd
        exact (List.disjoint_of_nodup_append hnd) hmem (by simp)
      rw [← h, idxOf_append_self hnot] at hlt
      exact mem_of_idxOf_lt_length hlt

theorem mem_tree_nbrs (t : Tree) (a b : Clique) :
    b ∈ t.nbrs a ↔ b ∈ t.nodes ∧ t.adj a b = true := by
  simp [Tree.nbrs]

/-- the schedule part of `mp_order_valid`, from duplicate-freeness of `messages` alone -/
theorem mp_order_valid_of_nodup (t : Tree) (hmn : (messages t).Nodup) (order : List Msg)
    (h : isTopoSort (messages t) (depEdges t) order = true) :
    scheduleComplete t order = true ∧ scheduleRespects t [] order = true := by
  rw [isTopoSort_iff] at h
  obtain ⟨hnd, hlen, hall, harcs⟩ := h
  constructor
  · simp only [scheduleComplete, Bool.and_eq_true, nodup_iffW, beq_iff_eq, List.all_eq_true,
      List.contains_iff_mem]
    refine ⟨⟨hnd, by rw [hlen, messages_length]⟩, fun e he => ⟨?_, ?_⟩⟩
    · exact hall _ ((mem_messages t _).mpr (Or.inl he))
    · exact hall _ ((mem_messages t _).mpr (Or.inr he))
  · have hperm := perm_of_topo hmn hlen hall
    refine scheduleRespects_of_idx t order hnd ?_ order [] (by simp)
    intro i j k hij hk hkj
    have hij' : (i, j) ∈ messages t := hperm.mem_iff.mpr hij
    have hki : (k, i) ∈ messages t := by
      rw [mem_messages_swap, mem_messages_iff_adj]
      exact ((mem_tree_nbrs t i k).mp hk).2
    exact harcs ((k, i), (i, j)) ((depEdges_spec t _ _).mpr ⟨hki, hij', rfl, hkj⟩)

/-- **every topological sort of the dependency digraph of a tree is a valid schedule** -/
theorem mp_order_valid (t : Tree) (ht : isTree t = true) (order : List Msg)
    (h : isTopoSort (messages t) (depEdges t) order = true) :
    scheduleComplete t order = true ∧ scheduleRespects t [] order = true :=
  mp_order_valid_of_nodup t (messages_nodup_of_facts t (treeFacts t ht)) order h

end PGM.JT
