import PGM.Proofs.PublicSem
/-!
# The Lyapunov function of the public-data reweighting loop

`Φ(s) = s.loss + ½·KL(P₀ ‖ exp s.logP)` never increases along `emdStep`, *because* the acceptance test
is written with the stale starting point `P₀`:

* accepted step, `Q = P·exp(−α d)·T/Z`:  `KL(P₀‖Q) − KL(P₀‖P) = α⟨d,P₀⟩ − T·c` with
  `c = log T − log Z` the normalising shift, and Gibbs' inequality `KL(Q‖P) ≥ 0` reads
  `T·c ≥ α⟨d,Q⟩`; so `KL(P₀‖Q) − KL(P₀‖P) ≤ α⟨d, P₀ − Q⟩ ≤ 2(loss − new_loss)`;
* rejected step: neither the point nor the loss changes.

No sign condition on `α` is needed.  Since `Φ₀ = loss₀` (`exp logP₀ = P₀`) and `KL ≥ 0`, the final
loss is at most the starting loss, for every objective and every iteration count.

The sums are done over an index list `r` with the vectors as functions (`P₀ = r.map p0`, …); the
model's lists are brought to that form by `list_as_map`.
-/
namespace PGM.Public

/-- `KL(p ‖ q) = Σ pᵢ (log pᵢ − log qᵢ)` -/
noncomputable def klDiv (p q : List ℝ) : ℝ :=
  (List.zipWith (fun a b => a * (Real.log a - Real.log b)) p q).sum

/-- the Lyapunov function `loss + ½·KL(P₀ ‖ exp logP)` -/
noncomputable def lyap (P0 : List ℝ) (s : EmdState ℝ) : ℝ :=
  s.loss + (1 / 2 : ℝ) * klDiv P0 (s.logP.map Real.exp)

/-! ## scalar inequalities -/

/-- `eᵃ − eᵇ ≤ eᵃ (a − b)`: the term of Gibbs' inequality in log space -/
theorem exp_sub_exp_le (a b : ℝ) : Real.exp a - Real.exp b ≤ Real.exp a * (a - b) := by
  have h1 := Real.add_one_le_exp (b - a)
  have h2 : Real.exp b = Real.exp a * Real.exp (b - a) := by
    rw [← Real.exp_add]; congr 1; ring
  have h3 := mul_le_mul_of_nonneg_left h1 (Real.exp_pos a).le
  rw [h2]
  linarith

/-- `p − eˡ ≤ p (log p − l)` for `p ≥ 0` -/
theorem kl_term_ge (p l : ℝ) (hp : 0 ≤ p) : p - Real.exp l ≤ p * (Real.log p - l) := by
  rcases hp.eq_or_lt with h0 | hpos
  · subst h0
    have := Real.exp_pos l
    simp only [zero_mul]
    linarith
  · have := exp_sub_exp_le (Real.log p) l
    rwa [Real.exp_log hpos] at this

/-! ## sums over an index list -/
section core
variable {ι : Type}

theorem sum_map_sub'' (l : List ι) (f g : ι → ℝ) :
    (l.map (fun i => f i - g i)).sum = (l.map f).sum - (l.map g).sum := by
  induction l with
  | nil => simp
  | cons a l ih => simp only [List.map_cons, List.sum_cons, ih]; ring

theorem sum_map_add'' (l : List ι) (f g : ι → ℝ) :
    (l.map (fun i => f i + g i)).sum = (l.map f).sum + (l.map g).sum := by
  induction l with
  | nil => simp
  | cons a l ih => simp only [List.map_cons, List.sum_cons, ih]; ring

theorem sum_map_mul_l (l : List ι) (f : ι → ℝ) (c : ℝ) :
    (l.map (fun i => c * f i)).sum = c * (l.map f).sum := by
  induction l with
  | nil => simp
  | cons a l ih => simp only [List.map_cons, List.sum_cons, ih]; ring

theorem sum_map_mul_r (l : List ι) (f : ι → ℝ) (c : ℝ) :
    (l.map (fun i => f i * c)).sum = (l.map f).sum * c := by
  induction l with
  | nil => simp
  | cons a l ih => simp only [List.map_cons, List.sum_cons, ih]; ring

theorem sum_map_le (l : List ι) (f g : ι → ℝ) (h : ∀ i ∈ l, f i ≤ g i) :
    (l.map f).sum ≤ (l.map g).sum := by
  induction l with
  | nil => simp
  | cons a l ih =>
    simp only [List.map_cons, List.sum_cons]
    have := h a List.mem_cons_self
    have := ih (fun i hi => h i (List.mem_cons_of_mem _ hi))
    linarith

theorem sum_map_exp_pos (l : List ι) (f : ι → ℝ) (hl : l ≠ []) :
    0 < (l.map (fun i => Real.exp (f i))).sum := by
  have := sum_exp_pos (l.map f) (by simpa using hl)
  simpa [List.map_map, Function.comp_def] using this

/-- **Gibbs' inequality** in log space: `Σ exp a − Σ exp b ≤ Σ exp a · (a − b)`, i.e.
`KL(exp a ‖ exp b) ≥ 0` when the masses agree -/
theorem gibbs_log (l : List ι) (a b : ι → ℝ) :
    (l.map (fun i => Real.exp (a i))).sum - (l.map (fun i => Real.exp (b i))).sum
      ≤ (l.map (fun i => Real.exp (a i) * (a i - b i))).sum := by
  rw [← sum_map_sub'']
  exact sum_map_le l _ _ (fun i _ => exp_sub_exp_le (a i) (b i))

/-- **`KL(p ‖ exp l) ≥ 0`** for a nonnegative `p` of the same mass as `exp l` -/
theorem kl_nonneg_fn (r : List ι) (p0 lp : ι → ℝ) (hp : ∀ i ∈ r, 0 ≤ p0 i)
    (hm : (r.map p0).sum = (r.map (fun i => Real.exp (lp i))).sum) :
    0 ≤ (r.map (fun i => p0 i * (Real.log (p0 i) - lp i))).sum := by
  have h := sum_map_le r (fun i => p0 i - Real.exp (lp i)) (fun i => p0 i * (Real.log (p0 i) - lp i))
    (fun i hi => kl_term_ge (p0 i) (lp i) (hp i hi))
  rw [sum_map_sub''] at h
  linarith

/-- the proposed point has the same mass as the stored one -/
theorem tilt_mass (r : List ι) (lp d : ι → ℝ) (α T : ℝ)
    (hm : (r.map (fun i => Real.exp (lp i))).sum = T) :
    (r.map (fun i => Real.exp (lp i - α * d i
        + (Real.log T - Real.log (r.map (fun i => Real.exp (lp i - α * d i))).sum)))).sum = T := by
  by_cases hr : r = []
  · subst hr; simpa using hm
  · have hT : 0 < T := by rw [← hm]; exact sum_map_exp_pos r lp hr
    have hW := sum_map_exp_pos r (fun i => lp i - α * d i) hr
    set W := (r.map (fun i => Real.exp (lp i - α * d i))).sum with hWdef
    have e : ∀ i, Real.exp (lp i - α * d i + (Real.log T - Real.log W))
        = Real.exp (lp i - α * d i) * (T / W) := by
      intro i
      rw [Real.exp_add, Real.exp_sub (Real.log T), Real.exp_log hT, Real.exp_log hW]
    simp only [e]
    rw [sum_map_mul_r, ← hWdef]
    field_simp

/-- **the KL part of the Lyapunov step**: moving from `exp lp` to the tilted, renormalised point
`exp lq`, `lq = lp − α d + c`, changes `KL(p0 ‖ ·)` by at most `α⟨d, p0 − exp lq⟩`.  No sign
condition on `α`, none on `p0` (only its mass). -/
theorem kl_step_fn (r : List ι) (p0 lp d : ι → ℝ) (α T : ℝ)
    (hm : (r.map (fun i => Real.exp (lp i))).sum = T) (hp0 : (r.map p0).sum = T) :
    (r.map (fun i => p0 i * (Real.log (p0 i) - (lp i - α * d i
        + (Real.log T - Real.log (r.map (fun i => Real.exp (lp i - α * d i))).sum))))).sum
    ≤ (r.map (fun i => p0 i * (Real.log (p0 i) - lp i))).sum
      + α * (r.map (fun i => d i * (p0 i - Real.exp (lp i - α * d i
        + (Real.log T - Real.log (r.map (fun i => Real.exp (lp i - α * d i))).sum))))).sum := by
  have hQ := tilt_mass r lp d α T hm
  set c := Real.log T - Real.log (r.map (fun i => Real.exp (lp i - α * d i))).sum with hc
  -- Gibbs: KL(Q ‖ P) ≥ 0
  have hg := gibbs_log r (fun i => lp i - α * d i + c) lp
  rw [hQ, hm] at hg
  have e1 : ∀ i, Real.exp (lp i - α * d i + c) * (lp i - α * d i + c - lp i)
      = c * Real.exp (lp i - α * d i + c) - α * (d i * Real.exp (lp i - α * d i + c)) := by
    intro i; ring
  simp only [e1] at hg
  rw [sum_map_sub'', sum_map_mul_l, sum_map_mul_l, hQ] at hg
  -- the difference of the two KL sums
  have e2 : ∀ i, p0 i * (Real.log (p0 i) - (lp i - α * d i + c))
      = p0 i * (Real.log (p0 i) - lp i) + (α * (d i * p0 i) - c * p0 i) := by
    intro i; ring
  have e3 : ∀ i, d i * (p0 i - Real.exp (lp i - α * d i + c))
      = d i * p0 i - d i * Real.exp (lp i - α * d i + c) := by
    intro i; ring
  simp only [e2, e3]
  rw [sum_map_add'', sum_map_sub'', sum_map_sub'', sum_map_mul_l, sum_map_mul_l, hp0]
  linarith

end core

/-! ## from the model's lists to index functions -/

theorem list_as_map (l : List ℝ) (n : Nat) (h : l.length = n) :
    l = (List.range n).map (fun i => l.getD i 0) := by
  subst h
  apply List.ext_getElem
  · simp
  · intro i h1 h2
    simp [List.getD_eq_getElem?_getD, List.getElem?_eq_getElem h1]

theorem klDiv_map (r : List Nat) (p0 lp : Nat → ℝ) :
    klDiv (r.map p0) ((r.map lp).map Real.exp)
      = (r.map (fun i => p0 i * (Real.log (p0 i) - lp i))).sum := by
  simp only [klDiv, List.map_map, List.zipWith_map, List.zipWith_self, Function.comp_def,
    Real.log_exp]

theorem logQ_map (r : List Nat) (lp d : Nat → ℝ) (total : ℝ) (s : EmdState ℝ)
    (h1 : s.logP = r.map lp) (h2 : center s.dL = r.map d) :
    logQ total s = r.map (fun i => lp i - s.alpha * d i
      + (Real.log total - Real.log (r.map (fun i => Real.exp (lp i - s.alpha * d i))).sum)) := by
  simp only [logQ, logQ0, h1, h2, List.map_map, List.zipWith_map, List.zipWith_self,
    Function.comp_def]

theorem thr_map (r : List Nat) (p0 lp d : Nat → ℝ) (total : ℝ) (s : EmdState ℝ)
    (h1 : s.logP = r.map lp) (h2 : center s.dL = r.map d) :
    thr total (r.map p0) s = (1 / 2 : ℝ) * s.alpha * (r.map (fun i => d i * (p0 i - Real.exp (lp i - s.alpha * d i
      + (Real.log total - Real.log (r.map (fun i => Real.exp (lp i - s.alpha * d i))).sum))))).sum := by
  simp only [thr, Qpt, logQ_map r lp d total s h1 h2, h2, dotv_eq, List.map_map, List.zipWith_map,
    List.zipWith_self, Function.comp_def]

/-! ## the Lyapunov step -/

/-- the Lyapunov step with the vectors given as functions on an index list -/
theorem lyap_step_fn (lossgrad : List ℝ → ℝ × List ℝ) (total : ℝ) (r : List Nat) (p0 lp d : Nat → ℝ)
    (s : EmdState ℝ) (h1 : s.logP = r.map lp) (h2 : center s.dL = r.map d)
    (hm : (s.logP.map Real.exp).sum = total) (hp0 : (r.map p0).sum = total) :
    lyap (r.map p0) (emdStep lossgrad total (r.map p0) s) ≤ lyap (r.map p0) s := by
  have hm' : (r.map (fun i => Real.exp (lp i))).sum = total := by
    rw [← hm, h1, List.map_map]; rfl
  rcases emdStep_cases lossgrad total (r.map p0) s with ⟨e1, e2, _, _, e5⟩ | ⟨e1, e2, _, _⟩
  · have hk := kl_step_fn r p0 lp d s.alpha total hm' hp0
    rw [thr_map r p0 lp d total s h1 h2] at e5
    unfold lyap
    rw [e1, e2, logQ_map r lp d total s h1 h2, klDiv_map, h1, klDiv_map]
    linarith
  · unfold lyap
    rw [e1, e2]

/-- **Lyapunov step**: `Φ(s) = s.loss + ½·KL(P₀ ‖ exp s.logP)` does not increase in one iteration —
for every objective, every step size `α` (any sign), every state whose stored point `exp s.logP` has
the mass `T` of `P₀` (lengths matching) -/
theorem emd_lyapunov_step (lossgrad : List ℝ → ℝ × List ℝ) (total : ℝ) (P0 : List ℝ) (s : EmdState ℝ)
    (hl1 : P0.length = s.logP.length) (hl2 : s.dL.length = s.logP.length)
    (hm : (s.logP.map Real.exp).sum = total) (hp0 : P0.sum = total) :
    lyap P0 (emdStep lossgrad total P0 s) ≤ lyap P0 s := by
  have a1 := list_as_map P0 s.logP.length hl1
  have a2 := list_as_map s.logP s.logP.length rfl
  have a3 := list_as_map (center s.dL) s.logP.length (by rw [center_length]; exact hl2)
  rw [a1] at hp0 ⊢
  exact lyap_step_fn lossgrad total _ _ _ _ s a2 a3 hm hp0

/-- **`KL(P₀ ‖ exp logP) ≥ 0`** (Gibbs) for nonnegative `P₀` of the same mass -/
theorem klDiv_nonneg (P0 lp : List ℝ) (hl : P0.length = lp.length) (hp : ∀ x ∈ P0, 0 ≤ x)
    (hm : P0.sum = (lp.map Real.exp).sum) : 0 ≤ klDiv P0 (lp.map Real.exp) := by
  obtain ⟨n, hn⟩ : ∃ n, lp.length = n := ⟨_, rfl⟩
  rw [hn] at hl
  have a1 := list_as_map P0 n hl
  have a2 := list_as_map lp n hn
  have hp' : ∀ i ∈ List.range n, 0 ≤ P0.getD i 0 := by
    intro i hi
    rw [List.mem_range] at hi
    rw [List.getD_eq_getElem?_getD, List.getElem?_eq_getElem (by omega)]
    exact hp _ (List.getElem_mem _)
  rw [a1, a2, List.map_map] at hm
  rw [a1, a2, klDiv_map]
  exact kl_nonneg_fn _ _ _ hp' hm

theorem klDiv_self (P : List ℝ) : klDiv P P = 0 := by
  simp [klDiv, List.zipWith_self]

/-! ## never worse than the start -/

/-- the full loop invariant: shape and mass, stored loss = objective at the stored point, and the
Lyapunov function is below the starting loss -/
def LInv (lossgrad : List ℝ → ℝ × List ℝ) (n : Nat) (total : ℝ) (P0 : List ℝ) (L0 : ℝ)
    (s : EmdState ℝ) : Prop :=
  Inv n total s ∧ Consistent lossgrad s ∧ lyap P0 s ≤ L0

theorem emdStep_linv (lossgrad : List ℝ → ℝ × List ℝ) (n : Nat) (hg : GradLenAt n lossgrad)
    (total : ℝ) (ht : 0 < total) (P0 : List ℝ) (hn : 0 < n) (L0 : ℝ)
    (hP0l : P0.length = n) (hP0s : P0.sum = total)
    (s : EmdState ℝ) (h : LInv lossgrad n total P0 L0 s) :
    LInv lossgrad n total P0 L0 (emdStep lossgrad total P0 s) := by
  obtain ⟨hi, hc, hl⟩ := h
  refine ⟨emdStep_inv lossgrad n hg total ht P0 hn s hi,
    emd_step_loss_consistent lossgrad total P0 s hc, ?_⟩
  obtain ⟨i1, i2, i3⟩ := hi
  have := emd_lyapunov_step lossgrad total P0 s (by rw [hP0l, i1]) (by rw [i2, i1]) i3 hP0s
  linarith

/-- **never worse than the start**: for every objective, every positive starting weights, every
total > 0 and EVERY iteration count, the objective at the returned weights is at most the objective
at the starting point `P₀ = x0·total/Σx0` — although single accepted steps may increase it -/
theorem emd_never_worse_than_start_at (lossgrad : List ℝ → ℝ × List ℝ) (x0 : List ℝ) (total : ℝ)
    (iters : Nat) (hg : GradLenAt x0.length lossgrad) (hx : ∀ x ∈ x0, 0 < x) (hne : x0 ≠ []) (ht : 0 < total) :
    (lossgrad (emd lossgrad x0 total 0 iters)).1
      ≤ (lossgrad (x0.map (fun x => x * total / x0.sum))).1 := by
  have hn : 0 < x0.length := List.length_pos_iff.mpr hne
  have hS : 0 < x0.sum := sum_pos_of_pos x0 hx hne
  unfold emd
  simp only [vsum, r_sum, r_add, r_sub, r_log, r_mul, r_div, r_one, r_exp_fun]
  set P0 := x0.map (fun x => x * total / x0.sum) with hP0
  have hexp : (x0.map (fun x => Real.log (x + 0) + Real.log total - Real.log x0.sum)).map Real.exp = P0 :=
    init_map_exp x0 total hx hne ht
  have hP0s : P0.sum = total := by
    rw [hP0, sum_map_scale]; field_simp
  have hP0pos : ∀ x ∈ P0, 0 ≤ x := by
    intro x hxm
    rw [hP0, List.mem_map] at hxm
    obtain ⟨y, hy, rfl⟩ := hxm
    have := hx y hy
    positivity
  have hinit : LInv lossgrad x0.length total P0 (lossgrad P0).1
      ⟨x0.map (fun x => Real.log (x + 0) + Real.log total - Real.log x0.sum),
        (lossgrad P0).1, (lossgrad P0).2, 1, false⟩ := by
    refine ⟨⟨by simp, hg _ (by simp [hP0]), ?_⟩, ⟨?_, ?_⟩, ?_⟩
    · show ((x0.map (fun x => Real.log (x + 0) + Real.log total - Real.log x0.sum)).map Real.exp).sum = total
      rw [hexp, hP0s]
    · show (lossgrad P0).1 = (lossgrad ((x0.map (fun x => Real.log (x + 0) + Real.log total - Real.log x0.sum)).map Real.exp)).1
      rw [hexp]
    · show center (lossgrad P0).2 = center (lossgrad ((x0.map (fun x => Real.log (x + 0) + Real.log total - Real.log x0.sum)).map Real.exp)).2
      rw [hexp]
    · show (lossgrad P0).1 + (1 / 2 : ℝ) * klDiv P0 ((x0.map (fun x => Real.log (x + 0) + Real.log total - Real.log x0.sum)).map Real.exp) ≤ (lossgrad P0).1
      rw [hexp, klDiv_self]; simp
  have hfin := foldl_inv (LInv lossgrad x0.length total P0 (lossgrad P0).1)
    (fun s (_ : Nat) => emdStep lossgrad total P0 s)
    (fun s _ hs => emdStep_linv lossgrad x0.length hg total ht P0 hn _ (by simp [hP0]) hP0s s hs)
    (List.range iters) _ hinit
  obtain ⟨⟨i1, _, i3⟩, ⟨c1, _⟩, hl⟩ := hfin
  rw [← c1]
  have hk := klDiv_nonneg P0 _ (by rw [i1]; simp [hP0]) hP0pos (by rw [hP0s, i3])
  unfold lyap at hl
  linarith

theorem emd_never_worse_than_start (lossgrad : List ℝ → ℝ × List ℝ) (x0 : List ℝ) (total : ℝ)
    (iters : Nat) (hg : GradLen lossgrad) (hx : ∀ x ∈ x0, 0 < x) (hne : x0 ≠ []) (ht : 0 < total) :
    (lossgrad (emd lossgrad x0 total 0 iters)).1
      ≤ (lossgrad (x0.map (fun x => x * total / x0.sum))).1 :=
  emd_never_worse_than_start_at lossgrad x0 total iters (hg.at _) hx hne ht

/-! ## an accepted step can increase the loss

A run on two records: `x0 = [1,1]`, `total = 2`, and an objective with
`L[1,1] = 3`, `∇L[1,1] = [log 4, −log 4]`; `L[2/17,32/17] = 0`, `∇ = [−½log 2, ½log 2]`;
`L = 1/4` elsewhere.  Iteration 1 (α = 1) moves to `[2/17, 32/17]` (loss 3 → 0, accepted); iteration 2
(α = 2) proposes `[2/5, 8/5]`, on the way back towards `P₀ = [1,1]`: the threshold
`½·α·⟨dL, P₀ − Q⟩ = −(3/5)·log 2 < −1/4` is negative and the step is accepted with the loss going UP
from 0 to 1/4.  (It stays below the starting loss 3, as `emd_never_worse_than_start` says.) -/

theorem emd_unfold (lossgrad : List ℝ → ℝ × List ℝ) (x0 : List ℝ) (total : ℝ) (iters : Nat) :
    emd lossgrad x0 total 0 iters =
      ((List.range iters).foldl
        (fun s _ => emdStep lossgrad total (x0.map (fun x => x * total / x0.sum)) s)
        ⟨x0.map (fun x => Real.log (x + 0) + Real.log total - Real.log x0.sum),
          (lossgrad (x0.map (fun x => x * total / x0.sum))).1,
          (lossgrad (x0.map (fun x => x * total / x0.sum))).2, 1, false⟩).logP.map Real.exp := by
  unfold emd
  simp only [vsum, r_sum, r_add, r_sub, r_log, r_mul, r_div, r_one, r_exp_fun]

/-- the proposed point on two records, in exp space -/
theorem Qpt_two (total pa pb u v : ℝ) (s : EmdState ℝ) (ht : 0 < total)
    (h1 : s.logP.map Real.exp = [pa, pb]) (h2 : center s.dL = [u, v]) :
    Qpt total s =
      [total * (pa * Real.exp (-(s.alpha * u)))
          / (pa * Real.exp (-(s.alpha * u)) + pb * Real.exp (-(s.alpha * v))),
       total * (pb * Real.exp (-(s.alpha * v)))
          / (pa * Real.exp (-(s.alpha * u)) + pb * Real.exp (-(s.alpha * v)))] := by
  obtain ⟨a, b, hab, rfl, rfl⟩ : ∃ a b, s.logP = [a, b] ∧ Real.exp a = pa ∧ Real.exp b = pb := by
    match hs : s.logP, h1 with
    | [a, b], h1 =>
      simp only [List.map_cons, List.map_nil, List.cons.injEq, and_true] at h1
      exact ⟨a, b, rfl, h1.1, h1.2⟩
  have hZ : 0 < Real.exp a * Real.exp (-(s.alpha * u)) + Real.exp b * Real.exp (-(s.alpha * v)) := by
    positivity
  have e : Real.exp (a - s.alpha * u) + (Real.exp (b - s.alpha * v) + 0)
      = Real.exp a * Real.exp (-(s.alpha * u)) + Real.exp b * Real.exp (-(s.alpha * v)) := by
    rw [sub_eq_add_neg, sub_eq_add_neg, Real.exp_add, Real.exp_add]; ring
  simp only [Qpt, logQ, logQ0, hab, h2, List.zipWith_cons_cons, List.zipWith_nil_right,
    List.map_cons, List.map_nil, List.sum_cons, List.sum_nil, e]
  rw [Real.exp_add, Real.exp_add, Real.exp_sub (Real.log total), Real.exp_log ht, Real.exp_log hZ,
    sub_eq_add_neg, sub_eq_add_neg, Real.exp_add, Real.exp_add]
  congr 1
  · ring
  · congr 1; ring

/-- the objective of the example -/
noncomputable def exLG (w : List ℝ) : ℝ × List ℝ :=
  if w = [1, 1] then (3, [Real.log 4, -Real.log 4])
  else if w = [2 / 17, 32 / 17] then (0, [-(Real.log 2 / 2), Real.log 2 / 2])
  else (1 / 4, w.map (fun _ => 0))

theorem exLG_gradlen : GradLen exLG := by
  intro w
  unfold exLG
  split_ifs with h1 h2
  · rw [h1]; rfl
  · rw [h2]; rfl
  · simp

theorem exLG_a : exLG [1, 1] = (3, [Real.log 4, -Real.log 4]) := by
  unfold exLG; rw [if_pos rfl]

theorem exLG_b : exLG [2 / 17, 32 / 17] = (0, [-(Real.log 2 / 2), Real.log 2 / 2]) := by
  unfold exLG
  rw [if_neg (by norm_num), if_pos rfl]

theorem exLG_c : exLG [2 / 5, 8 / 5] = (1 / 4, [0, 0]) := by
  unfold exLG
  rw [if_neg (by norm_num), if_neg (by norm_num)]
  rfl

theorem center_pm (u : ℝ) : center [u, -u] = [u, -u] := by
  rw [r_center]; simp

theorem center_mp (u : ℝ) : center [-u, u] = [-u, u] := by
  rw [r_center]; simp

/-- the state before iteration 1 -/
noncomputable def exS0 : EmdState ℝ := ⟨[0, 0], 3, [Real.log 4, -Real.log 4], 1, false⟩
/-- the state before iteration 2 -/
noncomputable def exS1 : EmdState ℝ :=
  ⟨logQ 2 exS0, 0, [-(Real.log 2 / 2), Real.log 2 / 2], 2, false⟩
/-- the state after iteration 2 -/
noncomputable def exS2 : EmdState ℝ := ⟨logQ 2 exS1, 1 / 4, [0, 0], 4, false⟩

theorem exQ1 : Qpt 2 exS0 = [2 / 17, 32 / 17] := by
  rw [Qpt_two 2 1 1 (Real.log 4) (-Real.log 4) exS0 (by norm_num) (by simp [exS0])
    (by simp only [exS0]; exact center_pm _)]
  have e1 : Real.exp (-(exS0.alpha * Real.log 4)) = 1 / 4 := by
    simp only [exS0, one_mul]
    rw [Real.exp_neg, Real.exp_log (by norm_num)]; norm_num
  have e2 : Real.exp (-(exS0.alpha * -Real.log 4)) = 4 := by
    simp only [exS0, one_mul, neg_neg]
    rw [Real.exp_log (by norm_num)]
  rw [e1, e2]; norm_num

theorem exS1_exp : exS1.logP.map Real.exp = [2 / 17, 32 / 17] := exQ1

theorem exQ2 : Qpt 2 exS1 = [2 / 5, 8 / 5] := by
  rw [Qpt_two 2 (2 / 17) (32 / 17) (-(Real.log 2 / 2)) (Real.log 2 / 2) exS1 (by norm_num) exS1_exp
    (by simp only [exS1]; exact center_mp _)]
  have e1 : Real.exp (-(exS1.alpha * -(Real.log 2 / 2))) = 2 := by
    have : -(exS1.alpha * -(Real.log 2 / 2)) = Real.log 2 := by simp only [exS1]; ring
    rw [this, Real.exp_log (by norm_num)]
  have e2 : Real.exp (-(exS1.alpha * (Real.log 2 / 2))) = 1 / 2 := by
    have : -(exS1.alpha * (Real.log 2 / 2)) = -Real.log 2 := by simp only [exS1]; ring
    rw [this, Real.exp_neg, Real.exp_log (by norm_num)]; norm_num
  rw [e1, e2]; norm_num

theorem log4_le : Real.log 4 ≤ 3 := by
  have := Real.log_le_sub_one_of_pos (show (0 : ℝ) < 4 by norm_num)
  linarith

theorem log2_ge : (1 / 2 : ℝ) ≤ Real.log 2 := by
  have := Real.one_sub_inv_le_log_of_pos (show (0 : ℝ) < 2 by norm_num)
  norm_num at this ⊢
  linarith

theorem exThr1 : thr 2 [1, 1] exS0 = 15 / 17 * Real.log 4 := by
  unfold thr
  rw [exQ1]
  simp only [exS0, center_pm, dotv_eq, List.zipWith_cons_cons, List.zipWith_nil_right,
    List.sum_cons, List.sum_nil]
  ring

theorem exThr2 : thr 2 [1, 1] exS1 = -(3 / 5 * Real.log 2) := by
  unfold thr
  rw [exQ2]
  simp only [exS1, center_mp, dotv_eq, List.zipWith_cons_cons, List.zipWith_nil_right,
    List.sum_cons, List.sum_nil]
  ring

theorem exStep1 : emdStep exLG 2 [1, 1] exS0 = exS1 := by
  rw [emdStep_accept]
  · rw [exQ1, exLG_b]
    simp only [exS1, exS0, Bool.false_eq_true, if_false, one_mul]
  · rw [exThr1, exQ1, exLG_b]
    have := log4_le
    simp only [exS0]
    linarith

theorem exStep2 : emdStep exLG 2 [1, 1] exS1 = exS2 := by
  rw [emdStep_accept]
  · rw [exQ2, exLG_c]
    simp only [exS2, exS1, exS0, Bool.false_eq_true, if_false]
    norm_num
  · rw [exThr2, exQ2, exLG_c]
    have := log2_ge
    simp only [exS1]
    linarith

theorem exInit :
    (⟨[1, 1].map (fun x => Real.log (x + 0) + Real.log 2 - Real.log ([1, 1] : List ℝ).sum),
      (exLG (([1, 1] : List ℝ).map (fun x => x * 2 / ([1, 1] : List ℝ).sum))).1,
      (exLG (([1, 1] : List ℝ).map (fun x => x * 2 / ([1, 1] : List ℝ).sum))).2, 1, false⟩ : EmdState ℝ)
      = exS0 := by
  have h1 : ([1, 1] : List ℝ).map (fun x => x * 2 / ([1, 1] : List ℝ).sum) = [1, 1] := by
    norm_num
  have h2 : ([1, 1] : List ℝ).map
      (fun x => Real.log (x + 0) + Real.log 2 - Real.log ([1, 1] : List ℝ).sum) = [0, 0] := by
    norm_num
  rw [h1, h2, exLG_a]; rfl

theorem exP0 : ([1, 1] : List ℝ).map (fun x => x * 2 / ([1, 1] : List ℝ).sum) = [1, 1] := by
  norm_num

/-- the example run, explicitly: the weights after 0, 1, 2 iterations -/
theorem emd_example_run :
    emd exLG [1, 1] 2 0 0 = [1, 1] ∧ emd exLG [1, 1] 2 0 1 = [2 / 17, 32 / 17] ∧
    emd exLG [1, 1] 2 0 2 = [2 / 5, 8 / 5] := by
  refine ⟨?_, ?_, ?_⟩
  · rw [emd_zero_iters exLG [1, 1] 2 (by simp) (by simp) (by norm_num)]; exact exP0
  · rw [emd_unfold, exInit, exP0]
    simp only [List.range_one, List.foldl_cons, List.foldl_nil, exStep1]
    exact exS1_exp
  · rw [emd_unfold, exInit, exP0]
    have : List.range 2 = [0, 1] := by decide
    simp only [this, List.foldl_cons, List.foldl_nil, exStep1, exStep2]
    exact exQ2

/-- **an accepted step can increase the loss**: there is an objective (returning one gradient entry
per weight), positive starting weights and a total for which the objective after two iterations is
strictly larger than after one — so `emd_never_worse_than_start` is not a consequence of per-step
descent -/
theorem emd_step_may_increase :
    ∃ (lossgrad : List ℝ → ℝ × List ℝ) (x0 : List ℝ) (total : ℝ),
      GradLen lossgrad ∧ (∀ x ∈ x0, 0 < x) ∧ x0 ≠ [] ∧ 0 < total ∧
      (lossgrad (emd lossgrad x0 total 0 1)).1 < (lossgrad (emd lossgrad x0 total 0 2)).1 := by
  refine ⟨exLG, [1, 1], 2, exLG_gradlen, by simp, by simp, by norm_num, ?_⟩
  rw [emd_example_run.2.1, emd_example_run.2.2, exLG_b, exLG_c]
  norm_num

/-- the same at the level of one step: a state satisfying every loop invariant (shape, mass, stored
loss and gradient consistent, positive step size) from which `emdStep` accepts (the point moves) and
the stored loss strictly increases -/
theorem emd_step_may_increase_state :
    ∃ (lossgrad : List ℝ → ℝ × List ℝ) (total : ℝ) (P0 : List ℝ) (s : EmdState ℝ),
      GradLen lossgrad ∧ Inv P0.length total s ∧ P0.sum = total ∧ (∀ x ∈ P0, 0 < x) ∧
      Consistent lossgrad s ∧ 0 < s.alpha ∧
      (emdStep lossgrad total P0 s).logP.map Real.exp ≠ s.logP.map Real.exp ∧
      s.loss < (emdStep lossgrad total P0 s).loss := by
  refine ⟨exLG, 2, [1, 1], exS1, exLG_gradlen, ⟨?_, rfl, ?_⟩, by norm_num, by simp, ⟨?_, ?_⟩, ?_, ?_, ?_⟩
  · exact logQ_length 2 exS0 2 rfl rfl
  · rw [exS1_exp]; norm_num
  · rw [exS1_exp, exLG_b]; rfl
  · rw [exS1_exp, exLG_b]; rfl
  · simp [exS1]
  · rw [exStep2, exS1_exp]
    show Qpt 2 exS1 ≠ _
    rw [exQ2]; norm_num
  · rw [exStep2]; simp only [exS1, exS2]; norm_num

end PGM.Public
