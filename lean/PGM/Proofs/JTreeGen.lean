import PGM.Generated.JunctionTreeG
import PGM.Proofs.JTree
import PGM.Proofs.JTExistsDefs
import Mathlib.Data.List.Nodup
import Mathlib.Data.List.Perm.Basic
/-!
# Helper lemmas for `Properties/C12G.lean` (1): Python sets as lists, `_make_graph`, `_triangulated`

The regenerated definitions (`PGM.JTG.*`, written by `tools/py2jt.py`) are tied to the hand model
`Model/JTree.lean`.
-/
namespace PGM.JT

/-! ## Python sets as lists -/

section sets
variable {α : Type} [BEq α] [LawfulBEq α]

theorem mem_setAdd {s : List α} {x y : α} : y ∈ setAdd s x ↔ y ∈ s ∨ y = x := by
  unfold setAdd
  split
  · rename_i h
    have hx : x ∈ s := by simpa using h
    constructor
    · exact Or.inl
    · rintro (h | rfl)
      · exact h
      · exact hx
  · simp

theorem mem_setUnion {xs s : List α} {y : α} : y ∈ setUnion s xs ↔ y ∈ s ∨ y ∈ xs := by
  unfold setUnion
  induction xs generalizing s with
  | nil => simp
  | cons x xs ih =>
    simp only [List.foldl_cons, ih, mem_setAdd, List.mem_cons]
    constructor
    · rintro ((h | h) | h)
      · exact Or.inl h
      · exact Or.inr (Or.inl h)
      · exact Or.inr (Or.inr h)
    · rintro (h | h | h)
      · exact Or.inl (Or.inl h)
      · exact Or.inl (Or.inr h)
      · exact Or.inr h

theorem mem_toSet {xs : List α} {y : α} : y ∈ toSet xs ↔ y ∈ xs := by
  simp [toSet, mem_setUnion]

theorem mem_setDiff {s r : List α} {y : α} : y ∈ setDiff s r ↔ y ∈ s ∧ y ∉ r := by
  simp [setDiff]

theorem nodup_setAdd {s : List α} {x : α} (h : s.Nodup) : (setAdd s x).Nodup := by
  unfold setAdd
  split
  · exact h
  · rename_i hx
    have hx' : x ∉ s := by simpa using hx
    exact List.nodup_append.2 ⟨h, by simp, by
      intro a ha b hb
      simp at hb
      subst hb
      exact fun e => hx' (e ▸ ha)⟩

theorem nodup_setUnion {xs s : List α} (h : s.Nodup) : (setUnion s xs).Nodup := by
  unfold setUnion
  induction xs generalizing s with
  | nil => exact h
  | cons x xs ih => exact ih (nodup_setAdd h)

theorem nodup_toSet {xs : List α} : (toSet xs).Nodup := nodup_setUnion List.nodup_nil

/-- on a duplicate-free list disjoint from the set, set union is concatenation -/
theorem setUnion_eq_append {xs s : List α} (h : (s ++ xs).Nodup) : setUnion s xs = s ++ xs := by
  unfold setUnion
  induction xs generalizing s with
  | nil => simp
  | cons x xs ih =>
    have hx : x ∉ s := by
      intro hx
      have := List.nodup_append.1 h
      exact this.2.2 x hx x (by simp) rfl
    have hs : setAdd s x = s ++ [x] := by
      unfold setAdd
      simp [hx]
    simp only [List.foldl_cons, hs]
    rw [ih (by simpa using h)]
    simp

theorem toSet_of_nodup {xs : List α} (h : xs.Nodup) : toSet xs = xs := by
  unfold toSet
  rw [setUnion_eq_append (by simpa using h)]
  rfl

theorem setAdd_of_mem {s : List α} {x : α} (h : x ∈ s) : setAdd s x = s := by
  unfold setAdd
  simp [h]

/-- adding members changes nothing -/
theorem setUnion_of_subset {xs s : List α} (h : ∀ x ∈ xs, x ∈ s) : setUnion s xs = s := by
  unfold setUnion
  induction xs with
  | nil => rfl
  | cons x xs ih =>
    simp only [List.foldl_cons]
    rw [setAdd_of_mem (h x (by simp))]
    exact ih (fun y hy => h y (by simp [hy]))

end sets

theorem combinations2_eq_pairs (l : List Attr) : combinations2 l = pairs l := by
  induction l with
  | nil => rfl
  | cons x xs ih => simp [combinations2, pairs, ih]

theorem mem_combinations2 {α : Type} {l : List α} {a b : α} (h : (a, b) ∈ combinations2 l) :
    a ∈ l ∧ b ∈ l := by
  induction l with
  | nil => simp [combinations2] at h
  | cons x xs ih =>
    simp only [combinations2, List.mem_append, List.mem_map] at h
    rcases h with ⟨y, hy, he⟩ | h
    · cases he; exact ⟨by simp, by simp [hy]⟩
    · have := ih h; exact ⟨by simp [this.1], by simp [this.2]⟩

theorem combinations2_complete {α : Type} {l : List α} {a b : α} (ha : a ∈ l) (hb : b ∈ l)
    (hab : a ≠ b) : (a, b) ∈ combinations2 l ∨ (b, a) ∈ combinations2 l := by
  induction l with
  | nil => simp at ha
  | cons x xs ih =>
    simp only [combinations2, List.mem_append, List.mem_map]
    rcases List.mem_cons.1 ha with rfl | ha'
    · rcases List.mem_cons.1 hb with rfl | hb'
      · exact absurd rfl hab
      · exact Or.inl (Or.inl ⟨b, hb', rfl⟩)
    · rcases List.mem_cons.1 hb with rfl | hb'
      · exact Or.inr (Or.inl ⟨a, ha', rfl⟩)
      · rcases ih ha' hb' with h | h
        · exact Or.inl (Or.inr h)
        · exact Or.inr (Or.inr h)

/-! ## `_make_graph` -/

theorem addNodes_empty (attrs : List Attr) (h : attrs.Nodup) :
    Graph.addNodes Graph.empty attrs = { nodes := attrs, edges := [] } := by
  unfold Graph.addNodes Graph.empty
  simp only
  rw [show setUnion ([] : List Attr) attrs = toSet attrs from rfl, toSet_of_nodup h]

theorem gen_make_graph (d : Dom) (cliques : List Clique) (hnd : d.attrs.Nodup) :
    JTG.make_graph d cliques = makeGraph d.attrs cliques := by
  unfold JTG.make_graph makeGraph
  simp only [addNodes_empty _ hnd, combinations2_eq_pairs]

/-! ## `_triangulated`: the elimination loop -/

/-- same nodes, same adjacency (the edge *lists* may differ: Python keeps a set of pairs, the hand
model only the new fill-in edges) -/
def GEq (g g' : Graph) : Prop := g.nodes = g'.nodes ∧ ∀ a b, g.adj a b = g'.adj a b

theorem GEq.refl (g : Graph) : GEq g g := ⟨rfl, fun _ _ => rfl⟩

theorem GEq.nbrs {g g' : Graph} (h : GEq g g') (v : Attr) : g.nbrs v = g'.nbrs v := by
  unfold Graph.nbrs
  rw [h.1]
  congr 1
  funext b
  exact h.2 v b

theorem GEq.addEdges {g g' : Graph} (h : GEq g g') {es es' : List (Attr × Attr)}
    (he : ∀ e, e ∈ es ↔ e ∈ es') : GEq (g.addEdges es) (g'.addEdges es') := by
  refine ⟨h.1, fun a b => ?_⟩
  rw [Bool.eq_iff_iff, adj_addEdges, adj_addEdges, h.2 a b, he, he]

theorem GEq.removeNode {g g' : Graph} (h : GEq g g') (v : Attr) :
    GEq (g.removeNode v) (g'.removeNode v) := by
  refine ⟨by simp [Graph.removeNode, h.1], fun a b => ?_⟩
  rw [Bool.eq_iff_iff, adj_removeNode, adj_removeNode, h.2 a b]

/-- one iteration of the loop of `_triangulated`, as generated -/
def genTriStep (s : List (Attr × Attr) × Graph) (node : Attr) : List (Attr × Attr) × Graph :=
  (setUnion s.1 (toSet (combinations2 (s.2.nbrs node))),
    (s.2.addEdges (toSet (combinations2 (s.2.nbrs node)))).removeNode node)

/-- every pair the loop ever passes to `add_edges_from` (the hand model keeps only the new ones) -/
def allTmp (g : Graph) : List Attr → List (Attr × Attr)
  | [] => []
  | v :: rest => pairs (g.nbrs v) ++ allTmp ((g.addEdges (pairs (g.nbrs v))).removeNode v) rest

theorem genTriFold_mem (order : List Attr) : ∀ (E : List (Attr × Attr)) (g g' : Graph), GEq g g' →
    ∀ e, e ∈ (order.foldl genTriStep (E, g)).1 ↔ e ∈ E ∨ e ∈ allTmp g' order := by
  induction order with
  | nil => intro E g g' _ e; simp [allTmp]
  | cons v rest ih =>
    intro E g g' h e
    have hn := h.nbrs v
    have h1 : GEq ((g.addEdges (toSet (combinations2 (g.nbrs v)))).removeNode v)
        ((g'.addEdges (pairs (g'.nbrs v))).removeNode v) := by
      apply GEq.removeNode
      apply h.addEdges
      intro e
      rw [mem_toSet, combinations2_eq_pairs, hn]
    have := ih (setUnion E (toSet (combinations2 (g.nbrs v)))) _ _ h1 e
    simp only [List.foldl_cons]
    rw [show genTriStep (E, g) v = (setUnion E (toSet (combinations2 (g.nbrs v))),
      (g.addEdges (toSet (combinations2 (g.nbrs v)))).removeNode v) from rfl, this, mem_setUnion, mem_toSet,
      combinations2_eq_pairs, hn]
    simp only [allTmp, List.mem_append]
    tauto

/-- adjacency with all the pairs of `allTmp` added -/
def TAll (g : Graph) (order : List Attr) (a b : Attr) : Prop :=
  g.adj a b = true ∨ (a ≠ b ∧ ((a, b) ∈ allTmp g order ∨ (b, a) ∈ allTmp g order))

theorem adj_after_step (g : Graph) (v a b : Attr)
    (h : ((g.addEdges (pairs (g.nbrs v))).removeNode v).adj a b = true) :
    g.adj a b = true ∨ (a ≠ b ∧ ((a, b) ∈ pairs (g.nbrs v) ∨ (b, a) ∈ pairs (g.nbrs v))) := by
  rw [adj_removeNode, adj_addEdges] at h
  exact h.1

theorem tmp_new (g : Graph) (v a b : Attr) (_hab : a ≠ b)
    (h : (a, b) ∈ pairs (g.nbrs v) ∨ (b, a) ∈ pairs (g.nbrs v)) (hg : ¬ g.adj a b = true) :
    (a, b) ∈ (pairs (g.nbrs v)).filter (fun e => !g.adj e.1 e.2) ∨
      (b, a) ∈ (pairs (g.nbrs v)).filter (fun e => !g.adj e.1 e.2) := by
  have hg1 : g.adj a b = false := by simpa using hg
  have hg2 : g.adj b a = false := by rw [adj_symm]; exact hg1
  rcases h with h | h
  · exact Or.inl (by simp [h, hg1])
  · exact Or.inr (by simp [h, hg2])

/-- the set of pairs kept by Python and the fill-in edges of the hand model give the same adjacency -/
theorem TAll_iff_TA (order : List Attr) : ∀ (g : Graph) (a b : Attr), TAll g order a b ↔ TA g order a b := by
  induction order with
  | nil => intro g a b; simp [TAll, TA, allTmp, fillIn]
  | cons v rest ih =>
    intro g a b
    unfold TAll TA
    simp only [allTmp, fillIn, List.mem_append]
    constructor
    · rintro (h | ⟨hab, h⟩)
      · exact Or.inl h
      · by_cases hg : g.adj a b = true
        · exact Or.inl hg
        · right
          refine ⟨hab, ?_⟩
          have key : ∀ (X Y : Prop), (a, b) ∈ pairs (g.nbrs v) ∨ (b, a) ∈ pairs (g.nbrs v) →
              ((a, b) ∈ (pairs (g.nbrs v)).filter (fun e => !g.adj e.1 e.2) ∨ X) ∨
              ((b, a) ∈ (pairs (g.nbrs v)).filter (fun e => !g.adj e.1 e.2) ∨ Y) := by
            intro X Y h'
            rcases tmp_new g v a b hab h' hg with h'' | h''
            · exact Or.inl (Or.inl h'')
            · exact Or.inr (Or.inl h'')
          have hrest : TAll ((g.addEdges (pairs (g.nbrs v))).removeNode v) rest a b →
              ((a, b) ∈ (pairs (g.nbrs v)).filter (fun e => !g.adj e.1 e.2) ∨
                (a, b) ∈ fillIn ((g.addEdges (pairs (g.nbrs v))).removeNode v) rest) ∨
              ((b, a) ∈ (pairs (g.nbrs v)).filter (fun e => !g.adj e.1 e.2) ∨
                (b, a) ∈ fillIn ((g.addEdges (pairs (g.nbrs v))).removeNode v) rest) := by
            intro ht
            rcases (ih _ a b).1 ht with h1 | ⟨_, h1 | h1⟩
            · rcases adj_after_step g v a b h1 with h2 | ⟨_, h2⟩
              · exact absurd h2 hg
              · exact key _ _ h2
            · exact Or.inl (Or.inr h1)
            · exact Or.inr (Or.inr h1)
          rcases h with (h | h) | (h | h)
          · exact key _ _ (Or.inl h)
          · exact hrest (Or.inr ⟨hab, Or.inl h⟩)
          · exact key _ _ (Or.inr h)
          · exact hrest (Or.inr ⟨hab, Or.inr h⟩)
    · rintro (h | ⟨hab, h⟩)
      · exact Or.inl h
      · by_cases hg : g.adj a b = true
        · exact Or.inl hg
        · right
          refine ⟨hab, ?_⟩
          have hrest : TA ((g.addEdges (pairs (g.nbrs v))).removeNode v) rest a b →
              ((a, b) ∈ pairs (g.nbrs v) ∨ (a, b) ∈ allTmp ((g.addEdges (pairs (g.nbrs v))).removeNode v) rest) ∨
              ((b, a) ∈ pairs (g.nbrs v) ∨ (b, a) ∈ allTmp ((g.addEdges (pairs (g.nbrs v))).removeNode v) rest) := by
            intro ht
            rcases (ih _ a b).2 ht with h1 | ⟨_, h1 | h1⟩
            · rcases adj_after_step g v a b h1 with h2 | ⟨_, h2 | h2⟩
              · exact absurd h2 hg
              · exact Or.inl (Or.inl h2)
              · exact Or.inr (Or.inl h2)
            · exact Or.inl (Or.inr h1)
            · exact Or.inr (Or.inr h1)
          rcases h with (h | h) | (h | h)
          · exact Or.inl (Or.inl (List.mem_filter.1 h).1)
          · exact hrest (Or.inr ⟨hab, Or.inl h⟩)
          · exact Or.inr (Or.inl (List.mem_filter.1 h).1)
          · exact hrest (Or.inr ⟨hab, Or.inr h⟩)

/-- the graph component of `_triangulated`, unfolded -/
theorem gen_triangulated_fst (fc : Graph → List Clique) (d : Dom) (g : Graph) (order : List Attr) :
    (JTG.triangulated fc d g order).1 = g.addEdges (order.foldl genTriStep ([], g)).1 := rfl

/-- **`_triangulated` builds the graph of the hand model** (same nodes, same adjacency) -/
theorem gen_triangulated_geq (fc : Graph → List Clique) (d : Dom) (g : Graph) (order : List Attr) :
    GEq (JTG.triangulated fc d g order).1 (triangulate g order) := by
  rw [gen_triangulated_fst]
  refine ⟨rfl, fun a b => ?_⟩
  rw [Bool.eq_iff_iff, triangulate_adj, ← TAll_iff_TA, adj_addEdges]
  unfold TAll
  rw [genTriFold_mem order [] g g (GEq.refl g), genTriFold_mem order [] g g (GEq.refl g)]
  simp

/-- cliques and maximal-clique families only depend on nodes and adjacency -/
theorem IsClique.congr {g g' : Graph} (h : GEq g g') {c : Clique} (hc : IsClique g c) : IsClique g' c :=
  ⟨hc.1, fun a ha => h.1 ▸ hc.2.1 a ha, fun a ha b hb hab => by rw [← h.2]; exact hc.2.2 a ha b hb hab⟩

theorem GEq.symm {g g' : Graph} (h : GEq g g') : GEq g' g := ⟨h.1.symm, fun a b => (h.2 a b).symm⟩

theorem IsMaxCliqueFamily.congr {g g' : Graph} (h : GEq g g') {nodes : List Clique}
    (hf : IsMaxCliqueFamily g nodes) : IsMaxCliqueFamily g' nodes where
  clique n hn := ⟨IsClique.congr h (hf.clique n hn).1, (hf.clique n hn).2⟩
  maximal n hn v hv hvn := by
    obtain ⟨a, ha, hadj⟩ := hf.maximal n hn v (h.1 ▸ hv) hvn
    exact ⟨a, ha, by rw [← h.2]; exact hadj⟩
  complete c hc := hf.complete c (IsClique.congr h.symm hc)
  distinct := hf.distinct

end PGM.JT
