import PGM.Model.Factor
import PGM.Proofs.NdArr
/-! helper lemmas and the semantic (`sem`) characterisation of every factor operation -/
namespace PGM.Factor
variable {α : Type} [Scalar α]

theorem sem_expand (f : Factor α) (D : Dom) (σ : Attr → Nat)
    (hf : f.WF) (hD : D.WF) (hc : D.contains f.dom = true) (ha : f.dom.Agrees D) (hσ : D.Valid σ) :
    (f.expand D).sem σ = f.sem σ := by
  sorry

theorem expand_WF (f : Factor α) (D : Dom)
    (hf : f.WF) (hD : D.WF) (hc : D.contains f.dom = true) (ha : f.dom.Agrees D) :
    (f.expand D).WF := by
  sorry

theorem sem_transpose (f : Factor α) (as : List Attr) (σ : Attr → Nat)
    (hf : f.WF) (hp : as.Perm f.dom.attrs) (hσ : f.dom.Valid σ) :
    (f.transpose as).sem σ = f.sem σ := by
  sorry

theorem transpose_attrs (f : Factor α) (as : List Attr) : (f.transpose as).dom.attrs = as := by
  sorry

theorem transpose_WF (f : Factor α) (as : List Attr) (hf : f.WF) (hp : as.Perm f.dom.attrs) :
    (f.transpose as).WF := by
  sorry

theorem sem_binop (op : α → α → α) (f g : Factor α) (σ : Attr → Nat)
    (hf : f.WF) (hg : g.WF) (hcompat : f.dom.Compatible g.dom) (hσ : (f.dom.merge g.dom).Valid σ) :
    (binop op f g).sem σ = op (f.sem σ) (g.sem σ) := by
  sorry

theorem binop_WF (op : α → α → α) (f g : Factor α)
    (hf : f.WF) (hg : g.WF) (hcompat : f.dom.Compatible g.dom) : (binop op f g).WF := by
  sorry

theorem sem_sub (f g : Factor α) (σ : Attr → Nat)
    (hf : f.WF) (hg : g.WF) (hcompat : f.dom.Compatible g.dom) (hσ : (f.dom.merge g.dom).Valid σ) :
    (f.sub g).sem σ = Scalar.add (f.sem σ) (negInfAware (g.sem σ)) := by
  sorry

theorem sem_div (f g : Factor α) (σ : Attr → Nat)
    (hf : f.WF) (hg : g.WF) (hc : f.dom.contains g.dom = true) (ha : g.dom.Agrees f.dom)
    (hσ : f.dom.Valid σ) :
    (f.divF g).sem σ = safeDiv (f.sem σ) (g.sem σ) := by
  sorry

theorem sem_iop (op : α → α → α) (f g : Factor α) (σ : Attr → Nat)
    (hf : f.WF) (hg : g.WF) (hc : f.dom.contains g.dom = true) (ha : g.dom.Agrees f.dom)
    (hσ : f.dom.Valid σ) :
    (iop op f g).sem σ = op (f.sem σ) (g.sem σ) := by
  sorry

theorem iop_eq_binop (op : α → α → α) (f g : Factor α) (σ : Attr → Nat)
    (hf : f.WF) (hg : g.WF) (hc : f.dom.contains g.dom = true) (ha : g.dom.Agrees f.dom)
    (hσ : f.dom.Valid σ) :
    (iop op f g).sem σ = (binop op f g).sem σ ∧ (iop op f g).dom = (binop op f g).dom := by
  sorry

theorem sem_reduce (r : List α → α) (f : Factor α) (as : List Attr) (σ : Attr → Nat)
    (hf : f.WF) (hσ : f.dom.Valid σ) :
    (reduce r f as).sem σ
      = r ((cells ((f.dom.removed as).map f.dom.cfg)).map
            (fun v => f.sem (Dom.override σ (f.dom.removed as) v))) := by
  sorry

theorem reduce_attrs (r : List α → α) (f : Factor α) (as : List Attr) :
    (reduce r f as).dom.attrs = f.dom.invert as := by
  sorry

theorem project_attrs (r : List α → α) (f : Factor α) (as : List Attr) :
    (project r f as).dom.attrs = as := by
  sorry

theorem sem_project (r : List α → α) (f : Factor α) (as : List Attr) (σ : Attr → Nat)
    (hf : f.WF) (has : as.Nodup) (hsub : ∀ a ∈ as, a ∈ f.dom.attrs) (hσ : f.dom.Valid σ) :
    (project r f as).sem σ
      = r ((cells ((f.dom.invert as).map f.dom.cfg)).map
            (fun v => f.sem (Dom.override σ (f.dom.invert as) v))) := by
  sorry

theorem sem_condition (f : Factor α) (ev : List (Attr × Nat)) (σ : Attr → Nat)
    (hf : f.WF) (hev : ∀ p ∈ ev, p.1 ∈ f.dom.attrs ∧ p.2 < f.dom.cfg p.1) (hσ : f.dom.Valid σ) :
    (f.condition ev).sem σ = f.sem (fun a => (ev.lookup a).getD (σ a)) := by
  sorry

end PGM.Factor
