import PGM.Model.Factor
import PGM.Proofs.NdArr
/-! helper lemmas and the semantic (`sem`) characterisation of every factor operation -/
namespace PGM.Factor
variable {α : Type} [Scalar α]
set_option linter.unusedSectionVars false
set_option linter.unusedVariables false

/-! ### the common core of `expand` and `transpose`: moving the axes of `A` to their positions
in `E` (the remaining `d` positions of `E` receive extent-1 axes) -/
section core
variable (a : NdArr α) (A E : List Attr) (c : Attr → Nat) (d : Nat)
  (hs : a.shape = A.map c ++ List.replicate d 1)
  (hA : A.Nodup) (hE : E.Nodup) (hsub : ∀ x ∈ A, x ∈ E) (hlen : E.length = A.length + d)
include hs hA hE hsub hlen

theorem core_ax_nodup : (A.map (fun x => E.idxOf x)).Nodup :=
  nodup_map_of_inj_on A _ hA (fun x hx y hy h => idxOf_inj E x y (hsub x hx) (hsub y hy) h)

theorem core_ax_lt : ∀ p ∈ A.map (fun x => E.idxOf x), p < (A.map c).length + d := by
  intro p hp
  obtain ⟨x, hx, rfl⟩ := List.mem_map.mp hp
  have := List.idxOf_lt_length_iff.mpr (hsub x hx)
  simp only [List.length_map]
  omega

theorem core_mem_ax_iff (x : Attr) (hx : x ∈ E) :
    E.idxOf x ∈ A.map (fun x => E.idxOf x) ↔ x ∈ A := by
  constructor
  · intro h
    obtain ⟨y, hy, hxy⟩ := List.mem_map.mp h
    have := idxOf_inj E y x (hsub y hy) hx hxy
    exact this ▸ hy
  · intro h
    exact List.mem_map.mpr ⟨x, h, rfl⟩

theorem core_shape_getD (x : Attr) (hx : x ∈ E) :
    (a.moveaxis (List.range (A.map (fun x => E.idxOf x)).length) (A.map (fun x => E.idxOf x))).shape.getD
        (E.idxOf x) 0 = if x ∈ A then c x else 1 := by
  have hnd := core_ax_nodup a A E c d hs hA hE hsub hlen
  have hlt := core_ax_lt a A E c d hs hA hE hsub hlen
  have hk : (A.map (fun x => E.idxOf x)).length = (A.map c).length := by simp
  by_cases hxa : x ∈ A
  · rw [if_pos hxa]
    rw [NdArr.moveaxis_ones_shape_mem a (A.map c) d _ hs hnd hlt hk _
      ((core_mem_ax_iff a A E c d hs hA hE hsub hlen x hx).mpr hxa)]
    rw [idxOf_map_of_inj A (fun x => E.idxOf x) x
      (fun y hy h => idxOf_inj E y x (hsub y hy) hx h)]
    exact getD_map_idxOf A c 0 x hxa
  · rw [if_neg hxa]
    apply NdArr.moveaxis_ones_shape_not_mem a (A.map c) d _ hs hnd hlt hk
    · have := List.idxOf_lt_length_iff.mpr hx
      simp only [List.length_map]; omega
    · exact fun h => hxa ((core_mem_ax_iff a A E c d hs hA hE hsub hlen x hx).mp h)

theorem core_shape :
    (a.moveaxis (List.range (A.map (fun x => E.idxOf x)).length) (A.map (fun x => E.idxOf x))).shape
      = E.map (fun x => if x ∈ A then c x else 1) := by
  have hnd := core_ax_nodup a A E c d hs hA hE hsub hlen
  have hlt := core_ax_lt a A E c d hs hA hE hsub hlen
  have hk : (A.map (fun x => E.idxOf x)).length = (A.map c).length := by simp
  have hl := NdArr.moveaxis_ones_shape_length a (A.map c) d _ hs hnd hlt hk
  apply List.ext_getElem
  · rw [hl]; simp [hlen]
  · intro i h1 h2
    have hi : i < E.length := by simpa using h2
    have := core_shape_getD a A E c d hs hA hE hsub hlen E[i] (List.getElem_mem hi)
    rw [hE.idxOf_getElem i hi, List.getD_eq_getElem?_getD, List.getElem?_eq_getElem h1] at this
    simpa using this

theorem core_get (τ : Attr → Nat) (h1 : ∀ x ∈ A, τ x < c x) (h0 : ∀ x ∈ E, x ∉ A → τ x = 0) :
    (a.moveaxis (List.range (A.map (fun x => E.idxOf x)).length) (A.map (fun x => E.idxOf x))).get
        (E.map τ) = a.data.getD (ravel (A.map c) (A.map τ)) default := by
  have hnd := core_ax_nodup a A E c d hs hA hE hsub hlen
  have hlt := core_ax_lt a A E c d hs hA hE hsub hlen
  have hk : (A.map (fun x => E.idxOf x)).length = (A.map c).length := by simp
  rw [NdArr.get_moveaxis_ones a (A.map c) d _ hs hnd hlt hk (E.map τ)]
  · congr 2
    rw [List.map_map]
    apply List.map_congr_left
    intro x hx
    exact getD_map_idxOf E τ 0 x (hsub x hx)
  · rw [core_shape a A E c d hs hA hE hsub hlen]
    apply NdArr.inRange_map
    intro x hx
    by_cases hxa : x ∈ A
    · rw [if_pos hxa]; exact h1 x hxa
    · rw [if_neg hxa, h0 x hx hxa]; exact Nat.one_pos
  · intro p hp hpa
    have hp' : p < E.length := by simp only [List.length_map] at hp; omega
    rw [List.getD_eq_getElem?_getD, List.getElem?_map, List.getElem?_eq_getElem hp']
    simp only [Option.map_some, Option.getD_some]
    apply h0 _ (List.getElem_mem hp')
    intro hxa
    apply hpa
    have := (core_mem_ax_iff a A E c d hs hA hE hsub hlen E[p] (List.getElem_mem hp')).mpr hxa
    rwa [hE.idxOf_getElem p hp'] at this

end core

theorem expand_vals (f : Factor α) (D : Dom) :
    (f.expand D).vals = NdArr.broadcastTo
      (NdArr.moveaxis (f.vals.reshape (f.dom.shape ++ List.replicate (D.length - f.dom.length) 1))
        (List.range (f.dom.attrs.map (fun x => D.attrs.idxOf x)).length)
        (f.dom.attrs.map (fun x => D.attrs.idxOf x))) D.shape := rfl

theorem length_le_of_contains (f : Factor α) (D : Dom) (hf : f.WF) (hc : D.contains f.dom = true) :
    D.attrs.length = f.dom.attrs.length + (D.length - f.dom.length) := by
  have hsub : ∀ x ∈ f.dom.attrs, x ∈ D.attrs := (Dom.contains_iff D f.dom).mp hc
  have hle : f.dom.attrs.length ≤ D.attrs.length := List.Nodup.length_le_of_subset hf.1 hsub
  simp only [Dom.length_attrs] at *
  omega

theorem sem_expand (f : Factor α) (D : Dom) (σ : Attr → Nat)
    (hf : f.WF) (hD : D.WF) (hc : D.contains f.dom = true) (ha : f.dom.Agrees D) (hσ : D.Valid σ) :
    (f.expand D).sem σ = f.sem σ := by
  have hlen := length_le_of_contains f D hf hc
  obtain ⟨hfd, hfs, hfw⟩ := hf
  have hsub : ∀ x ∈ f.dom.attrs, x ∈ D.attrs := (Dom.contains_iff D f.dom).mp hc
  have hag := (Dom.agrees_iff f.dom D hfd).mp ha
  have hval := (Dom.valid_iff D hD σ).mp hσ
  have hs : (f.vals.reshape (f.dom.shape ++ List.replicate (D.length - f.dom.length) 1)).shape
      = f.dom.attrs.map f.dom.cfg ++ List.replicate (D.length - f.dom.length) 1 := by
    rw [← Dom.shape_eq_map_cfg _ hfd]; rfl
  have hshape := core_shape _ f.dom.attrs D.attrs f.dom.cfg _ hs hfd hD hsub hlen
  have hdom : (f.expand D).dom = D := rfl
  unfold sem
  rw [expand_vals, hdom]
  unfold NdArr.broadcastTo
  rw [NdArr.get_ofFn _ _ _ (by
    rw [Dom.shape_eq_map_cfg D hD]; exact NdArr.inRange_map _ _ _ hval)]
  rw [hshape, zipWith_map_map]
  rw [core_get _ f.dom.attrs D.attrs f.dom.cfg _ hs hfd hD hsub hlen]
  · have hmap : f.dom.attrs.map (fun a => if (if a ∈ f.dom.attrs then f.dom.cfg a else 1) = 1 then 0 else σ a)
        = f.dom.attrs.map σ := by
      apply List.map_congr_left
      intro x hx
      have h1 := hval x (hsub x hx)
      rw [hag x hx] at h1
      simp only [if_pos hx]
      split
      · omega
      · rfl
    rw [hmap]
    unfold NdArr.get
    rw [hfs, Dom.shape_eq_map_cfg _ hfd]
    rfl
  · intro x hx
    have h1 := hval x (hsub x hx)
    rw [hag x hx] at h1
    simp only [if_pos hx]
    split <;> omega
  · intro x hx hxa
    simp [hxa]

theorem expand_WF (f : Factor α) (D : Dom)
    (hf : f.WF) (hD : D.WF) (hc : D.contains f.dom = true) (ha : f.dom.Agrees D) :
    (f.expand D).WF := by
  refine ⟨hD, rfl, ?_⟩
  rw [expand_vals]
  exact NdArr.ofFn_WF _ _

theorem get_reshape_of_shape_eq (b : NdArr α) (s : List Nat) (h : b.shape = s) (idx : List Nat) :
    (b.reshape s).get idx = b.get idx := by
  subst h; rfl

theorem transpose_dom (f : Factor α) (as : List Attr) : (f.transpose as).dom = f.dom.project as := rfl

theorem transpose_attrs (f : Factor α) (as : List Attr) : (f.transpose as).dom.attrs = as := by
  rw [transpose_dom, Dom.attrs_project]

theorem transpose_vals (f : Factor α) (as : List Attr) :
    (f.transpose as).vals = (NdArr.moveaxis f.vals
        (List.range (f.dom.attrs.map (fun x => as.idxOf x)).length)
        (f.dom.attrs.map (fun x => as.idxOf x))).reshape (as.map f.dom.cfg) := by
  simp only [transpose, mk', Dom.axes, Dom.attrs_project, Dom.shape_project]

theorem transpose_shape (f : Factor α) (as : List Attr) (hf : f.WF) (hp : as.Perm f.dom.attrs) :
    (NdArr.moveaxis f.vals
        (List.range (f.dom.attrs.map (fun x => as.idxOf x)).length)
        (f.dom.attrs.map (fun x => as.idxOf x))).shape = as.map f.dom.cfg := by
  obtain ⟨hfd, hfs, hfw⟩ := hf
  have hs : f.vals.shape = f.dom.attrs.map f.dom.cfg ++ List.replicate 0 1 := by
    rw [hfs, Dom.shape_eq_map_cfg _ hfd]; simp
  rw [core_shape f.vals f.dom.attrs as f.dom.cfg 0 hs hfd (hp.symm.nodup hfd)
    (fun x hx => hp.mem_iff.mpr hx) (by simpa using hp.length_eq)]
  apply List.map_congr_left
  intro x hx
  rw [if_pos (hp.mem_iff.mp hx)]

theorem sem_transpose (f : Factor α) (as : List Attr) (σ : Attr → Nat)
    (hf : f.WF) (hp : as.Perm f.dom.attrs) (hσ : f.dom.Valid σ) :
    (f.transpose as).sem σ = f.sem σ := by
  have hsh := transpose_shape f as hf hp
  obtain ⟨hfd, hfs, hfw⟩ := hf
  have hs : f.vals.shape = f.dom.attrs.map f.dom.cfg ++ List.replicate 0 1 := by
    rw [hfs, Dom.shape_eq_map_cfg _ hfd]; simp
  have hval := (Dom.valid_iff f.dom hfd σ).mp hσ
  unfold sem
  rw [transpose_attrs, transpose_vals, get_reshape_of_shape_eq _ _ hsh]
  rw [core_get f.vals f.dom.attrs as f.dom.cfg 0 hs hfd (hp.symm.nodup hfd)
    (fun x hx => hp.mem_iff.mpr hx) (by simpa using hp.length_eq) σ hval
    (fun x hx hxa => absurd (hp.mem_iff.mp hx) hxa)]
  unfold NdArr.get
  rw [hfs, Dom.shape_eq_map_cfg _ hfd]

theorem transpose_WF (f : Factor α) (as : List Attr) (hf : f.WF) (hp : as.Perm f.dom.attrs) :
    (f.transpose as).WF := by
  have hsh := transpose_shape f as hf hp
  refine ⟨?_, ?_, ?_⟩
  · unfold Dom.WF
    rw [transpose_attrs]
    exact hp.symm.nodup hf.1
  · rw [transpose_vals, transpose_dom, Dom.shape_project]; rfl
  · rw [transpose_vals]
    have hw : (NdArr.moveaxis f.vals
        (List.range (f.dom.attrs.map (fun x => as.idxOf x)).length)
        (f.dom.attrs.map (fun x => as.idxOf x))).WF := NdArr.ofFn_WF _ _
    unfold NdArr.WF at hw ⊢
    rw [hsh] at hw
    exact hw

theorem inRange_of_valid (D : Dom) (hD : D.WF) (σ : Attr → Nat) (hσ : D.Valid σ) :
    InRange D.shape (D.attrs.map σ) := by
  rw [Dom.shape_eq_map_cfg D hD]
  exact NdArr.inRange_map _ _ _ ((Dom.valid_iff D hD σ).mp hσ)

theorem expand_shape (f : Factor α) (D : Dom) : (f.expand D).vals.shape = D.shape := rfl

theorem zipWith_shape (op : α → α → α) (a b : NdArr α) : (NdArr.zipWith op a b).shape = a.shape := rfl

theorem expand_dom (f : Factor α) (D : Dom) : (f.expand D).dom = D := rfl

theorem binop_dom (op : α → α → α) (f g : Factor α) : (binop op f g).dom = f.dom.merge g.dom := rfl

theorem binop_vals (op : α → α → α) (f g : Factor α) :
    (binop op f g).vals = (NdArr.zipWith op (f.expand (f.dom.merge g.dom)).vals
      (g.expand (f.dom.merge g.dom)).vals).reshape (f.dom.merge g.dom).shape := rfl

theorem sem_binop (op : α → α → α) (f g : Factor α) (σ : Attr → Nat)
    (hf : f.WF) (hg : g.WF) (hcompat : f.dom.Compatible g.dom) (hσ : (f.dom.merge g.dom).Valid σ) :
    (binop op f g).sem σ = op (f.sem σ) (g.sem σ) := by
  have hM := Dom.merge_WF f.dom g.dom hf.1 hg.1
  have h1 := expand_WF f _ hf hM (Dom.merge_contains_left _ _) (Dom.agrees_merge_left _ _ hf.1)
  have h2 := expand_WF g _ hg hM (Dom.merge_contains_right _ _)
    (Dom.agrees_merge_right _ _ hf.1 hg.1 hcompat)
  have e1 := sem_expand f _ σ hf hM (Dom.merge_contains_left _ _) (Dom.agrees_merge_left _ _ hf.1) hσ
  have e2 := sem_expand g _ σ hg hM (Dom.merge_contains_right _ _)
    (Dom.agrees_merge_right _ _ hf.1 hg.1 hcompat) hσ
  rw [← e1, ← e2]
  have hs1 := expand_shape f (f.dom.merge g.dom)
  have hs2 := expand_shape g (f.dom.merge g.dom)
  unfold sem
  rw [binop_vals, binop_dom, expand_dom, expand_dom,
    get_reshape_of_shape_eq _ _ ((zipWith_shape op _ _).trans hs1)]
  exact NdArr.get_zipWith op _ _ _ h1.2.2 h2.2.2 (hs1.trans hs2.symm)
    (by rw [hs1]; exact inRange_of_valid _ hM σ hσ)

theorem binop_WF (op : α → α → α) (f g : Factor α)
    (hf : f.WF) (hg : g.WF) (hcompat : f.dom.Compatible g.dom) : (binop op f g).WF := by
  have hM := Dom.merge_WF f.dom g.dom hf.1 hg.1
  have h1 := expand_WF f _ hf hM (Dom.merge_contains_left _ _) (Dom.agrees_merge_left _ _ hf.1)
  have h2 := expand_WF g _ hg hM (Dom.merge_contains_right _ _)
    (Dom.agrees_merge_right _ _ hf.1 hg.1 hcompat)
  have hs1 := expand_shape f (f.dom.merge g.dom)
  have hs2 := expand_shape g (f.dom.merge g.dom)
  refine ⟨hM, ?_, ?_⟩
  · rw [binop_vals, binop_dom]; rfl
  · rw [binop_vals]
    have hw := NdArr.zipWith_WF op _ _ h1.2.2 h2.2.2 (hs1.trans hs2.symm)
    unfold NdArr.WF at hw ⊢
    simp only [NdArr.reshape]
    rw [hw, zipWith_shape, hs1]

theorem sem_sub (f g : Factor α) (σ : Attr → Nat)
    (hf : f.WF) (hg : g.WF) (hcompat : f.dom.Compatible g.dom) (hσ : (f.dom.merge g.dom).Valid σ) :
    (f.sub g).sem σ = Scalar.add (f.sem σ) (negInfAware (g.sem σ)) := by
  have hM := Dom.merge_WF f.dom g.dom hf.1 hg.1
  have hgv : g.dom.Valid σ := Dom.valid_of_agrees g.dom _ hg.1 hM (Dom.merge_contains_right _ _)
    (Dom.agrees_merge_right _ _ hf.1 hg.1 hcompat) σ hσ
  have hw : (mk' g.dom (g.vals.map negInfAware)).WF := by
    refine ⟨hg.1, rfl, ?_⟩
    have := NdArr.map_WF negInfAware g.vals hg.2.2
    unfold NdArr.WF at this
    show (g.vals.map negInfAware).data.size = size g.dom.shape
    rw [this]
    show size g.vals.shape = size g.dom.shape
    rw [hg.2.1]
  have hs : (mk' g.dom (g.vals.map negInfAware)).sem σ = negInfAware (g.sem σ) := by
    show ((g.vals.map negInfAware).reshape g.dom.shape).get (g.dom.attrs.map σ) = _
    rw [get_reshape_of_shape_eq _ _ (by show g.vals.shape = _; exact hg.2.1)]
    apply NdArr.get_map _ _ _ hg.2.2
    rw [hg.2.1]
    exact inRange_of_valid _ hg.1 σ hgv
  have := sem_binop Scalar.add f (mk' g.dom (g.vals.map negInfAware)) σ hf hw hcompat hσ
  rw [hs] at this
  exact this

theorem sem_iop (op : α → α → α) (f g : Factor α) (σ : Attr → Nat)
    (hf : f.WF) (hg : g.WF) (hc : f.dom.contains g.dom = true) (ha : g.dom.Agrees f.dom)
    (hσ : f.dom.Valid σ) :
    (iop op f g).sem σ = op (f.sem σ) (g.sem σ) := by
  have h2 := expand_WF g _ hg hf.1 hc ha
  have e2 := sem_expand g _ σ hg hf.1 hc ha hσ
  rw [← e2]
  show (NdArr.zipWith op f.vals (g.expand f.dom).vals).get (f.dom.attrs.map σ) = _
  apply NdArr.get_zipWith op _ _ _ hf.2.2 h2.2.2
  · rw [hf.2.1]; rfl
  · rw [hf.2.1]; exact inRange_of_valid _ hf.1 σ hσ

theorem sem_div (f g : Factor α) (σ : Attr → Nat)
    (hf : f.WF) (hg : g.WF) (hc : f.dom.contains g.dom = true) (ha : g.dom.Agrees f.dom)
    (hσ : f.dom.Valid σ) :
    (f.divF g).sem σ = safeDiv (f.sem σ) (g.sem σ) := by
  have := sem_iop safeDiv f g σ hf hg hc ha hσ
  rw [← this]
  show ((NdArr.zipWith safeDiv f.vals (g.expand f.dom).vals).reshape f.dom.shape).get (f.dom.attrs.map σ) = _
  rw [get_reshape_of_shape_eq _ _ (by show f.vals.shape = _; exact hf.2.1)]
  rfl

theorem iop_eq_binop (op : α → α → α) (f g : Factor α) (σ : Attr → Nat)
    (hf : f.WF) (hg : g.WF) (hc : f.dom.contains g.dom = true) (ha : g.dom.Agrees f.dom)
    (hσ : f.dom.Valid σ) :
    (iop op f g).sem σ = (binop op f g).sem σ ∧ (iop op f g).dom = (binop op f g).dom := by
  have hm := Dom.merge_eq_self_of_contains f.dom g.dom hc
  constructor
  · rw [sem_iop op f g σ hf hg hc ha hσ,
      sem_binop op f g σ hf hg (Dom.compatible_of_agrees _ _ hf.1 ha) (by rw [hm]; exact hσ)]
  · show f.dom = f.dom.merge g.dom
    exact hm.symm

/-! ### reductions -/

theorem filter_axes_eq (A : List Attr) (hA : A.Nodup) (as : List Attr) :
    (List.range A.length).filter (fun j => (as.map (fun a => A.idxOf a)).contains j)
      = (List.range A.length).filter (fun j => as.contains (A.getD j "")) := by
  apply List.filter_congr
  intro j hj
  have hj' : j < A.length := by simpa using hj
  rw [Bool.eq_iff_iff, List.contains_iff_mem, List.contains_iff_mem]
  exact mem_map_idxOf_iff A hA "" as j hj'

theorem filter_not_axes_eq (A : List Attr) (hA : A.Nodup) (as : List Attr) :
    (List.range A.length).filter (fun j => !(as.map (fun a => A.idxOf a)).contains j)
      = (List.range A.length).filter (fun j => !as.contains (A.getD j "")) := by
  apply List.filter_congr
  intro j hj
  have hj' : j < A.length := by simpa using hj
  congr 1
  rw [Bool.eq_iff_iff, List.contains_iff_mem, List.contains_iff_mem]
  exact mem_map_idxOf_iff A hA "" as j hj'

theorem reduceAxes_eq (r : List α → α) (vals : NdArr α) (A : List Attr) (c : Attr → Nat)
    (hA : A.Nodup) (hs : vals.shape = A.map c) (as : List Attr) :
    NdArr.reduceAxes r vals (as.map (fun a => A.idxOf a)) =
      NdArr.ofFn ((A.filter (fun a => !as.contains a)).map c)
        (fun kidx => r ((cells ((A.filter (fun a => as.contains a)).map c)).map (fun ridx =>
          vals.get (NdArr.assemble A.length
            ((List.range A.length).filter (fun j => !as.contains (A.getD j "")))
            ((List.range A.length).filter (fun j => as.contains (A.getD j ""))) kidx ridx)))) := by
  unfold NdArr.reduceAxes
  simp only [hs, List.length_map, filter_axes_eq A hA as, filter_not_axes_eq A hA as]
  rw [map_shape_filter A "" c (fun a => !as.contains a),
    map_shape_filter A "" c (fun a => as.contains a)]

theorem assemble_eq (A : List Attr) (hA : A.Nodup) (q : Attr → Bool) (σ : Attr → Nat)
    (ridx : List Nat) :
    NdArr.assemble A.length ((List.range A.length).filter (fun j => !q (A.getD j "")))
        ((List.range A.length).filter (fun j => q (A.getD j "")))
        ((A.filter (fun a => !q a)).map σ) ridx
      = A.map (fun a => if q a then ridx.getD ((A.filter q).idxOf a) 0 else σ a) := by
  have hR : ∀ h : Attr → Nat, A.map h = (List.range A.length).map (fun j => h (A.getD j "")) := by
    intro h
    have := congrArg (List.map h) (map_getD_range A "")
    rw [List.map_map] at this
    exact this.symm
  rw [hR]
  unfold NdArr.assemble
  apply List.map_congr_left
  intro j hj
  have hj' : j < A.length := by simpa using hj
  by_cases hq : q (A.getD j "") = true
  · have h1 : ((List.range A.length).filter (fun j => !q (A.getD j ""))).contains j = false := by
      rw [Bool.eq_false_iff]
      intro h
      have h2 := (List.mem_filter.mp (List.contains_iff_mem.mp h)).2
      rw [hq] at h2
      exact absurd h2 (by decide)
    rw [h1, if_pos hq, red_idxOf A hA "" q j hj']
    rfl
  · have hq' : q (A.getD j "") = false := Bool.eq_false_iff.mpr hq
    have h1 : ((List.range A.length).filter (fun j => !q (A.getD j ""))).contains j = true :=
      List.contains_iff_mem.mpr (List.mem_filter.mpr ⟨hj, by
        show (!q (A.getD j "")) = true
        rw [hq']; rfl⟩)
    rw [if_pos h1, if_neg hq]
    exact keep_getD A "" (fun a => !q a) σ j hj' (by
      show (!q (A.getD j "")) = true
      rw [hq']; rfl)

theorem reduce_dom (r : List α → α) (f : Factor α) (as : List Attr) :
    (reduce r f as).dom = f.dom.marginalize as := rfl

theorem reduce_attrs (r : List α → α) (f : Factor α) (as : List Attr) :
    (reduce r f as).dom.attrs = f.dom.invert as := by
  rw [reduce_dom, Dom.marginalize, Dom.attrs_project]

theorem reduce_vals (r : List α → α) (f : Factor α) (as : List Attr) :
    (reduce r f as).vals = (NdArr.reduceAxes r f.vals (as.map (fun a => f.dom.attrs.idxOf a))).reshape
      ((f.dom.attrs.filter (fun a => !as.contains a)).map f.dom.cfg) := by
  simp only [reduce, mk', Dom.axes, Dom.marginalize, Dom.shape_project, Dom.invert]

theorem sem_reduce (r : List α → α) (f : Factor α) (as : List Attr) (σ : Attr → Nat)
    (hf : f.WF) (hσ : f.dom.Valid σ) :
    (reduce r f as).sem σ
      = r ((cells ((f.dom.removed as).map f.dom.cfg)).map
            (fun v => f.sem (Dom.override σ (f.dom.removed as) v))) := by
  obtain ⟨hfd, hfs, hfw⟩ := hf
  have hs : f.vals.shape = f.dom.attrs.map f.dom.cfg := by rw [hfs, Dom.shape_eq_map_cfg _ hfd]
  have hval := (Dom.valid_iff f.dom hfd σ).mp hσ
  unfold sem
  rw [reduce_attrs, reduce_vals, reduceAxes_eq r f.vals f.dom.attrs f.dom.cfg hfd hs as]
  rw [get_reshape_of_shape_eq _ _ (NdArr.ofFn_shape _ _)]
  unfold Dom.removed Dom.invert
  rw [NdArr.get_ofFn _ _ _ (NdArr.inRange_map _ _ _
    (fun a ha => hval a (List.mem_filter.mp ha).1))]
  congr 1
  apply List.map_congr_left
  intro v _
  congr 1
  rw [assemble_eq f.dom.attrs hfd (fun a => as.contains a) σ v]
  apply List.map_congr_left
  intro a ha
  unfold Dom.override
  have h1 : (f.dom.attrs.filter (fun a => as.contains a)).contains a = as.contains a := by
    rw [Bool.eq_iff_iff, List.contains_iff_mem]
    simp [ha]
  rw [h1]

theorem reduce_WF (r : List α → α) (f : Factor α) (as : List Attr) (hf : f.WF) :
    (reduce r f as).WF := by
  obtain ⟨hfd, hfs, hfw⟩ := hf
  have hs : f.vals.shape = f.dom.attrs.map f.dom.cfg := by rw [hfs, Dom.shape_eq_map_cfg _ hfd]
  refine ⟨?_, ?_, ?_⟩
  · unfold Dom.WF
    rw [reduce_attrs]
    exact List.Nodup.sublist List.filter_sublist hfd
  · rw [reduce_vals, reduce_dom, Dom.marginalize, Dom.shape_project]; rfl
  · rw [reduce_vals, reduceAxes_eq r f.vals f.dom.attrs f.dom.cfg hfd hs as]
    exact NdArr.ofFn_WF _ _

theorem project_attrs (r : List α → α) (f : Factor α) (as : List Attr) :
    (project r f as).dom.attrs = as := by
  unfold project
  exact transpose_attrs _ _

theorem sem_project (r : List α → α) (f : Factor α) (as : List Attr) (σ : Attr → Nat)
    (hf : f.WF) (has : as.Nodup) (hsub : ∀ a ∈ as, a ∈ f.dom.attrs) (hσ : f.dom.Valid σ) :
    (project r f as).sem σ
      = r ((cells ((f.dom.invert as).map f.dom.cfg)).map
            (fun v => f.sem (Dom.override σ (f.dom.invert as) v))) := by
  have hM : (f.dom.marginalize as).attrs = f.dom.invert as := by
    rw [Dom.marginalize, Dom.attrs_project]
  have hval := (Dom.valid_iff f.dom hf.1 σ).mp hσ
  have hrw := reduce_WF r f (f.dom.invert as) hf
  have hperm : as.Perm (reduce r f (f.dom.invert as)).dom.attrs := by
    rw [List.perm_ext_iff_of_nodup has hrw.1, reduce_attrs]
    intro a
    simp only [Dom.invert, List.mem_filter, Bool.not_eq_eq_eq_not, Bool.not_true]
    constructor
    · intro ha
      refine ⟨hsub a ha, ?_⟩
      simp [ha]
    · rintro ⟨h1, h2⟩
      simpa [h1] using h2
  have hvalid : (reduce r f (f.dom.invert as)).dom.Valid σ := by
    rw [reduce_dom, Dom.marginalize]
    intro p hp
    simp only [Dom.project, List.mem_map] at hp
    obtain ⟨a, ha, rfl⟩ := hp
    exact hval a (List.mem_filter.mp ha).1
  have hrem : f.dom.removed (f.dom.invert as) = f.dom.invert as := by
    unfold Dom.removed Dom.invert
    apply List.filter_congr
    intro a ha
    rw [Bool.eq_iff_iff, List.contains_iff_mem]
    simp [ha]
  show ((reduce r f (f.dom.marginalize as).attrs).transpose as).sem σ = _
  rw [hM, sem_transpose _ as σ hrw hperm hvalid, sem_reduce r f _ σ hf hσ, hrem]

/-! ### conditioning -/

theorem take_eq (vals : NdArr α) (A : List Attr) (c : Attr → Nat) (hs : vals.shape = A.map c)
    (ev : List (Attr × Nat)) :
    NdArr.take vals (A.map (fun a => ev.lookup a)) =
      NdArr.ofFn ((A.filter (fun a => !(ev.map Prod.fst).contains a)).map c)
        (fun kidx => vals.get ((List.range A.length).map (fun j =>
          match ev.lookup (A.getD j "") with
          | some i => i
          | none => kidx.getD (((List.range A.length).filter
              (fun j => !(ev.map Prod.fst).contains (A.getD j ""))).idxOf j) 0))) := by
  have hkeep : (List.range A.length).filter
        (fun j => ((A.map (fun a => ev.lookup a)).getD j none).isNone)
      = (List.range A.length).filter (fun j => !(ev.map Prod.fst).contains (A.getD j "")) := by
    apply List.filter_congr
    intro j hj
    have hj' : j < A.length := by simpa using hj
    rw [getD_map_getD A "" (fun a => ev.lookup a) none j hj', lookup_isNone_eq]
  unfold NdArr.take
  simp only [hs, List.length_map]
  rw [hkeep, map_shape_filter A "" c (fun a => !(ev.map Prod.fst).contains a)]
  congr 1
  funext kidx
  congr 1
  apply List.map_congr_left
  intro j hj
  have hj' : j < A.length := by simpa using hj
  rw [getD_map_getD A "" (fun a => ev.lookup a) none j hj']
  rfl

theorem condition_attrs (f : Factor α) (ev : List (Attr × Nat)) :
    (f.condition ev).dom.attrs = f.dom.attrs.filter (fun a => !(ev.map Prod.fst).contains a) := by
  simp only [condition, mk', Dom.marginalize, Dom.attrs_project, Dom.invert]

theorem condition_vals (f : Factor α) (ev : List (Attr × Nat)) :
    (f.condition ev).vals = (NdArr.take f.vals (f.dom.attrs.map (fun a => ev.lookup a))).reshape
      ((f.dom.attrs.filter (fun a => !(ev.map Prod.fst).contains a)).map f.dom.cfg) := by
  simp only [condition, mk', Dom.marginalize, Dom.shape_project, Dom.invert]

theorem sem_condition (f : Factor α) (ev : List (Attr × Nat)) (σ : Attr → Nat)
    (hf : f.WF) (hev : ∀ p ∈ ev, p.1 ∈ f.dom.attrs ∧ p.2 < f.dom.cfg p.1) (hσ : f.dom.Valid σ) :
    (f.condition ev).sem σ = f.sem (fun a => (ev.lookup a).getD (σ a)) := by
  obtain ⟨hfd, hfs, hfw⟩ := hf
  have hs : f.vals.shape = f.dom.attrs.map f.dom.cfg := by rw [hfs, Dom.shape_eq_map_cfg _ hfd]
  have hval := (Dom.valid_iff f.dom hfd σ).mp hσ
  unfold sem
  rw [condition_attrs, condition_vals, take_eq f.vals f.dom.attrs f.dom.cfg hs ev]
  rw [get_reshape_of_shape_eq _ _ (NdArr.ofFn_shape _ _)]
  rw [NdArr.get_ofFn _ _ _ (NdArr.inRange_map _ _ _
    (fun a ha => hval a (List.mem_filter.mp ha).1))]
  congr 1
  rw [map_eq_map_range f.dom.attrs "" (fun a => (ev.lookup a).getD (σ a))]
  apply List.map_congr_left
  intro j hj
  have hj' : j < f.dom.attrs.length := by simpa using hj
  cases h : ev.lookup (f.dom.attrs.getD j "") with
  | some i => rfl
  | none =>
    have hq : (!(ev.map Prod.fst).contains (f.dom.attrs.getD j "")) = true := by
      rw [← lookup_isNone_eq, h]; rfl
    exact keep_getD f.dom.attrs "" (fun a => !(ev.map Prod.fst).contains a) σ j hj' hq

end PGM.Factor
