import PGM.Model.FactorGraph
import PGM.Proofs.RealScalar
import PGM.Proofs.Factor
import PGM.Proofs.LossFactor
import PGM.Proofs.OracleFold
import PGM.Proofs.OracleGraph
import PGM.Proofs.OraclePos
/-!
# Loopy belief propagation on a pairwise disjoint family

With disjoint cliques every attribute occurs in one factor only, so the variable-to-factor message
`mu_n[v][cl] = (mu_f[cl][v] + 0) − mu_f[cl][v]` is identically zero after every sweep (and zero
initially); the belief of a clique is its potential plus zero tables on sub-domains.
-/
namespace PGM.Oracle
open PGM PGM.JT PGM.RG
set_option linter.unusedSectionVars false
set_option linter.unusedVariables false

/-! ### real-number readings -/

theorem negInfAware_real (x : ℝ) : Factor.negInfAware x = -x := by
  show (if (false = true) then (0 : ℝ) else -x) = -x
  simp

/-- two well-formed tables over the same domain with the same values have the same flat data -/
theorem datavector_ext (f g : Factor ℝ) (hf : f.WF) (hg : g.WF) (hd : f.dom = g.dom)
    (h : ∀ σ, f.dom.Valid σ → f.sem σ = g.sem σ) : f.datavector = g.datavector := by
  rw [LossAux.datavector_eq f hf, LossAux.datavector_eq g hg, ← hd]
  apply List.map_congr_left
  intro cell hc
  rw [← LossAux.sem_assign f hf cell hc, ← LossAux.sem_assign g hg cell (hd ▸ hc), ← hd]
  exact h _ (LossAux.valid_assign f.dom hf.1 cell hc)

/-! ### cell-wise maps (`addScalar`, `subScalar`) -/

theorem mapF_WF (f : Factor ℝ) (hf : f.WF) (F : ℝ → ℝ) : (Factor.mk' f.dom (f.vals.map F)).WF := by
  refine ⟨hf.1, rfl, ?_⟩
  have := NdArr.map_WF F f.vals hf.2.2
  unfold NdArr.WF at this
  show (f.vals.map F).data.size = size f.dom.shape
  rw [this]
  show size f.vals.shape = size f.dom.shape
  rw [hf.2.1]

theorem mapF_sem (f : Factor ℝ) (hf : f.WF) (F : ℝ → ℝ) (σ : Attr → Nat) (hσ : f.dom.Valid σ) :
    (Factor.mk' f.dom (f.vals.map F)).sem σ = F (f.sem σ) := by
  show ((f.vals.map F).reshape f.dom.shape).get (f.dom.attrs.map σ) = _
  rw [Factor.get_reshape_of_shape_eq _ _ (by show f.vals.shape = _; exact hf.2.1)]
  apply NdArr.get_map _ _ _ hf.2.2
  rw [hf.2.1]
  exact Factor.inRange_of_valid _ hf.1 σ hσ

theorem addScalar_WF (f : Factor ℝ) (hf : f.WF) (c : ℝ) : (f.addScalar c).WF := mapF_WF f hf _

theorem addScalar_sem (f : Factor ℝ) (hf : f.WF) (c : ℝ) (σ : Attr → Nat) (hσ : f.dom.Valid σ) :
    (f.addScalar c).sem σ = c + f.sem σ := mapF_sem f hf _ σ hσ

theorem subScalar_WF (f : Factor ℝ) (hf : f.WF) (c : ℝ) : (f.subScalar c).WF := mapF_WF f hf _

theorem sub_WF (f g : Factor ℝ) (hf : f.WF) (hg : g.WF) (hc : f.dom.Compatible g.dom) : (f.sub g).WF :=
  Factor.binop_WF Scalar.add f _ hf (mapF_WF g hg _) hc

/-! ### zero tables on a sub-domain -/

/-- a well-formed table over part of `P` (with `P`'s sizes) whose values are all zero -/
def ZeroSub (P : Dom) (f : Factor ℝ) : Prop :=
  f.WF ∧ P.contains f.dom = true ∧ f.dom.Agrees P ∧ ∀ σ, f.dom.Valid σ → f.sem σ = 0

theorem ZeroSub.addScalar0 {P : Dom} {f : Factor ℝ} (h : ZeroSub P f) : ZeroSub P (f.addScalar Scalar.zero) := by
  obtain ⟨hf, hc, ha, hz⟩ := h
  refine ⟨addScalar_WF f hf _, hc, ha, ?_⟩
  intro σ hσ
  rw [addScalar_sem f hf _ σ hσ, hz σ hσ]
  show (0 : ℝ) + 0 = 0
  simp

theorem compatible_of_agrees_both {P : Dom} {d o : Dom} (hd : d.Agrees P) (ho : o.Agrees P) : d.Compatible o := by
  intro a n m h1 h2
  have e1 := hd _ h1
  have e2 := ho _ h2
  simp only at e1 e2
  omega

theorem ZeroSub.add {P : Dom} {f g : Factor ℝ} (hf : ZeroSub P f) (hg : ZeroSub P g) : ZeroSub P (f.add g) := by
  obtain ⟨hfw, hfc, hfa, hfz⟩ := hf
  obtain ⟨hgw, hgc, hga, hgz⟩ := hg
  have hcompat : f.dom.Compatible g.dom := compatible_of_agrees_both hfa hga
  have hM := Dom.merge_WF f.dom g.dom hfw.1 hgw.1
  refine ⟨Factor.binop_WF Scalar.add f g hfw hgw hcompat, ?_, ?_, ?_⟩
  · show P.contains (f.dom.merge g.dom) = true
    rw [Dom.contains_iff] at hfc hgc ⊢
    intro a ha
    rw [Dom.attrs_merge] at ha
    rcases List.mem_append.mp ha with h | h
    · exact hfc a h
    · exact hgc a (List.mem_filter.mp h).1
  · show (f.dom.merge g.dom).Agrees P
    rw [Dom.agrees_iff _ _ hM]
    intro a ha
    by_cases h : a ∈ f.dom.attrs
    · rw [Dom.cfg_merge_left _ _ a h]
      exact (Dom.agrees_iff _ _ hfw.1).mp hfa a h
    · rw [Dom.attrs_merge] at ha
      have hag : a ∈ g.dom.attrs := by
        rcases List.mem_append.mp ha with h' | h'
        · exact absurd h' h
        · exact (List.mem_filter.mp h').1
      rw [Dom.cfg_merge_right _ _ a h hag]
      exact (Dom.agrees_iff _ _ hgw.1).mp hga a hag
  · intro σ hσ
    have hσ' : (f.dom.merge g.dom).Valid σ := hσ
    have v1 := Dom.valid_of_agrees f.dom _ hfw.1 hM (Dom.merge_contains_left _ _)
      (Dom.agrees_merge_left _ _ hfw.1) σ hσ'
    have v2 := Dom.valid_of_agrees g.dom _ hgw.1 hM (Dom.merge_contains_right _ _)
      (Dom.agrees_merge_right _ _ hfw.1 hgw.1 hcompat) σ hσ'
    show (Factor.binop Scalar.add f g).sem σ = 0
    rw [Factor.sem_binop Scalar.add f g σ hfw hgw hcompat hσ', hfz σ v1, hgz σ v2]
    show (0 : ℝ) + 0 = 0
    simp

def ZeroSum (P : Dom) : PySum ℝ → Prop
  | .zero => True
  | .fac g => ZeroSub P g

theorem zeroSum_pySum (P : Dom) (l : List (Factor ℝ)) (h : ∀ f ∈ l, ZeroSub P f) : ZeroSum P (pySum l) := by
  unfold pySum
  apply foldl_inv (ZeroSum P) _ _ PySum.zero (show ZeroSum P PySum.zero from trivial)
  intro acc x hx ha
  cases acc with
  | zero => exact (h x hx).addScalar0
  | fac g => exact ZeroSub.add ha (h x hx)

/-- adding a zero table on a sub-domain changes nothing -/
theorem add_zeroSub (pot z : Factor ℝ) (hp : pot.WF) (hz : ZeroSub pot.dom z) :
    (pot.add z).WF ∧ (pot.add z).dom = pot.dom ∧ ∀ σ, pot.dom.Valid σ → (pot.add z).sem σ = pot.sem σ := by
  obtain ⟨hzw, hzc, hza, hzz⟩ := hz
  have hcompat : pot.dom.Compatible z.dom := Dom.compatible_of_agrees _ _ hp.1 hza
  have hm : pot.dom.merge z.dom = pot.dom := Dom.merge_eq_self_of_contains _ _ hzc
  refine ⟨Factor.binop_WF Scalar.add pot z hp hzw hcompat, hm, ?_⟩
  intro σ hσ
  have hσ' : (pot.dom.merge z.dom).Valid σ := by rw [hm]; exact hσ
  have v2 := Dom.valid_of_agrees z.dom _ hzw.1 hp.1 hzc hza σ hσ
  show (Factor.binop Scalar.add pot z).sem σ = _
  rw [Factor.sem_binop Scalar.add pot z σ hp hzw hcompat hσ', hzz σ v2]
  show pot.sem σ + 0 = pot.sem σ
  simp

theorem sub_zeroSub (pot z : Factor ℝ) (hp : pot.WF) (hz : ZeroSub pot.dom z) :
    (pot.sub z).WF ∧ (pot.sub z).dom = pot.dom := by
  obtain ⟨hzw, hzc, hza, hzz⟩ := hz
  have hcompat : pot.dom.Compatible z.dom := Dom.compatible_of_agrees _ _ hp.1 hza
  exact ⟨sub_WF pot z hp hzw hcompat, Dom.merge_eq_self_of_contains _ _ hzc⟩

theorem addSum_zeroSum (pot : Factor ℝ) (s : PySum ℝ) (hp : pot.WF) (hs : ZeroSum pot.dom s) :
    (addSum pot s).WF ∧ (addSum pot s).dom = pot.dom ∧ (addSum pot s).datavector = pot.datavector := by
  cases s with
  | zero =>
    refine ⟨addScalar_WF pot hp _, rfl, ?_⟩
    show (pot.vals.data.map (fun v => (0 : ℝ) + v)).toList = pot.vals.data.toList
    simp
  | fac z =>
    obtain ⟨h1, h2, h3⟩ := add_zeroSub pot z hp hs
    refine ⟨h1, h2, ?_⟩
    apply datavector_ext _ _ h1 hp h2
    intro σ hσ
    exact h3 σ (h2 ▸ hσ)

/-! ### the invariant of the message state -/

/-- a zero-valued table over the single attribute `v` -/
def NOK (dom : Dom) (v : Attr) (f : Factor ℝ) : Prop :=
  f.WF ∧ f.dom = dom.project [v] ∧ ∀ σ, f.dom.Valid σ → f.sem σ = 0

/-- a well-formed table over the single attribute `v` -/
def FOK (dom : Dom) (v : Attr) (f : Factor ℝ) : Prop := f.WF ∧ f.dom = dom.project [v]

def Inv (dom : Dom) (cliques : List Clique) (s : FG.State ℝ) : Prop :=
  ∀ cl ∈ cliques, ∀ v ∈ cl, NOK dom v (FG.getN s v cl) ∧ FOK dom v (FG.getF s cl v)

theorem project_WF (dom : Dom) (as : List Attr) (h : as.Nodup) : (dom.project as).WF := by
  unfold Dom.WF; rw [Dom.attrs_project]; exact h

theorem NOK.zeroSub {dom : Dom} {v : Attr} {f : Factor ℝ} (h : NOK dom v f) (cl : Clique) (hv : v ∈ cl) :
    ZeroSub (dom.project cl) f := by
  obtain ⟨hw, hd, hz⟩ := h
  refine ⟨hw, ?_, ?_, hz⟩
  · rw [Dom.contains_iff, hd, Dom.attrs_project, Dom.attrs_project]
    intro a ha
    rw [List.mem_singleton.mp ha]; exact hv
  · rw [hd]
    intro p hp
    simp only [Dom.project, List.map_cons, List.map_nil, List.mem_singleton] at hp
    subst hp
    exact Dom.cfg_project dom cl v hv

theorem zeros_NOK (dom : Dom) (v : Attr) : NOK dom v (Factor.zeros (dom.project [v])) := by
  have hW : (dom.project [v]).WF := project_WF dom [v] (by simp)
  refine ⟨⟨hW, rfl, ?_⟩, rfl, ?_⟩
  · show (Array.replicate (size (dom.project [v]).shape) (0 : ℝ)).size = size (dom.project [v]).shape
    simp
  · intro σ _
    show (Array.replicate (size (dom.project [v]).shape) (0 : ℝ)).getD _ (0 : ℝ) = 0
    simp only [Array.getD_eq_getD_getElem?, Array.getElem?_replicate]
    split <;> rfl

/-- `(F + 0) − F` -/
theorem selfCancel_NOK (dom : Dom) (v : Attr) (F : Factor ℝ) (h : FOK dom v F) :
    NOK dom v ((F.addScalar Scalar.zero).sub F) := by
  obtain ⟨hw, hd⟩ := h
  have hw0 := addScalar_WF F hw Scalar.zero
  have hcompat : (F.addScalar Scalar.zero).dom.Compatible F.dom :=
    Dom.compatible_of_agrees _ _ hw.1 (LossAux.agrees_self F.dom hw.1)
  have hm : F.dom.merge F.dom = F.dom := Dom.merge_eq_self_of_contains _ _ (LossAux.contains_self F.dom)
  refine ⟨sub_WF _ _ hw0 hw hcompat, ?_, ?_⟩
  · show F.dom.merge F.dom = _
    rw [hm, hd]
  · intro σ hσ
    have hσ' : ((F.addScalar Scalar.zero).dom.merge F.dom).Valid σ := hσ
    have hσF : F.dom.Valid σ := by
      have : (F.dom.merge F.dom).Valid σ := hσ
      rwa [hm] at this
    rw [Factor.sem_sub _ _ σ hw0 hw hcompat hσ', addScalar_sem F hw _ σ hσF, negInfAware_real]
    show ((0 : ℝ) + F.sem σ) + -F.sem σ = 0
    simp

/-! ### dictionary updates -/

theorem getN_mk (muN : List ((Attr × Clique) × Factor ℝ)) (muF : List ((Clique × Attr) × Factor ℝ))
    (k : Attr × Clique) (m : Factor ℝ) (v : Attr) (cl : Clique) :
    FG.getN ⟨GM.dictSet muN k m, muF⟩ v cl = if (v, cl) == k then m else FG.getN ⟨muN, muF⟩ v cl := by
  unfold FG.getN
  simp only
  rw [lookup_dictSet]
  by_cases h : ((v, cl) == k) = true
  · rw [if_pos h, if_pos h]
  · rw [if_neg h, if_neg h]

theorem getF_mk (muN : List ((Attr × Clique) × Factor ℝ)) (muF : List ((Clique × Attr) × Factor ℝ))
    (k : Clique × Attr) (m : Factor ℝ) (cl : Clique) (v : Attr) :
    FG.getF ⟨muN, GM.dictSet muF k m⟩ cl v = if (cl, v) == k then m else FG.getF ⟨muN, muF⟩ cl v := by
  unfold FG.getF
  simp only
  rw [lookup_dictSet]
  by_cases h : ((cl, v) == k) = true
  · rw [if_pos h, if_pos h]
  · rw [if_neg h, if_neg h]

theorem getN_setN (s : FG.State ℝ) (k : Attr × Clique) (m : Factor ℝ) (v : Attr) (cl : Clique) :
    FG.getN { s with muN := GM.dictSet s.muN k m } v cl = if (v, cl) == k then m else FG.getN s v cl :=
  getN_mk s.muN s.muF k m v cl

theorem getF_setF (s : FG.State ℝ) (k : Clique × Attr) (m : Factor ℝ) (cl : Clique) (v : Attr) :
    FG.getF { s with muF := GM.dictSet s.muF k m } cl v = if (cl, v) == k then m else FG.getF s cl v :=
  getF_mk s.muN s.muF k m cl v

theorem getN_setF (s : FG.State ℝ) (k : Clique × Attr) (m : Factor ℝ) (v : Attr) (cl : Clique) :
    FG.getN { s with muF := GM.dictSet s.muF k m } v cl = FG.getN s v cl := rfl

theorem getF_setN (s : FG.State ℝ) (k : Attr × Clique) (m : Factor ℝ) (cl : Clique) (v : Attr) :
    FG.getF { s with muN := GM.dictSet s.muN k m } cl v = FG.getF s cl v := rfl

/-! ### list facts -/

theorem filter_eq_singleton {β : Type} (l : List β) (p : β → Bool) (a : β) (hl : l.Nodup) (ha : a ∈ l)
    (hpa : p a = true) (hu : ∀ b ∈ l, p b = true → b = a) : l.filter p = [a] := by
  induction l with
  | nil => simp at ha
  | cons x xs ih =>
    rw [List.nodup_cons] at hl
    by_cases hx : x = a
    · subst hx
      rw [List.filter_cons_of_pos hpa]
      congr 1
      apply List.filter_eq_nil_iff.mpr
      intro b hb hpb
      have := hu b (by simp [hb]) hpb
      subst this
      exact hl.1 hb
    · have hax : a ∈ xs := by
        rcases List.mem_cons.mp ha with h | h
        · exact absurd h.symm hx
        · exact h
      have hpx : ¬ p x = true := fun h => hx (hu x (by simp) h)
      rw [List.filter_cons_of_neg hpx]
      exact ih hl.2 hax (fun b hb => hu b (by simp [hb]))

theorem fac_eq_singleton (cliques : List Clique) (hd : Disjoint cliques) (hnd : cliques.Nodup)
    (cl : Clique) (hcl : cl ∈ cliques) (v : Attr) (hv : v ∈ cl) :
    cliques.filter (fun c => c.contains v) = [cl] := by
  refine filter_eq_singleton cliques (fun c => c.contains v) cl hnd hcl (List.contains_iff_mem.mpr hv) ?_
  intro b hb hvb
  rcases disjoint_forall cliques hd b hb cl hcl with h | h
  · exact h
  · exact absurd hv (h v (List.contains_iff_mem.mp hvb))

theorem invert_complement (cl : Clique) (hn : cl.Nodup) (v : Attr) (hv : v ∈ cl) :
    cl.filter (fun a => !(cl.filter (fun var => var != v)).contains a) = [v] := by
  refine filter_eq_singleton cl (fun a => !(cl.filter (fun var => var != v)).contains a) v hn hv ?_ ?_
  · simp
  · intro b _ hb
    by_contra hne
    have : (cl.filter (fun var => var != v)).contains b = true := by
      apply List.contains_iff_mem.mpr
      apply List.mem_filter.mpr
      refine ⟨‹b ∈ cl›, ?_⟩
      simpa using hne
    rw [this] at hb
    exact absurd hb (by decide)

theorem marginalize_complement (dom : Dom) (cl : Clique) (hn : cl.Nodup) (v : Attr) (hv : v ∈ cl) :
    (dom.project cl).marginalize (cl.filter (fun var => var != v)) = dom.project [v] := by
  unfold Dom.marginalize Dom.invert
  rw [Dom.attrs_project, invert_complement cl hn v hv]
  show [(v, (dom.project cl).cfg v)] = [(v, dom.cfg v)]
  rw [Dom.cfg_project dom cl v hv]

/-! ### the sweep keeps the invariant -/

/-- the hypotheses on the model: disjoint duplicate-free cliques, each a duplicate-free tuple, each
potential a well-formed table over its clique -/
structure LbpHyp (dom : Dom) (cliques : List Clique) (pots : CliqueVec ℝ) : Prop where
  disj : Disjoint cliques
  nodup : cliques.Nodup
  tuple : ∀ cl ∈ cliques, cl.Nodup
  potWF : ∀ cl ∈ cliques, (pots.get cl).WF ∧ (pots.get cl).dom = dom.project cl

theorem pre_zeroSum (dom : Dom) (cliques : List Clique) (s : FG.State ℝ) (hs : Inv dom cliques s)
    (cl : Clique) (hcl : cl ∈ cliques) :
    ZeroSum (dom.project cl) (pySum (cl.map (fun c => FG.getN s c cl))) := by
  apply zeroSum_pySum
  intro f hf
  obtain ⟨v, hv, rfl⟩ := List.mem_map.mp hf
  exact (hs cl hcl v hv).1.zeroSub cl hv

/-- the factor-to-variable message is a well-formed table over `[v]` -/
theorem facMsg_FOK (dom : Dom) (cl : Clique) (hn : cl.Nodup) (v : Attr) (hv : v ∈ cl) (pot : Factor ℝ)
    (hp : pot.WF) (hpd : pot.dom = dom.project cl) (pre : PySum ℝ) (hpre : ZeroSum (dom.project cl) pre)
    (N : Factor ℝ) (hN : NOK dom v N) (c : ℝ) :
    FOK dom v ((((addSum pot pre).sub N).logsumexp (cl.filter (fun var => var != v))).subScalar c) := by
  obtain ⟨hA, hAd, _⟩ := addSum_zeroSum pot pre hp (hpd ▸ hpre)
  have hNz : ZeroSub (addSum pot pre).dom N := by rw [hAd, hpd]; exact hN.zeroSub cl hv
  obtain ⟨hB, hBd⟩ := sub_zeroSub _ N hA hNz
  have hC := Factor.reduce_WF Scalar.lse ((addSum pot pre).sub N) (cl.filter (fun var => var != v)) hB
  refine ⟨subScalar_WF _ hC c, ?_⟩
  show ((addSum pot pre).sub N).dom.marginalize (cl.filter (fun var => var != v)) = _
  rw [hBd, hAd, hpd, marginalize_complement dom cl hn v hv]

theorem lbpSweep_inv (dom : Dom) (cliques : List Clique) (pots : CliqueVec ℝ) (h : LbpHyp dom cliques pots)
    (s : FG.State ℝ) (hs : Inv dom cliques s) : Inv dom cliques (FG.lbpSweep dom cliques pots s) := by
  unfold FG.lbpSweep
  apply foldl_inv (Inv dom cliques)
  · -- factor to variable
    apply foldl_inv (Inv dom cliques) _ _ _ hs
    intro s cl hcl hs
    have hpre := pre_zeroSum dom cliques s hs cl hcl
    apply foldl_inv (Inv dom cliques) _ _ _ hs
    intro s' v hv hs' cl' hcl' v' hv'
    simp only
    rw [getN_setF, getF_setF]
    refine ⟨(hs' cl' hcl' v' hv').1, ?_⟩
    split
    · rename_i heq
      have : (cl', v') = (cl, v) := eq_of_beq heq
      obtain ⟨rfl, rfl⟩ := Prod.mk.inj this
      exact facMsg_FOK dom cl' (h.tuple cl' hcl') v' hv' _ (h.potWF cl' hcl').1 (h.potWF cl' hcl').2 _ hpre _
        (hs' cl' hcl' v' hv').1 _
    · exact (hs' cl' hcl' v' hv').2
  · -- variable to factor
    intro s v _ hs
    by_cases hex : ∃ cl ∈ cliques, v ∈ cl
    · obtain ⟨cl, hcl, hv⟩ := hex
      have hfac := fac_eq_singleton cliques h.disj h.nodup cl hcl v hv
      dsimp only
      rw [hfac]
      show Inv dom cliques ⟨GM.dictSet s.muN (v, cl) (((FG.getF s cl v).addScalar Scalar.zero).sub (FG.getF s cl v)), s.muF⟩
      intro cl' hcl' v' hv'
      rw [getN_mk]
      refine ⟨?_, (hs cl' hcl' v' hv').2⟩
      split
      · rename_i heq
        have : (v', cl') = (v, cl) := eq_of_beq heq
        obtain ⟨rfl, rfl⟩ := Prod.mk.inj this
        exact selfCancel_NOK dom v' _ (hs cl' hcl' v' hv').2
      · exact (hs cl' hcl' v' hv').1
    · have hfac : cliques.filter (fun cl => cl.contains v) = [] := by
        apply List.filter_eq_nil_iff.mpr
        intro cl hcl hc
        exact hex ⟨cl, hcl, List.contains_iff_mem.mp hc⟩
      dsimp only
      rw [hfac]
      exact hs

/-! ### `init_messages` -/

theorem foldl_establish {γ δ : Type} (P : γ → Prop) (f : γ → δ → γ) (l : List δ) (x0 : δ) (hx : x0 ∈ l)
    (hkeep : ∀ a x, P a → P (f a x)) (hset : ∀ a, P (f a x0)) (a : γ) : P (l.foldl f a) := by
  induction l generalizing a with
  | nil => simp at hx
  | cons x xs ih =>
    rw [List.foldl_cons]
    rcases List.mem_cons.mp hx with h | h
    · subst h
      exact foldl_inv P f xs _ (hset a) (fun a y _ hp => hkeep a y hp)
    · exact ih h _

theorem initMessages_inv (dom : Dom) (cliques : List Clique) :
    Inv dom cliques (FG.initMessages dom cliques) := by
  intro cl hcl v hv
  -- the property "both entries for `(v, cl)` are the zero table"
  let P : FG.State ℝ → Prop := fun s =>
    FG.getN s v cl = Factor.zeros (dom.project [v]) ∧ FG.getF s cl v = Factor.zeros (dom.project [v])
  have hstep_keep : ∀ (s : FG.State ℝ) (cl' : Clique) (v' : Attr), P s →
      P { muN := GM.dictSet s.muN (v', cl') (Factor.zeros (dom.project [v'])),
          muF := GM.dictSet s.muF (cl', v') (Factor.zeros (dom.project [v'])) } := by
    intro s cl' v' hp
    constructor
    · show FG.getN ⟨GM.dictSet s.muN (v', cl') (Factor.zeros (dom.project [v'])), _⟩ v cl = _
      rw [getN_mk]
      split
      · rename_i heq
        have : (v, cl) = (v', cl') := eq_of_beq heq
        obtain ⟨rfl, rfl⟩ := Prod.mk.inj this
        rfl
      · exact hp.1
    · show FG.getF ⟨_, GM.dictSet s.muF (cl', v') (Factor.zeros (dom.project [v']))⟩ cl v = _
      rw [getF_mk]
      split
      · rename_i heq
        have : (cl, v) = (cl', v') := eq_of_beq heq
        obtain ⟨rfl, rfl⟩ := Prod.mk.inj this
        rfl
      · exact hp.2
  have hstep_set : ∀ (s : FG.State ℝ),
      P { muN := GM.dictSet s.muN (v, cl) (Factor.zeros (dom.project [v])),
          muF := GM.dictSet s.muF (cl, v) (Factor.zeros (dom.project [v])) } := by
    intro s
    constructor
    · show FG.getN ⟨GM.dictSet s.muN (v, cl) (Factor.zeros (dom.project [v])), _⟩ v cl = _
      rw [getN_mk]; simp
    · show FG.getF ⟨_, GM.dictSet s.muF (cl, v) (Factor.zeros (dom.project [v]))⟩ cl v = _
      rw [getF_mk]; simp
  have hP : P (FG.initMessages dom cliques) := by
    unfold FG.initMessages
    apply foldl_establish P _ cliques cl hcl
    · intro s cl' hp
      exact foldl_inv P _ _ _ hp (fun s v' _ hp => hstep_keep s cl' v' hp)
    · intro s
      exact foldl_establish P _ cl v hv (fun s v' hp => hstep_keep s cl v' hp) hstep_set s
  rw [hP.1, hP.2]
  exact ⟨zeros_NOK dom v, (zeros_NOK dom v).1, (zeros_NOK dom v).2.1⟩

/-! ### conclusion -/

theorem lbp_state_inv (dom : Dom) (cliques : List Clique) (pots : CliqueVec ℝ) (h : LbpHyp dom cliques pots)
    (iters : Nat) :
    Inv dom cliques (iterate (FG.lbpSweep dom cliques pots) iters (FG.initMessages dom cliques)) :=
  iterate_inv (Inv dom cliques) _ (fun s hs => lbpSweep_inv dom cliques pots h s hs) iters _
    (initMessages_inv dom cliques)

/-- under the invariant the belief of a clique has the flat data of its potential -/
theorem belief_datavector (dom : Dom) (cliques : List Clique) (pots : CliqueVec ℝ) (h : LbpHyp dom cliques pots)
    (s : FG.State ℝ) (hs : Inv dom cliques s) (cl : Clique) (hcl : cl ∈ cliques) :
    (addSum (pots.get cl) (pySum (cl.map (fun n => FG.getN s n cl)))).datavector = (pots.get cl).datavector := by
  have hpre := pre_zeroSum dom cliques s hs cl hcl
  rw [← (h.potWF cl hcl).2] at hpre
  exact (addSum_zeroSum (pots.get cl) _ (h.potWF cl hcl).1 hpre).2.2

end PGM.Oracle
