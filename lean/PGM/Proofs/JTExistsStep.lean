import PGM.Proofs.JTExistsFam
/-!
# Removing the first vertex of a perfect elimination order

`g' = g.removeNode v` has perfect elimination order `rest`; the neighbourhood `N` of `v` is a clique;
a family of maximal cliques of `g'` yields one of `g`, either by adding `v :: N` (case A) or by
enlarging the member set-equal to `N` (case B).
-/
namespace PGM.JT

theorem mem_removeNode (g : Graph) (v a : Attr) :
    a ∈ (g.removeNode v).nodes ↔ a ∈ g.nodes ∧ a ≠ v := by
  simp [Graph.removeNode]

theorem adj_false_removeNode {g : Graph} {v a b : Attr} (ha : a ≠ v) (hb : b ≠ v)
    (h : (g.removeNode v).adj a b = false) : g.adj a b = false := by
  by_contra hc
  have hc' : g.adj a b = true := by simpa using hc
  rw [(adj_removeNode g v a b).mpr ⟨hc', ha, hb⟩] at h
  exact absurd h (by simp)

theorem IsPEO.tail {g : Graph} {v : Attr} {rest : List Attr} (h : IsPEO g (v :: rest)) :
    IsPEO (g.removeNode v) rest := by
  obtain ⟨hnd, hmem, hpeo⟩ := h
  have hv : v ∉ rest := (List.nodup_cons.mp hnd).1
  refine ⟨(List.nodup_cons.mp hnd).2, ?_, ?_⟩
  · intro a
    rw [mem_removeNode, hmem, List.mem_cons]
    constructor
    · rintro ⟨h1 | h1, h2⟩
      · exact absurd h1 h2
      · exact h1
    · intro h1
      exact ⟨Or.inr h1, by rintro rfl; exact hv h1⟩
  · intro pre post u hsplit x hx y hy hxy hux huy
    have hxr : x ∈ rest := by rw [hsplit]; simp [hx]
    have hyr : y ∈ rest := by rw [hsplit]; simp [hy]
    have hxv : x ≠ v := by rintro rfl; exact hv hxr
    have hyv : y ≠ v := by rintro rfl; exact hv hyr
    rw [adj_removeNode] at hux huy ⊢
    refine ⟨hpeo (v :: pre) post u (by rw [hsplit]; rfl) x hx y hy hxy hux.1 huy.1, hxv, hyv⟩

theorem IsClique.of_remove {g : Graph} {v : Attr} {c : Clique}
    (h : IsClique (g.removeNode v) c) : IsClique g c ∧ v ∉ c := by
  obtain ⟨h1, h2, h3⟩ := h
  refine ⟨⟨h1, fun a ha => ((mem_removeNode g v a).mp (h2 a ha)).1, ?_⟩, ?_⟩
  · intro a ha b hb hab
    exact ((adj_removeNode g v a b).mp (h3 a ha b hb hab)).1
  · intro hv
    exact ((mem_removeNode g v v).mp (h2 v hv)).2 rfl

theorem IsClique.remove {g : Graph} {v : Attr} {c : Clique} (h : IsClique g c) (hv : v ∉ c) :
    IsClique (g.removeNode v) c := by
  obtain ⟨h1, h2, h3⟩ := h
  have hne : ∀ a ∈ c, a ≠ v := fun a ha => by rintro rfl; exact hv ha
  refine ⟨h1, fun a ha => (mem_removeNode g v a).mpr ⟨h2 a ha, hne a ha⟩, ?_⟩
  intro a ha b hb hab
  exact (adj_removeNode g v a b).mpr ⟨h3 a ha b hb hab, hne a ha, hne b hb⟩

theorem not_mem_nbrs_self (g : Graph) (v : Attr) : v ∉ g.nbrs v := by
  intro h
  have := (mem_nbrs.mp h).2
  rw [adj_irrefl] at this
  exact absurd this (by simp)

theorem nbrs_clique {g : Graph} {v : Attr} {rest : List Attr} (hnd : g.nodes.Nodup)
    (h : IsPEO g (v :: rest)) : IsClique g (g.nbrs v) := by
  obtain ⟨_, hmem, hpeo⟩ := h
  have hrest : ∀ a ∈ g.nbrs v, a ∈ rest := by
    intro a ha
    have h1 := (hmem a).mp (mem_nbrs.mp ha).1
    rcases List.mem_cons.mp h1 with rfl | h1
    · exact absurd ha (not_mem_nbrs_self g a)
    · exact h1
  refine ⟨hnd.filter _, fun a ha => (mem_nbrs.mp ha).1, ?_⟩
  intro a ha b hb hab
  exact hpeo [] rest v rfl a (hrest a ha) b (hrest b hb) hab (mem_nbrs.mp ha).2 (mem_nbrs.mp hb).2

/-- `v` together with any clique inside its neighbourhood is a clique -/
theorem cons_clique {g : Graph} {v : Attr} {k : Clique} (hv : v ∈ g.nodes) (hk : IsClique g k)
    (hsub : ∀ a ∈ k, a ∈ g.nbrs v) : IsClique g (v :: k) := by
  have hvk : v ∉ k := fun h => not_mem_nbrs_self g v (hsub v h)
  refine ⟨List.nodup_cons.mpr ⟨hvk, hk.1⟩, ?_, ?_⟩
  · intro a ha
    rcases List.mem_cons.mp ha with rfl | ha
    · exact hv
    · exact hk.2.1 a ha
  · intro a ha b hb hab
    rcases List.mem_cons.mp ha with hav | ha <;> rcases List.mem_cons.mp hb with hbv | hb
    · exact absurd (hav.trans hbv.symm) hab
    · rw [hav]; exact (mem_nbrs.mp (hsub b hb)).2
    · rw [hbv, adj_symm]; exact (mem_nbrs.mp (hsub a ha)).2
    · exact hk.2.2 a ha b hb hab

/-- a clique through `v` lies inside `v :: N` -/
theorem clique_through {g : Graph} {v : Attr} {c : Clique} (hc : IsClique g c) (hv : v ∈ c) :
    ∀ a ∈ c, a ∈ v :: g.nbrs v := by
  intro a ha
  by_cases hav : a = v
  · simp [hav]
  · refine List.mem_cons_of_mem _ (mem_nbrs.mpr ⟨hc.2.1 a ha, hc.2.2 v hv a ha (Ne.symm hav)⟩)

/-- the single-vertex graph -/
theorem fam_single {g : Graph} {v : Attr} (hmem : ∀ a, a ∈ g.nodes ↔ a ∈ [v]) :
    IsMaxCliqueFamily g [[v]] := by
  refine ⟨?_, ?_, ?_, by simp⟩
  · intro n hn
    have : n = [v] := by simpa using hn
    subst this
    refine ⟨⟨by simp, ?_, ?_⟩, by simp⟩
    · intro a ha; exact (hmem a).mpr ha
    · intro a ha b hb hab
      have ha' : a = v := by simpa using ha
      have hb' : b = v := by simpa using hb
      exact absurd (ha'.trans hb'.symm) hab
  · intro n hn u hu hun
    have : n = [v] := by simpa using hn
    subst this
    exact absurd ((hmem u).mp hu) hun
  · intro c hc
    exact ⟨[v], by simp, fun a ha => (hmem a).mp (hc.2.1 a ha)⟩

section step
variable {g : Graph} {v : Attr} {ns' : List Clique}

/-- members of a family of `g.removeNode v`, seen in `g` -/
theorem fam_member (hfam : IsMaxCliqueFamily (g.removeNode v) ns') {n : Clique} (hn : n ∈ ns') :
    IsClique g n ∧ n ≠ [] ∧ v ∉ n :=
  ⟨(hfam.clique n hn).1.of_remove.1, (hfam.clique n hn).2, (hfam.clique n hn).1.of_remove.2⟩

theorem fam_max_ne (hfam : IsMaxCliqueFamily (g.removeNode v) ns') {n : Clique} (hn : n ∈ ns')
    {u : Attr} (hu : u ∈ g.nodes) (huv : u ≠ v) (hun : u ∉ n) : ∃ a ∈ n, g.adj u a = false := by
  obtain ⟨a, ha, hadj⟩ := hfam.maximal n hn u ((mem_removeNode g v u).mpr ⟨hu, huv⟩) hun
  have hav : a ≠ v := by rintro rfl; exact (fam_member hfam hn).2.2 ha
  exact ⟨a, ha, adj_false_removeNode huv hav hadj⟩

theorem fam_max (hfam : IsMaxCliqueFamily (g.removeNode v) ns') {n : Clique} (hn : n ∈ ns')
    (hnN : ¬ ∀ x ∈ n, x ∈ g.nbrs v) :
    ∀ u ∈ g.nodes, u ∉ n → ∃ a ∈ n, g.adj u a = false := by
  intro u hu hun
  by_cases huv : u = v
  · subst huv
    by_contra hcon
    apply hnN
    intro x hx
    refine mem_nbrs.mpr ⟨(fam_member hfam hn).1.2.1 x hx, ?_⟩
    by_contra hadj
    exact hcon ⟨x, hx, by simpa using hadj⟩
  · exact fam_max_ne hfam hn hu huv hun

theorem fam_complete (hfam : IsMaxCliqueFamily (g.removeNode v) ns') {c : Clique}
    (hc : IsClique g c) : (∀ a ∈ c, a ∈ v :: g.nbrs v) ∨ ∃ n ∈ ns', ∀ a ∈ c, a ∈ n := by
  by_cases hv : v ∈ c
  · exact Or.inl (clique_through hc hv)
  · exact Or.inr (hfam.complete c (hc.remove hv))

/-- case A: the neighbourhood of `v` lies strictly inside a member `K` -/
theorem fam_caseA (hnd : g.nodes.Nodup) {rest : List Attr} (hpeo : IsPEO g (v :: rest))
    (hfam : IsMaxCliqueFamily (g.removeNode v) ns') {K : Clique} (hK : K ∈ ns')
    (hNK : ∀ x ∈ g.nbrs v, x ∈ K) (hKN : ¬ ∀ x ∈ K, x ∈ g.nbrs v) :
    IsMaxCliqueFamily g ((v :: g.nbrs v) :: ns') := by
  have hvg : v ∈ g.nodes := (hpeo.2.1 v).mpr (by simp)
  have hN := nbrs_clique hnd hpeo
  have hnot : ∀ n ∈ ns', ¬ ∀ x ∈ n, x ∈ g.nbrs v := by
    intro n hn hsub
    have : n = K := hfam.eq_of_sub hn hK (fun x hx => hNK x (hsub x hx))
    subst this
    exact hKN hsub
  refine ⟨?_, ?_, ?_, ?_⟩
  · intro n hn
    rcases List.mem_cons.mp hn with rfl | hn
    · exact ⟨cons_clique hvg hN (fun a ha => ha), by simp⟩
    · exact ⟨(fam_member hfam hn).1, (fam_member hfam hn).2.1⟩
  · intro n hn
    rcases List.mem_cons.mp hn with rfl | hn
    · intro u hu hun
      refine ⟨v, by simp, ?_⟩
      rw [adj_symm]
      by_contra hadj
      exact hun (List.mem_cons_of_mem _ (mem_nbrs.mpr ⟨hu, by simpa using hadj⟩))
    · exact fam_max hfam hn (hnot n hn)
  · intro c hc
    rcases fam_complete hfam hc with h | ⟨n, hn, h⟩
    · exact ⟨_, by simp, h⟩
    · exact ⟨n, by simp [hn], h⟩
  · refine List.pairwise_cons.mpr ⟨?_, hfam.distinct⟩
    intro n hn
    rw [sameSet_eq_false_iff]
    rintro ⟨h1, _⟩
    exact (fam_member hfam hn).2.2 (h1 v (by simp))

/-- the renaming of case B -/
def growAt (K : Clique) (v : Attr) (n : Clique) : Clique := if n = K then v :: K else n

theorem growAt_self (K : Clique) (v : Attr) : growAt K v K = v :: K := by simp [growAt]
theorem growAt_ne {K n : Clique} (v : Attr) (h : n ≠ K) : growAt K v n = n := by simp [growAt, h]

theorem sub_growAt (K : Clique) (v : Attr) (n : Clique) : ∀ a ∈ n, a ∈ growAt K v n := by
  intro a ha
  by_cases h : n = K
  · subst h; rw [growAt_self]; exact List.mem_cons_of_mem _ ha
  · rw [growAt_ne v h]; exact ha

theorem mem_growAt {K n : Clique} {v a : Attr} (h : a ∈ growAt K v n) : a ∈ n ∨ (a = v ∧ n = K) := by
  by_cases hn : n = K
  · subst hn
    rw [growAt_self] at h
    rcases List.mem_cons.mp h with h | h
    · exact Or.inr ⟨h, rfl⟩
    · exact Or.inl h
  · rw [growAt_ne v hn] at h; exact Or.inl h

/-- case B: the neighbourhood of `v` is (set-equal to) a member `K` -/
theorem fam_caseB {rest : List Attr} (hpeo : IsPEO g (v :: rest))
    (hfam : IsMaxCliqueFamily (g.removeNode v) ns') {K : Clique} (hK : K ∈ ns')
    (hNK : ∀ x ∈ g.nbrs v, x ∈ K) (hKN : ∀ x ∈ K, x ∈ g.nbrs v) :
    IsMaxCliqueFamily g (ns'.map (growAt K v)) := by
  have hvg : v ∈ g.nodes := (hpeo.2.1 v).mpr (by simp)
  have hnot : ∀ n ∈ ns', n ≠ K → ¬ ∀ x ∈ n, x ∈ g.nbrs v := by
    intro n hn hne hsub
    exact hne (hfam.eq_of_sub hn hK (fun x hx => hNK x (hsub x hx)))
  have hKc : IsClique g (v :: K) := cons_clique hvg (fam_member hfam hK).1 hKN
  refine ⟨?_, ?_, ?_, ?_⟩
  · intro m hm
    obtain ⟨n, hn, rfl⟩ := List.mem_map.mp hm
    by_cases h : n = K
    · subst h; rw [growAt_self]; exact ⟨hKc, by simp⟩
    · rw [growAt_ne v h]; exact ⟨(fam_member hfam hn).1, (fam_member hfam hn).2.1⟩
  · intro m hm
    obtain ⟨n, hn, rfl⟩ := List.mem_map.mp hm
    by_cases h : n = K
    · subst h
      rw [growAt_self]
      intro u hu hun
      have huv : u ≠ v := by rintro rfl; exact hun (by simp)
      have hun' : u ∉ n := fun h => hun (List.mem_cons_of_mem _ h)
      obtain ⟨a, ha, hadj⟩ := fam_max_ne hfam hn hu huv hun'
      exact ⟨a, List.mem_cons_of_mem _ ha, hadj⟩
    · rw [growAt_ne v h]
      exact fam_max hfam hn (hnot n hn h)
  · intro c hc
    rcases fam_complete hfam hc with h | ⟨n, hn, h⟩
    · refine ⟨growAt K v K, List.mem_map_of_mem hK, ?_⟩
      rw [growAt_self]
      intro a ha
      rcases List.mem_cons.mp (h a ha) with h' | h'
      · simp [h']
      · exact List.mem_cons_of_mem _ (hNK a h')
    · exact ⟨growAt K v n, List.mem_map_of_mem hn, fun a ha => sub_growAt K v n a (h a ha)⟩
  · rw [List.pairwise_map]
    refine hfam.distinct.imp_of_mem ?_
    intro a b ha hb hab
    rw [sameSet_eq_false_iff] at hab ⊢
    rintro ⟨h1, h2⟩
    apply hab
    constructor
    · intro x hx
      rcases mem_growAt (h1 x (sub_growAt K v a x hx)) with h | ⟨h, _⟩
      · exact h
      · subst h; exact absurd hx (fam_member hfam ha).2.2
    · intro x hx
      rcases mem_growAt (h2 x (sub_growAt K v b x hx)) with h | ⟨h, _⟩
      · exact h
      · subst h; exact absurd hx (fam_member hfam hb).2.2

theorem built_caseA {es' : List (Clique × Clique)} (hb : Built ns' es')
    (hfam : IsMaxCliqueFamily (g.removeNode v) ns') {K : Clique} (hK : K ∈ ns')
    (hNK : ∀ x ∈ g.nbrs v, x ∈ K) :
    Built ((v :: g.nbrs v) :: ns') ((v :: g.nbrs v, K) :: es') := by
  refine Built.leaf _ K hb hK ?_ ?_
  · intro h
    exact (fam_member hfam h).2.2 (by simp)
  · intro a ha n hn han
    rcases List.mem_cons.mp ha with rfl | ha
    · exact absurd han (fam_member hfam hn).2.2
    · exact hNK a ha

theorem built_caseB {es' : List (Clique × Clique)} (hb : Built ns' es')
    (hfam : IsMaxCliqueFamily (g.removeNode v) ns') (K : Clique) :
    Built (ns'.map (growAt K v)) (es'.map (fun e => (growAt K v e.1, growAt K v e.2))) := by
  refine hb.map (growAt K v) (fun n _ => sub_growAt K v n) ?_ ?_
  · intro n hn m hm hnm a h1 h2
    rcases mem_growAt h1 with k1 | ⟨k1, k1'⟩ <;> rcases mem_growAt h2 with k2 | ⟨k2, k2'⟩
    · exact ⟨k1, k2⟩
    · subst k2; exact absurd k1 (fam_member hfam hn).2.2
    · subst k1; exact absurd k2 (fam_member hfam hm).2.2
    · exact absurd (k1'.trans k2'.symm) hnm
  · intro n hn m hm heq
    by_cases h1 : n = K <;> by_cases h2 : m = K
    · rw [h1, h2]
    · subst h1
      rw [growAt_self, growAt_ne v h2] at heq
      exact absurd (heq ▸ List.mem_cons_self) (fam_member hfam hm).2.2
    · subst h2
      rw [growAt_self, growAt_ne v h1] at heq
      exact absurd (heq ▸ List.mem_cons_self) (fam_member hfam hn).2.2
    · rwa [growAt_ne v h1, growAt_ne v h2] at heq

end step

/-- along a perfect elimination order, build a tree over *some* family of maximal cliques -/
theorem exists_built : ∀ (order : List Attr) (g : Graph), g.nodes.Nodup → IsPEO g order →
    order ≠ [] → ∃ ns es, Built ns es ∧ IsMaxCliqueFamily g ns := by
  intro order
  induction order with
  | nil => intro g _ _ h; exact absurd rfl h
  | cons v rest ih =>
    intro g hnd hpeo _
    by_cases hrest : rest = []
    · subst hrest
      exact ⟨[[v]], [], Built.single _, fam_single hpeo.2.1⟩
    · have hnd' : (g.removeNode v).nodes.Nodup := hnd.filter _
      obtain ⟨ns', es', hb, hfam⟩ := ih (g.removeNode v) hnd' hpeo.tail hrest
      have hN : IsClique (g.removeNode v) (g.nbrs v) :=
        (nbrs_clique hnd hpeo).remove (not_mem_nbrs_self g v)
      obtain ⟨K, hK, hNK⟩ := hfam.complete _ hN
      by_cases hKN : ∀ x ∈ K, x ∈ g.nbrs v
      · exact ⟨_, _, built_caseB hb hfam K, fam_caseB hpeo hfam hK hNK hKN⟩
      · exact ⟨_, _, built_caseA hb hfam hK hNK, fam_caseA hnd hpeo hfam hK hNK hKN⟩

end PGM.JT
