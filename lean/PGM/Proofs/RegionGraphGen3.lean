import PGM.Proofs.RegionGraphGen2
/-!
# `build_graph`, non-convex part: the regenerated N / D / B dictionaries and counting numbers against the model

* dictionary folds under one key (`foldl_dictSet_key`, `foldl2_dictSet_key`), fresh keys (`foldl_dictSet_fresh`), pair states
  (`foldl_pair_split`);
* running sets are `dedup` (`dedup_append_fold`), `set(a) - {r} - set(b)` is `outsideParents` (`outside_eq`);
* `Bmin_eq`, `NDmin_eq`, `Bsat_eq`, `NDsat_eq`: the four blocks of the source as regenerated (their text, with the dictionaries
  `parents` / `children` / `descendants` / `downp` abstract) are the model's `beliefSetMin`, `msgSetsMin`, `beliefSetSat`, `msgSetsSat`;
* `moebius_*`: the memoised recursion computes the model's Möbius numbers.
-/
namespace PGM.RGGen
open PGM PGM.JT PGM.RG PGM.Convex PGM.Oracle
open PGM.GM (dictSet)
set_option linter.unusedSectionVars false
set_option linter.unusedVariables false

section dict
variable {κ β γ δ : Type} [BEq κ] [LawfulBEq κ]

theorem look_dictSet_self (d : List (κ × List β)) (k : κ) (v : List β) : RG.look (dictSet d k v) k = v := by
  unfold RG.look
  rw [PGM.Convex.lookup_dictSet]
  simp

/-- a loop that only updates `B[k]` from its current value, started right after a store to `B[k]` -/
theorem foldl_dictSet_key (k : κ) (step : List β → γ → List β) (xs : List γ) (B0 : List (κ × List β)) (v : List β) :
    xs.foldl (fun B x => dictSet B k (step (RG.look B k) x)) (dictSet B0 k v) = dictSet B0 k (xs.foldl step v) := by
  induction xs generalizing v with
  | nil => rfl
  | cons x xs ih =>
    rw [List.foldl_cons, look_dictSet_self, dictSet_dictSet, ih, List.foldl_cons]

theorem foldl2_dictSet_key (k : κ) (step : List β → γ → δ → List β) (inner : γ → List δ) (xs : List γ)
    (B0 : List (κ × List β)) (v : List β) :
    xs.foldl (fun B x => (inner x).foldl (fun B y => dictSet B k (step (RG.look B k) x y)) B) (dictSet B0 k v)
      = dictSet B0 k (xs.foldl (fun s x => (inner x).foldl (fun s y => step s x y) s) v) := by
  induction xs generalizing v with
  | nil => rfl
  | cons x xs ih =>
    rw [List.foldl_cons, foldl_dictSet_key k (fun s y => step s x y), ih, List.foldl_cons]

theorem foldl_dictSet_fresh {β' : Type} (S : κ → β') (l : List κ) (acc : List (κ × β')) (h : (acc.map Prod.fst ++ l).Nodup) :
    l.foldl (fun B k => dictSet B k (S k)) acc = acc ++ l.map (fun k => (k, S k)) := by
  induction l generalizing acc with
  | nil => simp
  | cons x xs ih =>
    have hx : x ∉ acc.map Prod.fst := by
      intro hm
      exact (List.nodup_append.mp h).2.2 x hm x (by simp) rfl
    rw [List.foldl_cons, PGM.GMGen.dictSet_fresh acc x (S x) hx, ih]
    · simp
    · simpa using h

theorem foldl_pair_split {A B X : Type} (f : A → X → A) (g : B → X → B) (l : List X) (a : A) (b : B) :
    l.foldl (fun (st : A × B) x => (f st.1 x, g st.2 x)) (a, b) = (l.foldl f a, l.foldl g b) := by
  induction l generalizing a b with
  | nil => rfl
  | cons x xs ih => rw [List.foldl_cons, ih]; rfl

end dict

/-! ## sets -/

theorem setAdd_eq {β : Type} [BEq β] : (fun (s : List β) (x : β) => RGG.setAdd s x) = (fun acc x => if acc.contains x then acc else acc ++ [x]) := rfl

/-- `dedup (l1 ++ l2)`: continue the running set -/
theorem dedup_eq_fold {β : Type} [BEq β] (l : List β) : RG.dedup l = l.foldl (fun s x => RGG.setAdd s x) [] := rfl

theorem contains_dedup (l : List Region) (x : Region) : (RG.dedup l).contains x = l.contains x := by
  rw [Bool.eq_iff_iff, List.contains_iff_mem, List.contains_iff_mem, mem_dedup]

/-- `set(X) - {r} - set(Y)` is the model's filter -/
theorem outside_eq (X Y : List Region) (r : Region) :
    RGG.setMinus (RGG.setMinus (RGG.pySet X) [r]) (RGG.pySet Y) = (RG.dedup X).filter (fun p => p != r && !Y.contains p) := by
  unfold RGG.setMinus RGG.pySet
  rw [List.filter_filter]
  apply List.filter_congr
  intro p _
  rw [contains_dedup]
  have : ([r] : List Region).contains p = (p == r) := by
    simp only [List.contains, List.elem]
    cases (p == r) <;> rfl
  rw [this, Bool.and_comm]
  rfl

/-- lines 194-200 (minimal branch, `B`) as regenerated -/
theorem Bmin_eq (regions : List Region) (parents desc : List (Region × List Region)) (hnd : regions.Nodup) :
    regions.foldl (fun (B : List (Region × List Edge)) (r : Region) =>
      (RGG.look desc r).foldl (fun (B : List (Region × List Edge)) (d : Region) =>
        (RGG.setMinus (RGG.setMinus (RGG.pySet (RGG.look parents d)) [r]) (RGG.pySet (RGG.look desc r))).foldl
          (fun (B : List (Region × List Edge)) (p : Region) => dictSet B r (RGG.setAdd (RGG.look B r) (p, d))) B)
        ((RGG.look parents r).foldl (fun (B : List (Region × List Edge)) (p : Region) => dictSet B r (RGG.setAdd (RGG.look B r) (p, r)))
          (dictSet B r []))) []
      = regions.map (fun r => (r, beliefSetMin parents desc r)) := by
  have hbody : ∀ (B : List (Region × List Edge)) (r : Region),
      (RGG.look desc r).foldl (fun (B : List (Region × List Edge)) (d : Region) =>
        (RGG.setMinus (RGG.setMinus (RGG.pySet (RGG.look parents d)) [r]) (RGG.pySet (RGG.look desc r))).foldl
          (fun (B : List (Region × List Edge)) (p : Region) => dictSet B r (RGG.setAdd (RGG.look B r) (p, d))) B)
        ((RGG.look parents r).foldl (fun (B : List (Region × List Edge)) (p : Region) => dictSet B r (RGG.setAdd (RGG.look B r) (p, r)))
          (dictSet B r []))
      = dictSet B r (beliefSetMin parents desc r) := by
    intro B r
    have h1 := foldl_dictSet_key r (fun (s : List Edge) (p : Region) => RGG.setAdd s (p, r)) (RG.look parents r) B []
    have h2 := fun v => foldl2_dictSet_key r (fun (s : List Edge) (d p : Region) => RGG.setAdd s (p, d))
      (fun d => RGG.setMinus (RGG.setMinus (RGG.pySet (RG.look parents d)) [r]) (RGG.pySet (RG.look desc r))) (RG.look desc r) B v
    simp only [look_eq]
    rw [h1, h2]
    congr 1
    unfold beliefSetMin outsideParents
    rw [dedup_eq_fold, List.foldl_append, List.foldl_map, List.foldl_flatMap]
    simp only [List.foldl_map, outside_eq]
  simp only [hbody]
  rw [foldl_dictSet_fresh (fun r => beliefSetMin parents desc r) regions [] (by simpa using hnd)]
  simp


/-! ## N / D of the minimal branch -/

abbrev EDict := List (Edge × List Edge)

theorem minus_single (X : List Region) (p : Region) :
    RGG.setMinus (RGG.pySet X) [p] = (RG.dedup X).filter (fun s => s != p) := by
  unfold RGG.setMinus RGG.pySet
  apply List.filter_congr
  intro s _
  have : ([p] : List Region).contains s = (s == p) := by
    simp only [List.contains, List.elem]
    cases (s == p) <;> rfl
  rw [this]
  rfl

theorem cancel_left (n d : List Edge) : RGG.setMinus n (RGG.setInter n d) = n.filter (fun e => !d.contains e) := by
  unfold RGG.setMinus RGG.setInter
  apply List.filter_congr
  intro e he
  congr 1
  rw [Bool.eq_iff_iff, List.contains_iff_mem, List.mem_filter]
  exact ⟨fun h => h.2, fun h => ⟨he, h⟩⟩

theorem cancel_right (n d : List Edge) : RGG.setMinus d (RGG.setInter n d) = d.filter (fun e => !n.contains e) := by
  unfold RGG.setMinus RGG.setInter
  apply List.filter_congr
  intro e he
  congr 1
  rw [Bool.eq_iff_iff, List.contains_iff_mem, List.mem_filter, List.contains_iff_mem, List.contains_iff_mem]
  exact ⟨fun h => h.1, fun h => ⟨h, he⟩⟩

/-- the body of the double loop of lines 202-217, as regenerated -/
def ndBody (parents desc : List (Region × List Region)) (st : EDict × EDict) (p r : Region) : EDict × EDict :=
  let N := st.1
  let D := st.2
  let N := (dictSet N (p, r) [])
  let D := (dictSet D (p, r) [])
  let N := (RGG.look parents p).foldl (fun (N : EDict) (s : Region) => dictSet N (p, r) (RGG.setAdd (RGG.look N (p, r)) (s, p))) N
  let N := (RGG.look desc p).foldl (fun (N : EDict) (d : Region) =>
    (RGG.setMinus (RGG.setMinus (RGG.pySet (RGG.look parents d)) [p]) (RGG.pySet (RGG.look desc p))).foldl
      (fun (N : EDict) (s : Region) => dictSet N (p, r) (RGG.setAdd (RGG.look N (p, r)) (s, d))) N) N
  let D := (RGG.setMinus (RGG.pySet (RGG.look parents r)) [p]).foldl
    (fun (D : EDict) (s : Region) => dictSet D (p, r) (RGG.setAdd (RGG.look D (p, r)) (s, r))) D
  let D := (RGG.look desc r).foldl (fun (D : EDict) (d : Region) =>
    (RGG.setMinus (RGG.setMinus (RGG.pySet (RGG.look parents d)) [r]) (RGG.pySet (RGG.look desc r))).foldl
      (fun (D : EDict) (p1 : Region) => dictSet D (p, r) (RGG.setAdd (RGG.look D (p, r)) (p1, d))) D) D
  let cancel := (RGG.setInter (RGG.look N (p, r)) (RGG.look D (p, r)))
  let N := (dictSet N (p, r) (RGG.setMinus (RGG.look N (p, r)) cancel))
  let D := (dictSet D (p, r) (RGG.setMinus (RGG.look D (p, r)) cancel))
  (N, D)

theorem ndBody_eq (parents desc : List (Region × List Region)) (st : EDict × EDict) (p r : Region) :
    ndBody parents desc st p r
      = (dictSet st.1 (p, r) (msgSetsMin parents desc p r).1, dictSet st.2 (p, r) (msgSetsMin parents desc p r).2) := by
  unfold ndBody
  simp only [look_eq]
  have hN1 := foldl_dictSet_key (p, r) (fun (s : List Edge) (x : Region) => RGG.setAdd s (x, p)) (RG.look parents p) st.1 []
  have hN2 := fun v => foldl2_dictSet_key (p, r) (fun (s : List Edge) (d x : Region) => RGG.setAdd s (x, d))
    (fun d => RGG.setMinus (RGG.setMinus (RGG.pySet (RG.look parents d)) [p]) (RGG.pySet (RG.look desc p))) (RG.look desc p) st.1 v
  have hD1 := foldl_dictSet_key (p, r) (fun (s : List Edge) (x : Region) => RGG.setAdd s (x, r))
    (RGG.setMinus (RGG.pySet (RG.look parents r)) [p]) st.2 []
  have hD2 := fun v => foldl2_dictSet_key (p, r) (fun (s : List Edge) (d x : Region) => RGG.setAdd s (x, d))
    (fun d => RGG.setMinus (RGG.setMinus (RGG.pySet (RG.look parents d)) [r]) (RGG.pySet (RG.look desc r))) (RG.look desc r) st.2 v
  rw [hN1, hN2, hD1, hD2]
  simp only [look_dictSet_self, dictSet_dictSet, cancel_left, cancel_right]
  have en : (RG.look desc p).foldl (fun (s : List Edge) (x : Region) =>
        (RGG.setMinus (RGG.setMinus (RGG.pySet (RG.look parents x)) [p]) (RGG.pySet (RG.look desc p))).foldl
          (fun (s : List Edge) (y : Region) => RGG.setAdd s (y, x)) s)
        ((RG.look parents p).foldl (fun (s : List Edge) (x : Region) => RGG.setAdd s (x, p)) [])
      = RG.dedup ((RG.look parents p).map (fun s => (s, p)) ++
          (RG.look desc p).flatMap (fun d => (outsideParents parents desc d p).map (fun s => (s, d)))) := by
    unfold outsideParents
    rw [dedup_eq_fold, List.foldl_append, List.foldl_map, List.foldl_flatMap]
    simp only [List.foldl_map, outside_eq]
  have ed : (RG.look desc r).foldl (fun (s : List Edge) (x : Region) =>
        (RGG.setMinus (RGG.setMinus (RGG.pySet (RG.look parents x)) [r]) (RGG.pySet (RG.look desc r))).foldl
          (fun (s : List Edge) (y : Region) => RGG.setAdd s (y, x)) s)
        ((RGG.setMinus (RGG.pySet (RG.look parents r)) [p]).foldl (fun (s : List Edge) (x : Region) => RGG.setAdd s (x, r)) [])
      = RG.dedup (((RG.dedup (RG.look parents r)).filter (fun s => s != p)).map (fun s => (s, r)) ++
          (RG.look desc r).flatMap (fun d => (outsideParents parents desc d r).map (fun p1 => (p1, d)))) := by
    unfold outsideParents
    rw [dedup_eq_fold, List.foldl_append, List.foldl_map, List.foldl_flatMap]
    simp only [List.foldl_map, outside_eq]
    simp only [minus_single]
  rw [en, ed]
  rfl

theorem pairFold2 (n d : Region → Region → List Edge) (ch : Region → List Region) (regions : List Region) :
    regions.foldl (fun (st : EDict × EDict) p => (ch p).foldl (fun (st : EDict × EDict) r =>
        (dictSet st.1 (p, r) (n p r), dictSet st.2 (p, r) (d p r))) (st.1, st.2)) ([], [])
      = ((regions.flatMap (fun p => (ch p).map (fun r => (p, r)))).foldl (fun (N : EDict) k => dictSet N k (n k.1 k.2)) [],
         (regions.flatMap (fun p => (ch p).map (fun r => (p, r)))).foldl (fun (D : EDict) k => dictSet D k (d k.1 k.2)) []) := by
  have inner : ∀ (st : EDict × EDict) (p : Region), (ch p).foldl (fun (st : EDict × EDict) r =>
        (dictSet st.1 (p, r) (n p r), dictSet st.2 (p, r) (d p r))) (st.1, st.2)
      = ((ch p).foldl (fun (N : EDict) r => dictSet N (p, r) (n p r)) st.1, (ch p).foldl (fun (D : EDict) r => dictSet D (p, r) (d p r)) st.2) :=
    fun st p => foldl_pair_split (fun (N : EDict) r => dictSet N (p, r) (n p r)) (fun (D : EDict) r => dictSet D (p, r) (d p r)) (ch p) st.1 st.2
  simp only [inner]
  rw [foldl_pair_split (fun (N : EDict) p => (ch p).foldl (fun (N : EDict) r => dictSet N (p, r) (n p r)) N)
    (fun (D : EDict) p => (ch p).foldl (fun (D : EDict) r => dictSet D (p, r) (d p r)) D)]
  rw [List.foldl_flatMap, List.foldl_flatMap]
  simp only [List.foldl_map]

/-- the dictionaries built by `N[p,r] = f p r; D[p,r] = g p r` over the edges are the model's `ND.map …` when no edge repeats -/
theorem pairFold2_fresh (n d : Region → Region → List Edge) (ch : Region → List Region) (regions : List Region)
    (hk : (regions.flatMap (fun p => (ch p).map (fun r => (p, r)))).Nodup) :
    regions.foldl (fun (st : EDict × EDict) p => (ch p).foldl (fun (st : EDict × EDict) r =>
        (dictSet st.1 (p, r) (n p r), dictSet st.2 (p, r) (d p r))) (st.1, st.2)) ([], [])
      = ((regions.flatMap (fun p => (ch p).map (fun r => ((p, r), (n p r, d p r))))).map (fun e => (e.1, e.2.1)),
         (regions.flatMap (fun p => (ch p).map (fun r => ((p, r), (n p r, d p r))))).map (fun e => (e.1, e.2.2))) := by
  rw [pairFold2, foldl_dictSet_fresh (fun (k : Edge) => n k.1 k.2) _ [] (by simpa using hk),
    foldl_dictSet_fresh (fun (k : Edge) => d k.1 k.2) _ [] (by simpa using hk)]
  simp only [List.nil_append, List.map_flatMap, List.map_map]
  rfl

/-- lines 202-217 (minimal branch, `N`, `D`) as regenerated -/
theorem NDmin_eq (regions : List Region) (children parents desc : List (Region × List Region))
    (hk : (regions.flatMap (fun p => (RG.look children p).map (fun r => (p, r)))).Nodup) :
    regions.foldl (fun (st : EDict × EDict) p => (RGG.look children p).foldl (fun (st : EDict × EDict) r =>
        ndBody parents desc st p r) (st.1, st.2)) ([], [])
      = ((regions.flatMap (fun p => (RG.look children p).map (fun r => ((p, r), msgSetsMin parents desc p r)))).map (fun e => (e.1, e.2.1)),
         (regions.flatMap (fun p => (RG.look children p).map (fun r => ((p, r), msgSetsMin parents desc p r)))).map (fun e => (e.1, e.2.2))) := by
  simp only [ndBody_eq, look_eq]
  exact pairFold2_fresh (fun p r => (msgSetsMin parents desc p r).1) (fun p r => (msgSetsMin parents desc p r).2) _ regions hk


/-! ## the saturated branch -/

theorem foldl2_append {γ δ β : Type} (inner : γ → List δ) (g : γ → δ → β) (xs : List γ) (v : List β) :
    xs.foldl (fun s x => (inner x).foldl (fun s y => s ++ [g x y]) s) v = v ++ xs.flatMap (fun x => (inner x).map (g x)) := by
  induction xs generalizing v with
  | nil => simp
  | cons x xs ih =>
    have h1 : ∀ (l : List δ) (s : List β), l.foldl (fun s y => s ++ [g x y]) s = s ++ l.map (g x) := by
      intro l
      induction l with
      | nil => intro s; simp
      | cons y ys ih2 => intro s; rw [List.foldl_cons, ih2]; simp
    rw [List.foldl_cons, h1, ih]
    simp

/-- lines 225-229 (saturated branch, `B`) as regenerated; `downpD` is the dictionary `self.downp` -/
theorem Bsat_eq (regions : List Region) (parents desc downpD : List (Region × List Region)) (hnd : regions.Nodup)
    (hdp : ∀ r ∈ regions, RG.look downpD r = RG.downp desc r) :
    regions.foldl (fun (B : List (Region × List Edge)) (r : Region) =>
      (RGG.look desc r).foldl (fun (B : List (Region × List Edge)) (rd : Region) =>
        (RGG.setMinus (RGG.pySet (RGG.look parents rd)) (RGG.look downpD r)).foldl
          (fun (B : List (Region × List Edge)) (ru : Region) => dictSet B r ((RGG.look B r) ++ [(ru, rd)])) B)
        (dictSet B r ((RGG.look parents r).map (fun ru => (ru, r))))) []
      = regions.map (fun r => (r, beliefSetSat parents desc r)) := by
  have hbody : ∀ (B : List (Region × List Edge)) (r : Region),
      (RGG.look desc r).foldl (fun (B : List (Region × List Edge)) (rd : Region) =>
        (RGG.setMinus (RGG.pySet (RGG.look parents rd)) (RGG.look downpD r)).foldl
          (fun (B : List (Region × List Edge)) (ru : Region) => dictSet B r ((RGG.look B r) ++ [(ru, rd)])) B)
        (dictSet B r ((RGG.look parents r).map (fun ru => (ru, r))))
      = dictSet B r ((RG.look parents r).map (fun ru => (ru, r)) ++ (RG.look desc r).flatMap (fun rd =>
          ((RG.dedup (RG.look parents rd)).filter (fun ru => !(RG.look downpD r).contains ru)).map (fun ru => (ru, rd)))) := by
    intro B r
    have h2 := fun v => foldl2_dictSet_key r (fun (s : List Edge) (rd ru : Region) => s ++ [(ru, rd)])
      (fun rd => RGG.setMinus (RGG.pySet (RG.look parents rd)) (RG.look downpD r)) (RG.look desc r) B v
    simp only [look_eq]
    rw [h2, foldl2_append]
    rfl
  simp only [hbody]
  rw [foldl_dictSet_fresh (fun r => (RG.look parents r).map (fun ru => (ru, r)) ++ (RG.look desc r).flatMap (fun rd =>
          ((RG.dedup (RG.look parents rd)).filter (fun ru => !(RG.look downpD r).contains ru)).map (fun ru => (ru, rd)))) regions []
        (by simpa using hnd)]
  rw [List.nil_append]
  apply List.map_congr_left
  intro r hr
  rw [hdp r hr]
  rfl

/-- lines 231-237 (saturated branch, `N`, `D`) as regenerated; `edges` is `G.edges` -/
theorem NDsat_eq (regions : List Region) (edges : List Edge) (children desc downpD : List (Region × List Region))
    (hk : (regions.flatMap (fun p => (RG.look children p).map (fun r => (p, r)))).Nodup)
    (hch : ∀ p ∈ regions, ∀ c ∈ RG.look children p, c ∈ regions)
    (hdp : ∀ r ∈ regions, RG.look downpD r = RG.downp desc r) :
    regions.foldl (fun (st : EDict × EDict) ru => (RGG.look children ru).foldl (fun (st : EDict × EDict) rd =>
        (dictSet st.1 (ru, rd) ((edges.filter (fun e => ((!(List.contains (RGG.look downpD ru) e.1)) &&
            (List.contains (RGG.setMinus (RGG.look downpD ru) (RGG.look downpD rd)) e.2)))).map (fun e => e)),
         dictSet st.2 (ru, rd) ((edges.filter (fun e => ((List.contains (RGG.setMinus (RGG.look downpD ru) (RGG.look downpD rd)) e.1) &&
            (List.contains (RGG.look downpD rd) e.2) && (e != (ru, rd))))).map (fun e => e)))) (st.1, st.2)) ([], [])
      = ((regions.flatMap (fun p => (RG.look children p).map (fun r => ((p, r), msgSetsSat edges desc p r)))).map (fun e => (e.1, e.2.1)),
         (regions.flatMap (fun p => (RG.look children p).map (fun r => ((p, r), msgSetsSat edges desc p r)))).map (fun e => (e.1, e.2.2))) := by
  have h := pairFold2_fresh
    (fun ru rd => (edges.filter (fun e => ((!(List.contains (RG.look downpD ru) e.1)) &&
            (List.contains (RGG.setMinus (RG.look downpD ru) (RG.look downpD rd)) e.2)))).map (fun e => e))
    (fun ru rd => (edges.filter (fun e => ((List.contains (RGG.setMinus (RG.look downpD ru) (RG.look downpD rd)) e.1) &&
            (List.contains (RG.look downpD rd) e.2) && (e != (ru, rd))))).map (fun e => e))
    (fun p => RG.look children p) regions hk
  simp only [look_eq]
  rw [h]
  have e : (regions.flatMap (fun p => (RG.look children p).map (fun r => ((p, r),
        (edges.filter (fun e => ((!(List.contains (RG.look downpD p) e.1)) &&
            (List.contains (RGG.setMinus (RG.look downpD p) (RG.look downpD r)) e.2)))).map (fun e => e),
        (edges.filter (fun e => ((List.contains (RGG.setMinus (RG.look downpD p) (RG.look downpD r)) e.1) &&
            (List.contains (RG.look downpD r) e.2) && (e != (p, r))))).map (fun e => e)))))
      = regions.flatMap (fun p => (RG.look children p).map (fun r => ((p, r), msgSetsSat edges desc p r))) := by
    apply List.flatMap_congr
    intro p hp
    apply List.map_congr_left
    intro r hr
    rw [hdp p hp, hdp r (hch p hp r hr), List.map_id', List.map_id']
    rfl
  rw [e]


/-! ## the memoised Möbius recursion (generated side of the uniqueness argument)

`G` is any function with the two defining equations of the regenerated `get_counting_number` (both copies, `buildGraphNM_…` and
`buildGraphNS_…`, satisfy them by `rfl`).  For a function `c` with `c r = 1 − Σ_{a ∈ ancestors r} c a` and a rank that decreases
along `ancestors` (acyclicity), a call with enough depth returns `c r`, stores it, and keeps the dictionary consistent with `c`. -/

abbrev Memo := List (Region × Int)

def MemoOK (c : Region → Int) (m : Memo) : Prop := ∀ k v, m.lookup k = some v → v = c k
def MemoLe (m m' : Memo) : Prop := ∀ k, (m.lookup k).isSome = true → (m'.lookup k).isSome = true

/-- the defining equations of the regenerated recursion -/
def IsGcn (anc : List (Region × List Region)) (G : Nat → Memo → Region → Int × Memo) : Prop :=
  (∀ m r, G 0 m r = (0, m)) ∧
  (∀ fuel m r, G (fuel + 1) m r =
    if !(RGG.dictHas m r) then
      (RGG.intGet (dictSet ((RGG.look anc r).foldl (fun (st : Int × Memo) s => (st.1 + (G fuel st.2 s).1, (G fuel st.2 s).2)) (0, m)).2 r
          ((1 : Int) - ((RGG.look anc r).foldl (fun (st : Int × Memo) s => (st.1 + (G fuel st.2 s).1, (G fuel st.2 s).2)) (0, m)).1)) r,
       dictSet ((RGG.look anc r).foldl (fun (st : Int × Memo) s => (st.1 + (G fuel st.2 s).1, (G fuel st.2 s).2)) (0, m)).2 r
          ((1 : Int) - ((RGG.look anc r).foldl (fun (st : Int × Memo) s => (st.1 + (G fuel st.2 s).1, (G fuel st.2 s).2)) (0, m)).1))
    else (RGG.intGet m r, m))

theorem memoOK_set (c : Region → Int) (m : Memo) (r : Region) (h : MemoOK c m) : MemoOK c (dictSet m r (c r)) := by
  intro k v hk
  rw [PGM.Convex.lookup_dictSet] at hk
  by_cases e : k = r
  · subst e
    simp at hk
    exact hk.symm
  · have : (k == r) = false := by simpa using e
    rw [this] at hk
    exact h k v hk

theorem memoLe_set (m : Memo) (r : Region) (v : Int) : MemoLe m (dictSet m r v) := by
  intro k hk
  rw [PGM.Convex.lookup_dictSet]
  by_cases e : (k == r) = true
  · simp [e]
  · simp [e, hk]

theorem gcn_spec (anc : List (Region × List Region)) (G : Nat → Memo → Region → Int × Memo) (hG : IsGcn anc G)
    (c : Region → Int) (rank : Region → Nat) (S : List Region)
    (hrec : ∀ r ∈ S, c r = 1 - ((RG.look anc r).map c).foldl (· + ·) 0)
    (hrank : ∀ r ∈ S, ∀ a ∈ RG.look anc r, rank a < rank r ∧ a ∈ S) :
    ∀ (fuel : Nat) (m : Memo) (r : Region), r ∈ S → MemoOK c m → rank r < fuel →
      (G fuel m r).1 = c r ∧ MemoOK c (G fuel m r).2 ∧ (G fuel m r).2.lookup r = some (c r) ∧ MemoLe m (G fuel m r).2 := by
  intro fuel
  induction fuel with
  | zero => intro m r _ _ h; exact absurd h (Nat.not_lt_zero _)
  | succ fuel ih =>
    intro m r hrS hm hr
    rw [hG.2 fuel m r]
    by_cases hhas : RGG.dictHas m r = true
    · simp only [hhas, Bool.not_true, Bool.false_eq_true, if_false]
      unfold RGG.dictHas at hhas
      obtain ⟨v, hv⟩ := Option.isSome_iff_exists.mp hhas
      have hvc := hm r v hv
      refine ⟨?_, hm, ?_, fun k hk => hk⟩
      · unfold RGG.intGet; rw [hv, hvc]; rfl
      · rw [hv, hvc]
    · have hh : RGG.dictHas m r = false := by simpa using hhas
      simp only [hh, Bool.not_false, if_true]
      -- the sum over the ancestors
      have hfold : ∀ (l : List Region) (s : Int) (m0 : Memo), (∀ a ∈ l, rank a < fuel ∧ a ∈ S) → MemoOK c m0 →
          ((l.foldl (fun (st : Int × Memo) s => (st.1 + (G fuel st.2 s).1, (G fuel st.2 s).2)) (s, m0)).1 = (l.map c).foldl (· + ·) s) ∧
          MemoOK c (l.foldl (fun (st : Int × Memo) s => (st.1 + (G fuel st.2 s).1, (G fuel st.2 s).2)) (s, m0)).2 ∧
          MemoLe m0 (l.foldl (fun (st : Int × Memo) s => (st.1 + (G fuel st.2 s).1, (G fuel st.2 s).2)) (s, m0)).2 := by
        intro l
        induction l with
        | nil => intro s m0 _ h0; exact ⟨rfl, h0, fun k hk => hk⟩
        | cons a as iha =>
          intro s m0 hl h0
          obtain ⟨h1, h2, _, h4⟩ := ih m0 a (hl a List.mem_cons_self).2 h0 (hl a List.mem_cons_self).1
          obtain ⟨g1, g2, g3⟩ := iha (s + (G fuel m0 a).1) (G fuel m0 a).2 (fun x hx => hl x (List.mem_cons_of_mem _ hx)) h2
          rw [List.foldl_cons, List.map_cons, List.foldl_cons]
          refine ⟨?_, g2, fun k hk => g3 k (h4 k hk)⟩
          rw [g1, h1]
      have hl : ∀ a ∈ RGG.look anc r, rank a < fuel ∧ a ∈ S :=
        fun a ha => ⟨Nat.lt_of_lt_of_le (hrank r hrS a ha).1 (Nat.lt_succ_iff.mp hr), (hrank r hrS a ha).2⟩
      obtain ⟨f1, f2, f3⟩ := hfold (RGG.look anc r) 0 m hl hm
      have hval : (1 : Int) - ((RGG.look anc r).foldl (fun (st : Int × Memo) s => (st.1 + (G fuel st.2 s).1, (G fuel st.2 s).2)) (0, m)).1 = c r := by
        rw [f1, hrec r hrS]; rfl
      rw [hval]
      refine ⟨?_, memoOK_set c _ r f2, ?_, fun k hk => memoLe_set _ r (c r) k (f3 k hk)⟩
      · unfold RGG.intGet
        rw [PGM.Convex.lookup_dictSet]
        simp
      · rw [PGM.Convex.lookup_dictSet]
        simp

/-- `for r in regions: get_counting_number(r)`: afterwards the dictionary holds `c r` under every region -/
theorem gcn_all (anc : List (Region × List Region)) (G : Nat → Memo → Region → Int × Memo) (hG : IsGcn anc G)
    (c : Region → Int) (rank : Region → Nat) (S : List Region)
    (hrec : ∀ r ∈ S, c r = 1 - ((RG.look anc r).map c).foldl (· + ·) 0)
    (hrank : ∀ r ∈ S, ∀ a ∈ RG.look anc r, rank a < rank r ∧ a ∈ S)
    (fuel : Nat) (regions : List Region) (hfuel : ∀ r ∈ regions, rank r < fuel ∧ r ∈ S) (r : Region) (hr : r ∈ regions) :
    RGG.intGet (regions.foldl (fun (m : Memo) r => (G fuel m r).2) []) r = c r := by
  have key : ∀ (l : List Region) (m : Memo), (∀ x ∈ l, rank x < fuel ∧ x ∈ S) → MemoOK c m →
      MemoOK c (l.foldl (fun (m : Memo) r => (G fuel m r).2) m) ∧ MemoLe m (l.foldl (fun (m : Memo) r => (G fuel m r).2) m) ∧
      ∀ x ∈ l, ((l.foldl (fun (m : Memo) r => (G fuel m r).2) m).lookup x).isSome = true := by
    intro l
    induction l with
    | nil => intro m _ hm; exact ⟨hm, fun k hk => hk, fun x hx => absurd hx (List.not_mem_nil)⟩
    | cons a as ih =>
      intro m hl hm
      obtain ⟨_, h2, h3, h4⟩ := gcn_spec anc G hG c rank S hrec hrank fuel m a (hl a List.mem_cons_self).2 hm (hl a List.mem_cons_self).1
      obtain ⟨g1, g2, g3⟩ := ih (G fuel m a).2 (fun x hx => hl x (List.mem_cons_of_mem _ hx)) h2
      rw [List.foldl_cons]
      refine ⟨g1, fun k hk => g2 k (h4 k hk), ?_⟩
      intro x hx
      rcases List.mem_cons.mp hx with e | e
      · subst e
        exact g2 x (by rw [h3]; rfl)
      · exact g3 x e
  obtain ⟨k1, _, k3⟩ := key regions [] hfuel (fun k v h => by simp at h)
  obtain ⟨v, hv⟩ := Option.isSome_iff_exists.mp (k3 r hr)
  unfold RGG.intGet
  rw [hv, k1 r v hv]
  rfl

end PGM.RGGen
