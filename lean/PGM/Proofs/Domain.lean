import PGM.Model.Domain
/-! list helper lemmas and basic facts about domains -/
namespace PGM

section ListAux
variable {β γ : Type}

theorem getD_map_idxOf [BEq β] [LawfulBEq β] (l : List β) (g : β → γ) (d : γ) (a : β) (h : a ∈ l) :
    (l.map g).getD (l.idxOf a) d = g a := by
  have hlt : l.idxOf a < l.length := List.idxOf_lt_length_iff.mpr h
  simp [List.getD_eq_getElem?_getD, List.getElem?_map, List.getElem?_eq_getElem hlt,
    List.getElem_idxOf hlt]

theorem idxOf_map_of_inj [BEq β] [LawfulBEq β] [BEq γ] [LawfulBEq γ] (l : List β) (g : β → γ) (a : β)
    (hinj : ∀ x ∈ l, g x = g a → x = a) : (l.map g).idxOf (g a) = l.idxOf a := by
  induction l with
  | nil => simp
  | cons x xs ih =>
    simp only [List.map_cons, List.idxOf_cons]
    by_cases hx : x = a
    · subst hx; simp
    · have h1 : g x ≠ g a := fun h => hx (hinj x (by simp) h)
      have h2 : (g x == g a) = false := by simpa using h1
      have h3 : (x == a) = false := by simpa using hx
      rw [h2, h3, ih (fun y hy => hinj y (by simp [hy]))]

theorem length_filter_add_not (p : β → Bool) (l : List β) :
    (l.filter p).length + (l.filter (fun x => !p x)).length = l.length := by
  induction l with
  | nil => rfl
  | cons x xs ih =>
    cases h : p x <;> simp [h] <;> omega

theorem length_filter_mem_range (n : Nat) (ax : List Nat) (hnd : ax.Nodup) (hlt : ∀ x ∈ ax, x < n) :
    ((List.range n).filter (fun j => ax.contains j)).length = ax.length := by
  have hnd' : ((List.range n).filter (fun j => ax.contains j)).Nodup :=
    List.Nodup.sublist List.filter_sublist List.nodup_range
  have hp : ((List.range n).filter (fun j => ax.contains j)).Perm ax := by
    rw [List.perm_ext_iff_of_nodup hnd' hnd]
    intro a
    simp only [List.mem_filter, List.mem_range, List.contains_iff_mem]
    exact ⟨fun h => h.2, fun h => ⟨hlt a h, h⟩⟩
  exact hp.length_eq

theorem length_filter_not_mem_range (n : Nat) (ax : List Nat) (hnd : ax.Nodup) (hlt : ∀ x ∈ ax, x < n) :
    ((List.range n).filter (fun j => !ax.contains j)).length + ax.length = n := by
  have h1 := length_filter_add_not (fun j => ax.contains j) (List.range n)
  have h2 := length_filter_mem_range n ax hnd hlt
  simp only [List.length_range] at h1
  omega

theorem length_filter_range_lt (n p : Nat) (q : Nat → Bool) (hp : p < n) (hq : q p = true) :
    ((List.range p).filter q).length < ((List.range n).filter q).length := by
  have h1 : ((List.range (p+1)).filter q).Sublist ((List.range n).filter q) :=
    List.Sublist.filter q (List.range_sublist.mpr (by omega))
  have h2 := h1.length_le
  simp [List.range_succ, List.filter_append, hq] at h2
  omega

theorem idxOf_inj [BEq β] [LawfulBEq β] (l : List β) (x y : β) (hx : x ∈ l) (hy : y ∈ l)
    (h : l.idxOf x = l.idxOf y) : x = y := by
  have h1 := List.getElem_idxOf (List.idxOf_lt_length_iff.mpr hx)
  have h2 := List.getElem_idxOf (List.idxOf_lt_length_iff.mpr hy)
  rw [← h1, ← h2]
  simp only [h]

theorem nodup_map_of_inj_on (l : List β) (f : β → γ) (hl : l.Nodup)
    (hinj : ∀ x ∈ l, ∀ y ∈ l, f x = f y → x = y) : (l.map f).Nodup := by
  induction l with
  | nil => simp
  | cons a as ih =>
    rw [List.nodup_cons] at hl
    rw [List.map_cons, List.nodup_cons]
    refine ⟨?_, ih hl.2 (fun x hx y hy => hinj x (by simp [hx]) y (by simp [hy]))⟩
    intro hm
    obtain ⟨y, hy, hfy⟩ := List.mem_map.mp hm
    have := hinj y (by simp [hy]) a (by simp) hfy
    subst this
    exact hl.1 hy

theorem zipWith_map_map {δ ε : Type} (f : γ → δ → ε) (l : List β) (g : β → γ) (h : β → δ) :
    List.zipWith f (l.map g) (l.map h) = l.map (fun a => f (g a) (h a)) := by
  induction l with
  | nil => rfl
  | cons a as ih => simp [ih]

theorem map_getD_range (l : List β) (d : β) :
    (List.range l.length).map (fun j => l.getD j d) = l := by
  apply List.ext_getElem
  · simp
  · intro i h1 h2
    simp [List.getD_eq_getElem?_getD, List.getElem?_eq_getElem h2]

theorem map_eq_map_range {γ : Type} (l : List β) (d : β) (h : β → γ) :
    l.map h = (List.range l.length).map (fun j => h (l.getD j d)) := by
  have := congrArg (List.map h) (map_getD_range l d)
  rw [List.map_map] at this
  exact this.symm

theorem lookup_isNone_eq {κ : Type} [BEq κ] [LawfulBEq κ] (ev : List (κ × γ)) (a : κ) :
    (ev.lookup a).isNone = !(ev.map Prod.fst).contains a := by
  induction ev with
  | nil => rfl
  | cons p ps ih =>
    obtain ⟨k, v⟩ := p
    simp only [List.lookup_cons, List.map_cons, List.contains_cons]
    by_cases h : a = k
    · subst h; simp
    · have : (a == k) = false := by simpa using h
      rw [this]; simpa using ih

theorem filter_range_getD (l : List β) (d : β) (q : β → Bool) :
    ((List.range l.length).filter (fun j => q (l.getD j d))).map (fun j => l.getD j d) = l.filter q := by
  have h := List.filter_map (f := fun j => l.getD j d) (p := q) (l := List.range l.length)
  rw [map_getD_range] at h
  rw [h]
  rfl

theorem getD_inj (l : List β) (hl : l.Nodup) (d : β) (i j : Nat) (hi : i < l.length) (hj : j < l.length)
    (h : l.getD i d = l.getD j d) : i = j := by
  apply (List.getElem?_inj hi hl).mp
  rw [List.getD_eq_getElem?_getD, List.getD_eq_getElem?_getD, List.getElem?_eq_getElem hi,
    List.getElem?_eq_getElem hj] at h
  rw [List.getElem?_eq_getElem hi, List.getElem?_eq_getElem hj]
  simpa using h

theorem getD_map_getD (l : List β) (d : β) (c : β → γ) (d' : γ) (p : Nat) (hp : p < l.length) :
    (l.map c).getD p d' = c (l.getD p d) := by
  simp [List.getD_eq_getElem?_getD, List.getElem?_eq_getElem hp]

theorem map_shape_filter (l : List β) (d : β) (c : β → Nat) (q : β → Bool) :
    ((List.range l.length).filter (fun j => q (l.getD j d))).map (fun p => (l.map c).getD p 0)
      = (l.filter q).map c := by
  rw [← filter_range_getD l d q, List.map_map]
  apply List.map_congr_left
  intro p hp
  have hp' : p < l.length := by simpa using (List.mem_filter.mp hp).1
  exact getD_map_getD l d c 0 p hp'

theorem keep_getD (l : List β) (d : β) (q : β → Bool) (σ : β → Nat) (j : Nat)
    (hj : j < l.length) (hq : q (l.getD j d) = true) :
    ((l.filter q).map σ).getD (((List.range l.length).filter (fun j => q (l.getD j d))).idxOf j) 0
      = σ (l.getD j d) := by
  rw [← filter_range_getD l d q, List.map_map]
  exact getD_map_idxOf _ (σ ∘ fun j => l.getD j d) 0 j
    (List.mem_filter.mpr ⟨List.mem_range.mpr hj, hq⟩)

theorem red_idxOf [BEq β] [LawfulBEq β] (l : List β) (hl : l.Nodup) (d : β) (q : β → Bool) (j : Nat)
    (hj : j < l.length) :
    (l.filter q).idxOf (l.getD j d)
      = ((List.range l.length).filter (fun j => q (l.getD j d))).idxOf j := by
  rw [← filter_range_getD l d q]
  apply idxOf_map_of_inj _ (fun j => l.getD j d) j
  intro x hx hxj
  have hx' : x < l.length := by simpa using (List.mem_filter.mp hx).1
  exact getD_inj l hl d x j hx' hj hxj

theorem mem_map_idxOf_iff [BEq β] [LawfulBEq β] (l : List β) (hl : l.Nodup) (d : β) (as : List β)
    (j : Nat) (hj : j < l.length) :
    j ∈ as.map (fun a => l.idxOf a) ↔ l.getD j d ∈ as := by
  have hg : l.getD j d = l[j] := by
    simp [List.getD_eq_getElem?_getD, List.getElem?_eq_getElem hj]
  constructor
  · intro h
    obtain ⟨a, ha, haj⟩ := List.mem_map.mp h
    have hlt : l.idxOf a < l.length := by omega
    have := List.getElem_idxOf hlt
    rw [hg]
    simp only [haj] at this
    rw [this]; exact ha
  · intro h
    refine List.mem_map.mpr ⟨l.getD j d, h, ?_⟩
    rw [hg]
    exact hl.idxOf_getElem j hj

end ListAux

namespace Dom

theorem attrs_cons (a : Attr) (n : Nat) (d : Dom) : attrs ((a, n) :: d) = a :: attrs d := rfl
theorem shape_cons (a : Attr) (n : Nat) (d : Dom) : shape ((a, n) :: d) = n :: shape d := rfl

theorem length_attrs (d : Dom) : d.attrs.length = d.length := by simp [attrs]
theorem length_shape (d : Dom) : d.shape.length = d.length := by simp [shape]

theorem cfg_of_mem (d : Dom) (hd : d.WF) (p : Attr × Nat) (h : p ∈ d) : d.cfg p.1 = p.2 := by
  induction d with
  | nil => simp at h
  | cons q d ih =>
    obtain ⟨a, n⟩ := q
    simp only [WF, attrs, List.map_cons, List.nodup_cons] at hd
    simp only [cfg, List.lookup_cons]
    rcases List.mem_cons.mp h with h | h
    · subst h; simp
    · have hne : p.1 ≠ a := by
        intro he
        apply hd.1
        rw [← he]
        exact List.mem_map_of_mem h
      have : (p.1 == a) = false := by simpa using hne
      rw [this]
      exact ih hd.2 h

theorem mem_of_mem_attrs (d : Dom) (hd : d.WF) (a : Attr) (h : a ∈ d.attrs) : (a, d.cfg a) ∈ d := by
  simp only [attrs, List.mem_map] at h
  obtain ⟨p, hp, rfl⟩ := h
  rw [cfg_of_mem d hd p hp]
  exact hp

theorem shape_eq_map_cfg (d : Dom) (hd : d.WF) : d.shape = d.attrs.map d.cfg := by
  simp only [shape, attrs, List.map_map]
  apply List.map_congr_left
  intro p hp
  simp [cfg_of_mem d hd p hp]

theorem valid_iff (d : Dom) (hd : d.WF) (σ : Attr → Nat) :
    d.Valid σ ↔ ∀ a ∈ d.attrs, σ a < d.cfg a := by
  constructor
  · intro h a ha
    exact h _ (mem_of_mem_attrs d hd a ha)
  · intro h p hp
    have := h p.1 (List.mem_map_of_mem hp)
    rwa [cfg_of_mem d hd p hp] at this

theorem agrees_iff (d D : Dom) (hd : d.WF) :
    d.Agrees D ↔ ∀ a ∈ d.attrs, D.cfg a = d.cfg a := by
  constructor
  · intro h a ha
    exact h _ (mem_of_mem_attrs d hd a ha)
  · intro h p hp
    have := h p.1 (List.mem_map_of_mem hp)
    rwa [cfg_of_mem d hd p hp] at this

theorem contains_iff (d o : Dom) : d.contains o = true ↔ ∀ a ∈ o.attrs, a ∈ d.attrs := by
  simp [contains]

@[simp] theorem attrs_project (d : Dom) (as : List Attr) : (d.project as).attrs = as := by
  simp [project, attrs, Function.comp_def]

@[simp] theorem shape_project (d : Dom) (as : List Attr) : (d.project as).shape = as.map d.cfg := by
  simp [project, shape, Function.comp_def]

theorem cfg_project (d : Dom) (as : List Attr) (a : Attr) (h : a ∈ as) :
    (d.project as).cfg a = d.cfg a := by
  induction as with
  | nil => simp at h
  | cons x xs ih =>
    simp only [project, List.map_cons, cfg, List.lookup_cons]
    by_cases hx : a = x
    · subst hx; simp
    · have : (a == x) = false := by simpa using hx
      rw [this]
      rcases List.mem_cons.mp h with h | h
      · exact absurd h hx
      · exact ih h

theorem cfg_of_not_mem (d : Dom) (a : Attr) (h : a ∉ d.attrs) : d.lookup a = none := by
  induction d with
  | nil => rfl
  | cons q d ih =>
    obtain ⟨b, n⟩ := q
    simp only [attrs, List.map_cons, List.mem_cons, not_or] at h
    simp only [List.lookup_cons]
    have : (a == b) = false := by simpa using h.1
    rw [this]
    exact ih h.2

theorem lookup_of_mem_attrs (d : Dom) (a : Attr) (h : a ∈ d.attrs) : d.lookup a = some (d.cfg a) := by
  induction d with
  | nil => simp [attrs] at h
  | cons q d ih =>
    obtain ⟨b, n⟩ := q
    simp only [cfg, List.lookup_cons]
    by_cases hx : a = b
    · subst hx; simp
    · have : (a == b) = false := by simpa using hx
      rw [this]
      simp only [attrs, List.map_cons, List.mem_cons] at h
      rcases h with h | h
      · exact absurd h hx
      · exact ih h


theorem lookup_of_not_mem_attrs (d : Dom) (a : Attr) (h : a ∉ d.attrs) : d.lookup a = none :=
  cfg_of_not_mem d a h

theorem attrs_append (d o : Dom) : attrs (d ++ o) = attrs d ++ attrs o := by simp [attrs]

theorem attrs_merge (d o : Dom) :
    (d.merge o).attrs = d.attrs ++ o.attrs.filter (fun a => !d.attrs.contains a) := by
  simp [merge, marginalize, invert, attrs_append]

theorem merge_WF (d o : Dom) (hd : d.WF) (ho : o.WF) : (d.merge o).WF := by
  unfold WF at *
  rw [attrs_merge, List.nodup_append]
  refine ⟨hd, List.Nodup.sublist List.filter_sublist ho, ?_⟩
  intro a ha b hb hab
  subst hab
  simp at hb
  exact hb.2 ha

theorem merge_contains_left (d o : Dom) : (d.merge o).contains d = true := by
  rw [contains_iff, attrs_merge]
  intro a ha
  simp [ha]

theorem merge_contains_right (d o : Dom) : (d.merge o).contains o = true := by
  rw [contains_iff, attrs_merge]
  intro a ha
  by_cases h : a ∈ d.attrs
  · simp [h]
  · simp [h, ha]

theorem cfg_merge_left (d o : Dom) (a : Attr) (h : a ∈ d.attrs) : (d.merge o).cfg a = d.cfg a := by
  unfold cfg merge
  rw [List.lookup_append, lookup_of_mem_attrs d a h]
  rfl

theorem cfg_merge_right (d o : Dom) (a : Attr) (h : a ∉ d.attrs) (ho : a ∈ o.attrs) :
    (d.merge o).cfg a = o.cfg a := by
  have h1 : a ∈ o.invert d.attrs := by
    simp [invert, ho, h]
  have h2 := cfg_project o (o.invert d.attrs) a h1
  unfold cfg merge at *
  rw [List.lookup_append, lookup_of_not_mem_attrs d a h]
  exact h2

theorem agrees_merge_left (d o : Dom) (hd : d.WF) : d.Agrees (d.merge o) := by
  rw [agrees_iff _ _ hd]
  exact fun a ha => cfg_merge_left d o a ha

theorem agrees_merge_right (d o : Dom) (hd : d.WF) (ho : o.WF) (hc : d.Compatible o) :
    o.Agrees (d.merge o) := by
  rw [agrees_iff _ _ ho]
  intro a ha
  by_cases h : a ∈ d.attrs
  · rw [cfg_merge_left d o a h]
    exact hc a _ _ (mem_of_mem_attrs d hd a h) (mem_of_mem_attrs o ho a ha)
  · exact cfg_merge_right d o a h ha

theorem valid_of_agrees (d D : Dom) (hd : d.WF) (hD : D.WF) (hc : D.contains d = true)
    (ha : d.Agrees D) (σ : Attr → Nat) (hσ : D.Valid σ) : d.Valid σ := by
  rw [valid_iff _ hd]
  rw [valid_iff _ hD] at hσ
  rw [agrees_iff _ _ hd] at ha
  rw [contains_iff] at hc
  intro a h
  rw [← ha a h]
  exact hσ a (hc a h)

theorem merge_eq_self_of_contains (d o : Dom) (hc : d.contains o = true) : d.merge o = d := by
  rw [contains_iff] at hc
  have : o.invert d.attrs = [] := by
    simp only [invert, List.filter_eq_nil_iff]
    intro a ha
    simp [hc a ha]
  simp [merge, marginalize, this, project]

theorem compatible_of_agrees (d o : Dom) (hd : d.WF) (ha : o.Agrees d) : d.Compatible o := by
  intro a n m h1 h2
  have := ha _ h2
  have h3 := cfg_of_mem d hd _ h1
  simp only at this h3
  omega

end Dom
end PGM
