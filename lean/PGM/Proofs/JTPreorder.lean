import PGM.Proofs.JTScheduleExists
import PGM.Proofs.CoherentSem
/-!
# a depth-first preorder of a junction tree is a running-intersection order

`GraphicalModel.mle` walks `maximal_cliques()` = `list(nx.dfs_preorder_nodes(tree))` and divides each
clique marginal by its marginal on the attributes covered by *earlier* cliques.  That is the
junction-tree factorisation only if each clique meets the union of the earlier ones inside a single
earlier clique (`Coherent.RIPOrder`).  Here: every listing accepted by `isPreorder` has that property.

The argument: the prefix `l[0..i)` is connected in the tree; `l[i]` hangs on it by an edge `p — l[i]`;
so for an earlier `l[k]` the walk `l[k] ⇝ p — l[i]` (inside prefix + one edge) is *the* tree path from
`l[k]` to `l[i]`; the running-intersection property supplies a path between the same end points all
of whose nodes contain a shared attribute; paths in a tree are unique, so `p` contains it.
-/
namespace PGM.JT
open SimpleGraph

/-! ## the abstract step: uniqueness of paths in a forest -/

section Abstract
variable {V : Type*} {H : SimpleGraph V}

/-- in a forest: if `u ⇝ w` inside `P`, and `u ⇝ v` inside `Q` followed by the edge `v — w` with `w`
outside `Q`, then `v` lies in `P` -/
theorem penultimate_mem_of_walks (hA : H.IsAcyclic) (P Q : V → Prop) {u v w : V}
    (p : H.Walk u w) (hp : ∀ x ∈ p.support, P x)
    (q : H.Walk u v) (hq : ∀ x ∈ q.support, Q x) (hvw : H.Adj v w) (hw : ¬ Q w) : P v := by
  classical
  have hqw : w ∉ (q.toPath : H.Walk u v).support := fun hmem =>
    hw (hq w (q.support_toPath_subset_support hmem))
  let q' : H.Path u w := ⟨(q.toPath : H.Walk u v).concat hvw, q.toPath.2.concat hqw hvw⟩
  have heq : p.toPath = q' := (hA.subsingleton_path u w).elim _ _
  have hv : v ∈ (q' : H.Walk u w).support := by
    show v ∈ ((q.toPath : H.Walk u v).concat hvw).support
    rw [Walk.support_concat]
    exact List.mem_append.mpr (Or.inl (Walk.end_mem_support _))
  rw [← heq] at hv
  exact hp v (p.support_toPath_subset_support hv)

end Abstract

/-! ## the clique tree: walks inside a connected sub-list -/

/-- a walk of the whole tree between two members of a connected sub-list that stays in the sub-list -/
theorem walk_within (t : Tree) (S : List Clique) (hS : S.Nodup) (hsub : ∀ n ∈ S, n ∈ t.nodes)
    (hconn : connectedWithin t S = true) (x y : Clique) (hx : x ∈ S) (hy : y ∈ S) :
    ∃ p : (Gind t t.nodes).Walk ⟨x, hsub x hx⟩ ⟨y, hsub y hy⟩, ∀ z ∈ p.support, z.1 ∈ S := by
  have hne : S ≠ [] := List.ne_nil_of_mem hx
  have hc : (Gind t S).Connected := (connectedWithin_iff t S hS hne).mp hconn
  have hle : {n : Clique | n ∈ S} ≤ {n : Clique | n ∈ t.nodes} := fun n hn => hsub n hn
  obtain ⟨w⟩ := hc.preconnected ⟨x, hx⟩ ⟨y, hy⟩
  have key : ∀ z ∈ (w.map ((treeGraph t).induceHomOfLE hle).toHom).support, z.1 ∈ S := by
    intro z hz
    rw [Walk.support_map, List.mem_map] at hz
    obtain ⟨z', _, rfl⟩ := hz
    exact z'.2
  exact ⟨w.map ((treeGraph t).induceHomOfLE hle).toHom, key⟩

/-! ## the contract of a preorder, as propositions -/

/-- every element after the first has a tree neighbour earlier in the list -/
def HasParents (t : Tree) (l : List Clique) : Prop :=
  ∀ i, i < l.length → 0 < i → ∃ j, j < i ∧ t.adj (l.getD j []) (l.getD i []) = true

theorem isPreorder_iff (t : Tree) (l : List Clique) :
    isPreorder t l = true ↔
      l.Nodup ∧ l.length = t.nodes.length ∧ (∀ n ∈ t.nodes, n ∈ l) ∧ HasParents t l := by
  unfold isPreorder HasParents
  simp only [Bool.and_eq_true, nodup_iffW, beq_iff_eq, List.all_eq_true, List.contains_iff_mem,
    List.mem_range, Bool.or_eq_true, List.any_eq_true]
  constructor
  · rintro ⟨⟨⟨h1, h2⟩, h3⟩, h4⟩
    refine ⟨h1, h2, h3, fun i hi h0 => ?_⟩
    rcases h4 i hi with h | h
    · omega
    · exact h
  · rintro ⟨h1, h2, h3, h4⟩
    refine ⟨⟨⟨h1, h2⟩, h3⟩, fun i hi => ?_⟩
    by_cases h0 : i = 0
    · exact Or.inl h0
    · exact Or.inr (h4 i hi (Nat.pos_of_ne_zero h0))

/-- a preorder lists exactly the nodes -/
theorem preorder_perm (t : Tree) (l : List Clique) (hn : t.nodes.Nodup)
    (hlen : l.length = t.nodes.length) (hsub : ∀ n ∈ t.nodes, n ∈ l) : t.nodes.Perm l :=
  (List.subperm_of_subset hn hsub).perm_of_length_le (Nat.le_of_eq hlen)

theorem getD_mem {l : List Clique} {i : Nat} (hi : i < l.length) : l.getD i [] ∈ l := by
  rw [List.getD_eq_getElem _ _ hi]; exact List.getElem_mem hi

theorem getD_inj {l : List Clique} (hnd : l.Nodup) {i j : Nat} (hi : i < l.length) (hj : j < l.length)
    (h : l.getD i [] = l.getD j []) : i = j := by
  rw [List.getD_eq_getElem _ _ hi, List.getD_eq_getElem _ _ hj] at h
  exact (hnd.getElem_inj_iff).mp h

/-- the prefix is connected: from every listed node a walk leads back to the first node through
nodes listed no later -/
theorem walk_to_root (t : Tree) (l : List Clique) (hnd : l.Nodup) (hmem : ∀ n ∈ l, n ∈ t.nodes)
    (hpar : HasParents t l) (h0 : 0 < l.length) :
    ∀ m (hm : m < l.length),
      ∃ p : (Gind t t.nodes).Walk ⟨l.getD m [], hmem _ (getD_mem hm)⟩ ⟨l.getD 0 [], hmem _ (getD_mem h0)⟩,
        ∀ z ∈ p.support, ∃ m', m' ≤ m ∧ z.1 = l.getD m' [] := by
  intro m
  induction m using Nat.strong_induction_on with
  | _ m ih =>
    intro hm
    by_cases hm0 : m = 0
    · subst hm0
      exact ⟨Walk.nil, fun z hz => ⟨0, Nat.le_refl _, by
        rw [Walk.support_nil, List.mem_singleton] at hz; rw [hz]⟩⟩
    · obtain ⟨j, hj, hadj⟩ := hpar m hm (Nat.pos_of_ne_zero hm0)
      have hjl : j < l.length := Nat.lt_trans hj hm
      obtain ⟨p, hp⟩ := ih j hj hjl
      have hne : l.getD m [] ≠ l.getD j [] := fun e => by
        have := getD_inj hnd hm hjl e; omega
      have hadj' : (Gind t t.nodes).Adj ⟨l.getD m [], hmem _ (getD_mem hm)⟩
          ⟨l.getD j [], hmem _ (getD_mem hjl)⟩ :=
        (Gind_adj t t.nodes _ _).mpr ⟨hne, by rw [Tree.adj_comm]; exact hadj⟩
      refine ⟨Walk.cons hadj' p, fun z hz => ?_⟩
      rw [Walk.support_cons, List.mem_cons] at hz
      rcases hz with rfl | hz
      · exact ⟨m, Nat.le_refl _, rfl⟩
      · obtain ⟨m', hm', e⟩ := hp z hz
        exact ⟨m', by omega, e⟩

/-! ## the order property -/

/-- the semantic running-intersection property as `rip` checks it -/
theorem rip_connected (attrs : List Attr) (t : Tree) (hrip : rip attrs t = true) (a : Attr)
    (ha : a ∈ attrs) : connectedWithin t (t.nodes.filter (fun n => n.contains a)) = true := by
  simp only [rip, List.all_eq_true] at hrip
  exact hrip a ha

/-- **the parent of `l[i]` contains everything `l[i]` shares with any earlier clique** -/
theorem parent_contains (attrs : List Attr) (t : Tree) (ht : isTree t = true)
    (hrip : rip attrs t = true) (hattrs : ∀ n ∈ t.nodes, ∀ a ∈ n, a ∈ attrs)
    (l : List Clique) (hl : isPreorder t l = true)
    (i j k : Nat) (hi : i < l.length) (hj : j < i) (hk : k < i)
    (hadj : t.adj (l.getD j []) (l.getD i []) = true)
    (a : Attr) (hai : a ∈ l.getD i []) (hak : a ∈ l.getD k []) : a ∈ l.getD j [] := by
  obtain ⟨hnd, hlen, hsub, hpar⟩ := (isPreorder_iff t l).mp hl
  have f := treeFacts t ht
  have hT := gind_isTree t ht
  have hperm := preorder_perm t l f.nodes_nodup hlen hsub
  have hmem : ∀ n ∈ l, n ∈ t.nodes := fun n hn => hperm.mem_iff.mpr hn
  have h0 : 0 < l.length := by omega
  have hjl : j < l.length := by omega
  have hkl : k < l.length := by omega
  -- the nodes containing `a`
  let S := t.nodes.filter (fun n => n.contains a)
  have hSsub : ∀ n ∈ S, n ∈ t.nodes := fun n hn => (List.mem_filter.mp hn).1
  have hSi : l.getD i [] ∈ S :=
    List.mem_filter.mpr ⟨hmem _ (getD_mem hi), by simpa using hai⟩
  have hSk : l.getD k [] ∈ S :=
    List.mem_filter.mpr ⟨hmem _ (getD_mem hkl), by simpa using hak⟩
  have haA : a ∈ attrs := hattrs _ (hmem _ (getD_mem hi)) a hai
  obtain ⟨p, hp⟩ := walk_within t S (f.nodes_nodup.filter _) hSsub
    (rip_connected attrs t hrip a haA) _ _ hSk hSi
  -- inside the prefix: `l[k] ⇝ l[0] ⇝ l[j]`
  obtain ⟨qk, hqk⟩ := walk_to_root t l hnd hmem hpar h0 k hkl
  obtain ⟨qj, hqj⟩ := walk_to_root t l hnd hmem hpar h0 j hjl
  have hne : l.getD j [] ≠ l.getD i [] := fun e => by
    have := getD_inj hnd hjl hi e; omega
  have hadj' : (Gind t t.nodes).Adj ⟨l.getD j [], hmem _ (getD_mem hjl)⟩
      ⟨l.getD i [], hmem _ (getD_mem hi)⟩ := (Gind_adj t t.nodes _ _).mpr ⟨hne, hadj⟩
  have key := penultimate_mem_of_walks hT.isAcyclic
    (fun z : ↥{n : Clique | n ∈ t.nodes} => z.1 ∈ S)
    (fun z : ↥{n : Clique | n ∈ t.nodes} => ∃ m', m' < i ∧ z.1 = l.getD m' [])
    p hp (qk.append qj.reverse) (by
      intro z hz
      rw [Walk.mem_support_append_iff, Walk.support_reverse, List.mem_reverse] at hz
      rcases hz with hz | hz
      · obtain ⟨m', hm', e⟩ := hqk z hz; exact ⟨m', by omega, e⟩
      · obtain ⟨m', hm', e⟩ := hqj z hz; exact ⟨m', by omega, e⟩) hadj' (by
      rintro ⟨m', hm', e⟩
      have := getD_inj hnd hi (by omega) e; omega)
  have : (l.getD j []).contains a = true := (List.mem_filter.mp key).2
  simpa using this

open PGM.Coherent in
/-- **a preorder of a junction tree is a running-intersection order** -/
theorem preorder_is_rip_order (attrs : List Attr) (t : Tree) (ht : isTree t = true)
    (hrip : rip attrs t = true) (hattrs : ∀ n ∈ t.nodes, ∀ a ∈ n, a ∈ attrs)
    (l : List Clique) (hl : isPreorder t l = true) : RIPOrder l := by
  intro i hi h0
  obtain ⟨j, hj, hadj⟩ := ((isPreorder_iff t l).mp hl).2.2.2 i hi h0
  refine ⟨j, hj, fun a ha hex => ?_⟩
  obtain ⟨k, hk, hak⟩ := hex
  have hai : a ∈ l.getD i [] := by rw [List.getD_eq_getElem _ _ hi]; exact ha
  exact parent_contains attrs t ht hrip hattrs l hl i j k hi hj hk hadj a hai hak

open PGM.Coherent in
/-- the executable check decides the order property -/
theorem ripOrder_iff (l : List Clique) : ripOrder l = true ↔ RIPOrder l := by
  unfold ripOrder RIPOrder
  simp only [List.all_eq_true, List.mem_range, Bool.or_eq_true, beq_iff_eq, List.any_eq_true,
    Bool.not_eq_true', List.contains_iff_mem]
  constructor
  · intro h i hi h0
    rcases h i hi with h' | ⟨j, hj, h'⟩
    · omega
    · refine ⟨j, hj, fun a ha hex => ?_⟩
      have hai : a ∈ l.getD i [] := by rw [List.getD_eq_getElem _ _ hi]; exact ha
      rcases h' a hai with h'' | h''
      · obtain ⟨k, hk, hak⟩ := hex
        rw [List.any_eq_false] at h''
        have := h'' k (List.mem_range.mpr hk)
        rw [List.contains_iff_mem] at this
        exact absurd hak this
      · exact h''
  · intro h i hi
    by_cases h0 : i = 0
    · exact Or.inl h0
    · right
      obtain ⟨j, hj, h'⟩ := h i hi (Nat.pos_of_ne_zero h0)
      refine ⟨j, hj, fun a ha => ?_⟩
      have hai : a ∈ l[i] := by rw [List.getD_eq_getElem _ _ hi] at ha; exact ha
      by_cases hex : ∃ k, k < i ∧ a ∈ l.getD k []
      · exact Or.inr (h' a hai hex)
      · left
        rw [List.any_eq_false]
        intro k hk
        have hk' := List.mem_range.mp hk
        rw [List.contains_iff_mem]
        intro hak
        exact hex ⟨k, hk', hak⟩

end PGM.JT
