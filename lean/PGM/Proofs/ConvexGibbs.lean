import Mathlib.Analysis.SpecialFunctions.Log.Basic
import Mathlib.Algebra.BigOperators.Group.List.Basic
import Mathlib.Algebra.BigOperators.Ring.List
import Mathlib.Algebra.Order.BigOperators.Group.List
import Mathlib.Tactic.Ring
import Mathlib.Tactic.Linarith
import Mathlib.Tactic.FieldSimp
/-!
# Gibbs' variational inequality over lists

For a nonnegative vector `q` of mass `T > 0` and any vector `θ` (both indexed by a list `l`):

`Σ qᵢ θᵢ − Σ qᵢ log (qᵢ / T) ≤ T · log Σ exp θᵢ`,

with equality iff `qᵢ = T · exp θᵢ / Σ exp θ`.  Nothing here mentions the model.
-/
namespace PGM.Convex

/-- the entropy integrand `v log (v / T)` with `0 log 0 = 0` -/
noncomputable def hent (T v : ℝ) : ℝ := if 0 < v then v * Real.log (v / T) else 0

theorem hent_zero (T : ℝ) : hent T 0 = 0 := by simp [hent]

theorem hent_pos (T v : ℝ) (hv : 0 < v) : hent T v = v * Real.log (v / T) := by simp [hent, hv]

/-- the log of the ratio used in the term-wise bound -/
theorem log_ratio (T Z θ q : ℝ) (hT : 0 < T) (hZ : 0 < Z) (hq : 0 < q) :
    Real.log (T * Real.exp θ / (q * Z)) = θ - Real.log (q / T) - Real.log Z := by
  have he := Real.exp_pos θ
  rw [Real.log_div (by positivity) (by positivity), Real.log_mul hT.ne' he.ne', Real.log_exp,
    Real.log_mul hq.ne' hZ.ne', Real.log_div hq.ne' hT.ne']
  ring

/-- term-wise Gibbs bound -/
theorem gibbs_term (T Z θ q : ℝ) (hT : 0 < T) (hZ : 0 < Z) (hq : 0 ≤ q) :
    q * θ - hent T q ≤ T * Real.exp θ / Z - q + q * Real.log Z := by
  have he := Real.exp_pos θ
  rcases hq.eq_or_lt with h0 | hpos
  · subst h0
    rw [hent_zero]
    have : 0 ≤ T * Real.exp θ / Z := by positivity
    linarith
  · rw [hent_pos T q hpos]
    have hx : 0 < T * Real.exp θ / (q * Z) := by positivity
    have h1 := Real.log_le_sub_one_of_pos hx
    rw [log_ratio T Z θ q hT hZ hpos] at h1
    have h2 := mul_le_mul_of_nonneg_left h1 hpos.le
    have h3 : q * (T * Real.exp θ / (q * Z) - 1) = T * Real.exp θ / Z - q := by
      field_simp
    rw [h3] at h2
    linarith

/-- term-wise strictness: equality in `gibbs_term` forces `q = T exp θ / Z` -/
theorem gibbs_term_eq (T Z θ q : ℝ) (hT : 0 < T) (hZ : 0 < Z) (hq : 0 ≤ q)
    (h : q * θ - hent T q = T * Real.exp θ / Z - q + q * Real.log Z) :
    q = T * Real.exp θ / Z := by
  have he := Real.exp_pos θ
  rcases hq.eq_or_lt with h0 | hpos
  · subst h0
    rw [hent_zero] at h
    have : 0 < T * Real.exp θ / Z := by positivity
    linarith
  · rw [hent_pos T q hpos] at h
    have hx : 0 < T * Real.exp θ / (q * Z) := by positivity
    by_contra hne
    have hx1 : T * Real.exp θ / (q * Z) ≠ 1 := by
      intro h1
      apply hne
      rw [div_eq_one_iff_eq (by positivity)] at h1
      rw [h1]; field_simp
    have h1 := Real.log_lt_sub_one_of_pos hx hx1
    rw [log_ratio T Z θ q hT hZ hpos] at h1
    have h2 := mul_lt_mul_of_pos_left h1 hpos
    have h3 : q * (T * Real.exp θ / (q * Z) - 1) = T * Real.exp θ / Z - q := by
      field_simp
    rw [h3] at h2
    linarith

variable {ι : Type}

theorem sum_map_sub (l : List ι) (f g : ι → ℝ) :
    (l.map (fun i => f i - g i)).sum = (l.map f).sum - (l.map g).sum := by
  induction l with
  | nil => simp
  | cons a l ih => simp only [List.map_cons, List.sum_cons, ih]; ring

theorem sum_exp_pos (l : List ι) (θ : ι → ℝ) (hl : l ≠ []) :
    0 < (l.map (fun i => Real.exp (θ i))).sum := by
  apply List.sum_pos
  · intro x hx
    obtain ⟨i, _, rfl⟩ := List.mem_map.mp hx
    exact Real.exp_pos _
  · simpa using hl

theorem ne_nil_of_mass (l : List ι) (q : ι → ℝ) (T : ℝ) (hT : 0 < T) (hm : (l.map q).sum = T) :
    l ≠ [] := by
  rintro rfl
  simp at hm
  linarith

/-- the right-hand side of the term-wise bound sums to `T log Z` -/
theorem gibbs_rhs_sum (l : List ι) (θ q : ι → ℝ) (T : ℝ) (hl : l ≠ []) (hm : (l.map q).sum = T) :
    (l.map (fun i => T * Real.exp (θ i) / (l.map (fun i => Real.exp (θ i))).sum - q i
        + q i * Real.log (l.map (fun i => Real.exp (θ i))).sum)).sum
      = T * Real.log (l.map (fun i => Real.exp (θ i))).sum := by
  have hZ := sum_exp_pos l θ hl
  set Z := (l.map (fun i => Real.exp (θ i))).sum with hZdef
  have e1 : (l.map (fun i => T * Real.exp (θ i) / Z - q i + q i * Real.log Z)).sum
      = (l.map (fun i => Real.exp (θ i) * (T / Z))).sum - (l.map q).sum
        + (l.map (fun i => q i * Real.log Z)).sum := by
    rw [← sum_map_sub, ← List.sum_map_add]
    congr 1
    apply List.map_congr_left
    intro i _
    ring
  rw [e1, List.sum_map_mul_right, List.sum_map_mul_right, hm, ← hZdef]
  field_simp
  ring

/-- **Gibbs' inequality** -/
theorem gibbs_list (l : List ι) (θ q : ι → ℝ) (T : ℝ) (hT : 0 < T)
    (hq : ∀ i ∈ l, 0 ≤ q i) (hm : (l.map q).sum = T) :
    (l.map (fun i => q i * θ i)).sum - (l.map (fun i => hent T (q i))).sum
      ≤ T * Real.log (l.map (fun i => Real.exp (θ i))).sum := by
  have hl := ne_nil_of_mass l q T hT hm
  have hZ := sum_exp_pos l θ hl
  rw [← gibbs_rhs_sum l θ q T hl hm, ← sum_map_sub]
  apply List.sum_le_sum
  intro i hi
  exact gibbs_term T _ (θ i) (q i) hT hZ (hq i hi)

/-- equality in a sum of term-wise inequalities forces term-wise equality -/
theorem eq_of_sum_eq_of_le (l : List ι) (f g : ι → ℝ) (hle : ∀ i ∈ l, f i ≤ g i)
    (hs : (l.map f).sum = (l.map g).sum) : ∀ i ∈ l, f i = g i := by
  induction l with
  | nil => intro i hi; simp at hi
  | cons a l ih =>
    have h1 := hle a List.mem_cons_self
    have h2 : (l.map f).sum ≤ (l.map g).sum :=
      List.sum_le_sum (fun i hi => hle i (List.mem_cons_of_mem _ hi))
    simp only [List.map_cons, List.sum_cons] at hs
    have e1 : f a = g a := by linarith
    have e2 : (l.map f).sum = (l.map g).sum := by linarith
    intro i hi
    rcases List.mem_cons.mp hi with rfl | hi
    · exact e1
    · exact ih (fun i hi => hle i (List.mem_cons_of_mem _ hi)) e2 i hi

/-- **strictness**: equality in Gibbs' inequality forces `q = T · softmax θ` -/
theorem gibbs_list_eq (l : List ι) (θ q : ι → ℝ) (T : ℝ) (hT : 0 < T)
    (hq : ∀ i ∈ l, 0 ≤ q i) (hm : (l.map q).sum = T)
    (h : (l.map (fun i => q i * θ i)).sum - (l.map (fun i => hent T (q i))).sum
      = T * Real.log (l.map (fun i => Real.exp (θ i))).sum) :
    ∀ i ∈ l, q i = T * Real.exp (θ i) / (l.map (fun i => Real.exp (θ i))).sum := by
  have hl := ne_nil_of_mass l q T hT hm
  have hZ := sum_exp_pos l θ hl
  rw [← gibbs_rhs_sum l θ q T hl hm, ← sum_map_sub] at h
  have := eq_of_sum_eq_of_le l _ _
    (fun i hi => gibbs_term T _ (θ i) (q i) hT hZ (hq i hi)) h
  intro i hi
  exact gibbs_term_eq T _ (θ i) (q i) hT hZ (hq i hi) (this i hi)

/-- the soft-max attains equality -/
theorem gibbs_softmax (l : List ι) (θ : ι → ℝ) (T : ℝ) (hT : 0 < T) (hl : l ≠ []) :
    (l.map (fun i => T * Real.exp (θ i) / (l.map (fun i => Real.exp (θ i))).sum * θ i)).sum
      - (l.map (fun i => hent T (T * Real.exp (θ i) / (l.map (fun i => Real.exp (θ i))).sum))).sum
      = T * Real.log (l.map (fun i => Real.exp (θ i))).sum := by
  have hZ := sum_exp_pos l θ hl
  set Z := (l.map (fun i => Real.exp (θ i))).sum with hZdef
  rw [← sum_map_sub]
  have e1 : ∀ i ∈ l, T * Real.exp (θ i) / Z * θ i - hent T (T * Real.exp (θ i) / Z)
      = Real.exp (θ i) * (T / Z * Real.log Z) := by
    intro i _
    have he := Real.exp_pos (θ i)
    have hb : 0 < T * Real.exp (θ i) / Z := by positivity
    rw [hent_pos T _ hb]
    have : T * Real.exp (θ i) / Z / T = Real.exp (θ i) / Z := by field_simp
    rw [this, Real.log_div he.ne' hZ.ne', Real.log_exp]
    ring
  rw [List.map_congr_left e1, List.sum_map_mul_right, ← hZdef]
  field_simp

/-- the soft-max has mass `T` and positive entries -/
theorem softmax_mass (l : List ι) (θ : ι → ℝ) (T : ℝ) (hl : l ≠ []) :
    (l.map (fun i => T * Real.exp (θ i) / (l.map (fun i => Real.exp (θ i))).sum)).sum = T := by
  have hZ := sum_exp_pos l θ hl
  set Z := (l.map (fun i => Real.exp (θ i))).sum with hZdef
  have e1 : ∀ i ∈ l, T * Real.exp (θ i) / Z = Real.exp (θ i) * (T / Z) := by
    intro i _; ring
  rw [List.map_congr_left e1, List.sum_map_mul_right, ← hZdef]
  field_simp

end PGM.Convex
