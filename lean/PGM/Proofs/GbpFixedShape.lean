import PGM.Proofs.GbpFixedSem
import PGM.Proofs.RegionGraphGen4
/-!
# `Shape` holds for every graph `buildOn regions false true`

For a duplicate-free list of duplicate-free regions the minimal non-convex region graph satisfies the combinatorial
hypotheses of the fixed-point theorems (`shape_buildOn`): `B[p]` is the un-cancelled numerator set, `B[r] ∖ {(p,r)}`
the un-cancelled denominator set, descendants are strict sub-regions (soundness of `reach`), a child is a descendant
and descendants of descendants are descendants (`reach_closed`, `reach_mono`), so every message of `D[p,r]` starts at
a strict sub-region of `p`, which the length-sorted message order lists before `p`.
-/
namespace PGM.GbpFixed
open PGM PGM.JT PGM.RG PGM.Convex PGM.RGGen
set_option linter.unusedSectionVars false
set_option linter.unusedVariables false

/-! ### strict subsets -/

theorem ssubset_iff (a b : Region) :
    ssubset a b = true ↔ (∀ x ∈ a, x ∈ b) ∧ ¬ (∀ x ∈ b, x ∈ a) := by
  unfold ssubset
  rw [Bool.and_eq_true, Convex.subset_iff, Bool.not_eq_true', ← Bool.not_eq_true, Convex.subset_iff]

theorem ssubset_trans {a b c : Region} (h1 : ssubset a b = true) (h2 : ssubset b c = true) : ssubset a c = true := by
  rw [ssubset_iff] at h1 h2 ⊢
  exact ⟨fun x hx => h2.1 x (h1.1 x hx), fun h => h1.2 (fun x hx => h x (h2.1 x hx))⟩

theorem ssubset_irrefl (a : Region) : ssubset a a = false := by
  by_contra h
  have h' : ssubset a a = true := by simpa using h
  exact ((ssubset_iff a a).mp h').2 (fun x hx => hx)

/-! ### generic list facts -/

theorem perm_cancel {β : Type} [BEq β] [LawfulBEq β] (A B : List β) (hA : A.Nodup) (hB : B.Nodup) :
    (A ++ B.filter (fun e => !A.contains e)).Perm (B ++ A.filter (fun e => !B.contains e)) := by
  have hd1 : (A ++ B.filter (fun e => !A.contains e)).Nodup := by
    rw [List.nodup_append]
    refine ⟨hA, hB.filter _, ?_⟩
    intro a ha b hb hab
    have := (List.mem_filter.mp hb).2
    subst hab
    simp [ha] at this
  have hd2 : (B ++ A.filter (fun e => !B.contains e)).Nodup := by
    rw [List.nodup_append]
    refine ⟨hB, hA.filter _, ?_⟩
    intro a ha b hb hab
    have := (List.mem_filter.mp hb).2
    subst hab
    simp [ha] at this
  rw [List.perm_ext_iff_of_nodup hd1 hd2]
  intro x
  simp only [List.mem_append, List.mem_filter, Bool.not_eq_eq_eq_not, Bool.not_true]
  by_cases hxa : x ∈ A <;> by_cases hxb : x ∈ B <;> simp [hxa, hxb]

theorem idxOf_lt_of_key_lt (key : Edge → Nat) (l : List Edge) (hp : l.Pairwise (fun a b => key a ≤ key b))
    (k e : Edge) (hk : k ∈ l) (he : e ∈ l) (hlt : key k < key e) : l.idxOf k < l.idxOf e := by
  induction l with
  | nil => simp at hk
  | cons a t ih =>
    have hne : k ≠ e := fun h => by subst h; omega
    by_cases hak : a = k
    · subst hak
      rw [List.idxOf_cons_self]
      rw [List.idxOf_cons_ne _ hne]
      omega
    · by_cases hae : a = e
      · subst hae
        have hkt : k ∈ t := by
          rcases List.mem_cons.mp hk with h | h
          · exact absurd h.symm hak
          · exact h
        have := (List.pairwise_cons.mp hp).1 k hkt
        omega
      · have hkt : k ∈ t := by
          rcases List.mem_cons.mp hk with h | h
          · exact absurd h.symm hak
          · exact h
        have het : e ∈ t := by
          rcases List.mem_cons.mp he with h | h
          · exact absurd h.symm hae
          · exact h
        rw [List.idxOf_cons_ne _ hak, List.idxOf_cons_ne _ hae]
        have := ih (List.pairwise_cons.mp hp).2 hkt het
        omega

theorem look_map_edge {β : Type} (l : List Edge) (F : Edge → List β) (e : Edge) (he : e ∈ l) :
    look (l.map (fun k => (k, F k))) e = F e := by
  unfold look
  induction l with
  | nil => simp at he
  | cons x xs ih =>
    simp only [List.map_cons, List.lookup_cons]
    by_cases hx : e = x
    · subst hx; simp
    · have : (e == x) = false := by simpa using hx
      rw [this]
      rcases List.mem_cons.mp he with h | h
      · exact absurd h hx
      · exact ih h

/-! ### the message sets, by membership -/

section sets
variable (par desc : List (Region × List Region))

theorem mem_outside (d r s : Region) :
    s ∈ outsideParents par desc d r ↔ s ∈ look par d ∧ s ≠ r ∧ s ∉ look desc r := by
  unfold outsideParents
  simp only [List.mem_filter, mem_dedup, Bool.and_eq_true, bne_iff_ne, ne_eq, Bool.not_eq_eq_eq_not, Bool.not_true,
    List.contains_eq_mem, decide_eq_false_iff_not]

/-- the descendant part common to `B[r]`, the numerator and the denominator -/
theorem mem_descPart (r : Region) (x : Edge) :
    x ∈ (look desc r).flatMap (fun d => (outsideParents par desc d r).map (fun p => (p, d))) ↔
      x.2 ∈ look desc r ∧ x.1 ∈ look par x.2 ∧ x.1 ≠ r ∧ x.1 ∉ look desc r := by
  simp only [List.mem_flatMap, List.mem_map]
  constructor
  · rintro ⟨d, hd, p, hp, rfl⟩
    exact ⟨hd, (mem_outside par desc d r p).mp hp⟩
  · rintro ⟨h1, h2⟩
    exact ⟨x.2, h1, x.1, (mem_outside par desc x.2 r x.1).mpr h2, rfl⟩

theorem mem_beliefSetMin (r : Region) (x : Edge) :
    x ∈ beliefSetMin par desc r ↔
      (x.2 = r ∧ x.1 ∈ look par r) ∨ (x.2 ∈ look desc r ∧ x.1 ∈ look par x.2 ∧ x.1 ≠ r ∧ x.1 ∉ look desc r) := by
  unfold beliefSetMin
  rw [mem_dedup, List.mem_append, mem_descPart]
  apply or_congr_left
  simp only [List.mem_map]
  constructor
  · rintro ⟨p, hp, rfl⟩; exact ⟨rfl, hp⟩
  · rintro ⟨h1, h2⟩; exact ⟨x.1, h1 ▸ h2, by rw [← h1]⟩

/-- the un-cancelled denominator set of `(p, r)` -/
def dset (p r : Region) : List Edge :=
  dedup (((dedup (look par r)).filter (fun s => s != p)).map (fun s => (s, r)) ++
    (look desc r).flatMap (fun d => (outsideParents par desc d r).map (fun p1 => (p1, d))))

theorem mem_dset (p r : Region) (x : Edge) :
    x ∈ dset par desc p r ↔
      (x.2 = r ∧ x.1 ∈ look par r ∧ x.1 ≠ p) ∨
      (x.2 ∈ look desc r ∧ x.1 ∈ look par x.2 ∧ x.1 ≠ r ∧ x.1 ∉ look desc r) := by
  unfold dset
  rw [mem_dedup, List.mem_append, mem_descPart]
  apply or_congr_left
  simp only [List.mem_map, List.mem_filter, mem_dedup, bne_iff_ne, ne_eq]
  constructor
  · rintro ⟨s, ⟨hs, hne⟩, rfl⟩; exact ⟨rfl, hs, hne⟩
  · rintro ⟨h1, h2, h3⟩; exact ⟨x.1, ⟨h1 ▸ h2, h3⟩, by rw [← h1]⟩

theorem msgSetsMin_eq (p r : Region) :
    msgSetsMin par desc p r =
      ((beliefSetMin par desc p).filter (fun e => !(dset par desc p r).contains e),
       (dset par desc p r).filter (fun e => !(beliefSetMin par desc p).contains e)) := rfl

theorem beliefSetMin_nodup (r : Region) : (beliefSetMin par desc r).Nodup := nodup_dedup _
theorem dset_nodup (p r : Region) : (dset par desc p r).Nodup := nodup_dedup _

end sets

/-! ### the graph `buildOn regions false true` -/

section graph
variable (regions : List Region)

/-- the pruned edges -/
def EdgesMin : List Edge :=
  edgesOf regions (minEdges regions (parentsOf regions (coverEdges regions))
    (closureOf regions (parentsOf regions (coverEdges regions))))
def ParMin : List (Region × List Region) := parentsOf regions (EdgesMin regions)
def ChiMin : List (Region × List Region) := childrenOf regions (EdgesMin regions)
def DescAll : List (Region × List Region) := closureOf regions (childrenOf regions (coverEdges regions))

theorem g_parents : (buildOn regions false true).parents = ParMin regions := rfl
theorem g_children : (buildOn regions false true).children = ChiMin regions := rfl
theorem g_regions : (buildOn regions false true).regions = regions := rfl
theorem g_order : (buildOn regions false true).messageOrder
    = (sortByLen regions).flatMap (fun ru => (look (ChiMin regions) ru).map (fun rd => (ru, rd))) := rfl
theorem g_B : (buildOn regions false true).B
    = regions.map (fun r => (r, beliefSetMin (ParMin regions) (DescAll regions) r)) := rfl
theorem g_ND : (buildOn regions false true).N
      = (regions.flatMap (fun p => (look (ChiMin regions) p).map (fun r =>
          ((p, r), msgSetsMin (ParMin regions) (DescAll regions) p r)))).map (fun e => (e.1, e.2.1)) ∧
    (buildOn regions false true).D
      = (regions.flatMap (fun p => (look (ChiMin regions) p).map (fun r =>
          ((p, r), msgSetsMin (ParMin regions) (DescAll regions) p r)))).map (fun e => (e.1, e.2.2)) := ⟨rfl, rfl⟩

/-- a pruned edge is a cover edge -/
theorem parMin_cover (p r : Region) (h : p ∈ look (ParMin regions) r) :
    r ∈ regions ∧ (p, r) ∈ coverEdges regions := by
  by_cases hr : r ∈ regions
  · refine ⟨hr, ?_⟩
    have h1 := (mem_parentsOf regions (EdgesMin regions) r p hr).mp h
    have h2 := ((mem_edgesOf regions _ (p, r)).mp h1).2
    obtain ⟨h3, h4⟩ := mem_minEdges _ _ _ (p, r) h2
    exact (mem_parentsOf regions (coverEdges regions) r p h3).mp h4
  · unfold ParMin parentsOf at h
    rw [look_map_absent regions _ r hr] at h
    exact absurd h List.not_mem_nil

theorem cover_ssubset (p r : Region) (h : (p, r) ∈ coverEdges regions) :
    p ∈ regions ∧ r ∈ regions ∧ ssubset r p = true := by
  obtain ⟨h1, h2, h3⟩ := (mem_coverEdges regions (p, r)).mp h
  simp only [Bool.and_eq_true] at h3
  exact ⟨h1, h2, h3.1⟩

theorem cover_no_between (p r x : Region) (h : (p, r) ∈ coverEdges regions) (hx : x ∈ regions)
    (h1 : ssubset r x = true) (h2 : ssubset x p = true) : False := by
  obtain ⟨_, _, h3⟩ := (mem_coverEdges regions (p, r)).mp h
  simp only [Bool.and_eq_true, Bool.not_eq_true', List.any_eq_false] at h3
  have := h3.2 x hx
  simp [h1, h2] at this

theorem children0_mem (x y : Region) (hy : y ∈ look (childrenOf regions (coverEdges regions)) x) :
    x ∈ regions ∧ y ∈ regions ∧ ssubset y x = true := by
  by_cases hx : x ∈ regions
  · have h := (mem_childrenOf regions (coverEdges regions) x y hx).mp hy
    exact cover_ssubset regions x y h
  · unfold childrenOf at hy
    rw [look_map_absent regions _ x hx] at hy
    exact absurd hy List.not_mem_nil

theorem look_desc (r : Region) (hr : r ∈ regions) :
    look (DescAll regions) r = reach regions (childrenOf regions (coverEdges regions)) r := by
  unfold DescAll closureOf
  exact look_map_self regions _ r hr

/-- descendants are strict sub-regions -/
theorem desc_sound (r d : Region) (h : d ∈ look (DescAll regions) r) :
    r ∈ regions ∧ d ∈ regions ∧ ssubset d r = true := by
  by_cases hr : r ∈ regions
  · rw [look_desc regions r hr] at h
    have := reach_min regions _ r (fun y => ssubset y r = true)
      (fun y hy => (children0_mem regions r y hy).2.2)
      (fun x hx y hy => ssubset_trans (children0_mem regions x y hy).2.2 hx) d h
    exact ⟨hr, this.2, this.1⟩
  · unfold DescAll closureOf at h
    rw [look_map_absent regions _ r hr] at h
    exact absurd h List.not_mem_nil

theorem hN0 : ∀ x, ∀ y ∈ look (childrenOf regions (coverEdges regions)) x, y ∈ regions :=
  fun x y hy => (children0_mem regions x y hy).2.1

/-- a child is a descendant -/
theorem desc_of_cover (p r : Region) (h : (p, r) ∈ coverEdges regions) : r ∈ look (DescAll regions) p := by
  obtain ⟨hp, hr, _⟩ := cover_ssubset regions p r h
  rw [look_desc regions p hp, mem_reach]
  refine ⟨hr, (reach_closed regions _ p (hN0 regions)).1 r ?_⟩
  exact (mem_childrenOf regions (coverEdges regions) p r hp).mpr h

/-- descendants of a descendant are descendants -/
theorem desc_trans (p r d : Region) (h1 : r ∈ look (DescAll regions) p) (h2 : d ∈ look (DescAll regions) r) :
    d ∈ look (DescAll regions) p := by
  obtain ⟨hp, hr, _⟩ := desc_sound regions p r h1
  rw [look_desc regions p hp] at h1 ⊢
  rw [look_desc regions r hr] at h2
  exact reach_mono regions _ p r (hN0 regions) h1 d h2

theorem look_B (r : Region) (hr : r ∈ regions) :
    look (buildOn regions false true).B r = beliefSetMin (ParMin regions) (DescAll regions) r := by
  rw [g_B]; exact look_map_self regions _ r hr

theorem mem_keys (hb : BuiltOK (buildOn regions false true)) (e : Edge) (he : e ∈ (buildOn regions false true).messageOrder) :
    e ∈ regions.flatMap (fun p => (look (ChiMin regions) p).map (fun r => (p, r))) := by
  obtain ⟨h1, h2⟩ := hb.order_sound e he
  exact List.mem_flatMap.mpr ⟨e.1, h1, List.mem_map.mpr ⟨e.2, h2, rfl⟩⟩

theorem look_N (hb : BuiltOK (buildOn regions false true)) (e : Edge)
    (he : e ∈ (buildOn regions false true).messageOrder) :
    look (buildOn regions false true).N e = (msgSetsMin (ParMin regions) (DescAll regions) e.1 e.2).1 := by
  rw [(g_ND regions).1]
  have : (regions.flatMap (fun p => (look (ChiMin regions) p).map (fun r =>
          ((p, r), msgSetsMin (ParMin regions) (DescAll regions) p r)))).map (fun e => (e.1, e.2.1))
      = (regions.flatMap (fun p => (look (ChiMin regions) p).map (fun r => (p, r)))).map
          (fun k => (k, (msgSetsMin (ParMin regions) (DescAll regions) k.1 k.2).1)) := by
    simp only [List.map_flatMap, List.map_map, Function.comp_def]
  rw [this]
  exact look_map_edge _ _ e (mem_keys regions hb e he)

theorem look_D (hb : BuiltOK (buildOn regions false true)) (e : Edge)
    (he : e ∈ (buildOn regions false true).messageOrder) :
    look (buildOn regions false true).D e = (msgSetsMin (ParMin regions) (DescAll regions) e.1 e.2).2 := by
  rw [(g_ND regions).2]
  have : (regions.flatMap (fun p => (look (ChiMin regions) p).map (fun r =>
          ((p, r), msgSetsMin (ParMin regions) (DescAll regions) p r)))).map (fun e => (e.1, e.2.2))
      = (regions.flatMap (fun p => (look (ChiMin regions) p).map (fun r => (p, r)))).map
          (fun k => (k, (msgSetsMin (ParMin regions) (DescAll regions) k.1 k.2).2)) := by
    simp only [List.map_flatMap, List.map_map, Function.comp_def]
  rw [this]
  exact look_map_edge _ _ e (mem_keys regions hb e he)

theorem pairwise_refl_le {β : Type} (l : List β) (n : Nat) : l.Pairwise (fun _ _ => n ≤ n) := by
  induction l with
  | nil => exact List.Pairwise.nil
  | cons a t ih => exact List.pairwise_cons.mpr ⟨fun _ _ => Nat.le_refl _, ih⟩

/-- the message order is sorted by the length of the source region -/
theorem order_sorted : (buildOn regions false true).messageOrder.Pairwise
    (fun a b => a.1.length ≤ b.1.length) := by
  rw [g_order, List.pairwise_flatMap]
  constructor
  · intro ru _
    rw [List.pairwise_map]
    exact pairwise_refl_le (look (ChiMin regions) ru) ru.length
  · have hs : (sortByLen regions).Pairwise (fun a b => a.length ≤ b.length) := Dom.sortBy_sorted _ regions
    refine hs.imp ?_
    intro a b hab x hx y hy
    obtain ⟨_, _, rfl⟩ := List.mem_map.mp hx
    obtain ⟨_, _, rfl⟩ := List.mem_map.mp hy
    exact hab

theorem order_nodup (hnd : regions.Nodup) (hb : BuiltOK (buildOn regions false true)) :
    (buildOn regions false true).messageOrder.Nodup := by
  rw [g_order, List.nodup_flatMap]
  constructor
  · intro ru hru
    have hr : ru ∈ regions := (Oracle.mem_sortByLen regions ru).mp hru
    have := hb.children_nodup ru hr
    rw [g_children] at this
    exact this.map (fun a b h => (Prod.mk.inj h).2)
  · refine (Oracle.sortByLen_nodup regions hnd).imp ?_
    intro a b hne x h1 h2
    obtain ⟨_, _, rfl⟩ := List.mem_map.mp h1
    obtain ⟨_, _, h⟩ := List.mem_map.mp h2
    exact hne (Prod.mk.inj h).1.symm

/-- **`Shape` of the minimal non-convex region graph** -/
theorem shape_buildOn (hnd : regions.Nodup) (hreg : ∀ r ∈ regions, r.Nodup) :
    Shape (buildOn regions false true) := by
  have hb := buildOn_ok regions false true hnd
  -- the members of `B[r]` are edges of the order, on sub-regions of `r`
  have hBsub : ∀ r ∈ regions, ∀ k ∈ beliefSetMin (ParMin regions) (DescAll regions) r,
      k ∈ (buildOn regions false true).messageOrder ∧ (k.2 = r ∨ k.2 ∈ look (DescAll regions) r) := by
    intro r hr k hk
    have hedge : ∀ s d : Region, d ∈ regions → s ∈ look (ParMin regions) d →
        (s, d) ∈ (buildOn regions false true).messageOrder := by
      intro s d hd hs
      obtain ⟨h1, h2⟩ := (hb.parents_dual d hd s).mp hs
      exact hb.order_complete s h1 d h2
    rcases (mem_beliefSetMin _ _ r k).mp hk with ⟨h1, h2⟩ | ⟨h1, h2, _, _⟩
    · refine ⟨?_, Or.inl h1⟩
      have := hedge k.1 r hr h2
      rw [← h1] at this
      exact this
    · exact ⟨hedge k.1 k.2 (desc_sound regions r k.2 h1).2.1 h2, Or.inr h1⟩
  have hsubset_of : ∀ r k2 : Region, (k2 = r ∨ k2 ∈ look (DescAll regions) r) → ∀ a ∈ k2, a ∈ r := by
    intro r k2 h a ha
    rcases h with rfl | h
    · exact ha
    · exact ((ssubset_iff _ _).mp (desc_sound regions r k2 h).2.2).1 a ha
  -- `dset ⊆ B[r]`, `B[r] = (p,r) :: dset`
  have hdsub : ∀ p r : Region, ∀ x ∈ dset (ParMin regions) (DescAll regions) p r,
      x ∈ beliefSetMin (ParMin regions) (DescAll regions) r := by
    intro p r x hx
    rw [mem_beliefSetMin]
    rcases (mem_dset _ _ p r x).mp hx with ⟨h1, h2, _⟩ | h
    · exact Or.inl ⟨h1, h2⟩
    · exact Or.inr h
  refine ⟨order_nodup regions hnd hb, hb.order_sound, ?_, ?_, ?_, ?_, ?_⟩
  · intro r hr k hk
    rw [g_regions] at hr
    rw [look_B regions r hr] at hk
    obtain ⟨h1, h2⟩ := hBsub r hr k hk
    exact ⟨h1, hsubset_of r k.2 h2⟩
  · intro e he k hk
    have hp : e.1 ∈ regions := (hb.order_sound e he).1
    rw [look_N regions hb e he, msgSetsMin_eq] at hk
    rw [look_B regions e.1 hp]
    exact (List.mem_filter.mp hk).1
  · intro e he k hk
    have hr : e.2 ∈ regions := (hb.children_sub e.1 (hb.order_sound e he).1 e.2 (hb.order_sound e he).2).1
    rw [look_D regions hb e he, msgSetsMin_eq] at hk
    rw [look_B regions e.2 hr]
    exact hdsub e.1 e.2 k (List.mem_filter.mp hk).1
  · -- `D[p,r]` precedes `(p,r)`
    intro e he k hk
    obtain ⟨hp, hch⟩ := hb.order_sound e he
    have hr : e.2 ∈ regions := (hb.children_sub e.1 hp e.2 hch).1
    have hpar : e.1 ∈ look (ParMin regions) e.2 := (hb.parents_dual e.2 hr e.1).mpr ⟨hp, hch⟩
    have hcov := (parMin_cover regions e.1 e.2 hpar).2
    have hrd : e.2 ∈ look (DescAll regions) e.1 := desc_of_cover regions e.1 e.2 hcov
    rw [look_D regions hb e he, msgSetsMin_eq] at hk
    obtain ⟨hkd, hkn⟩ := List.mem_filter.mp hk
    have hkn' : k ∉ beliefSetMin (ParMin regions) (DescAll regions) e.1 := by simpa using hkn
    have hkord := (hBsub e.2 hr k (hdsub e.1 e.2 k hkd)).1
    -- the source of `k` is a descendant of `p`
    have hsrc : k.1 ∈ look (DescAll regions) e.1 := by
      rw [mem_beliefSetMin] at hkn'
      push Not at hkn'
      rcases (mem_dset _ _ e.1 e.2 k).mp hkd with ⟨h1, h2, h3⟩ | ⟨h1, h2, h3, h4⟩
      · have hk2 : k.2 ∈ look (DescAll regions) e.1 := h1 ▸ hrd
        exact hkn'.2 hk2 (h1 ▸ h2) h3
      · have hk2 : k.2 ∈ look (DescAll regions) e.1 := desc_trans regions e.1 e.2 k.2 hrd h1
        have hne : k.1 ≠ e.1 := by
          intro heq
          have hc := (parMin_cover regions k.1 k.2 h2).2
          rw [heq] at hc
          exact cover_no_between regions e.1 k.2 e.2 hc hr (desc_sound regions e.2 k.2 h1).2.2
            (cover_ssubset regions e.1 e.2 hcov).2.2
        exact hkn'.2 hk2 h2 hne
    obtain ⟨_, hk1R, hss⟩ := desc_sound regions e.1 k.1 hsrc
    have hlen := ssubset_length k.1 e.1 hss (hreg k.1 hk1R)
    exact idxOf_lt_of_key_lt (fun a => a.1.length) _ (order_sorted regions) k e hkord he hlen
  · -- balance
    intro e he
    obtain ⟨hp, hch⟩ := hb.order_sound e he
    have hr : e.2 ∈ regions := (hb.children_sub e.1 hp e.2 hch).1
    have hpar : e.1 ∈ look (ParMin regions) e.2 := (hb.parents_dual e.2 hr e.1).mpr ⟨hp, hch⟩
    rw [look_B regions e.1 hp, look_B regions e.2 hr, look_N regions hb e he, look_D regions hb e he, msgSetsMin_eq]
    simp only
    have hnotin : e ∉ dset (ParMin regions) (DescAll regions) e.1 e.2 := by
      intro hmem
      rcases (mem_dset _ _ e.1 e.2 e).mp hmem with ⟨_, _, h3⟩ | ⟨h1, _⟩
      · exact h3 rfl
      · have := (desc_sound regions e.2 e.2 h1).2.2
        rw [ssubset_irrefl] at this
        exact absurd this (by simp)
    have hBr : (beliefSetMin (ParMin regions) (DescAll regions) e.2).Perm
        (e :: dset (ParMin regions) (DescAll regions) e.1 e.2) := by
      rw [List.perm_ext_iff_of_nodup (beliefSetMin_nodup _ _ _)
        (List.nodup_cons.mpr ⟨hnotin, dset_nodup _ _ _ _⟩)]
      intro x
      rw [List.mem_cons, mem_beliefSetMin, mem_dset]
      constructor
      · rintro (⟨h1, h2⟩ | h)
        · by_cases hx : x.1 = e.1
          · exact Or.inl (Prod.ext hx h1)
          · exact Or.inr (Or.inl ⟨h1, h2, hx⟩)
        · exact Or.inr (Or.inr h)
      · rintro (rfl | ⟨h1, h2, _⟩ | h)
        · exact Or.inl ⟨rfl, hpar⟩
        · exact Or.inl ⟨h1, h2⟩
        · exact Or.inr h
    have h1 := perm_cancel (beliefSetMin (ParMin regions) (DescAll regions) e.1)
      (dset (ParMin regions) (DescAll regions) e.1 e.2) (beliefSetMin_nodup _ _ _) (dset_nodup _ _ _ _)
    calc (beliefSetMin (ParMin regions) (DescAll regions) e.1 ++
            (dset (ParMin regions) (DescAll regions) e.1 e.2).filter
              (fun x => !(beliefSetMin (ParMin regions) (DescAll regions) e.1).contains x) ++ [e])
        |>.Perm (e :: (beliefSetMin (ParMin regions) (DescAll regions) e.1 ++
            (dset (ParMin regions) (DescAll regions) e.1 e.2).filter
              (fun x => !(beliefSetMin (ParMin regions) (DescAll regions) e.1).contains x))) :=
          List.perm_append_singleton _ _
      _ |>.Perm (e :: (dset (ParMin regions) (DescAll regions) e.1 e.2 ++
            (beliefSetMin (ParMin regions) (DescAll regions) e.1).filter
              (fun x => !(dset (ParMin regions) (DescAll regions) e.1 e.2).contains x))) := h1.cons e
      _ |>.Perm (beliefSetMin (ParMin regions) (DescAll regions) e.2 ++
            (beliefSetMin (ParMin regions) (DescAll regions) e.1).filter
              (fun x => !(dset (ParMin regions) (DescAll regions) e.1 e.2).contains x)) :=
          (hBr.append_right _).symm

end graph
end PGM.GbpFixed
