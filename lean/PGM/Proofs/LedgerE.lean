import PGM.Proofs.SelGen
import PGM.Proofs.AdaGridSensApply
import PGM.Proofs.AdaGridSensBuilt
import PGM.Proofs.Ledger
/-!
# Helper lemmas for `PGM/Properties/C05E.lean` (end-to-end privacy ledgers)

* count vectors: a marginal is the vector of cell counts of the records' cell indices; one record more adds 1 to
  exactly one cell (`countVec_cons_*`), replacing a record moves one unit between two cells;
* the actual change of a probability vector, `logDist`, and its bound from `Forall₂`;
* sums over zipped lists.

Nothing here mentions a generated definition.
-/
namespace PGM.LedgerE
open PGM.SelectG PGM.SelGen PGM.AdaGridSens

/-! ### distances -/

theorem l1_eq (x y : List ℝ) : l1 x y = ((List.zipWith (fun s t => s - t) x y).map (fun t => |t|)).sum := by
  simp [l1, npSum_real, absK_real_fun]

theorem l1_map {α : Type} (l : List α) (f g : α → ℝ) :
    l1 (l.map f) (l.map g) = (l.map (fun a => |f a - g a|)).sum := by
  induction l with
  | nil => simp [l1_nil]
  | cons a l ih => simp only [List.map_cons, l1_cons, List.sum_cons, ih]

theorem l1_comm (x y : List ℝ) : l1 x y = l1 y x := by
  rw [l1_eq, l1_eq]
  induction x generalizing y with
  | nil => cases y <;> simp
  | cons a x ih =>
    cases y with
    | nil => simp
    | cons b y =>
      simp only [List.zipWith_cons_cons, List.map_cons, List.sum_cons, ih y, abs_sub_comm a b]

theorem sqDist_map {α : Type} (l : List α) (f g : α → ℝ) :
    sqDist (l.map f) (l.map g) = (l.map (fun a => (f a - g a) ^ 2)).sum := by
  unfold sqDist
  induction l with
  | nil => simp
  | cons a l ih => simp only [List.map_cons, List.zipWith_cons_cons, List.sum_cons, ih]

theorem sqDist_comm (a b : List ℝ) : sqDist a b = sqDist b a := by
  unfold sqDist
  induction a generalizing b with
  | nil => cases b <;> simp
  | cons x a ih =>
    cases b with
    | nil => simp
    | cons y b =>
      simp only [List.zipWith_cons_cons, List.sum_cons, ih b]
      ring

theorem sqDist_self (a : List ℝ) : sqDist a a = 0 := by
  unfold sqDist
  induction a with
  | nil => simp
  | cons x a ih => simp only [List.zipWith_cons_cons, List.sum_cons, ih]; ring

theorem sqDist_nonneg (a b : List ℝ) : 0 ≤ sqDist a b := by
  unfold sqDist
  induction a generalizing b with
  | nil => simp
  | cons x a ih =>
    cases b with
    | nil => simp
    | cons y b =>
      simp only [List.zipWith_cons_cons, List.sum_cons]
      have := ih b
      positivity

/-! ### count vectors -/

/-- the data vector of a marginal with `n` cells: `cells` are the cell indices of the records -/
def countVec (n : ℕ) (cells : List ℕ) : List ℝ := (List.range n).map (fun c => ((cells.count c : ℕ) : ℝ))

theorem countVec_length (n : ℕ) (cells : List ℕ) : (countVec n cells).length = n := by
  simp [countVec]

/-- the order of the records does not matter -/
theorem countVec_perm (n : ℕ) {cells cells' : List ℕ} (h : cells.Perm cells') : countVec n cells = countVec n cells' := by
  unfold countVec
  apply List.map_congr_left
  intro c _
  rw [h.count_eq]

/-- a record adds 1 to exactly one cell -/
theorem count_cons_sub (j c : ℕ) (cells : List ℕ) :
    (((j :: cells).count c : ℕ) : ℝ) - ((cells.count c : ℕ) : ℝ) = if j = c then 1 else 0 := by
  rw [List.count_cons]
  by_cases h : j = c
  · subst h; simp
  · have : (j == c) = false := by simpa using h
    simp [this, h]

theorem sum_range_ite (n j : ℕ) :
    ((List.range n).map (fun c => if j = c then (1 : ℝ) else 0)).sum = if j < n then 1 else 0 := by
  induction n with
  | zero => simp
  | succ n ih =>
    rw [List.range_succ, List.map_append, List.sum_append, ih]
    by_cases h1 : j < n
    · have h2 : j ≠ n := by omega
      have h3 : j < n + 1 := by omega
      simp [h1, h2, h3]
    · by_cases h2 : j = n
      · subst h2; simp
      · have h3 : ¬ j < n + 1 := by omega
        simp [h1, h2, h3]

theorem countVec_cons_l1 (n j : ℕ) (cells : List ℕ) :
    l1 (countVec n (j :: cells)) (countVec n cells) = if j < n then 1 else 0 := by
  unfold countVec
  rw [l1_map, ← sum_range_ite n j]
  congr 1
  apply List.map_congr_left
  intro c _
  rw [count_cons_sub]
  split <;> simp

theorem countVec_cons_sqDist (n j : ℕ) (cells : List ℕ) :
    sqDist (countVec n (j :: cells)) (countVec n cells) = if j < n then 1 else 0 := by
  unfold countVec
  rw [sqDist_map, ← sum_range_ite n j]
  congr 1
  apply List.map_congr_left
  intro c _
  rw [count_cons_sub]
  split <;> simp

/-- the `set` form used by `AdaGridSens.sqDist_apply_add_unit` -/
theorem countVec_cons_set (n j : ℕ) (cells : List ℕ) :
    countVec n (j :: cells) = (countVec n cells).set j ((countVec n cells).getD j 0 + 1) := by
  apply List.ext_getElem
  · simp [countVec]
  · intro i h1 h2
    have hi : i < n := by simpa [countVec] using h1
    have hc : ∀ (cs : List ℕ) (h : i < (countVec n cs).length), (countVec n cs)[i] = ((cs.count i : ℕ) : ℝ) := by
      intro cs h; simp [countVec]
    rw [List.getElem_set, hc]
    have hsub := count_cons_sub j i cells
    by_cases hji : j = i
    · subst hji
      have hg : (countVec n cells).getD j 0 = ((cells.count j : ℕ) : ℝ) := by
        have hlt : j < (countVec n cells).length := by simpa [countVec] using hi
        rw [List.getD_eq_getElem?_getD, List.getElem?_eq_getElem hlt, Option.getD_some, hc]
      rw [if_pos rfl, hg]
      rw [if_pos rfl] at hsub
      linarith
    · rw [if_neg hji, hc]
      rw [if_neg hji] at hsub
      linarith

/-- replacing a record: one unit moves from cell `j'` to cell `j` -/
theorem countVec_replace_l1 (n j j' : ℕ) (cells : List ℕ) :
    l1 (countVec n (j :: cells)) (countVec n (j' :: cells)) ≤ 2 := by
  unfold countVec
  rw [l1_map]
  have hpt : ∀ c, |(((j :: cells).count c : ℕ) : ℝ) - (((j' :: cells).count c : ℕ) : ℝ)|
      ≤ (if j = c then (1 : ℝ) else 0) + (if j' = c then (1 : ℝ) else 0) := by
    intro c
    have e : (((j :: cells).count c : ℕ) : ℝ) - (((j' :: cells).count c : ℕ) : ℝ)
        = ((((j :: cells).count c : ℕ) : ℝ) - ((cells.count c : ℕ) : ℝ)) - ((((j' :: cells).count c : ℕ) : ℝ) - ((cells.count c : ℕ) : ℝ)) := by ring
    rw [e, count_cons_sub, count_cons_sub]
    split <;> split <;> norm_num
  calc ((List.range n).map (fun c => |(((j :: cells).count c : ℕ) : ℝ) - (((j' :: cells).count c : ℕ) : ℝ)|)).sum
      ≤ ((List.range n).map (fun c => (if j = c then (1 : ℝ) else 0) + (if j' = c then (1 : ℝ) else 0))).sum :=
        List.sum_le_sum (fun c _ => hpt c)
    _ = ((List.range n).map (fun c => if j = c then (1 : ℝ) else 0)).sum
          + ((List.range n).map (fun c => if j' = c then (1 : ℝ) else 0)).sum := by
        rw [List.sum_map_add]
    _ ≤ 2 := by
        rw [sum_range_ite, sum_range_ite]
        split <;> split <;> norm_num

theorem countVec_replace_sqDist (n j j' : ℕ) (cells : List ℕ) :
    sqDist (countVec n (j :: cells)) (countVec n (j' :: cells)) ≤ 2 := by
  unfold countVec
  rw [sqDist_map]
  have hpt : ∀ c, ((((j :: cells).count c : ℕ) : ℝ) - (((j' :: cells).count c : ℕ) : ℝ)) ^ 2
      ≤ (if j = c then (1 : ℝ) else 0) + (if j' = c then (1 : ℝ) else 0) := by
    intro c
    have e : (((j :: cells).count c : ℕ) : ℝ) - (((j' :: cells).count c : ℕ) : ℝ)
        = ((((j :: cells).count c : ℕ) : ℝ) - ((cells.count c : ℕ) : ℝ)) - ((((j' :: cells).count c : ℕ) : ℝ) - ((cells.count c : ℕ) : ℝ)) := by ring
    rw [e, count_cons_sub, count_cons_sub]
    split <;> split <;> norm_num
  calc ((List.range n).map (fun c => ((((j :: cells).count c : ℕ) : ℝ) - (((j' :: cells).count c : ℕ) : ℝ)) ^ 2)).sum
      ≤ ((List.range n).map (fun c => (if j = c then (1 : ℝ) else 0) + (if j' = c then (1 : ℝ) else 0))).sum :=
        List.sum_le_sum (fun c _ => hpt c)
    _ = ((List.range n).map (fun c => if j = c then (1 : ℝ) else 0)).sum
          + ((List.range n).map (fun c => if j' = c then (1 : ℝ) else 0)).sum := by
        rw [List.sum_map_add]
    _ ≤ 2 := by
        rw [sum_range_ite, sum_range_ite]
        split <;> split <;> norm_num

/-- the bound 2 is attained: the two records fall into different cells -/
theorem countVec_replace_sqDist_attained : sqDist (countVec 2 [0]) (countVec 2 [1]) = 2 ∧ l1 (countVec 2 [0]) (countVec 2 [1]) = 2 := by
  constructor
  · simp [countVec, sqDist, List.range_succ]; norm_num
  · simp [countVec, List.range_succ, l1_cons, l1_nil]; norm_num

/-! ### the actual change of a probability vector -/

/-- `max_i |log p_i − log p'_i|` (0 on the empty vector) -/
noncomputable def logDist : List ℝ → List ℝ → ℝ
  | a :: p, b :: p' => max |Real.log a - Real.log b| (logDist p p')
  | _, _ => 0

theorem logDist_nonneg (p p' : List ℝ) : 0 ≤ logDist p p' := by
  induction p generalizing p' with
  | nil => simp [logDist]
  | cons a p ih =>
    cases p' with
    | nil => simp [logDist]
    | cons b p' => simp only [logDist]; exact le_max_of_le_right (ih p')

theorem logDist_le {e : ℝ} (he : 0 ≤ e) {p p' : List ℝ}
    (h : List.Forall₂ (fun a b => |Real.log a - Real.log b| ≤ e) p p') : logDist p p' ≤ e := by
  induction h with
  | nil => simpa [logDist] using he
  | cons hab _ ih => simp only [logDist]; exact max_le hab ih

/-- `logDist` is attained coordinate-wise: it is not smaller than any single log-ratio -/
theorem le_logDist (p p' : List ℝ) (i : ℕ) (h : i < p.length) (h' : i < p'.length) :
    |Real.log p[i] - Real.log p'[i]| ≤ logDist p p' := by
  induction p generalizing p' i with
  | nil => simp at h
  | cons a p ih =>
    cases p' with
    | nil => simp at h'
    | cons b p' =>
      cases i with
      | zero => simp only [logDist, List.getElem_cons_zero]; exact le_max_left _ _
      | succ i =>
        simp only [logDist, List.getElem_cons_succ]
        exact le_max_of_le_right (ih p' i (by simpa using h) (by simpa using h'))

theorem sq_logDist_le {e : ℝ} (he : 0 ≤ e) {p p' : List ℝ}
    (h : List.Forall₂ (fun a b => |Real.log a - Real.log b| ≤ e) p p') : logDist p p' ^ 2 ≤ e ^ 2 :=
  pow_le_pow_left₀ (logDist_nonneg p p') (logDist_le he h) 2

/-! ### sums -/

theorem sum_le_length_mul {α : Type} (l : List α) (f : α → ℝ) (B : ℝ) (h : ∀ a ∈ l, f a ≤ B) :
    (l.map f).sum ≤ (l.length : ℝ) * B := by
  induction l with
  | nil => simp
  | cons a l ih =>
    simp only [List.map_cons, List.sum_cons, List.length_cons, Nat.cast_add, Nat.cast_one]
    have h1 := h a (List.mem_cons_self ..)
    have h2 := ih (fun b hb => h b (List.mem_cons_of_mem _ hb))
    linarith

/-- a zipped sum of terms `t (c, w) ≤ f w`, `f ≥ 0`, is at most the sum of `f` over all the weights -/
theorem sum_zip_le {α : Type} (cs : List α) (ws : List ℝ) (t : α × ℝ → ℝ) (f : ℝ → ℝ)
    (hf : ∀ w ∈ ws, 0 ≤ f w) (ht : ∀ c w, w ∈ ws → t (c, w) ≤ f w) :
    ((List.zip cs ws).map t).sum ≤ (ws.map f).sum := by
  induction cs generalizing ws with
  | nil =>
    simp only [List.zip_nil_left, List.map_nil, List.sum_nil]
    exact List.sum_nonneg (fun x hx => by obtain ⟨w, hw, rfl⟩ := List.mem_map.1 hx; exact hf w hw)
  | cons c cs ih =>
    cases ws with
    | nil => simp
    | cons w ws =>
      simp only [List.zip_cons_cons, List.map_cons, List.sum_cons]
      have h1 := ht c w (List.mem_cons_self ..)
      have h2 := ih ws (fun v hv => hf v (List.mem_cons_of_mem _ hv)) (fun c v hv => ht c v (List.mem_cons_of_mem _ hv))
      linarith

/-- zipped transcripts related by `Forall₂`: every term bounded -/
theorem sum_zipWith_le_of_forall₂ {α : Type} (R : α → α → Prop) (t : α → α → ℝ) (B : ℝ) (l l' : List α)
    (h : List.Forall₂ R l l') (hb : ∀ a b, R a b → t a b ≤ B) :
    (List.zipWith t l l').sum ≤ (l.length : ℝ) * B := by
  induction h with
  | nil => simp
  | cons hab _ ih =>
    simp only [List.zipWith_cons_cons, List.sum_cons, List.length_cons, Nat.cast_add, Nat.cast_one]
    have := hb _ _ hab
    linarith

end PGM.LedgerE
