import PGM.Proofs.RegionGraphGen3
import PGM.Proofs.Dataset
/-!
# Model-only facts behind the counting numbers: `RG.reach`, the cover graph, `RG.moebius`

* `reach_min`: `reach` is contained in every set that contains the neighbours of the start and is closed under neighbours
  (soundness of the breadth-first search), and stays inside `regions`;
* `reach_closed`: with `regions.length` rounds the search does reach a fixed point (each unfinished round adds a new region), so the
  set it returns is closed under neighbours — hence `reach_mono`: `a ∈ reach r → reach a ⊆ reach r`;
* on the cover graph a parent is a strict superset, hence longer (`ssubset_length`): ancestors are longer (`anc_longer`), no region is
  its own ancestor, and `a ∈ anc r → |anc a| < |anc r|` (`anc_card_lt`) — the order `byDepth` of `RG.moebius` lists ancestors first;
* `moebius_rec`: the table of `RG.moebius` satisfies `c r = 1 − Σ_{a ∈ anc r} c a`.
-/
namespace PGM.RGGen
open PGM PGM.JT PGM.RG PGM.Convex PGM.Oracle
set_option linter.unusedSectionVars false
set_option linter.unusedVariables false

/-! ## `reach` -/

theorem reach_go_succ (nbrs : List (Region × List Region)) (fuel : Nat) (seen : List Region) :
    RG.reach.go nbrs (fuel + 1) seen =
      if (RG.dedup ((seen.flatMap (RG.look nbrs)).filter (fun x => !seen.contains x))).isEmpty then seen
      else RG.reach.go nbrs fuel (seen ++ RG.dedup ((seen.flatMap (RG.look nbrs)).filter (fun x => !seen.contains x))) := rfl

theorem mem_next (nbrs : List (Region × List Region)) (seen : List Region) (y : Region) :
    y ∈ RG.dedup ((seen.flatMap (RG.look nbrs)).filter (fun x => !seen.contains x)) ↔
      (∃ x ∈ seen, y ∈ RG.look nbrs x) ∧ y ∉ seen := by
  rw [mem_dedup, List.mem_filter, List.mem_flatMap]
  simp

/-- soundness: the search never leaves a set that is closed under neighbours -/
theorem reach_go_min (nbrs : List (Region × List Region)) (T : Region → Prop)
    (hstep : ∀ x, T x → ∀ y ∈ RG.look nbrs x, T y) :
    ∀ (fuel : Nat) (seen : List Region), (∀ x ∈ seen, T x) → ∀ x ∈ RG.reach.go nbrs fuel seen, T x := by
  intro fuel
  induction fuel with
  | zero => intro seen h x hx; exact h x hx
  | succ fuel ih =>
    intro seen h x hx
    rw [reach_go_succ] at hx
    split at hx
    · exact h x hx
    · apply ih _ _ x hx
      intro y hy
      rcases List.mem_append.mp hy with hy | hy
      · exact h y hy
      · obtain ⟨⟨z, hz, hyz⟩, _⟩ := (mem_next nbrs seen y).mp hy
        exact hstep z (h z hz) y hyz

theorem mem_reach (regions : List Region) (nbrs : List (Region × List Region)) (r x : Region) :
    x ∈ RG.reach regions nbrs r ↔ x ∈ regions ∧ x ∈ RG.reach.go nbrs regions.length (RG.dedup (RG.look nbrs r)) := by
  unfold RG.reach
  simp only [List.mem_filter, List.contains_iff_mem]

theorem reach_min (regions : List Region) (nbrs : List (Region × List Region)) (r : Region) (T : Region → Prop)
    (h0 : ∀ y ∈ RG.look nbrs r, T y) (hstep : ∀ x, T x → ∀ y ∈ RG.look nbrs x, T y) :
    ∀ x ∈ RG.reach regions nbrs r, T x ∧ x ∈ regions := by
  intro x hx
  obtain ⟨h1, h2⟩ := (mem_reach regions nbrs r x).mp hx
  refine ⟨reach_go_min nbrs T hstep _ _ ?_ x h2, h1⟩
  intro y hy
  exact h0 y ((mem_dedup _ _).mp hy)

/-- completeness: with enough rounds the search stops at a set closed under neighbours -/
theorem reach_go_closed (regions : List Region) (nbrs : List (Region × List Region))
    (hN : ∀ x, ∀ y ∈ RG.look nbrs x, y ∈ regions) :
    ∀ (fuel : Nat) (seen : List Region), seen.Nodup → (∀ x ∈ seen, x ∈ regions) → regions.length + 1 ≤ seen.length + fuel →
      (∀ x ∈ seen, x ∈ RG.reach.go nbrs fuel seen) ∧
      (∀ x ∈ RG.reach.go nbrs fuel seen, ∀ y ∈ RG.look nbrs x, y ∈ RG.reach.go nbrs fuel seen) := by
  intro fuel
  induction fuel with
  | zero =>
    intro seen hnd hsub hlen
    have : seen.length ≤ regions.length := (List.subperm_of_subset hnd hsub).length_le
    omega
  | succ fuel ih =>
    intro seen hnd hsub hlen
    rw [reach_go_succ]
    split
    · rename_i hemp
      refine ⟨fun x hx => hx, ?_⟩
      intro x hx y hy
      by_contra hny
      have : y ∈ RG.dedup ((seen.flatMap (RG.look nbrs)).filter (fun x => !seen.contains x)) :=
        (mem_next nbrs seen y).mpr ⟨⟨x, hx, hy⟩, hny⟩
      rw [List.isEmpty_iff.mp hemp] at this
      exact absurd this List.not_mem_nil
    · rename_i hne
      have hnext_nd := nodup_dedup ((seen.flatMap (RG.look nbrs)).filter (fun x => !seen.contains x))
      have hlen' : 1 ≤ (RG.dedup ((seen.flatMap (RG.look nbrs)).filter (fun x => !seen.contains x))).length := by
        cases h : RG.dedup ((seen.flatMap (RG.look nbrs)).filter (fun x => !seen.contains x)) with
        | nil => rw [h] at hne; simp at hne
        | cons _ _ => simp
      obtain ⟨g1, g2⟩ := ih (seen ++ RG.dedup ((seen.flatMap (RG.look nbrs)).filter (fun x => !seen.contains x)))
        (by
          refine List.nodup_append.mpr ⟨hnd, hnext_nd, ?_⟩
          intro a ha b hb hab
          subst hab
          exact ((mem_next nbrs seen a).mp hb).2 ha)
        (by
          intro x hx
          rcases List.mem_append.mp hx with hx | hx
          · exact hsub x hx
          · obtain ⟨⟨z, _, hz⟩, _⟩ := (mem_next nbrs seen x).mp hx
            exact hN z x hz)
        (by rw [List.length_append]; omega)
      exact ⟨fun x hx => g1 x (List.mem_append_left _ hx), g2⟩

theorem dedup_eq_nil {β : Type} [BEq β] [LawfulBEq β] (l : List β) (h : RG.dedup l = []) : l = [] := by
  cases l with
  | nil => rfl
  | cons x xs =>
    have : x ∈ RG.dedup (x :: xs) := (mem_dedup _ _).mpr List.mem_cons_self
    rw [h] at this
    exact absurd this List.not_mem_nil

/-- the set the search returns contains the neighbours of the start and is closed under neighbours -/
theorem reach_closed (regions : List Region) (nbrs : List (Region × List Region)) (r : Region)
    (hN : ∀ x, ∀ y ∈ RG.look nbrs x, y ∈ regions) :
    (∀ y ∈ RG.look nbrs r, y ∈ RG.reach.go nbrs regions.length (RG.dedup (RG.look nbrs r))) ∧
    (∀ x ∈ RG.reach.go nbrs regions.length (RG.dedup (RG.look nbrs r)), ∀ y ∈ RG.look nbrs x,
      y ∈ RG.reach.go nbrs regions.length (RG.dedup (RG.look nbrs r))) := by
  by_cases hemp : RG.dedup (RG.look nbrs r) = []
  · have h0 := dedup_eq_nil _ hemp
    rw [hemp, reach_go_nil]
    refine ⟨?_, fun x hx => absurd hx List.not_mem_nil⟩
    intro y hy
    rw [h0] at hy
    exact absurd hy List.not_mem_nil
  · have hlen : 1 ≤ (RG.dedup (RG.look nbrs r)).length := by
      cases h : RG.dedup (RG.look nbrs r) with
      | nil => exact absurd h hemp
      | cons _ _ => simp
    obtain ⟨g1, g2⟩ := reach_go_closed regions nbrs hN regions.length (RG.dedup (RG.look nbrs r)) (nodup_dedup _)
      (fun x hx => hN r x ((mem_dedup _ _).mp hx)) (by omega)
    exact ⟨fun y hy => g1 y ((mem_dedup _ _).mpr hy), g2⟩

/-- the ancestors of an ancestor are ancestors -/
theorem reach_mono (regions : List Region) (nbrs : List (Region × List Region)) (r a : Region)
    (hN : ∀ x, ∀ y ∈ RG.look nbrs x, y ∈ regions) (ha : a ∈ RG.reach regions nbrs r) :
    ∀ x ∈ RG.reach regions nbrs a, x ∈ RG.reach regions nbrs r := by
  obtain ⟨c1, c2⟩ := reach_closed regions nbrs r hN
  have haS := ((mem_reach regions nbrs r a).mp ha).2
  intro x hx
  obtain ⟨h1, h2⟩ := reach_min regions nbrs a (fun y => y ∈ RG.reach.go nbrs regions.length (RG.dedup (RG.look nbrs r)))
    (fun y hy => c2 a haS y hy) (fun z hz y hy => c2 z hz y hy) x hx
  exact (mem_reach regions nbrs r x).mpr ⟨h2, h1⟩


/-! ## the cover graph: parents are strict supersets, hence longer -/

theorem look_map_absent {β : Type} (l : List Region) (F : Region → List β) (x : Region) (hx : x ∉ l) :
    RG.look (l.map (fun r => (r, F r))) x = [] := by
  unfold RG.look
  induction l with
  | nil => rfl
  | cons y ys ih =>
    have hne : (x == y) = false := by
      have : x ≠ y := fun h => hx (h ▸ List.mem_cons_self)
      simpa using this
    simp only [List.map_cons, List.lookup_cons, hne]
    exact ih (fun h => hx (List.mem_cons_of_mem _ h))

theorem parents0_mem (regions : List Region) (x y : Region)
    (hy : y ∈ RG.look (parentsOf regions (coverEdges regions)) x) :
    x ∈ regions ∧ y ∈ regions ∧ ssubset x y = true := by
  by_cases hx : x ∈ regions
  · have h := (mem_parentsOf regions (coverEdges regions) x y hx).mp hy
    obtain ⟨h1, _, h3⟩ := (mem_coverEdges regions (y, x)).mp h
    simp only [Bool.and_eq_true] at h3
    exact ⟨hx, h1, h3.1⟩
  · unfold parentsOf at hy
    rw [look_map_absent regions _ x hx] at hy
    exact absurd hy List.not_mem_nil

theorem ssubset_length (x y : Region) (h : ssubset x y = true) (hx : x.Nodup) : x.length < y.length := by
  unfold ssubset at h
  simp only [Bool.and_eq_true, Bool.not_eq_true'] at h
  have hsub : x ⊆ y := fun a ha => (PGM.Convex.subset_iff x y).mp h.1 a ha
  have hsp := List.subperm_of_subset hx hsub
  by_contra hlt
  have hp := hsp.perm_of_length_le (Nat.le_of_not_lt hlt)
  have : subset y x = true := (PGM.Convex.subset_iff y x).mpr (fun a ha => hp.mem_iff.mpr ha)
  rw [this] at h
  exact absurd h.2 (by simp)

/-- every ancestor is a region and is longer -/
theorem anc_longer (regions : List Region) (hreg : ∀ r ∈ regions, r.Nodup) (r : Region) (hr : r ∈ regions) :
    ∀ a ∈ RG.reach regions (parentsOf regions (coverEdges regions)) r, r.length < a.length ∧ a ∈ regions := by
  intro a ha
  have h := reach_min regions (parentsOf regions (coverEdges regions)) r (fun y => r.length < y.length ∧ y ∈ regions)
    (fun y hy => by
      obtain ⟨_, h2, h3⟩ := parents0_mem regions r y hy
      exact ⟨ssubset_length r y h3 (hreg r hr), h2⟩)
    (fun x hx y hy => by
      obtain ⟨h1, h2, h3⟩ := parents0_mem regions x y hy
      exact ⟨Nat.lt_trans hx.1 (ssubset_length x y h3 (hreg x h1)), h2⟩) a ha
  exact h.1

theorem reach_nodup (regions : List Region) (nbrs : List (Region × List Region)) (r : Region) (hnd : regions.Nodup) :
    (RG.reach regions nbrs r).Nodup := by
  unfold RG.reach
  exact hnd.filter _

/-- an ancestor has fewer ancestors: the key by which `RG.moebius` sorts -/
theorem anc_card_lt (regions : List Region) (hnd : regions.Nodup) (hreg : ∀ r ∈ regions, r.Nodup) (r a : Region)
    (ha : a ∈ RG.reach regions (parentsOf regions (coverEdges regions)) r) (hr : r ∈ regions) :
    (RG.reach regions (parentsOf regions (coverEdges regions)) a).length < (RG.reach regions (parentsOf regions (coverEdges regions)) r).length := by
  have hN : ∀ x, ∀ y ∈ RG.look (parentsOf regions (coverEdges regions)) x, y ∈ regions := fun x y hy => (parents0_mem regions x y hy).2.1
  have hmono := reach_mono regions _ r a hN ha
  have haR := (anc_longer regions hreg r hr a ha).2
  have hsp := List.subperm_of_subset (reach_nodup regions _ a hnd) hmono
  by_contra hlt
  have hp := hsp.perm_of_length_le (Nat.le_of_not_lt hlt)
  have : a ∈ RG.reach regions (parentsOf regions (coverEdges regions)) a := hp.mem_iff.mpr ha
  exact absurd (anc_longer regions hreg a haR a this).1 (Nat.lt_irrefl _)

theorem length_le_sum (l : List Region) (a : Region) (ha : a ∈ l) : a.length ≤ (l.map List.length).sum := by
  induction l with
  | nil => exact absurd ha List.not_mem_nil
  | cons x xs ih =>
    rw [List.map_cons, List.sum_cons]
    rcases List.mem_cons.mp ha with h | h
    · subst h; omega
    · have := ih h; omega


/-! ## the table of `RG.moebius` -/

/-- one step of the fold of `RG.moebius` -/
def mstep (anc : List (Region × List Region)) (tbl : Memo) (r : Region) : Memo :=
  tbl ++ [(r, 1 - ((RG.look anc r).map (fun a => (tbl.lookup a).getD 0)).foldl (· + ·) 0)]

theorem foldl_mstep (anc : List (Region × List Region)) (l : List Region) (acc : Memo) :
    ∃ rest : Memo, l.foldl (mstep anc) acc = acc ++ rest ∧ rest.map Prod.fst = l := by
  induction l generalizing acc with
  | nil => exact ⟨[], by simp, rfl⟩
  | cons x xs ih =>
    obtain ⟨rest, h1, h2⟩ := ih (mstep anc acc x)
    refine ⟨(x, 1 - ((RG.look anc x).map (fun a => (acc.lookup a).getD 0)).foldl (· + ·) 0) :: rest, ?_, ?_⟩
    · rw [List.foldl_cons, h1]
      unfold mstep
      simp
    · simp [h2]

theorem lookup_isSome_of_key (d : Memo) (k : Region) (h : k ∈ d.map Prod.fst) : (d.lookup k).isSome = true := by
  induction d with
  | nil => simp at h
  | cons p ps ih =>
    rw [List.lookup_cons]
    by_cases e : (k == p.1) = true
    · simp [e]
    · have e' : (k == p.1) = false := by simpa using e
      rw [e']
      apply ih
      rcases List.mem_cons.mp h with h | h
      · have : k = p.1 := h
        rw [this] at e'
        simp at e'
      · exact h

theorem lookup_prefix (acc rest : Memo) (k : Region) (h : (acc.lookup k).isSome = true) :
    (acc ++ rest).lookup k = acc.lookup k := by
  rw [List.lookup_append]
  obtain ⟨v, hv⟩ := Option.isSome_iff_exists.mp h
  rw [hv]
  rfl

/-- on a list sorted by a key that decreases along `anc` (ancestors first), the table satisfies the Möbius recurrence -/
theorem table_rec (anc : List (Region × List Region)) (L : List Region) (hnd : L.Nodup) (key : Region → Nat)
    (hsorted : L.Pairwise (fun a b => key a ≤ key b))
    (hanc : ∀ r ∈ L, ∀ a ∈ RG.look anc r, a ∈ L ∧ key a < key r) (r : Region) (hr : r ∈ L) :
    ((L.foldl (mstep anc) []).lookup r).getD 0
      = 1 - ((RG.look anc r).map (fun a => ((L.foldl (mstep anc) []).lookup a).getD 0)).foldl (· + ·) 0 := by
  obtain ⟨pre, post, hL⟩ := List.append_of_mem hr
  subst hL
  obtain ⟨tp, htp, hkeys⟩ := foldl_mstep anc pre []
  rw [List.nil_append] at htp
  obtain ⟨rest, hrest, _⟩ := foldl_mstep anc post (mstep anc tp r)
  have hfinal : (pre ++ r :: post).foldl (mstep anc) [] = mstep anc tp r ++ rest := by
    rw [List.foldl_append, htp, List.foldl_cons, hrest]
  rw [hfinal]
  have hnd' := List.nodup_append.mp hnd
  have hr_pre : r ∉ pre := fun h => hnd'.2.2 r h r List.mem_cons_self rfl
  have hpw := List.pairwise_append.mp hsorted
  have hpost : ∀ b ∈ post, key r ≤ key b := fun b hb => (List.pairwise_cons.mp hpw.2.1).1 b hb
  -- the entry of r
  have hlr : (mstep anc tp r ++ rest).lookup r
      = some (1 - ((RG.look anc r).map (fun a => (tp.lookup a).getD 0)).foldl (· + ·) 0) := by
    have h1 : (mstep anc tp r).lookup r = some (1 - ((RG.look anc r).map (fun a => (tp.lookup a).getD 0)).foldl (· + ·) 0) := by
      unfold mstep
      rw [List.lookup_append, PGM.GMGen.lookup_none_of_not_mem tp r (by rw [hkeys]; exact hr_pre)]
      simp
    rw [lookup_prefix _ rest r (by rw [h1]; rfl), h1]
  rw [hlr, Option.getD_some]
  have hmap : (RG.look anc r).map (fun a => (tp.lookup a).getD 0)
      = (RG.look anc r).map (fun a => ((mstep anc tp r ++ rest).lookup a).getD 0) := by
    apply List.map_congr_left
    intro a ha
    obtain ⟨haL, hak⟩ := hanc r hr a ha
    have ha_pre : a ∈ pre := by
      rcases List.mem_append.mp haL with h | h
      · exact h
      · rcases List.mem_cons.mp h with h | h
        · rw [h] at hak; exact absurd hak (Nat.lt_irrefl _)
        · have := hpost a h; omega
    have hs : (tp.lookup a).isSome = true := lookup_isSome_of_key tp a (by rw [hkeys]; exact ha_pre)
    have h2 : (mstep anc tp r).lookup a = tp.lookup a := by
      unfold mstep
      exact lookup_prefix tp _ a hs
    rw [lookup_prefix _ rest a (by rw [h2]; exact hs), h2]
  rw [hmap]


/-! ## `RG.moebius` on the cover graph -/

/-- the ancestor dictionary of every `buildOn` graph -/
abbrev ancOf (regions : List Region) : List (Region × List Region) :=
  closureOf regions (parentsOf regions (coverEdges regions))

theorem look_ancOf (regions : List Region) (r : Region) (hr : r ∈ regions) :
    RG.look (ancOf regions) r = RG.reach regions (parentsOf regions (coverEdges regions)) r := by
  unfold ancOf closureOf
  exact look_map_self regions _ r hr

theorem lookup_map_self' {β : Type} (l : List Region) (F : Region → β) (r : Region) (hr : r ∈ l) :
    (l.map (fun r => (r, F r))).lookup r = some (F r) := by
  induction l with
  | nil => exact absurd hr List.not_mem_nil
  | cons x xs ih =>
    simp only [List.map_cons, List.lookup_cons]
    by_cases hx : r = x
    · subst hx; simp
    · have : (r == x) = false := by simpa using hx
      rw [this]
      rcases List.mem_cons.mp hr with h | h
      · exact absurd h hx
      · exact ih h

theorem moebius_lookup (regions : List Region) (r : Region) (hr : r ∈ regions) :
    RGG.intGet (RG.moebius regions (ancOf regions)) r
      = (((Dom.sortBy (fun r => (RG.look (ancOf regions) r).length) regions).foldl (mstep (ancOf regions)) []).lookup r).getD 0 := by
  unfold RGG.intGet RG.moebius
  simp only []
  rw [lookup_map_self' regions _ r hr]
  rfl

/-- **(i)** the numbers of `RG.moebius` satisfy `c r = 1 − Σ_{a ∈ anc r} c a` on every region -/
theorem moebius_rec (regions : List Region) (hnd : regions.Nodup) (hreg : ∀ r ∈ regions, r.Nodup) (r : Region) (hr : r ∈ regions) :
    RGG.intGet (RG.moebius regions (ancOf regions)) r
      = 1 - ((RG.look (ancOf regions) r).map (fun a => RGG.intGet (RG.moebius regions (ancOf regions)) a)).foldl (· + ·) 0 := by
  have hL : ∀ x, x ∈ Dom.sortBy (fun r => (RG.look (ancOf regions) r).length) regions ↔ x ∈ regions :=
    fun x => mem_sortBy _ regions x
  have hrec := table_rec (ancOf regions) (Dom.sortBy (fun r => (RG.look (ancOf regions) r).length) regions)
    ((PGM.Dom.sortBy_perm _ regions).nodup_iff.mpr hnd) (fun r => (RG.look (ancOf regions) r).length)
    (PGM.Dom.sortBy_sorted _ regions)
    (fun x hx a ha => by
      have hxR := (hL x).mp hx
      rw [look_ancOf regions x hxR] at ha
      have haR := (anc_longer regions hreg x hxR a ha).2
      refine ⟨(hL a).mpr haR, ?_⟩
      show (RG.look (ancOf regions) a).length < (RG.look (ancOf regions) x).length
      rw [look_ancOf regions a haR, look_ancOf regions x hxR]
      exact anc_card_lt regions hnd hreg x a ha hxR)
    r ((hL r).mpr hr)
  rw [moebius_lookup regions r hr, hrec]
  congr 2
  apply List.map_congr_left
  intro a ha
  rw [look_ancOf regions r hr] at ha
  exact (moebius_lookup regions a (anc_longer regions hreg r hr a ha).2).symm

/-- **(ii)** the rank `Σ lengths − |r|` decreases along the ancestors, which are regions -/
theorem anc_rank (regions : List Region) (hreg : ∀ r ∈ regions, r.Nodup) (r : Region) (hr : r ∈ regions) :
    ∀ a ∈ RG.look (ancOf regions) r,
      (regions.map List.length).sum - a.length < (regions.map List.length).sum - r.length ∧ a ∈ regions := by
  intro a ha
  rw [look_ancOf regions r hr] at ha
  obtain ⟨h1, h2⟩ := anc_longer regions hreg r hr a ha
  have := length_le_sum regions a h2
  exact ⟨by omega, h2⟩

end PGM.RGGen
