import PGM.Proofs.JTWeightReach
import PGM.Proofs.JTWeightForest
import PGM.Proofs.JTWeightCount
/-! counting the edges of the induced graphs in terms of the edge list -/
namespace PGM.JT
open SimpleGraph

def toSym (e : Clique × Clique) : Sym2 Clique := s(e.1, e.2)

/-- the listed edges with both end points in `l` -/
def inside (l : List Clique) (es : List (Clique × Clique)) : List (Clique × Clique) :=
  es.filter (fun e => l.contains e.1 && l.contains e.2)

theorem image_edgeSet (t : Tree) (l : List Clique) (hloop : ∀ e ∈ t.edges, e.1 ≠ e.2) :
    Sym2.map Subtype.val '' (Gind t l).edgeSet = ↑((inside l t.edges).map toSym).toFinset := by
  ext x
  constructor
  · rintro ⟨e, he, rfl⟩
    induction e using Sym2.ind with
    | _ u w =>
      rw [mem_edgeSet, Gind_adj] at he
      obtain ⟨hne, hadj⟩ := he
      simp only [Sym2.map_mk, List.coe_toFinset, List.mem_map, Set.mem_ofPred_eq]
      simp only [Tree.adj, Bool.or_eq_true, List.contains_iff_mem] at hadj
      have hu : u.1 ∈ l := u.2
      have hw : w.1 ∈ l := w.2
      rcases hadj with h | h
      · exact ⟨(u.1, w.1), by simp [inside, h, hu, hw], rfl⟩
      · exact ⟨(w.1, u.1), by simp [inside, h, hu, hw], by simp [toSym, Sym2.eq_swap]⟩
  · intro hx
    simp only [List.coe_toFinset, List.mem_map, Set.mem_ofPred_eq, inside, List.mem_filter,
      Bool.and_eq_true, List.contains_iff_mem] at hx
    obtain ⟨e, ⟨he, h1, h2⟩, rfl⟩ := hx
    refine ⟨s(⟨e.1, h1⟩, ⟨e.2, h2⟩), ?_, by simp [toSym]⟩
    rw [mem_edgeSet, Gind_adj]
    refine ⟨hloop e he, ?_⟩
    simp [Tree.adj, he]

theorem card_edgeSet (t : Tree) (l : List Clique) (hloop : ∀ e ∈ t.edges, e.1 ≠ e.2) :
    Nat.card (Gind t l).edgeSet = ((inside l t.edges).map toSym).toFinset.card := by
  rw [Nat.card_coe_set_eq,
    ← Set.ncard_image_of_injective _ (Sym2.map.injective Subtype.val_injective),
    image_edgeSet t l hloop, Set.ncard_coe_finset]

/-- what `isTree` gives -/
structure TreeFacts (t : Tree) : Prop where
  nodes_nodup : t.nodes.Nodup
  nodes_ne : t.nodes ≠ []
  ends : ∀ e ∈ t.edges, e.1 ∈ t.nodes ∧ e.2 ∈ t.nodes ∧ e.1 ≠ e.2
  sym_nodup : (t.edges.map toSym).Nodup
  acyclic : (Gind t t.nodes).IsAcyclic

theorem treeFacts (t : Tree) (h : isTree t = true) : TreeFacts t := by
  simp only [isTree, Bool.and_eq_true, List.all_eq_true, List.contains_iff_mem, beq_iff_eq,
    bne_iff_ne, ne_eq] at h
  obtain ⟨⟨⟨hnd, hlen⟩, hends⟩, hconn⟩ := h
  rw [nodup_iffW] at hnd
  have hne : t.nodes ≠ [] := by
    intro h0; rw [h0] at hlen; simp at hlen
  have hloop : ∀ e ∈ t.edges, e.1 ≠ e.2 := fun e he => (hends e he).2
  have hc : (Gind t t.nodes).Connected := (connectedWithin_iff t t.nodes hnd hne).mp hconn
  have hins : inside t.nodes t.edges = t.edges := by
    simp only [inside, List.filter_eq_self, Bool.and_eq_true, List.contains_iff_mem]
    exact fun e he => ⟨(hends e he).1.1, (hends e he).1.2⟩
  have hcard := card_edgeSet t t.nodes hloop
  rw [hins] at hcard
  have h1 := hc.card_vert_le_card_edgeSet_add_one
  rw [card_setOf_list t.nodes hnd] at h1
  have h2 : (t.edges.map toSym).toFinset.card ≤ (t.edges.map toSym).length :=
    List.toFinset_card_le _
  rw [List.length_map] at h2
  have h3 : (t.edges.map toSym).toFinset.card = (t.edges.map toSym).length := by
    rw [List.length_map]; omega
  have hsn : (t.edges.map toSym).Nodup := by
    rw [List.card_toFinset] at h3
    have := (List.dedup_sublist (t.edges.map toSym)).eq_of_length h3
    rw [← this]; exact List.nodup_dedup _
  refine ⟨hnd, hne, fun e he => ⟨(hends e he).1.1, (hends e he).1.2, (hends e he).2⟩, hsn, ?_⟩
  have : (Gind t t.nodes).IsTree := by
    rw [isTree_iff_connected_and_card]
    refine ⟨hc, ?_⟩
    rw [card_setOf_list t.nodes hnd, hcard, h3, List.length_map]
    exact hlen
  exact this.isAcyclic

/-- the forest bound for the nodes in any sublist-as-set of `t.nodes` -/
theorem inside_bound (t : Tree) (f : TreeFacts t) (l : List Clique) (hl : l.Nodup) (hne : l ≠ [])
    (hsub : ∀ n ∈ l, n ∈ t.nodes) :
    (inside l t.edges).length + 1 ≤ l.length ∧
    ((inside l t.edges).length + 1 = l.length ↔ connectedWithin t l = true) := by
  have hloop : ∀ e ∈ t.edges, e.1 ≠ e.2 := fun e he => (f.ends e he).2.2
  have hle : {n : Clique | n ∈ l} ≤ {n : Clique | n ∈ t.nodes} := fun n hn => hsub n hn
  have hac : (Gind t l).IsAcyclic :=
    IsAcyclic.embedding ((treeGraph t).induceHomOfLE hle) f.acyclic
  have : Nonempty ↥{n : Clique | n ∈ l} := by
    obtain ⟨a, ha⟩ := List.exists_mem_of_ne_nil l hne
    exact ⟨⟨a, ha⟩⟩
  have hcard := card_edgeSet t l hloop
  have hnd : ((inside l t.edges).map toSym).Nodup :=
    f.sym_nodup.sublist (List.Sublist.map _ List.filter_sublist)
  rw [List.toFinset_card_of_nodup hnd, List.length_map] at hcard
  have h1 := forest_card_le (Gind t l) hac
  have h2 := forest_card_eq_iff (Gind t l) hac
  rw [hcard, card_setOf_list l hl] at h1 h2
  exact ⟨h1, h2.trans (connectedWithin_iff t l hl hne).symm⟩

end PGM.JT
