import PGM.Model.AdaGrid
import PGM.Proofs.RealScalar
import Mathlib.Analysis.Real.Sqrt
import Mathlib.Tactic.Ring
import Mathlib.Tactic.Linarith
import Mathlib.Tactic.Positivity
/-!
# Adaptive Grid: squared column norms of the query matrices (real reading)

`colSq M j` is the squared Euclidean norm of column `j` of `M`.  This file computes it for every
building block of `mechanisms/adaptive_grid.py`'s `Q = vstack([Q1', Q2])`:
`lift` (`kron(ones, Q_c) @ P`), scaling, stacking, `aggregate` (`get_aggregate`), `unitRows`
(`Q1'`), `maskCols` (`· @ (I − Q1)`), `query`, and derives the bound "every column of `Q` has
norm ≤ 1".
-/
namespace PGM.AdaGridSens
open PGM PGM.AdaGrid

/-! ### the real scalar -/

theorem foldl_add (l : List ℝ) (z : ℝ) : l.foldl Scalar.add z = z + l.sum := by
  induction l generalizing z with
  | nil => simp
  | cons a l ih =>
    rw [List.foldl_cons, ih, List.sum_cons]
    show z + a + l.sum = z + (a + l.sum)
    ring

theorem rsum_eq (l : List ℝ) : Scalar.sum l = l.sum := by
  unfold Scalar.sum
  rw [foldl_add]
  show (0 : ℝ) + l.sum = l.sum
  ring

/-! ### list helpers -/

theorem sum_map_mul_left {β : Type} (l : List β) (c : ℝ) (f : β → ℝ) :
    (l.map (fun x => c * f x)).sum = c * (l.map f).sum := by
  induction l with
  | nil => simp
  | cons a l ih => rw [List.map_cons, List.sum_cons, ih, List.map_cons, List.sum_cons]; ring

theorem sum_map_eq_zero {β : Type} (l : List β) (f : β → ℝ) (h : ∀ x ∈ l, f x = 0) :
    (l.map f).sum = 0 := by
  induction l with
  | nil => rfl
  | cons a l ih =>
    rw [List.map_cons, List.sum_cons, h a List.mem_cons_self,
      ih (fun x hx => h x (List.mem_cons_of_mem _ hx))]
    ring

theorem sum_map_nonneg {β : Type} (l : List β) (f : β → ℝ) (h : ∀ x ∈ l, 0 ≤ f x) :
    0 ≤ (l.map f).sum := by
  induction l with
  | nil => simp
  | cons a l ih =>
    rw [List.map_cons, List.sum_cons]
    have h1 := h a (List.mem_cons_self)
    have h2 := ih (fun x hx => h x (List.mem_cons_of_mem _ hx))
    linarith

theorem sum_map_le_length {β : Type} (l : List β) (f : β → ℝ) (h : ∀ x ∈ l, f x ≤ 1) :
    (l.map f).sum ≤ (l.length : ℝ) := by
  induction l with
  | nil => simp
  | cons a l ih =>
    rw [List.map_cons, List.sum_cons, List.length_cons]
    have h1 := h a (List.mem_cons_self)
    have h2 := ih (fun x hx => h x (List.mem_cons_of_mem _ hx))
    push_cast
    linarith

/-- entry `j` of a row tabulated over `range n` -/
theorem getD_map_range (n : ℕ) (f : ℕ → ℝ) (j : ℕ) :
    ((List.range n).map f).getD j 0 = if j < n then f j else 0 := by
  by_cases h : j < n
  · simp [List.getD_eq_getElem?_getD, h]
  · simp [List.getD_eq_getElem?_getD, h]

theorem getD_map_scale (row : List ℝ) (c : ℝ) (j : ℕ) :
    (row.map (fun x => c * x)).getD j 0 = c * row.getD j 0 := by
  rw [List.getD_eq_getElem?_getD, List.getD_eq_getElem?_getD, List.getElem?_map]
  cases row[j]? <;> simp

/-- the sum of the indicator of `j` over a duplicate-free list -/
theorem sum_indicator (l : List ℕ) (hl : l.Nodup) (j : ℕ) :
    (l.map (fun j' => if j = j' then (1 : ℝ) else 0)).sum = if j ∈ l then 1 else 0 := by
  induction l with
  | nil => simp
  | cons a l ih =>
    rw [List.nodup_cons] at hl
    rw [List.map_cons, List.sum_cons, ih hl.2]
    by_cases h : j = a
    · subst h
      simp [hl.1]
    · simp [h]

/-! ### `colSq` -/

/-- the real reading of `colSq` -/
theorem colSq_eq (M : Mat ℝ) (j : ℕ) :
    colSq M j = (M.map (fun row => (row.getD j 0) ^ 2)).sum := by
  unfold colSq
  rw [rsum_eq]
  congr 1
  apply List.map_congr_left
  intro row _
  show row.getD j 0 * row.getD j 0 = _
  ring

theorem colSq_nonneg (M : Mat ℝ) (j : ℕ) : 0 ≤ colSq M j := by
  rw [colSq_eq]
  exact sum_map_nonneg _ _ (fun _ _ => sq_nonneg _)

theorem colSq_nil (j : ℕ) : colSq ([] : Mat ℝ) j = 0 := by
  rw [colSq_eq]; rfl

theorem colSq_cons (r : List ℝ) (M : Mat ℝ) (j : ℕ) :
    colSq (r :: M) j = (r.getD j 0) ^ 2 + colSq M j := by
  rw [colSq_eq, colSq_eq, List.map_cons, List.sum_cons]

theorem colSq_append (A B : Mat ℝ) (j : ℕ) : colSq (A ++ B) j = colSq A j + colSq B j := by
  rw [colSq_eq, colSq_eq, colSq_eq, List.map_append, List.sum_append]

theorem colSq_flatMap {β : Type} (l : List β) (f : β → Mat ℝ) (j : ℕ) :
    colSq (l.flatMap f) j = (l.map (fun c => colSq (f c) j)).sum := by
  induction l with
  | nil => rw [List.flatMap_nil, colSq_nil]; rfl
  | cons a l ih => rw [List.flatMap_cons, colSq_append, ih, List.map_cons, List.sum_cons]

/-- scaling every entry by `c` scales the squared column norms by `c²` -/
theorem colSq_scale (M : Mat ℝ) (c : ℝ) (j : ℕ) :
    colSq (M.map (fun row => row.map (fun x => Scalar.mul c x))) j = c ^ 2 * colSq M j := by
  rw [colSq_eq, colSq_eq, List.map_map, ← sum_map_mul_left]
  congr 1
  apply List.map_congr_left
  intro row _
  show ((row.map (fun x => c * x)).getD j 0) ^ 2 = _
  rw [getD_map_scale]
  ring

/-- **1.** column `j` of the lifted matrix is column `σ[j]` of the child's matrix -/
theorem colSq_lift (Qc : Mat ℝ) (σ : List ℕ) (j : ℕ) (hj : j < σ.length) :
    colSq (lift Qc σ) j = colSq Qc (σ.getD j 0) := by
  rw [colSq_eq, colSq_eq]
  unfold lift
  rw [List.map_map]
  congr 1
  apply List.map_congr_left
  intro row _
  show ((σ.map (fun i => row.getD i (0 : ℝ))).getD j 0) ^ 2 = _
  have h1 : (σ.map (fun i => row.getD i (0 : ℝ))).getD j 0 = row.getD (σ.getD j 0) 0 := by
    simp [List.getD_eq_getElem?_getD, hj]
  rw [h1]

/-- outside the range of `σ` the lifted matrix has no column -/
theorem colSq_lift_of_le (Qc : Mat ℝ) (σ : List ℕ) (j : ℕ) (hj : σ.length ≤ j) :
    colSq (lift Qc σ) j = 0 := by
  rw [colSq_eq]
  unfold lift
  rw [List.map_map]
  apply sum_map_eq_zero
  intro row _
  show ((σ.map (fun i => row.getD i (0 : ℝ))).getD j 0) ^ 2 = 0
  have h1 : (σ.map (fun i => row.getD i (0 : ℝ))).getD j 0 = 0 := by
    simp [List.getD_eq_getElem?_getD, hj]
  rw [h1]; ring

/-- `aggregate`, column by column, with no hypothesis: the sum of the lifted children's columns -/
theorem colSq_aggregate_lift (coef : ℝ) (children : List (Mat ℝ × List ℕ)) (j : ℕ) :
    colSq (aggregate coef children) j
      = coef ^ 2 * (children.map (fun c => colSq (lift c.1 c.2) j)).sum := by
  unfold aggregate
  rw [colSq_flatMap, ← sum_map_mul_left]
  congr 1
  apply List.map_congr_left
  intro c _
  exact colSq_scale _ _ _

/-- **2.** `get_aggregate`: `coef² · Σ_c ‖column σ_c[j] of Q_c‖²` -/
theorem colSq_aggregate (coef : ℝ) (children : List (Mat ℝ × List ℕ)) (j : ℕ)
    (hj : ∀ c ∈ children, j < c.2.length) :
    colSq (aggregate coef children) j
      = coef ^ 2 * (children.map (fun c => colSq c.1 (c.2.getD j 0))).sum := by
  rw [colSq_aggregate_lift]
  congr 2
  apply List.map_congr_left
  intro c hc
  exact colSq_lift _ _ _ (hj c hc)

/-! ### `unitRows`, `maskCols`, `query` -/

theorem colSq_unitRows (n : ℕ) (sel : List ℕ) (j : ℕ) :
    colSq (unitRows n sel : Mat ℝ) j = if j < n ∧ j ∈ sel then 1 else 0 := by
  rw [colSq_eq]
  unfold unitRows
  rw [List.map_map]
  have hnd : ((List.range n).filter (fun j => sel.contains j)).Nodup :=
    List.Nodup.sublist List.filter_sublist List.nodup_range
  have hcongr : ((List.range n).filter (fun j => sel.contains j)).map
        ((fun row : List ℝ => (row.getD j 0) ^ 2) ∘
          (fun j => (List.range n).map
            (fun i => if i == j then (Scalar.one : ℝ) else Scalar.zero)))
      = ((List.range n).filter (fun j => sel.contains j)).map
          (fun j' => if j = j' then (1 : ℝ) else 0) := by
    apply List.map_congr_left
    intro j' hj'
    have hj'n : j' < n := by
      have := (List.mem_filter.mp hj').1
      exact List.mem_range.mp this
    show (((List.range n).map (fun i => if i == j' then (1 : ℝ) else 0)).getD j 0) ^ 2 = _
    rw [getD_map_range]
    by_cases h : j = j'
    · subst h
      simp [hj'n]
    · by_cases hn : j < n <;> simp [h, hn]
  rw [hcongr, sum_indicator _ hnd]
  simp [List.mem_filter, List.mem_range]

theorem colSq_maskCols (n : ℕ) (sel : List ℕ) (agg : Mat ℝ) (j : ℕ) :
    colSq (maskCols n sel agg) j = if j < n ∧ j ∉ sel then colSq agg j else 0 := by
  rw [colSq_eq]
  unfold maskCols
  rw [List.map_map]
  by_cases h : j < n ∧ j ∉ sel
  · rw [if_pos h, colSq_eq]
    congr 1
    apply List.map_congr_left
    intro row _
    show (((List.range n).map
      (fun i => if sel.contains i then (0 : ℝ) else row.getD i 0)).getD j 0) ^ 2 = _
    rw [getD_map_range, if_pos h.1]
    have : sel.contains j = false := by simpa using h.2
    simp only [this]
    simp
  · rw [if_neg h]
    apply sum_map_eq_zero
    intro row _
    show (((List.range n).map
      (fun i => if sel.contains i then (0 : ℝ) else row.getD i 0)).getD j 0) ^ 2 = 0
    rw [getD_map_range]
    by_cases hn : j < n
    · have hs : j ∈ sel := by
        by_contra hs
        exact h ⟨hn, hs⟩
      have : sel.contains j = true := by simpa using hs
      simp only [if_pos hn, this]
      simp
    · simp [hn]

/-- every column of `query`, including the (empty) ones beyond `n` -/
theorem colSq_query_all (n : ℕ) (sel : List ℕ) (coef : ℝ) (children : List (Mat ℝ × List ℕ))
    (j : ℕ) :
    colSq (query n sel coef children) j
      = if j < n then (if j ∈ sel then 1 else colSq (aggregate coef children) j) else 0 := by
  unfold query
  rw [colSq_append, colSq_unitRows, colSq_maskCols]
  by_cases hn : j < n
  · by_cases hs : j ∈ sel <;> simp [hn, hs]
  · simp [hn]

/-- **3.** a selected cell gets a unit column, the others keep the aggregate's column -/
theorem colSq_query (n : ℕ) (sel : List ℕ) (coef : ℝ) (children : List (Mat ℝ × List ℕ))
    (j : ℕ) (hj : j < n) :
    colSq (query n sel coef children) j
      = if j ∈ sel then 1 else colSq (aggregate coef children) j := by
  rw [colSq_query_all, if_pos hj]

/-! ### the bound -/

/-- the aggregate's columns are bounded by `coef² · #children` -/
theorem colSq_aggregate_le (coef : ℝ) (children : List (Mat ℝ × List ℕ))
    (hch : ∀ c ∈ children, ∀ i, colSq c.1 i ≤ 1) (j : ℕ) :
    colSq (aggregate coef children) j ≤ coef ^ 2 * (children.length : ℝ) := by
  rw [colSq_aggregate_lift]
  apply mul_le_mul_of_nonneg_left _ (sq_nonneg coef)
  apply sum_map_le_length
  intro c hc
  by_cases hj : j < c.2.length
  · rw [colSq_lift _ _ _ hj]
    exact hch c hc _
  · rw [colSq_lift_of_le _ _ _ (Nat.le_of_not_lt hj)]
    exact zero_le_one

/-- every column of `query` has squared norm ≤ 1 (no shape hypothesis is needed: a `σ` that is
too short only yields zero columns, one that is too long is cut by the mask) -/
theorem query_colSq_le_one (n : ℕ) (sel : List ℕ) (coef : ℝ)
    (children : List (Mat ℝ × List ℕ))
    (hch : ∀ c ∈ children, ∀ i, colSq c.1 i ≤ 1)
    (hcoef : coef ^ 2 * (children.length : ℝ) ≤ 1) (j : ℕ) :
    colSq (query n sel coef children) j ≤ 1 := by
  rw [colSq_query_all]
  by_cases hn : j < n
  · rw [if_pos hn]
    by_cases hs : j ∈ sel
    · rw [if_pos hs]
    · rw [if_neg hs]
      exact le_trans (colSq_aggregate_le coef children hch j) hcoef
  · rw [if_neg hn]
    exact zero_le_one

/-- **4.** as asked (with the shape hypothesis `σ.length = n`, which is not used) -/
theorem query_sensitivity_le_one (n : ℕ) (sel : List ℕ) (coef : ℝ)
    (children : List (Mat ℝ × List ℕ))
    (hch : ∀ c ∈ children, ∀ i, colSq c.1 i ≤ 1)
    (hcoef : coef ^ 2 * (children.length : ℝ) ≤ 1)
    (_hσ : ∀ c ∈ children, c.2.length = n) :
    ∀ j, j < n → colSq (query n sel coef children) j ≤ 1 :=
  fun j _ => query_colSq_le_one n sel coef children hch hcoef j

/-- `coef = 1/sqrt k` is admissible for every `k` (`k = 0`: `0 ≤ 1`; otherwise equality) -/
theorem coef_inv_sqrt (k : ℕ) : (1 / Real.sqrt k) ^ 2 * (k : ℝ) ≤ 1 := by
  rcases Nat.eq_zero_or_pos k with h | h
  · subst h
    simp
  · have hk : (0 : ℝ) < k := by exact_mod_cast h
    rw [div_pow, Real.sq_sqrt hk.le, one_pow, one_div, inv_mul_cancel₀ hk.ne']

theorem coef_inv_sqrt_eq (k : ℕ) (hk : 0 < k) : (1 / Real.sqrt k) ^ 2 * (k : ℝ) = 1 := by
  have hk : (0 : ℝ) < k := by exact_mod_cast hk
  rw [div_pow, Real.sq_sqrt hk.le, one_pow, one_div, inv_mul_cancel₀ hk.ne']

/-- the mechanism's own coefficient -/
theorem query_sensitivity_inv_sqrt (n : ℕ) (sel : List ℕ) (children : List (Mat ℝ × List ℕ))
    (hch : ∀ c ∈ children, ∀ i, colSq c.1 i ≤ 1) (j : ℕ) :
    colSq (query n sel (1 / Real.sqrt children.length) children) j ≤ 1 :=
  query_colSq_le_one n sel _ children hch (coef_inv_sqrt children.length) j

end PGM.AdaGridSens
