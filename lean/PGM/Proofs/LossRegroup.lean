import PGM.Proofs.LossBasic
/-!
# Helpers for C04 (2): a sum over the cells of a table is a sum over the cells of a projection
and, inside, over the cells of the remaining attributes
-/
set_option linter.unusedSectionVars false
set_option linter.unusedVariables false
namespace PGM.LossAux
open PGM
variable {K : Type} [Field K] [LinearOrder K] [IsStrictOrderedRing K]

/-- the remaining attributes of `A` after `P` -/
def restA (A P : List Attr) : List Attr := A.filter (fun a => !P.contains a)

/-- the cell over `A` assembled from a cell `idx` over `P` and a cell `v` over the rest -/
def asm (A P : List Attr) (idx v : List Nat) : List Nat :=
  A.map (Dom.override (Dom.assign P idx) (restA A P) v)

theorem mem_restA (A P : List Attr) (a : Attr) : a ∈ restA A P ↔ a ∈ A ∧ a ∉ P := by
  simp [restA]

theorem assign_of_mem (l : List Attr) (c : List Nat) (a : Attr) (h : a ∈ l) :
    Dom.assign l c a = c.getD (l.idxOf a) 0 := by
  unfold Dom.assign
  rw [if_pos (by simpa using h)]

theorem assign_map (l : List Attr) (τ : Attr → Nat) (a : Attr) (h : a ∈ l) :
    Dom.assign l (l.map τ) a = τ a := by
  rw [assign_of_mem l _ a h, getD_map_idxOf l τ 0 a h]

theorem override_of_mem (σ : Attr → Nat) (R : List Attr) (v : List Nat) (a : Attr) (h : a ∈ R) :
    Dom.override σ R v a = v.getD (R.idxOf a) 0 := by
  unfold Dom.override
  rw [if_pos (by simpa using h)]

theorem override_of_not_mem (σ : Attr → Nat) (R : List Attr) (v : List Nat) (a : Attr) (h : a ∉ R) :
    Dom.override σ R v a = σ a := by
  unfold Dom.override
  rw [if_neg (by simpa using h)]

theorem getD_lt_of_inRange (l : List Attr) (c : Attr → Nat) (v : List Nat) (h : InRange (l.map c) v)
    (a : Attr) (ha : a ∈ l) : v.getD (l.idxOf a) 0 < c a := by
  have h2 := ((NdArr.inRange_iff _ _).mp h).2 (l.idxOf a)
    (by simpa using List.idxOf_lt_length_iff.mpr ha)
  rwa [getD_map_idxOf l c 0 a ha] at h2

theorem length_of_inRange_map (l : List Attr) (c : Attr → Nat) (v : List Nat)
    (h : InRange (l.map c) v) : v.length = l.length := by
  simpa using h.length_eq

section
variable (A P : List Attr) (c : Attr → Nat) (hA : A.Nodup) (hP : P.Nodup) (hsub : ∀ a ∈ P, a ∈ A)
include hA hP hsub

theorem nodup_restA : (restA A P).Nodup := List.Nodup.sublist List.filter_sublist hA

/-- value of the assembled assignment -/
theorem asm_val_P (idx v : List Nat) (a : Attr) (ha : a ∈ P) :
    Dom.override (Dom.assign P idx) (restA A P) v a = idx.getD (P.idxOf a) 0 := by
  rw [override_of_not_mem _ _ _ _ (fun h => ((mem_restA A P a).mp h).2 ha), assign_of_mem _ _ _ ha]

theorem asm_mem_cells (idx v : List Nat) (hi : idx ∈ cells (P.map c))
    (hv : v ∈ cells ((restA A P).map c)) : asm A P idx v ∈ cells (A.map c) := by
  rw [mem_cells_iff] at hi hv ⊢
  unfold asm
  rw [Dataset.inRange_map_map]
  intro a ha
  by_cases hp : a ∈ P
  · rw [asm_val_P A P hA hP hsub idx v a hp]
    exact getD_lt_of_inRange P c idx hi a hp
  · have hr : a ∈ restA A P := (mem_restA A P a).mpr ⟨ha, hp⟩
    rw [override_of_mem _ _ _ _ hr]
    exact getD_lt_of_inRange _ c v hv a hr

theorem proj_mem_cells (l : List Attr) (hl : ∀ a ∈ l, a ∈ A) (cell : List Nat)
    (hc : cell ∈ cells (A.map c)) : l.map (Dom.assign A cell) ∈ cells (l.map c) := by
  rw [mem_cells_iff] at hc ⊢
  rw [Dataset.inRange_map_map]
  intro a ha
  rw [assign_of_mem _ _ _ (hl a ha)]
  exact getD_lt_of_inRange A c cell hc a (hl a ha)

theorem asm_proj_P (idx v : List Nat) (hi : idx ∈ cells (P.map c)) :
    P.map (Dom.assign A (asm A P idx v)) = idx := by
  rw [mem_cells_iff] at hi
  have hlen := length_of_inRange_map P c idx hi
  conv => rhs; rw [← Dataset.map_getD_idxOf_self P hP idx 0 hlen]
  apply List.map_congr_left
  intro a ha
  unfold asm
  rw [assign_map A _ a (hsub a ha), asm_val_P A P hA hP hsub idx v a ha]

theorem asm_proj_R (idx v : List Nat) (hv : v ∈ cells ((restA A P).map c)) :
    (restA A P).map (Dom.assign A (asm A P idx v)) = v := by
  rw [mem_cells_iff] at hv
  have hlen := length_of_inRange_map _ c v hv
  conv => rhs; rw [← Dataset.map_getD_idxOf_self (restA A P) (nodup_restA A P hA hP hsub) v 0 hlen]
  apply List.map_congr_left
  intro a ha
  unfold asm
  rw [assign_map A _ a ((mem_restA A P a).mp ha).1, override_of_mem _ _ _ _ ha]

theorem asm_of_proj (cell : List Nat) (hc : cell ∈ cells (A.map c)) :
    asm A P (P.map (Dom.assign A cell)) ((restA A P).map (Dom.assign A cell)) = cell := by
  rw [mem_cells_iff] at hc
  have hlen := length_of_inRange_map A c cell hc
  conv => rhs; rw [← Dataset.map_getD_idxOf_self A hA cell 0 hlen]
  unfold asm
  apply List.map_congr_left
  intro a ha
  by_cases hp : a ∈ P
  · rw [asm_val_P A P hA hP hsub _ _ a hp, getD_map_idxOf P _ 0 a hp, assign_of_mem _ _ _ ha]
  · have hr : a ∈ restA A P := (mem_restA A P a).mpr ⟨ha, hp⟩
    rw [override_of_mem _ _ _ _ hr, getD_map_idxOf _ _ 0 a hr, assign_of_mem _ _ _ ha]

/-- **regrouping**: a sum over all cells = sum over projected cells of the sum over the rest -/
theorem regroup (G : List Nat → K) :
    ((cells (A.map c)).map G).sum
      = ((cells (P.map c)).map (fun idx =>
          ((cells ((restA A P).map c)).map (fun v => G (asm A P idx v))).sum)).sum := by
  classical
  rw [← List.sum_toFinset _ (Dataset.nodup_cells _), ← List.sum_toFinset _ (Dataset.nodup_cells _)]
  have : ∀ idx, ((cells ((restA A P).map c)).map (fun v => G (asm A P idx v))).sum
      = ∑ v ∈ (cells ((restA A P).map c)).toFinset, G (asm A P idx v) := by
    intro idx
    rw [← List.sum_toFinset _ (Dataset.nodup_cells _)]
  simp only [this]
  rw [← Finset.sum_product']
  symm
  apply Finset.sum_nbij' (fun p => asm A P p.1 p.2)
    (fun cell => (P.map (Dom.assign A cell), (restA A P).map (Dom.assign A cell)))
  · rintro ⟨idx, v⟩ hp
    simp only [Finset.mem_product, List.mem_toFinset] at hp ⊢
    exact asm_mem_cells A P c hA hP hsub idx v hp.1 hp.2
  · intro cell hc
    simp only [Finset.mem_product, List.mem_toFinset] at hc ⊢
    exact ⟨proj_mem_cells A P c hA hP hsub P hsub cell hc,
      proj_mem_cells A P c hA hP hsub _ (fun a ha => ((mem_restA A P a).mp ha).1) cell hc⟩
  · rintro ⟨idx, v⟩ hp
    simp only [Finset.mem_product, List.mem_toFinset] at hp
    show (_, _) = (idx, v)
    rw [asm_proj_P A P c hA hP hsub idx v hp.1, asm_proj_R A P c hA hP hsub idx v hp.2]
  · intro cell hc
    simp only [List.mem_toFinset] at hc
    exact asm_of_proj A P c hA hP hsub cell hc
  · intro p _
    rfl

/-- the size identity behind `n / p` -/
theorem size_regroup :
    ((size (A.map c) : Nat) : K) = (size (P.map c) : K) * (size ((restA A P).map c) : K) := by
  have h := regroup (K := K) A P c hA hP hsub (fun _ => 1)
  simp only [List.map_const', List.sum_replicate, length_cells, nsmul_eq_mul, mul_one] at h
  exact h

end

end PGM.LossAux
