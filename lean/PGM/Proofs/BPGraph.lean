import PGM.Proofs.JTree
import PGM.Proofs.JTWeightEdges
import Mathlib.Combinatorics.SimpleGraph.Acyclic
import Mathlib.Combinatorics.SimpleGraph.DeleteEdges
import Mathlib.Data.List.Perm.Subperm
/-!
# Graph layer for belief propagation: the two sides of a tree edge

`Side t i j n`: `n` is reachable from `i` without traversing the edge `{i,j}`.  With `j = i`
(no such edge) this is plain reachability.
-/
namespace PGM.JT
open Relation

/-- a step along a tree edge other than `{i,j}` -/
def SStep (t : Tree) (i j a b : Clique) : Prop :=
  t.adj a b = true ∧ ¬(a = i ∧ b = j) ∧ ¬(a = j ∧ b = i)

def Side (t : Tree) (i j : Clique) : Clique → Prop := ReflTransGen (SStep t i j) i

/-- a step along a tree edge not touching `i` -/
def AStep (t : Tree) (i a b : Clique) : Prop := t.adj a b = true ∧ a ≠ i ∧ b ≠ i

/-- the facts about the tree used by the BP proof -/
structure TreeOK (t : Tree) : Prop where
  nodes_nodup : t.nodes.Nodup
  nodes_ne : t.nodes ≠ []
  ends : ∀ a b, t.adj a b = true → a ∈ t.nodes ∧ b ∈ t.nodes ∧ a ≠ b
  conn : ∀ n ∈ t.nodes, ∀ m ∈ t.nodes, Conn t t.nodes n m
  bridge : ∀ k i, t.adj k i = true → ¬ Side t k i i

theorem SStep.symm {t : Tree} {i j a b : Clique} (h : SStep t i j a b) : SStep t i j b a :=
  ⟨by rw [tree_adj_symm]; exact h.1, fun e => h.2.2 ⟨e.2, e.1⟩, fun e => h.2.1 ⟨e.2, e.1⟩⟩

theorem AStep.symm {t : Tree} {i a b : Clique} (h : AStep t i a b) : AStep t i b a :=
  ⟨by rw [tree_adj_symm]; exact h.1, h.2.2, h.2.1⟩

theorem rtg_symm {α : Type} {r : α → α → Prop} (hs : ∀ a b, r a b → r b a) {a b : α}
    (h : ReflTransGen r a b) : ReflTransGen r b a := by
  induction h with
  | refl => exact ReflTransGen.refl
  | tail _ hbc ih => exact ReflTransGen.head (hs _ _ hbc) ih

theorem side_refl (t : Tree) (i j : Clique) : Side t i j i := ReflTransGen.refl

section
variable {t : Tree} (ok : TreeOK t)
include ok

theorem side_mem_nodes {i j n : Clique} (hi : i ∈ t.nodes) (h : Side t i j n) : n ∈ t.nodes := by
  induction h with
  | refl => exact hi
  | tail _ hbc _ => exact (ok.ends _ _ hbc.1).2.1

/-- a path on `k`'s side of the edge `{k,i}` never touches `i` -/
theorem side_avoid {k i n : Clique} (hki : t.adj k i = true) (h : Side t k i n) :
    ReflTransGen (AStep t i) k n ∧ n ≠ i := by
  induction h with
  | refl => exact ⟨ReflTransGen.refl, (ok.ends _ _ hki).2.2⟩
  | @tail b c hab hbc ih =>
    have hc : c ≠ i := by
      intro e
      subst e
      exact ok.bridge k c hki (ReflTransGen.tail hab hbc)
    exact ⟨ReflTransGen.tail ih.1 ⟨hbc.1, ih.2, hc⟩, hc⟩

omit ok in
theorem avoid_side {k i n : Clique} (h : ReflTransGen (AStep t i) k n) : Side t k i n := by
  refine ReflTransGen.mono ?_ _ _ h
  intro a b hab
  exact ⟨hab.1, fun e => hab.2.2 e.2, fun e => hab.2.1 e.1⟩

omit ok in
/-- decomposition of a side along the neighbours of its root (`→`) -/
theorem side_decomp {i j n : Clique} (h : Side t i j n) :
    n = i ∨ ∃ k, t.adj i k = true ∧ k ≠ j ∧ Side t k i n := by
  induction h with
  | refl => exact Or.inl rfl
  | @tail b c hab hbc ih =>
    by_cases hc : c = i
    · exact Or.inl hc
    · by_cases hb : b = i
      · subst hb
        refine Or.inr ⟨c, hbc.1, fun e => hbc.2.1 ⟨rfl, e⟩, ReflTransGen.refl⟩
      · rcases ih with ih | ⟨k, hk, hkj, hs⟩
        · exact absurd ih hb
        · refine Or.inr ⟨k, hk, hkj, ReflTransGen.tail hs ⟨hbc.1, fun e => hc e.2, fun e => hb e.1⟩⟩

/-- decomposition of a side along the neighbours of its root (`←`) -/
theorem side_of_nbr {i j k n : Clique} (hik : t.adj i k = true) (hkj : k ≠ j) (h : Side t k i n) :
    Side t i j n := by
  have hki : t.adj k i = true := by rw [tree_adj_symm]; exact hik
  have hne := (ok.ends _ _ hik).2.2
  have h1 := (side_avoid ok hki h).1
  have h2 : ReflTransGen (SStep t i j) k n := by
    refine ReflTransGen.mono ?_ _ _ h1
    intro a b hab
    exact ⟨hab.1, fun e => hab.2.1 e.1, fun e => hab.2.2 e.2⟩
  exact ReflTransGen.head ⟨hik, fun e => hkj e.2, fun e => hne e.2.symm⟩ h2

/-- the sides hanging off different neighbours are disjoint -/
theorem side_disjoint {i k k' n : Clique} (hik : t.adj i k = true) (hik' : t.adj i k' = true)
    (hne : k ≠ k') (h : Side t k i n) (h' : Side t k' i n) : False := by
  have hki : t.adj k i = true := by rw [tree_adj_symm]; exact hik
  have hki' : t.adj k' i = true := by rw [tree_adj_symm]; exact hik'
  have h1 := (side_avoid ok hki h).1
  have h2 := (side_avoid ok hki' h').1
  have h3 : ReflTransGen (AStep t i) k k' :=
    h1.trans (rtg_symm (fun _ _ h => AStep.symm h) h2)
  have h4 : Side t k i k' := avoid_side h3
  have hk'i := (ok.ends _ _ hki').2.2
  exact ok.bridge k i hki (ReflTransGen.tail h4 ⟨hki', fun e => hne e.1.symm, fun e => hk'i e.1⟩)

/-- with no edge excluded, a side is the whole tree -/
theorem side_self_iff {c n : Clique} (hc : c ∈ t.nodes) : Side t c c n ↔ n ∈ t.nodes := by
  constructor
  · exact side_mem_nodes ok hc
  · intro hn
    refine ReflTransGen.mono ?_ _ _ (ok.conn c hc n hn)
    intro a b hab
    have hne := (ok.ends _ _ hab.1).2.2
    exact ⟨hab.1, fun e => hne (e.1.trans e.2.symm), fun e => hne (e.1.trans e.2.symm)⟩

end

theorem rip_side_aux (t : Tree) (i j n m : Clique) (a : Attr)
    (hconn : Conn t (t.nodes.filter (fun k => k.contains a)) n m)
    (han : a ∈ n) (hn : Side t i j n) : a ∈ m ∧ (Side t i j m ∨ (a ∈ i ∧ a ∈ j)) := by
  induction hconn with
  | refl => exact ⟨han, Or.inl hn⟩
  | @tail x y _ hxy ih =>
    have hay : a ∈ y := by
      have := (List.mem_filter.mp hxy.2).2
      simpa using this
    refine ⟨hay, ?_⟩
    rcases ih.2 with hs | hs
    · by_cases h1 : x = i ∧ y = j
      · exact Or.inr ⟨h1.1 ▸ ih.1, h1.2 ▸ hay⟩
      · by_cases h2 : x = j ∧ y = i
        · exact Or.inr ⟨h2.2 ▸ hay, h2.1 ▸ ih.1⟩
        · exact Or.inl (ReflTransGen.tail hs ⟨hxy.1, h1, h2⟩)
    · exact Or.inr hs

/-- running intersection across an edge: an attribute occurring on both sides of `{i,j}` lies in
the separator -/
theorem rip_side (t : Tree) (i j n m : Clique) (a : Attr)
    (hconn : Conn t (t.nodes.filter (fun k => k.contains a)) n m)
    (han : a ∈ n) (hn : Side t i j n) (hm : ¬ Side t i j m) : a ∈ i ∧ a ∈ j := by
  rcases (rip_side_aux t i j n m a hconn han hn).2 with h | h
  · exact absurd h hm
  · exact h

/-! ### from the checker -/

theorem adj_iff_edges (t : Tree) (a b : Clique) :
    t.adj a b = true ↔ (a, b) ∈ t.edges ∨ (b, a) ∈ t.edges := by
  simp [Tree.adj]

open SimpleGraph in
theorem side_reachable (t : Tree) (f : TreeFacts t) (i j : Clique) (hi : i ∈ t.nodes)
    (hj : j ∈ t.nodes) (n : Clique) (h : Side t i j n) :
    ∃ hn : n ∈ t.nodes,
      ((Gind t t.nodes).deleteEdges {s(⟨i, hi⟩, ⟨j, hj⟩)}).Reachable ⟨i, hi⟩ ⟨n, hn⟩ := by
  induction h with
  | refl => exact ⟨hi, Reachable.refl _⟩
  | @tail b c _ hbc ih =>
    obtain ⟨hb, hr⟩ := ih
    have hends : b ∈ t.nodes ∧ c ∈ t.nodes ∧ b ≠ c := by
      rcases (adj_iff_edges t b c).mp hbc.1 with h | h
      · have := f.ends _ h; exact ⟨this.1, this.2.1, this.2.2⟩
      · have := f.ends _ h; exact ⟨this.2.1, this.1, fun e => this.2.2 e.symm⟩
    refine ⟨hends.2.1, hr.trans (Adj.reachable ?_)⟩
    rw [deleteEdges_adj]
    refine ⟨(Gind_adj t t.nodes ⟨b, hb⟩ ⟨c, hends.2.1⟩).mpr ⟨hends.2.2, hbc.1⟩, ?_⟩
    intro hmem
    rw [Set.mem_singleton_iff, Sym2.eq_iff] at hmem
    rcases hmem with ⟨h1, h2⟩ | ⟨h1, h2⟩
    · exact hbc.2.1 ⟨congrArg Subtype.val h1, congrArg Subtype.val h2⟩
    · exact hbc.2.2 ⟨congrArg Subtype.val h1, congrArg Subtype.val h2⟩

theorem treeOK_of_isTree (t : Tree) (h : isTree t = true) : TreeOK t := by
  have f := treeFacts t h
  have hends : ∀ a b, t.adj a b = true → a ∈ t.nodes ∧ b ∈ t.nodes ∧ a ≠ b := by
    intro a b hab
    rcases (adj_iff_edges t a b).mp hab with h | h
    · have := f.ends _ h; exact ⟨this.1, this.2.1, this.2.2⟩
    · have := f.ends _ h; exact ⟨this.2.1, this.1, fun e => this.2.2 e.symm⟩
  refine ⟨f.nodes_nodup, f.nodes_ne, hends, ?_, ?_⟩
  · simp only [isTree, Bool.and_eq_true] at h
    exact connectedWithin_sound t t.nodes h.2
  · intro k i hki hs
    have hk := (hends k i hki).1
    have hi := (hends k i hki).2.1
    obtain ⟨_, hr⟩ := side_reachable t f k i hk hi i hs
    have hadj : (Gind t t.nodes).Adj ⟨k, hk⟩ ⟨i, hi⟩ :=
      (Gind_adj t t.nodes ⟨k, hk⟩ ⟨i, hi⟩).mpr ⟨(hends k i hki).2.2, hki⟩
    have hb := (SimpleGraph.isAcyclic_iff_forall_adj_isBridge.mp f.acyclic) hadj
    rw [SimpleGraph.isBridge_iff] at hb
    exact hb hr

/-! ### the schedule -/

theorem edges2_nodup (t : Tree) (f : TreeFacts t) : (t.edges ++ t.edges.map Prod.swap).Nodup := by
  have hnd : t.edges.Nodup := List.Nodup.of_map _ f.sym_nodup
  rw [List.nodup_append]
  refine ⟨hnd, hnd.map Prod.swap_injective, ?_⟩
  intro e he e' he' hee
  obtain ⟨e2, he2, rfl⟩ := List.mem_map.mp he'
  have hs : toSym e = toSym e2 := by
    rw [hee]; simp [toSym, Sym2.eq_swap]
  have := List.inj_on_of_nodup_map f.sym_nodup he he2 hs
  subst this
  have h1 : e.1 = e.2 := by
    have := congrArg Prod.fst hee
    simpa using this
  exact (f.ends e he).2.2 h1

/-- what the BP proof uses of the checked schedule -/
structure SchedOK (t : Tree) (order : List (Clique × Clique)) : Prop where
  nodup : order.Nodup
  adj_of_mem : ∀ i j, (i, j) ∈ order → t.adj i j = true
  mem_of_adj : ∀ i j, t.adj i j = true → (i, j) ∈ order
  respects : ∀ (pre rest : List (Clique × Clique)) (i j : Clique), order = pre ++ (i, j) :: rest →
    ∀ k, t.adj i k = true → k ≠ j → (k, i) ∈ pre

theorem schedOK_of_valid (attrs : List Attr) (cl : List Clique) (t : Tree)
    (order : List (Clique × Clique)) (f : TreeFacts t) (v : Valid attrs cl t order) :
    SchedOK t order := by
  have hsub : (t.edges ++ t.edges.map Prod.swap) ⊆ order := by
    intro e he
    rcases List.mem_append.mp he with he | he
    · exact (v.sched_edges e he).1
    · obtain ⟨e2, he2, rfl⟩ := List.mem_map.mp he
      exact (v.sched_edges e2 he2).2
  have hperm : (t.edges ++ t.edges.map Prod.swap).Perm order :=
    (List.subperm_of_subset (edges2_nodup t f) hsub).perm_of_length_le (by
      rw [v.sched_count]; simp; omega)
  have hmem_adj : ∀ i j, t.adj i j = true → (i, j) ∈ order := by
    intro i j hij
    rcases (adj_iff_edges t i j).mp hij with h | h
    · exact (v.sched_edges _ h).1
    · exact (v.sched_edges _ h).2
  refine ⟨v.sched_nodup, ?_, hmem_adj, ?_⟩
  · intro i j hij
    have := hperm.mem_iff.mpr hij
    rw [adj_iff_edges]
    rcases List.mem_append.mp this with h | h
    · exact Or.inl h
    · obtain ⟨e2, he2, he⟩ := List.mem_map.mp h
      right
      have : e2 = (j, i) := by
        have h1 := congrArg Prod.fst he
        have h2 := congrArg Prod.snd he
        simp at h1 h2
        exact Prod.ext h2 h1
      rw [← this]; exact he2
  · intro pre rest i j hsplit k hik hkj
    have hk : k ∈ t.nodes := by
      rcases (adj_iff_edges t i k).mp hik with h | h
      · exact (f.ends _ h).2.1
      · exact (f.ends _ h).1
    have hp : order[pre.length]? = some (i, j) := by
      rw [hsplit]; simp
    obtain ⟨q, hq, hq'⟩ := v.sched_respects pre.length i j hp k hk hik hkj
    rw [hsplit, List.getElem?_append_left hq] at hq'
    exact List.mem_of_getElem? hq'

end PGM.JT
