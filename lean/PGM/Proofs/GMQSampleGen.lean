import PGM.Proofs.GMQSupport
import PGM.Proofs.GMQSynthTable
import PGM.Proofs.GMQSynth
/-!
# the support induction for the generated `synthetic_data`, SAMPLING mode

`method == 'sample'` draws every group's values with replacement from the normalised conditional slice.  What numpy guarantees
(`RngOK.replace`) is conditional: the drawn values are indices of POSITIVE probability provided the slice has some positive entry.
As in rounding mode (`Proofs/GMQSupport.lean`) that a group's slice has positive mass follows by induction along the loop from the chain
hypotheses (`chainWF`, `margConsistent` with `S > 0`, nonnegative tables): a key occurring in the table comes from a row lying in a cell
of the parent's clique of positive mass.  Here the induction is carried by `SampGood` (drawn values are inside the attribute's domain
and of positive conditional mass) instead of the rounding checker `colOK` — no rounding fact is used.

Result (`synthTable_sample_pos`): every row of the final table, at every step, holds a value inside the domain and of positive
conditional mass given the row's own key; hence `synthTable_sample_support`.
-/
namespace PGM.GMQGen
open PGM PGM.Synth PGM.Synth.Table
set_option linter.unusedVariables false

/-- an outcome for the group `k` whose values are inside the domain and have positive conditional mass -/
def SampGood (sp : ColSpec) (k : List Nat) (og : List Nat) : Prop :=
  ∀ v ∈ og, v < sp.size ∧ 0 < (sp.cond k).getD v 0

/-- the table `final` carries the outcome `o` of step `sp`, group by group, and every outcome is `SampGood` -/
def StepS (sp : ColSpec) (o : List (List Nat)) (final : List Row) : Prop :=
  o.length = (groupKeys sp.proj final).length ∧
  ∀ g og, (g, og) ∈ List.zip (groupKeys sp.proj final) o →
    groupCol sp.col sp.proj g final = og ∧ SampGood sp g og

/-- admissible sampling outcomes of a whole run, each step judged on the table it sees -/
def OutsS : List ColSpec → List (List (List Nat)) → List Row → Prop
  | [], [], _ => True
  | sp :: sps, o :: os, rows =>
    (o.length = (groupKeys sp.proj rows).length ∧
      ∀ g og, (g, og) ∈ List.zip (groupKeys sp.proj rows) o →
        og.length = groupSize sp.proj g rows ∧ SampGood sp g og) ∧
      OutsS sps os (genCol sp rows o)
  | _, _, _ => False

/-- what is known BEFORE the induction: an outcome is good provided the group's slice is `CountsOK` -/
def OutsCondS : List ColSpec → List (List (List Nat)) → List Row → Prop
  | [], [], _ => True
  | sp :: sps, o :: os, rows =>
    (o.length = (groupKeys sp.proj rows).length ∧
      ∀ ko ∈ List.zip (groupKeys sp.proj rows) o, CountsOK (sp.cond ko.1) →
        ko.2.length = groupSize sp.proj ko.1 rows ∧ SampGood sp ko.1 ko.2) ∧
      OutsCondS sps os (genCol sp rows o)
  | _, _, _ => False

theorem OutsS.length_eq : ∀ (specs : List ColSpec) (outs : List (List (List Nat))) (rows : List Row),
    OutsS specs outs rows → outs.length = specs.length
  | [], [], _, _ => rfl
  | [], _ :: _, _, h => h.elim
  | _ :: _, [], _, h => h.elim
  | sp :: sps, o :: os, rows, h => by
    simp only [List.length_cons]
    rw [OutsS.length_eq sps os _ h.2]

/-! ### a step's outcome is in the table, and stays there -/

theorem StepS.transfer {sp : ColSpec} {o : List (List Nat)} {a b : List Row} {P : Nat → Prop}
    (h : StepS sp o a) (hab : Agree P a b) (hc : P sp.col) (hproj : ∀ j ∈ sp.proj, P j) :
    StepS sp o b := by
  have hk : groupKeys sp.proj a = groupKeys sp.proj b :=
    groupKeys_congr _ _ _ (hab.map_key sp.proj hproj)
  unfold StepS at *
  rw [← hk]
  refine ⟨h.1, fun g og hm => ?_⟩
  rw [← hab.groupCol sp.col sp.proj g hc hproj]
  exact h.2 g og hm

theorem stepS_genCol (sp : ColSpec) (rows : List Row) (o : List (List Nat)) (hc : sp.col ∉ sp.proj)
    (hw : ∀ r ∈ rows, sp.col < r.length)
    (hlen : o.length = (groupKeys sp.proj rows).length)
    (hall : ∀ g og, (g, og) ∈ List.zip (groupKeys sp.proj rows) o →
      og.length = groupSize sp.proj g rows ∧ SampGood sp g og) :
    StepS sp o (genCol sp rows o) := by
  have hag := agree_genCol sp rows o
  have hk : groupKeys sp.proj rows = groupKeys sp.proj (genCol sp rows o) :=
    groupKeys_congr _ _ _ (hag.map_key sp.proj (fun j hj e => hc (e ▸ hj)))
  unfold StepS
  rw [← hk]
  refine ⟨hlen, fun g og hm => ?_⟩
  obtain ⟨h1, h2⟩ := hall g og hm
  refine ⟨?_, h2⟩
  rw [genCol_eq]
  apply foldGroups_groupCol sp.col sp.proj g og hc _ _ hm rows hw
  · rw [h1, groupSize_eq_cellCount]
  · rw [List.map_fst_zip (Nat.le_of_eq hlen.symm)]
    exact nodup_groupKeys _ _

theorem run_stepS (ncols : Nat) (done : List Nat) (specs : List ColSpec)
    (outs : List (List (List Nat))) (rows : List Row)
    (hwf : specsWF ncols done specs = true) (hw : ∀ r ∈ rows, r.length = ncols)
    (hok : OutsS specs outs rows) :
    ∀ sp o, (sp, o) ∈ List.zip specs outs → StepS sp o (run specs outs rows) := by
  induction specs generalizing done outs rows with
  | nil => intro sp o hm; simp at hm
  | cons sp0 sps ih =>
    cases outs with
    | nil => intro sp o hm; simp at hm
    | cons o0 os =>
      rw [specsWF_cons] at hwf
      obtain ⟨hlt, hnd, hproj, _, hrest⟩ := hwf
      obtain ⟨hok0, hoks⟩ := hok
      have hw1 : ∀ r ∈ genCol sp0 rows o0, r.length = ncols := (agree_genCol sp0 rows o0).width ncols hw
      intro sp o hm
      rw [run_cons]
      rw [List.zip_cons_cons, List.mem_cons] at hm
      rcases hm with hm | hm
      · obtain ⟨rfl, rfl⟩ := Prod.mk.inj hm
        have hc : sp.col ∉ sp.proj := fun h => hnd (hproj _ h)
        have h0 := stepS_genCol sp rows o hc (fun r hr => by rw [hw r hr]; exact hlt) hok0.1 hok0.2
        apply h0.transfer (agree_run ncols (done ++ [sp.col]) sps hrest os _)
        · exact List.mem_append_right _ (List.mem_singleton.2 rfl)
        · exact fun j hj => List.mem_append_left _ (hproj j hj)
      · exact ih (done ++ [sp0.col]) os _ hrest hw1 hoks sp o hm

/-- every row holds, at the step's column, a value inside the domain and of positive conditional mass given the row's key -/
theorem StepS.pos {sp : ColSpec} {o : List (List Nat)} {final : List Row}
    (h : StepS sp o final) (r : Row) (hr : r ∈ final) :
    r.getD sp.col 0 < sp.size ∧ 0 < (sp.cond (key sp.proj r)).getD (r.getD sp.col 0) 0 := by
  have hg : key sp.proj r ∈ groupKeys sp.proj final :=
    (mem_groupKeys _ _ _).2 (List.mem_map.2 ⟨r, hr, rfl⟩)
  obtain ⟨og, hm⟩ := exists_out_of_mem _ o h.1 _ hg
  obtain ⟨h1, h2⟩ := h.2 _ og hm
  apply h2
  rw [← h1]
  exact mem_groupCol_of_mem _ _ _ r hr

theorem outsS_snoc (pre : List ColSpec) (outsPre : List (List (List Nat)))
    (sp : ColSpec) (o : List (List Nat)) (rows : List Row)
    (h : OutsS pre outsPre rows)
    (hlen : o.length = (groupKeys sp.proj (run pre outsPre rows)).length)
    (hall : ∀ g og, (g, og) ∈ List.zip (groupKeys sp.proj (run pre outsPre rows)) o →
      og.length = groupSize sp.proj g (run pre outsPre rows) ∧ SampGood sp g og) :
    OutsS (pre ++ [sp]) (outsPre ++ [o]) rows := by
  induction pre generalizing outsPre rows with
  | nil =>
    cases outsPre with
    | nil =>
      rw [run_nil_left] at hlen hall
      exact ⟨⟨hlen, hall⟩, trivial⟩
    | cons o0 os => exact h.elim
  | cons sp0 pre ih =>
    cases outsPre with
    | nil => exact h.elim
    | cons o0 os =>
      rw [run_cons] at hlen hall
      exact ⟨h.1, ih os _ h.2 hlen hall⟩

/-! ### the single step -/

/-- if every row of the table built by the prefix lies, for every earlier step, in a cell of positive conditional mass, every key of
the next step occurring in the table has a `CountsOK` slice -/
theorem slice_countsOK_S (ncols : Nat) (specs : List ColSpec) (parent : Nat → Nat) (S : Rat)
    (hS : 0 < S) (hch : chainWF specs parent = true)
    (hcons : margConsistent specs parent S = true)
    (hnn : ∀ sp ∈ specs, ∀ g, ∀ c ∈ sp.cond g, (0 : Rat) ≤ c)
    (pre : List ColSpec) (sp : ColSpec) (sps : List ColSpec) (hsplit : specs = pre ++ sp :: sps)
    (hwfpre : specsWF ncols [] pre = true) (rows : List Row)
    (hall : ∀ sj ∈ pre, ∀ r ∈ rows,
      r.getD sj.col 0 < sj.size ∧ 0 < (sj.cond (key sj.proj r)).getD (r.getD sj.col 0) 0) :
    (∀ g ∈ groupKeys sp.proj rows, CountsOK (sp.cond g)) ∧ (sp.proj = [] → CountsOK (sp.cond [])) := by
  have hk : pre.length < specs.length := by rw [hsplit]; simp
  have hsp : specAt specs pre.length = sp := by rw [hsplit]; exact specAt_append_length pre sp sps
  have hmem : sp ∈ specs := by rw [hsplit]; simp
  have hnnsp : ∀ g, ∀ c ∈ sp.cond g, (0 : Rat) ≤ c := hnn sp hmem
  by_cases hroot : sp.proj = []
  · have hs := margConsistent_root specs parent S hcons pre.length hk (by rw [hsp]; exact hroot)
    rw [hsp] at hs
    have hC : CountsOK (sp.cond []) := ⟨hnnsp [], by rw [hs]; exact hS⟩
    refine ⟨fun g hg => ?_, fun _ => hC⟩
    rw [mem_groupKeys] at hg
    obtain ⟨r, _, rfl⟩ := List.mem_map.1 hg
    have : key sp.proj r = [] := by rw [hroot]; rfl
    rw [this]; exact hC
  · refine ⟨fun g hg => ⟨hnnsp g, ?_⟩, fun h => absurd h hroot⟩
    have hroot' : (specAt specs pre.length).proj ≠ [] := by rw [hsp]; exact hroot
    obtain ⟨hj, hsub⟩ := chainWF_step specs parent hch pre.length hk hroot'
    rw [hsp] at hsub
    have hjs : parent pre.length < specs.length := Nat.lt_trans hj hk
    have hsj : specAt specs (parent pre.length) = specAt pre (parent pre.length) := by
      rw [hsplit]; exact specAt_append_left pre _ _ hj
    have hsjmem : specAt pre (parent pre.length) ∈ pre := specAt_mem pre _ hj
    rw [mem_groupKeys] at hg
    obtain ⟨r, hr, rfl⟩ := List.mem_map.1 hg
    have hdom : ∀ a ∈ (specAt specs (parent pre.length)).pos, r.getD a 0 < attrSize specs a := by
      intro a ha
      rw [hsj] at ha
      have hgen := pos_generated ncols pre hwfpre _ hsjmem a ha
      have hsz : attrSize specs a = attrSize pre a := by
        rw [hsplit]; exact attrSize_append_left pre _ a hgen
      rw [hsz]
      obtain ⟨s, hs, hcol, hsize⟩ := attrSize_spec pre a hgen
      rw [hsize, ← hcol]
      exact (hall s hs r hr).1
    have hg_mem : key sp.proj r ∈ tuplesOver (attrSize specs) (specAt specs pre.length).proj := by
      rw [hsp]
      exact key_mem_tuplesOver _ _ r (fun a ha => hdom a (hsub a ha))
    have hfib : key (specAt specs (parent pre.length)).pos r ∈
        fiber specs (specAt specs (parent pre.length)) sp (key sp.proj r) := by
      unfold fiber
      rw [List.mem_filter]
      refine ⟨key_mem_tuplesOver _ _ r hdom, ?_⟩
      rw [restrict_key _ _ r hsub]
      exact beq_self_eq_true _
    have heq := margConsistent_step specs parent S hcons pre.length hk hroot' (key sp.proj r) hg_mem
    rw [hsp] at heq
    rw [heq]
    refine fiber_sum_pos specs hnn _ hjs _ _ hfib ?_
    unfold mu
    rw [hsj]
    have hkey : key (specAt pre (parent pre.length)).pos r
        = key (specAt pre (parent pre.length)).proj r ++ [r.getD (specAt pre (parent pre.length)).col 0] := by
      unfold ColSpec.pos; rw [key_append, key_singleton]
    rw [hkey, List.dropLast_concat, List.getLastD_concat]
    exact (hall _ hsjmem r hr).2

/-! ### the induction along the run -/

theorem outsS_of_outsCondS_aux (ncols total : Nat) (specs : List ColSpec) (parent : Nat → Nat) (S : Rat)
    (hS : 0 < S) (hwf : specsWF ncols [] specs = true) (hch : chainWF specs parent = true)
    (hcons : margConsistent specs parent S = true)
    (hnn : ∀ sp ∈ specs, ∀ g, ∀ c ∈ sp.cond g, (0 : Rat) ≤ c) (rest : List ColSpec) :
    ∀ (pre : List ColSpec) (outsPre outsRest : List (List (List Nat))), specs = pre ++ rest →
      OutsS pre outsPre (List.replicate total (List.replicate ncols 0)) →
      OutsCondS rest outsRest (run pre outsPre (List.replicate total (List.replicate ncols 0))) →
      OutsS rest outsRest (run pre outsPre (List.replicate total (List.replicate ncols 0))) := by
  induction rest with
  | nil =>
    intro pre outsPre outsRest _ _ hc
    cases outsRest with
    | nil => trivial
    | cons o os => exact hc.elim
  | cons sp sps ih =>
    intro pre outsPre outsRest hs hok hc
    cases outsRest with
    | nil => exact hc.elim
    | cons o os =>
      obtain ⟨⟨hlen, hgood⟩, hrest⟩ := hc
      have hwfpre : specsWF ncols [] pre = true := specsWF_append_left ncols [] pre (sp :: sps) (hs ▸ hwf)
      have hlenpre := OutsS.length_eq _ _ _ hok
      have hsteps := run_stepS ncols [] pre outsPre _ hwfpre (width_init ncols total) hok
      have hall : ∀ sj ∈ pre, ∀ r ∈ run pre outsPre (List.replicate total (List.replicate ncols 0)),
          r.getD sj.col 0 < sj.size ∧ 0 < (sj.cond (key sj.proj r)).getD (r.getD sj.col 0) 0 := by
        intro sj hsj r hr
        obtain ⟨oj, hm⟩ := exists_out_of_mem pre outsPre hlenpre sj hsj
        exact (hsteps sj oj hm).pos r hr
      obtain ⟨h1, _⟩ := slice_countsOK_S ncols specs parent S hS hch hcons hnn pre sp sps hs hwfpre _ hall
      have hall' : ∀ g og, (g, og) ∈ List.zip (groupKeys sp.proj (run pre outsPre (List.replicate total (List.replicate ncols 0)))) o →
          og.length = groupSize sp.proj g (run pre outsPre (List.replicate total (List.replicate ncols 0))) ∧ SampGood sp g og :=
        fun g og hm => hgood (g, og) hm (h1 g (List.of_mem_zip hm).1)
      have hok' := outsS_snoc pre outsPre sp o _ hok hlen hall'
      have hrun := run_snoc pre outsPre sp o (List.replicate total (List.replicate ncols 0)) hlenpre
      have hnext := ih (pre ++ [sp]) (outsPre ++ [o]) os (by rw [hs, List.append_assoc]; rfl) hok'
        (by rw [hrun]; exact hrest)
      rw [hrun] at hnext
      exact ⟨⟨hlen, hall'⟩, hnext⟩

/-- **the support induction, sampling mode** -/
theorem outsS_of_outsCondS (ncols total : Nat) (specs : List ColSpec) (outs : List (List (List Nat)))
    (parent : Nat → Nat) (S : Rat) (hS : 0 < S)
    (hwf : specsWF ncols [] specs = true) (hch : chainWF specs parent = true)
    (hcons : margConsistent specs parent S = true)
    (hnn : ∀ sp ∈ specs, ∀ g, ∀ c ∈ sp.cond g, (0 : Rat) ≤ c)
    (hc : OutsCondS specs outs (List.replicate total (List.replicate ncols 0))) :
    OutsS specs outs (List.replicate total (List.replicate ncols 0)) := by
  have := outsS_of_outsCondS_aux ncols total specs parent S hS hwf hch hcons hnn specs [] [] outs
    (List.nil_append _).symm trivial (by rw [run_nil_left]; exact hc)
  rw [run_nil_left] at this
  exact this

/-- every row of the final table, at every step: a value inside the domain, of positive conditional mass given the row's key -/
theorem synthTable_sample_pos (ncols total : Nat) (specs : List ColSpec) (outs : List (List (List Nat)))
    (hwf : specsWF ncols [] specs = true) (hok : OutsS specs outs (List.replicate total (List.replicate ncols 0))) :
    ∀ r ∈ synthTable ncols total specs outs, ∀ sp ∈ specs,
      r.getD sp.col 0 < sp.size ∧ 0 < (sp.cond (key sp.proj r)).getD (r.getD sp.col 0) 0 := by
  intro r hr sp hsp
  obtain ⟨o, hm⟩ := exists_out_of_mem specs outs (OutsS.length_eq _ _ _ hok) sp hsp
  rw [synthTable_eq_run] at hr
  exact (run_stepS ncols [] specs outs _ hwf (width_init ncols total) hok sp o hm).pos r hr

/-- **no record in a cell to which the conditional gives zero**, sampling mode -/
theorem synthTable_sample_support (ncols total : Nat) (specs : List ColSpec) (outs : List (List (List Nat)))
    (hwf : specsWF ncols [] specs = true) (hok : OutsS specs outs (List.replicate total (List.replicate ncols 0)))
    (sp : ColSpec) (hsp : sp ∈ specs) (g : List Nat) (v : Nat) (hz : (sp.cond g).getD v 0 = 0) :
    cellCount (sp.proj ++ [sp.col]) (g ++ [v]) (synthTable ncols total specs outs) = 0 := by
  apply cellCount_zero_of_not_mem
  intro hmem
  obtain ⟨r, hr, hkey⟩ := List.mem_map.1 hmem
  rw [key_append, key_singleton] at hkey
  have hlen : (key sp.proj r).length = g.length := by
    have := congrArg List.length hkey
    simpa using this
  obtain ⟨h1, h2⟩ := List.append_inj hkey hlen
  have hv : r.getD sp.col 0 = v := by simpa using h2
  have := (synthTable_sample_pos ncols total specs outs hwf hok r hr sp hsp).2
  rw [h1, hv, hz] at this
  exact lt_irrefl _ this

/-! ### from the chain of outcome facts of the generated loop to `OutsCondS` -/

theorem outsCondS_of_outsFact {G : Type} (sc : List Rat → Nat → G → List Nat × G) :
    ∀ (specs : List ColSpec) (outs : List (List (List Nat))) (rows : List Row),
      (∀ sp ∈ specs, ∀ k n g, CountsOK (sp.cond k) → (sc (sp.cond k) n g).1.length = n ∧ SampGood sp k (sc (sp.cond k) n g).1) →
      OutsFact sc specs outs rows → OutsCondS specs outs rows := by
  intro specs
  induction specs with
  | nil =>
    intro outs rows _ hf
    cases outs with
    | nil => trivial
    | cons _ _ => exact hf.elim
  | cons sp sps ih =>
    intro outs rows hg hf
    cases outs with
    | nil => exact hf.elim
    | cons o os =>
      obtain ⟨hf0, hfs⟩ := hf
      refine ⟨⟨hf0.1, ?_⟩, ih os _ (fun sp' hsp' => hg sp' (List.mem_cons_of_mem _ hsp')) hfs⟩
      intro ko hko hc
      obtain ⟨g', e⟩ := hf0.2 ko hko
      rw [e]
      exact hg sp List.mem_cons_self ko.1 _ g' hc

end PGM.GMQGen
