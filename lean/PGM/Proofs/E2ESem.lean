import PGM.Proofs.CoherentSum
import PGM.Proofs.BPBounded
/-!
# Tables of the form `total · marginal / Z` of ONE joint are a valid, mutually consistent family
(helpers for `Properties/C08E.lean`): each sums to `total · Z / Z`, and summing a table down to any sub-tuple gives the
table of that sub-tuple — so any two tables agree on the attributes they share.
-/
namespace PGM.E2ESem
open PGM PGM.JT PGM.Sem
variable {K : Type} [Field K] [LinearOrder K] [IsStrictOrderedRing K]

/-- summing the table of `n` over the attributes outside `A ⊆ n` gives the table of `A` -/
theorem tables_agree (d : Dom) (hd : d.WF) (pots : CliqueVec (LogOf K)) (T Z : K) (n A : List Attr) (hnn : n.Nodup)
    (hna : ∀ a ∈ n, a ∈ d.attrs) (hsub : ∀ a ∈ A, a ∈ n) (σ : Attr → Nat) :
    sumOver d (n.filter (fun a => !A.contains a)) σ (fun τ => T * marginal d pots n τ / Z)
      = T * marginal d pots A σ / Z := by
  have hsum : sumOver d (n.filter (fun a => !A.contains a)) σ (fun τ => marginal d pots n τ) = marginal d pots A σ := by
    unfold marginal
    apply Coherent.marg_merge d hd (joint pots) n A _ (hnn.filter _)
    · intro a ha; exact (List.mem_filter.mp ha).1
    · intro a ha; exact hna a (List.mem_filter.mp ha).1
    · intro a _
      constructor
      · intro h
        exact ⟨hsub a h, fun hf => by simpa [h] using (List.mem_filter.mp hf).2⟩
      · rintro ⟨h1, h2⟩
        by_contra hne
        exact h2 (List.mem_filter.mpr ⟨h1, by simpa using hne⟩)
  have hrw : (fun τ => T * marginal d pots n τ / Z) = fun τ => T / Z * marginal d pots n τ := by
    funext τ; ring
  rw [hrw, sumOver_mul_left, hsum]
  ring

/-- the marginal onto the empty tuple is the partition function -/
theorem marginal_nil (d : Dom) (pots : CliqueVec (LogOf K)) :
    marginal d pots [] (fun _ => 0) = partition d pots := by
  unfold marginal partition
  have : d.invert [] = d.attrs := by simp [Dom.invert]
  rw [this]

/-- each table sums to `T · Z / Z` (`= T` when `Z ≠ 0`) -/
theorem tables_sum (d : Dom) (hd : d.WF) (pots : CliqueVec (LogOf K)) (T Z : K) (n : List Attr) (hnn : n.Nodup)
    (hna : ∀ a ∈ n, a ∈ d.attrs) :
    sumOver d n (fun _ => 0) (fun τ => T * marginal d pots n τ / Z) = T * partition d pots / Z := by
  have h := tables_agree d hd pots T Z n [] hnn hna (fun _ h => by cases h) (fun _ => 0)
  rw [marginal_nil] at h
  simpa using h

end PGM.E2ESem
