import PGM.Proofs.RegionGraphGen
import PGM.Proofs.ConvexBuild
import PGM.Proofs.OracleGraph
/-!
# Helper lemmas for the `build_graph` part of `PGM/Properties/C17G.lean`

The generated `build_graph` (`RGG.buildGraph{C,N}{M,S}`) builds its `nx.DiGraph`s by loops of `add_edge` calls, its edge lists by
`extend`, its sets by `add` / `update`; the hand model (`RG.buildOn`) uses `flatMap` / `filterMap` / `dedup`.  The bridge:

* `foldl_addEdge_if`, `foldl_log_append`, `coverFold_eq`: the double loop of lines 131-135 logs exactly `coverEdges regions`;
* `edgesOf_coverEdges`: `G.edges` of that graph is the log itself (regions without repetition);
* `minFold_eq`: the loop of lines 148-159 is `minEdges` (`len(set(a) & set(b)) > 0` is `a.any b.contains`; the running set
  `canonical` is `dedup`);
* `order_keys_nodup`: on a graph that is `BuiltOK` the keys stored into `self.messages` are pairwise different.
-/
namespace PGM.RGGen
open PGM PGM.JT PGM.RG PGM.Convex PGM.Oracle
open PGM.GM (dictSet)
set_option linter.unusedSectionVars false

/-! ## graphs as logs of `add_edge` -/

theorem addNodes_empty (rs : List Region) : RGG.DiGraph.addNodes RGG.DiGraph.empty rs = ⟨rs, []⟩ := by
  simp [RGG.DiGraph.addNodes, RGG.DiGraph.empty]

theorem foldl_addEdge_if {β : Type} (p : β → Bool) (g : β → Edge) (l : List β) (G : RGG.DiGraph) :
    l.foldl (fun G x => if p x then RGG.DiGraph.addEdge G (g x) else G) G = ⟨G.nodes, G.log ++ (l.filter p).map g⟩ := by
  induction l generalizing G with
  | nil => simp
  | cons x xs ih =>
    rw [List.foldl_cons, ih, List.filter_cons]
    by_cases h : p x = true
    · simp [h, RGG.DiGraph.addEdge]
    · simp [h]

theorem foldl_log_append {β : Type} (F : β → List Edge) (l : List β) (G : RGG.DiGraph) :
    l.foldl (fun G x => (⟨G.nodes, G.log ++ F x⟩ : RGG.DiGraph)) G = ⟨G.nodes, G.log ++ l.flatMap F⟩ := by
  induction l generalizing G with
  | nil => simp
  | cons x xs ih =>
    rw [List.foldl_cons, ih]
    simp

theorem filterMap_ite {β γ : Type} (c : β → Bool) (f : β → γ) (l : List β) :
    l.filterMap (fun x => if c x then some (f x) else none) = (l.filter c).map f := by
  induction l with
  | nil => rfl
  | cons x xs ih =>
    rw [List.filterMap_cons, List.filter_cons]
    by_cases h : c x = true
    · simp [h, ih]
    · simp [h, ih]

/-- lines 129-135: after the double loop the graph has logged the cover edges, in the model's order -/
theorem coverFold_eq (regions : List Region) :
    regions.foldl (fun (G : RGG.DiGraph) r1 => regions.foldl (fun (G : RGG.DiGraph) r2 =>
        if (RGG.ssubset r2 r1 && !(List.any (regions.map (fun r3 => RGG.ssubset r2 r3 && RGG.ssubset r3 r1)) id))
        then RGG.DiGraph.addEdge G (r1, r2) else G) G) ⟨regions, []⟩
      = ⟨regions, coverEdges regions⟩ := by
  have h1 : ∀ (G : RGG.DiGraph) (r1 : Region), regions.foldl (fun (G : RGG.DiGraph) r2 =>
        if (RGG.ssubset r2 r1 && !(List.any (regions.map (fun r3 => RGG.ssubset r2 r3 && RGG.ssubset r3 r1)) id))
        then RGG.DiGraph.addEdge G (r1, r2) else G) G
      = ⟨G.nodes, G.log ++ (regions.filter (fun r2 => RG.ssubset r2 r1 && !regions.any (fun r3 => RG.ssubset r2 r3 && RG.ssubset r3 r1))).map (fun r2 => (r1, r2))⟩ := by
    intro G r1
    rw [foldl_addEdge_if (fun r2 => RGG.ssubset r2 r1 && !(List.any (regions.map (fun r3 => RGG.ssubset r2 r3 && RGG.ssubset r3 r1)) id)) (fun r2 => (r1, r2))]
    congr 3
    apply List.filter_congr
    intro r2 _
    rw [List.any_map]
    rfl
  simp only [h1]
  rw [foldl_log_append (fun r1 => (regions.filter (fun r2 => RG.ssubset r2 r1 && !regions.any (fun r3 => RG.ssubset r2 r3 && RG.ssubset r3 r1))).map (fun r2 => (r1, r2)))]
  unfold coverEdges
  simp only [List.nil_append, filterMap_ite]

theorem dedup_of_nodup {β : Type} [BEq β] [LawfulBEq β] (l : List β) (h : l.Nodup) : RG.dedup l = l := by
  unfold RG.dedup
  have key : ∀ (l acc : List β), (acc ++ l).Nodup →
      l.foldl (fun acc x => if acc.contains x then acc else acc ++ [x]) acc = acc ++ l := by
    intro l
    induction l with
    | nil => intro acc _; simp
    | cons x xs ih =>
      intro acc hn
      rw [List.foldl_cons]
      have hx : x ∉ acc := by
        intro hm
        have := (List.nodup_append.mp hn).2.2 x hm x (by simp)
        exact this rfl
      have : acc.contains x = false := by simpa using hx
      rw [this]
      simp only [Bool.false_eq_true, if_false]
      rw [ih (acc ++ [x]) (by simpa using hn)]
      simp
  simpa using key l [] (by simpa using h)

/-- `G.edges` of a graph whose log is already node-major and repetition-free is the log -/
theorem edgesOf_flatMap (regions : List Region) (F : Region → List Edge) (hnd : regions.Nodup)
    (hF : ∀ r ∈ regions, (F r).Nodup ∧ ∀ e ∈ F r, e.1 = r) :
    edgesOf regions (regions.flatMap F) = regions.flatMap F := by
  unfold edgesOf
  apply List.flatMap_congr
  intro u hu
  have hfil : (regions.flatMap F).filter (fun e => e.1 == u) = F u := by
    have gen : ∀ (l : List Region), l.Nodup → (∀ r ∈ l, ∀ e ∈ F r, e.1 = r) →
        (l.flatMap F).filter (fun e => e.1 == u) = if u ∈ l then F u else [] := by
      intro l
      induction l with
      | nil => intro _ _; simp
      | cons x xs ih =>
        intro hn hf
        obtain ⟨hx, hxs⟩ := List.nodup_cons.mp hn
        rw [List.flatMap_cons, List.filter_append, ih hxs (fun r hr => hf r (List.mem_cons_of_mem _ hr))]
        by_cases hxu : x = u
        · subst hxu
          have : (F x).filter (fun e => e.1 == x) = F x := by
            apply List.filter_eq_self.mpr
            intro e he
            simpa using hf x List.mem_cons_self e he
          rw [this, if_neg hx]
          simp
        · have : (F x).filter (fun e => e.1 == u) = [] := by
            apply List.filter_eq_nil_iff.mpr
            intro e he
            have := hf x List.mem_cons_self e he
            simp [this, hxu]
          rw [this]
          simp [Ne.symm hxu]
    rw [gen regions hnd (fun r hr => (hF r hr).2), if_pos hu]
  rw [hfil, dedup_of_nodup _ (hF u hu).1]

theorem edgesOf_coverEdges (regions : List Region) (hnd : regions.Nodup) :
    edgesOf regions (coverEdges regions) = coverEdges regions := by
  unfold coverEdges
  apply edgesOf_flatMap regions _ hnd
  intro r1 _
  constructor
  · refine List.Nodup.filterMap ?_ hnd
    intro a a' b hb hb'
    split at hb <;> split at hb' <;> simp_all
    have := hb.trans hb'.symm
    exact (Prod.mk.inj this).2
  · intro e he
    exact coverEdges_fst regions (fun r1 r2 => ssubset r2 r1 && !regions.any (fun r3 => ssubset r2 r3 && ssubset r3 r1)) r1 e he

/-! ## `min_edges` -/

theorem inter_nonempty (a b : List Region) :
    decide ((RGG.setInter (RGG.pySet a) (RGG.pySet b)).length > 0) = a.any (fun x => b.contains x) := by
  unfold RGG.setInter RGG.pySet
  rw [Bool.eq_iff_iff]
  simp only [decide_eq_true_eq, List.length_pos_iff, List.any_eq_true, List.contains_iff_mem]
  constructor
  · intro h
    obtain ⟨x, hx⟩ := List.exists_mem_of_ne_nil _ h
    obtain ⟨h1, h2⟩ := List.mem_filter.mp hx
    refine ⟨x, (mem_dedup _ _).mp h1, ?_⟩
    have := (List.contains_iff_mem).mp h2
    exact (mem_dedup _ _).mp this
  · rintro ⟨x, h1, h2⟩
    apply List.ne_nil_of_mem (a := x)
    apply List.mem_filter.mpr
    exact ⟨(mem_dedup _ _).mpr h1, List.contains_iff_mem.mpr ((mem_dedup _ _).mpr h2)⟩

theorem foldl_append_flatMap {β γ : Type} (F : β → List γ) (l : List β) (a : List γ) :
    l.foldl (fun acc x => acc ++ F x) a = a ++ l.flatMap F := by
  induction l generalizing a with
  | nil => simp
  | cons x xs ih => rw [List.foldl_cons, ih]; simp

/-- lines 148-159 as regenerated (for given `parents` / `ancestors` dictionaries) are the model's `minEdges` -/
theorem minFold_eq (regions : List Region) (parents ancestors : List (Region × List Region)) :
    regions.foldl (fun (min_edges : List Edge) (r : Region) =>
      min_edges ++ (((RG.look parents r).foldl (fun (canonical : List Region) (u : Region) =>
        RGG.setAdd canonical (RG.DS.find
          ((GM.combos2 (RG.look parents r)).foldl (fun (ds : RG.DS) (uv : Edge) =>
            if (decide ((List.length (RGG.setInter (RGG.pySet (RG.look ancestors uv.1)) (RGG.pySet (RG.look ancestors uv.2)))) > 0))
            then RG.DS.union ds uv.1 uv.2 else ds)
            ((RG.look parents r).foldl (fun (ds : RG.DS) (u : Region) => RG.DS.touch ds u) {})) u)) []).map (fun u => (u, r)))) []
      = minEdges regions parents ancestors := by
  rw [foldl_append_flatMap]
  unfold minEdges
  rw [List.nil_append]
  apply List.flatMap_congr
  intro r _
  simp only [inter_nonempty]
  congr 1
  unfold RG.dedup
  rw [List.foldl_map]
  rfl

/-! ## the keys stored into `self.messages` -/

theorem nodup_pairs_flatMap (l : List Region) (ch : Region → List Region) (hl : l.Nodup) (hc : ∀ r ∈ l, (ch r).Nodup) :
    (l.flatMap (fun ru => (ch ru).map (fun rd => (ru, rd)))).Nodup := by
  refine List.nodup_flatMap.2 ⟨?_, ?_⟩
  · intro r hr
    exact (hc r hr).map (fun a b h => (Prod.mk.inj h).2)
  · refine hl.imp ?_
    intro a b hne x h1 h2
    obtain ⟨_, _, e1⟩ := List.mem_map.mp h1
    obtain ⟨_, _, e2⟩ := List.mem_map.mp h2
    apply hne
    have := congrArg Prod.fst (e1.trans e2.symm)
    exact this

theorem keys_nodup (es : List Edge) (hn : es.Nodup) (hs : ∀ e ∈ es, (e.2, e.1) ∉ es) :
    (es.flatMap edgeKeys).Nodup := by
  induction es with
  | nil => simp
  | cons e es ih =>
    obtain ⟨he, hes⟩ := List.nodup_cons.mp hn
    have ih' := ih hes (fun x hx h => hs x (List.mem_cons_of_mem _ hx) (List.mem_cons_of_mem _ h))
    have hne : (e.1, e.2) ≠ (e.2, e.1) := by
      intro h
      have h1 : e.1 = e.2 := (Prod.mk.inj h).1
      apply hs e List.mem_cons_self
      have : (e.2, e.1) = e := Prod.ext h1.symm h1
      rw [this]
      exact List.mem_cons_self
    have mem_keys : ∀ (k : Edge), k ∈ es.flatMap edgeKeys → k ∈ es ∨ (k.2, k.1) ∈ es := by
      intro k hk
      obtain ⟨x, hx, hkx⟩ := List.mem_flatMap.mp hk
      unfold edgeKeys at hkx
      rcases List.mem_cons.mp hkx with h | h
      · left; rw [h]; exact hx
      · have h' := List.mem_singleton.mp h
        right; rw [h']; exact hx
    rw [List.flatMap_cons]
    unfold edgeKeys
    refine List.nodup_append.mpr ⟨?_, ih', ?_⟩
    · simp [hne]
    · intro a ha b hb hab
      subst hab
      rcases List.mem_cons.mp ha with h | h
      · subst h
        rcases mem_keys _ hb with h | h
        · exact he h
        · exact hs e List.mem_cons_self (List.mem_cons_of_mem _ h)
      · have h' := List.mem_singleton.mp h
        subst h'
        rcases mem_keys _ hb with h | h
        · exact hs e List.mem_cons_self (List.mem_cons_of_mem _ h)
        · exact he h

/-- on a graph that is `BuiltOK` no edge is stored twice or in both directions -/
theorem order_keys_nodup (regions : List Region) (children : List (Region × List Region)) (hnd : regions.Nodup)
    (hc : ∀ r ∈ regions, (RG.look children r).Nodup)
    (hin : ∀ r ∈ regions, ∀ c ∈ RG.look children r, c ∈ regions)
    (ha : ∀ p ∈ regions, ∀ c ∈ RG.look children p, p ∉ RG.look children c) :
    (((RG.sortByLen regions).flatMap (fun ru => (RG.look children ru).map (fun rd => (ru, rd)))).flatMap edgeKeys).Nodup := by
  apply keys_nodup
  · exact nodup_pairs_flatMap _ _ (sortByLen_nodup regions hnd) (fun r hr => hc r ((mem_sortByLen regions r).mp hr))
  · intro e he hrev
    obtain ⟨ru, hru, h1⟩ := List.mem_flatMap.mp he
    obtain ⟨rd, hrd, h2⟩ := List.mem_map.mp h1
    obtain ⟨ru', hru', h1'⟩ := List.mem_flatMap.mp hrev
    obtain ⟨rd', hrd', h2'⟩ := List.mem_map.mp h1'
    subst h2
    have e1 : ru' = rd := (Prod.mk.inj h2').1
    have e2 : rd' = ru := (Prod.mk.inj h2').2
    subst e1 e2
    exact ha rd' ((mem_sortByLen regions rd').mp hru) ru' hrd hrd'

end PGM.RGGen
