import PGM.Proofs.PublicE2EReal
/-!
# Helpers for C19E, part 3: the quadratic form `Cert.loss` / `Cert.grad` with `A = (Q · Inc)/noise` IS the measurement
loss and its gradient with respect to the record weights (records inside the domain)
-/
set_option linter.unusedVariables false
set_option linter.unusedSectionVars false
namespace PGM.Public
open PGM PGM.JT

/-- `⟨x, y⟩` on lists (truncating, as `zip`) -/
noncomputable def dotR (x y : List ℝ) : ℝ := (List.zipWith (· * ·) x y).sum

@[simp] theorem dotR_nil_left (y : List ℝ) : dotR [] y = 0 := by simp [dotR]
@[simp] theorem dotR_nil_right (x : List ℝ) : dotR x [] = 0 := by simp [dotR]
@[simp] theorem dotR_cons (a b : ℝ) (x y : List ℝ) : dotR (a :: x) (b :: y) = a * b + dotR x y := by simp [dotR]

theorem dotR_add_left (a b x : List ℝ) (h : a.length = b.length) :
    dotR (List.zipWith (· + ·) a b) x = dotR a x + dotR b x := by
  induction a generalizing b x with
  | nil => cases b <;> simp at h ⊢
  | cons a0 a ih =>
    cases b with
    | nil => simp at h
    | cons b0 b =>
      cases x with
      | nil => simp
      | cons x0 x =>
        simp only [List.zipWith_cons_cons, dotR_cons, ih b x (by simpa using h)]
        ring

theorem dotR_map_mul_left (c : ℝ) (r x : List ℝ) : dotR (r.map (fun t => t * c)) x = c * dotR r x := by
  induction r generalizing x with
  | nil => simp
  | cons r0 r ih =>
    cases x with
    | nil => simp
    | cons x0 x => simp only [List.map_cons, dotR_cons, ih x]; ring

theorem dotR_replicate_zero (n : Nat) (x : List ℝ) : dotR (List.replicate n (0 : ℝ)) x = 0 := by
  induction n generalizing x with
  | zero => simp
  | succ n ih => cases x <;> simp [List.replicate_succ, ih]

/-- `⟨Aᵀ q, x⟩ = ⟨q, A x⟩` for a matrix with rows of length `n` -/
theorem adjointR (A : List (List ℝ)) (n : Nat) (q x : List ℝ) (hA : ∀ row ∈ A, row.length = n) :
    dotR ((List.range n).map (fun i => (List.zipWith (fun (row : List ℝ) v => row.getD i 0 * v) A q).sum)) x
      = dotR q (A.map (fun row => dotR row x)) := by
  induction A generalizing q with
  | nil => simp [dotR_replicate_zero]
  | cons row A ih =>
    cases q with
    | nil => simp [dotR_replicate_zero]
    | cons v q =>
      have hrow : row.length = n := hA row (by simp)
      have hsplit : (List.range n).map (fun i =>
            (List.zipWith (fun (row : List ℝ) v => row.getD i 0 * v) (row :: A) (v :: q)).sum)
          = List.zipWith (· + ·) ((List.range n).map (fun i => row.getD i 0 * v))
              ((List.range n).map (fun i => (List.zipWith (fun (row : List ℝ) v => row.getD i 0 * v) A q).sum)) := by
        rw [PGM.zipWith_map_map]
        apply List.map_congr_left
        intro i _
        simp
      have hfirst : (List.range n).map (fun i => row.getD i 0 * v) = row.map (fun t => t * v) := by
        have := PGM.map_getD_range row (0 : ℝ)
        rw [hrow] at this
        conv => rhs; rw [← this]
        rw [List.map_map]; rfl
      rw [hsplit, dotR_add_left _ _ _ (by simp), hfirst, dotR_map_mul_left,
        ih q (fun r hr => hA r (List.mem_cons_of_mem _ hr))]
      simp

theorem zipWith_sub_map_div (u y : List ℝ) (s : ℝ) :
    List.zipWith (· - ·) (u.map (fun v => v / s)) (y.map (fun v => v / s))
      = (List.zipWith (· - ·) u y).map (fun v => v / s) := by
  induction u generalizing y with
  | nil => simp
  | cons a u ih =>
    cases y with
    | nil => simp
    | cons b y => simp [ih, sub_div]

theorem incidence_row_length (pub : Dataset ℝ) (cl : Clique) : ∀ row ∈ incidence pub cl, row.length = pub.records := by
  intro row h
  simp only [incidence, List.mem_map] at h
  obtain ⟨c, _, rfl⟩ := h
  simp [Dataset.records]

/-- the residual of the quadratic form is the noise-scaled residual at the weighted contingency table -/
theorem cert_resid_quad (pub : Dataset ℝ) (m : Loss.Meas ℝ) (w : List ℝ) (hD : pub.dom.WF) (hin : pub.InDomain)
    (hsub : ∀ a ∈ m.proj, a ∈ pub.dom.attrs) (hw : w.length = pub.records) :
    Cert.resid (m.Q.map (fun q => (Loss.matTVec (incidence pub m.proj) pub.records q).map (fun v => v / m.noise)))
        (m.y.map (fun v => v / m.noise)) w
      = resid m (table pub w m.proj) := by
  unfold Cert.resid Cert.matVec resid
  rw [List.map_map, table_linear pub w m.proj hD hin hsub hw]
  have hq : ∀ q : List ℝ,
      Cert.dot ((Loss.matTVec (incidence pub m.proj) pub.records q).map (fun v => v / m.noise)) w
        = dotR q ((incidence pub m.proj).map (fun row => dotR row w)) / m.noise := by
    intro q
    have h1 : Cert.dot ((Loss.matTVec (incidence pub m.proj) pub.records q).map (fun v => v / m.noise)) w
        = dotR ((Loss.matTVec (incidence pub m.proj) pub.records q).map (fun t => t * m.noise⁻¹)) w := by
      unfold Cert.dot dotR
      simp only [r_sum, div_eq_mul_inv]
      rfl
    have h2 : Loss.matTVec (incidence pub m.proj) pub.records q
        = (List.range pub.records).map (fun i =>
            (List.zipWith (fun (row : List ℝ) v => row.getD i 0 * v) (incidence pub m.proj) q).sum) := by
      unfold Loss.matTVec
      apply List.map_congr_left
      intro i _
      simp only [r_sum]
      rfl
    rw [h1, dotR_map_mul_left, h2, adjointR _ _ _ _ (incidence_row_length pub m.proj)]
    rw [div_eq_mul_inv, mul_comm]
  have hmap : (m.Q.map ((fun r => Cert.dot r w) ∘
      fun q => (Loss.matTVec (incidence pub m.proj) pub.records q).map (fun v => v / m.noise)))
      = (m.Q.map (fun q => dotR q ((incidence pub m.proj).map (fun row => dotR row w)))).map (fun v => v / m.noise) := by
    rw [List.map_map]
    apply List.map_congr_left
    intro q _
    exact hq q
  rw [hmap, r_sub_fun, zipWith_sub_map_div]
  rfl

/-- **`Public.lossgradQuad`, loss**: the quadratic form of the driver / the hand model, with `A = (Q·Inc)/noise`, is
the L2 measurement loss -/
theorem lossgradQuad_loss (pub : Dataset ℝ) (ms : List (Loss.Meas ℝ)) (w : List ℝ) (H : InDom pub ms)
    (hw : w.length = pub.records) :
    (lossgradQuad (quadMs pub ms) w).1 = measLossL2 pub ms w := by
  show Cert.loss (quadMs pub ms) w = _
  unfold Cert.loss quadMs measLossL2
  rw [List.map_map, r_sum]
  congr 1
  apply List.map_congr_left
  intro m hm
  simp only [Function.comp]
  rw [cert_resid_quad pub m w H.wf H.rows (H.cl m hm).2 hw]
  have hhalf : (Cert.half : ℝ) = 1 / 2 := by
    unfold Cert.half; simp only [r_div, r_one, r_add]; norm_num
  have hdot : Cert.dot (resid m (table pub w m.proj)) (resid m (table pub w m.proj))
      = ((resid m (table pub w m.proj)).map (fun d => d ^ 2)).sum := by
    unfold Cert.dot
    rw [r_sum, ← zipWith_mul_self]
    rfl
  rw [r_mul, hhalf, hdot]


/-! ### the gradient of the quadratic form -/

theorem sum_zip_zero (cs : List (List Nat)) (c0 : List Nat) (h : ∀ c ∈ cs, c0 ≠ c) (q : List ℝ) :
    (List.zipWith (fun (c : List Nat) v => (if c0 = c then (1 : ℝ) else 0) * v) cs q).sum = 0 := by
  induction cs generalizing q with
  | nil => simp
  | cons c cs ih =>
    cases q with
    | nil => simp
    | cons v q =>
      simp only [List.zipWith_cons_cons, List.sum_cons, if_neg (h c (by simp)), zero_mul, zero_add]
      exact ih (fun c' h' => h c' (List.mem_cons_of_mem _ h')) q

/-- a column of the incidence matrix picks one entry of a row of `Q` -/
theorem sum_zip_indicator (cs : List (List Nat)) (hnd : cs.Nodup) (c0 : List Nat) (j0 : Nat)
    (h : cs[j0]? = some c0) (q : List ℝ) :
    (List.zipWith (fun (c : List Nat) v => (if c0 = c then (1 : ℝ) else 0) * v) cs q).sum = q.getD j0 0 := by
  induction cs generalizing j0 q with
  | nil => simp at h
  | cons c cs ih =>
    rw [List.nodup_cons] at hnd
    cases q with
    | nil => simp
    | cons v q =>
      cases j0 with
      | zero =>
        simp only [List.getElem?_cons_zero, Option.some.injEq] at h
        subst h
        simp only [List.zipWith_cons_cons, List.sum_cons, if_true, one_mul, List.getD_cons_zero]
        rw [sum_zip_zero cs c (fun c' h' e => hnd.1 (e ▸ h')) q, add_zero]
      | succ j =>
        simp only [List.getElem?_cons_succ] at h
        have hne : c0 ≠ c := by
          intro e; subst e
          exact hnd.1 (List.mem_of_getElem? h)
        simp only [List.zipWith_cons_cons, List.sum_cons, if_neg hne, zero_mul, zero_add, List.getD_cons_succ]
        exact ih hnd.2 j h q

theorem zipWith_congr_mem {β γ δ : Type} (f g : β → γ → δ) (l : List β) (r : List γ)
    (h : ∀ q ∈ l, ∀ v, f q v = g q v) : List.zipWith f l r = List.zipWith g l r := by
  induction l generalizing r with
  | nil => simp
  | cons q l ih =>
    cases r with
    | nil => simp
    | cons v r =>
      simp only [List.zipWith_cons_cons, h q (by simp) v, ih r (fun q' h' => h q' (List.mem_cons_of_mem _ h'))]

theorem sum_zipWith_div {β : Type} (f : β → ℝ) (s : ℝ) (Q : List β) (r : List ℝ) :
    (List.zipWith (fun q v => f q / s * v) Q r).sum = (List.zipWith (fun q v => f q * v) Q r).sum / s := by
  induction Q generalizing r with
  | nil => simp
  | cons q Q ih =>
    cases r with
    | nil => simp
    | cons v r => simp only [List.zipWith_cons_cons, List.sum_cons, ih r]; ring

theorem cellOn_inRange (pub : Dataset ℝ) (cl : Clique) (hD : pub.dom.WF) (hin : pub.InDomain)
    (hsub : ∀ a ∈ cl, a ∈ pub.dom.attrs) (r : List Int) (hr : r ∈ pub.rows) :
    InRange (pub.dom.project cl).shape (cellOn pub.dom cl r) := by
  rw [Dom.shape_project]
  apply NdArr.inRange_map
  intro a ha
  exact ((Dataset.rowIn_attr pub.dom hD r (hin r hr)).2 a (hsub a ha)).2

/-- entry `i` of `Aᵀ v` for `A = (Q·Inc)/noise`: the entry of `Qᵀ v / noise` at the cell of record `i` -/
theorem quad_matTVec_entry (pub : Dataset ℝ) (m : Loss.Meas ℝ) (v : List ℝ) (hD : pub.dom.WF) (hin : pub.InDomain)
    (hsub : ∀ a ∈ m.proj, a ∈ pub.dom.attrs) (n : Nat) (hn : n = pub.records) (i : Nat) (hi : i < pub.rows.length) :
    (Cert.matTVec (m.Q.map (fun q => (Loss.matTVec (incidence pub m.proj) pub.records q).map (fun v => v / m.noise)))
        n v).getD i 0
      = (List.zipWith (fun (row : List ℝ) d => row.getD
          (ravel (pub.dom.project m.proj).shape (cellOn pub.dom m.proj (pub.rows.getD i []))) 0 * d) m.Q v).sum
          / m.noise := by
  have hin' : i < n := by rw [hn]; exact hi
  have hri : pub.rows.getD i [] = pub.rows[i] := by
    simp [List.getD_eq_getElem?_getD, List.getElem?_eq_getElem hi]
  have hrange := cellOn_inRange pub m.proj hD hin hsub (pub.rows.getD i []) (by rw [hri]; exact List.getElem_mem hi)
  unfold Cert.matTVec
  rw [List.getD_eq_getElem?_getD, List.getElem?_map, List.getElem?_range hin']
  simp only [Option.map_some, Option.getD_some, r_sum, List.zipWith_map_left]
  rw [← sum_zipWith_div]
  congr 1
  apply zipWith_congr_mem
  intro q _ d
  congr 1
  have hiN : i < pub.records := hi
  rw [List.getD_eq_getElem?_getD, List.getElem?_map]
  unfold Loss.matTVec
  rw [List.getElem?_map, List.getElem?_range hiN]
  simp only [Option.map_some, Option.getD_some, r_sum, incidence, List.zipWith_map_left]
  congr 1
  have hcol : ∀ c : List Nat, (pub.rows.map (fun r => if cellOn pub.dom m.proj r = c then (1 : ℝ) else 0)).getD i
      Scalar.zero = if cellOn pub.dom m.proj (pub.rows.getD i []) = c then 1 else 0 := by
    intro c
    simp [List.getD_eq_getElem?_getD, List.getElem?_map, List.getElem?_eq_getElem hi]
  rw [← sum_zip_indicator _ (Dataset.nodup_cells _) _ _ (cells_getElem_ravel _ _ hrange) q]
  congr 1
  apply zipWith_congr_mem
  intro c _ v'
  rw [hcol c]
  rfl


theorem cert_grad_length (ms' : List (List (List ℝ) × List ℝ)) (p : List ℝ) : (Cert.grad ms' p).length = p.length := by
  unfold Cert.grad
  apply foldl_zipWith_length
  · simp
  · intro m; simp [Cert.matTVec]

/-- **`Public.lossgradQuad`, gradient**: the gradient of the quadratic form is the chain-rule gradient of the L2
measurement loss with respect to the record weights -/
theorem lossgradQuad_grad (pub : Dataset ℝ) (ms : List (Loss.Meas ℝ)) (w : List ℝ) (H : InDom pub ms)
    (hw : w.length = pub.records) :
    (lossgradQuad (quadMs pub ms) w).2 = measGrad (fun d => d) pub ms w := by
  show Cert.grad (quadMs pub ms) w = _
  apply list_ext_getD _ _ pub.rows.length (by rw [cert_grad_length]; exact hw) (by simp [measGrad])
  intro i hi
  unfold Cert.grad quadMs
  rw [List.foldl_map]
  have hfun : ∀ (g : List ℝ), ∀ m ∈ ms,
      List.zipWith Scalar.add g (Cert.matTVec
          (m.Q.map (fun q => (Loss.matTVec (incidence pub m.proj) pub.records q).map (fun v => v / m.noise))) w.length
          (Cert.resid (m.Q.map (fun q => (Loss.matTVec (incidence pub m.proj) pub.records q).map (fun v => v / m.noise)))
            (m.y.map (fun v => v / m.noise)) w))
      = List.zipWith Scalar.add g (Cert.matTVec
          (m.Q.map (fun q => (Loss.matTVec (incidence pub m.proj) pub.records q).map (fun v => v / m.noise))) w.length
          (resid m (table pub w m.proj))) := by
    intro g m hm
    rw [cert_resid_quad pub m w H.wf H.rows (H.cl m hm).2 hw]
  rw [Dataset.foldl_congr_mem _ _ _ _ hfun]
  have hfold := foldl_zipWith_getD (fun m : Loss.Meas ℝ => Cert.matTVec
      (m.Q.map (fun q => (Loss.matTVec (incidence pub m.proj) pub.records q).map (fun v => v / m.noise))) w.length
      (resid m (table pub w m.proj))) pub.rows.length ms (w.map (fun _ => (Scalar.zero : ℝ)))
    (by simp; exact hw) (by intro m; simp [Cert.matTVec]; exact hw) i hi
  rw [show (0 : ℝ) = Scalar.zero from rfl, hfold]
  have h0 : (w.map (fun _ => (Scalar.zero : ℝ))).getD i Scalar.zero = Scalar.zero := by
    have hiw : i < w.length := by rw [hw]; exact hi
    simp [List.getD_eq_getElem?_getD, hiw]
  rw [h0, foldl_add_map]
  have hr : (measGrad (fun d => d) pub ms w).getD i Scalar.zero
      = (ms.map (fun m => (tabGrad (fun d => d) m (table pub w m.proj)).getD
          (ravel (pub.dom.project m.proj).shape (cellOn pub.dom m.proj (pub.rows.getD i []))) 0)).sum := by
    simp [measGrad, List.getD_eq_getElem?_getD, List.getElem?_map, List.getElem?_eq_getElem hi]
  rw [hr]
  congr 1
  apply List.map_congr_left
  intro m hm
  have hsub := (H.cl m hm).2
  rw [show (Scalar.zero : ℝ) = 0 from rfl,
    quad_matTVec_entry pub m _ H.wf H.rows hsub w.length hw i hi]
  -- the entry of `tabGrad` at the record's cell
  have hri : pub.rows.getD i [] ∈ pub.rows := by
    simp only [List.getD_eq_getElem?_getD, List.getElem?_eq_getElem hi, Option.getD_some]
    exact List.getElem_mem hi
  have hlt : ravel (pub.dom.project m.proj).shape (cellOn pub.dom m.proj (pub.rows.getD i []))
      < (table pub w m.proj).length := by
    have := ravel_lt _ _ (cellOn_inRange pub m.proj H.wf H.rows hsub _ hri)
    unfold table
    rw [Dataset.datavector_length]
    exact this
  generalize ravel (pub.dom.project m.proj).shape (cellOn pub.dom m.proj (pub.rows.getD i [])) = j0 at hlt ⊢
  unfold tabGrad
  rw [List.getD_eq_getElem?_getD, List.getElem?_map, List.getElem?_range hlt]
  rfl

end PGM.Public
