import PGM.Proofs.Semantics
import PGM.Proofs.VECorrect
import PGM.Proofs.BPFactor
import PGM.Model.Solvers
/-! statements for C10 (structural zeros), `LogOf K` reading: exp-space value 0 is log-space `-∞` -/
namespace PGM.Zeros
open PGM PGM.JT PGM.Sem
variable {K : Type} [Field K] [LinearOrder K] [IsStrictOrderedRing K]

/-- a declared structural zero: attributes `zc` (a duplicate-free tuple of domain attributes) with
the impossible cells `cells` -/
structure ZeroSpec where
  zc : List Attr
  cells : List (List Nat)

/-- `τ` extends a declared cell of the specification -/
def Hits (z : ZeroSpec) (τ : Attr → Nat) : Prop := z.zc.map τ ∈ z.cells

/-- the structural-zero clique vector built by `FactoredInference.__init__` -/
def zeroVec (d : Dom) (zs : List ZeroSpec) : CliqueVec (LogOf K) :=
  zs.map (fun z => (z.zc, Factor.active (⟨0⟩ : LogOf K) (d.project z.zc) z.cells))

/-! ### helpers -/
set_option linter.unusedSectionVars false
set_option linter.unusedVariables false

theorem project_WF (d : Dom) (as : List Attr) (h : as.Nodup) : (d.project as).WF := by
  unfold Dom.WF; rw [Dom.attrs_project]; exact h

theorem project_valid (d : Dom) (hd : d.WF) (as : List Attr) (hsub : ∀ a ∈ as, a ∈ d.attrs)
    (τ : Attr → Nat) (hτ : d.Valid τ) : (d.project as).Valid τ := by
  intro p hp
  simp only [Dom.project, List.mem_map] at hp
  obtain ⟨a, ha, rfl⟩ := hp
  exact (Dom.valid_iff d hd τ).mp hτ a (hsub a ha)

theorem active_dom (x : LogOf K) (D : Dom) (cs : List (List Nat)) : (Factor.active x D cs).dom = D := rfl

theorem active_WF (x : LogOf K) (d : Dom) (zc : List Attr) (cs : List (List Nat)) (hnd : zc.Nodup) :
    (Factor.active x (d.project zc) cs).WF := by
  refine ⟨project_WF d zc hnd, rfl, ?_⟩
  exact NdArr.ofFn_WF _ _

theorem active_sem' (x : LogOf K) (d : Dom) (zc : List Attr) (cs : List (List Nat)) (τ : Attr → Nat)
    (hd : d.WF) (hsub : ∀ a ∈ zc, a ∈ d.attrs) (hτ : d.Valid τ) :
    (Factor.active x (d.project zc) cs).sem τ
      = if cs.contains (zc.map τ) then x else Scalar.zero := by
  show ((NdArr.ofFn (d.project zc).shape _).reshape (d.project zc).shape).get
    ((d.project zc).attrs.map τ) = _
  rw [Factor.get_reshape_of_shape_eq _ _ (NdArr.ofFn_shape _ _), Dom.attrs_project, NdArr.get_ofFn]
  rw [Dom.shape_project]
  exact NdArr.inRange_map _ _ _ (fun a ha => (Dom.valid_iff d hd τ).mp hτ a (hsub a ha))

/-- exp-space indicator of a zero specification -/
noncomputable def ind (z : ZeroSpec) (τ : Attr → Nat) : K :=
  open Classical in if Hits z τ then (0 : K) else 1

theorem active_ind (d : Dom) (z : ZeroSpec) (τ : Attr → Nat) (hd : d.WF)
    (hsub : ∀ a ∈ z.zc, a ∈ d.attrs) (hτ : d.Valid τ) :
    ((Factor.active (⟨0⟩ : LogOf K) (d.project z.zc) z.cells).sem τ).v = ind z τ := by
  rw [active_sem' _ d z.zc z.cells τ hd hsub hτ]
  unfold ind Hits
  by_cases h : z.zc.map τ ∈ z.cells
  · rw [if_pos (List.contains_iff_mem.mpr h), if_pos h]
  · rw [if_neg (fun hc => h (List.contains_iff_mem.mp hc)), if_neg h]; rfl

theorem zeros_WF (D : Dom) (hD : D.WF) : (Factor.zeros D : Factor (LogOf K)).WF := by
  refine ⟨hD, rfl, ?_⟩
  show (Array.replicate (size D.shape) (Scalar.zero : LogOf K)).size = size D.shape
  simp

theorem zeros_sem (D : Dom) (τ : Attr → Nat) : ((Factor.zeros D : Factor (LogOf K)).sem τ).v = 1 := by
  show ((Array.replicate (size D.shape) (Scalar.zero : LogOf K)).getD
    (ravel D.shape (D.attrs.map τ)) default).v = 1
  rw [Array.getD_eq_getD_getElem?]
  by_cases h : ravel D.shape (D.attrs.map τ) < size D.shape
  · simp [h]; rfl
  · simp [h]; rfl

theorem joint_zerosV (d : Dom) (cliques : List Clique) (τ : Attr → Nat) :
    joint (K := K) (CliqueVec.zerosV d cliques) τ = 1 := by
  unfold joint CliqueVec.zerosV
  rw [List.map_map]
  apply List.prod_eq_one
  intro x hx
  obtain ⟨c, _, rfl⟩ := List.mem_map.mp hx
  exact zeros_sem _ τ

/-! ### `addV` -/

theorem lookup_addV (theta h : CliqueVec (LogOf K)) (c : Clique) :
    (CliqueVec.addV theta h).lookup c = (theta.lookup c).map (fun f => f.add (h.get c)) := by
  induction theta with
  | nil => rfl
  | cons p ps ih =>
    obtain ⟨k, v⟩ := p
    show List.lookup c ((k, v.add (h.get k)) :: CliqueVec.addV ps h) = _
    simp only [List.lookup_cons]
    by_cases hk : c = k
    · subst hk; simp
    · have : (c == k) = false := by simpa using hk
      rw [this]; exact ih

theorem get_addV (theta h : CliqueVec (LogOf K)) (c : Clique) (hc : c ∈ theta.map Prod.fst) :
    (CliqueVec.addV theta h).get c = (theta.get c).add (h.get c) := by
  obtain ⟨f, hf, _⟩ := BP.lookup_isSome_of_mem theta c hc
  unfold CliqueVec.get
  rw [lookup_addV, hf]
  rfl

/-! ### products with one replaced entry -/

theorem prod_replace {ι : Type} (key : ι → Clique) (l : List ι) (hnd : (l.map key).Nodup) (p : ι) (hp : p ∈ l)
    (F G : ι → K) (x : K) (hFG : ∀ q ∈ l, key q ≠ key p → F q = G q) (hx : F p = G p * x) :
    (l.map F).prod = (l.map G).prod * x := by
  induction l with
  | nil => simp at hp
  | cons q qs ih =>
    rw [List.map_cons, List.nodup_cons] at hnd
    obtain ⟨hq, hqs⟩ := hnd
    simp only [List.map_cons, List.prod_cons]
    by_cases hpq : key q = key p
    · have hpq' : p = q := by
        rcases List.mem_cons.mp hp with h | h
        · exact h
        · exact absurd (hpq ▸ List.mem_map_of_mem h) hq
      subst hpq'
      have : qs.map F = qs.map G := by
        apply List.map_congr_left
        intro r hr
        apply hFG r (List.mem_cons_of_mem _ hr)
        intro h
        exact hq (h ▸ List.mem_map_of_mem hr)
      rw [this, hx]; ring
    · have hp' : p ∈ qs := by
        rcases List.mem_cons.mp hp with h | h
        · exact absurd (h ▸ rfl) hpq
        · exact h
      rw [hFG q (by simp) hpq, ih hqs hp' (fun r hr => hFG r (List.mem_cons_of_mem _ hr)), mul_assoc]

/-! ### `combine` as a fold of single installations -/

/-- one iteration of `CliqueVector.combine` -/
def step (acc : CliqueVec (LogOf K)) (o : Clique × Factor (LogOf K)) : CliqueVec (LogOf K) :=
  match acc.find? (fun p => JT.subset o.1 p.1) with
  | some p => acc.set p.1 (p.2.iadd o.2)
  | none => acc

theorem combine_eq (self other : CliqueVec (LogOf K)) :
    CliqueVec.combine self other = other.foldl step self := by
  unfold CliqueVec.combine
  congr 1
  funext acc o
  unfold step
  cases acc.find? (fun p => JT.subset o.1 p.1) <;> rfl

/-- the fold invariant: keys are the model cliques, each table is well-formed over its clique -/
def VecOK (d : Dom) (cliques : List Clique) (b : CliqueVec (LogOf K)) : Prop :=
  b.map Prod.fst = cliques ∧ ∀ p ∈ b, p.2.WF ∧ p.2.dom = d.project p.1

theorem step_spec (d : Dom) (cliques : List Clique) (acc : CliqueVec (LogOf K)) (z : ZeroSpec)
    (τ : Attr → Nat) (hd : d.WF) (hcl : ∀ c ∈ cliques, c.Nodup ∧ ∀ a ∈ c, a ∈ d.attrs)
    (hcn : cliques.Nodup) (hacc : VecOK d cliques acc)
    (hz : z.zc.Nodup ∧ (∀ a ∈ z.zc, a ∈ d.attrs) ∧ ∃ c ∈ cliques, JT.subset z.zc c = true)
    (hτ : d.Valid τ) :
    VecOK d cliques (step acc (z.zc, Factor.active (⟨0⟩ : LogOf K) (d.project z.zc) z.cells)) ∧
    joint (step acc (z.zc, Factor.active (⟨0⟩ : LogOf K) (d.project z.zc) z.cells)) τ
      = joint acc τ * ind z τ := by
  obtain ⟨hznd, hzsub, c, hc, hsubc⟩ := hz
  obtain ⟨hkeys, hent⟩ := hacc
  unfold step
  cases hfind : acc.find? (fun p => JT.subset z.zc p.1) with
  | none =>
    exfalso
    rw [← hkeys] at hc
    obtain ⟨q, hq, rfl⟩ := List.mem_map.mp hc
    have := List.find?_eq_none.mp hfind q hq
    exact this hsubc
  | some p =>
    have hp : p ∈ acc := List.mem_of_find?_eq_some hfind
    have hps : JT.subset z.zc p.1 = true :=
      List.find?_some (p := fun q : Clique × Factor (LogOf K) => JT.subset z.zc q.1) hfind
    have hkey : p.1 ∈ acc.map Prod.fst := List.mem_map_of_mem hp
    obtain ⟨hpw, hpd⟩ := hent p hp
    obtain ⟨hpnd, hpsub⟩ := hcl p.1 (hkeys ▸ hkey)
    have hactw := active_WF (⟨0⟩ : LogOf K) d z.zc z.cells hznd
    have hcont : p.2.dom.contains (Factor.active (⟨0⟩ : LogOf K) (d.project z.zc) z.cells).dom = true := by
      rw [active_dom, hpd, Dom.contains_iff, Dom.attrs_project, Dom.attrs_project]
      exact (JT.subset_iff _ _).mp hps
    have hagr : (Factor.active (⟨0⟩ : LogOf K) (d.project z.zc) z.cells).dom.Agrees p.2.dom := by
      rw [active_dom, hpd]
      intro q hq
      simp only [Dom.project, List.mem_map] at hq
      obtain ⟨a, ha, rfl⟩ := hq
      exact Dom.cfg_project d p.1 a ((JT.subset_iff _ _).mp hps a ha)
    have hval : p.2.dom.Valid τ := by
      rw [hpd]; exact project_valid d hd p.1 hpsub τ hτ
    have hfw := BP.iop_WF Scalar.add p.2 _ hpw hactw hcont hagr
    have hfsem : (((p.2.iadd (Factor.active (⟨0⟩ : LogOf K) (d.project z.zc) z.cells)).sem τ).v)
        = (p.2.sem τ).v * ind z τ := by
      show ((Factor.iop Scalar.add p.2 _).sem τ).v = _
      rw [Factor.sem_iop Scalar.add p.2 _ τ hpw hactw hcont hagr hval, BP.log_add_v,
        active_ind d z τ hd hzsub hτ]
    show VecOK d cliques (acc.set p.1 _) ∧ joint (acc.set p.1 _) τ = _
    unfold CliqueVec.set
    rw [if_pos ((BP.any_key_iff acc p.1).mpr hkey)]
    refine ⟨⟨?_, ?_⟩, ?_⟩
    · rw [BP.keys_replace, hkeys]
    · intro r hr
      obtain ⟨q, hq, rfl⟩ := List.mem_map.mp hr
      by_cases hqp : q.1 = p.1
      · simp only [hqp, beq_self_eq_true, if_true]
        exact ⟨hfw, hpd⟩
      · have : (q.1 == p.1) = false := by simpa using hqp
        simp only [this]
        exact hent q hq
    · unfold joint
      rw [List.map_map]
      apply prod_replace Prod.fst acc (hkeys ▸ hcn) p hp
      · intro q hq hne
        have : (q.1 == p.1) = false := by simpa using hne
        simp [Function.comp, this]
      · simp only [Function.comp, beq_self_eq_true, if_true]
        exact hfsem

theorem foldl_step_spec (d : Dom) (cliques : List Clique) (zs : List ZeroSpec) (acc : CliqueVec (LogOf K))
    (τ : Attr → Nat) (hd : d.WF) (hcl : ∀ c ∈ cliques, c.Nodup ∧ ∀ a ∈ c, a ∈ d.attrs)
    (hcn : cliques.Nodup) (hacc : VecOK d cliques acc)
    (hz : ∀ z ∈ zs, z.zc.Nodup ∧ (∀ a ∈ z.zc, a ∈ d.attrs) ∧ ∃ c ∈ cliques, JT.subset z.zc c = true)
    (hτ : d.Valid τ) :
    VecOK d cliques ((zeroVec d zs).foldl step acc) ∧
    joint ((zeroVec d zs).foldl step acc) τ = joint acc τ * (zs.map (fun z => ind (K := K) z τ)).prod := by
  induction zs generalizing acc with
  | nil => exact ⟨hacc, by simp [zeroVec]⟩
  | cons z zs ih =>
    obtain ⟨h1, h2⟩ := step_spec d cliques acc z τ hd hcl hcn hacc (hz z (by simp)) hτ
    obtain ⟨h3, h4⟩ := ih _ h1 (fun z' hz' => hz z' (by simp [hz']))
    refine ⟨h3, ?_⟩
    show joint ((zeroVec d zs).foldl step (step acc _)) τ = _
    rw [h4, h2, List.map_cons, List.prod_cons, mul_assoc]

theorem prod_ind (zs : List ZeroSpec) (τ : Attr → Nat) :
    (zs.map (fun z => ind (K := K) z τ)).prod
      = (open Classical in if ∃ z ∈ zs, Hits z τ then (0 : K) else 1) := by
  classical
  induction zs with
  | nil => simp
  | cons z zs ih =>
    rw [List.map_cons, List.prod_cons, ih]
    unfold ind
    by_cases h : Hits z τ
    · simp [h]
    · simp [h]

theorem vecOK_zerosV (d : Dom) (cliques : List Clique)
    (hcl : ∀ c ∈ cliques, c.Nodup ∧ ∀ a ∈ c, a ∈ d.attrs) :
    VecOK (K := K) d cliques (CliqueVec.zerosV d cliques) := by
  refine ⟨?_, ?_⟩
  · unfold CliqueVec.zerosV
    rw [List.map_map]
    exact List.map_id' _ |>.symm ▸ (by simp)
  · intro p hp
    obtain ⟨c, hc, rfl⟩ := List.mem_map.mp hp
    exact ⟨zeros_WF _ (project_WF d c (hcl c hc).1), rfl⟩

/-! ### the C10 statements -/

/-- the indicator factor: exp-space 0 on declared cells, 1 elsewhere -/
theorem active_sem (d : Dom) (z : ZeroSpec) (τ : Attr → Nat) (hd : d.WF) (hnd : z.zc.Nodup)
    (hsub : ∀ a ∈ z.zc, a ∈ d.attrs) (hτ : d.Valid τ) :
    ((Factor.active (⟨0⟩ : LogOf K) (d.project z.zc) z.cells).sem τ).v
      = (open Classical in if Hits z τ then (0 : K) else 1) :=
  active_ind d z τ hd hsub hτ

/-- **zeros are installed** (`_setup`): after combining the zero potentials with the structural
zeros — every zero clique being inside some model clique — the product of the potentials vanishes at
every joint assignment extending a declared cell, and is 1 elsewhere -/
theorem zeros_installed (d : Dom) (cliques : List Clique) (zs : List ZeroSpec) (τ : Attr → Nat)
    (hd : d.WF) (hcl : ∀ c ∈ cliques, c.Nodup ∧ ∀ a ∈ c, a ∈ d.attrs) (hcn : cliques.Nodup)
    (hz : ∀ z ∈ zs, z.zc.Nodup ∧ (∀ a ∈ z.zc, a ∈ d.attrs) ∧ ∃ c ∈ cliques, JT.subset z.zc c = true)
    (hτ : d.Valid τ) :
    joint (K := K) (CliqueVec.combine (CliqueVec.zerosV d cliques) (zeroVec d zs)) τ
      = (open Classical in if ∃ z ∈ zs, Hits z τ then (0 : K) else 1) := by
  rw [combine_eq,
    (foldl_step_spec d cliques zs _ τ hd hcl hcn (vecOK_zerosV d cliques hcl) hz hτ).2,
    joint_zerosV, one_mul, prod_ind]

/-- **additive parameter updates preserve zeros** (mirror descent `θ − α·dL`, interior gradient
`θ − (a/c/total)·g`, warm-start `combine`): adding *any* vector to the parameters multiplies the
exp-space value cell by cell, so a zero cell stays zero -/
theorem update_preserves_zeros (d : Dom) (theta h : CliqueVec (LogOf K)) (c : Clique) (τ : Attr → Nat)
    (hd : d.WF) (hθ : (theta.get c).WF ∧ (theta.get c).dom.Agrees d ∧ ∀ a ∈ (theta.get c).dom.attrs, a ∈ d.attrs)
    (hh : (h.get c).WF ∧ (h.get c).dom.Agrees d ∧ ∀ a ∈ (h.get c).dom.attrs, a ∈ (theta.get c).dom.attrs)
    (hc : c ∈ theta.map Prod.fst) (hτ : d.Valid τ) :
    (((CliqueVec.addV theta h).get c).sem τ).v = ((theta.get c).sem τ).v * ((h.get c).sem τ).v := by
  have h1 : FactorOK d (theta.get c) := hθ
  have h2 : FactorOK d (h.get c) := ⟨hh.1, hh.2.1, fun a ha => hθ.2.2 a (hh.2.2 a ha)⟩
  rw [get_addV theta h c hc]
  show ((Factor.binop Scalar.add (theta.get c) (h.get c)).sem τ).v = _
  rw [sem_binop_ok Scalar.add hd h1 h2 hτ, BP.log_add_v]

/-- **dual averaging re-installs the zeros**: whatever vector `b` the averaged gradient produces,
`combine b zeros` vanishes (exp-space) at the declared cells -/
theorem combine_reinstalls_zeros (d : Dom) (cliques : List Clique) (b : CliqueVec (LogOf K)) (zs : List ZeroSpec)
    (τ : Attr → Nat) (hd : d.WF) (hcl : ∀ c ∈ cliques, c.Nodup ∧ ∀ a ∈ c, a ∈ d.attrs) (hcn : cliques.Nodup)
    (hkeys : b.map Prod.fst = cliques) (hb : ∀ p ∈ b, p.2.WF ∧ p.2.dom = d.project p.1)
    (hz : ∀ z ∈ zs, z.zc.Nodup ∧ (∀ a ∈ z.zc, a ∈ d.attrs) ∧ ∃ c ∈ cliques, JT.subset z.zc c = true)
    (hτ : d.Valid τ) (hit : ∃ z ∈ zs, Hits z τ) :
    joint (CliqueVec.combine b (zeroVec d zs)) τ = 0 := by
  rw [combine_eq, (foldl_step_spec d cliques zs b τ hd hcl hcn ⟨hkeys, hb⟩ hz hτ).2, prod_ind,
    if_pos hit, mul_zero]

/-- **zero in every answer**: if the joint vanishes at every IN-RANGE assignment extending the declared cell
`(zc, cell)`, then the marginal onto any attribute tuple containing `zc` vanishes at every in-range
assignment extending that cell — in-clique, out-of-clique, full vector alike (the answers are
`total · marginal / Z` by C01/C02).  The hypothesis is asked on `d.Valid τ` only: on an out-of-range `τ` a table
lookup reads the default `⟨1⟩`, so the unrestricted form is false for every model with an attribute outside `zc`. -/
theorem zero_in_all_answers (d : Dom) (pots : CliqueVec (LogOf K)) (z : ZeroSpec) (as : List Attr)
    (σ : Attr → Nat) (hd : d.WF) (hzc : ∀ a ∈ z.zc, a ∈ as)
    (hzero : ∀ τ, d.Valid τ → Hits z τ → joint pots τ = 0) (hσv : d.Valid σ) (hσ : Hits z σ) :
    marginal d pots as σ = 0 := by
  unfold marginal
  rw [sumOver_congr d (d.invert as) σ (joint pots) (fun _ => 0), sumOver_zero]
  intro v hv
  apply hzero _ (valid_override d hd σ _ v hσv hv)
  unfold Hits at hσ ⊢
  have : z.zc.map (Dom.override σ (d.invert as) v) = z.zc.map σ := by
    apply List.map_congr_left
    intro a ha
    apply override_of_not_mem
    intro hmem
    have := (List.mem_filter.mp hmem).2
    simp [hzc a ha] at this
  rw [this]
  exact hσ

end PGM.Zeros
