import PGM.Proofs.LbpTreeSweep
/-!
# Stage 1 — the semantics of one sweep

Messages are tables over a single attribute; `val1 m x` is the entry of `m` at the value `x`.

* `facMsg_sem`: the new factor-to-variable message is
  `x_v ↦ log Σ_{x_{cl∖v}} exp(θ_cl(x_cl) + Σ_{u ∈ cl, u ≠ v} n_{u→cl}(x_u))` minus its own `logsumexp`;
* `varMsg_sem`: the new variable-to-factor message is `Σ_{g ∋ v} f_{g→v} − f_{cl→v}`;
* `belief_sem`: the belief of a clique is `θ_cl + Σ_{u ∈ cl} n_{u→cl}`.
-/
namespace PGM.LbpTree
open PGM PGM.JT PGM.RG PGM.Oracle
set_option linter.unusedSectionVars false
set_option linter.unusedVariables false

/-- the hypotheses on the model: `dom` duplicate-free, the cliques distinct duplicate-free tuples of
attributes of `dom`, each potential a well-formed table over its clique -/
structure GraphOK (dom : Dom) (cliques : List Clique) (pots : CliqueVec ℝ) : Prop where
  domWF : dom.WF
  nodup : cliques.Nodup
  tuple : ∀ cl ∈ cliques, cl.Nodup
  attrs : ∀ cl ∈ cliques, ∀ v ∈ cl, v ∈ dom.attrs
  potWF : ∀ cl ∈ cliques, (pots.get cl).WF ∧ (pots.get cl).dom = dom.project cl

/-- entry `x` of a one-attribute table -/
def val1 (m : Factor ℝ) (x : Nat) : ℝ := m.vals.get [x]

theorem sem_val1 (dom : Dom) (v : Attr) (m : Factor ℝ) (hd : m.dom = dom.project [v]) (σ : Attr → Nat) :
    m.sem σ = val1 m (σ v) := by
  unfold Factor.sem val1
  rw [hd, Dom.attrs_project]
  rfl

theorem project_single_WF (dom : Dom) (v : Attr) : (dom.project [v]).WF := project_WF dom [v] (by simp)

theorem cfg_project_single (dom : Dom) (v : Attr) : (dom.project [v]).cfg v = dom.cfg v :=
  Dom.cfg_project dom [v] v (by simp)

theorem valid_single (dom : Dom) (v : Attr) (σ : Attr → Nat) :
    (dom.project [v]).Valid σ ↔ σ v < dom.cfg v := by
  rw [Dom.valid_iff _ (project_single_WF dom v), Dom.attrs_project]
  simp only [List.mem_singleton, forall_eq, cfg_project_single]

theorem fok_sub {dom : Dom} {v : Attr} {f : Factor ℝ} (h : FOK dom v f) (cl : Clique) (hv : v ∈ cl) :
    Sub (dom.project cl) f := by
  obtain ⟨hw, hd⟩ := h
  refine ⟨hw, ?_, ?_⟩
  · rw [Dom.contains_iff, hd, Dom.attrs_project, Dom.attrs_project]
    intro a ha
    rw [List.mem_singleton.mp ha]; exact hv
  · rw [hd]
    intro p hp
    simp only [Dom.project, List.map_cons, List.map_nil, List.mem_singleton] at hp
    subst hp
    exact Dom.cfg_project dom cl v hv

theorem project_agrees (dom : Dom) (cl : Clique) : (dom.project cl).Agrees dom := by
  intro p hp
  simp only [Dom.project, List.mem_map] at hp
  obtain ⟨a, _, rfl⟩ := hp
  rfl

theorem project_contained (dom : Dom) (cl : Clique) (h : ∀ a ∈ cl, a ∈ dom.attrs) :
    dom.contains (dom.project cl) = true := by
  rw [Dom.contains_iff, Dom.attrs_project]; exact h

/-- an assignment valid for `dom` is valid for the projection onto a duplicate-free clique -/
theorem valid_project (dom : Dom) (hd : dom.WF) (cl : Clique) (hn : cl.Nodup) (h : ∀ a ∈ cl, a ∈ dom.attrs)
    (σ : Attr → Nat) (hσ : dom.Valid σ) : (dom.project cl).Valid σ :=
  Dom.valid_of_agrees _ dom (project_WF dom cl hn) hd (project_contained dom cl h) (project_agrees dom cl) σ hσ

/-! ### list facts -/

theorem removed_complement (cl : Clique) (v : Attr) :
    cl.filter (fun a => (cl.filter (fun var => var != v)).contains a) = cl.filter (fun var => var != v) := by
  apply List.filter_congr
  intro a ha
  rw [Bool.eq_iff_iff, List.contains_iff_mem, List.mem_filter]
  simp [ha]

theorem sum_map_filter_ne (cl : Clique) (hn : cl.Nodup) (v : Attr) (hv : v ∈ cl) (g : Attr → ℝ) :
    (cl.map g).sum - g v = ((cl.filter (fun var => var != v)).map g).sum := by
  induction cl with
  | nil => simp at hv
  | cons x xs ih =>
    rw [List.nodup_cons] at hn
    by_cases hx : x = v
    · subst hx
      have hf : xs.filter (fun var => var != x) = xs := by
        apply List.filter_eq_self.mpr
        intro a ha
        have : a ≠ x := fun h => hn.1 (h ▸ ha)
        simpa using this
      have hx' : (x != x) = false := by simp
      rw [List.filter_cons, hx', hf]
      simp
    · have hvx : v ∈ xs := by
        rcases List.mem_cons.mp hv with h | h
        · exact absurd h.symm hx
        · exact h
      have hx' : (x != v) = true := by simpa using hx
      rw [List.filter_cons, hx']
      simp only [if_true, List.map_cons, List.sum_cons]
      rw [← ih hn.2 hvx]
      ring

/-- `sumOver` only looks at the sizes of the summed attributes -/
theorem sumOver_dom_congr (d d' : Dom) (as : List Attr) (σ : Attr → Nat) (f : (Attr → Nat) → ℝ)
    (h : ∀ a ∈ as, d.cfg a = d'.cfg a) : Sem.sumOver d as σ f = Sem.sumOver d' as σ f := by
  unfold Sem.sumOver
  rw [List.map_congr_left h]

/-! ### the two closed forms -/

/-- `log Σ_{x_{cl∖v}} exp(θ_cl + Σ_{u ∈ cl∖v} ν_u)` as a function of the assignment -/
noncomputable def lsePre (dom : Dom) (pots : CliqueVec ℝ) (cl : Clique) (v : Attr) (nu : Attr → Nat → ℝ)
    (σ : Attr → Nat) : ℝ :=
  Real.log (Sem.sumOver dom (cl.filter (fun var => var != v)) σ (fun τ =>
    Real.exp ((pots.get cl).sem τ + ((cl.filter (fun var => var != v)).map (fun u => nu u (τ u))).sum)))

/-- `G − logsumexp_v G` -/
noncomputable def normMsg (dom : Dom) (v : Attr) (G : (Attr → Nat) → ℝ) (σ : Attr → Nat) : ℝ :=
  G σ - Real.log (Sem.sumOver dom [v] σ (fun τ => Real.exp (G τ)))

noncomputable def Nsem (s : FG.State ℝ) (v : Attr) (cl : Clique) (x : Nat) : ℝ := val1 (FG.getN s v cl) x
noncomputable def Fsem (s : FG.State ℝ) (cl : Clique) (v : Attr) (x : Nat) : ℝ := val1 (FG.getF s cl v) x

/-- full reduction of a one-attribute table -/
theorem logsumexpAll_single (dom : Dom) (v : Attr) (C : Factor ℝ) (hC : FOK dom v C) (σ : Attr → Nat) :
    C.logsumexpAll = Real.log (Sem.sumOver dom [v] σ (fun τ => Real.exp (C.sem τ))) := by
  obtain ⟨hw, hd⟩ := hC
  show Real.log ((C.vals.data.toList.map Real.exp).sum) = _
  congr 1
  have h1 : C.vals.data.toList = (cells C.dom.shape).map (fun idx => C.vals.get idx) :=
    LossAux.datavector_eq C hw
  rw [h1, hd, Dom.shape_project, Sem.sumOver_single]
  simp only [List.map_cons, List.map_nil, Sem.cells_single, List.map_map]
  congr 1
  apply List.map_congr_left
  intro i _
  simp only [Function.comp]
  rw [sem_val1 dom v C hd, Sem.override_of_mem _ _ _ _ (by simp)]
  simp [val1]

theorem facMsg_sem (dom : Dom) (cliques : List Clique) (pots : CliqueVec ℝ) (h : GraphOK dom cliques pots)
    (s : FG.State ℝ) (cl : Clique) (hcl : cl ∈ cliques) (v : Attr) (hv : v ∈ cl)
    (hN : ∀ u ∈ cl, FOK dom u (FG.getN s u cl)) :
    FOK dom v (facMsg pots s cl v) ∧
    ∀ σ, dom.Valid σ →
      val1 (facMsg pots s cl v) (σ v) = normMsg dom v (lsePre dom pots cl v (fun u => Nsem s u cl)) σ := by
  have hn := h.tuple cl hcl
  have hsubattrs := h.attrs cl hcl
  obtain ⟨hpw, hpd⟩ := h.potWF cl hcl
  have hPW : (dom.project cl).WF := project_WF dom cl hn
  -- the incoming messages
  have hNsub : ∀ u ∈ cl, Sub (dom.project cl) (FG.getN s u cl) := fun u hu => fok_sub (hN u hu) cl hu
  have hpre := sumIs_pySum (dom.project cl) hPW (cl.map (fun c => FG.getN s c cl)) (by
    intro f hf
    obtain ⟨u, hu, rfl⟩ := List.mem_map.mp hf
    exact hNsub u hu)
  rw [← hpd] at hpre
  obtain ⟨hAw, hAd, hAs⟩ := addSum_sumIs (pots.get cl) hpw _ _ hpre
  set A := addSum (pots.get cl) (pySum (cl.map (fun c => FG.getN s c cl))) with hAdef
  have hAP : A.dom = dom.project cl := hAd.trans hpd
  have hNv : Sub A.dom (FG.getN s v cl) := by rw [hAP]; exact hNsub v hv
  have hAself := Sub.self A hAw
  have hBsub := hAself.sub hNv
  have hBd : (A.sub (FG.getN s v cl)).dom = dom.project cl := (sub_dom_of_sub A _ hNv).trans hAP
  set B := A.sub (FG.getN s v cl) with hBdef
  -- pointwise value of `B`
  have hBs : ∀ τ, dom.Valid τ → B.sem τ =
      (pots.get cl).sem τ + ((cl.filter (fun var => var != v)).map (fun u => Nsem s u cl (τ u))).sum := by
    intro τ hτ
    have hτP : (dom.project cl).Valid τ := valid_project dom h.domWF cl hn hsubattrs τ hτ
    have hτA : A.dom.Valid τ := by rw [hAP]; exact hτP
    rw [hAself.sem_sub hNv hAw.1 τ hτA, hAs τ (by rw [hpd]; exact hτP), List.map_map]
    have e1 : (cl.map ((fun f : Factor ℝ => f.sem τ) ∘ (fun c => FG.getN s c cl))) =
        cl.map (fun u => Nsem s u cl (τ u)) := by
      apply List.map_congr_left
      intro u hu
      exact sem_val1 dom u _ (hN u hu).2 τ
    rw [e1, sem_val1 dom v _ (hN v hv).2 τ]
    have := sum_map_filter_ne cl hn v hv (fun u => Nsem s u cl (τ u))
    simp only [Nsem] at this ⊢
    linarith
  -- the reduction
  have hCw := Factor.reduce_WF Scalar.lse B (cl.filter (fun var => var != v)) hBsub.wf
  have hCd : (B.logsumexp (cl.filter (fun var => var != v))).dom = dom.project [v] := by
    show B.dom.marginalize (cl.filter (fun var => var != v)) = _
    rw [hBd, marginalize_complement dom cl hn v hv]
  set C := B.logsumexp (cl.filter (fun var => var != v)) with hCdef
  have hCok : FOK dom v C := ⟨hCw, hCd⟩
  have hCs : ∀ σ, dom.Valid σ → C.sem σ = lsePre dom pots cl v (fun u => Nsem s u cl) σ := by
    intro σ hσ
    have hval := (Dom.valid_iff dom h.domWF σ).mp hσ
    rw [hCdef, sem_logsumexp B _ σ hBsub.wf (by
      intro a ha _
      rw [hBd, Dom.attrs_project] at ha
      rw [hBd, Dom.cfg_project dom cl a ha]
      exact hval a (hsubattrs a ha))]
    unfold lsePre
    congr 1
    have hrem : B.dom.removed (cl.filter (fun var => var != v)) = cl.filter (fun var => var != v) := by
      unfold Dom.removed
      rw [hBd, Dom.attrs_project]
      exact removed_complement cl v
    rw [hrem, sumOver_dom_congr B.dom dom _ σ _ (by
      intro a ha
      rw [hBd]
      exact Dom.cfg_project dom cl a (List.mem_filter.mp ha).1)]
    apply Sem.sumOver_congr_valid dom h.domWF _ σ _ _ hσ
    intro τ hτ
    rw [hBs τ hτ]
  refine ⟨⟨subScalar_WF C hCw _, hCd⟩, ?_⟩
  intro σ hσ
  have hσv : (dom.project [v]).Valid σ := (valid_single dom v σ).mpr
    ((Dom.valid_iff dom h.domWF σ).mp hσ v (hsubattrs v hv))
  show val1 (C.subScalar C.logsumexpAll) (σ v) = _
  rw [← sem_val1 dom v (C.subScalar C.logsumexpAll) hCd σ,
    subScalar_sem C hCw _ σ (by rw [hCd]; exact hσv), hCs σ hσ,
    logsumexpAll_single dom v C hCok σ]
  unfold normMsg
  congr 2
  apply Sem.sumOver_congr_valid dom h.domWF _ σ _ _ hσ
  intro τ hτ
  rw [hCs τ hτ]

/-! ### variable to factor -/

theorem pySum_dom (P : Dom) (l : List (Factor ℝ)) (h : ∀ f ∈ l, f.dom = P) (g : Factor ℝ)
    (hg : pySum l = PySum.fac g) : g.dom = P := by
  induction l using List.reverseRecOn generalizing g with
  | nil => simp [pySum] at hg
  | append_singleton xs x ih =>
    have hx := h x (by simp)
    cases hs : pySum xs with
    | zero =>
      rw [pySum_snoc_zero xs x hs] at hg
      injection hg with hg
      rw [← hg]; exact hx
    | fac g' =>
      rw [pySum_snoc_fac xs x g' hs] at hg
      injection hg with hg
      have hg'd := ih (fun f hf => h f (by simp [hf])) g' hs
      rw [← hg]
      show g'.dom.merge x.dom = P
      rw [hg'd, hx]
      exact Dom.merge_eq_self_of_contains _ _ (LossAux.contains_self P)

theorem fok_self_sub {dom : Dom} {v : Attr} {f : Factor ℝ} (h : FOK dom v f) : Sub (dom.project [v]) f := by
  have := Sub.self f h.1
  rwa [h.2] at this

theorem varMsg_sem (dom : Dom) (cliques : List Clique) (s : FG.State ℝ) (v : Attr) (cl : Clique)
    (hcl : cl ∈ facOf cliques v) (hF : ∀ g ∈ facOf cliques v, FOK dom v (FG.getF s g v)) :
    FOK dom v (varMsg cliques s v cl) ∧
    ∀ x, x < dom.cfg v →
      val1 (varMsg cliques s v cl) x = ((facOf cliques v).map (fun g => Fsem s g v x)).sum - Fsem s cl v x := by
  have hPW := project_single_WF dom v
  have hne : (facOf cliques v).map (fun g => FG.getF s g v) ≠ [] := by
    intro h
    rw [List.map_eq_nil_iff] at h
    rw [h] at hcl
    simp at hcl
  obtain ⟨pre, hpre⟩ := pySum_ne_nil _ hne
  have hall : ∀ f ∈ (facOf cliques v).map (fun g => FG.getF s g v), Sub (dom.project [v]) f := by
    intro f hf
    obtain ⟨g, hg, rfl⟩ := List.mem_map.mp hf
    exact fok_self_sub (hF g hg)
  have hsum := sumIs_pySum (dom.project [v]) hPW _ hall
  rw [hpre] at hsum
  obtain ⟨hpsub, hpval⟩ := hsum
  have hpd : pre.dom = dom.project [v] := pySum_dom (dom.project [v]) _ (by
    intro f hf
    obtain ⟨g, hg, rfl⟩ := List.mem_map.mp hf
    exact (hF g hg).2) pre hpre
  have hFc := fok_self_sub (hF cl hcl)
  have hvm : varMsg cliques s v cl = pre.sub (FG.getF s cl v) := by
    unfold varMsg; rw [hpre]; rfl
  rw [hvm]
  have hd : (pre.sub (FG.getF s cl v)).dom = dom.project [v] := by
    have := sub_dom_of_sub pre (FG.getF s cl v) (by rw [hpd]; exact hFc)
    rw [this, hpd]
  refine ⟨⟨(hpsub.sub hFc).wf, hd⟩, ?_⟩
  intro x hx
  have hσ : (dom.project [v]).Valid (fun _ => x) := (valid_single dom v _).mpr hx
  have e := hpsub.sem_sub hFc hPW (fun _ => x) hσ
  rw [sem_val1 dom v _ hd, hpval _ hσ, sem_val1 dom v _ (hF cl hcl).2] at e
  simp only [List.map_map] at e
  rw [e]
  congr 2
  apply List.map_congr_left
  intro g hg
  exact sem_val1 dom v _ (hF g hg).2 _

/-! ### beliefs -/

theorem belief_sem (dom : Dom) (cliques : List Clique) (pots : CliqueVec ℝ) (h : GraphOK dom cliques pots)
    (s : FG.State ℝ) (cl : Clique) (hcl : cl ∈ cliques) (hN : ∀ u ∈ cl, FOK dom u (FG.getN s u cl)) :
    let b := addSum (pots.get cl) (pySum (cl.map (fun n => FG.getN s n cl)))
    b.WF ∧ b.dom = dom.project cl ∧
    ∀ σ, (dom.project cl).Valid σ →
      b.sem σ = (pots.get cl).sem σ + (cl.map (fun u => Nsem s u cl (σ u))).sum := by
  intro b
  have hn := h.tuple cl hcl
  obtain ⟨hpw, hpd⟩ := h.potWF cl hcl
  have hPW : (dom.project cl).WF := project_WF dom cl hn
  have hpre := sumIs_pySum (dom.project cl) hPW (cl.map (fun c => FG.getN s c cl)) (by
    intro f hf
    obtain ⟨u, hu, rfl⟩ := List.mem_map.mp hf
    exact fok_sub (hN u hu) cl hu)
  rw [← hpd] at hpre
  obtain ⟨hAw, hAd, hAs⟩ := addSum_sumIs (pots.get cl) hpw _ _ hpre
  refine ⟨hAw, hAd.trans hpd, ?_⟩
  intro σ hσ
  rw [hAs σ (by rw [hpd]; exact hσ), List.map_map]
  congr 2
  apply List.map_congr_left
  intro u hu
  exact sem_val1 dom u _ (hN u hu).2 σ

end PGM.LbpTree
