import PGM.Proofs.VEFactor
/-!
# The elimination loop shared by `variableElimination` and `veLogspace`

`veStep op r` is the loop body of both model functions (`op = Scalar.mul`, `r = Scalar.sum` in
exp-space; `op = Scalar.add`, `r = Scalar.lse` in log-space); `veFold_correct` is the loop
invariant read through a valuation `val : α → K`.
-/
namespace PGM.Sem
open PGM PGM.GM
set_option linter.unusedSectionVars false
set_option linter.unusedVariables false

variable {α : Type} [Scalar α] {K : Type} [Field K]

/-- one elimination step: multiply the factors mentioning `z`, reduce `z` out, append -/
def veStep (op : α → α → α) (r : List α → α) (psi : List (Factor α)) (z : Attr) : List (Factor α) :=
  match psi.filter (fun f => f.dom.attrs.contains z) with
  | [] => psi.filter (fun f => !f.dom.attrs.contains z)
  | p :: ps =>
    psi.filter (fun f => !f.dom.attrs.contains z) ++ [Factor.reduce r (ps.foldl (Factor.binop op) p) [z]]

theorem variableElimination_eq (fs : List (Factor α)) (elim : List Attr) :
    variableElimination fs elim =
      match elim.foldl (veStep Scalar.mul Scalar.sum) fs with
      | [] => Factor.ones []
      | p :: ps => ps.foldl (Factor.binop Scalar.mul) p := rfl

theorem veLogspace_eq (fs : List (Factor α)) (elim : List Attr) (total : α) :
    veLogspace fs elim total =
      match elim.foldl (veStep Scalar.add Scalar.lse) fs with
      | [] => Factor.zeros []
      | p :: ps =>
        let ans := ps.foldl (Factor.binop Scalar.add) p
        ((ans.subScalar ans.logsumexpAll).addScalar (Scalar.log total)).exp := rfl

section
variable (op : α → α → α) (r : List α → α) (val : α → K)
  (hop : ∀ x y, val (op x y) = val x * val y) (hr : ∀ l, val (r l) = (l.map val).sum)
  (d : Dom) (hd : d.WF)
include hop hr hd

/-- one step: sums `z` out of the product -/
theorem veStep_correct (fs : List (Factor α)) (z : Attr)
    (hfs : ∀ f ∈ fs, FactorOK d f) (hz : z ∈ d.attrs) (hocc : ∃ f ∈ fs, z ∈ f.dom.attrs) :
    (∀ f ∈ veStep op r fs z, FactorOK d f) ∧ veStep op r fs z ≠ [] ∧
    (∀ a, (∃ f ∈ veStep op r fs z, a ∈ f.dom.attrs) ↔ (a ≠ z ∧ ∃ f ∈ fs, a ∈ f.dom.attrs)) ∧
    (∀ σ, d.Valid σ → ((veStep op r fs z).map (fun f => val (f.sem σ))).prod
        = sumOver d [z] σ (fun τ => (fs.map (fun f => val (f.sem τ))).prod)) := by
  obtain ⟨f0, hf0, hzf0⟩ := hocc
  have hmem2 : ∀ f, f ∈ fs.filter (fun f => f.dom.attrs.contains z) ↔ f ∈ fs ∧ z ∈ f.dom.attrs := by
    intro f; simp [List.mem_filter]
  have hmemR : ∀ f, f ∈ fs.filter (fun f => !f.dom.attrs.contains z) ↔ f ∈ fs ∧ z ∉ f.dom.attrs := by
    intro f; simp [List.mem_filter]
  have hprod := fun τ : Attr → Nat =>
    prod_map_filter_split fs (fun f => f.dom.attrs.contains z) (fun f => val (f.sem τ))
  unfold veStep
  cases h2 : fs.filter (fun f => f.dom.attrs.contains z) with
  | nil =>
    have := (hmem2 f0).mpr ⟨hf0, hzf0⟩
    rw [h2] at this
    simp at this
  | cons p ps =>
    simp only []
    rw [h2] at hmem2 hprod
    have hpOK : FactorOK d p := hfs p ((hmem2 p).mp (by simp)).1
    have hpsOK : ∀ f ∈ ps, FactorOK d f := fun f hf => hfs f ((hmem2 f).mp (by simp [hf])).1
    have hφ := foldl_binop_ok (d := d) op ps p hpOK hpsOK
    have hzφ : z ∈ (ps.foldl (Factor.binop op) p).dom.attrs :=
      (foldl_binop_mem_attrs op ps p z).mpr ⟨p, by simp, ((hmem2 p).mp (by simp)).2⟩
    have hnew := FactorOK.reduce r [z] hφ
    refine ⟨?_, by simp, ?_, ?_⟩
    · intro f hf
      rcases List.mem_append.mp hf with h | h
      · exact hfs f ((hmemR f).mp h).1
      · rw [List.mem_singleton.mp h]; exact hnew
    · intro a
      constructor
      · rintro ⟨f, hf, ha⟩
        rcases List.mem_append.mp hf with h | h
        · obtain ⟨h1, h2'⟩ := (hmemR f).mp h
          exact ⟨fun e => h2' (e ▸ ha), f, h1, ha⟩
        · rw [List.mem_singleton.mp h, reduce_mem_attrs, foldl_binop_mem_attrs] at ha
          obtain ⟨⟨g, hg, hag⟩, hne⟩ := ha
          exact ⟨by simpa using hne, g, ((hmem2 g).mp hg).1, hag⟩
      · rintro ⟨hne, f, hf, ha⟩
        by_cases hzf : z ∈ f.dom.attrs
        · refine ⟨_, List.mem_append.mpr (Or.inr (List.mem_singleton.mpr rfl)), ?_⟩
          rw [reduce_mem_attrs, foldl_binop_mem_attrs]
          exact ⟨⟨f, (hmem2 f).mpr ⟨hf, hzf⟩, ha⟩, by simpa using hne⟩
        · exact ⟨f, List.mem_append.mpr (Or.inl ((hmemR f).mpr ⟨hf, hzf⟩)), ha⟩
    · intro σ hσ
      rw [List.map_append, List.prod_append, List.map_singleton, List.prod_singleton]
      rw [val_sem_reduce r val hr hd hφ [z] hσ, removed_single _ z hφ.1 hzφ]
      have e1 : sumOver d [z] σ (fun τ => val ((ps.foldl (Factor.binop op) p).sem τ))
          = sumOver d [z] σ (fun τ => ((p :: ps).map (fun f => val (f.sem τ))).prod) :=
        sumOver_congr_valid d hd [z] σ _ _ hσ
          (fun τ hτ => val_sem_foldl_binop op val hop hd ps p hpOK hpsOK hτ)
      rw [e1, ← sumOver_factor_left d [z] σ
        (fun τ => ((fs.filter (fun f => !f.dom.attrs.contains z)).map (fun f => val (f.sem τ))).prod)]
      · congr 1
        funext τ
        exact hprod τ
      · intro v _
        show (List.map _ _).prod = (List.map _ _).prod
        congr 1
        apply List.map_congr_left
        intro f hf
        congr 1
        apply sem_override_of_disjoint
        intro a ha
        rw [List.mem_singleton.mp ha]
        exact ((hmemR f).mp hf).2

/-- the loop invariant: after eliminating `elim`, the product of the remaining factors is the
sum over `elim` of the product of the original ones -/
theorem veFold_correct (elim : List Attr) (fs : List (Factor α))
    (hfs : ∀ f ∈ fs, FactorOK d f) (hne : fs ≠ [])
    (hocc : ∀ z ∈ elim, ∃ f ∈ fs, z ∈ f.dom.attrs) (hnd : elim.Nodup)
    (hsub : ∀ z ∈ elim, z ∈ d.attrs) :
    (∀ f ∈ elim.foldl (veStep op r) fs, FactorOK d f) ∧ elim.foldl (veStep op r) fs ≠ [] ∧
    (∀ a, (∃ f ∈ elim.foldl (veStep op r) fs, a ∈ f.dom.attrs)
        ↔ (a ∉ elim ∧ ∃ f ∈ fs, a ∈ f.dom.attrs)) ∧
    (∀ σ, d.Valid σ → ((elim.foldl (veStep op r) fs).map (fun f => val (f.sem σ))).prod
        = sumOver d elim σ (fun τ => (fs.map (fun f => val (f.sem τ))).prod)) := by
  induction elim generalizing fs with
  | nil =>
    refine ⟨hfs, hne, fun a => by simp, fun σ _ => ?_⟩
    rw [sumOver_nil]; rfl
  | cons z zs ih =>
    obtain ⟨hzn, hzs⟩ := List.nodup_cons.mp hnd
    obtain ⟨s1, s2, s3, s4⟩ := veStep_correct op r val hop hr d hd fs z hfs (hsub z (by simp))
      (hocc z (by simp))
    have hocc' : ∀ z' ∈ zs, ∃ f ∈ veStep op r fs z, z' ∈ f.dom.attrs := by
      intro z' hz'
      exact (s3 z').mpr ⟨fun e => hzn (e ▸ hz'), hocc z' (by simp [hz'])⟩
    obtain ⟨i1, i2, i3, i4⟩ := ih (veStep op r fs z) s1 s2 hocc' hzs
      (fun z' hz' => hsub z' (by simp [hz']))
    rw [List.foldl_cons]
    refine ⟨i1, i2, ?_, ?_⟩
    · intro a
      rw [i3 a, s3 a, List.mem_cons]
      tauto
    · intro σ hσ
      rw [i4 σ hσ, sumOver_congr_valid d hd zs σ _ _ hσ (fun τ hτ => s4 τ hτ),
        ← sumOver_append d zs [z] σ _ hzs (fun a ha hm => hzn (List.mem_singleton.mp hm ▸ ha))]
      apply sumOver_perm d _ _ σ _ (List.perm_append_comm (l₁ := zs) (l₂ := [z]))
      rw [List.nodup_append]
      exact ⟨hzs, by simp, fun a ha b hb hab => hzn (by
        rw [List.mem_singleton.mp hb] at hab; exact hab ▸ ha)⟩

/-- the loop followed by the final product -/
theorem veLoop_final (elim : List Attr) (fs : List (Factor α))
    (hfs : ∀ f ∈ fs, FactorOK d f) (hne : fs ≠ [])
    (hocc : ∀ z ∈ elim, ∃ f ∈ fs, z ∈ f.dom.attrs) (hnd : elim.Nodup)
    (hsub : ∀ z ∈ elim, z ∈ d.attrs) :
    ∃ p ps, elim.foldl (veStep op r) fs = p :: ps ∧
      FactorOK d (ps.foldl (Factor.binop op) p) ∧
      (∀ a, a ∈ (ps.foldl (Factor.binop op) p).dom.attrs ↔ (a ∉ elim ∧ ∃ f ∈ fs, a ∈ f.dom.attrs)) ∧
      (∀ σ, d.Valid σ → val ((ps.foldl (Factor.binop op) p).sem σ)
        = sumOver d elim σ (fun τ => (fs.map (fun f => val (f.sem τ))).prod)) := by
  obtain ⟨i1, i2, i3, i4⟩ := veFold_correct op r val hop hr d hd elim fs hfs hne hocc hnd hsub
  cases h : elim.foldl (veStep op r) fs with
  | nil => exact absurd h i2
  | cons p ps =>
    rw [h] at i1 i3 i4
    have hp := i1 p (by simp)
    have hps : ∀ f ∈ ps, FactorOK d f := fun f hf => i1 f (by simp [hf])
    refine ⟨p, ps, rfl, foldl_binop_ok op ps p hp hps, ?_, ?_⟩
    · intro a
      rw [foldl_binop_mem_attrs, i3 a]
    · intro σ hσ
      rw [val_sem_foldl_binop op val hop hd ps p hp hps hσ, i4 σ hσ]

end

/-- the precondition `preVE` unpacked -/
theorem preVE_iff (fs : List (Factor α)) (elim : List Attr) :
    preVE fs elim = true ↔ (∀ z ∈ elim, ∃ f ∈ fs, z ∈ f.dom.attrs) ∧ fs ≠ [] := by
  simp [preVE]

end PGM.Sem
