import PGM.Model.SynthTable
import Mathlib.Data.List.Forall2
import Mathlib.Data.List.Nodup
import Mathlib.Data.List.Perm.Basic
/-!
# Synthetic records, the whole table: list-level lemmas

`assignGroup`, `genCol`: what a column step changes (only column `col`, only through `set`), what
it leaves alone (every other position, the row order, the widths, the group keys), and what the
rows of one group receive (exactly the outcome handed to the group, in row order).
-/
namespace PGM.Synth.Table
open PGM.Synth

/-! ### rows agreeing on a set of positions -/

/-- row by row: same width, same value at every position satisfying `P` -/
def Agree (P : Nat → Prop) (rows rows' : List Row) : Prop :=
  List.Forall₂ (fun r r' => r.length = r'.length ∧ ∀ j, P j → r.getD j 0 = r'.getD j 0) rows rows'

theorem Agree.refl (P : Nat → Prop) (rows : List Row) : Agree P rows rows :=
  List.forall₂_same.2 (fun _ _ => ⟨rfl, fun _ _ => rfl⟩)

theorem Agree.mono {P Q : Nat → Prop} {rows rows' : List Row} (h : Agree P rows rows')
    (hPQ : ∀ j, Q j → P j) : Agree Q rows rows' :=
  List.Forall₂.imp (fun _ _ hab => ⟨hab.1, fun j hj => hab.2 j (hPQ j hj)⟩) h

theorem Agree.trans {P : Nat → Prop} {a b c : List Row} (h1 : Agree P a b) (h2 : Agree P b c) :
    Agree P a c := by
  unfold Agree at *
  induction h1 generalizing c with
  | nil => cases h2; exact List.Forall₂.nil
  | cons hab _ ih =>
    cases h2 with
    | cons hbc t2 =>
      exact List.Forall₂.cons ⟨hab.1.trans hbc.1, fun j hj => (hab.2 j hj).trans (hbc.2 j hj)⟩ (ih t2)

theorem Agree.length_eq {P : Nat → Prop} {a b : List Row} (h : Agree P a b) : a.length = b.length :=
  List.Forall₂.length_eq h

theorem Agree.width {P : Nat → Prop} {a b : List Row} (h : Agree P a b) (n : Nat)
    (hw : ∀ r ∈ a, r.length = n) : ∀ r ∈ b, r.length = n := by
  unfold Agree at h
  induction h with
  | nil => intro r hr; cases hr
  | cons hab _ ih =>
    intro r hr
    rcases List.mem_cons.1 hr with rfl | hr
    · rw [← hab.1]; exact hw _ (List.mem_cons_self)
    · exact ih (fun r hr => hw r (List.mem_cons_of_mem _ hr)) r hr

theorem Agree.width_lt {P : Nat → Prop} {a b : List Row} (h : Agree P a b) (c : Nat)
    (hw : ∀ r ∈ a, c < r.length) : ∀ r ∈ b, c < r.length := by
  unfold Agree at h
  induction h with
  | nil => intro r hr; cases hr
  | cons hab _ ih =>
    intro r hr
    rcases List.mem_cons.1 hr with rfl | hr
    · rw [← hab.1]; exact hw _ (List.mem_cons_self)
    · exact ih (fun r hr => hw r (List.mem_cons_of_mem _ hr)) r hr

theorem key_congr {P : Nat → Prop} (pos : List Nat) (hpos : ∀ j ∈ pos, P j) {r r' : Row}
    (h : ∀ j, P j → r.getD j 0 = r'.getD j 0) : key pos r = key pos r' := by
  unfold key
  apply List.map_congr_left
  intro j hj
  exact h j (hpos j hj)

theorem Agree.map_key {P : Nat → Prop} {a b : List Row} (h : Agree P a b) (pos : List Nat)
    (hpos : ∀ j ∈ pos, P j) : a.map (key pos) = b.map (key pos) := by
  unfold Agree at h
  induction h with
  | nil => rfl
  | cons hab _ ih =>
    rw [List.map_cons, List.map_cons, ih, key_congr pos hpos hab.2]

/-! ### keys and counts -/

theorem key_append (p q : List Nat) (r : Row) : key (p ++ q) r = key p r ++ key q r := by
  simp [key]

theorem key_singleton (c : Nat) (r : Row) : key [c] r = [r.getD c 0] := rfl

@[simp] theorem key_length (p : List Nat) (r : Row) : (key p r).length = p.length := by simp [key]

theorem getD_set_ne (r : Row) (c j v : Nat) (h : j ≠ c) : (r.set c v).getD j 0 = r.getD j 0 := by
  rw [List.getD_eq_getElem?_getD, List.getD_eq_getElem?_getD, List.getElem?_set_ne (Ne.symm h)]

theorem getD_set_self (r : Row) (c v : Nat) (h : c < r.length) : (r.set c v).getD c 0 = v := by
  rw [List.getD_eq_getElem?_getD, List.getElem?_set_self h, Option.getD_some]

theorem key_set (proj : List Nat) (r : Row) (c v : Nat) (h : c ∉ proj) :
    key proj (r.set c v) = key proj r := by
  unfold key
  apply List.map_congr_left
  intro j hj
  exact getD_set_ne r c j v (fun e => h (e ▸ hj))

theorem cellCount_eq_count (pos vals : List Nat) (rows : List Row) :
    cellCount pos vals rows = (rows.map (key pos)).count vals := by
  unfold cellCount
  rw [← List.countP_eq_length_filter, List.count, List.countP_map]
  rfl

theorem groupSize_eq_cellCount (pos vals : List Nat) (rows : List Row) :
    groupSize pos vals rows = cellCount pos vals rows := rfl

theorem cellCount_cons (pos vals : List Nat) (r : Row) (rows : List Row) :
    cellCount pos vals (r :: rows) = (if key pos r = vals then 1 else 0) + cellCount pos vals rows := by
  unfold cellCount
  rw [List.filter_cons]
  by_cases h : key pos r = vals
  · simp [h]; omega
  · simp [h]

/-! ### `groupKeys` -/

theorem nodup_eraseDups_aux {α : Type} [BEq α] [LawfulBEq α] (n : Nat) :
    ∀ l : List α, l.length ≤ n → l.eraseDups.Nodup := by
  induction n with
  | zero =>
    intro l hl
    have : l = [] := List.length_eq_zero_iff.1 (Nat.le_zero.1 hl)
    subst this; simp
  | succ n ih =>
    intro l hl
    cases l with
    | nil => simp
    | cons a as =>
      rw [List.eraseDups_cons, List.nodup_cons]
      refine ⟨?_, ?_⟩
      · rw [List.mem_eraseDups, List.mem_filter]
        rintro ⟨_, h⟩
        simp at h
      · apply ih
        have := List.length_filter_le (fun b => !b == a) as
        simp only [List.length_cons] at hl
        omega

theorem nodup_eraseDups {α : Type} [BEq α] [LawfulBEq α] (l : List α) : l.eraseDups.Nodup :=
  nodup_eraseDups_aux l.length l (Nat.le_refl _)

theorem mem_groupKeys (proj : List Nat) (rows : List Row) (g : List Nat) :
    g ∈ groupKeys proj rows ↔ g ∈ rows.map (key proj) := by
  unfold groupKeys
  rw [List.mem_mergeSort, List.mem_eraseDups]

theorem nodup_groupKeys (proj : List Nat) (rows : List Row) : (groupKeys proj rows).Nodup := by
  unfold groupKeys
  exact (List.mergeSort_perm _ _).nodup_iff.2 (nodup_eraseDups _)

theorem groupKeys_congr (proj : List Nat) (a b : List Row) (h : a.map (key proj) = b.map (key proj)) :
    groupKeys proj a = groupKeys proj b := by
  unfold groupKeys; rw [h]

/-! ### the column received by one group -/

/-- the values at position `c` of the rows with key `g`, in row order -/
def groupCol (c : Nat) (proj g : List Nat) (rows : List Row) : List Nat :=
  (rows.filter (fun r => key proj r == g)).map (fun r => r.getD c 0)

theorem groupCol_length (c : Nat) (proj g : List Nat) (rows : List Row) :
    (groupCol c proj g rows).length = cellCount proj g rows := by
  simp [groupCol, cellCount]

theorem Agree.groupCol {P : Nat → Prop} {a b : List Row} (h : Agree P a b) (c : Nat) (proj g : List Nat)
    (hc : P c) (hproj : ∀ j ∈ proj, P j) : groupCol c proj g a = groupCol c proj g b := by
  unfold Agree at h
  unfold Table.groupCol
  induction h with
  | nil => rfl
  | cons hab _ ih =>
    rw [List.filter_cons, List.filter_cons, key_congr proj hproj hab.2]
    split
    · rw [List.map_cons, List.map_cons, ih, hab.2 c hc]
    · exact ih

/-- the number of rows of group `g` whose new value is `v` -/
theorem cellCount_snoc (c : Nat) (proj g : List Nat) (v : Nat) (rows : List Row) :
    cellCount (proj ++ [c]) (g ++ [v]) rows = (groupCol c proj g rows).count v := by
  unfold cellCount groupCol
  rw [← List.countP_eq_length_filter, List.count, List.countP_map, List.countP_filter]
  apply List.countP_congr
  intro r _
  have hk : (key (proj ++ [c]) r = g ++ [v]) ↔ (r.getD c 0 = v ∧ key proj r = g) := by
    rw [key_append, key_singleton]
    constructor
    · intro e
      have h1 := List.append_inj_left' e rfl
      rw [h1] at e
      exact ⟨by simpa using e, h1⟩
    · rintro ⟨h1, h2⟩; rw [h1, h2]
  simp only [Function.comp, beq_iff_eq, Bool.and_eq_true]
  exact hk

/-! ### `assignGroup` -/

theorem agree_assignGroup (c : Nat) (proj k : List Nat) (rows : List Row) (vals : List Nat) :
    Agree (fun j => j ≠ c) rows (assignGroup c proj k rows vals) := by
  induction rows generalizing vals with
  | nil => exact List.Forall₂.nil
  | cons r rs ih =>
    unfold assignGroup
    split
    · cases vals with
      | nil => exact Agree.refl _ _
      | cons v vs =>
        exact List.Forall₂.cons ⟨(List.length_set).symm, fun j hj => (getD_set_ne r c j v hj).symm⟩ (ih vs)
    · exact List.Forall₂.cons ⟨rfl, fun _ _ => rfl⟩ (ih vals)

/-- the rows of another group are untouched -/
theorem assignGroup_filter_other (c : Nat) (proj k g : List Nat) (hc : c ∉ proj) (hkg : k ≠ g)
    (rows : List Row) (vals : List Nat) :
    (assignGroup c proj k rows vals).filter (fun r => key proj r == g)
      = rows.filter (fun r => key proj r == g) := by
  induction rows generalizing vals with
  | nil => rfl
  | cons r rs ih =>
    unfold assignGroup
    by_cases hk : key proj r = k
    · subst hk
      have h2 : (key proj r == g) = false := by simpa using hkg
      cases vals with
      | nil => simp
      | cons v vs =>
        have h1 : (key proj (r.set c v) == g) = false := by
          rw [key_set proj r c v hc]; exact h2
        simp only [beq_self_eq_true, if_true, List.filter_cons, h1, h2, Bool.false_eq_true,
          if_false]
        exact ih vs
    · have hk' : (key proj r == k) = false := by simpa using hk
      simp only [hk', Bool.false_eq_true, if_false, List.filter_cons]
      rw [ih vals]

/-- the rows of the group receive `vals`, in row order -/
theorem assignGroup_groupCol (c : Nat) (proj g : List Nat) (hc : c ∉ proj) (rows : List Row)
    (vals : List Nat) (hw : ∀ r ∈ rows, c < r.length) (hlen : vals.length = cellCount proj g rows) :
    groupCol c proj g (assignGroup c proj g rows vals) = vals := by
  induction rows generalizing vals with
  | nil =>
    have : vals = [] := List.length_eq_zero_iff.1 (by simpa [cellCount] using hlen)
    subst this; rfl
  | cons r rs ih =>
    have hw' : ∀ r ∈ rs, c < r.length := fun r hr => hw r (List.mem_cons_of_mem _ hr)
    rw [cellCount_cons] at hlen
    unfold assignGroup
    by_cases hk : key proj r = g
    · cases vals with
      | nil => simp only [hk, if_true, List.length_nil] at hlen; omega
      | cons v vs =>
        have hl : vs.length = cellCount proj g rs := by
          simp only [hk, if_true, List.length_cons] at hlen; omega
        have h1 : (key proj (r.set c v) == g) = true := by
          rw [key_set proj r c v hc, hk]; simp
        simp only [hk, beq_self_eq_true, if_true, groupCol, List.filter_cons, h1, List.map_cons]
        rw [getD_set_self r c v (hw r List.mem_cons_self)]
        have := ih vs hw' hl
        unfold groupCol at this
        rw [this]
    · have hk' : (key proj r == g) = false := by simpa using hk
      have hl : vals.length = cellCount proj g rs := by
        simp only [hk, if_false] at hlen; omega
      simp only [hk', Bool.false_eq_true, if_false, groupCol, List.filter_cons]
      have := ih vals hw' hl
      unfold groupCol at this
      exact this

/-! ### the fold of `genCol` -/

/-- the fold inside `genCol`, over an arbitrary list of (key, outcome) pairs -/
def foldGroups (c : Nat) (proj : List Nat) (l : List (List Nat × List Nat)) (rows : List Row) : List Row :=
  l.foldl (fun rs (ko : List Nat × List Nat) => assignGroup c proj ko.1 rs ko.2) rows

theorem genCol_eq (sp : ColSpec) (rows : List Row) (outs : List (List Nat)) :
    genCol sp rows outs = foldGroups sp.col sp.proj (List.zip (groupKeys sp.proj rows) outs) rows := rfl

theorem agree_foldGroups (c : Nat) (proj : List Nat) (l : List (List Nat × List Nat)) (rows : List Row) :
    Agree (fun j => j ≠ c) rows (foldGroups c proj l rows) := by
  induction l generalizing rows with
  | nil => exact Agree.refl _ _
  | cons ko l ih =>
    exact (agree_assignGroup c proj ko.1 rows ko.2).trans (ih _)

theorem foldGroups_filter_other (c : Nat) (proj g : List Nat) (hc : c ∉ proj)
    (l : List (List Nat × List Nat)) (hl : ∀ ko ∈ l, ko.1 ≠ g) (rows : List Row) :
    (foldGroups c proj l rows).filter (fun r => key proj r == g)
      = rows.filter (fun r => key proj r == g) := by
  induction l generalizing rows with
  | nil => rfl
  | cons ko l ih =>
    unfold foldGroups
    rw [List.foldl_cons]
    have := ih (fun ko hko => hl ko (List.mem_cons_of_mem _ hko)) (assignGroup c proj ko.1 rows ko.2)
    unfold foldGroups at this
    rw [this, assignGroup_filter_other c proj ko.1 g hc (hl ko List.mem_cons_self)]

theorem foldGroups_groupCol (c : Nat) (proj g og : List Nat) (hc : c ∉ proj)
    (l : List (List Nat × List Nat)) (hnd : (l.map Prod.fst).Nodup) (hmem : (g, og) ∈ l)
    (rows : List Row) (hw : ∀ r ∈ rows, c < r.length) (hlen : og.length = cellCount proj g rows) :
    groupCol c proj g (foldGroups c proj l rows) = og := by
  induction l generalizing rows with
  | nil => cases hmem
  | cons ko l ih =>
    rw [List.map_cons, List.nodup_cons] at hnd
    have hstep := agree_assignGroup c proj ko.1 rows ko.2
    have hfold : foldGroups c proj (ko :: l) rows
        = foldGroups c proj l (assignGroup c proj ko.1 rows ko.2) := rfl
    rw [hfold]
    by_cases hk : ko.1 = g
    · -- this is the group's own step; the later steps are about other groups
      have hko : ko = (g, og) := by
        rcases List.mem_cons.1 hmem with h | h
        · exact h.symm
        · exfalso; apply hnd.1; rw [hk]; exact List.mem_map.2 ⟨(g, og), h, rfl⟩
      subst hko
      have hrest : ∀ ko ∈ l, ko.1 ≠ g := by
        intro ko' hko' e
        apply hnd.1
        exact List.mem_map.2 ⟨ko', hko', e⟩
      unfold groupCol
      rw [foldGroups_filter_other c proj g hc l hrest]
      exact assignGroup_groupCol c proj g hc rows og hw hlen
    · have hmem' : (g, og) ∈ l := by
        rcases List.mem_cons.1 hmem with h | h
        · exfalso; apply hk; rw [← h]
        · exact h
      apply ih hnd.2 hmem'
      · exact hstep.width_lt c hw
      · unfold cellCount
        rw [assignGroup_filter_other c proj ko.1 g hc hk]
        exact hlen

end PGM.Synth.Table
