import PGM.Model.SynthTable
import PGM.Model.SynthChain
import PGM.Proofs.SynthSem
/-!
# the support induction for the generated `synthetic_data` (rounding mode): definitions

`OutsCond`: what is known of the outcomes of a run BEFORE the support induction — every outcome for a group whose conditional
slice has nonnegative entries and positive mass (`CountsOK`) is admissible (`ColGood`: right length, values in the domain, histogram
accepted by the verified `colOK`); nothing is known for the other groups.  `UsedGood P`: every slice a run actually uses (the keys
occurring in the table a step sees; `[]` for an unconditional step) has property `P`.
The theorem (`Proofs/GMQSupport.lean`): under the chain hypotheses, `OutsCond` implies `outsOK` and `UsedGood CountsOK`.
-/
namespace PGM.GMQGen
open PGM PGM.Synth

def UsedGood (P : List Rat → Prop) : List ColSpec → List (List (List Nat)) → List Row → Prop
  | [], [], _ => True
  | sp :: sps, o :: os, rows =>
    ((∀ k ∈ groupKeys sp.proj rows, P (sp.cond k)) ∧ (sp.proj = [] → P (sp.cond []))) ∧
      UsedGood P sps os (genCol sp rows o)
  | _, _, _ => False

/-- an admissible outcome `og` for the group `k` of `n` rows of the step `sp` -/
def ColGood (sp : ColSpec) (k : List Nat) (n : Nat) (og : List Nat) : Prop :=
  og.length = n ∧ (∀ v ∈ og, v < sp.size) ∧ (sp.cond k).length = sp.size ∧
    colOK (sp.cond k) n (hist sp.size og) = true

def OutsCond : List ColSpec → List (List (List Nat)) → List Row → Prop
  | [], [], _ => True
  | sp :: sps, o :: os, rows =>
    (o.length = (groupKeys sp.proj rows).length ∧
      ∀ ko ∈ List.zip (groupKeys sp.proj rows) o, CountsOK (sp.cond ko.1) →
        ColGood sp ko.1 (groupSize sp.proj ko.1 rows) ko.2) ∧
      OutsCond sps os (genCol sp rows o)
  | _, _, _ => False

end PGM.GMQGen
