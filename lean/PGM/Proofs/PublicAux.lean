import PGM.Model.Public
import PGM.Proofs.RealScalar
/-! helper lemmas for C19: the real-number instance unfolded, and the case analysis of `emdStep` -/
namespace PGM.Public

@[simp] theorem r_add (x y : ℝ) : Scalar.add x y = x + y := rfl
@[simp] theorem r_mul (x y : ℝ) : Scalar.mul x y = x * y := rfl
@[simp] theorem r_div (x y : ℝ) : Scalar.div x y = x / y := rfl
@[simp] theorem r_neg (x : ℝ) : Scalar.neg x = -x := rfl
@[simp] theorem r_sub (x y : ℝ) : Scalar.sub x y = x - y := by
  simp [Scalar.sub, sub_eq_add_neg]
@[simp] theorem r_exp (x : ℝ) : Scalar.exp x = Real.exp x := rfl
@[simp] theorem r_log (x : ℝ) : Scalar.log x = Real.log x := rfl
@[simp] theorem r_lse (l : List ℝ) : Scalar.lse l = Real.log ((l.map Real.exp).sum) := rfl
@[simp] theorem r_one : (Scalar.one : ℝ) = 1 := rfl
@[simp] theorem r_zero : (Scalar.zero : ℝ) = 0 := rfl
@[simp] theorem r_gt0 (x : ℝ) : Scalar.gt0 x = decide (0 < x) := rfl
@[simp] theorem r_le0 (x : ℝ) : Scalar.le0 x = decide (x ≤ 0) := rfl
@[simp] theorem r_exp_fun : (Scalar.exp : ℝ → ℝ) = Real.exp := rfl
@[simp] theorem r_sub_fun : (Scalar.sub : ℝ → ℝ → ℝ) = fun x y => x - y := by
  funext x y; simp

theorem foldl_add_eq (l : List ℝ) (z : ℝ) : l.foldl Scalar.add z = z + l.sum := by
  induction l generalizing z with
  | nil => simp
  | cons a l ih => simp [ih, add_assoc]

@[simp] theorem r_sum (l : List ℝ) : Scalar.sum l = l.sum := by
  simp [Scalar.sum, foldl_add_eq]

/-- `center` at the real instance: subtract the mean -/
theorem r_center (d : List ℝ) : center d = d.map (fun x => x - d.sum / (d.length : ℝ)) := by
  unfold center
  simp only [vsum, r_sum, r_div, r_sub]
  rfl

@[simp] theorem center_length (d : List ℝ) : (center d).length = d.length := by
  simp [r_center]

theorem sum_map_sub_const (l : List ℝ) (m : ℝ) :
    (l.map (fun x => x - m)).sum = l.sum - (l.length : ℝ) * m := by
  induction l with
  | nil => simp
  | cons a l ih => simp only [List.map_cons, List.sum_cons, ih, List.length_cons, Nat.cast_succ]; ring

/-- the centred gradient sums to zero -/
theorem center_sum (d : List ℝ) : (center d).sum = 0 := by
  rw [r_center, sum_map_sub_const]
  cases d with
  | nil => simp
  | cons a l =>
    have : ((a :: l).length : ℝ) ≠ 0 := by
      simp only [List.length_cons, Nat.cast_succ]
      positivity
    field_simp
    ring

/-- `center` is idempotent -/
theorem center_idem (d : List ℝ) : center (center d) = center d := by
  rw [r_center (center d), center_sum]
  simp

theorem dotv_eq (x y : List ℝ) : dotv x y = (List.zipWith (· * ·) x y).sum := by
  simp only [dotv, r_sum]
  rfl

theorem sum_zipWith_sub (x y : List ℝ) (h : x.length = y.length) :
    (List.zipWith (· - ·) x y).sum = x.sum - y.sum := by
  induction x generalizing y with
  | nil => cases y with
    | nil => simp
    | cons b y => simp at h
  | cons a x ih => cases y with
    | nil => simp at h
    | cons b y =>
      simp only [List.zipWith_cons_cons, List.sum_cons, ih y (by simpa using h)]
      ring

theorem dotv_map_sub_const (d z : List ℝ) (m : ℝ) (h : d.length = z.length) :
    dotv (d.map (fun x => x - m)) z = dotv d z - m * z.sum := by
  rw [dotv_eq, dotv_eq]
  induction d generalizing z with
  | nil => cases z with
    | nil => simp
    | cons b z => simp at h
  | cons a d ih => cases z with
    | nil => simp at h
    | cons b z =>
      simp only [List.map_cons, List.zipWith_cons_cons, List.sum_cons, ih z (by simpa using h)]
      ring

/-- **centring changes neither the step nor the test**: against a difference of two vectors of equal
mass the centred gradient has the same inner product as the gradient itself -/
theorem center_dot_invariant (d x y : List ℝ) (h1 : d.length = x.length) (h2 : x.length = y.length)
    (hs : x.sum = y.sum) :
    dotv (center d) (List.zipWith (· - ·) x y) = dotv d (List.zipWith (· - ·) x y) := by
  rw [r_center, dotv_map_sub_const _ _ _ (by simp [h1, h2]), sum_zipWith_sub x y h2, hs]
  ring

noncomputable def logQ0 (s : EmdState ℝ) : List ℝ :=
  List.zipWith (fun lp d => lp - s.alpha * d) s.logP (center s.dL)

noncomputable def logQ (total : ℝ) (s : EmdState ℝ) : List ℝ :=
  (logQ0 s).map (fun v => v + (Real.log total - Real.log (((logQ0 s).map Real.exp).sum)))

/-- the proposed point `Q` of one iteration -/
noncomputable def Qpt (total : ℝ) (s : EmdState ℝ) : List ℝ := (logQ total s).map Real.exp

/-- the acceptance threshold `½·α·⟨dL, P₀ − Q⟩` (with the centred gradient and the stale `P₀`) -/
noncomputable def thr (total : ℝ) (P0 : List ℝ) (s : EmdState ℝ) : ℝ :=
  (1 / 2 : ℝ) * s.alpha * dotv (center s.dL) (List.zipWith (· - ·) P0 (Qpt total s))

/-- `emdStep` at the real instance, as an `if` on the real acceptance inequality -/
theorem emdStep_eq (lossgrad : List ℝ → ℝ × List ℝ) (total : ℝ) (P0 : List ℝ) (s : EmdState ℝ) :
    emdStep lossgrad total P0 s =
      if thr total P0 s ≤ s.loss - (lossgrad (Qpt total s)).1 then
        ⟨logQ total s, (lossgrad (Qpt total s)).1, (lossgrad (Qpt total s)).2,
          if s.begun then s.alpha else s.alpha * 2, s.begun⟩
      else ⟨s.logP, s.loss, center s.dL, s.alpha * (1 / 2), true⟩ := by
  unfold emdStep
  simp only [r_add, r_mul, r_div, r_sub, r_exp_fun, r_log, r_lse, r_one, r_le0, r_sub_fun]
  have h2 : (1 : ℝ) / (1 + 1) = 1 / 2 := by norm_num
  have h3 : (1 : ℝ) + 1 = 2 := by norm_num
  rw [h2, h3]
  by_cases h : thr total P0 s ≤ s.loss - (lossgrad (Qpt total s)).1
  · rw [if_pos h, if_pos]
    · rfl
    · simp only [decide_eq_true_eq]
      have : thr total P0 s - (s.loss - (lossgrad (Qpt total s)).1) ≤ 0 := by linarith
      exact this
  · rw [if_neg h, if_neg]
    simp only [decide_eq_true_eq, not_le]
    have : 0 < thr total P0 s - (s.loss - (lossgrad (Qpt total s)).1) := by linarith
    exact this

theorem emdStep_accept (lossgrad : List ℝ → ℝ × List ℝ) (total : ℝ) (P0 : List ℝ) (s : EmdState ℝ)
    (h : thr total P0 s ≤ s.loss - (lossgrad (Qpt total s)).1) :
    emdStep lossgrad total P0 s =
      ⟨logQ total s, (lossgrad (Qpt total s)).1, (lossgrad (Qpt total s)).2,
        if s.begun then s.alpha else s.alpha * 2, s.begun⟩ := by
  rw [emdStep_eq, if_pos h]

theorem emdStep_reject (lossgrad : List ℝ → ℝ × List ℝ) (total : ℝ) (P0 : List ℝ) (s : EmdState ℝ)
    (h : ¬ thr total P0 s ≤ s.loss - (lossgrad (Qpt total s)).1) :
    emdStep lossgrad total P0 s = ⟨s.logP, s.loss, center s.dL, s.alpha * (1 / 2), true⟩ := by
  rw [emdStep_eq, if_neg h]

/-- case analysis of one iteration: accepted (the point moves to `Q`, and the acceptance inequality
holds) or rejected (point and loss unchanged, the stored gradient is now the centred one) -/
theorem emdStep_cases (lossgrad : List ℝ → ℝ × List ℝ) (total : ℝ) (P0 : List ℝ) (s : EmdState ℝ) :
    ((emdStep lossgrad total P0 s).logP = logQ total s ∧
     (emdStep lossgrad total P0 s).loss = (lossgrad (Qpt total s)).1 ∧
     (emdStep lossgrad total P0 s).dL = (lossgrad (Qpt total s)).2 ∧
     (emdStep lossgrad total P0 s).alpha = (if s.begun then s.alpha else s.alpha * 2) ∧
     thr total P0 s ≤ s.loss - (lossgrad (Qpt total s)).1) ∨
    ((emdStep lossgrad total P0 s).logP = s.logP ∧
     (emdStep lossgrad total P0 s).loss = s.loss ∧
     (emdStep lossgrad total P0 s).dL = center s.dL ∧
     (emdStep lossgrad total P0 s).alpha = s.alpha * (1 / 2)) := by
  by_cases h : thr total P0 s ≤ s.loss - (lossgrad (Qpt total s)).1
  · left; rw [emdStep_accept _ _ _ _ h]; exact ⟨rfl, rfl, rfl, rfl, h⟩
  · right; rw [emdStep_reject _ _ _ _ h]; exact ⟨rfl, rfl, rfl, rfl⟩

theorem sum_exp_pos (l : List ℝ) (h : l ≠ []) : 0 < (l.map Real.exp).sum := by
  cases l with
  | nil => exact absurd rfl h
  | cons a l =>
    have h0 : ∀ m : List ℝ, 0 ≤ (m.map Real.exp).sum := by
      intro m
      induction m with
      | nil => simp
      | cons b m ih => simp only [List.map_cons, List.sum_cons]; linarith [Real.exp_pos b]
    simp only [List.map_cons, List.sum_cons]
    linarith [Real.exp_pos a, h0 l]

theorem sum_exp_shift (l : List ℝ) (c : ℝ) :
    ((l.map (fun v => v + c)).map Real.exp).sum = Real.exp c * (l.map Real.exp).sum := by
  induction l with
  | nil => simp
  | cons a l ih =>
    simp only [List.map_cons, List.sum_cons, ih, Real.exp_add]
    ring

theorem sum_map_scale (l : List ℝ) (t S : ℝ) :
    (l.map (fun x => x * t / S)).sum = l.sum * t / S := by
  induction l with
  | nil => simp
  | cons a l ih =>
    simp only [List.map_cons, List.sum_cons, ih]
    ring

theorem sum_pos_of_pos (l : List ℝ) (h : ∀ x ∈ l, 0 < x) (hne : l ≠ []) : 0 < l.sum := by
  cases l with
  | nil => exact absurd rfl hne
  | cons a l =>
    have h0 : ∀ m : List ℝ, (∀ x ∈ m, 0 < x) → 0 ≤ m.sum := by
      intro m
      induction m with
      | nil => simp
      | cons b m ih =>
        intro hm
        simp only [List.sum_cons]
        have := ih (fun x hx => hm x (List.mem_cons_of_mem _ hx))
        have := hm b List.mem_cons_self
        linarith
    simp only [List.sum_cons]
    have := h a List.mem_cons_self
    have := h0 l (fun x hx => h x (List.mem_cons_of_mem _ hx))
    linarith

theorem init_exp (x S total : ℝ) (hx : 0 < x) (hS : 0 < S) (ht : 0 < total) :
    Real.exp (Real.log (x + 0) + Real.log total - Real.log S) = x * total / S := by
  rw [add_zero, Real.exp_sub, Real.exp_add, Real.exp_log hx, Real.exp_log ht, Real.exp_log hS]

theorem init_map_exp (x0 : List ℝ) (total : ℝ) (hx : ∀ x ∈ x0, 0 < x) (hne : x0 ≠ []) (ht : 0 < total) :
    (x0.map (fun x => Real.log (x + 0) + Real.log total - Real.log x0.sum)).map Real.exp
      = x0.map (fun x => x * total / x0.sum) := by
  rw [List.map_map]
  apply List.map_congr_left
  intro x hxm
  exact init_exp x _ total (hx x hxm) (sum_pos_of_pos x0 hx hne) ht

/-- the loop invariant -/
def Inv (n : Nat) (total : ℝ) (s : EmdState ℝ) : Prop :=
  s.logP.length = n ∧ s.dL.length = n ∧ (s.logP.map Real.exp).sum = total

theorem logQ_length (total : ℝ) (s : EmdState ℝ) (n : Nat) (h1 : s.logP.length = n) (h2 : s.dL.length = n) :
    (logQ total s).length = n := by
  simp [logQ, logQ0, h1, h2]

theorem Qpt_length (total : ℝ) (s : EmdState ℝ) (n : Nat) (h1 : s.logP.length = n) (h2 : s.dL.length = n) :
    (Qpt total s).length = n := by
  rw [Qpt, List.length_map]; exact logQ_length total s n h1 h2

theorem logQ_sum (total : ℝ) (ht : 0 < total) (s : EmdState ℝ) (n : Nat) (hn : 0 < n)
    (h1 : s.logP.length = n) (h2 : s.dL.length = n) :
    ((logQ total s).map Real.exp).sum = total := by
  have hlen : (logQ0 s).length = n := by simp [logQ0, h1, h2]
  have hne : logQ0 s ≠ [] := by
    intro h
    rw [h] at hlen
    simp at hlen
    omega
  have hpos := sum_exp_pos _ hne
  unfold logQ
  rw [sum_exp_shift, Real.exp_sub, Real.exp_log ht, Real.exp_log hpos]
  field_simp

theorem emdStep_inv (lossgrad : List ℝ → ℝ × List ℝ) (n : Nat)
    (hg : ∀ w, w.length = n → (lossgrad w).2.length = n) (total : ℝ) (ht : 0 < total) (P0 : List ℝ) (hn : 0 < n)
    (s : EmdState ℝ) (h : Inv n total s) : Inv n total (emdStep lossgrad total P0 s) := by
  obtain ⟨h1, h2, h3⟩ := h
  rcases emdStep_cases lossgrad total P0 s with ⟨e1, _, e3, _⟩ | ⟨e1, _, e3, _⟩
  · refine ⟨?_, ?_, ?_⟩
    · rw [e1]; exact logQ_length total s n h1 h2
    · rw [e3]; exact hg _ (Qpt_length total s n h1 h2)
    · rw [e1]; exact logQ_sum total ht s n hn h1 h2
  · refine ⟨?_, ?_, ?_⟩
    · rw [e1]; exact h1
    · rw [e3, center_length]; exact h2
    · rw [e1]; exact h3

theorem foldl_inv {σ β : Type} (P : σ → Prop) (f : σ → β → σ) (h : ∀ s b, P s → P (f s b))
    (l : List β) (s : σ) (hs : P s) : P (l.foldl f s) := by
  induction l generalizing s with
  | nil => exact hs
  | cons a l ih => exact ih _ (h s a hs)

/-- the normalised tilt `logP − α·d + (log T − lse(logP − α·d))` as a function of the direction `d` -/
noncomputable def tiltLog (lp : List ℝ) (α total : ℝ) (d : List ℝ) : List ℝ :=
  (List.zipWith (fun l x => l - α * x) lp d).map
    (fun v => v + (Real.log total - Real.log (((List.zipWith (fun l x => l - α * x) lp d).map Real.exp).sum)))

theorem logQ_eq_tiltLog (total : ℝ) (s : EmdState ℝ) :
    logQ total s = tiltLog s.logP s.alpha total (center s.dL) := rfl

/-- the tilt does not see a constant added to the direction (`Q` is renormalised) -/
theorem tiltLog_shift (lp d : List ℝ) (α total m : ℝ) :
    tiltLog lp α total (d.map (fun x => x - m)) = tiltLog lp α total d := by
  have e : List.zipWith (fun l x => l - α * x) lp (d.map (fun x => x - m))
      = (List.zipWith (fun l x => l - α * x) lp d).map (fun v => v + α * m) := by
    rw [List.zipWith_map_right, List.map_zipWith]
    congr 1
    funext a b
    ring
  unfold tiltLog
  rw [e]
  by_cases hne : List.zipWith (fun l x => l - α * x) lp d = []
  · rw [hne]; rfl
  · have hpos := sum_exp_pos _ hne
    rw [sum_exp_shift, Real.log_mul (Real.exp_pos _).ne' hpos.ne', Real.log_exp, List.map_map]
    apply List.map_congr_left
    intro v _
    simp only [Function.comp_def]
    ring

/-- **centring does not change the step**: the proposed point computed from the centred gradient is
the one computed from the gradient itself -/
theorem center_step_invariant (total : ℝ) (s : EmdState ℝ) :
    logQ total s = tiltLog s.logP s.alpha total s.dL := by
  rw [logQ_eq_tiltLog, r_center, tiltLog_shift]

end PGM.Public
