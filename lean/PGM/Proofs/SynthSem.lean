import PGM.Model.Synth
import PGM.Proofs.SynthAux
import Mathlib.Algebra.Order.Floor.Ring
import Mathlib.Algebra.Order.Ring.Rat
import Mathlib.Algebra.BigOperators.Group.List.Basic
/-! statements for C11 (rounding-mode synthetic columns) -/
namespace PGM.Synth

/-- hypotheses under which `synthetic_col` is called: nonnegative counts, positive mass -/
structure CountsOK (counts : List Rat) : Prop where
  nonneg : ∀ c ∈ counts, 0 ≤ c
  pos : 0 < sumQ counts

namespace Aux

theorem scaled_nn {counts : List Rat} (total : Nat) (h : CountsOK counts) :
    ∀ x ∈ scaled counts total, 0 ≤ x :=
  scaled_nonneg counts total h.nonneg h.pos

theorem scaled_getD_nn {counts : List Rat} (total : Nat) (h : CountsOK counts) (i : Nat) :
    0 ≤ (scaled counts total).getD i 0 := by
  by_cases hi : i < (scaled counts total).length
  · rw [List.getD_eq_getElem?_getD, List.getElem?_eq_getElem hi, Option.getD_some]
    exact scaled_nn total h _ (List.getElem_mem hi)
  · rw [List.getD_eq_getElem?_getD, List.getElem?_eq_none (not_lt.1 hi), Option.getD_none]

/-- `Σ⌊x⌋ + Σ frac = total` -/
theorem floors_fracs_total {counts : List Rat} (total : Nat) (h : CountsOK counts) :
    ((floors (scaled counts total)).sum : Rat) + (fracs (scaled counts total)).sum = total := by
  rw [floors_add_fracs _ (scaled_nn total h), scaled_sum' _ _ h.pos.ne']

theorem floors_le_total {counts : List Rat} (total : Nat) (h : CountsOK counts) :
    (floors (scaled counts total)).sum ≤ total := by
  have h1 := floors_fracs_total total h
  have h2 := fracs_sum_nonneg (scaled counts total)
  have : ((floors (scaled counts total)).sum : Rat) ≤ total := by linarith
  exact_mod_cast this

/-- the truncated subtraction in `extra` is exact -/
theorem floors_add_extra {counts : List Rat} (total : Nat) (h : CountsOK counts) :
    (floors (scaled counts total)).sum + extra counts total = total := by
  have := floors_le_total total h
  simp only [extra, sumN_eq_sum]
  omega

/-- what an admissible `pick` does to cell `i` -/
theorem cell {counts : List Rat} (total : Nat) (pick : List Nat)
    (hp : pickOK counts total pick = true) (i : Nat) (hi : i < counts.length) :
    (colCounts counts total pick).getD i 0 = ((scaled counts total).getD i 0).floor.toNat ∨
    ((colCounts counts total pick).getD i 0 = ((scaled counts total).getD i 0).floor.toNat + 1 ∧
      0 < (scaled counts total).getD i 0 - ((scaled counts total).getD i 0).floor) := by
  obtain ⟨_, hpos, _⟩ := pickOK_unpack counts total pick hp
  rw [colCounts_getD _ _ _ _ hi]
  by_cases hc : pick.contains i
  · right
    have := (hpos i (List.contains_iff_mem.1 hc)).2
    rw [fracs_getD] at this
    rw [if_pos hc]
    exact ⟨rfl, this⟩
  · left; rw [if_neg hc]

theorem floor_toNat_zero : ((0 : Rat).floor).toNat = 0 := by
  rw [floor_eq]; simp

end Aux

open Aux

/-- the targets sum to `total`; hence `Σ⌊x⌋ ≤ total` and `extra = Σ frac` -/
theorem scaled_sum (counts : List Rat) (total : Nat) (h : CountsOK counts) :
    sumQ (scaled counts total) = total := by
  rw [sumQ_eq_sum, scaled_sum' _ _ h.pos.ne']

theorem extra_eq_sum_fracs (counts : List Rat) (total : Nat) (h : CountsOK counts) :
    (extra counts total : Rat) = sumQ (fracs (scaled counts total)) := by
  have h1 := floors_fracs_total total h
  have h2 : (((floors (scaled counts total)).sum + extra counts total : Nat) : Rat) = total := by
    rw [floors_add_extra total h]
  rw [sumQ_eq_sum]
  push_cast at h2
  linarith

/-- **a valid choice of the extra indices always exists**: there are at least `extra` indices with
positive fractional part (each fractional part is < 1 and they sum to `extra`) -/
theorem extra_le_posfrac (counts : List Rat) (total : Nat) (h : CountsOK counts) :
    extra counts total ≤ ((fracs (scaled counts total)).filter (fun f => decide (0 < f))).length := by
  have h1 := extra_eq_sum_fracs counts total h
  rw [sumQ_eq_sum] at h1
  have h2 := sum_le_posCount (fracs (scaled counts total)) (by
    intro f hf
    simp only [fracs, List.mem_map] at hf
    obtain ⟨x, _, rfl⟩ := hf
    exact (frac_lt_one x).le)
  rw [← h1] at h2
  exact_mod_cast h2

/-- **exact row count**: for every admissible outcome `pick`, the column has exactly `total` entries -/
theorem column_length (counts : List Rat) (total : Nat) (pick : List Nat) (h : CountsOK counts)
    (hp : pickOK counts total pick = true) : (column counts total pick).length = total := by
  obtain ⟨hlen, hpos, hnd⟩ := pickOK_unpack counts total pick hp
  unfold column
  rw [length_flatMap_replicate]
  unfold colCounts
  rw [sum_bump, ← List.range_eq_range', length_floors, length_scaled,
    length_filter_contains pick counts.length hnd (fun i hi => (hpos i hi).1), hlen]
  exact floors_add_extra total h

/-- every emitted value is a valid index of the attribute's domain -/
theorem column_in_domain (counts : List Rat) (total : Nat) (pick : List Nat) (v : Nat)
    (hv : v ∈ column counts total pick) : v < counts.length := by
  have := mem_flatMap_replicate _ 0 v hv
  simpa using this

/-- **rounding error below one, and zero cells stay empty**: value `i` is emitted `⌊xᵢ⌋` or `⌊xᵢ⌋+1`
times, so `|count − xᵢ| < 1`, and never when `xᵢ = 0` -/
theorem colCounts_round (counts : List Rat) (total : Nat) (pick : List Nat) (h : CountsOK counts)
    (hp : pickOK counts total pick = true) (i : Nat) (hi : i < counts.length) :
    let x := (scaled counts total).getD i 0
    let o := (colCounts counts total pick).getD i 0
    |(o : Rat) - x| < 1 ∧ (x = 0 → o = 0) ∧ (counts.getD i 0 = 0 → o = 0) := by
  intro x o
  have hc := cell total pick hp i hi
  have hx : 0 ≤ x := scaled_getD_nn total h i
  have hzero : x = 0 → o = 0 := by
    intro hx0
    change (scaled counts total).getD i 0 = 0 at hx0
    rw [hx0] at hc
    rcases hc with hc | ⟨_, hpos⟩
    · rw [floor_toNat_zero] at hc; exact hc
    · rw [floor_eq] at hpos; simp at hpos
  refine ⟨abs_round_lt_one hx o hc, hzero, ?_⟩
  intro hc0
  apply hzero
  change (scaled counts total).getD i 0 = 0
  rw [scaled_getD, hc0]; simp

/-- the number of occurrences of `i` in the emitted column is `colCounts[i]` -/
theorem column_count (counts : List Rat) (total : Nat) (pick : List Nat) (i : Nat) (hi : i < counts.length) :
    (column counts total pick).count i = (colCounts counts total pick).getD i 0 := by
  have _ := hi
  unfold column
  rw [count_flatMap_replicate]; simp

/-- the histogram of every admissible outcome passes the checker … -/
theorem colOK_of_pick (counts : List Rat) (total : Nat) (pick : List Nat) (h : CountsOK counts)
    (hp : pickOK counts total pick = true) : colOK counts total (colCounts counts total pick) = true := by
  rw [colOK_unpack]
  refine ⟨length_colCounts _ _ _, ?_, ?_⟩
  · have h1 := column_length counts total pick h hp
    unfold column at h1
    rw [length_flatMap_replicate] at h1
    rw [sumN_eq_sum, h1]
  · intro i hi
    have hr := colCounts_round counts total pick h hp i hi
    refine ⟨?_, ?_⟩
    · exact cell total pick hp i hi
    · by_cases hx : (scaled counts total).getD i 0 = 0
      · exact Or.inr (hr.2.1 hx)
      · exact Or.inl hx


/-- … and **the checker is sound**: an observed histogram it accepts has exactly `total` entries,
rounding error below one in every cell, and nothing in zero-probability cells (`colOK` allows
`⌊x⌋ + 1` only when `x` has a positive fractional part, so an integral target is never rounded up). -/
theorem colOK_sound (counts : List Rat) (total : Nat) (out : List Nat) (h : CountsOK counts)
    (hok : colOK counts total out = true) :
    sumN out = total ∧ ∀ i, i < counts.length →
      |((out.getD i 0 : Nat) : Rat) - (scaled counts total).getD i 0| < 1 ∧
      (counts.getD i 0 = 0 → out.getD i 0 = 0) := by
  rw [colOK_unpack] at hok
  obtain ⟨_, hsum, hcell⟩ := hok
  refine ⟨hsum, fun i hi => ?_⟩
  obtain ⟨hfl, hz⟩ := hcell i hi
  have hx : 0 ≤ (scaled counts total).getD i 0 := scaled_getD_nn total h i
  refine ⟨abs_round_lt_one hx _ hfl, ?_⟩
  intro hc0
  have hx0 : (scaled counts total).getD i 0 = 0 := by rw [scaled_getD, hc0]; simp
  rcases hz with hz | hz
  · exact absurd hx0 hz
  · exact hz

end PGM.Synth
