import PGM.Model.Synth
import Mathlib.Algebra.Order.Floor.Ring
import Mathlib.Algebra.Order.Ring.Rat
import Mathlib.Algebra.BigOperators.Group.List.Basic
/-! statements for C11 (rounding-mode synthetic columns) -/
namespace PGM.Synth

/-- hypotheses under which `synthetic_col` is called: nonnegative counts, positive mass -/
structure CountsOK (counts : List Rat) : Prop where
  nonneg : ∀ c ∈ counts, 0 ≤ c
  pos : 0 < sumQ counts

/-- the targets sum to `total`; hence `Σ⌊x⌋ ≤ total` and `extra = Σ frac` -/
theorem scaled_sum (counts : List Rat) (total : Nat) (h : CountsOK counts) :
    sumQ (scaled counts total) = total := by
  sorry

theorem extra_eq_sum_fracs (counts : List Rat) (total : Nat) (h : CountsOK counts) :
    (extra counts total : Rat) = sumQ (fracs (scaled counts total)) := by
  sorry

/-- **a valid choice of the extra indices always exists**: there are at least `extra` indices with
positive fractional part (each fractional part is < 1 and they sum to `extra`) -/
theorem extra_le_posfrac (counts : List Rat) (total : Nat) (h : CountsOK counts) :
    extra counts total ≤ ((fracs (scaled counts total)).filter (fun f => decide (0 < f))).length := by
  sorry

/-- **exact row count**: for every admissible outcome `pick`, the column has exactly `total` entries -/
theorem column_length (counts : List Rat) (total : Nat) (pick : List Nat) (h : CountsOK counts)
    (hp : pickOK counts total pick = true) : (column counts total pick).length = total := by
  sorry

/-- every emitted value is a valid index of the attribute's domain -/
theorem column_in_domain (counts : List Rat) (total : Nat) (pick : List Nat) (v : Nat)
    (hv : v ∈ column counts total pick) : v < counts.length := by
  sorry

/-- **rounding error below one, and zero cells stay empty**: value `i` is emitted `⌊xᵢ⌋` or `⌊xᵢ⌋+1`
times, so `|count − xᵢ| < 1`, and never when `xᵢ = 0` -/
theorem colCounts_round (counts : List Rat) (total : Nat) (pick : List Nat) (h : CountsOK counts)
    (hp : pickOK counts total pick = true) (i : Nat) (hi : i < counts.length) :
    let x := (scaled counts total).getD i 0
    let o := (colCounts counts total pick).getD i 0
    |(o : Rat) - x| < 1 ∧ (x = 0 → o = 0) ∧ (counts.getD i 0 = 0 → o = 0) := by
  sorry

/-- the number of occurrences of `i` in the emitted column is `colCounts[i]` -/
theorem column_count (counts : List Rat) (total : Nat) (pick : List Nat) (i : Nat) (hi : i < counts.length) :
    (column counts total pick).count i = (colCounts counts total pick).getD i 0 := by
  sorry

/-- the histogram of every admissible outcome passes the checker … -/
theorem colOK_of_pick (counts : List Rat) (total : Nat) (pick : List Nat) (h : CountsOK counts)
    (hp : pickOK counts total pick = true) : colOK counts total (colCounts counts total pick) = true := by
  sorry

/-- … and **the checker is sound**: an observed histogram it accepts has exactly `total` entries,
rounding error below one in every cell, and nothing in zero-probability cells -/
theorem colOK_sound (counts : List Rat) (total : Nat) (out : List Nat) (h : CountsOK counts)
    (hok : colOK counts total out = true) :
    sumN out = total ∧ ∀ i, i < counts.length →
      |((out.getD i 0 : Nat) : Rat) - (scaled counts total).getD i 0| < 1 ∧
      (counts.getD i 0 = 0 → out.getD i 0 = 0) := by
  sorry

end PGM.Synth
