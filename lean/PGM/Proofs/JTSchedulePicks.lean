import PGM.Proofs.JTree
/-!
# `_greedy_order(stochastic=True)` and the integer mode of `_make_tree`

Whatever indices `np.random.choice` draws, the stochastic elimination order is a permutation of the
domain's attributes; `min(orders, key=cost)` returns a member of least cost; hence the order used in
integer mode is a permutation.
-/
namespace PGM.JT

/-- the `k`-th pick is a valid index into the `n - k` attributes still unmarked:
what `np.random.choice(probas.size, p=probas)` can return at each step -/
def picksInRange : Nat → List Nat → Bool
  | _, [] => true
  | n, i :: ps => decide (i < n) && picksInRange (n - 1) ps

theorem picksInRange_iff (n : Nat) (picks : List Nat) :
    picksInRange n picks = true ↔ ∀ k (h : k < picks.length), picks[k] < n - k := by
  induction picks generalizing n with
  | nil => simp [picksInRange]
  | cons i ps ih =>
    simp only [picksInRange, Bool.and_eq_true, decide_eq_true_eq, ih, List.length_cons]
    constructor
    · rintro ⟨h0, hr⟩ k hk
      cases k with
      | zero => simpa using h0
      | succ k =>
        have := hr k (by omega)
        simp only [List.getElem_cons_succ]
        omega
    · intro h
      refine ⟨by simpa using h 0 (by omega), fun k hk => ?_⟩
      have := h (k + 1) (by omega)
      simp only [List.getElem_cons_succ] at this
      omega

theorem greedyOrderPicks_nil (d : Dom) (cliques : List Clique) (picks : List Nat) :
    greedyOrderPicks d cliques [] picks = ([], 0) := by
  rw [greedyOrderPicks]

theorem greedyOrderPicks_cons (d : Dom) (cliques : List Clique) (u : Attr) (us : List Attr)
    (i : Nat) (picks : List Nat) (a : Attr) (ha : (u :: us)[i]? = some a) :
    greedyOrderPicks d cliques (u :: us) (i :: picks) =
      (a :: (greedyOrderPicks d (elimStep cliques a) ((u :: us).filter (· != a)) picks).1,
        elimCost d cliques a +
          (greedyOrderPicks d (elimStep cliques a) ((u :: us).filter (· != a)) picks).2) := by
  rw [greedyOrderPicks]
  simp only [ha]

theorem length_filter_ne {l : List Attr} (hnd : l.Nodup) {a : Attr} (ha : a ∈ l) :
    (l.filter (· != a)).length = l.length - 1 := by
  have := (perm_cons_filter_ne hnd ha).length_eq
  simp only [List.length_cons] at this
  omega

/-- **the stochastic elimination order is a permutation of the attributes**, for every outcome of
the random draws -/
theorem greedyOrderPicks_perm (d : Dom) (picks : List Nat) :
    ∀ (cliques : List Clique) (attrs : List Attr), attrs.Nodup →
      picks.length = attrs.length → picksInRange attrs.length picks = true →
      (greedyOrderPicks d cliques attrs picks).1.Perm attrs := by
  induction picks with
  | nil =>
    intro cliques attrs _ hlen _
    have : attrs = [] := List.eq_nil_of_length_eq_zero (by simpa using hlen.symm)
    subst this
    rw [greedyOrderPicks_nil]
  | cons i ps ih =>
    intro cliques attrs hnd hlen hr
    cases attrs with
    | nil => simp at hlen
    | cons u us =>
      simp only [picksInRange, Bool.and_eq_true, decide_eq_true_eq] at hr
      obtain ⟨hi, hrest⟩ := hr
      have hget : (u :: us)[i]? = some ((u :: us)[i]) := List.getElem?_eq_getElem hi
      have hmem : (u :: us)[i] ∈ u :: us := List.getElem_mem hi
      rw [greedyOrderPicks_cons d cliques u us i ps _ hget]
      generalize (u :: us)[i] = a at hmem ⊢
      have hl := length_filter_ne hnd hmem
      refine List.Perm.trans (List.Perm.cons _ (ih _ _ (hnd.filter _) ?_ ?_))
        (perm_cons_filter_ne hnd hmem)
      · simp only [List.length_cons] at hlen hl ⊢
        omega
      · rw [hl]; exact hrest

/-! ## `min(orders, key = cost)` -/

theorem foldl_min_spec (os : List (List Attr × Nat)) :
    ∀ o : List Attr × Nat,
      os.foldl (fun b x => if x.2 < b.2 then x else b) o ∈ o :: os ∧
      ∀ x ∈ o :: os, (os.foldl (fun b x => if x.2 < b.2 then x else b) o).2 ≤ x.2 := by
  induction os with
  | nil => intro o; simp
  | cons y ys ih =>
    intro o
    simp only [List.foldl_cons]
    by_cases h : y.2 < o.2
    · simp only [h, if_true]
      obtain ⟨h1, h2⟩ := ih y
      refine ⟨List.mem_cons_of_mem _ h1, fun x hx => ?_⟩
      rcases List.mem_cons.1 hx with rfl | hx
      · have := h2 y (by simp); omega
      · exact h2 x hx
    · simp only [h, if_false]
      obtain ⟨h1, h2⟩ := ih o
      refine ⟨?_, fun x hx => ?_⟩
      · rcases List.mem_cons.1 h1 with h1 | h1
        · rw [h1]; simp
        · exact List.mem_cons_of_mem _ (List.mem_cons_of_mem _ h1)
      · rcases List.mem_cons.1 hx with rfl | hx
        · exact h2 x (by simp)
        · rcases List.mem_cons.1 hx with rfl | hx
          · have := h2 o (by simp); omega
          · exact h2 x (List.mem_cons_of_mem _ hx)

/-- **`firstMin` returns a member of least cost** -/
theorem firstMin_mem (l : List (List Attr × Nat)) (o : List Attr × Nat)
    (h : firstMin l = some o) : o ∈ l ∧ ∀ x ∈ l, o.2 ≤ x.2 := by
  cases l with
  | nil => simp [firstMin] at h
  | cons a as =>
    simp only [firstMin, Option.some.injEq] at h
    subst h
    exact foldl_min_spec as a

/-- the left fold `fun b x => if f x < f b then x else b` (Python's `min(…, key=f)`) returns the
first element of least key: everything before it is strictly larger, everything after at least as
large -/
theorem foldl_argmin_split {α : Type} (f : α → Nat) :
    ∀ (ys pre0 : List α) (b : α) (post0 : List α),
      (∀ x ∈ pre0, f b < f x) → (∀ x ∈ post0, f b ≤ f x) →
      ∃ pre post, pre0 ++ b :: post0 ++ ys
          = pre ++ (ys.foldl (fun b x => if f x < f b then x else b) b) :: post ∧
        (∀ x ∈ pre, f (ys.foldl (fun b x => if f x < f b then x else b) b) < f x) ∧
        (∀ x ∈ post, f (ys.foldl (fun b x => if f x < f b then x else b) b) ≤ f x) := by
  intro ys
  induction ys with
  | nil => intro pre0 b post0 h1 h2; exact ⟨pre0, post0, by simp, h1, h2⟩
  | cons y ys ih =>
    intro pre0 b post0 h1 h2
    simp only [List.foldl_cons]
    by_cases hy : f y < f b
    · simp only [hy, if_true]
      obtain ⟨pre, post, he, hp, hq⟩ := ih (pre0 ++ b :: post0) y [] (by
        intro x hx
        rcases List.mem_append.1 hx with hx | hx
        · have := h1 x hx; omega
        · rcases List.mem_cons.1 hx with rfl | hx
          · exact hy
          · have := h2 x hx; omega) (by simp)
      exact ⟨pre, post, by rw [← he]; simp, hp, hq⟩
    · simp only [hy, if_false]
      obtain ⟨pre, post, he, hp, hq⟩ := ih pre0 b (post0 ++ [y]) h1 (by
        intro x hx
        rcases List.mem_append.1 hx with hx | hx
        · exact h2 x hx
        · simp only [List.mem_singleton] at hx; subst hx; omega)
      exact ⟨pre, post, by rw [← he]; simp, hp, hq⟩

/-- … and, among those of least cost, the first one (Python's `min` keeps the earliest) -/
theorem firstMin_first (l : List (List Attr × Nat)) (o : List Attr × Nat)
    (h : firstMin l = some o) :
    ∃ pre post, l = pre ++ o :: post ∧ ∀ x ∈ pre, o.2 < x.2 := by
  cases l with
  | nil => simp [firstMin] at h
  | cons a as =>
    simp only [firstMin, Option.some.injEq] at h
    subst h
    obtain ⟨pre, post, he, hp, -⟩ :=
      foldl_argmin_split (fun x : List Attr × Nat => x.2) as [] a [] (by simp) (by simp)
    exact ⟨pre, post, by simpa using he, hp⟩

theorem firstMin_isSome (l : List (List Attr × Nat)) (hne : l ≠ []) :
    ∃ o, firstMin l = some o := by
  cases l with
  | nil => exact absurd rfl hne
  | cons a as => exact ⟨_, rfl⟩

/-- **integer mode of `_make_tree`**: if every candidate order is a permutation of `attrs`, so is
the one `min(orders, key=cost)` picks -/
theorem int_mode_order_perm (attrs : List Attr) (l : List (List Attr × Nat)) (hne : l ≠ [])
    (hall : ∀ x ∈ l, x.1.Perm attrs) :
    ∃ o, firstMin l = some o ∧ o ∈ l ∧ (∀ x ∈ l, o.2 ≤ x.2) ∧ o.1.Perm attrs := by
  obtain ⟨o, ho⟩ := firstMin_isSome l hne
  obtain ⟨h1, h2⟩ := firstMin_mem l o ho
  exact ⟨o, ho, h1, h2, hall o h1⟩

/-- the candidate list of `_make_tree(order = n)`: the deterministic greedy order first, then one
stochastic order per list of draws -/
def intModeCandidates (d : Dom) (cliques : List Clique) (attrs : List Attr)
    (draws : List (List Nat)) : List (List Attr × Nat) :=
  (greedyOrder d cliques attrs attrs.length,
      greedyCost d cliques (greedyOrder d cliques attrs attrs.length)) ::
    draws.map (fun picks => greedyOrderPicks d cliques attrs picks)

/-- integer mode, instantiated: whatever the `n` sequences of random draws, the elimination order
chosen by `_make_tree(order = n)` is a permutation of the domain's attributes -/
theorem int_mode_make_tree_perm (d : Dom) (cliques : List Clique) (attrs : List Attr)
    (hnd : attrs.Nodup) (draws : List (List Nat))
    (hdraws : ∀ picks ∈ draws, picks.length = attrs.length ∧
      picksInRange attrs.length picks = true) :
    ∃ o, firstMin (intModeCandidates d cliques attrs draws) = some o ∧ o.1.Perm attrs := by
  obtain ⟨o, ho, -, -, hp⟩ := int_mode_order_perm attrs (intModeCandidates d cliques attrs draws)
    (by simp [intModeCandidates]) (by
      intro x hx
      simp only [intModeCandidates, List.mem_cons, List.mem_map] at hx
      rcases hx with rfl | ⟨picks, hp, rfl⟩
      · exact greedyOrder_perm d cliques attrs hnd
      · exact greedyOrderPicks_perm d picks cliques attrs hnd (hdraws picks hp).1 (hdraws picks hp).2)
  exact ⟨o, ho, hp⟩

end PGM.JT
