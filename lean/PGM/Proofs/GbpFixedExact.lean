import PGM.Proofs.GbpFixedBelief
/-!
# Fixed points of generalised propagation: the returned tables, stationarity, two-clique junction trees

* `gbp_table` — the table `RG.gbp` returns for a region is `tableOf` of the message state after the sweeps;
* `Hyp.sweep` — the layout hypotheses are an invariant of the sweeps;
* `iterate_stationary` — once a sweep reproduces the state, all later states are that state;
* `two_clique_claim` — junction tree with two maximal cliques `c1, c2` and separator `s = c1 ∩ c2`: at a fixed point
  the exact unnormalised marginal of the product model on `c1` is a constant multiple of `exp(belief of c1)`.
-/
namespace PGM.GbpFixed
open PGM PGM.JT PGM.RG PGM.Convex PGM.Sem
set_option linter.unusedSectionVars false
set_option linter.unusedVariables false

/-! ### what `RG.gbp` returns -/

theorem gbp_table (dom : Dom) (g : RG.Graph) (pots : CliqueVec ℝ) (T : ℝ) (iters : Nat) (m : Msgs ℝ)
    (r : Region) (hr : r ∈ g.cliques) :
    (RG.gbp dom g pots T iters m).1.get r
      = tableOf g (potOf dom g pots) T (iterate (gbpSweep g (potOf dom g pots)) iters m) r := by
  rw [Oracle.gbp_get dom g pots T iters m r hr]
  unfold tableOf beliefOf Oracle.gbpBelief potOf
  rw [if_pos (List.contains_iff_mem.mpr hr)]

theorem gbp_msgs (dom : Dom) (g : RG.Graph) (pots : CliqueVec ℝ) (T : ℝ) (iters : Nat) (m : Msgs ℝ) :
    (RG.gbp dom g pots T iters m).2 = iterate (gbpSweep g (potOf dom g pots)) iters m := rfl

/-! ### stationarity -/

theorem iterate_add {β : Type} (f : β → β) (n k : Nat) (x : β) :
    iterate f (n + k) x = iterate f k (iterate f n x) := by
  induction n generalizing x with
  | zero => simp [iterate]
  | succ n ih =>
    have : n + 1 + k = (n + k) + 1 := by omega
    rw [this]
    show iterate f (n + k) (f x) = iterate f k (iterate f n (f x))
    exact ih (f x)

theorem iterate_fixed {β : Type} (f : β → β) (k : Nat) (x : β) (h : f x = x) : iterate f k x = x := by
  induction k with
  | zero => rfl
  | succ k ih =>
    show iterate f k (f x) = x
    rw [h, ih]

/-- once a sweep reproduces the state reached after `n0` sweeps, every later state is that state -/
theorem iterate_stationary {β : Type} (f : β → β) (n0 n : Nat) (x : β) (h : f (iterate f n0 x) = iterate f n0 x)
    (hn : n0 ≤ n) : iterate f n x = iterate f n0 x := by
  obtain ⟨k, rfl⟩ := Nat.exists_eq_add_of_le hn
  rw [iterate_add, iterate_fixed f k _ h]

/-! ### the layout hypotheses are an invariant of the sweeps -/

section
variable {dom : Dom} {g : RG.Graph} {pot : Region → Factor ℝ} {m : Msgs ℝ}

theorem damp2_sub {r : Region} {a b : Factor ℝ} (ha : Sub dom r a) (hb : Sub dom r b) : Sub dom r (damp2 a b) :=
  binop_sub _ (mulScalar_sub _ ha) (mulScalar_sub _ hb)

theorem Hyp.sweep (h : Hyp dom g pot m) : Hyp dom g pot (gbpSweep g pot m) := by
  refine ⟨h.gok, h.pos, h.shape, ?_⟩
  intro e he
  rw [gbpSweep_get g pot m h.order_nodup e, if_pos he]
  exact damp2_sub (h.msg_sub he) (newDict_sub h e he)

theorem Hyp.iterate (h : Hyp dom g pot m) (n : Nat) : Hyp dom g pot (iterate (gbpSweep g pot) n m) := by
  induction n generalizing m with
  | zero => exact h
  | succ n ih => exact ih h.sweep

/-- the empty message state (every lookup gives the scalar table `zeros []`) satisfies the layout hypotheses -/
theorem hyp_nil (hg : GraphOK dom g pot) (hpos : ∀ p ∈ dom, 0 < p.2) (hs : Shape g) : Hyp dom g pot [] :=
  ⟨hg, hpos, hs, fun e _ => zeros_nil_sub dom e.2⟩

/-! ### two maximal cliques, one separator -/

theorem sumOver_one_indep (d : Dom) (as : List Attr) (σ τ : Attr → Nat) :
    sumOver d as σ (fun _ => (1 : ℝ)) = sumOver d as τ (fun _ => (1 : ℝ)) := rfl

/-- **the exact marginal on `c1` is proportional to `exp(belief of c1)`** when `c2 → s` is an edge with empty
`N`, `D` sets, `B[c1] = {(c2,s)}` and `s = c1 ∩ c2` -/
theorem two_clique_claim (h : Hyp dom g pot m) (hfix : SemFixed dom g pot m) {c1 c2 s : Region}
    (hc1 : c1 ∈ g.regions) (he2 : (c2, s) ∈ g.messageOrder)
    (hN : look g.N (c2, s) = []) (hD : look g.D (c2, s) = []) (hB1 : look g.B c1 = [(c2, s)])
    (hsep : ∀ a, a ∈ s ↔ (a ∈ c1 ∧ a ∈ c2)) :
    ∃ K : ℝ, ∀ σ, dom.Valid σ →
      sumOver dom (dom.invert c1) σ (fun τ => Real.exp ((pot c1).sem τ + (pot c2).sem τ))
        = K * Real.exp (belVal g pot m c1 σ) := by
  have hd := h.gok.dom_wf
  have hc2 : c2 ∈ g.regions := (h.order_sound _ he2).1
  have hr1 := h.gok.region_ok c1 hc1
  have hr2 := h.gok.region_ok c2 hc2
  obtain ⟨c, hc⟩ := edge_equation h hfix he2
  -- the fixed-point equation of `c2 → s` with empty `N`, `D`
  have hE : ∀ τ, dom.Valid τ →
      sumOver dom (c2.filter (fun a => !s.contains a)) τ (fun ρ => Real.exp ((pot c2).sem ρ))
        = Real.exp ((m.get (c2, s)).sem τ + c) := by
    intro τ hτ
    have h1 := hc τ hτ
    simp only [hD, sumMsgs, List.map_nil, List.sum_nil, sub_zero] at h1
    have hnum : (fun ρ => Real.exp (numVal g pot m (c2, s) ρ)) = (fun ρ => Real.exp ((pot c2).sem ρ)) := by
      funext ρ
      unfold numVal sumMsgs
      rw [hN]
      simp
    rw [hnum] at h1
    have hpos : 0 < sumOver dom (c2.filter (fun a => !s.contains a)) τ (fun ρ => Real.exp ((pot c2).sem ρ)) := by
      apply LbpTree.sumOver_pos
      · intro a ha
        exact cfg_ne_zero_of_pos dom hd h.pos a (hr2.2 a (List.mem_filter.mp ha).1)
      · intro ρ; exact Real.exp_pos _
    rw [← Real.exp_log hpos]
    congr 1
    linarith
  -- the belief of `c1`
  have hbel : ∀ τ, belVal g pot m c1 τ = (pot c1).sem τ + (m.get (c2, s)).sem τ := by
    intro τ
    unfold belVal sumMsgs
    rw [hB1]
    simp
  have hmsub : Sub dom s (m.get (c2, s)) := h.msg_sub he2
  -- split the complement of `c1` into the part inside `c2` and the rest
  let I := dom.invert c1
  have hI : ∀ a, a ∈ I ↔ (a ∈ dom.attrs ∧ a ∉ c1) := by
    intro a
    show a ∈ dom.attrs.filter (fun a => !c1.contains a) ↔ _
    simp [List.mem_filter]
  have hInd : I.Nodup := hd.sublist List.filter_sublist
  let J := I.filter (fun a => c2.contains a)
  let R := I.filter (fun a => !c2.contains a)
  have hperm : J.Perm (c2.filter (fun a => !s.contains a)) := by
    rw [List.perm_ext_iff_of_nodup (hInd.sublist List.filter_sublist) (hr2.1.sublist List.filter_sublist)]
    intro a
    simp only [List.mem_filter, hI, List.contains_iff_mem, Bool.not_eq_eq_eq_not, Bool.not_true]
    constructor
    · rintro ⟨⟨_, h1⟩, h2⟩
      refine ⟨h2, ?_⟩
      have : a ∉ s := fun hs => h1 ((hsep a).mp hs).1
      simpa using this
    · rintro ⟨h2, h3⟩
      have h3' : a ∉ s := by simpa using h3
      exact ⟨⟨hr2.2 a h2, fun h1 => h3' ((hsep a).mpr ⟨h1, h2⟩)⟩, h2⟩
  have hJ1 : ∀ a ∈ J, a ∉ c1 := fun a ha => ((hI a).mp (List.mem_filter.mp ha).1).2
  have hR1 : ∀ a ∈ R, a ∉ c1 := fun a ha => ((hI a).mp (List.mem_filter.mp ha).1).2
  have hpot1 : (pot c1).dom.attrs = c1 := (h.gok.pot_ok c1 hc1).attrs
  refine ⟨Real.exp c * sumOver dom R (fun _ => 0) (fun _ => (1 : ℝ)), ?_⟩
  intro σ hσ
  show sumOver dom I σ _ = _
  rw [← sumOver_split dom I (fun a => !c2.contains a) σ _ hInd]
  have hinner : ∀ τ, dom.Valid τ →
      sumOver dom (I.filter (fun a => !!c2.contains a)) τ
          (fun ρ => Real.exp ((pot c1).sem ρ + (pot c2).sem ρ))
        = Real.exp (belVal g pot m c1 τ + c) := by
    intro τ hτ
    have hJeq : I.filter (fun a => !!c2.contains a) = J := by
      show _ = I.filter (fun a => c2.contains a)
      apply List.filter_congr
      intro a _
      simp
    rw [hJeq]
    have e1 : sumOver dom J τ (fun ρ => Real.exp ((pot c1).sem ρ + (pot c2).sem ρ))
        = Real.exp ((pot c1).sem τ) * sumOver dom J τ (fun ρ => Real.exp ((pot c2).sem ρ)) := by
      have := sumOver_factor_left dom J τ (fun ρ => Real.exp ((pot c1).sem ρ))
        (fun ρ => Real.exp ((pot c2).sem ρ)) (by
          intro v _
          show Real.exp ((pot c1).sem (Dom.override τ J v)) = Real.exp ((pot c1).sem τ)
          rw [sem_override_of_disjoint (pot c1) τ J v (fun a ha hmem => hJ1 a ha (hpot1 ▸ hmem))])
      rw [← this]
      apply sumOver_congr
      intro v _
      simp only [Real.exp_add]
    rw [e1, sumOver_perm dom J _ τ _ hperm (hInd.sublist List.filter_sublist), hE τ hτ, ← Real.exp_add, hbel τ]
    congr 1
    ring
  rw [sumOver_congr_valid dom hd _ σ _ (fun τ => Real.exp (belVal g pot m c1 τ + c)) hσ hinner]
  show sumOver dom R σ _ = _
  have hconst : ∀ v, belVal g pot m c1 (Dom.override σ R v) = belVal g pot m c1 σ := by
    intro v
    rw [hbel, hbel, sem_override_of_disjoint (pot c1) σ R v (fun a ha hmem => hR1 a ha (hpot1 ▸ hmem)),
      sem_override_of_disjoint (m.get (c2, s)) σ R v
        (fun a ha hmem => hR1 a ha ((hsep a).mp (hmsub.2 a hmem)).1)]
  have e2 : sumOver dom R σ (fun τ => Real.exp (belVal g pot m c1 τ + c))
      = sumOver dom R σ (fun τ => Real.exp (belVal g pot m c1 σ + c) * (fun _ => (1 : ℝ)) τ) := by
    apply sumOver_congr
    intro v _
    simp only [hconst v, mul_one]
  rw [e2, sumOver_mul_left, sumOver_one_indep dom R σ (fun _ => 0), Real.exp_add]
  ring

end
end PGM.GbpFixed
