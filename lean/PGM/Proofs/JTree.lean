import PGM.Model.JTree
import Mathlib.Logic.Relation
/-! semantic validity of junction trees and soundness of the executable checker -/
namespace PGM.JT

/-- `b` is reachable from `a` along tree edges through nodes of `allowed` only -/
def Conn (t : Tree) (allowed : List Clique) : Clique → Clique → Prop :=
  Relation.ReflTransGen (fun a b => t.adj a b = true ∧ b ∈ allowed)

/-- the property's clauses, semantically -/
structure Valid (attrs : List Attr) (cliques : List Clique) (t : Tree)
    (order : List (Clique × Clique)) : Prop where
  /-- every input clique is contained in some node -/
  covers_input : ∀ c ∈ cliques, ∃ n ∈ t.nodes, ∀ a ∈ c, a ∈ n
  /-- every attribute of the domain appears -/
  covers_domain : ∀ a ∈ attrs, ∃ n ∈ t.nodes, a ∈ n
  /-- no node contains another -/
  antichain : ∀ a ∈ t.nodes, ∀ b ∈ t.nodes, a ≠ b → ¬ (∀ x ∈ a, x ∈ b)
  /-- tree shape: |E| = |V| − 1 and connected -/
  edge_count : t.edges.length + 1 = t.nodes.length
  connected : ∀ n ∈ t.nodes, ∀ m ∈ t.nodes, Conn t t.nodes n m
  /-- running intersection: the nodes containing any given attribute form a connected subtree -/
  rip : ∀ a ∈ attrs, ∀ n ∈ t.nodes, ∀ m ∈ t.nodes, a ∈ n → a ∈ m →
    Conn t (t.nodes.filter (fun k => k.contains a)) n m
  /-- the schedule lists each direction of each tree edge exactly once -/
  sched_nodup : order.Nodup
  sched_edges : ∀ e ∈ t.edges, (e.1, e.2) ∈ order ∧ (e.2, e.1) ∈ order
  sched_count : order.length = 2 * t.edges.length
  /-- and only after every message it depends on -/
  sched_respects : ∀ (p : Nat) (i j : Clique), order[p]? = some (i, j) →
    ∀ k ∈ t.nodes, t.adj i k = true → k ≠ j → ∃ q, q < p ∧ order[q]? = some (k, i)

/-! ## soundness of the checker -/


theorem nodup_iff {β : Type} [BEq β] [LawfulBEq β] (l : List β) : nodup l = true ↔ l.Nodup := by
  induction l with
  | nil => simp [nodup]
  | cons x xs ih => simp [nodup, ih]

theorem tree_adj_symm (t : Tree) (a b : Clique) : t.adj a b = t.adj b a := by
  simp [Tree.adj, Bool.or_comm]

theorem subset_iff (a b : Clique) : subset a b = true ↔ ∀ x ∈ a, x ∈ b := by
  simp [subset]

theorem reach_sound (t : Tree) (allowed : List Clique) (a : Clique) (fuel : Nat) :
    ∀ s : List Clique,
      (∀ x ∈ s, x ∈ allowed ∧ Conn t allowed a x ∧ Conn t allowed x a) →
      ∀ x ∈ reach t allowed fuel s, x ∈ allowed ∧ Conn t allowed a x ∧ Conn t allowed x a := by
  induction fuel with
  | zero => intro s hs x hx; exact hs x hx
  | succ fuel ih =>
    intro s hs x hx
    simp only [reach] at hx
    refine ih _ ?_ x hx
    intro y hy
    rcases List.mem_append.1 hy with hy | hy
    · exact hs y hy
    · simp only [List.mem_filter, Bool.and_eq_true, List.any_eq_true] at hy
      obtain ⟨hya, _, z, hz, hzy⟩ := hy
      obtain ⟨hza, h1, h2⟩ := hs z hz
      refine ⟨hya, h1.tail ⟨hzy, hya⟩, ?_⟩
      exact Relation.ReflTransGen.head ⟨by rw [tree_adj_symm]; exact hzy, hza⟩ h2

theorem connectedWithin_sound (t : Tree) (allowed : List Clique)
    (h : connectedWithin t allowed = true) :
    ∀ n ∈ allowed, ∀ m ∈ allowed, Conn t allowed n m := by
  cases allowed with
  | nil => intro n hn; simp at hn
  | cons a rest =>
    simp only [connectedWithin, List.all_eq_true, List.contains_iff_mem] at h
    have key := reach_sound t (a :: rest) a (a :: rest).length [a] (by
      intro x hx
      have : x = a := by simpa using hx
      subst this
      exact ⟨by simp, Relation.ReflTransGen.refl, Relation.ReflTransGen.refl⟩)
    intro n hn m hm
    exact (key n (h n hn)).2.2.trans (key m (h m hm)).2.1

theorem scheduleRespects_sound (t : Tree) (rest : List (Clique × Clique)) :
    ∀ before : List (Clique × Clique), scheduleRespects t before rest = true →
      ∀ (p : Nat) (i j : Clique), rest[p]? = some (i, j) →
        ∀ k ∈ t.nodes, t.adj i k = true → k ≠ j →
          ∃ q, q < before.length + p ∧ (before ++ rest)[q]? = some (k, i) := by
  induction rest with
  | nil => intro before _ p i j hp; simp at hp
  | cons e rest ih =>
    intro before h p i j hp k hk hik hkj
    obtain ⟨i0, j0⟩ := e
    simp only [scheduleRespects, Bool.and_eq_true, List.all_eq_true] at h
    cases p with
    | zero =>
      simp only [List.getElem?_cons_zero, Option.some.injEq, Prod.mk.injEq] at hp
      obtain ⟨rfl, rfl⟩ := hp
      have hkn : k ∈ t.nbrs i0 := by simp [Tree.nbrs, hk, hik]
      have := h.1 k hkn
      simp only [Bool.or_eq_true, beq_iff_eq, List.contains_iff_mem] at this
      rcases this with h' | h'
      · exact absurd h' hkj
      · obtain ⟨q, hq, hq'⟩ := List.getElem_of_mem h'
        refine ⟨q, by simpa using hq, ?_⟩
        rw [List.getElem?_append_left hq, List.getElem?_eq_getElem hq, hq']
    | succ p =>
      simp only [List.getElem?_cons_succ] at hp
      obtain ⟨q, hq, hq'⟩ := ih _ h.2 p i j hp k hk hik hkj
      refine ⟨q, ?_, ?_⟩
      · simp only [List.length_append, List.length_cons, List.length_nil] at hq; omega
      · simpa [List.append_assoc] using hq'


theorem checkJT_sound (attrs : List Attr) (cliques : List Clique) (t : Tree)
    (order : List (Clique × Clique)) (h : checkJT attrs cliques t order = true) :
    Valid attrs cliques t order := by
  simp only [checkJT, isTree, scheduleComplete, Bool.and_eq_true] at h
  obtain ⟨⟨⟨⟨⟨⟨hci, hcd⟩, hac⟩, ⟨⟨⟨hnd, hec⟩, _⟩, hconn⟩⟩, hrip⟩, ⟨⟨hsn, hsc⟩, hse⟩⟩, hsr⟩ := h
  refine
    { covers_input := ?_, covers_domain := ?_, antichain := ?_, edge_count := ?_, connected := ?_,
      rip := ?_, sched_nodup := ?_, sched_edges := ?_, sched_count := ?_, sched_respects := ?_ }
  · intro c hc
    simp only [coversInput, List.all_eq_true, List.any_eq_true] at hci
    obtain ⟨n, hn, hsub⟩ := hci c hc
    exact ⟨n, hn, (subset_iff c n).1 hsub⟩
  · intro a ha
    simp only [coversDomain, List.all_eq_true, List.any_eq_true, List.contains_iff_mem] at hcd
    exact hcd a ha
  · intro a ha b hb hab hsub
    simp only [antichain, List.all_eq_true, Bool.or_eq_true, beq_iff_eq, Bool.not_eq_true'] at hac
    rcases hac a ha b hb with h' | h'
    · exact hab h'
    · rw [(subset_iff a b).2 hsub] at h'; exact absurd h' (by simp)
  · simpa using hec
  · exact connectedWithin_sound t t.nodes hconn
  · intro a ha n hn m hm han ham
    simp only [rip, List.all_eq_true] at hrip
    refine connectedWithin_sound t _ (hrip a ha) n ?_ m ?_
    · simp [hn, han]
    · simp [hm, ham]
  · exact (nodup_iff order).1 hsn
  · intro e he
    simp only [List.all_eq_true, Bool.and_eq_true, List.contains_iff_mem] at hse
    exact hse e he
  · simpa using hsc
  · intro p i j hp k hk hik hkj
    obtain ⟨q, hq, hq'⟩ := scheduleRespects_sound t order [] hsr p i j hp k hk hik hkj
    exact ⟨q, by simpa using hq, by simpa using hq'⟩

/-! ## the greedy elimination order -/

theorem foldl_pick_mem (f : Attr → Nat) (us : List Attr) (u : Attr) :
    us.foldl (fun b a => if f a < f b then a else b) u ∈ u :: us := by
  induction us generalizing u with
  | nil => simp
  | cons x xs ih =>
    simp only [List.foldl_cons]
    by_cases h : f x < f u
    · simp only [h, if_true]
      rcases List.mem_cons.1 (ih x) with h' | h'
      · rw [h']; simp
      · simp [h']
    · simp only [h, if_false]
      rcases List.mem_cons.1 (ih u) with h' | h'
      · rw [h']; simp
      · simp [h']

theorem perm_cons_filter_ne {l : List Attr} (hnd : l.Nodup) {a : Attr} (ha : a ∈ l) :
    (a :: l.filter (· != a)).Perm l := by
  rw [← hnd.erase_eq_filter]
  exact (List.perm_cons_erase ha).symm

theorem greedyOrder_perm_aux (d : Dom) : ∀ (fuel : Nat) (cliques : List Clique) (unmarked : List Attr),
    unmarked.Nodup → unmarked.length ≤ fuel → (greedyOrder d cliques unmarked fuel).Perm unmarked := by
  intro fuel
  induction fuel with
  | zero =>
    intro cliques unmarked _ hlen
    have : unmarked = [] := List.eq_nil_of_length_eq_zero (Nat.le_zero.1 hlen)
    subst this
    simp [greedyOrder]
  | succ fuel ih =>
    intro cliques unmarked hnd hlen
    cases unmarked with
    | nil => simp [greedyOrder]
    | cons u us =>
      simp only [greedyOrder]
      have hb := foldl_pick_mem (fun a => d.sizeOf (List.foldl union []
        (List.filter (fun cl => List.contains cl a) cliques))) us u
      generalize List.foldl _ u us = best at hb ⊢
      have hp := perm_cons_filter_ne hnd hb
      refine List.Perm.trans (List.Perm.cons _ (ih _ _ (hnd.filter _) ?_)) hp
      have hl := hp.length_eq
      simp only [List.length_cons] at hl hlen
      omega


theorem greedyOrder_perm (d : Dom) (cliques : List Clique) (attrs : List Attr) (h : attrs.Nodup) :
    (greedyOrder d cliques attrs attrs.length).Perm attrs :=
  greedyOrder_perm_aux d attrs.length cliques attrs h (Nat.le_refl _)

/-! ## graphs: `addEdges`, `pairs`, `makeGraph`, `triangulate` -/

theorem adj_iff (g : Graph) (a b : Attr) :
    g.adj a b = true ↔ a ≠ b ∧ ((a, b) ∈ g.edges ∨ (b, a) ∈ g.edges) := by
  simp [Graph.adj]

theorem adj_symm (g : Graph) (a b : Attr) : g.adj a b = g.adj b a := by
  rw [Bool.eq_iff_iff, adj_iff, adj_iff]
  constructor <;> rintro ⟨h, h'⟩ <;> exact ⟨fun e => h e.symm, h'.symm⟩

theorem adj_addEdges (g : Graph) (es : List (Attr × Attr)) (a b : Attr) :
    (g.addEdges es).adj a b = true ↔
      g.adj a b = true ∨ (a ≠ b ∧ ((a, b) ∈ es ∨ (b, a) ∈ es)) := by
  by_cases hg : g.adj a b = true
  · have hg' := hg
    rw [adj_iff] at hg'
    simp only [hg, true_or, iff_true]
    rw [adj_iff]
    refine ⟨hg'.1, ?_⟩
    simp only [Graph.addEdges, List.mem_append]
    rcases hg'.2 with h | h
    · exact Or.inl (Or.inl h)
    · exact Or.inr (Or.inl h)
  · have hg2 : g.adj b a = false := by rw [adj_symm]; simpa using hg
    have hg1 : g.adj a b = false := by simpa using hg
    have hne : ¬ (a ≠ b ∧ ((a, b) ∈ g.edges ∨ (b, a) ∈ g.edges)) := by
      rw [← adj_iff]; exact hg
    rw [adj_iff]
    simp only [Graph.addEdges, List.mem_append, List.mem_filter, hg1, hg2]
    constructor
    · rintro ⟨hab, h⟩
      right
      refine ⟨hab, ?_⟩
      rcases h with (h | h) | (h | h)
      · exact absurd ⟨hab, Or.inl h⟩ hne
      · exact Or.inl h.1
      · exact absurd ⟨hab, Or.inr h⟩ hne
      · exact Or.inr h.1
    · rintro (h | ⟨hab, h⟩)
      · exact absurd h (by simp)
      · refine ⟨hab, ?_⟩
        have hba : b ≠ a := fun e => hab e.symm
        rcases h with h | h
        · exact Or.inl (Or.inr ⟨h, by simp [hab]⟩)
        · exact Or.inr (Or.inr ⟨h, by simp [hba]⟩)

theorem adj_removeNode (g : Graph) (v a b : Attr) :
    (g.removeNode v).adj a b = true ↔ g.adj a b = true ∧ a ≠ v ∧ b ≠ v := by
  rw [adj_iff, adj_iff]
  simp only [Graph.removeNode, List.mem_filter, Bool.and_eq_true, bne_iff_ne, ne_eq]
  constructor
  · rintro ⟨hab, (⟨h, h1, h2⟩ | ⟨h, h1, h2⟩)⟩
    · exact ⟨⟨hab, Or.inl h⟩, h1, h2⟩
    · exact ⟨⟨hab, Or.inr h⟩, h2, h1⟩
  · rintro ⟨⟨hab, h | h⟩, h1, h2⟩
    · exact ⟨hab, Or.inl ⟨h, h1, h2⟩⟩
    · exact ⟨hab, Or.inr ⟨h, h2, h1⟩⟩

theorem mem_pairs {l : List Attr} {a b : Attr} (h : (a, b) ∈ pairs l) : a ∈ l ∧ b ∈ l := by
  induction l with
  | nil => simp [pairs] at h
  | cons x xs ih =>
    simp only [pairs, List.mem_append, List.mem_map] at h
    rcases h with ⟨y, hy, he⟩ | h
    · cases he; exact ⟨by simp, by simp [hy]⟩
    · have := ih h; exact ⟨by simp [this.1], by simp [this.2]⟩

theorem pairs_complete {l : List Attr} {a b : Attr} (ha : a ∈ l) (hb : b ∈ l) (hab : a ≠ b) :
    (a, b) ∈ pairs l ∨ (b, a) ∈ pairs l := by
  induction l with
  | nil => simp at ha
  | cons x xs ih =>
    simp only [pairs, List.mem_append, List.mem_map]
    rcases List.mem_cons.1 ha with rfl | ha'
    · rcases List.mem_cons.1 hb with rfl | hb'
      · exact absurd rfl hab
      · exact Or.inl (Or.inl ⟨b, hb', rfl⟩)
    · rcases List.mem_cons.1 hb with rfl | hb'
      · exact Or.inr (Or.inl ⟨a, ha', rfl⟩)
      · rcases ih ha' hb' with h | h
        · exact Or.inl (Or.inr h)
        · exact Or.inr (Or.inr h)

theorem triangulate_mono (g : Graph) (order : List Attr) (a b : Attr) (h : g.adj a b = true) :
    (triangulate g order).adj a b = true := by
  rw [triangulate, adj_addEdges]; exact Or.inl h

theorem makeGraph_fold_mono (cliques : List Clique) (g : Graph) (a b : Attr) (h : g.adj a b = true) :
    (cliques.foldl (fun g cl => g.addEdges (pairs cl)) g).adj a b = true := by
  induction cliques generalizing g with
  | nil => exact h
  | cons c cs ih =>
    simp only [List.foldl_cons]
    apply ih
    rw [adj_addEdges]; exact Or.inl h

theorem makeGraph_fold_complete (cliques : List Clique) (g : Graph) (c : Clique) (hc : c ∈ cliques)
    (a b : Attr) (ha : a ∈ c) (hb : b ∈ c) (hab : a ≠ b) :
    (cliques.foldl (fun g cl => g.addEdges (pairs cl)) g).adj a b = true := by
  induction cliques generalizing g with
  | nil => simp at hc
  | cons c' cs ih =>
    simp only [List.foldl_cons]
    rcases List.mem_cons.1 hc with rfl | hc'
    · apply makeGraph_fold_mono
      rw [adj_addEdges]
      exact Or.inr ⟨hab, pairs_complete ha hb hab⟩
    · exact ih _ hc'

set_option linter.unusedVariables false in
theorem makeGraph_complete (attrs : List Attr) (cliques : List Clique) (c : Clique) (hc : c ∈ cliques)
    (a b : Attr) (ha : a ∈ c) (hb : b ∈ c) (hab : a ≠ b) (hsub : ∀ x ∈ c, x ∈ attrs) :
    (makeGraph attrs cliques).adj a b = true :=
  makeGraph_fold_complete cliques _ c hc a b ha hb hab


/-! ## the elimination game yields a perfect elimination order -/

/-- adjacency in the triangulated graph, unfolded -/
def TA (g : Graph) (order : List Attr) (a b : Attr) : Prop :=
  g.adj a b = true ∨ (a ≠ b ∧ ((a, b) ∈ fillIn g order ∨ (b, a) ∈ fillIn g order))

theorem triangulate_adj (g : Graph) (order : List Attr) (a b : Attr) :
    (triangulate g order).adj a b = true ↔ TA g order a b := by
  rw [triangulate, adj_addEdges]; rfl

theorem mem_nbrs {g : Graph} {v a : Attr} : a ∈ g.nbrs v ↔ a ∈ g.nodes ∧ g.adj v a = true := by
  simp [Graph.nbrs]

theorem adj_irrefl (g : Graph) (a : Attr) : g.adj a a = false := by
  simp [Graph.adj]

/-- every fill-in edge joins two nodes of the current graph -/
theorem fillIn_nodes (g : Graph) (order : List Attr) (a b : Attr) (h : (a, b) ∈ fillIn g order) :
    a ∈ g.nodes ∧ b ∈ g.nodes := by
  induction order generalizing g with
  | nil => simp [fillIn] at h
  | cons v rest ih =>
    simp only [fillIn, List.mem_append, List.mem_filter] at h
    rcases h with ⟨h, _⟩ | h
    · have := mem_pairs h
      exact ⟨(mem_nbrs.1 this.1).1, (mem_nbrs.1 this.2).1⟩
    · have := ih _ h
      have h1 : a ∈ g.nodes.filter (· != v) := this.1
      have h2 : b ∈ g.nodes.filter (· != v) := this.2
      exact ⟨(List.mem_filter.1 h1).1, (List.mem_filter.1 h2).1⟩

theorem fillIn_tail_ne (g : Graph) (v : Attr) (rest : List Attr) (a b : Attr)
    (h : (a, b) ∈ fillIn ((g.addEdges (pairs (g.nbrs v))).removeNode v) rest) : a ≠ v ∧ b ≠ v := by
  have := fillIn_nodes _ _ _ _ h
  have h1 : a ∈ g.nodes.filter (· != v) := this.1
  have h2 : b ∈ g.nodes.filter (· != v) := this.2
  simpa using And.intro (List.mem_filter.1 h1).2 (List.mem_filter.1 h2).2

theorem TA_cons (g : Graph) (u : Attr) (rest : List Attr) (a b : Attr) (ha : a ≠ u) (hb : b ≠ u) :
    TA g (u :: rest) a b ↔ TA ((g.addEdges (pairs (g.nbrs u))).removeNode u) rest a b := by
  unfold TA
  rw [adj_removeNode, adj_addEdges]
  simp only [fillIn, List.mem_append, List.mem_filter]
  have hs := adj_symm g a b
  by_cases hg : g.adj a b = true
  · simp [hg, ha, hb]
  · have hg1 : g.adj a b = false := by simpa using hg
    have hg2 : g.adj b a = false := by rw [← hs]; exact hg1
    simp only [hg1, hg2]
    simp
    have ha' : ¬ a = u := ha
    have hb' : ¬ b = u := hb
    constructor
    · rintro ⟨hab, (h | h) | (h | h)⟩
      · exact Or.inl ⟨⟨hab, Or.inl h⟩, ha', hb'⟩
      · exact Or.inr ⟨hab, Or.inl h⟩
      · exact Or.inl ⟨⟨hab, Or.inr h⟩, ha', hb'⟩
      · exact Or.inr ⟨hab, Or.inr h⟩
    · rintro (⟨⟨hab, h | h⟩, _⟩ | ⟨hab, h | h⟩)
      · exact ⟨hab, Or.inl (Or.inl h)⟩
      · exact ⟨hab, Or.inr (Or.inl h)⟩
      · exact ⟨hab, Or.inl (Or.inr h)⟩
      · exact ⟨hab, Or.inr (Or.inr h)⟩

theorem TA_head (g : Graph) (v : Attr) (rest : List Attr) (x : Attr) (h : TA g (v :: rest) v x) :
    g.adj v x = true := by
  rcases h with h | ⟨hvx, h⟩
  · exact h
  · exfalso
    simp only [fillIn, List.mem_append, List.mem_filter] at h
    rcases h with (⟨h, _⟩ | h) | (⟨h, _⟩ | h)
    · have := (mem_nbrs.1 (mem_pairs h).1).2
      rw [adj_irrefl] at this; exact absurd this (by simp)
    · exact (fillIn_tail_ne _ _ _ _ _ h).1 rfl
    · have := (mem_nbrs.1 (mem_pairs h).2).2
      rw [adj_irrefl] at this; exact absurd this (by simp)
    · exact (fillIn_tail_ne _ _ _ _ _ h).2 rfl

theorem peo_aux (pre : List Attr) : ∀ (g : Graph) (order : List Attr), order.Nodup →
    (∀ a ∈ order, a ∈ g.nodes) → ∀ (v : Attr) (post : List Attr), order = pre ++ v :: post →
    ∀ x y, x ∈ post → y ∈ post → x ≠ y → TA g order v x → TA g order v y → TA g order x y := by
  induction pre with
  | nil =>
    intro g order hnd hsub v post hsplit x y hx hy hxy hvx hvy
    simp only [List.nil_append] at hsplit
    subst hsplit
    have h1 := TA_head _ _ _ _ hvx
    have h2 := TA_head _ _ _ _ hvy
    have hxn : x ∈ g.nbrs v := mem_nbrs.2 ⟨hsub x (by simp [hx]), h1⟩
    have hyn : y ∈ g.nbrs v := mem_nbrs.2 ⟨hsub y (by simp [hy]), h2⟩
    by_cases hg : g.adj x y = true
    · exact Or.inl hg
    · right
      refine ⟨hxy, ?_⟩
      have hg1 : g.adj x y = false := by simpa using hg
      have hg2 : g.adj y x = false := by rw [adj_symm]; exact hg1
      simp only [fillIn, List.mem_append, List.mem_filter]
      rcases pairs_complete hxn hyn hxy with h | h
      · exact Or.inl (Or.inl ⟨h, by simp [hg1]⟩)
      · exact Or.inr (Or.inl ⟨h, by simp [hg2]⟩)
  | cons u pre ih =>
    intro g order hnd hsub v post hsplit x y hx hy hxy hvx hvy
    subst hsplit
    simp only [List.cons_append, List.nodup_cons] at hnd
    have hvu : v ≠ u := by rintro rfl; exact hnd.1 (by simp)
    have hxu : x ≠ u := by rintro rfl; exact hnd.1 (by simp [hx])
    have hyu : y ≠ u := by rintro rfl; exact hnd.1 (by simp [hy])
    simp only [List.cons_append] at hvx hvy ⊢
    rw [TA_cons _ _ _ _ _ hvu hxu] at hvx
    rw [TA_cons _ _ _ _ _ hvu hyu] at hvy
    rw [TA_cons _ _ _ _ _ hxu hyu]
    refine ih _ _ hnd.2 ?_ v post rfl x y hx hy hxy hvx hvy
    intro a ha
    have hau : a ≠ u := by rintro rfl; exact hnd.1 ha
    have := hsub a (by simp [ha])
    simp [Graph.removeNode, Graph.addEdges, this, hau]

set_option linter.unusedVariables false in
theorem triangulate_peo (g : Graph) (order : List Attr) (hnd : order.Nodup)
    (hsub : ∀ a ∈ order, a ∈ g.nodes)
    (pre post : List Attr) (v : Attr) (hsplit : order = pre ++ v :: post)
    (x y : Attr) (hx : x ∈ post) (hy : y ∈ post) (hxy : x ≠ y)
    (hvx : (triangulate g order).adj v x = true) (hvy : (triangulate g order).adj v y = true) :
    (triangulate g order).adj x y = true := by
  rw [triangulate_adj] at *
  exact peo_aux pre g order hnd hsub v post hsplit x y hx hy hxy hvx hvy


end PGM.JT
