import PGM.Model.JTree
import Mathlib.Logic.Relation
/-! semantic validity of junction trees and soundness of the executable checker -/
namespace PGM.JT

/-- `b` is reachable from `a` along tree edges through nodes of `allowed` only -/
def Conn (t : Tree) (allowed : List Clique) : Clique → Clique → Prop :=
  Relation.ReflTransGen (fun a b => t.adj a b = true ∧ b ∈ allowed)

/-- the property's clauses, semantically -/
structure Valid (attrs : List Attr) (cliques : List Clique) (t : Tree)
    (order : List (Clique × Clique)) : Prop where
  /-- every input clique is contained in some node -/
  covers_input : ∀ c ∈ cliques, ∃ n ∈ t.nodes, ∀ a ∈ c, a ∈ n
  /-- every attribute of the domain appears -/
  covers_domain : ∀ a ∈ attrs, ∃ n ∈ t.nodes, a ∈ n
  /-- no node contains another -/
  antichain : ∀ a ∈ t.nodes, ∀ b ∈ t.nodes, a ≠ b → ¬ (∀ x ∈ a, x ∈ b)
  /-- tree shape: |E| = |V| − 1 and connected -/
  edge_count : t.edges.length + 1 = t.nodes.length
  connected : ∀ n ∈ t.nodes, ∀ m ∈ t.nodes, Conn t t.nodes n m
  /-- running intersection: the nodes containing any given attribute form a connected subtree -/
  rip : ∀ a ∈ attrs, ∀ n ∈ t.nodes, ∀ m ∈ t.nodes, a ∈ n → a ∈ m →
    Conn t (t.nodes.filter (fun k => k.contains a)) n m
  /-- the schedule lists each direction of each tree edge exactly once -/
  sched_nodup : order.Nodup
  sched_edges : ∀ e ∈ t.edges, (e.1, e.2) ∈ order ∧ (e.2, e.1) ∈ order
  sched_count : order.length = 2 * t.edges.length
  /-- and only after every message it depends on -/
  sched_respects : ∀ (p : Nat) (i j : Clique), order[p]? = some (i, j) →
    ∀ k ∈ t.nodes, t.adj i k = true → k ≠ j → ∃ q, q < p ∧ order[q]? = some (k, i)

theorem checkJT_sound (attrs : List Attr) (cliques : List Clique) (t : Tree)
    (order : List (Clique × Clique)) (h : checkJT attrs cliques t order = true) :
    Valid attrs cliques t order := by
  sorry

theorem greedyOrder_perm (d : Dom) (cliques : List Clique) (attrs : List Attr) (h : attrs.Nodup) :
    (greedyOrder d cliques attrs attrs.length).Perm attrs := by
  sorry

theorem triangulate_peo (g : Graph) (order : List Attr) (hnd : order.Nodup)
    (hcov : ∀ a ∈ g.nodes, a ∈ order) (hsub : ∀ a ∈ order, a ∈ g.nodes)
    (hed : ∀ e ∈ g.edges, e.1 ∈ g.nodes ∧ e.2 ∈ g.nodes)
    (pre post : List Attr) (v : Attr) (hsplit : order = pre ++ v :: post)
    (x y : Attr) (hx : x ∈ post) (hy : y ∈ post) (hxy : x ≠ y)
    (hvx : (triangulate g order).adj v x = true) (hvy : (triangulate g order).adj v y = true) :
    (triangulate g order).adj x y = true := by
  sorry

theorem triangulate_mono (g : Graph) (order : List Attr) (a b : Attr) (h : g.adj a b = true) :
    (triangulate g order).adj a b = true := by
  sorry

theorem makeGraph_complete (attrs : List Attr) (cliques : List Clique) (c : Clique) (hc : c ∈ cliques)
    (a b : Attr) (ha : a ∈ c) (hb : b ∈ c) (hab : a ≠ b) (hsub : ∀ x ∈ c, x ∈ attrs) :
    (makeGraph attrs cliques).adj a b = true := by
  sorry

end PGM.JT
