import PGM.Proofs.CliqueVecSem
import PGM.Proofs.CoherentFactor
import PGM.Proofs.OracleLbp
/-!
# Layout of a parameter vector along `theta - alpha*dL` (helpers for `Properties/C18E.lean`)

`Laid d cliques b`: the keys of `b` are the model's cliques and every table is a well-formed table over its clique
(what `CliqueVector.zeros(domain, cliques)` builds).  Kept by `c * b`, `a + b`, `a - b` for any scalar type; implies the
hypotheses of the oracle validity theorems (`PosDom`, non-empty data) when no attribute of the domain has extent 0.
-/
namespace PGM.LocalE2E
open PGM PGM.JT PGM.CVSem PGM.Sem PGM.Coherent PGM.Oracle
variable {α : Type} [Scalar α]

def Laid (d : Dom) (cliques : List Clique) (b : CliqueVec α) : Prop :=
  b.map Prod.fst = cliques ∧ ∀ p ∈ b, p.2.WF ∧ p.2.dom = d.project p.1

theorem Laid.get {d : Dom} {cliques : List Clique} {b : CliqueVec α} (hb : Laid d cliques b) (c : Clique)
    (hc : c ∈ cliques) : (b.get c).WF ∧ (b.get c).dom = d.project c := by
  obtain ⟨f, hf, hmem⟩ := BP.lookup_isSome_of_mem b c (by rw [hb.1]; exact hc)
  rw [BP.get_of_lookup b c f hf]
  exact hb.2 (c, f) hmem

theorem laid_smul (d : Dom) (cliques : List Clique) (c : α) (b : CliqueVec α) (hb : Laid d cliques b) :
    Laid d cliques (CliqueVec.smul c b) := by
  refine ⟨?_, ?_⟩
  · rw [← hb.1]; exact CVSem.keys_map b (fun _ f => f.mulScalar c)
  · intro p hp
    obtain ⟨q, hq, rfl⟩ := List.mem_map.mp hp
    exact ⟨mapVals_WF _ _ (hb.2 q hq).1, (hb.2 q hq).2⟩

theorem laid_addV (d : Dom) (cliques : List Clique) (θ h : CliqueVec α)
    (hθ : Laid d cliques θ) (hh : Laid d cliques h) : Laid d cliques (CliqueVec.addV θ h) := by
  refine ⟨?_, ?_⟩
  · rw [← hθ.1]; exact CVSem.keys_map θ (fun k f => f.add (h.get k))
  · intro p hp
    obtain ⟨q, hq, rfl⟩ := List.mem_map.mp hp
    have hq1 : q.1 ∈ cliques := by rw [← hθ.1]; exact List.mem_map_of_mem hq
    obtain ⟨h1, h2⟩ := hθ.2 q hq
    obtain ⟨h3, h4⟩ := hh.get q.1 hq1
    obtain ⟨h5, h6⟩ := binop_same_dom Scalar.add q.2 (h.get q.1) h1 h3 (h4.trans h2.symm)
    exact ⟨h5, h6.trans h2⟩

/-- `theta - alpha*dL` keeps the layout -/
theorem laid_update (d : Dom) (cliques : List Clique) (θ g : CliqueVec α) (a : α)
    (hθ : Laid d cliques θ) (hg : Laid d cliques g) :
    Laid d cliques (CliqueVec.subV θ (CliqueVec.smul a g)) :=
  laid_addV d cliques θ _ hθ (laid_smul d cliques _ _ (laid_smul d cliques a g hg))

theorem laid_zerosV (d : Dom) (cliques : List Clique) (hcl : ∀ c ∈ cliques, c.Nodup) :
    Laid (α := α) d cliques (CliqueVec.zerosV d cliques) := by
  refine ⟨?_, ?_⟩
  · unfold CliqueVec.zerosV
    rw [List.map_map]
    exact List.map_id' _ |>.symm ▸ (by simp)
  · intro p hp
    unfold CliqueVec.zerosV at hp
    obtain ⟨c, hc, rfl⟩ := List.mem_map.mp hp
    exact ⟨const_WF _ (project_WF d c (hcl c hc)) _, rfl⟩

/-- a laid-out vector satisfies the hypotheses of the oracle validity theorems -/
theorem Laid.pos {d : Dom} {cliques : List Clique} {b : CliqueVec α} (hb : Laid d cliques b) (hd : PosDom d)
    (hsub : ∀ c ∈ cliques, ∀ a ∈ c, a ∈ d.attrs) (c : Clique) (hc : c ∈ cliques) :
    PosDom (b.get c).dom ∧ (b.get c).vals.data.size ≠ 0 := by
  obtain ⟨hw, hdom⟩ := hb.get c hc
  have hp : PosDom (b.get c).dom := by rw [hdom]; exact hd.project c (hsub c hc)
  refine ⟨hp, ?_⟩
  have h3 : (b.get c).vals.data.size = size (b.get c).vals.shape := hw.2.2
  rw [h3, hw.2.1]
  exact hp.size_ne_zero

/-- the persisted messages after `hazan_peng_shashua`: any invariant of one sweep holds at every exit of the loop -/
theorem hpsLoop_msgs_inv (g : RG.Graph) (pot : RG.Region → Factor ℝ) (c0 : RG.Region → ℝ) (T rho conv : ℝ)
    (Q : RG.Msgs ℝ → Prop) (hs : ∀ msgs, Q msgs → Q (RG.hpsSweep g pot c0 T rho msgs).1) :
    ∀ (n done : Nat) (msgs : RG.Msgs ℝ) (mu : CliqueVec ℝ), Q msgs →
      Q (RG.hpsLoop g pot c0 T rho conv n done msgs mu).2.1 := by
  intro n
  induction n with
  | zero => intro done msgs mu hq; exact hq
  | succ n ih =>
    intro done msgs mu hq
    have h := hs msgs hq
    rw [RG.hpsLoop]
    generalize RG.hpsSweep g pot c0 T rho msgs = q at h ⊢
    obtain ⟨m, u⟩ := q
    simp only
    split
    · exact h
    · exact ih _ _ _ h

end PGM.LocalE2E
