import PGM.Generated.GraphicalModelQG
import PGM.Proofs.GMQGen
import PGM.Proofs.GMQKron
import PGM.Proofs.GMQMany
import PGM.Proofs.BPBounded
import PGM.Properties.C01G
import PGM.Properties.C02
/-!
# helpers of `PGM/Properties/C02E.lean` (C02 end to end)

What a `ModelOK` model gives the hypotheses of the C02 / C02G theorems (`FactorsOK`, coverage, a non-empty potential list), the weight
`wgtOf` the generated `datavector` computes (`= 1` on such a model), and the facts about the value the generated
`self.marginals = self.belief_propagation(self.potentials)` stores (`GMQ.manyCalibrate`): keys, well-formedness, calibration,
nonnegativity — the hypotheses `hkeys` / `hwf` / `hcal` / `hnonneg` of `gen_project_cached_correct` and `gen_manyMarginals_correct`.
-/
namespace PGM.GMQE2E
open PGM PGM.JT PGM.GM PGM.Sem PGM.GMQGen PGM.GMGen PGM.C01.GMG
set_option linter.unusedVariables false
set_option linter.unusedSectionVars false

variable {K : Type} [Field K] [LinearOrder K] [IsStrictOrderedRing K]

/-! ## what `ModelOK` gives the query theorems -/
section facts
variable {d : Dom} {cliques : List Clique} {t : Tree} {order : List (Clique × Clique)} {pots : CliqueVec (LogOf K)}

theorem cliques_ne (hok : ModelOK d cliques t order pots) : cliques ≠ [] :=
  hok.nodes ▸ (treeFacts t (Sem.BP.isTree_of_check hok.jt)).nodes_ne

theorem pots_ne (hok : ModelOK d cliques t order pots) : pots ≠ [] := by
  intro h
  apply cliques_ne hok
  rw [← hok.keys, h]
  rfl

theorem factorsOK (hok : ModelOK d cliques t order pots) : FactorsOK d (pots.map Prod.snd) := by
  intro f hf
  obtain ⟨p, hp, rfl⟩ := List.mem_map.mp hf
  have hp1 : p.1 ∈ cliques := by rw [← hok.keys]; exact List.mem_map_of_mem hp
  exact ⟨(hok.pot_ok p hp).1, (hok.pot_ok p hp).2.2,
    fun a ha => (hok.clique_ok p.1 hp1).2 a ((hok.pot_ok p hp).2.1.mem_iff.mp ha)⟩

theorem cover (hok : ModelOK d cliques t order pots) : ∀ a ∈ d.attrs, ∃ p ∈ pots, a ∈ p.2.dom.attrs := by
  intro a ha
  obtain ⟨n, hn, han⟩ := (checkJT_sound d.attrs [] t order hok.jt).covers_domain a ha
  rw [hok.nodes, ← hok.keys] at hn
  obtain ⟨p, hp, rfl⟩ := List.mem_map.mp hn
  exact ⟨p, hp, (hok.pot_ok p hp).2.1.mem_iff.mpr han⟩

/-- the receivers of the scheduled messages are cliques of the model -/
theorem recv_mem (hok : ModelOK d cliques t order pots) : ∀ ij ∈ order, ij.2 ∈ cliques := by
  intro ij hij
  have mk := BP.mok_of_modelOK d cliques t order pots hok
  have hadj := mk.so.adj_of_mem ij.1 ij.2 hij
  have tf := treeFacts t (Sem.BP.isTree_of_check hok.jt)
  rw [← hok.nodes]
  simp only [Tree.adj, Bool.or_eq_true, List.contains_iff_mem] at hadj
  rcases hadj with h | h
  · exact (tf.ends _ h).2.1
  · exact (tf.ends _ h).1

end facts

/-! ## the value `self.marginals = self.belief_propagation(self.potentials)` stores -/
section cache
variable {d : Dom} {cliques : List Clique} {t : Tree} {order : List (Clique × Clique)} {pots : CliqueVec (LogOf K)}

theorem get_map_self {β : Type} [Scalar β] (l : List Clique) (g : Clique → Factor β) (c : Clique) (hc : c ∈ l) :
    CliqueVec.get (l.map (fun x => (x, g x))) c = g c := by
  unfold CliqueVec.get
  rw [BP.lookup_map_self l g c hc]

/-- the generated store, entry by entry: under every clique of the model, the plain reading of the model's table -/
theorem cache_eq (hok : ModelOK d cliques t order pots) (total : LogOf K) :
    GMQ.manyCalibrate toPlain cliques order pots total
      = cliques.map (fun cl => (cl, toPlain ((GM.beliefPropagation cliques order pots total).get cl))) := by
  obtain ⟨h1, h2, _, h4⟩ := modelOK_facts d cliques t order pots hok
  unfold GMQ.manyCalibrate
  rw [gen_beliefPropagation cliques order pots total h1 hok.keys h4 h2 (recv_mem hok)]
  show (List.map _ (List.map _ cliques)) = _
  rw [List.map_map]
  apply List.map_congr_left
  intro cl hcl
  simp only [Function.comp]
  congr 2
  unfold GM.beliefPropagation CliqueVec.get
  dsimp only
  rw [BP.lookup_map_self cliques _ cl hcl]

theorem cache_keys (hok : ModelOK d cliques t order pots) (total : LogOf K) :
    (GMQ.manyCalibrate toPlain cliques order pots total).map Prod.fst = cliques := by
  rw [cache_eq hok, List.map_map]
  exact List.map_id _

theorem cache_get (hok : ModelOK d cliques t order pots) (total : LogOf K) (c : Clique) (hc : c ∈ cliques) :
    (GMQ.manyCalibrate toPlain cliques order pots total).get c
      = toPlain ((GM.beliefPropagation cliques order pots total).get c) := by
  rw [cache_eq hok]
  exact get_map_self cliques (fun cl => toPlain ((GM.beliefPropagation cliques order pots total).get cl)) c hc

/-- the stored tables are well-formed tables over the cliques' attributes with the domain's sizes (`hwf`) -/
theorem cache_wf (hok : ModelOK d cliques t order pots) (total : LogOf K) (hZ : partition d pots ≠ 0) :
    ∀ p ∈ GMQ.manyCalibrate toPlain cliques order pots total, p.2.WF ∧ p.2.dom.attrs.Perm p.1 ∧ p.2.dom.Agrees d := by
  intro p hp
  rw [cache_eq hok] at hp
  obtain ⟨c, hc, rfl⟩ := List.mem_map.mp hp
  obtain ⟨_, hw, hag⟩ := Bd.bp_table_ok d cliques t order pots hok total c hc
  have hσ0 : d.Valid (fun _ => 0) := fun q hq => Bd.sizes_pos_of_partition_ne_zero d pots hok.dom_wf hZ q hq
  have hattrs := (BP.bp_marginals d cliques t order pots hok total hZ c hc _ hσ0).1
  have mk := BP.mok_of_modelOK d cliques t order pots hok
  obtain ⟨_, hpp, _⟩ := mk.pot c (by rw [hok.nodes]; exact hc)
  refine ⟨toPlain_WF _ hw, ?_, hag⟩
  show ((GM.beliefPropagation cliques order pots total).get c).dom.attrs.Perm c
  rw [hattrs]
  exact hpp

/-- the stored tables are calibrated (`hcal`, with `s = total / Z`): C01 `bp_marginals` read through the store -/
theorem cache_cal (hok : ModelOK d cliques t order pots) (total : LogOf K) (hZ : partition d pots ≠ 0) :
    ∀ c ∈ cliques, ∀ σ, d.Valid σ →
      (((GMQ.manyCalibrate toPlain cliques order pots total).get c).sem σ).v
        = total.v / partition d pots * marginal d pots c σ := by
  intro c hc σ hσ
  obtain ⟨_, hw, hag⟩ := Bd.bp_table_ok d cliques t order pots hok total c hc
  obtain ⟨hattrs, hsem⟩ := BP.bp_marginals d cliques t order pots hok total hZ c hc σ hσ
  have mk := BP.mok_of_modelOK d cliques t order pots hok
  obtain ⟨_, hpp, _⟩ := mk.pot c (by rw [hok.nodes]; exact hc)
  have hF : FactorOK d ((GM.beliefPropagation cliques order pots total).get c) :=
    ⟨hw, hag, fun a ha => (hok.clique_ok c hc).2 a (hpp.mem_iff.mp (hattrs ▸ ha))⟩
  rw [cache_get hok total c hc, toPlain_sem _ hw σ (hF.valid hok.dom_wf hσ), hsem]
  ring

/-- the stored tables are nonnegative (`hnonneg`) -/
theorem cache_nonneg (hok : ModelOK d cliques t order pots) (total : LogOf K) (htot : 0 ≤ total.v)
    (hZ : partition d pots ≠ 0) :
    ∀ p ∈ GMQ.manyCalibrate toPlain cliques order pots total, ∀ x ∈ p.2.vals.data.toList, 0 ≤ x.v := by
  intro p hp x hx
  rw [cache_eq hok] at hp
  obtain ⟨c, hc, rfl⟩ := List.mem_map.mp hp
  exact (Bd.bp_entries_bounded_plain d cliques t order pots hok total htot hZ c hc x hx).1

end cache

/-! ## the weight of the generated `datavector`: `wgt = ans.domain.size() / self.domain.size() = 1` when the cliques cover the domain -/
section weight
variable {d : Dom} {cliques : List Clique} {t : Tree} {order : List (Clique × Clique)} {pots : CliqueVec (LogOf K)}

theorem ofNat_plain (n : Nat) : (Scalar.ofNat n : PlainOf K) = ⟨(n : K)⟩ := by
  show (⟨Nat.rec 0 (fun _ acc => acc + 1) n⟩ : PlainOf K) = _
  congr 1
  induction n with
  | zero => simp
  | succ k ih => simp [ih]

theorem size_eq_prod (s : List Nat) : PGM.size s = s.prod := by
  induction s with
  | nil => rfl
  | cons n ns ih => simp [PGM.size, ih]

/-- the sum of the potentials is a table over the WHOLE domain (every attribute lies in some clique): same number of cells -/
theorem logp_size (hok : ModelOK d cliques t order pots) : Dom.size (logpOf cliques pots).dom = Dom.size d := by
  obtain ⟨_, _, h3, _⟩ := modelOK_facts d cliques t order pots hok
  have hget : cliques.map pots.get = pots.map Prod.snd := by
    rw [← hok.keys]; exact Sem.map_get_eq_of_nodup pots h3
  have hfs := factorsOK hok
  have hcov := cover hok
  unfold logpOf
  rw [hget]
  cases hp : pots.map Prod.snd with
  | nil => exact absurd (List.map_eq_nil_iff.mp hp) (pots_ne hok)
  | cons p ps =>
    simp only []
    have hpOK : FactorOK d p := hfs p (by rw [hp]; simp)
    have hpsOK : ∀ f ∈ ps, FactorOK d f := fun f hf => hfs f (by rw [hp]; simp [hf])
    have hlogp : FactorOK d (ps.foldl (Factor.binop Scalar.add) p) := foldl_binop_ok Scalar.add ps p hpOK hpsOK
    have hmem : ∀ a, a ∈ (ps.foldl (Factor.binop Scalar.add) p).dom.attrs ↔ a ∈ d.attrs := by
      intro a
      constructor
      · exact hlogp.2.2 a
      · intro ha
        obtain ⟨q, hq, haq⟩ := hcov a ha
        exact (foldl_binop_mem_attrs Scalar.add ps p a).mpr ⟨q.2, by rw [← hp]; exact List.mem_map_of_mem hq, haq⟩
    show Dom.size (ps.foldl (Factor.binop Scalar.add) p).dom = Dom.size d
    generalize ps.foldl (Factor.binop Scalar.add) p = logp at hlogp hmem
    have hperm : logp.dom.attrs.Perm d.attrs := (List.perm_ext_iff_of_nodup hlogp.1.1 hok.dom_wf).mpr hmem
    unfold Dom.size
    rw [size_eq_prod, size_eq_prod, Dom.shape_eq_map_cfg _ hlogp.1.1, Dom.shape_eq_map_cfg _ hok.dom_wf]
    have : logp.dom.attrs.map logp.dom.cfg = logp.dom.attrs.map d.cfg :=
      List.map_congr_left (fun a ha => ((Dom.agrees_iff _ d hlogp.1.1).mp hlogp.2.1 a ha).symm)
    rw [this]
    exact (hperm.map _).prod_eq

/-- **the weight is 1** -/
theorem wgtOf_one (hok : ModelOK d cliques t order pots) (hsizes : ∀ p ∈ d, 0 < p.2) :
    (wgtOf d cliques pots : PlainOf K) = ⟨1⟩ := by
  unfold wgtOf
  rw [logp_size hok, ofNat_plain]
  show (⟨(Dom.size d : K) * (Dom.size d : K)⁻¹⟩ : PlainOf K) = ⟨1⟩
  congr 1
  apply mul_inv_cancel₀
  have hpos : 0 < Dom.size d := by
    unfold Dom.size
    rw [size_eq_prod]
    apply List.prod_pos
    intro n hn
    obtain ⟨p, hp, rfl⟩ := List.mem_map.mp hn
    exact hsizes p hp
  exact_mod_cast hpos.ne'

end weight

end PGM.GMQE2E
