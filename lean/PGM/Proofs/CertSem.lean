import PGM.Model.Certificate
import PGM.Model.LogOf
import PGM.Proofs.CertAux
import Mathlib.Algebra.Order.Field.Basic
import Mathlib.Algebra.BigOperators.Group.List.Basic
/-! statement for C03: the Frank–Wolfe gap certifies near-optimality over all nonnegative tables -/
set_option linter.unusedVariables false
namespace PGM.Cert
variable {K : Type} [Field K] [LinearOrder K] [IsStrictOrderedRing K]

/-- measurement matrices conform to the table length -/
def Conform (ms : List (List (List (PlainOf K)) × List (PlainOf K))) (n : Nat) : Prop :=
  ∀ m ∈ ms, (∀ r ∈ m.1, r.length = n) ∧ m.2.length = m.1.length

/-- **certificate**: for the squared-error objective, any table `p` and *every* nonnegative table
`q` of the same length with total `T`: `L(p) − L(q) ≤ fwGap p T`.  In particular
`L(p) ≤ min_q L(q) + fwGap p T`, with no reference to an independent solver. -/
theorem fw_gap_bound (ms : List (List (List (PlainOf K)) × List (PlainOf K))) (p q : List (PlainOf K))
    (T : PlainOf K) (hn : 0 < p.length) (hc : Conform ms p.length) (hq : q.length = p.length)
    (hq0 : ∀ x ∈ q, 0 ≤ x.v) (hqT : (q.map (·.v)).sum = T.v) :
    (loss ms p).v - (loss ms q).v ≤ (fwGap ms p T).v := by
  -- first-order convexity, summed over the measurements
  have hconv : vdot (vl (grad ms p)) (vl q) - vdot (vl (grad ms p)) (vl p)
      ≤ (loss ms q).v - (loss ms p).v := by
    rw [grad_vdot, grad_vdot, loss_v, loss_v]
    apply sum_diff_le
    intro m hm
    exact meas_convex m.1 m.2 p q p.length (hc m hm).1 (hc m hm).2
  -- the linear lower bound `T · min g ≤ ⟨g, q⟩`
  have hmin : (minL (grad ms p)).v * (vl q).sum ≤ vdot (vl (grad ms p)) (vl q) := by
    apply mul_sum_le_vdot
    · simp [grad_length, hq]
    · intro a ha
      simp only [vl, List.mem_map] at ha
      obtain ⟨x, hx, rfl⟩ := ha
      exact minL_le _ x hx
    · intro a ha
      simp only [vl, List.mem_map] at ha
      obtain ⟨x, hx, rfl⟩ := ha
      exact hq0 x hx
  have hT : (vl q).sum = T.v := hqT
  rw [hT] at hmin
  have hgap : (fwGap ms p T).v
      = vdot (vl (grad ms p)) (vl p) - T.v * (minL (grad ms p)).v := by
    unfold fwGap
    simp only [sub_v, mul_v, dot_v]
  rw [hgap]
  linarith [mul_comm T.v (minL (grad ms p)).v]

/-- the gap is nonnegative at feasible points (so a reported gap `≤ ε` really brackets the optimum) -/
theorem fw_gap_nonneg (ms : List (List (List (PlainOf K)) × List (PlainOf K))) (p : List (PlainOf K))
    (T : PlainOf K) (hn : 0 < p.length) (hc : Conform ms p.length)
    (hp0 : ∀ x ∈ p, 0 ≤ x.v) (hpT : (p.map (·.v)).sum = T.v) :
    0 ≤ (fwGap ms p T).v := by
  have h := fw_gap_bound ms p p T hn hc rfl hp0 hpT
  simpa using h

/-- a table with zero gap is a global minimiser over all nonnegative tables with that total -/
theorem optimal_of_zero_gap (ms : List (List (List (PlainOf K)) × List (PlainOf K))) (p q : List (PlainOf K))
    (T : PlainOf K) (hn : 0 < p.length) (hc : Conform ms p.length) (hq : q.length = p.length)
    (hq0 : ∀ x ∈ q, 0 ≤ x.v) (hqT : (q.map (·.v)).sum = T.v) (hgap : (fwGap ms p T).v = 0) :
    (loss ms p).v ≤ (loss ms q).v := by
  have h := fw_gap_bound ms p q T hn hc hq hq0 hqT
  rw [hgap] at h
  linarith

end PGM.Cert
