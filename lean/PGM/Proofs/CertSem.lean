import PGM.Model.Certificate
import PGM.Model.LogOf
import Mathlib.Algebra.Order.Field.Basic
import Mathlib.Algebra.BigOperators.Group.List.Basic
/-! statement for C03: the Frank–Wolfe gap certifies near-optimality over all nonnegative tables -/
namespace PGM.Cert
variable {K : Type} [Field K] [LinearOrder K] [IsStrictOrderedRing K]

/-- measurement matrices conform to the table length -/
def Conform (ms : List (List (List (PlainOf K)) × List (PlainOf K))) (n : Nat) : Prop :=
  ∀ m ∈ ms, (∀ r ∈ m.1, r.length = n) ∧ m.2.length = m.1.length

/-- **certificate**: for the squared-error objective, any table `p` and *every* nonnegative table
`q` of the same length with total `T`: `L(p) − L(q) ≤ fwGap p T`.  In particular
`L(p) ≤ min_q L(q) + fwGap p T`, with no reference to an independent solver. -/
theorem fw_gap_bound (ms : List (List (List (PlainOf K)) × List (PlainOf K))) (p q : List (PlainOf K))
    (T : PlainOf K) (hn : 0 < p.length) (hc : Conform ms p.length) (hq : q.length = p.length)
    (hq0 : ∀ x ∈ q, 0 ≤ x.v) (hqT : (q.map (·.v)).sum = T.v) :
    (loss ms p).v - (loss ms q).v ≤ (fwGap ms p T).v := by
  sorry

/-- the gap is nonnegative at feasible points (so a reported gap `≤ ε` really brackets the optimum) -/
theorem fw_gap_nonneg (ms : List (List (List (PlainOf K)) × List (PlainOf K))) (p : List (PlainOf K))
    (T : PlainOf K) (hn : 0 < p.length) (hc : Conform ms p.length)
    (hp0 : ∀ x ∈ p, 0 ≤ x.v) (hpT : (p.map (·.v)).sum = T.v) :
    0 ≤ (fwGap ms p T).v := by
  sorry

/-- a table with zero gap is a global minimiser over all nonnegative tables with that total -/
theorem optimal_of_zero_gap (ms : List (List (List (PlainOf K)) × List (PlainOf K))) (p q : List (PlainOf K))
    (T : PlainOf K) (hn : 0 < p.length) (hc : Conform ms p.length) (hq : q.length = p.length)
    (hq0 : ∀ x ∈ q, 0 ≤ x.v) (hqT : (q.map (·.v)).sum = T.v) (hgap : (fwGap ms p T).v = 0) :
    (loss ms p).v ≤ (loss ms q).v := by
  sorry

end PGM.Cert
