import PGM.Model.Dataset
import PGM.Proofs.Domain
/-! helper lemmas for C15 -/
namespace PGM

namespace Dom
/-- assignment that gives the attributes `cols` the values `c` positionally (0 elsewhere) -/
def assign (cols : List Attr) (c : List Nat) : Attr → Nat :=
  fun a => if cols.contains a then c.getD (cols.idxOf a) 0 else 0
end Dom

namespace Dataset
variable {α : Type} [Scalar α]

/-- every record has one in-range value per attribute -/
def InDomain (D : Dataset α) : Prop :=
  ∀ r ∈ D.rows, r.length = D.dom.shape.length ∧
    ∀ i (hi : i < r.length), 0 ≤ r[i] ∧ (r[i]).toNat < D.dom.shape.getD i 0

/-- total weight of the records equal to cell `c` -/
def tableAt (D : Dataset α) (c : List Nat) : α :=
  (D.rows.zipIdx.map (fun (r, i) => (r, D.weightAt i))).foldl
    (fun acc (r, w) => if r = c.map (fun n : Nat => (n : Int)) then Scalar.add acc w else acc) Scalar.zero

theorem datavector_eq_count (D : Dataset α) (hin : D.InDomain) (c : List Nat)
    (hc : InRange D.dom.shape c) :
    D.datavector[ravel D.dom.shape c]? = some (D.tableAt c) := by
  sorry

theorem datavector_length (D : Dataset α) : D.datavector.length = D.dom.size := by
  sorry

theorem bin1_boundary (n : Nat) (hn : 0 < n) :
    bin1 n (n : Int) = some (n - 1) ∧ bin1 n ((n : Int) + 1) = none ∧ bin1 n (-1) = none := by
  sorry

theorem datavector_project_comm (D : Dataset α) (cols : List Attr)
    (hassoc : ∀ a b c : α, Scalar.add (Scalar.add a b) c = Scalar.add a (Scalar.add b c))
    (hcomm : ∀ a b : α, Scalar.add a b = Scalar.add b a)
    (hzero : ∀ a : α, Scalar.add Scalar.zero a = a)
    (hD : D.dom.WF) (hin : D.InDomain) (hcols : cols.Nodup) (hsub : ∀ a ∈ cols, a ∈ D.dom.attrs)
    (c' : List Nat) (hc' : InRange (D.dom.project cols).shape c') :
    (D.project cols).tableAt c' =
      Scalar.sum ((cells ((D.dom.invert cols).map D.dom.cfg)).map
        (fun v => D.tableAt (D.dom.attrs.map (Dom.override (Dom.assign cols c') (D.dom.invert cols) v)))) := by
  sorry

theorem project_inDomain (D : Dataset α) (cols : List Attr) (hD : D.dom.WF) (hin : D.InDomain)
    (hsub : ∀ a ∈ cols, a ∈ D.dom.attrs) : (D.project cols).InDomain := by
  sorry

end Dataset

namespace Dom

theorem project_project (d : Dom) (as bs : List Attr) (hd : d.WF) (has : as.Nodup)
    (hsub : ∀ b ∈ bs, b ∈ as) (hsub' : ∀ a ∈ as, a ∈ d.attrs) :
    (d.project as).project bs = d.project bs := by
  sorry

theorem merge_attrs (d o : Dom) (ho : o.WF) :
    (d.merge o).attrs = d.attrs ++ o.attrs.filter (fun a => !d.attrs.contains a) := by
  sorry

theorem size_merge (d o : Dom) : (d.merge o).size = d.size * (o.marginalize d.attrs).size := by
  sorry

theorem size_project_mul_size_marginalize (d : Dom) (as : List Attr) (hd : d.WF) :
    (d.project (d.canonical as)).size * (d.marginalize as).size = d.size := by
  sorry

theorem canonical_sublist (d : Dom) (as : List Attr) : (d.canonical as).Sublist d.attrs := by
  sorry

theorem invert_canonical_partition (d : Dom) (as : List Attr) :
    ∀ a ∈ d.attrs, (a ∈ d.canonical as ∧ a ∉ d.invert as) ∨ (a ∉ d.canonical as ∧ a ∈ d.invert as) := by
  sorry

theorem sortSize_perm (d : Dom) (hd : d.WF) : d.sortSize.Perm d := by
  sorry

theorem sortSize_sorted (d : Dom) (hd : d.WF) : d.sortSize.shape.Pairwise (· ≤ ·) := by
  sorry

theorem contains_iff_subset (d o : Dom) : d.contains o = true ↔ ∀ a ∈ o.attrs, a ∈ d.attrs := by
  sorry

theorem axes_index (d : Dom) (as : List Attr) (hsub : ∀ a ∈ as, a ∈ d.attrs) (i : Nat) (hi : i < as.length) :
    d.attrs[(d.axes as).getD i 0]? = as[i]? := by
  sorry

end Dom
end PGM
